package main

// C20 exploration stream: raw byte strings and structured mutations of valid inputs fed to
// the real Helm parsers, loaders and processors.  The only expectation is the property:
// every call returns (result or error) — no panic, no hang.  Nothing here is compared with
// a model; the YAML/JSON/tar/gzip/template/OpenPGP libraries are outside every theorem.

import (
	"archive/tar"
	"bytes"
	"compress/gzip"
	"fmt"
	"math/rand"
	"os"
	"path/filepath"
	"sort"
	"strings"
	"time"

	"sigs.k8s.io/yaml"

	"helm.sh/helm/v4/pkg/action"
	"helm.sh/helm/v4/pkg/chart/v2/loader"
	chartutil "helm.sh/helm/v4/pkg/chart/v2/util"
	helmcmd "helm.sh/helm/v4/pkg/cmd"
	"helm.sh/helm/v4/pkg/cmd/search"
	"helm.sh/helm/v4/pkg/ignore"
	"helm.sh/helm/v4/pkg/lint"
	"helm.sh/helm/v4/pkg/plugin"
	"helm.sh/helm/v4/pkg/provenance"
	releaseutil "helm.sh/helm/v4/pkg/release/util"
	"helm.sh/helm/v4/pkg/strvals"
)

// generous: the machine may be heavily loaded; a real hang (endless loop) still trips it
var c20Timeout = 45 * time.Second

const c20MaxInput = 64 << 10

type c20ExploreC struct {
	Target    string            `json:"target"` // strvals values manifests archive chartfiles lint index prov ignore plugin
	Data      []byte            `json:"data,omitempty"`
	Files     map[string][]byte `json:"files,omitempty"` // chartfiles / lint / archive (tar level)
	Mutations int               `json:"mutations"`
	Note      string            `json:"note,omitempty"`
	Dir       *c20DirC          `json:"dir,omitempty"` // target dir: a chart directory with special files (c20_dir.go)
}

var c20Targets = []string{"strvals", "strvals", "values", "manifests", "archive", "chartfiles", "chartfiles", "lint", "index", "prov", "ignore", "plugin", "actions", "template"}

// ---------- seeds ----------

var c20SeedStrvals = []string{
	"a=b", "a.b.c=1,d=true", "list[0]=a,list[1]=b", "a={1,2,3}", "a[0].b=c", "a[1][2]=x", "name=val\\,ue", "a=null", "a.b=,c=d",
	"nested.list[0].k=v,nested.list[0].j=w", "j={\"x\":1}", "a=1,a.b=2", "a[0]=1,a.b=2", "a.b=2,a[0]=1", "l[0][0][0]=deep", "x[65536]=v", "x[65537]=v",
	"x[-1]=v", "x[99999999999999999999]=v", "x[abc]=v", "x[0", "x[0]", "x[0]y=1", "=v", ".=v", "a..b=v", "a.=v", "[0]=v", "a[0][", "a={", "a={1", "a=}",
	strings.Repeat("a.", 29) + "z=1", strings.Repeat("a.", 30) + "z=1", strings.Repeat("a.", 31) + "z=1", "a" + strings.Repeat("[0]", 40) + "=x",
	"a[0].b[0].c[0].d[0].e=1", "k=\\", "\\=\\", "é=ü,日本=語", "a=\x00,b=\xff\xfe", "a[2]=x,a[0].k=v,a[1][0]=w", "a=b,a[0]=c", "a[0]=b,a=c,a.d=e",
}

var c20SeedValues = []string{
	"a: 1\nb:\n  c: [1, 2, {d: e}]\nglobal:\n  x: y\n", "", "null", "[]", "- a\n- b\n", "a: &x [1,2]\nb: *x\n", "a: !!binary aGVsbG8=\n", "? [a, b]\n: c\n", "a: 1\na: 2\n",
	"a:\n  b:\n    c: ~\n", "\"quoted key\": 'v'\n", "a: 0x10\nb: 1e400\nc: .inf\nd: 012\n", "---\na: 1\n---\nb: 2\n", "{a: {b: {c: {d: {}}}}}", "a: |\n  multi\n  line\n", "\ufeffa: 1\n",
	"&a a: *a\n", "a: &a\n  b: *a\n", "- &a [x]\n- &b [*a,*a]\n- &c [*b,*b]\n- &d [*c,*c]\n", "tags: {front: true}\nsub: {enabled: no}\n",
}

var c20SeedManifests = []string{
	"---\n# Source: c/templates/a.yaml\napiVersion: v1\nkind: ConfigMap\nmetadata:\n  name: a\n---\napiVersion: batch/v1\nkind: Job\nmetadata:\n  name: h\n  annotations:\n    helm.sh/hook: pre-install,post-install\n    helm.sh/hook-weight: \"5\"\n    helm.sh/hook-delete-policy: hook-succeeded\n",
	"kind: A\n---\nkind: B\n---\n---\n", "---", "--- \n---\t\n", "metadata:\n  annotations: null\n", "metadata: null\nkind: X\n", "metadata:\n  annotations:\n    helm.sh/hook: 5\n",
	"metadata:\n  annotations:\n    helm.sh/hook: [a]\n", "kind: 5\n", "kind: [a]\n", "- a\n- b\n", "just a string", "apiVersion: v1\nkind: List\nitems:\n- kind: ConfigMap\n", "a: b\n--- # comment\nc: d\n",
	"metadata:\n  name: x\n  annotations:\n    helm.sh/hook: \"\"\n", "metadata:\n  name: {a: b}\n", "\n\n---\n\n\n---\nkind: Z\n",
}

var c20SeedIndex = []string{
	"apiVersion: v1\nentries:\n  a:\n  - name: a\n    version: 1.0.0\n    urls: [https://x/a-1.0.0.tgz]\n    created: \"2020-01-01T00:00:00Z\"\n    digest: abc\n  - name: a\n    version: 2.0.0-rc.1\n    urls: []\ngenerated: \"2020-01-01T00:00:00Z\"\n",
	"apiVersion: v1\nentries:\n  a: [null, {name: a, version: 1.0.0}]\n", "apiVersion: v1\n", "entries: {}\n", "apiVersion: v1\nentries: null\n", "apiVersion: v1\nentries: []\n", "apiVersion: v1\nentries:\n  a: {}\n",
	"apiVersion: v1\nentries:\n  a:\n  - urls: [x]\n", "apiVersion: v1\nentries:\n  a:\n  - name: a\n    version: 1.0.0\n    dependencies: [null]\n    maintainers: [null]\n", "{\"apiVersion\":\"v1\",\"entries\":{\"a\":[null]}}",
	"{\"apiVersion\":\"v1\",\"entries\":{\"a\":[{\"name\":\"a\",\"version\":\"1\",\"urls\":null,\"created\":\"x\"}]}}", "apiVersion: v1\nentries:\n  a:\n  - name: a\n    version: 1.0.0\n    keywords: [null, 5]\n    sources: [null]\n    annotations: {a: null}\n",
	"apiVersion: v1\nserverInfo: {contextPath: /x}\nentries: {a: [{name: a, version: 1.0.0, unknownField: 1}]}\n", "apiVersion: v1\nentries:\n  a:\n  - &e {name: a, version: 1.0.0}\n  - *e\n  - *e\n",
}

var c20SeedIgnore = []string{
	"# comment\n*.tgz\n/abs\n!neg\ndir/\n**/deep\n[a-z]?.txt\n", "", "\n\n", "[", "a[", "\\", "**", "!", "!/", "/", "a/**/b", "*/", "[]", "[^]", "[!", "a\\", "\x00", strings.Repeat("*", 200), "{a,b}", "a/b/../c", " spaced \n\ttab\n",
}

var c20SeedPlugin = []string{
	"name: myplug\nversion: 0.1.0\nusage: u\ndescription: d\ncommand: $HELM_PLUGIN_DIR/x.sh\nhooks:\n  install: echo\n", "name: p\nplatformCommand:\n- os: linux\n  arch: amd64\n  command: x\n  args: [a]\n", "", "null", "[]", "name: \"bad name\"\n",
	"name: p\ncommand: x\nplatformCommand: [{command: y}]\n", "name: p\nplatformCommand: [null]\n", "name: p\ndownloaders: [null]\n", "name: p\ndownloaders:\n- protocols: [null, x]\n  command: c\n", "name: p\nhooks: null\nplatformHooks: {install: [null]}\n",
	"name: p\nunknown: 1\n", "name: p\nignoreFlags: yes\n", "name: p\nuseTunnel: 5\n",
}

func c20SeedChartFiles() map[string][]byte {
	return map[string][]byte{
		"Chart.yaml":                    []byte("apiVersion: v2\nname: top\nversion: 1.2.3\ndescription: d\ntype: application\nkeywords: [a]\nmaintainers:\n- name: m\n  email: m@example.com\ndependencies:\n- name: sub\n  version: \">=0.1.0\"\n  repository: https://example.com\n  condition: sub.enabled\n  tags: [front]\n  import-values:\n  - data\n  - child: sect\n    parent: imported\n- name: sub\n  version: 0.1.0\n  repository: https://example.com\n  alias: other\n"),
		"values.yaml":                   []byte("replicas: 1\nname: x\nsub:\n  enabled: true\n  k: parent\ntags:\n  front: true\nglobal:\n  g: 1\nlist: [a, b]\n"),
		"values.schema.json":            []byte(`{"$schema":"http://json-schema.org/draft-07/schema#","type":"object","properties":{"replicas":{"type":"integer","minimum":0},"name":{"type":"string"}},"required":["replicas"]}`),
		"templates/_helpers.tpl":        []byte("{{- define \"top.name\" -}}{{ .Values.name | default .Chart.Name | trunc 63 }}{{- end -}}\n{{- define \"top.rec\" -}}{{ include \"top.rec\" . }}{{- end -}}\n"),
		"templates/cm.yaml":             []byte("apiVersion: v1\nkind: ConfigMap\nmetadata:\n  name: {{ include \"top.name\" . }}\n  annotations:\n    helm.sh/hook: pre-install\n    helm.sh/hook-weight: \"{{ .Values.replicas }}\"\ndata:\n  v: {{ .Values.list | toYaml | nindent 4 }}\n  t: {{ tpl \"{{ .Values.name }}\" . | quote }}\n{{- range $k, $v := .Values.sub }}\n  {{ $k }}: {{ $v | quote }}\n{{- end }}\n  r: {{ required \"need name\" .Values.name }}\n"),
		"templates/NOTES.txt":           []byte("Release {{ .Release.Name }} in {{ .Release.Namespace }}\n"),
		"crds/crd.yaml":                 []byte("apiVersion: apiextensions.k8s.io/v1\nkind: CustomResourceDefinition\nmetadata:\n  name: x.example.com\n"),
		".helmignore":                   []byte("*.bak\n"),
		"charts/sub/Chart.yaml":         []byte("apiVersion: v2\nname: sub\nversion: 0.1.0\n"),
		"charts/sub/values.yaml":        []byte("enabled: true\nk: v\nexports:\n  data:\n    exported: 1\nsect:\n  s: t\n"),
		"charts/sub/values.schema.json": []byte(`{"type":"object","properties":{"k":{"type":"string"}}}`),
		"charts/sub/templates/s.yaml":   []byte("kind: Secret\napiVersion: v1\nmetadata:\n  name: {{ .Release.Name }}-s\nstringData:\n  k: {{ .Values.k }}\n  g: {{ .Values.global.g }}\n"),
	}
}

var c20YAMLTokens = []string{"null", "~", "[]", "{}", "- null\n", "!!binary ", "&a ", "*a", "? ", ": ", "- ", "\n---\n", "\t", "\"", "'", "|", ">", "0x7fffffffffffffff", "1e999", "-0", ".nan", "\x00", "\xff", "\u2028",
	"{{", "}}", "{{ . }}", "{{ include \"top.rec\" . }}", "{{ tpl .Values.name . }}", "{{ fail \"x\" }}", "{{ index .Values \"a\" \"b\" }}", "{{ .Values.a.b.c }}", "{{ range $i := until 100000 }}x{{ end }}",
	"{{ template \"nope\" }}", "{{ lookup \"v1\" \"Pod\" \"\" \"\" }}", "{{ toYaml . }}", "{{ required \"\" nil }}", "{{ define \"x\" }}", "{{ end }}", "{{- /* c */ -}}", "import-values: [5]", "dependencies: [null]", "maintainers: [null]",
	"alias: ../x", "version: \"\"", "name: ../../etc", "condition: a..b,", "tags: [null]", "$ref", "\"$ref\": \"#/definitions/x\"", "\"type\": 5", "[65536]", "[-1]", "..", ",,", "==", "\\"}

// ---------- mutations ----------

func c20MutBytes(r *rand.Rand, b []byte) []byte {
	b = append([]byte(nil), b...)
	switch r.Intn(9) {
	case 0: // flip bits
		for i := 0; i < 1+r.Intn(4) && len(b) > 0; i++ {
			b[r.Intn(len(b))] ^= 1 << uint(r.Intn(8))
		}
	case 1: // delete a range
		if len(b) > 1 {
			i := r.Intn(len(b))
			j := i + 1 + r.Intn(minInt(len(b)-i, 16))
			b = append(b[:i], b[minInt(j, len(b)):]...)
		}
	case 2: // insert a token
		t := c20YAMLTokens[r.Intn(len(c20YAMLTokens))]
		i := r.Intn(len(b) + 1)
		b = append(b[:i], append([]byte(t), b[i:]...)...)
	case 3: // truncate
		if len(b) > 0 {
			b = b[:r.Intn(len(b))]
		}
	case 4: // duplicate a range
		if len(b) > 1 {
			i := r.Intn(len(b))
			j := i + 1 + r.Intn(minInt(len(b)-i, 64))
			seg := append([]byte(nil), b[i:minInt(j, len(b))]...)
			b = append(b[:i], append(seg, b[i:]...)...)
		}
	case 5: // replace a line
		lines := bytes.Split(b, []byte("\n"))
		if len(lines) > 0 {
			lines[r.Intn(len(lines))] = []byte(c20YAMLTokens[r.Intn(len(c20YAMLTokens))])
			b = bytes.Join(lines, []byte("\n"))
		}
	case 6: // change indentation of a line
		lines := bytes.Split(b, []byte("\n"))
		if len(lines) > 0 {
			i := r.Intn(len(lines))
			if r.Intn(2) == 0 {
				lines[i] = append([]byte("  "), lines[i]...)
			} else {
				lines[i] = bytes.TrimLeft(lines[i], " ")
			}
			b = bytes.Join(lines, []byte("\n"))
		}
	case 7: // random bytes
		i := r.Intn(len(b) + 1)
		n := 1 + r.Intn(8)
		rb := make([]byte, n)
		r.Read(rb)
		b = append(b[:i], append(rb, b[i:]...)...)
	case 8: // swap two lines
		lines := bytes.Split(b, []byte("\n"))
		if len(lines) > 1 {
			i, j := r.Intn(len(lines)), r.Intn(len(lines))
			lines[i], lines[j] = lines[j], lines[i]
			b = bytes.Join(lines, []byte("\n"))
		}
	}
	if len(b) > c20MaxInput {
		b = b[:c20MaxInput]
	}
	return b
}

func minInt(a, b int) int {
	if a < b {
		return a
	}
	return b
}

// c20MutTree replaces / inserts / removes a random node of a decoded YAML document.
func c20MutTree(r *rand.Rand, v interface{}, depth int) interface{} {
	repl := func() interface{} {
		switch r.Intn(9) {
		case 0:
			return nil
		case 1:
			return r.Intn(2) == 0
		case 2:
			return float64(r.Intn(100) - 50)
		case 3:
			return []string{"", "str", "a.b", "../x", "1.0.0", "*", "null", "true"}[r.Intn(8)]
		case 4:
			return []interface{}{}
		case 5:
			return []interface{}{nil}
		case 6:
			return map[string]interface{}{}
		case 7:
			return map[string]interface{}{"child": float64(1), "parent": nil}
		}
		return []interface{}{map[string]interface{}{"name": nil}, "x", float64(2)}
	}
	if depth <= 0 || r.Intn(4) == 0 {
		return repl()
	}
	switch x := v.(type) {
	case map[string]interface{}:
		if len(x) == 0 {
			return repl()
		}
		keys := make([]string, 0, len(x))
		for k := range x {
			keys = append(keys, k)
		}
		sort.Strings(keys)
		k := keys[r.Intn(len(keys))]
		out := map[string]interface{}{}
		for kk, vv := range x {
			out[kk] = vv
		}
		switch r.Intn(6) {
		case 0:
			delete(out, k)
		case 1:
			out[k+"x"] = repl()
		default:
			out[k] = c20MutTree(r, x[k], depth-1)
		}
		return out
	case []interface{}:
		if len(x) == 0 {
			return repl()
		}
		i := r.Intn(len(x))
		out := append([]interface{}(nil), x...)
		switch r.Intn(6) {
		case 0:
			out = append(out[:i], out[i+1:]...)
		case 1:
			out = append(out, nil)
		case 2:
			out = append(out, out[i])
		default:
			out[i] = c20MutTree(r, x[i], depth-1)
		}
		return out
	}
	return repl()
}

func c20MutYAML(r *rand.Rand, b []byte) []byte {
	var v interface{}
	if err := yaml.Unmarshal(b, &v); err != nil || v == nil {
		return c20MutBytes(r, b)
	}
	out, err := yaml.Marshal(c20MutTree(r, v, 6))
	if err != nil {
		return c20MutBytes(r, b)
	}
	return out
}

func c20MutText(r *rand.Rand, b []byte, yamlish bool) ([]byte, int) {
	n := r.Intn(4)
	for i := 0; i < n; i++ {
		if yamlish && r.Intn(2) == 0 {
			b = c20MutYAML(r, b)
		} else {
			b = c20MutBytes(r, b)
		}
	}
	return b, n
}

// ---------- archives ----------

type c20TarEntry struct {
	Name string
	Type byte
	Data []byte
	Size int64 // header size override when > 0
	Mode int64
}

func c20BuildTgz(entries []c20TarEntry) []byte {
	var buf bytes.Buffer
	zw := gzip.NewWriter(&buf)
	tw := tar.NewWriter(zw)
	for _, e := range entries {
		h := &tar.Header{Name: e.Name, Typeflag: e.Type, Mode: 0o644, Size: int64(len(e.Data)), ModTime: time.Unix(0, 0)}
		if e.Mode != 0 {
			h.Mode = e.Mode
		}
		if e.Type == tar.TypeDir || e.Type == tar.TypeSymlink || e.Type == tar.TypeLink {
			h.Size = 0
			if e.Type != tar.TypeDir {
				h.Linkname = string(e.Data)
			}
		}
		if err := tw.WriteHeader(h); err != nil {
			continue
		}
		if h.Size > 0 {
			tw.Write(e.Data)
		}
	}
	tw.Close()
	zw.Close()
	return buf.Bytes()
}

func c20FilesToTar(r *rand.Rand, files map[string][]byte, prefix string, weird bool) []c20TarEntry {
	names := make([]string, 0, len(files))
	for n := range files {
		names = append(names, n)
	}
	sort.Strings(names)
	if r != nil {
		r.Shuffle(len(names), func(i, j int) { names[i], names[j] = names[j], names[i] })
	}
	var es []c20TarEntry
	for _, n := range names {
		es = append(es, c20TarEntry{Name: prefix + n, Type: tar.TypeReg, Data: files[n]})
	}
	if weird && r != nil {
		for i := 0; i < 1+r.Intn(3); i++ {
			w := []c20TarEntry{
				{Name: "../escape.yaml", Type: tar.TypeReg, Data: []byte("x")},
				{Name: "/abs/Chart.yaml", Type: tar.TypeReg, Data: []byte("name: x")},
				{Name: prefix, Type: tar.TypeDir},
				{Name: prefix + "link", Type: tar.TypeSymlink, Data: []byte("/etc/passwd")},
				{Name: prefix + "hard", Type: tar.TypeLink, Data: []byte("Chart.yaml")},
				{Name: "", Type: tar.TypeReg, Data: []byte("x")},
				{Name: "noprefix", Type: tar.TypeReg, Data: []byte("x")},
				{Name: prefix + "charts/sub-0.1.0.tgz", Type: tar.TypeReg, Data: []byte("not a tgz")},
				{Name: prefix + "charts/_ignored/Chart.yaml", Type: tar.TypeReg, Data: []byte("name: i")},
				{Name: prefix + "charts/plain-file", Type: tar.TypeReg, Data: []byte("x")},
				{Name: prefix + strings.Repeat("d/", 60) + "f", Type: tar.TypeReg, Data: []byte("x")},
				{Name: prefix + "Chart.yaml", Type: tar.TypeReg, Data: []byte("apiVersion: v2\nname: second\nversion: 9.9.9\n")},
				{Name: prefix + "templates/\x00nul.yaml", Type: tar.TypeReg, Data: []byte("x")},
				{Name: "other/Chart.yaml", Type: tar.TypeReg, Data: []byte("apiVersion: v2\nname: other\nversion: 1.0.0\n")},
				{Name: prefix + "values.yaml", Type: tar.TypeXGlobalHeader, Data: nil},
				{Name: prefix + "big", Type: tar.TypeReg, Data: bytes.Repeat([]byte("0123456789abcdef"), 4096)},
			}[r.Intn(16)]
			pos := r.Intn(len(es) + 1)
			es = append(es[:pos], append([]c20TarEntry{w}, es[pos:]...)...)
		}
	}
	return es
}

// ---------- generation ----------

func c20ExploreCorpus() []any {
	var out []any
	add := func(t string, d []byte) {
		out = append(out, c20Case{Kind: "explore", Explore: &c20ExploreC{Target: t, Data: d}})
	}
	for _, s := range c20SeedStrvals {
		add("strvals", []byte(s))
	}
	for _, s := range c20SeedValues {
		add("values", []byte(s))
	}
	for _, s := range c20SeedManifests {
		add("manifests", []byte(s))
	}
	for _, s := range c20SeedIndex {
		add("index", []byte(s))
	}
	for _, s := range c20SeedIgnore {
		add("ignore", []byte(s))
	}
	for _, s := range c20SeedPlugin {
		add("plugin", []byte(s))
	}
	out = append(out, c20Case{Kind: "explore", Explore: &c20ExploreC{Target: "chartfiles", Files: c20SeedChartFiles()}})
	out = append(out, c20Case{Kind: "explore", Explore: &c20ExploreC{Target: "lint", Files: c20SeedChartFiles()}})
	out = append(out, c20Case{Kind: "explore", Explore: &c20ExploreC{Target: "archive", Data: c20BuildTgz(c20FilesToTar(nil, c20SeedChartFiles(), "top/", false))}})
	out = append(out, c20Case{Kind: "explore", Explore: &c20ExploreC{Target: "prov", Data: nil, Note: "unmodified"}})
	// witnesses of the known finding K8 (action-level consumers of records without info / chart metadata)
	for _, w := range [][2]string{{"list", "noinfo"}, {"status", "noinfo"}, {"getmetadata", "noinfo"}, {"getmetadata", "nochart"}, {"getmetadata", "nometa"}} {
		out = append(out, c20Case{Kind: "explore", Explore: &c20ExploreC{Target: "actions", Note: w[0], Data: []byte(w[1]), Mutations: 1}})
	}
	// the helm-template path: the unmutated chart with every extra once (symlink loops, alias bombs,
	// deep YAML, include / template / tpl recursion incl. the witness of 156f591)
	for i, x := range c20TemplateExtras[1:] {
		out = append(out, c20Case{Kind: "explore", Explore: &c20ExploreC{Target: "template", Files: c20SeedChartFiles(), Note: x, Data: []byte{0, 0, 0, byte(i)}, Mutations: 1}})
	}
	// replay of the known finding K10 (include x template: the two depth bounds multiply)
	out = append(out, c20Case{Kind: "explore", Explore: &c20ExploreC{Target: "template", Files: c20SeedChartFiles(), Note: c20KnownStackWitness, Data: []byte{0, 0, 0, 0}, Mutations: 1}})
	// witness of 385b115: lint of a chart whose maintainers list has a null item
	f := c20SeedChartFiles()
	f["Chart.yaml"] = []byte("apiVersion: v2\nname: top\nversion: 1.2.3\nmaintainers:\n- null\n")
	out = append(out, c20Case{Kind: "explore", Explore: &c20ExploreC{Target: "lint", Files: f, Mutations: 1, Note: "null maintainer"}})
	return out
}

func c20GenExplore(r *rand.Rand) *c20ExploreC {
	t := c20Targets[r.Intn(len(c20Targets))]
	e := &c20ExploreC{Target: t}
	raw := func(seeds []string, yamlish bool) {
		if r.Intn(8) == 0 { // pure random bytes
			n := r.Intn(200)
			e.Data = make([]byte, n)
			r.Read(e.Data)
			e.Mutations, e.Note = 1, "random"
			return
		}
		e.Data, e.Mutations = c20MutText(r, []byte(seeds[r.Intn(len(seeds))]), yamlish)
		if e.Mutations == 0 { // splice two seeds instead
			e.Data = append(e.Data, []byte(seeds[r.Intn(len(seeds))])...)
			e.Mutations = 1
		}
	}
	switch t {
	case "strvals":
		raw(c20SeedStrvals, false)
		if r.Intn(3) == 0 { // stress the index / nesting limits
			e.Data = []byte(fmt.Sprintf("a%s[%d]%s=v", strings.Repeat(".b", r.Intn(35)), []int{0, 1, 65535, 65536, 65537, -1, 1 << 31, 1 << 40}[r.Intn(8)], strings.Repeat("[0]", r.Intn(4))))
			e.Note = "limits"
		}
	case "values":
		raw(c20SeedValues, true)
	case "manifests":
		raw(c20SeedManifests, true)
	case "index":
		raw(c20SeedIndex, true)
	case "ignore":
		raw(c20SeedIgnore, false)
	case "plugin":
		raw(c20SeedPlugin, true)
	case "actions":
		kinds := []string{"noinfo", "nochart", "nometa", "valid", "garbage"}
		e.Note = c20ActionNames[r.Intn(len(c20ActionNames))]
		e.Data = []byte(kinds[r.Intn(len(kinds))])
		if string(e.Data) != "valid" {
			e.Mutations = 1
		}
	case "prov":
		e.Mutations = 1 + r.Intn(3)
		e.Data = []byte{byte(r.Intn(256)), byte(r.Intn(256)), byte(r.Intn(256)), byte(r.Intn(256)), byte(r.Intn(256)), byte(r.Intn(256)), byte(r.Intn(256)), byte(r.Intn(256))} // mutation seed
	case "chartfiles", "lint", "archive", "template":
		files := c20SeedChartFiles()
		names := make([]string, 0, len(files))
		for n := range files {
			names = append(names, n)
		}
		sort.Strings(names)
		nm := 1 + r.Intn(3)
		for i := 0; i < nm; i++ {
			n := names[r.Intn(len(names))]
			if _, ok := files[n]; !ok {
				continue
			}
			switch r.Intn(10) {
			case 0:
				delete(files, n)
			case 1:
				files[n] = nil
			default:
				yamlish := strings.HasSuffix(n, ".yaml") || strings.HasSuffix(n, ".json")
				if strings.HasPrefix(n, "templates/") || strings.Contains(n, "/templates/") {
					yamlish = false
				}
				files[n], _ = c20MutText(r, files[n], yamlish)
			}
		}
		if r.Intn(6) == 0 {
			files["charts/extra/Chart.yaml"] = []byte("apiVersion: v2\nname: sub\nversion: 0.2.0\ndependencies: [{name: top, version: '*', alias: loop}]\n")
		}
		if r.Intn(10) == 0 {
			files["requirements.yaml"] = []byte("dependencies:\n- name: sub\n  version: 0.1.0\n- null\n")
		}
		if r.Intn(10) == 0 {
			files["Chart.lock"] = [][]byte{[]byte("null"), []byte("dependencies: [null]\ndigest: x\n"), []byte("[1]")}[r.Intn(3)]
		}
		e.Mutations = nm
		if t == "template" {
			e.Note = c20TemplateExtras[r.Intn(len(c20TemplateExtras))]
			for k := 0; k < 2 && c20ExpensiveExtra[e.Note]; k++ { // recursion to the limit costs ~0.3 s: keep it rarer
				e.Note = c20TemplateExtras[r.Intn(len(c20TemplateExtras))]
			}
			if r.Intn(3) == 0 {
				files = c20SeedChartFiles() // the extra alone on the unmutated chart
				e.Mutations = 1
			}
			e.Data = []byte{byte(r.Intn(256)), byte(r.Intn(256)), byte(r.Intn(256)), byte(r.Intn(256))}
			e.Files = files
		} else if t == "archive" {
			tgz := c20BuildTgz(c20FilesToTar(r, files, []string{"top/", "top/", "", "./top/", "a/b/"}[r.Intn(5)], r.Intn(2) == 0))
			if r.Intn(3) == 0 {
				tgz = c20MutBytes(r, tgz) // corrupt the compressed stream
			}
			if len(tgz) > 4*c20MaxInput {
				tgz = tgz[:4*c20MaxInput]
			}
			e.Data = tgz
		} else {
			e.Files = files
		}
	}
	return e
}

// ---------- execution ----------

func c20Repo() string {
	if p := os.Getenv("VERIF_REPO"); p != "" {
		return p
	}
	return "/repo"
}

func c20WriteFiles(dir string, files map[string][]byte) {
	for n, b := range files {
		if n == "" || strings.Contains(n, "\x00") || strings.Contains(n, "..") {
			continue
		}
		p := filepath.Join(dir, filepath.FromSlash(n))
		os.MkdirAll(filepath.Dir(p), 0o755)
		os.WriteFile(p, b, 0o644)
	}
}

// c20RunExplore runs one explore input on the real code.  step is updated before every call
// so that a panic / hang can be attributed.
func c20RunExplore(e *c20ExploreC, step *string) (accepted bool) {
	s := string(e.Data)
	switch e.Target {
	case "strvals":
		var errs []error
		rec := func(err error) { errs = append(errs, err) }
		*step = "strvals.Parse"
		_, err := strvals.Parse(s)
		rec(err)
		*step = "strvals.ParseString"
		_, err = strvals.ParseString(s)
		rec(err)
		*step = "strvals.ParseInto"
		rec(strvals.ParseInto(s, map[string]interface{}{"a": map[string]interface{}{"b": []interface{}{"x", map[string]interface{}{"c": 1}}}, "list": []interface{}{1, "2"}, "x": "scalar"}))
		*step = "strvals.ParseIntoString"
		rec(strvals.ParseIntoString(s, map[string]interface{}{"a": []interface{}{[]interface{}{"n"}}, "b": map[string]interface{}{}}))
		*step = "strvals.ParseJSON"
		rec(strvals.ParseJSON(s, map[string]interface{}{"a": map[string]interface{}{"b": 1}}))
		*step = "strvals.ParseLiteral"
		_, err = strvals.ParseLiteral(s)
		rec(err)
		*step = "strvals.ParseLiteralInto"
		rec(strvals.ParseLiteralInto(s, map[string]interface{}{"a": []interface{}{"x"}, "b": map[string]interface{}{"c": "d"}}))
		*step = "strvals.ParseFile"
		_, err = strvals.ParseFile(s, func(rs []rune) (interface{}, error) {
			if len(rs) > 0 && rs[0] == '!' {
				return nil, fmt.Errorf("no such file")
			}
			return string(rs), nil
		})
		rec(err)
		*step = "strvals.ToYAML"
		_, err = strvals.ToYAML(s)
		rec(err)
		for _, x := range errs {
			if x == nil {
				return true
			}
		}
		return false
	case "values":
		*step = "chartutil.ReadValues"
		v, err := chartutil.ReadValues(e.Data)
		if err != nil {
			return false
		}
		*step = "Values.Table/PathValue/YAML"
		for _, p := range []string{"a", "a.b", "b.c.d", "global.x", "", ".", "a..b", "sub.enabled", "tags.front"} {
			v.Table(p)
			v.PathValue(p)
		}
		v.YAML()
		v.AsMap()
		*step = "chartutil.CoalesceTables"
		chartutil.CoalesceTables(map[string]interface{}{"a": map[string]interface{}{"z": 1}, "b": nil}, v.AsMap())
		*step = "loader.LoadValues"
		loader.LoadValues(bytes.NewReader(e.Data))
		return true
	case "manifests":
		*step = "releaseutil.SplitManifests"
		m := releaseutil.SplitManifests(s)
		keys := make([]string, 0, len(m))
		for k := range m {
			keys = append(keys, k)
		}
		*step = "BySplitManifestsOrder"
		sort.Sort(releaseutil.BySplitManifestsOrder(keys))
		*step = "releaseutil.SortManifests"
		_, _, err := releaseutil.SortManifests(map[string]string{"c/templates/a.yaml": s, "c/templates/b.yaml": "kind: Z\n"}, chartutil.VersionSet{"v1"}, releaseutil.InstallOrder)
		if err == nil {
			_, _, err = releaseutil.SortManifests(map[string]string{"c/templates/a.yaml": s}, chartutil.VersionSet{"v1"}, releaseutil.UninstallOrder)
		}
		return err == nil
	case "index":
		*step = "repo.LoadIndexFile"
		idx, err := c20LoadIndex(e.Data)
		if err != nil || idx == nil {
			return false
		}
		*step = "IndexFile.SortEntries"
		idx.SortEntries()
		*step = "IndexFile.Get/Has"
		for n := range idx.Entries {
			idx.Get(n, "")
			idx.Get(n, ">0.0.0-0")
			idx.Has(n, "1.0.0")
		}
		idx.Get("a", "1.0.0")
		idx.Get("nope", "")
		*step = "IndexFile.Merge"
		other, err2 := c20LoadIndex([]byte(c20SeedIndex[0]))
		if err2 == nil {
			idx.Merge(other)
			other.Merge(idx)
			idx.SortEntries()
		}
		*step = "search.Index.AddRepo"
		for _, all := range []bool{false, true} {
			si := search.NewIndex()
			si.AddRepo("r", idx, all)
			*step = "search.Index.Search/All"
			si.All()
			res, _ := si.Search("a", 25, false)
			search.SortScore(res)
			res, _ = si.Search(".*", 25, true)
			search.SortScore(res)
		}
		c20HelmSearchRepo(step, e.Data)
		*step = "IndexFile.WriteFile"
		d, _ := os.MkdirTemp("", "c20w")
		idx.WriteFile(filepath.Join(d, "out.yaml"), 0o644)
		os.RemoveAll(d)
		return true
	case "ignore":
		*step = "ignore.Parse"
		rules, err := ignore.Parse(bytes.NewReader(e.Data))
		if err != nil {
			return false
		}
		rules.AddDefaults()
		*step = "Rules.Ignore"
		d, _ := os.MkdirTemp("", "c20ig")
		defer os.RemoveAll(d)
		os.WriteFile(filepath.Join(d, "f.txt"), nil, 0o644)
		fi, _ := os.Stat(filepath.Join(d, "f.txt"))
		di, _ := os.Stat(d)
		for _, p := range []string{"f.txt", "a/b/c.tgz", "", ".", "/abs", "dir/", "templates/.dotfile", "a\\b", "[", "deep/deep/deep/x"} {
			rules.Ignore(p, fi)
			rules.Ignore(p, di)
		}
		return true
	case "plugin":
		*step = "plugin.LoadDir"
		base, _ := os.MkdirTemp("", "c20pl")
		defer os.RemoveAll(base)
		d := filepath.Join(base, "p1")
		os.MkdirAll(d, 0o755)
		os.WriteFile(filepath.Join(d, "plugin.yaml"), e.Data, 0o644)
		os.MkdirAll(filepath.Join(base, "p2"), 0o755)
		os.WriteFile(filepath.Join(base, "p2", "plugin.yaml"), []byte(c20SeedPlugin[0]), 0o644)
		p, err := plugin.LoadDir(d)
		*step = "plugin.LoadAll"
		plugin.LoadAll(base)
		*step = "plugin.FindPlugins"
		plugin.FindPlugins(base)
		if err != nil {
			return false
		}
		*step = "Plugin.PrepareCommand"
		p.PrepareCommand([]string{"x"})
		return true
	case "prov":
		return c20RunProv(e, step)
	case "actions":
		return c20RunAction(e, step)
	case "template":
		return c20RunTemplate(e, step)
	case "selftest-fatal":
		// self-test of the worker isolation only (never generated): unrecoverable stack exhaustion
		if os.Getenv("C20_SELFTEST") == "1" {
			*step = "selftest: unbounded recursion"
			var f func(n int) int
			f = func(n int) int { return f(n+1) + 1 }
			f(0)
		}
		return false
	case "archive":
		*step = "loader.LoadArchive"
		c, err := loader.LoadArchive(bytes.NewReader(e.Data))
		if err != nil {
			*step = "loader.LoadArchiveFiles"
			loader.LoadArchiveFiles(bytes.NewReader(e.Data))
			return false
		}
		c20PipelineChart(step, c)
		return true
	case "chartfiles":
		var bf []*loader.BufferedFile
		names := make([]string, 0, len(e.Files))
		for n := range e.Files {
			names = append(names, n)
		}
		sort.Strings(names)
		for _, n := range names {
			bf = append(bf, &loader.BufferedFile{Name: n, Data: e.Files[n]})
		}
		*step = "loader.LoadFiles"
		c, err := loader.LoadFiles(bf)
		if err != nil {
			return false
		}
		c20PipelineChart(step, c)
		return true
	case "lint":
		d, _ := os.MkdirTemp("", "c20lint")
		defer os.RemoveAll(d)
		cd := filepath.Join(d, "top")
		os.MkdirAll(cd, 0o755)
		c20WriteFiles(cd, e.Files)
		*step = "lint.RunAll"
		l := lint.RunAll(cd, map[string]interface{}{"replicas": 2}, "default")
		*step = "lint.RunAll (skip schema)"
		lint.RunAll(cd, nil, "", lint.WithSkipSchemaValidation(true))
		*step = "loader.LoadDir"
		loader.LoadDir(cd)
		return len(l.Messages) == 0
	}
	return false
}

func c20RunProv(e *c20ExploreC, step *string) bool {
	td := filepath.Join(c20Repo(), "pkg", "provenance", "testdata")
	prov, err := os.ReadFile(filepath.Join(td, "hashtest-1.2.3.tgz.prov"))
	if err != nil {
		return false
	}
	chartBytes, err := os.ReadFile(filepath.Join(td, "hashtest-1.2.3.tgz"))
	if err != nil {
		return false
	}
	if len(e.Data) >= 8 {
		var seed int64
		for _, b := range e.Data[:8] {
			seed = seed<<8 | int64(b)
		}
		rr := rand.New(rand.NewSource(seed))
		for i := 0; i < e.Mutations; i++ {
			prov = c20MutBytes(rr, prov)
		}
		if rr.Intn(6) == 0 {
			chartBytes = c20MutBytes(rr, chartBytes)
		}
	}
	d, _ := os.MkdirTemp("", "c20prov")
	defer os.RemoveAll(d)
	cp, sp := filepath.Join(d, "hashtest-1.2.3.tgz"), filepath.Join(d, "hashtest-1.2.3.tgz.prov")
	os.WriteFile(cp, chartBytes, 0o644)
	os.WriteFile(sp, prov, 0o644)
	*step = "provenance.NewFromKeyring"
	sig, err := provenance.NewFromKeyring(filepath.Join(td, "helm-test-key.pub"), "")
	if err != nil {
		return false
	}
	*step = "Signatory.Verify"
	_, err = sig.Verify(cp, sp)
	*step = "provenance.DigestFile"
	provenance.DigestFile(cp)
	return err == nil
}

func c20ExecExplore(e *c20ExploreC) c20Obs {
	if e.Target == "dir" && e.Dir != nil {
		return c20ExecDirInWorker(e.Dir) // own watchdog: releases the named pipes when it fires
	}
	obs := c20Obs{}
	step := e.Target
	accepted := false
	class, msg := c20Guard(e.Target, c20Timeout, func() { accepted = c20RunExplore(e, &step) })
	switch {
	case class != "":
		obs.Class, obs.Panic, obs.Where = class, msg, step
	case accepted:
		obs.Class = "ok"
	default:
		obs.Class = "err"
	}
	return obs
}

// c20HelmSearchRepo runs `helm search repo` (newest only, --versions, --regexp, json output)
// through the real root command over a repository cache that holds the given index bytes.
func c20HelmSearchRepo(step *string, index []byte) {
	d, err := os.MkdirTemp("", "c20search")
	if err != nil {
		return
	}
	defer os.RemoveAll(d)
	os.WriteFile(filepath.Join(d, "repositories.yaml"), []byte("apiVersion: \"\"\nrepositories:\n- name: r\n  url: https://example.invalid/charts\n"), 0o644)
	os.MkdirAll(filepath.Join(d, "cache"), 0o755)
	os.WriteFile(filepath.Join(d, "cache", "r-index.yaml"), index, 0o644)
	oldCfg, oldCache := os.Getenv("HELM_REPOSITORY_CONFIG"), os.Getenv("HELM_REPOSITORY_CACHE")
	os.Setenv("HELM_REPOSITORY_CONFIG", filepath.Join(d, "repositories.yaml"))
	os.Setenv("HELM_REPOSITORY_CACHE", filepath.Join(d, "cache"))
	defer func() {
		os.Setenv("HELM_REPOSITORY_CONFIG", oldCfg)
		os.Setenv("HELM_REPOSITORY_CACHE", oldCache)
	}()
	for _, args := range [][]string{{"search", "repo"}, {"search", "repo", "-l", "a"}, {"search", "repo", "--regexp", "^r/.*", "-o", "json"}, {"search", "repo", "--version", ">0.0.0-0", "--devel"}} {
		*step = "helm " + strings.Join(args, " ")
		helmcmd.VerifRunCmd(args, &action.Configuration{})
	}
}

package main

// C08 — the rest of Configuration.renderResources, driven through a dry-run action.Install:
// charts with crds/ files (root, subchart, nested subchart; extensions in several spellings),
// NOTES.txt at several depths, --hide-secret, --output-dir (+ UseReleaseName), SubNotes and an
// in-process postrender.PostRenderer (identity, reordering, dropping, altering, emptying,
// failing).  Observed: Release.Hooks, Release.Manifest, Release.Info.Notes, the files written
// under the output directory, what the post-renderer was handed and what it returned.
// The Coq side is Text/Full.v (render_full) through Run/RunC08.v (CFull).
//
// Also here: the token stream of the sort cases (event names and policies spelled with
// upper-case letters, U+0130, U+212A, U+017F and letters of every row of unicode.CaseRanges)
// and the direct strings.ToLower differential (CLower).

import (
	"bytes"
	"errors"
	"fmt"
	"io"
	"io/fs"
	"math/rand"
	"os"
	"path/filepath"
	"sort"
	"strings"
	"unicode"
	"unicode/utf8"

	"sigs.k8s.io/yaml"

	"helm.sh/helm/v4/pkg/action"
	chart "helm.sh/helm/v4/pkg/chart/v2"
	chartutil "helm.sh/helm/v4/pkg/chart/v2/util"
	kubefake "helm.sh/helm/v4/pkg/kube/fake"
	"helm.sh/helm/v4/pkg/storage"
	"helm.sh/helm/v4/pkg/storage/driver"

	"verif/harness/internal/hx"
)

const c08ReleaseName = "c08-release"
const c08OutDir = "OUT" // the output directory as the model sees it (the real one is a fresh temp dir)
const c08Hidden = "# HIDDEN: The Secret output has been suppressed"

type c08Extra struct {
	Path    string `json:"path"` // chart.Files entry: "crds/a.yaml", "charts/sub/crds/b.yml", "README.md"
	Content []byte `json:"content"`
}

type c08Full struct {
	SubNotes       bool       `json:"sub_notes,omitempty"`
	UseReleaseName bool       `json:"use_release_name,omitempty"`
	IncludeCRDs    bool       `json:"include_crds,omitempty"`
	HideSecret     bool       `json:"hide_secret,omitempty"`
	OutputDir      bool       `json:"output_dir,omitempty"`
	PostRender     string     `json:"post_render,omitempty"` // "" identity reverse drop alter empty fail
	Extra          []c08Extra `json:"extra,omitempty"`
}

// ---- chart tree ------------------------------------------------------------------------

// c08ChartAt descends "charts/<name>/" prefixes of p below root, creating dependencies in
// order of first appearance, and returns the chart and the path inside it.
func c08ChartAt(root *chart.Chart, p string) (*chart.Chart, string) {
	ch := root
	for strings.HasPrefix(p, "charts/") {
		rest := strings.TrimPrefix(p, "charts/")
		name, tail, ok := strings.Cut(rest, "/")
		if !ok {
			break
		}
		var dep *chart.Chart
		for _, d := range ch.Dependencies() {
			if d.Name() == name {
				dep = d
			}
		}
		if dep == nil {
			dep = &chart.Chart{Metadata: &chart.Metadata{Name: name, Version: "0.1.0", APIVersion: "v2"}}
			ch.AddDependency(dep)
		}
		ch, p = dep, tail
	}
	return ch, p
}

func c08BuildTree(files []c08File, extra []c08Extra) *chart.Chart {
	root := &chart.Chart{Metadata: &chart.Metadata{Name: c08ChartName, Version: "0.1.0", APIVersion: "v2"}}
	for _, f := range files {
		ch, p := c08ChartAt(root, f.Path)
		ch.Templates = append(ch.Templates, &chart.File{Name: p, Data: f.Content})
	}
	for _, e := range extra {
		ch, p := c08ChartAt(root, e.Path)
		ch.Files = append(ch.Files, &chart.File{Name: p, Data: e.Content})
	}
	return root
}

func c08CoqChart(ch *chart.Chart) string {
	fs := make([]string, 0, len(ch.Files))
	for _, f := range ch.Files {
		fs = append(fs, hx.CoqPair(c08Str(f.Name), c08Str(string(f.Data))))
	}
	ds := make([]string, 0)
	for _, d := range ch.Dependencies() {
		ds = append(ds, c08CoqChart(d))
	}
	return fmt.Sprintf("(Chart %s %s %s)", c08Str(ch.Name()), hx.CoqList(fs), hx.CoqList(ds))
}

// ---- post-renderers ---------------------------------------------------------------------

type c08PR struct {
	mode    string
	calls   int
	in, out []byte
}

// c08Entries cuts a manifest stream before every "---\n# Source: " that starts a line
func c08Entries(s string) []string {
	const mark = "---\n# Source: "
	var out []string
	start := 0
	for i := 1; i < len(s); i++ {
		if s[i-1] == '\n' && strings.HasPrefix(s[i:], mark) {
			out = append(out, s[start:i])
			start = i
		}
	}
	if start < len(s) {
		out = append(out, s[start:])
	}
	return out
}

func (p *c08PR) Run(b *bytes.Buffer) (*bytes.Buffer, error) {
	p.calls++
	p.in = append([]byte{}, b.Bytes()...)
	s := b.String()
	switch p.mode {
	case "reverse":
		es := c08Entries(s)
		for i, j := 0, len(es)-1; i < j; i, j = i+1, j-1 {
			es[i], es[j] = es[j], es[i]
		}
		s = strings.Join(es, "")
	case "drop":
		if es := c08Entries(s); len(es) > 0 {
			s = strings.Join(es[1:], "")
		}
	case "alter":
		s = strings.ReplaceAll(s, "name: ", "name: pr-") + "# post-rendered\n"
	case "empty":
		s = ""
	case "fail":
		return nil, errors.New("c08 post-renderer failed")
	}
	p.out = []byte(s)
	return bytes.NewBufferString(s), nil
}

// ---- execution ---------------------------------------------------------------------------

func c08RunFull(c c08Case, obs *c08Obs) {
	f := c.Full
	if f == nil {
		f = &c08Full{}
	}
	obs.Heads = c08Heads(c.Files)
	ch := c08BuildTree(c.Files, f.Extra)
	cfg := &action.Configuration{
		Releases:     storage.Init(driver.NewMemory()),
		KubeClient:   &kubefake.PrintingKubeClient{Out: io.Discard},
		Capabilities: chartutil.DefaultCapabilities,
	}
	inst := action.NewInstall(cfg)
	inst.Namespace, inst.ReleaseName = "spaced", c08ReleaseName
	inst.DryRun, inst.ClientOnly = true, true
	inst.SubNotes, inst.UseReleaseName, inst.IncludeCRDs, inst.HideSecret = f.SubNotes, f.UseReleaseName, f.IncludeCRDs, f.HideSecret
	var pr *c08PR
	if f.PostRender != "" {
		pr = &c08PR{mode: f.PostRender}
		inst.PostRenderer = pr
	}
	tmp := ""
	if f.OutputDir {
		var err error
		tmp, err = os.MkdirTemp("", "c08-out-")
		if err != nil {
			obs.Err, obs.ErrText = "other", err.Error()
			return
		}
		defer os.RemoveAll(tmp)
		inst.OutputDir = tmp
		// writeToFile prints "wrote <file>" on os.Stdout
		if devnull, err := os.OpenFile(os.DevNull, os.O_WRONLY, 0); err == nil {
			old := os.Stdout
			os.Stdout = devnull
			defer func() { os.Stdout = old; devnull.Close() }()
		}
	}
	rel, err := inst.Run(ch, map[string]interface{}{})
	if pr != nil {
		obs.PRCalls, obs.PRIn, obs.PROut = pr.calls, pr.in, pr.out
	}
	if tmp != "" {
		obs.Written = map[string][]byte{}
		filepath.WalkDir(tmp, func(p string, d fs.DirEntry, err error) error {
			if err == nil && !d.IsDir() {
				data, _ := os.ReadFile(p)
				obs.Written[c08OutDir+strings.TrimPrefix(p, tmp)] = data
			}
			return nil
		})
	}
	switch {
	case err == nil:
	case strings.Contains(err.Error(), "YAML parse error"):
		obs.Err = "yaml"
	case strings.Contains(err.Error(), "error while running post render on files"):
		obs.Err = "postrender"
	case errors.Is(err, fs.ErrNotExist):
		obs.Err = "write" // writeToFile: a file opened for appending does not exist
	default:
		obs.Err = "other"
	}
	if err != nil {
		obs.ErrText = err.Error()
	}
	if rel != nil {
		obs.Hooks = c08Hooks(rel.Hooks)
		obs.Manifest = []byte(rel.Manifest)
		if rel.Info != nil {
			obs.Notes = rel.Info.Notes
		}
	}
}

// ---- printing -----------------------------------------------------------------------------

func c08CoqFull(c c08Case, obs c08Obs) string {
	f := c.Full
	if f == nil {
		f = &c08Full{}
	}
	out := ""
	if f.OutputDir {
		out = c08OutDir
	}
	opts := fmt.Sprintf("(mkOpts %s %s %s %s %s %s %s)", c08Str(c08ChartName), c08Str(c08ReleaseName), c08Str(out),
		hx.CoqBool(f.SubNotes), hx.CoqBool(f.UseReleaseName), hx.CoqBool(f.IncludeCRDs), hx.CoqBool(f.HideSecret))
	hooks := make([]string, len(obs.Hooks))
	for i, h := range obs.Hooks {
		hooks[i] = c08CoqHook(obs.Heads, h)
	}
	keys := make([]string, 0, len(obs.Written))
	for k := range obs.Written {
		keys = append(keys, k)
	}
	sort.Strings(keys)
	ws := make([]string, 0, len(keys))
	for _, k := range keys {
		ws = append(ws, hx.CoqPair(c08Str(k), c08Str(string(obs.Written[k]))))
	}
	pr := "None"
	if f.PostRender != "" {
		switch {
		case obs.PRCalls == 0:
			pr = "(Some [])"
		case obs.Err == "postrender":
			pr = "(Some [" + hx.CoqPair(c08Str(string(obs.PRIn)), "None") + "])"
		default:
			pr = "(Some [" + hx.CoqPair(c08Str(string(obs.PRIn)), "(Some "+c08Str(string(obs.PROut))+")") + "])"
		}
	}
	o := "OFullOther"
	switch {
	case obs.Panic != "":
	case obs.Err == "yaml":
		o = "(OFullYamlErr " + c08Str(string(obs.Manifest)) + ")"
	case obs.Err == "write":
		o = "OFullWriteErr"
	case obs.Err == "postrender":
		o = fmt.Sprintf("(OFullPostErr %s %s %s)", hx.CoqList(hooks), c08Str(obs.Notes), hx.CoqList(ws))
	case obs.Err == "":
		o = fmt.Sprintf("(OFullOk %s %s %s %s)", hx.CoqList(hooks), c08Str(string(obs.Manifest)), c08Str(obs.Notes), hx.CoqList(ws))
	}
	var fs []c08File
	for _, x := range c.Files {
		if !c08IsPartial(x.Path) { // the template engine does not emit partials
			fs = append(fs, x)
		}
	}
	return fmt.Sprintf("CFull %s %s %s %s %s %s", opts, c08CoqChart(c08BuildTree(c.Files, f.Extra)),
		c08CoqFiles(obs.Heads, fs, c08ChartName+"/"), c08CoqHeads(obs.Heads), pr, o)
}

func c08FullNonTrivial(c c08Case, obs c08Obs) bool {
	f := c.Full
	if f == nil || obs.Err != "" {
		return false
	}
	placed := len(obs.Hooks) + strings.Count(string(obs.Manifest), "# Source: ") + len(obs.Written)
	special := f.HideSecret && (bytes.Contains(obs.Manifest, []byte(c08Hidden)) || bytes.Contains(obs.PRIn, []byte(c08Hidden))) ||
		f.OutputDir && len(obs.Written) > 0 || f.PostRender != "" && obs.PRCalls > 0 ||
		f.IncludeCRDs && len(f.Extra) > 0 || obs.Notes != ""
	return placed >= 2 && special
}

// ---- generator ----------------------------------------------------------------------------

var c08CrdNames = []string{"crds/a.yaml", "crds/b.yml", "crds/c.json", "crds/d.YAML", "crds/e.Yml", "crds/f.JSON", "crds/g.txt",
	"crds/README.md", "crds/nested/h.yaml", "crds/i.jſon", "crds/noext", "crds/.yaml", "crd/j.yaml", "crds/k.yaml.bak",
	"files/crds/l.yaml", "crds/m.yamK", "crds/n.tar.yml", "crds//o.yaml", "crds/./p.yaml", "crds/q.yaml/", "crds/r.yaml ",
	"Crds/s.yaml", "crds/t.yaml", "crds/u.yamĺ", "values.yaml", "crds/v.json", "crds/w.JſON"}

var c08CrdBodies = []string{
	"apiVersion: apiextensions.k8s.io/v1\nkind: CustomResourceDefinition\nmetadata:\n  name: widgets.example.com\n",
	"apiVersion: apiextensions.k8s.io/v1\nkind: CustomResourceDefinition\nmetadata:\n  name: crontabs.example.com",
	"kind: CustomResourceDefinition\nmetadata:\n  name: one\n---\nkind: CustomResourceDefinition\nmetadata:\n  name: two\n",
	"", "\n", "# only a comment\n", "{\"kind\": \"CustomResourceDefinition\"}", "---\nkind: CustomResourceDefinition\n---\n",
	"kind: Secret\napiVersion: v1\nmetadata:\n  name: in-crds\n", "not: [yaml",
}

var c08NotesPool = []string{"templates/NOTES.txt", "charts/sub/templates/NOTES.txt", "charts/sub/charts/deep/templates/NOTES.txt",
	"templates/sub/NOTES.txt", "templates/myNOTES.txt", "templates/z/y/NOTES.txt", "charts/sub/templates/extra/NOTES.txt", "templates/NOTES.txt.bak"}

var c08SecretVersions = []string{"v1", "v1", "v1", "v2", "apps/v1", "V1", "v1beta1", ""}
var c08SecretKinds = []string{"Secret", "Secret", "Secret", "secret", "Secrets", "SECRET", "SecretList", "ConfigMap"}

func c08GenSecretFile(r *rand.Rand, p string, id *int) c08File {
	var docs []c08Doc
	for i, n := 0, 1+r.Intn(4); i < n; i++ {
		*id++
		var hook *string
		if r.Intn(6) == 0 {
			v := "pre-install"
			hook = &v
		}
		kind := c08SecretKinds[r.Intn(len(c08SecretKinds))]
		d := c08MakeDoc(kind, fmt.Sprintf("sec-%d", *id), hook, "", "\n", 4*r.Intn(50))
		ver := c08SecretVersions[r.Intn(len(c08SecretVersions))]
		if ver == "" {
			d.Text = bytes.Replace(d.Text, []byte("apiVersion: v1\n"), nil, 1)
		} else {
			d.Text = bytes.Replace(d.Text, []byte("apiVersion: v1\n"), []byte("apiVersion: "+ver+"\n"), 1)
		}
		docs = append(docs, d)
	}
	var seps []string
	for j := 0; j+1 < len(docs) || j < 1; j++ {
		seps = append(seps, c08CleanSeps[r.Intn(len(c08CleanSeps))])
	}
	return c08Join(p, docs, seps, c08Leads[r.Intn(4)], c08Trails[r.Intn(3)])
}

func c08GenFull(r *rand.Rand) c08Case {
	c := c08GenFiles(r, "render")
	c.Kind = "full"
	f := &c08Full{}
	c.Full = f
	have := map[string]bool{}
	var files []c08File
	for _, x := range c.Files {
		if c08IsNotes(x.Path) {
			continue // notes are generated below, at several depths and with distinct texts
		}
		have[x.Path] = true
		files = append(files, x)
	}
	c.Files = files
	id := 1000
	add := func(x c08File) {
		if !have[x.Path] {
			have[x.Path] = true
			c.Files = append(c.Files, x)
		}
	}
	if r.Intn(3) == 0 {
		add(c08GenFile(r, "charts/sub/charts/deep/templates/deep.yaml", c08Palette(r), &id, false, false))
	}
	if r.Intn(5) < 3 {
		add(c08GenSecretFile(r, []string{"templates/secrets.yaml", "charts/sub/templates/secret.yaml", "templates/0-secret.yaml"}[r.Intn(3)], &id))
	}
	if r.Intn(4) == 0 {
		add(c08File{Path: "templates/comment-only.yaml", Content: []byte("# nothing but a comment\n\n# and another\n"),
			Docs: []c08Doc{{Text: []byte("# nothing but a comment\n\n# and another\n"), Class: "comment"}}, Clean: true})
	}
	for i, n := 0, r.Intn(4); i < n; i++ {
		p := c08NotesPool[r.Intn(len(c08NotesPool))]
		txt := []string{"", "\n", "  "}[r.Intn(3)]
		if r.Intn(5) > 0 {
			txt = fmt.Sprintf("NOTES-%d for %s\nkind: Secret\n", r.Intn(1000), p)
			if r.Intn(3) == 0 {
				txt = strings.TrimSuffix(txt, "\n")
			}
		}
		add(c08File{Path: p, Content: []byte(txt), Docs: []c08Doc{{Text: []byte(txt), Class: "notes"}}, Clean: true})
	}
	for i, n := 0, r.Intn(5); i < n; i++ {
		prefix := []string{"", "", "charts/sub/", "charts/sub/charts/deep/", "charts/other/"}[r.Intn(5)]
		f.Extra = append(f.Extra, c08Extra{Path: prefix + c08CrdNames[r.Intn(len(c08CrdNames))], Content: []byte(c08CrdBodies[r.Intn(len(c08CrdBodies))])})
	}
	if r.Intn(40) == 0 {
		f.Extra = append(f.Extra, c08Extra{Path: "crds/../templates/from-crds.yaml", Content: []byte("kind: CustomResourceDefinition\n")})
	}
	f.SubNotes = r.Intn(2) == 0
	f.IncludeCRDs = r.Intn(2) == 0
	f.HideSecret = r.Intn(5) < 2
	f.OutputDir = r.Intn(4) == 0
	f.UseReleaseName = r.Intn(2) == 0
	if r.Intn(20) < 9 {
		f.PostRender = []string{"identity", "reverse", "drop", "alter", "empty", "fail"}[r.Intn(6)]
	}
	var tags []string
	for _, t := range []struct {
		on  bool
		tag string
	}{{f.IncludeCRDs && len(f.Extra) > 0, "crds"}, {f.HideSecret, "hide"}, {f.OutputDir, "outdir"}, {f.PostRender != "", "pr"}} {
		if t.on {
			tags = append(tags, t.tag)
		}
	}
	if len(tags) == 0 {
		tags = []string{"plain"}
	}
	c.Tag = strings.Join(tags, "+")
	r.Shuffle(len(c.Files), func(i, j int) { c.Files[i], c.Files[j] = c.Files[j], c.Files[i] })
	return c
}

func c08FullCorpus() []any {
	mk := func(kind, name string, hook *string, extra string) c08Doc { return c08MakeDoc(kind, name, hook, extra, "\n", 0) }
	hookV := func(s string) *string { return &s }
	secretV2 := mk("Secret", "s-v2", nil, "")
	secretV2.Text = bytes.Replace(secretV2.Text, []byte("apiVersion: v1\n"), []byte("apiVersion: v2\n"), 1)
	files := []c08File{
		c08Join("templates/app.yaml", []c08Doc{mk("Deployment", "d1", nil, ""), mk("Secret", "s1", nil, ""), mk("ConfigMap", "c1", nil, ""),
			mk("secret", "lower-kind", nil, ""), secretV2, mk("Secret", "hook-secret", hookV("pre-install"), "")}, []string{"\n---\n"}, "", "\n"),
		c08Join("charts/sub/templates/s.yaml", []c08Doc{mk("Service", "svc", nil, ""), mk("Secret", "s2", nil, "")}, []string{"\n---\n"}, "---\n", "\n"),
		c08Join("templates/_helpers.tpl", []c08Doc{mk("Secret", "partial", nil, "")}, nil, "", ""),
		{Path: "templates/NOTES.txt", Content: []byte("main notes\n"), Docs: []c08Doc{{Text: []byte("main notes\n"), Class: "notes"}}, Clean: true},
		{Path: "charts/sub/templates/NOTES.txt", Content: []byte("sub notes"), Docs: []c08Doc{{Text: []byte("sub notes"), Class: "notes"}}, Clean: true},
		{Path: "templates/x/NOTES.txt", Content: []byte("nested notes\n"), Docs: []c08Doc{{Text: []byte("nested notes\n"), Class: "notes"}}, Clean: true},
		{Path: "templates/blank.yaml", Content: []byte(" \n\t\n"), Clean: true},
		{Path: "templates/comment.yaml", Content: []byte("# just a comment\n"), Docs: []c08Doc{{Text: []byte("# just a comment\n"), Class: "comment"}}, Clean: true},
	}
	extra := []c08Extra{{"crds/widgets.yaml", []byte(c08CrdBodies[0])}, {"crds/two.YML", []byte(c08CrdBodies[2])}, {"crds/readme.txt", []byte("no")},
		{"charts/sub/crds/sub.json", []byte(c08CrdBodies[6])}, {"crds/long-s.jſon", []byte("kind: CustomResourceDefinition\n")}}
	var out []any
	for _, f := range []c08Full{
		{IncludeCRDs: true, SubNotes: true},
		{IncludeCRDs: true, HideSecret: true},
		{HideSecret: true, PostRender: "reverse", SubNotes: true},
		{IncludeCRDs: true, OutputDir: true, HideSecret: true},
		{IncludeCRDs: true, OutputDir: true, UseReleaseName: true, PostRender: "identity"},
		{PostRender: "fail"}, {PostRender: "drop", IncludeCRDs: true}, {PostRender: "alter"}, {PostRender: "empty"},
	} {
		f := f
		f.Extra = extra
		out = append(out, c08Case{Kind: "full", Files: files, Full: &f, Tag: "corpus"})
	}
	// recorded observation: a CRD file named like a template, UseReleaseName: the write fails
	out = append(out, c08Case{Kind: "full", Tag: "corpus", Files: files[:1],
		Full: &c08Full{IncludeCRDs: true, OutputDir: true, UseReleaseName: true,
			Extra: []c08Extra{{"crds/../templates/app.yaml", []byte("kind: CustomResourceDefinition\n")}}}})
	// a parse error: the debugging blob
	bad := append(append([]c08File{}, files...), c08File{Path: "templates/broken.yaml", Content: []byte("kind: [unclosed\n"),
		Docs: []c08Doc{{Text: []byte("kind: [unclosed\n"), Class: "malformed"}}, Clean: true})
	out = append(out, c08Case{Kind: "full", Files: bad, Full: &c08Full{IncludeCRDs: true, Extra: extra, PostRender: "identity"}, Tag: "corpus"})
	// events and policies spelled with runes that strings.ToLower maps into ASCII
	out = append(out, c08Case{Kind: "sort", Tag: "corpus-tokens", Files: []c08File{c08Join(c08ChartName+"/templates/t.yaml", []c08Doc{
		mk("Job", "dotted-i", hookV("PRE-İNSTALL"), "    \"helm.sh/hook-delete-policy\": \"HOOK-SUCCEEDED,Ärger\"\n"),
		mk("Job", "kelvin", hookV("post-rollbacK, pre-İnstall"), ""),
		mk("Job", "dotless-i", hookV("pre-ınstall"), ""),
		mk("Job", "long-s", hookV("teſt"), ""),
		mk("Job", "cyrillic", hookV("pre-іnstall"), ""),
	}, []string{"\n---\n"}, "", "\n")}})
	for _, s := range []string{"PRE-İNSTALL", "post-rollbacK", "A\x80B\xef\xbf\xbdC\xc3", "ǅǄǆ Σς \U00010400 ẞ Ⅷ Ａ",
		"plain ASCII Text", "", "\xed\xa0\x80 \xf4\x90\x80\x80 \xc0\xaf \xe2\x84"} {
		out = append(out, c08Case{Kind: "lower", Raw: []byte(s), Tag: "corpus"})
	}
	return out
}

// ---- tokens ---------------------------------------------------------------------------------

var c08Variants = map[rune][]string{
	'i': {"I", "İ", "ı", "Í", "і", "Ｉ"},
	'k': {"K", "K", "Κ", "к", "Ｋ"},
	's': {"S", "ſ", "Ѕ", "Ｓ"},
	'e': {"E", "É", "Е"}, 'a': {"A", "Å", "Å"}, 'o': {"O", "Ω", "Ω"},
}

func c08Spell(r *rand.Rand, name string) string {
	var b strings.Builder
	for _, ch := range name {
		switch k := r.Intn(10); {
		case k < 6:
			b.WriteRune(ch)
		case k < 8:
			b.WriteRune(unicode.ToUpper(ch))
		default:
			if vs := c08Variants[ch]; len(vs) > 0 {
				b.WriteString(vs[r.Intn(len(vs))])
			} else {
				b.WriteRune(unicode.ToUpper(ch))
			}
		}
	}
	return b.String()
}

// c08CaseRune: a rune of a random row of unicode.CaseRanges (every row is reached over time)
func c08CaseRune(r *rand.Rand) rune {
	cr := unicode.CaseRanges[r.Intn(len(unicode.CaseRanges))]
	return rune(cr.Lo) + rune(r.Intn(int(cr.Hi-cr.Lo)+1))
}

var c08EventNames = []string{"pre-install", "post-install", "pre-delete", "post-delete", "pre-upgrade", "post-upgrade",
	"pre-rollback", "post-rollback", "test", "test-success"}
var c08TokenSpaces = []string{"", "", " ", " ", " ", "\t"}

func c08GenTokens(r *rand.Rand) c08Case {
	c := c08Case{Kind: "sort", Tag: "tokens", Uninstall: r.Intn(4) == 0}
	word := func() string {
		var b strings.Builder
		for i, n := 0, 1+r.Intn(5); i < n; i++ {
			if r.Intn(3) == 0 {
				b.WriteByte("abcXYZ-09"[r.Intn(9)])
			} else {
				b.WriteRune(c08CaseRune(r))
			}
		}
		return b.String()
	}
	list := func(tok func() string) string {
		var ts []string
		for i, n := 0, 1+r.Intn(3); i < n; i++ {
			ts = append(ts, c08TokenSpaces[r.Intn(len(c08TokenSpaces))]+tok()+c08TokenSpaces[r.Intn(len(c08TokenSpaces))])
		}
		return strings.Join(ts, ",")
	}
	var docs []c08Doc
	for i, n := 0, 1+r.Intn(4); i < n; i++ {
		hook := list(func() string { return c08Spell(r, c08EventNames[r.Intn(len(c08EventNames))]) })
		extra := ""
		if r.Intn(2) == 0 {
			extra += "    \"helm.sh/hook-delete-policy\": \"" + list(func() string {
				if r.Intn(2) == 0 {
					return c08Spell(r, []string{"hook-succeeded", "hook-failed", "before-hook-creation"}[r.Intn(3)])
				}
				return word()
			}) + "\"\n"
		}
		if r.Intn(3) == 0 {
			extra += "    \"helm.sh/hook-output-log-policy\": \"" + list(word) + "\"\n"
		}
		var d c08Doc
		if r.Intn(4) == 0 {
			// no hook: a resource policy spelled with such letters (filterManifestsToKeep is on the uninstall path)
			d = c08MakeDoc("ConfigMap", fmt.Sprintf("tok-%d", i), nil, "    \"helm.sh/resource-policy\": \""+c08Spell(r, "keep")+"\"\n", "\n", 0)
		} else {
			d = c08MakeDoc([]string{"Job", "Pod", "ConfigMap"}[r.Intn(3)], fmt.Sprintf("tok-%d", i), &hook, extra, "\n", 0)
		}
		docs = append(docs, d)
	}
	f := c08Join(c08ChartName+"/templates/tokens.yaml", docs, []string{"\n---\n"}, "", "\n")
	c.Files = []c08File{f}
	return c
}

func c08GenLower(r *rand.Rand) c08Case {
	var b strings.Builder
	for i, n := 0, r.Intn(8); i < n; i++ {
		switch k := r.Intn(10); {
		case k < 3:
			b.WriteString(c08Spell(r, c08EventNames[r.Intn(len(c08EventNames))]))
		case k < 6:
			b.WriteRune(c08CaseRune(r))
		case k < 8:
			b.WriteString(c08SoupTokens[r.Intn(len(c08SoupTokens))])
		case k < 9:
			b.WriteRune(rune(r.Intn(0x110000))) // surrogates come out as U+FFFD: also input
		default:
			b.WriteByte(byte(r.Intn(256)))
		}
	}
	return c08Case{Kind: "lower", Raw: []byte(b.String()), Tag: "generated"}
}

// ---- oracle -----------------------------------------------------------------------------------

// c08ExpectedCRDs: the CRD files of a chart tree as the documentation describes them: files under
// crds/ with a .yaml, .yml or .json extension (any case), the chart's own before those of its
// subcharts; named <chart path>/<file name>.  Written without calling Chart.CRDObjects.
type c08CRD struct{ Filename, Data string }

func c08ExpectedCRDs(ch *chart.Chart, full string) []c08CRD {
	var out []c08CRD
	for _, f := range ch.Files {
		ext := filepath.Ext(f.Name)
		if strings.HasPrefix(f.Name, "crds/") && (strings.EqualFold(ext, ".yaml") || strings.EqualFold(ext, ".yml") || strings.EqualFold(ext, ".json")) {
			out = append(out, c08CRD{filepath.Join(full, f.Name), string(f.Data)})
		}
	}
	for _, d := range ch.Dependencies() {
		out = append(out, c08ExpectedCRDs(d, full+"/charts/"+d.Name())...)
	}
	return out
}

// c08HeadFields: apiVersion and kind of a document, read with a generic decode
func c08HeadFields(doc string) (version, kind string) {
	var m map[string]interface{}
	if yaml.Unmarshal([]byte(doc), &m) != nil {
		return "", ""
	}
	version, _ = m["apiVersion"].(string)
	kind, _ = m["kind"].(string)
	return
}

// c08Expect: the documents the templates contain (partials, blank files and NOTES.txt excluded),
// by construction for clean files, by the real splitter for quirky ones.
func c08Expect(c c08Case, prefix string) (exp []c08Exp, expectErr, resplitOK bool) {
	files := append([]c08File(nil), c.Files...)
	sort.Slice(files, func(i, j int) bool { return files[i].Path < files[j].Path })
	resplitOK = true
	for _, f := range files {
		if c08IsPartial(f.Path) || strings.TrimSpace(string(f.Content)) == "" || c08IsNotes(f.Path) {
			continue
		}
		var docs []string
		if f.Clean {
			for _, d := range f.Docs {
				if d.Class == "malformed" || d.Class == "notes" {
					expectErr = true
				}
				if t := strings.TrimSpace(string(d.Text)); t != "" {
					docs = append(docs, t)
				}
			}
		} else {
			for _, d := range c08SplitOrdered(string(f.Content)) {
				if _, _, err := c08Inspect(string(d)); err != nil {
					expectErr = true
				}
				if t := c08Norm(string(d)); t != "" {
					docs = append(docs, t)
				}
			}
		}
		for _, d := range c08SplitOrdered(string(f.Content)) {
			if len(d) == 0 || bytes.HasPrefix(d, []byte("---")) || bytes.Contains(d, []byte("\n---")) {
				resplitOK = false
			}
		}
		for _, d := range docs {
			kind, hook, err := c08Inspect(d)
			if err != nil {
				expectErr = true
				continue
			}
			exp = append(exp, c08Exp{path: prefix + f.Path, content: d, kind: kind, place: c08Place(hook)})
		}
	}
	return
}

type c08Piece struct{ path, content string }

// c08StreamPieces re-splits a manifest stream into (source path, document) pieces
func c08StreamPieces(s string) ([]c08Piece, bool) {
	var out []c08Piece
	for _, d := range c08SplitOrdered(s) {
		x := string(d)
		if !strings.HasPrefix(x, "# Source: ") {
			return nil, false
		}
		p, rest, _ := strings.Cut(strings.TrimPrefix(x, "# Source: "), "\n")
		out = append(out, c08Piece{p, c08Norm(rest)})
	}
	return out, true
}

func c08OracleFull(c c08Case, obs c08Obs) []hx.Violation {
	var vs []hx.Violation
	bad := func(sig, what string) { vs = append(vs, hx.Violation{Sig: "C08:" + sig, What: "full: " + what}) }
	f := c.Full
	if f == nil {
		f = &c08Full{}
	}
	exp, expectErr, resplitOK := c08Expect(c, c08ChartName+"/")
	switch obs.Err {
	case "yaml":
		if !expectErr {
			bad("unexpected-error", "all documents are well-formed but the render failed: "+obs.ErrText)
		}
		return vs
	case "postrender":
		if f.PostRender != "fail" {
			bad("postrender-error", "the post-renderer did not fail but the render reports a post-render error: "+obs.ErrText)
		}
		return vs
	case "write":
		// recorded observation: fileWritten is keyed by name while CRD files go to the output
		// directory and manifests to <output directory>/<release name>; a CRD file whose Filename
		// equals a template name makes the template's file be opened for appending where it does not
		// exist.  Anything else is not expected to fail.
		clash := false
		if f.OutputDir && f.UseReleaseName && f.IncludeCRDs {
			for _, crd := range c08ExpectedCRDs(c08BuildTree(c.Files, f.Extra), c08ChartName) {
				for _, e := range exp {
					clash = clash || (e.place == "generic" && e.path == crd.Filename)
				}
			}
		}
		if !clash {
			bad("unexpected-error", "writing the output files failed: "+obs.ErrText)
		}
		return vs
	case "":
	default:
		bad("unexpected-error", "render failed: "+obs.ErrText)
		return vs
	}
	if expectErr {
		return vs
	}
	// the stream: what the post-renderer was handed, or the manifest itself
	stream := string(obs.Manifest)
	if f.PostRender != "" {
		if obs.PRCalls != 1 {
			bad("postrender-calls", fmt.Sprintf("the post-renderer ran %d times", obs.PRCalls))
			return vs
		}
		if string(obs.Manifest) != string(obs.PROut) {
			bad("postrender-output-not-used", "Release.Manifest is not what the post-renderer returned")
		}
		stream = string(obs.PRIn)
	}
	// NOTES.txt: never in the stream, the hooks or the files; Info.Notes holds the selected ones
	for _, x := range c.Files {
		txt := string(x.Content)
		if !c08IsNotes(x.Path) || !strings.HasPrefix(txt, "NOTES-") {
			continue
		}
		applied := strings.Contains(stream, strings.TrimSpace(txt))
		for _, h := range obs.Hooks {
			applied = applied || strings.Contains(string(h.Manifest), strings.TrimSpace(txt))
		}
		for _, w := range obs.Written {
			applied = applied || bytes.Contains(w, []byte(strings.TrimSpace(txt)))
		}
		if applied {
			bad("partial-or-notes-applied", "the text of "+x.Path+" is part of what is applied")
		}
		selected := f.SubNotes || x.Path == "templates/NOTES.txt"
		if got := strings.Contains(obs.Notes, txt); got != selected {
			bad("notes-selection", fmt.Sprintf("%s: in Info.Notes = %v, expected %v (SubNotes %v)", x.Path, got, selected, f.SubNotes))
		}
	}
	// hooks: exactly the hook documents, each once, never hidden
	expH, obsH := map[string]int{}, map[string]int{}
	for _, e := range exp {
		if e.place == "hook" {
			expH[e.path+"\x00"+e.content]++
		}
	}
	for _, h := range obs.Hooks {
		obsH[h.Path+"\x00"+c08Norm(string(h.Manifest))]++
	}
	for k, n := range expH {
		if obsH[k] != n {
			p, _, _ := strings.Cut(k, "\x00")
			bad("doc-lost", fmt.Sprintf("%s: a hook document is in the hook list %d times, expected %d", p, obsH[k], n))
		}
	}
	for k, n := range obsH {
		if expH[k] != n {
			p, _, _ := strings.Cut(k, "\x00")
			bad("misclassified", fmt.Sprintf("%s: a document is in the hook list %d times, expected %d", p, n, expH[k]))
		}
	}
	// CRDs (what Chart.CRDObjects lists), in front, verbatim, only with IncludeCRDs
	crds := c08ExpectedCRDs(c08BuildTree(c.Files, f.Extra), c08ChartName)
	var crdText strings.Builder
	for _, crd := range crds {
		fmt.Fprintf(&crdText, "---\n# Source: %s\n%s\n", crd.Filename, crd.Data)
	}
	// expected generic documents per source path; a v1 Secret may be replaced by the marker when hiding
	type want struct {
		content string
		secret  bool
	}
	wantG := map[string][]want{}
	for _, e := range exp {
		if e.place == "generic" {
			ver, kind := c08HeadFields(e.content)
			wantG[e.path] = append(wantG[e.path], want{e.content, kind == "Secret" && ver == "v1"})
		}
	}
	checkDocs := func(where, p string, got []string, hide bool) {
		gotN, wantN := map[string]int{}, map[string]int{}
		for _, g := range got {
			if g != "" {
				gotN[g]++
			}
		}
		for _, w := range wantG[p] {
			if hide && w.secret {
				wantN[c08Hidden]++
			} else {
				wantN[w.content]++
			}
		}
		for k, n := range wantN {
			if k == c08Hidden && gotN[k] != n {
				sig := "secret-not-hidden"
				if gotN[k] > n {
					sig = "hidden-not-a-v1-secret"
				}
				bad(sig, fmt.Sprintf("%s %s: %d documents replaced by the HIDDEN marker, expected %d (the v1 Secrets)", where, p, gotN[k], n))
			} else if gotN[k] < n {
				bad("doc-lost", fmt.Sprintf("%s %s: document present %d times, expected %d: %.60q", where, p, gotN[k], n, k))
			} else if gotN[k] > n {
				bad("doc-duplicated", fmt.Sprintf("%s %s: document present %d times, expected %d: %.60q", where, p, gotN[k], n, k))
			}
		}
		for k := range gotN {
			if wantN[k] == 0 {
				sig := "doc-altered"
				if c08IsPartial(p) || c08IsNotes(p) {
					sig = "partial-or-notes-applied"
				} else if k == c08Hidden {
					sig = "hidden-not-a-v1-secret"
				}
				bad(sig, fmt.Sprintf("%s %s: a document that is not one of the template's resource documents: %.60q", where, p, k))
			}
		}
	}
	if !f.OutputDir {
		if len(obs.Written) != 0 {
			bad("output-dir-files", "files were written without an output directory")
		}
		rest := stream
		if f.IncludeCRDs {
			if !strings.HasPrefix(stream, crdText.String()) {
				bad("crd-prefix", "the stream does not start with the CRD files, verbatim, under their # Source headers")
				return vs
			}
			rest = stream[crdText.Len():]
		}
		if !resplitOK {
			return vs
		}
		pieces, ok := c08StreamPieces(rest)
		if !ok {
			bad("doc-altered", "a document of the stream does not start with its # Source header")
			return vs
		}
		byPath := map[string][]string{}
		for _, p := range pieces {
			byPath[p.path] = append(byPath[p.path], p.content)
		}
		for p := range wantG {
			if _, ok := byPath[p]; !ok {
				byPath[p] = nil
			}
		}
		for p, got := range byPath {
			checkDocs("stream", p, got, f.HideSecret)
		}
		if f.HideSecret {
			for _, ws := range wantG {
				for _, w := range ws {
					if w.secret && strings.Contains(stream, w.content) {
						bad("secret-not-hidden", "a v1 Secret is printed although --hide-secret is set")
					}
				}
			}
		}
		return vs
	}
	// --output-dir: nothing in the buffer, one file per template that has resource documents
	if stream != "" {
		bad("output-dir-buffer", "documents were written to the buffer although an output directory is set")
	}
	dir := c08OutDir
	if f.UseReleaseName {
		dir += "/" + c08ReleaseName
	}
	seen := map[string]bool{}
	if f.IncludeCRDs {
		byFile := map[string]string{}
		var order []string
		for _, crd := range crds {
			k := c08OutDir + "/" + crd.Filename
			if _, ok := byFile[k]; !ok {
				order = append(order, k)
			}
			byFile[k] += fmt.Sprintf("---\n# Source: %s\n%s\n", crd.Filename, crd.Data)
		}
		for _, k := range order {
			if _, isTemplate := wantG[strings.TrimPrefix(k, dir+"/")]; isTemplate {
				continue // a CRD file named like a template: judged with the template below
			}
			seen[k] = true
			if string(obs.Written[k]) != byFile[k] {
				bad("crd-file", "the CRD file "+k+" was not written verbatim under its # Source header")
			}
		}
	}
	if !resplitOK {
		return vs
	}
	for p := range wantG {
		k := dir + "/" + p
		seen[k] = true
		data, ok := obs.Written[k]
		if !ok {
			bad("doc-lost", "no file was written for "+p)
			continue
		}
		text := string(data)
		if f.IncludeCRDs {
			for _, crd := range crds {
				if c08OutDir+"/"+crd.Filename == k {
					text = strings.Replace(text, fmt.Sprintf("---\n# Source: %s\n%s\n", crd.Filename, crd.Data), "", 1)
				}
			}
		}
		pieces, ok := c08StreamPieces(text)
		if !ok {
			bad("doc-altered", "a document of "+k+" does not start with its # Source header")
			continue
		}
		var got []string
		for _, pc := range pieces {
			if pc.path != p {
				bad("doc-altered", fmt.Sprintf("%s holds a document of %s", k, pc.path))
			}
			got = append(got, pc.content)
		}
		// with an output directory the real code writes Secrets in full; both are accepted here
		hidden := f.HideSecret && strings.Contains(text, c08Hidden)
		checkDocs("file", p, got, hidden)
	}
	for k := range obs.Written {
		if !seen[k] {
			bad("output-dir-files", "unexpected file "+k)
		}
	}
	return vs
}

var _ = utf8.RuneError

// ---- the hide-secret guard ----------------------------------------------------------------------

func c08GuardCases() []any {
	var out []any
	for _, dry := range []bool{false, true} {
		for _, opt := range []string{"", "client", "server", "true", "none", "false", "Client", "bogus"} {
			for _, hide := range []bool{false, true} {
				out = append(out, c08Case{Kind: "guard", Tag: "exhaustive", DryRun: dry, DryRunOption: opt, HideSecret: hide})
			}
		}
	}
	return out
}

func c08RunGuard(c c08Case, obs *c08Obs) {
	secret := c08MakeDoc("Secret", "guarded", nil, "", "\n", 0)
	ch := c08BuildTree([]c08File{c08Join("templates/s.yaml", []c08Doc{secret}, nil, "", "\n")}, nil)
	cfg := &action.Configuration{Releases: storage.Init(driver.NewMemory()), KubeClient: &kubefake.PrintingKubeClient{Out: io.Discard},
		Capabilities: chartutil.DefaultCapabilities}
	inst := action.NewInstall(cfg)
	inst.Namespace, inst.ReleaseName = "spaced", c08ReleaseName
	inst.DryRun, inst.DryRunOption, inst.HideSecret = c.DryRun, c.DryRunOption, c.HideSecret
	rel, err := inst.Run(ch, map[string]interface{}{})
	if err != nil {
		obs.ErrText = err.Error()
		obs.Rejected = strings.Contains(err.Error(), "requires a dry-run mode")
		if !obs.Rejected {
			obs.Err = "other"
		}
	}
	if rel != nil {
		obs.Manifest = []byte(rel.Manifest)
	}
	if rs, err := cfg.Releases.ListReleases(); err == nil && len(rs) > 0 {
		obs.Stored = true
	}
}

func c08OracleGuard(c c08Case, obs c08Obs) []hx.Violation {
	var vs []hx.Violation
	applied := obs.Stored
	if applied && bytes.Contains(obs.Manifest, []byte(c08Hidden)) {
		vs = append(vs, hx.Violation{Sig: "C08:hidden-manifest-applied", What: fmt.Sprintf("guard: a manifest with a suppressed Secret was stored / created (DryRun %v, DryRunOption %q)", c.DryRun, c.DryRunOption)})
	}
	if applied && c.HideSecret {
		vs = append(vs, hx.Violation{Sig: "C08:hidden-manifest-applied", What: fmt.Sprintf("guard: HideSecret is set and the release was stored / created (DryRun %v, DryRunOption %q)", c.DryRun, c.DryRunOption)})
	}
	if obs.Err != "" {
		vs = append(vs, hx.Violation{Sig: "C08:unexpected-error", What: "guard: " + obs.ErrText})
	}
	return vs
}

// c08FullExhaustive: every combination of the flags and post-renderers on the corpus chart
func c08FullExhaustive() []any {
	base := c08FullCorpus()[0].(c08Case)
	var out []any
	for bits := 0; bits < 32; bits++ {
		for _, pr := range []string{"", "identity", "reverse", "drop", "alter", "empty", "fail"} {
			f := c08Full{SubNotes: bits&1 != 0, UseReleaseName: bits&2 != 0, IncludeCRDs: bits&4 != 0, HideSecret: bits&8 != 0,
				OutputDir: bits&16 != 0, PostRender: pr, Extra: base.Full.Extra}
			out = append(out, c08Case{Kind: "full", Files: base.Files, Full: &f, Tag: "exhaustive"})
		}
	}
	return out
}

package main

// C08 execution on the real Helm code: releaseutil.SplitManifests, releaseutil.SortManifests,
// action.Install (dry run, client only).  The barrier runs are in c08_barrier.go.

import (
	"fmt"
	"io"
	"sort"
	"strings"

	"sigs.k8s.io/yaml"

	"helm.sh/helm/v4/pkg/action"
	chart "helm.sh/helm/v4/pkg/chart/v2"
	chartutil "helm.sh/helm/v4/pkg/chart/v2/util"
	kubefake "helm.sh/helm/v4/pkg/kube/fake"
	release "helm.sh/helm/v4/pkg/release/v1"
	releaseutil "helm.sh/helm/v4/pkg/release/util"
	"helm.sh/helm/v4/pkg/storage"
	"helm.sh/helm/v4/pkg/storage/driver"
)

// c08SplitOrdered calls the real SplitManifests and returns the documents in the order the
// consumer (manifestFile.sort) visits them: keys sorted with the real BySplitManifestsOrder.
func c08SplitOrdered(s string) [][]byte {
	m := releaseutil.SplitManifests(s)
	keys := make([]string, 0, len(m))
	for k := range m {
		keys = append(keys, k)
	}
	sort.Sort(releaseutil.BySplitManifestsOrder(keys))
	out := make([][]byte, 0, len(keys))
	for _, k := range keys {
		out = append(out, []byte(m[k]))
	}
	return out
}

// c08HeadOf: the YAML library's answer for one document (data for the model's head_of).
func c08HeadOf(doc []byte) c08Head {
	h := c08Head{Doc: doc}
	var e releaseutil.SimpleHead
	if err := yaml.Unmarshal(doc, &e); err != nil {
		h.Err = true
		return h
	}
	h.Version, h.Kind = e.Version, e.Kind
	if e.Metadata != nil {
		h.HasMeta = true
		h.Name = e.Metadata.Name
		if len(e.Metadata.Annotations) > 0 {
			h.Ann = map[string]string{}
			for k, v := range e.Metadata.Annotations {
				h.Ann[k] = v
			}
		}
	}
	return h
}

func c08Heads(files []c08File) []c08Head {
	seen := map[string]bool{}
	var out []c08Head
	for _, f := range files {
		for _, d := range c08SplitOrdered(string(f.Content)) {
			if !seen[string(d)] {
				seen[string(d)] = true
				out = append(out, c08HeadOf(d))
			}
		}
	}
	sort.Slice(out, func(i, j int) bool { return string(out[i].Doc) < string(out[j].Doc) })
	return out
}

func c08Hooks(hs []*release.Hook) []c08Hook {
	out := make([]c08Hook, 0, len(hs))
	for _, h := range hs {
		x := c08Hook{Name: h.Name, Kind: h.Kind, Path: h.Path, Manifest: []byte(h.Manifest), Weight: h.Weight,
			Events: []string{}, Delete: []string{}, OutLog: []string{}}
		for _, e := range h.Events {
			x.Events = append(x.Events, string(e))
		}
		for _, e := range h.DeletePolicies {
			x.Delete = append(x.Delete, string(e))
		}
		for _, e := range h.OutputLogPolicies {
			x.OutLog = append(x.OutLog, string(e))
		}
		out = append(out, x)
	}
	return out
}

func c08ErrClass(err error) string {
	if err == nil {
		return ""
	}
	if strings.Contains(err.Error(), "YAML parse error") {
		return "yaml"
	}
	return "other"
}

func (*c08) Execute(ci any) (res any) {
	c := ci.(c08Case)
	obs := c08Obs{}
	defer func() {
		if p := recover(); p != nil {
			obs.Panic = fmt.Sprint(p)
			res = obs
		}
	}()
	switch c.Kind {
	case "split":
		obs.Docs = c08SplitOrdered(string(c.Raw))
	case "sort":
		files := map[string]string{}
		for _, f := range c.Files {
			files[f.Path] = string(f.Content)
		}
		obs.Heads = c08Heads(c.Files)
		ord := releaseutil.InstallOrder
		if c.Uninstall {
			ord = releaseutil.UninstallOrder
		}
		hs, gs, err := releaseutil.SortManifests(files, nil, ord)
		obs.Err = c08ErrClass(err)
		if err != nil {
			obs.ErrText = err.Error()
			return obs
		}
		obs.Hooks = c08Hooks(hs)
		for _, g := range gs {
			k := ""
			if g.Head != nil {
				k = g.Head.Kind
			}
			obs.Generic = append(obs.Generic, c08Gen{Name: g.Name, Content: []byte(g.Content), Kind: k})
		}
	case "render":
		obs.Heads = c08Heads(c.Files)
		ch := &chart.Chart{Metadata: &chart.Metadata{Name: c08ChartName, Version: "0.1.0", APIVersion: "v2"}}
		sub := &chart.Chart{Metadata: &chart.Metadata{Name: "sub", Version: "0.1.0", APIVersion: "v2"}}
		hasSub := false
		for _, f := range c.Files {
			if strings.HasPrefix(f.Path, "charts/sub/") {
				sub.Templates = append(sub.Templates, &chart.File{Name: strings.TrimPrefix(f.Path, "charts/sub/"), Data: f.Content})
				hasSub = true
			} else {
				ch.Templates = append(ch.Templates, &chart.File{Name: f.Path, Data: f.Content})
			}
		}
		if hasSub {
			ch.AddDependency(sub)
		}
		cfg := &action.Configuration{
			Releases:     storage.Init(driver.NewMemory()),
			KubeClient:   &kubefake.PrintingKubeClient{Out: io.Discard},
			Capabilities: chartutil.DefaultCapabilities,
		}
		inst := action.NewInstall(cfg)
		inst.Namespace, inst.ReleaseName = "spaced", "c08-release"
		inst.DryRun, inst.ClientOnly = true, true
		rel, err := inst.Run(ch, map[string]interface{}{})
		obs.Err = c08ErrClass(err)
		if err != nil {
			obs.ErrText = err.Error()
			return obs
		}
		obs.Hooks = c08Hooks(rel.Hooks)
		obs.Manifest = []byte(rel.Manifest)
	case "full":
		c08RunFull(c, &obs)
	case "guard":
		c08RunGuard(c, &obs)
	case "lower":
		obs.Lowered = []byte(strings.ToLower(string(c.Raw)))
	case "uninstall":
		c08RunUninstall(c, &obs)
	case "barrier":
		c08RunBarrier(c, &obs)
	}
	return obs
}

package main

// C15: differential correspondence of the Gallina model of filepath.Match (coq/Chart/Match.v)
// and of the rule evaluation of pkg/ignore around it (coq/Chart/Ignore.v) on (pattern, name)
// pairs: a structured generator (terms of the documented grammar, names derived from the
// pattern and then perturbed), a malformed stream (metacharacters, truncated classes and
// escapes, bytes that are not UTF-8), and exhaustive short patterns over a small alphabet.

import (
	"bytes"
	"fmt"
	"math/rand"
	"os"
	"path/filepath"
	"strings"
	"time"

	"helm.sh/helm/v4/pkg/ignore"

	"verif/harness/internal/chartx"
	"verif/harness/internal/hx"
)

type c15FI struct{ dir bool }

func (f c15FI) Name() string       { return "x" }
func (f c15FI) Size() int64        { return 0 }
func (f c15FI) Mode() os.FileMode  { return 0o644 }
func (f c15FI) ModTime() time.Time { return time.Time{} }
func (f c15FI) IsDir() bool        { return f.dir }
func (f c15FI) Sys() any           { return nil }

func c15MatchChar(pat, name string) byte {
	ok, err := filepath.Match(pat, name)
	switch {
	case err != nil:
		return 'e'
	case ok:
		return 'y'
	}
	return 'n'
}

// c15ExecMatch: filepath.Match for every name, and the pattern as a one-line .helmignore:
// the real ignore.Parse (a fresh rule set per query: the matcher of a rooted rule strips one
// leading slash per evaluation) and the real Rules.Ignore for the name as a file and as a directory.
func c15ExecMatch(c *c15Case) (obs c15Obs) {
	pat := string(c.Pat)
	var res, ign []byte
	for _, nb := range c.Names {
		res = append(res, c15MatchChar(pat, string(nb)))
	}
	obs.MatchRes = string(res)
	if !c.Ex {
		perr := false
		for _, nb := range c.Names {
			for _, isDir := range []bool{false, true} {
				rules, err := ignore.Parse(bytes.NewReader(c.Pat))
				if err != nil {
					perr = true
					break
				}
				rules.AddDefaults()
				if rules.Ignore(string(nb), c15FI{isDir}) {
					ign = append(ign, 'i')
				} else {
					ign = append(ign, 'k')
				}
			}
		}
		if _, err := ignore.Parse(bytes.NewReader(c.Pat)); err != nil || perr {
			ign = []byte("E")
		}
		obs.IgnRes = string(ign)
	}
	return obs
}

// the names of the exhaustive rows; must equal ex_names of coq/Run/RunC15.v
func c15ExNames() [][]byte {
	l := []string{""}
	all := []string{""}
	for k := 0; k < 3; k++ {
		var nl []string
		for _, s := range l {
			for _, ch := range []string{"a", "b", "/"} {
				nl = append(nl, s+ch)
			}
		}
		all = append(all, nl...)
		l = nl
	}
	all = append(all, "-", "^", "]", "\\", "*", "?", "[", "a-", "ab]", "a]", "^a")
	out := make([][]byte, len(all))
	for i, s := range all {
		out[i] = []byte(s)
	}
	return out
}

var c15ExAlphabet = []byte{'a', 'b', '*', '?', '[', ']', '-', '^', '\\', '/'}

// c15ExPatterns: every pattern of at most maxLen letters over the alphabet
func c15ExPatterns(maxLen int) []string {
	out := []string{""}
	prev := []string{""}
	for k := 0; k < maxLen; k++ {
		var nl []string
		for _, s := range prev {
			for _, ch := range c15ExAlphabet {
				nl = append(nl, s+string(ch))
			}
		}
		out = append(out, nl...)
		prev = nl
	}
	return out
}

// c15MatchExhaustive: rows of (pattern, results over the fixed names), [per] patterns per case
func c15MatchExhaustive(maxLen, per int) []any {
	pats := c15ExPatterns(maxLen)
	var out []any
	for i := 0; i < len(pats); i += per {
		j := i + per
		if j > len(pats) {
			j = len(pats)
		}
		c := c15Case{Kind: "matchex"}
		for _, p := range pats[i:j] {
			c.Rows = append(c.Rows, []byte(p))
		}
		out = append(out, c)
	}
	return out
}

func c15ExecMatchEx(c *c15Case) (obs c15Obs) {
	names := c15ExNames()
	for _, p := range c.Rows {
		var res []byte
		for _, n := range names {
			res = append(res, c15MatchChar(string(p), string(n)))
		}
		obs.RowRes = append(obs.RowRes, string(res))
	}
	return obs
}

// ---------------------------------------------------------------- generator

var c15MatchLits = []string{"a", "b", "c", "x", "y", "z", "A", "Z", "0", "9", ".", "-", "_", "~", " ", "é", "日", "ü", "🎉", "bak", "yaml", "templates", "charts", "README", ".git", "]", "^", "!", "#"}

type c15Term struct {
	pat  string
	inst func(r *rand.Rand) string // a string the term matches (best effort)
}

func c15ClassChar(r *rand.Rand) string {
	return c15Pick(r, []string{"a", "b", "c", "m", "x", "z", "A", "Q", "0", "5", "9", ".", "_", "é", "日", "\\]", "\\-", "\\\\", "\\^", "^", "/", "*", "?", "["})
}

func c15Unesc(s string) string {
	if strings.HasPrefix(s, "\\") {
		return s[1:]
	}
	return s
}

func c15GenTerm(r *rand.Rand) c15Term {
	switch k := r.Intn(12); {
	case k < 5:
		l := c15Pick(r, c15MatchLits)
		return c15Term{l, func(*rand.Rand) string { return l }}
	case k < 7:
		stars := strings.Repeat("*", 1+r.Intn(5)/4)
		return c15Term{stars, func(r *rand.Rand) string {
			return c15Pick(r, []string{"", "a", "ab", "x.y", "é", "日本", "-_-", "long-name.tar"})
		}}
	case k < 8:
		return c15Term{"?", func(r *rand.Rand) string { return c15Pick(r, []string{"a", "z", ".", "é", "日", "🎉", "\xff"}) }}
	case k < 9: // escaped literal
		ch := c15Pick(r, []string{"*", "?", "[", "]", "\\", "a", "-", "é"})
		return c15Term{"\\" + ch, func(*rand.Rand) string { return ch }}
	default: // class
		var b strings.Builder
		b.WriteString("[")
		neg := r.Intn(4) == 0
		if neg {
			b.WriteString("^")
		}
		var members []string
		for n := 1 + r.Intn(3); n > 0; n-- {
			lo := c15ClassChar(r)
			if r.Intn(2) == 0 {
				hi := c15ClassChar(r)
				b.WriteString(lo + "-" + hi)
			} else {
				b.WriteString(lo)
			}
			members = append(members, c15Unesc(lo))
		}
		b.WriteString("]")
		return c15Term{b.String(), func(r *rand.Rand) string {
			if neg {
				return c15Pick(r, []string{"q", "/", "Z", "日", "7"})
			}
			return c15Pick(r, members)
		}}
	}
}

var c15MatchJunk = []string{"[", "]", "[^", "[]", "[a-", "[a", "[-a]", "[a-]", "[]a]", "[^]", "\\", "*", "**", "?", "/", "-", "^", "\xff", "\xc3", "\xe6\x97", "[\xff]", "[a-\xff]", "[\\", "[a\\", "!", "#", " ", "//", "a/", "/a", "[/]", "[^/]", "[^a]"}

func c15GenMatch(r *rand.Rand) c15Case {
	c := c15Case{Kind: "match"}
	var terms []c15Term
	for n := 1 + r.Intn(4); n > 0; n-- {
		terms = append(terms, c15GenTerm(r))
	}
	var pat strings.Builder
	malformed := r.Intn(3) == 0
	for i, t := range terms {
		if i > 0 && r.Intn(6) == 0 {
			pat.WriteString("/")
			tt := t
			terms[i] = c15Term{"/" + t.pat, func(r *rand.Rand) string { return "/" + tt.inst(r) }}
		}
		pat.WriteString(t.pat)
		if malformed && r.Intn(2) == 0 {
			j := c15Pick(r, c15MatchJunk)
			pat.WriteString(j)
		}
	}
	p := pat.String()
	if malformed && r.Intn(3) == 0 {
		p = c15Pick(r, c15MatchJunk) + p
	}
	// the pattern is also read as a .helmignore line
	switch r.Intn(12) {
	case 0:
		p = "!" + p
	case 1:
		p = p + "/"
	case 2:
		p = "/" + p
	case 3:
		p = " " + p + "  "
	case 4:
		p = "!" + p + "/"
	}
	p = strings.NewReplacer("\n", "", "\r", "").Replace(p)
	c.Pat = []byte(p)
	inst := func() string {
		var b strings.Builder
		for _, t := range terms {
			b.WriteString(t.inst(r))
		}
		return b.String()
	}
	names := []string{"", "abc", inst(), inst(), inst()}
	for n := 6; n > 0; n-- {
		s := inst()
		switch r.Intn(7) {
		case 0:
			if len(s) > 0 {
				i := r.Intn(len(s))
				s = s[:i] + s[i+1:] // drop a byte (may cut a rune)
			}
		case 1:
			s = s + c15Pick(r, []string{"x", "/", ".bak", "é", "\xff"})
		case 2:
			s = c15Pick(r, []string{"x", "/", "dir/", "a/b/", "./"}) + s
		case 3:
			if len(s) > 0 {
				i := r.Intn(len(s))
				s = s[:i] + "/" + s[i:]
			}
		case 4:
			s = c15Pick(r, []string{".", "./", "/", "a/", "templates/.x", "charts/a.tgz", "x/" + s + "/"})
		}
		names = append(names, s)
	}
	for _, s := range names {
		c.Names = append(c.Names, []byte(s))
	}
	return c
}

// ---------------------------------------------------------------- printing

func c15CoqMatchCase(c c15Case, obs c15Obs) string {
	if c.Kind == "matchex" {
		rows := make([]string, len(c.Rows))
		for i, p := range c.Rows {
			rows[i] = fmt.Sprintf("(%s, %s)", chartx.CoqStr(string(p)), chartx.CoqStr(obs.RowRes[i]))
		}
		return "CMatchEx " + hx.CoqList(rows)
	}
	names := make([]string, len(c.Names))
	for i, n := range c.Names {
		names[i] = chartx.CoqStr(string(n))
	}
	return fmt.Sprintf("CMatch %s %s %s %s", chartx.CoqStr(string(c.Pat)), hx.CoqList(names), chartx.CoqStr(obs.MatchRes), chartx.CoqStr(obs.IgnRes))
}

func c15MatchClass(c c15Case, obs c15Obs) string {
	if c.Kind == "matchex" {
		return "matchex"
	}
	k := "match:"
	switch {
	case strings.Contains(obs.MatchRes, "e"):
		k += "badpattern"
	case strings.Contains(obs.MatchRes, "y"):
		k += "some-match"
	default:
		k += "no-match"
	}
	if obs.IgnRes == "E" {
		k += ":rule-refused"
	}
	return k
}

package main

// Translator table for C06: the dry-run spellings (coq/Gen/DryRunSpellings.v).
//
// Install.isDryRun (pkg/action/install.go) and Upgrade.isDryRun (pkg/action/upgrade.go) are
// EVALUATED, not pattern-matched: the body is interpreted over the two inputs it may read - the
// boolean field DryRun and the string field DryRunOption - for DryRun in {true, false} and
// DryRunOption in {every string literal the body compares it with} + {a string it does not
// mention}.  The body may use if / else, early returns, switch with or without a tag (multi-value
// cases, default), ||, &&, !, ==, != against string literals (either operand order), parentheses,
// locals holding the option, the boolean or a boolean expression, and a final `return <expr>`.
// Since such a body can depend on the option only through those comparisons, the finite
// evaluation decides it for EVERY option string:
//   <x>_dry_uses_bool  = with DryRun set the function returns true for every option string
//   <x>_dry_spellings  = the option strings (sorted, without duplicates) for which it returns
//                        true with DryRun clear; a string the body does not mention gives false
// Anything else (a call such as strings.ToLower / strings.EqualFold, another field, a loop, a
// body that is true for unmentioned strings ...) is NOT guessed: the table is still well-formed,
// the entry gets uses_bool = false, no spellings, and a line in dry_table_problems, whose
// obligation (Props/C06.v: C06_spellings_table_readable) names the function and the construct.
// Also recorded: in which methods of rollback.go / uninstall.go the single boolean DryRun is read.

import (
	"fmt"
	"go/ast"
	"go/token"
	"sort"
	"strings"

	"verif/harness/internal/hx"
)

func init() { registerTable("DryRunSpellings", genDryRunSpellings) }

func c06RecvName(fd *ast.FuncDecl) (recvVar, recvType string) {
	if fd.Recv == nil || len(fd.Recv.List) != 1 {
		return "", ""
	}
	f := fd.Recv.List[0]
	if len(f.Names) == 1 {
		recvVar = f.Names[0].Name
	}
	t := f.Type
	if st, ok := t.(*ast.StarExpr); ok {
		t = st.X
	}
	if id, ok := t.(*ast.Ident); ok {
		recvType = id.Name
	}
	return
}

func c06IsSel(e ast.Expr, recv, field string) bool {
	s, ok := e.(*ast.SelectorExpr)
	if !ok || s.Sel.Name != field {
		return false
	}
	id, ok := s.X.(*ast.Ident)
	return ok && id.Name == recv
}

// ---- a small interpreter for the bodies of isDryRun and validateDryRunOptionFlag ----

type c06Val struct {
	kind byte // 'b' bool, 's' string, 'l' []string, 'e' error (b: non-nil)
	b    bool
	s    string
	l    []string
}

func c06Bool(b bool) c06Val { return c06Val{kind: 'b', b: b} }

type c06Eval struct {
	recv    string
	dryRun  bool
	opt     string
	env     map[string]c06Val
	err     error
	calls   bool // string functions of package strings / slices may be called (validator)
	inexact bool // ... and one that does more than compare for equality was used
}

const (
	c06Next = iota
	c06Return
	c06Break
	c06Continue
)

func (ev *c06Eval) fail(format string, a ...interface{}) {
	if ev.err == nil {
		ev.err = fmt.Errorf(format, a...)
	}
}

func c06Show(e ast.Node) string {
	switch v := e.(type) {
	case *ast.CallExpr:
		return "the call " + flowCallName(v.Fun) + "(...)"
	case *ast.SelectorExpr:
		if id, ok := v.X.(*ast.Ident); ok {
			return id.Name + "." + v.Sel.Name
		}
	case *ast.Ident:
		return v.Name
	}
	return strings.TrimPrefix(fmt.Sprintf("%T", e), "*ast.")
}

func (ev *c06Eval) expr(e ast.Expr) c06Val {
	switch v := e.(type) {
	case *ast.ParenExpr:
		return ev.expr(v.X)
	case *ast.BasicLit:
		if s, ok := strLit(v); ok {
			return c06Val{kind: 's', s: s}
		}
	case *ast.Ident:
		switch v.Name {
		case "true":
			return c06Bool(true)
		case "false":
			return c06Bool(false)
		case "nil":
			return c06Val{kind: 'e'}
		}
		if x, ok := ev.env[v.Name]; ok {
			return x
		}
	case *ast.SelectorExpr:
		if ev.recv != "" && c06IsSel(v, ev.recv, "DryRun") {
			return c06Bool(ev.dryRun)
		}
		if ev.recv != "" && c06IsSel(v, ev.recv, "DryRunOption") {
			return c06Val{kind: 's', s: ev.opt}
		}
	case *ast.CompositeLit:
		if at, ok := v.Type.(*ast.ArrayType); ok && flowTypeName(at.Elt) == "string" {
			out := c06Val{kind: 'l'}
			for _, el := range v.Elts {
				x := ev.expr(el)
				if x.kind != 's' {
					ev.fail("a non-literal element in a []string literal")
				}
				out.l = append(out.l, x.s)
			}
			return out
		}
	case *ast.CallExpr:
		name := flowCallName(v.Fun)
		if !ev.calls {
			break
		}
		var args []c06Val
		for _, a := range v.Args {
			args = append(args, ev.expr(a))
		}
		if ev.err != nil {
			return c06Bool(false)
		}
		str := func(i int) (string, bool) {
			if i < len(args) && args[i].kind == 's' {
				return args[i].s, true
			}
			return "", false
		}
		switch name {
		case "errors.New", "errors.Errorf", "fmt.Errorf", "errors.Wrap", "errors.Wrapf":
			return c06Val{kind: 'e', b: true}
		case "strings.EqualFold":
			a, ok1 := str(0)
			b, ok2 := str(1)
			if ok1 && ok2 {
				ev.inexact = true
				return c06Bool(strings.EqualFold(a, b))
			}
		case "strings.ToLower", "strings.ToUpper", "strings.TrimSpace":
			if a, ok := str(0); ok {
				ev.inexact = true
				switch name {
				case "strings.ToLower":
					a = strings.ToLower(a)
				case "strings.ToUpper":
					a = strings.ToUpper(a)
				default:
					a = strings.TrimSpace(a)
				}
				return c06Val{kind: 's', s: a}
			}
		case "slices.Contains":
			if len(args) == 2 && args[0].kind == 'l' && args[1].kind == 's' {
				for _, x := range args[0].l {
					if x == args[1].s {
						return c06Bool(true)
					}
				}
				return c06Bool(false)
			}
		}
	case *ast.UnaryExpr:
		if v.Op == token.NOT {
			x := ev.expr(v.X)
			if x.kind == 'b' {
				return c06Bool(!x.b)
			}
		}
	case *ast.BinaryExpr:
		switch v.Op {
		case token.LOR, token.LAND:
			x := ev.expr(v.X)
			if x.kind != 'b' {
				break
			}
			// short-circuit, as Go does
			if (v.Op == token.LOR && x.b) || (v.Op == token.LAND && !x.b) {
				return x
			}
			y := ev.expr(v.Y)
			if y.kind == 'b' {
				return y
			}
		case token.EQL, token.NEQ:
			x, y := ev.expr(v.X), ev.expr(v.Y)
			if ev.err != nil {
				return c06Bool(false)
			}
			if x.kind != y.kind || x.kind == 'l' {
				break
			}
			eq := x.b == y.b
			if x.kind == 's' {
				eq = x.s == y.s
			}
			return c06Bool(eq == (v.Op == token.EQL))
		}
	}
	ev.fail("%s is not something the translator can evaluate", c06Show(e))
	return c06Bool(false)
}

// block returns how control leaves it and, for a return, the value
func (ev *c06Eval) block(l []ast.Stmt) (int, c06Val) {
	for _, st := range l {
		if ctl, v := ev.stmt(st); ctl != c06Next || ev.err != nil {
			return ctl, v
		}
	}
	return c06Next, c06Val{}
}

func (ev *c06Eval) stmt(st ast.Stmt) (int, c06Val) {
	switch v := st.(type) {
	case *ast.EmptyStmt:
		return c06Next, c06Val{}
	case *ast.ReturnStmt:
		if len(v.Results) != 1 {
			ev.fail("a return with %d results", len(v.Results))
			return c06Return, c06Val{}
		}
		return c06Return, ev.expr(v.Results[0])
	case *ast.BranchStmt:
		if v.Label == nil && v.Tok == token.BREAK {
			return c06Break, c06Val{}
		}
		if v.Label == nil && v.Tok == token.CONTINUE {
			return c06Continue, c06Val{}
		}
	case *ast.BlockStmt:
		return ev.block(v.List)
	case *ast.AssignStmt:
		if len(v.Lhs) != len(v.Rhs) {
			ev.fail("an assignment with %d left and %d right sides", len(v.Lhs), len(v.Rhs))
			return c06Next, c06Val{}
		}
		for i := range v.Lhs {
			id, ok := v.Lhs[i].(*ast.Ident)
			if !ok {
				ev.fail("an assignment to %s", c06Show(v.Lhs[i]))
				return c06Next, c06Val{}
			}
			ev.env[id.Name] = ev.expr(v.Rhs[i])
		}
		return c06Next, c06Val{}
	case *ast.DeclStmt:
		gd, ok := v.Decl.(*ast.GenDecl)
		if !ok || gd.Tok != token.VAR {
			break
		}
		for _, sp := range gd.Specs {
			vs := sp.(*ast.ValueSpec)
			for i, n := range vs.Names {
				switch {
				case i < len(vs.Values):
					ev.env[n.Name] = ev.expr(vs.Values[i])
				case flowTypeName(vs.Type) == "bool":
					ev.env[n.Name] = c06Bool(false)
				case flowTypeName(vs.Type) == "string":
					ev.env[n.Name] = c06Val{kind: 's'}
				default:
					ev.fail("a variable of type %s", flowTypeName(vs.Type))
				}
			}
		}
		return c06Next, c06Val{}
	case *ast.IfStmt:
		if v.Init != nil {
			if ctl, x := ev.stmt(v.Init); ctl != c06Next || ev.err != nil {
				return ctl, x
			}
		}
		c := ev.expr(v.Cond)
		if ev.err != nil {
			return c06Next, c06Val{}
		}
		if c.kind != 'b' {
			ev.fail("a condition that is not a boolean")
			return c06Next, c06Val{}
		}
		if c.b {
			return ev.block(v.Body.List)
		}
		if v.Else != nil {
			return ev.stmt(v.Else)
		}
		return c06Next, c06Val{}
	case *ast.RangeStmt:
		xs := ev.expr(v.X)
		if xs.kind != 'l' {
			ev.fail("a loop over something that is not a list of string literals")
			return c06Next, c06Val{}
		}
		name := ""
		if id, ok := v.Value.(*ast.Ident); ok {
			name = id.Name
		}
		for _, x := range xs.l {
			if name != "" && name != "_" {
				ev.env[name] = c06Val{kind: 's', s: x}
			}
			ctl, val := ev.block(v.Body.List)
			if ev.err != nil || ctl == c06Return {
				return ctl, val
			}
			if ctl == c06Break {
				break
			}
		}
		return c06Next, c06Val{}
	case *ast.SwitchStmt:
		if v.Init != nil {
			if ctl, x := ev.stmt(v.Init); ctl != c06Next || ev.err != nil {
				return ctl, x
			}
		}
		tag := c06Bool(true)
		if v.Tag != nil {
			tag = ev.expr(v.Tag)
		}
		var deflt *ast.CaseClause
		for _, cl := range v.Body.List {
			cc := cl.(*ast.CaseClause)
			if cc.List == nil {
				deflt = cc
				continue
			}
			for _, ce := range cc.List {
				x := ev.expr(ce)
				if ev.err != nil {
					return c06Next, c06Val{}
				}
				if x.kind == tag.kind && ((x.kind == 'b' && x.b == tag.b) || (x.kind == 's' && x.s == tag.s)) {
					return ev.clause(cc)
				}
			}
		}
		if deflt != nil {
			return ev.clause(deflt)
		}
		return c06Next, c06Val{}
	}
	ev.fail("a %s statement", strings.TrimPrefix(fmt.Sprintf("%T", st), "*ast."))
	return c06Next, c06Val{}
}

// a break leaves the switch only
func (ev *c06Eval) clause(cc *ast.CaseClause) (int, c06Val) {
	ctl, v := ev.block(cc.Body)
	if ctl == c06Break {
		return c06Next, c06Val{}
	}
	return ctl, v
}

// string literals anywhere in the body
func c06Literals(body *ast.BlockStmt) []string {
	seen := map[string]bool{}
	ast.Inspect(body, func(n ast.Node) bool {
		if ce, ok := n.(*ast.CallExpr); ok {
			switch flowCallName(ce.Fun) {
			case "errors.New", "errors.Errorf", "fmt.Errorf", "errors.Wrap", "errors.Wrapf":
				return false // message texts are not option values
			}
		}
		if bl, ok := n.(*ast.BasicLit); ok {
			if s, ok := strLit(bl); ok {
				seen[s] = true
			}
		}
		return true
	})
	var out []string
	for s := range seen {
		out = append(out, s)
	}
	sort.Strings(out)
	return out
}

const c06Fresh = "\x00not-mentioned"

// c06ReadIsDryRun: (with DryRun set: true for every option, the spellings with DryRun clear, problem)
func c06ReadIsDryRun(repo, rel, typ string) (bool, []string, string) {
	f, _, err := parseFile(repo, rel)
	if err != nil {
		return false, nil, fmt.Sprintf("%s: %v", rel, err)
	}
	for _, d := range f.Decls {
		fd, ok := d.(*ast.FuncDecl)
		if !ok || fd.Name.Name != "isDryRun" || fd.Body == nil {
			continue
		}
		rv, rt := c06RecvName(fd)
		if rt != typ {
			continue
		}
		where := rel + ": " + typ + ".isDryRun: "
		lits := c06Literals(fd.Body)
		run := func(dry bool, opt string) (bool, error) {
			ev := &c06Eval{recv: rv, dryRun: dry, opt: opt, env: map[string]c06Val{}}
			ctl, v := ev.block(fd.Body.List)
			if ev.err != nil {
				return false, fmt.Errorf("%v (only DryRun, DryRunOption, string literals, locals, ==, !=, !, &&, ||)", ev.err)
			}
			if ctl != c06Return || v.kind != 'b' {
				return false, fmt.Errorf("the body can end without returning a boolean")
			}
			return v.b, nil
		}
		usesBool := true
		var spell []string
		for _, opt := range append(append([]string{}, lits...), c06Fresh) {
			vt, err := run(true, opt)
			if err != nil {
				return false, nil, where + err.Error()
			}
			if !vt {
				usesBool = false
			}
			vf, err := run(false, opt)
			if err != nil {
				return false, nil, where + err.Error()
			}
			if vf {
				if opt == c06Fresh {
					return false, nil, where + "it returns true for option strings it does not mention: the dry spellings are not a finite list"
				}
				spell = append(spell, opt)
			}
		}
		sort.Strings(spell)
		return usesBool, spell, ""
	}
	return false, nil, rel + ": " + typ + ".isDryRun not found"
}

// c06ReadValidator evaluates validateDryRunOptionFlag (pkg/cmd/install.go) on every string
// literal of its body, their upper-case / capitalised / space-padded variants, the empty string
// and a string it does not mention: (accepted values sorted, exact?, problem).  exact = the body
// only compares for equality (then the accepted literals ARE the accepted set); with
// strings.EqualFold / ToLower / TrimSpace the accepted variants are witnesses of what it lets
// through.
func c06ReadValidator(repo string) ([]string, bool, string) {
	rel := "pkg/cmd/install.go"
	f, _, err := parseFile(repo, rel)
	if err != nil {
		return nil, false, fmt.Sprintf("%s: %v", rel, err)
	}
	for _, d := range f.Decls {
		fd, ok := d.(*ast.FuncDecl)
		if !ok || fd.Name.Name != "validateDryRunOptionFlag" || fd.Body == nil {
			continue
		}
		where := rel + ": validateDryRunOptionFlag: "
		if fd.Recv != nil || len(fd.Type.Params.List) != 1 || len(fd.Type.Params.List[0].Names) != 1 {
			return nil, false, where + "it no longer takes the one option value"
		}
		param := fd.Type.Params.List[0].Names[0].Name
		cand := map[string]bool{"": true, c06Fresh: true}
		for _, l := range c06Literals(fd.Body) {
			cand[l] = true
			cand[strings.ToUpper(l)] = true
			if l != "" {
				cand[strings.ToUpper(l[:1])+l[1:]] = true
			}
			cand[" "+l] = true
			cand[l+" "] = true
		}
		var all []string
		for c := range cand {
			all = append(all, c)
		}
		sort.Strings(all)
		exact := true
		var accepted []string
		for _, in := range all {
			ev := &c06Eval{env: map[string]c06Val{param: {kind: 's', s: in}}, calls: true}
			ctl, v := ev.block(fd.Body.List)
			if ev.err != nil {
				return nil, false, where + ev.err.Error()
			}
			if ctl != c06Return || v.kind != 'e' {
				return nil, false, where + "the body can end without returning an error value"
			}
			if ev.inexact {
				exact = false
			}
			if !v.b {
				if in == c06Fresh {
					return nil, false, where + "it accepts values it does not mention"
				}
				accepted = append(accepted, in)
			}
		}
		return accepted, exact, ""
	}
	return nil, false, rel + ": validateDryRunOptionFlag not found"
}

// the command files: what the bare --dry-run flag stands for (NoOptDefVal), what an empty value
// becomes, and whether the validator is called before the action runs
func c06CmdPlumbing(repo string) (bare, empty, validated []string, problems []string) {
	for _, rel := range []string{"pkg/cmd/install.go", "pkg/cmd/upgrade.go", "pkg/cmd/template.go"} {
		f, _, err := parseFile(repo, rel)
		if err != nil {
			problems = append(problems, fmt.Sprintf("%s: %v", rel, err))
			continue
		}
		base := strings.TrimSuffix(rel[strings.LastIndex(rel, "/")+1:], ".go")
		ast.Inspect(f, func(n ast.Node) bool {
			switch v := n.(type) {
			case *ast.AssignStmt:
				if len(v.Lhs) != 1 || len(v.Rhs) != 1 {
					return true
				}
				lit, isLit := strLit(v.Rhs[0])
				sel, isSel := v.Lhs[0].(*ast.SelectorExpr)
				if !isLit || !isSel {
					return true
				}
				// f.Lookup("dry-run").NoOptDefVal = "client"
				if sel.Sel.Name == "NoOptDefVal" {
					if ce, ok := sel.X.(*ast.CallExpr); ok && len(ce.Args) == 1 {
						if a, ok := strLit(ce.Args[0]); ok && a == "dry-run" {
							bare = append(bare, "("+hx.CoqStr(base)+", "+hx.CoqStr(lit)+")")
						}
					}
				}
			case *ast.IfStmt:
				// if client.DryRunOption == "" { client.DryRunOption = "lit" }
				be, ok := v.Cond.(*ast.BinaryExpr)
				if !ok || be.Op != token.EQL || v.Else != nil || len(v.Body.List) != 1 {
					return true
				}
				l, ok1 := be.X.(*ast.SelectorExpr)
				e, ok2 := strLit(be.Y)
				as, ok3 := v.Body.List[0].(*ast.AssignStmt)
				if ok1 && ok2 && ok3 && e == "" && l.Sel.Name == "DryRunOption" && len(as.Lhs) == 1 && len(as.Rhs) == 1 {
					if tl, ok := as.Lhs[0].(*ast.SelectorExpr); ok && tl.Sel.Name == "DryRunOption" {
						if lit, ok := strLit(as.Rhs[0]); ok {
							empty = append(empty, "("+hx.CoqStr(base)+", "+hx.CoqStr(lit)+")")
						}
					}
				}
			}
			return true
		})
		// every function that runs an Install / Upgrade action calls the validator first
		for _, d := range f.Decls {
			fd, ok := d.(*ast.FuncDecl)
			if !ok || fd.Body == nil {
				continue
			}
			vpos, runs, bad := token.NoPos, 0, 0
			ast.Inspect(fd.Body, func(n ast.Node) bool {
				ce, ok := n.(*ast.CallExpr)
				if !ok {
					return true
				}
				switch name := flowCallName(ce.Fun); {
				case name == "validateDryRunOptionFlag":
					if vpos == token.NoPos {
						vpos = ce.Pos()
					}
				case name == "client.RunWithContext" || name == "client.Run" || name == "instClient.RunWithContext" || name == "instClient.Run":
					runs++
					if vpos == token.NoPos || vpos > ce.Pos() {
						bad++
					}
				}
				return true
			})
			if runs > 0 && (base == "install" || base == "upgrade") {
				validated = append(validated, "("+hx.CoqStr(base+"."+fd.Name.Name)+", "+hx.CoqBool(bad == 0)+")")
			}
		}
	}
	return
}

// functions of a file in which <recv>.DryRun is read (methods of typ)
func c06DryRunReaders(repo, rel, typ string) ([]string, error) {
	f, _, err := parseFile(repo, rel)
	if err != nil {
		return nil, err
	}
	var out []string
	for _, d := range f.Decls {
		fd, ok := d.(*ast.FuncDecl)
		if !ok || fd.Body == nil {
			continue
		}
		rv, rt := c06RecvName(fd)
		if rt != typ {
			continue
		}
		n := 0
		ast.Inspect(fd.Body, func(x ast.Node) bool {
			if e, ok := x.(ast.Expr); ok && c06IsSel(e, rv, "DryRun") {
				n++
			}
			return true
		})
		if n > 0 {
			out = append(out, fd.Name.Name)
		}
	}
	return out, nil
}

func genDryRunSpellings(repo string) (string, error) {
	var problems []string
	ib, il, p := c06ReadIsDryRun(repo, "pkg/action/install.go", "Install")
	if p != "" {
		problems = append(problems, p)
	}
	ub, ul, p := c06ReadIsDryRun(repo, "pkg/action/upgrade.go", "Upgrade")
	if p != "" {
		problems = append(problems, p)
	}
	rb, err := c06DryRunReaders(repo, "pkg/action/rollback.go", "Rollback")
	if err != nil {
		problems = append(problems, err.Error())
	}
	un, err := c06DryRunReaders(repo, "pkg/action/uninstall.go", "Uninstall")
	if err != nil {
		problems = append(problems, err.Error())
	}
	var b strings.Builder
	b.WriteString("(* pkg/action/install.go Install.isDryRun, pkg/action/upgrade.go Upgrade.isDryRun, evaluated:\n")
	b.WriteString("   uses_bool: with DryRun set the function is true for every option string;\n")
	b.WriteString("   spellings: the option strings (sorted) for which it is true with DryRun clear *)\n")
	fmt.Fprintf(&b, "Definition install_dry_uses_bool : bool := %s.\n", hx.CoqBool(ib))
	fmt.Fprintf(&b, "Definition install_dry_spellings : list string := %s.\n", hx.CoqStrList(il))
	fmt.Fprintf(&b, "Definition upgrade_dry_uses_bool : bool := %s.\n", hx.CoqBool(ub))
	fmt.Fprintf(&b, "Definition upgrade_dry_spellings : list string := %s.\n", hx.CoqStrList(ul))
	acc, exact, p := c06ReadValidator(repo)
	if p != "" {
		problems = append(problems, p)
	}
	bare, empty, validated, ps := c06CmdPlumbing(repo)
	problems = append(problems, ps...)
	b.WriteString("(* pkg/cmd/install.go validateDryRunOptionFlag, evaluated on the literals of its body, their\n")
	b.WriteString("   upper-case / capitalised / space-padded variants and the empty string: what it accepts;\n")
	b.WriteString("   exact: it only compares for equality (no EqualFold / ToLower / TrimSpace) *)\n")
	fmt.Fprintf(&b, "Definition cmd_validator_accepts : list string := %s.\n", hx.CoqStrList(acc))
	fmt.Fprintf(&b, "Definition cmd_validator_exact : bool := %s.\n", hx.CoqBool(exact))
	b.WriteString("(* pkg/cmd/{install,upgrade,template}.go: the value of the bare --dry-run flag (NoOptDefVal),\n")
	b.WriteString("   what an empty value becomes, and: is the validator called before the action runs *)\n")
	fmt.Fprintf(&b, "Definition cmd_bare_dry_run : list (string * string) := %s.\n", hx.CoqList(bare))
	fmt.Fprintf(&b, "Definition cmd_empty_dry_run : list (string * string) := %s.\n", hx.CoqList(empty))
	fmt.Fprintf(&b, "Definition cmd_validated_before_run : list (string * bool) := %s.\n", hx.CoqList(validated))
	b.WriteString("(* what the translator could not evaluate (must be empty) *)\n")
	fmt.Fprintf(&b, "Definition dry_table_problems : list string := %s.\n", hx.CoqStrList(problems))
	b.WriteString("(* methods that read the single boolean DryRun: pkg/action/rollback.go, pkg/action/uninstall.go *)\n")
	fmt.Fprintf(&b, "Definition rollback_dry_readers : list string := %s.\n", hx.CoqStrList(rb))
	fmt.Fprintf(&b, "Definition uninstall_dry_readers : list string := %s.\n", hx.CoqStrList(un))
	return b.String(), nil
}

package main

// Translator table for C06: the dry-run spellings.  Reads the bodies of
// (*Install).isDryRun (pkg/action/install.go) and (*Upgrade).isDryRun (pkg/action/upgrade.go)
// with go/ast: the condition of the `if` that returns true must be a disjunction whose
// disjuncts are either the selector <recv>.DryRun or a comparison <recv>.DryRunOption == "lit".
// Anything else makes the table unreadable (and the obligation in Props/C06.v fail).
// Also records in which functions of rollback.go / uninstall.go the DryRun field is read.

import (
	"fmt"
	"go/ast"
	"go/token"
	"strings"

	"verif/harness/internal/hx"
)

func init() { registerTable("DryRunSpellings", genDryRunSpellings) }

func c06RecvName(fd *ast.FuncDecl) (recvVar, recvType string) {
	if fd.Recv == nil || len(fd.Recv.List) != 1 {
		return "", ""
	}
	f := fd.Recv.List[0]
	if len(f.Names) == 1 {
		recvVar = f.Names[0].Name
	}
	t := f.Type
	if st, ok := t.(*ast.StarExpr); ok {
		t = st.X
	}
	if id, ok := t.(*ast.Ident); ok {
		recvType = id.Name
	}
	return
}

// c06Disjuncts flattens a || b || c
func c06Disjuncts(e ast.Expr) []ast.Expr {
	switch v := e.(type) {
	case *ast.ParenExpr:
		return c06Disjuncts(v.X)
	case *ast.BinaryExpr:
		if v.Op == token.LOR {
			return append(c06Disjuncts(v.X), c06Disjuncts(v.Y)...)
		}
	}
	return []ast.Expr{e}
}

func c06IsSel(e ast.Expr, recv, field string) bool {
	s, ok := e.(*ast.SelectorExpr)
	if !ok || s.Sel.Name != field {
		return false
	}
	id, ok := s.X.(*ast.Ident)
	return ok && id.Name == recv
}

// returns (uses the DryRun boolean, option literals in source order)
func c06ReadIsDryRun(repo, rel, typ string) (bool, []string, error) {
	f, _, err := parseFile(repo, rel)
	if err != nil {
		return false, nil, err
	}
	for _, d := range f.Decls {
		fd, ok := d.(*ast.FuncDecl)
		if !ok || fd.Name.Name != "isDryRun" || fd.Body == nil {
			continue
		}
		rv, rt := c06RecvName(fd)
		if rt != typ {
			continue
		}
		// shape: if <cond> { return true }; return false      or      return <cond>
		var cond ast.Expr
		switch len(fd.Body.List) {
		case 1:
			if rs, ok := fd.Body.List[0].(*ast.ReturnStmt); ok && len(rs.Results) == 1 {
				cond = rs.Results[0]
			}
		case 2:
			is, ok1 := fd.Body.List[0].(*ast.IfStmt)
			rs, ok2 := fd.Body.List[1].(*ast.ReturnStmt)
			if ok1 && ok2 && is.Init == nil && is.Else == nil && len(is.Body.List) == 1 && len(rs.Results) == 1 {
				r1, ok3 := is.Body.List[0].(*ast.ReturnStmt)
				id2, ok4 := rs.Results[0].(*ast.Ident)
				if ok3 && ok4 && len(r1.Results) == 1 && id2.Name == "false" {
					if id1, ok := r1.Results[0].(*ast.Ident); ok && id1.Name == "true" {
						cond = is.Cond
					}
				}
			}
		}
		if cond == nil {
			return false, nil, fmt.Errorf("%s: (*%s).isDryRun has an unexpected shape", rel, typ)
		}
		usesBool := false
		var lits []string
		for _, dj := range c06Disjuncts(cond) {
			if c06IsSel(dj, rv, "DryRun") {
				usesBool = true
				continue
			}
			be, ok := dj.(*ast.BinaryExpr)
			if ok && be.Op == token.EQL && c06IsSel(be.X, rv, "DryRunOption") {
				if s, ok := strLit(be.Y); ok {
					lits = append(lits, s)
					continue
				}
			}
			return false, nil, fmt.Errorf("%s: (*%s).isDryRun has a disjunct that is neither %s.DryRun nor %s.DryRunOption == \"...\"", rel, typ, rv, rv)
		}
		return usesBool, lits, nil
	}
	return false, nil, fmt.Errorf("%s: (*%s).isDryRun not found", rel, typ)
}

// functions of a file in which <recv>.DryRun is read (methods of typ)
func c06DryRunReaders(repo, rel, typ string) ([]string, error) {
	f, _, err := parseFile(repo, rel)
	if err != nil {
		return nil, err
	}
	var out []string
	for _, d := range f.Decls {
		fd, ok := d.(*ast.FuncDecl)
		if !ok || fd.Body == nil {
			continue
		}
		rv, rt := c06RecvName(fd)
		if rt != typ {
			continue
		}
		n := 0
		ast.Inspect(fd.Body, func(x ast.Node) bool {
			if e, ok := x.(ast.Expr); ok && c06IsSel(e, rv, "DryRun") {
				n++
			}
			return true
		})
		if n > 0 {
			out = append(out, fd.Name.Name)
		}
	}
	return out, nil
}

func genDryRunSpellings(repo string) (string, error) {
	ib, il, err := c06ReadIsDryRun(repo, "pkg/action/install.go", "Install")
	if err != nil {
		return "", err
	}
	ub, ul, err := c06ReadIsDryRun(repo, "pkg/action/upgrade.go", "Upgrade")
	if err != nil {
		return "", err
	}
	rb, err := c06DryRunReaders(repo, "pkg/action/rollback.go", "Rollback")
	if err != nil {
		return "", err
	}
	un, err := c06DryRunReaders(repo, "pkg/action/uninstall.go", "Uninstall")
	if err != nil {
		return "", err
	}
	var b strings.Builder
	b.WriteString("(* pkg/action/install.go Install.isDryRun, pkg/action/upgrade.go Upgrade.isDryRun *)\n")
	fmt.Fprintf(&b, "Definition install_dry_uses_bool : bool := %s.\n", hx.CoqBool(ib))
	fmt.Fprintf(&b, "Definition install_dry_spellings : list string := %s.\n", hx.CoqStrList(il))
	fmt.Fprintf(&b, "Definition upgrade_dry_uses_bool : bool := %s.\n", hx.CoqBool(ub))
	fmt.Fprintf(&b, "Definition upgrade_dry_spellings : list string := %s.\n", hx.CoqStrList(ul))
	b.WriteString("(* methods that read the single boolean DryRun: pkg/action/rollback.go, pkg/action/uninstall.go *)\n")
	fmt.Fprintf(&b, "Definition rollback_dry_readers : list string := %s.\n", hx.CoqStrList(rb))
	fmt.Fprintf(&b, "Definition uninstall_dry_readers : list string := %s.\n", hx.CoqStrList(un))
	return b.String(), nil
}

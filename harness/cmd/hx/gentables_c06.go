package main

// Translator table for C06: the dry-run spellings (coq/Gen/DryRunSpellings.v).
//
// Install.isDryRun (pkg/action/install.go) and Upgrade.isDryRun (pkg/action/upgrade.go) are
// EVALUATED, not pattern-matched: the body is interpreted over the two inputs it may read - the
// boolean field DryRun and the string field DryRunOption - for DryRun in {true, false} and
// DryRunOption in {every string literal the body compares it with} + {a string it does not
// mention}.  The body may use if / else, early returns, switch with or without a tag (multi-value
// cases, default), ||, &&, !, ==, != against string literals (either operand order), parentheses,
// locals holding the option, the boolean or a boolean expression, and a final `return <expr>`.
// Since such a body can depend on the option only through those comparisons, the finite
// evaluation decides it for EVERY option string:
//   <x>_dry_uses_bool  = with DryRun set the function returns true for every option string
//   <x>_dry_spellings  = the option strings (sorted, without duplicates) for which it returns
//                        true with DryRun clear; a string the body does not mention gives false
// Anything else (a call such as strings.ToLower / strings.EqualFold, another field, a loop, a
// body that is true for unmentioned strings ...) is NOT guessed: the table is still well-formed,
// the entry gets uses_bool = false, no spellings, and a line in dry_table_problems, whose
// obligation (Props/C06.v: C06_spellings_table_readable) names the function and the construct.
// Also recorded: in which methods of rollback.go / uninstall.go the single boolean DryRun is read.

import (
	"fmt"
	"go/ast"
	"go/token"
	"sort"
	"strings"

	"verif/harness/internal/hx"
)

func init() { registerTable("DryRunSpellings", genDryRunSpellings) }

func c06RecvName(fd *ast.FuncDecl) (recvVar, recvType string) {
	if fd.Recv == nil || len(fd.Recv.List) != 1 {
		return "", ""
	}
	f := fd.Recv.List[0]
	if len(f.Names) == 1 {
		recvVar = f.Names[0].Name
	}
	t := f.Type
	if st, ok := t.(*ast.StarExpr); ok {
		t = st.X
	}
	if id, ok := t.(*ast.Ident); ok {
		recvType = id.Name
	}
	return
}

func c06IsSel(e ast.Expr, recv, field string) bool {
	s, ok := e.(*ast.SelectorExpr)
	if !ok || s.Sel.Name != field {
		return false
	}
	id, ok := s.X.(*ast.Ident)
	return ok && id.Name == recv
}

// ---- a small interpreter for the body of isDryRun ----

type c06Val struct {
	isBool bool
	b      bool
	s      string
}

type c06Eval struct {
	recv   string
	dryRun bool
	opt    string
	env    map[string]c06Val
	err    error
}

func (ev *c06Eval) fail(format string, a ...interface{}) {
	if ev.err == nil {
		ev.err = fmt.Errorf(format, a...)
	}
}

func c06Show(e ast.Node) string {
	switch v := e.(type) {
	case *ast.CallExpr:
		return "the call " + flowCallName(v.Fun) + "(...)"
	case *ast.SelectorExpr:
		if id, ok := v.X.(*ast.Ident); ok {
			return id.Name + "." + v.Sel.Name
		}
	case *ast.Ident:
		return v.Name
	}
	return strings.TrimPrefix(fmt.Sprintf("%T", e), "*ast.")
}

func (ev *c06Eval) expr(e ast.Expr) c06Val {
	switch v := e.(type) {
	case *ast.ParenExpr:
		return ev.expr(v.X)
	case *ast.BasicLit:
		if s, ok := strLit(v); ok {
			return c06Val{s: s}
		}
	case *ast.Ident:
		switch v.Name {
		case "true":
			return c06Val{isBool: true, b: true}
		case "false":
			return c06Val{isBool: true, b: false}
		}
		if x, ok := ev.env[v.Name]; ok {
			return x
		}
	case *ast.SelectorExpr:
		if c06IsSel(v, ev.recv, "DryRun") {
			return c06Val{isBool: true, b: ev.dryRun}
		}
		if c06IsSel(v, ev.recv, "DryRunOption") {
			return c06Val{s: ev.opt}
		}
	case *ast.UnaryExpr:
		if v.Op == token.NOT {
			x := ev.expr(v.X)
			if x.isBool {
				return c06Val{isBool: true, b: !x.b}
			}
		}
	case *ast.BinaryExpr:
		switch v.Op {
		case token.LOR, token.LAND:
			x := ev.expr(v.X)
			if !x.isBool {
				break
			}
			// short-circuit, as Go does (the operands have no effects here, but an operand the
			// interpreter does not understand must not matter when Go would not evaluate it)
			if (v.Op == token.LOR && x.b) || (v.Op == token.LAND && !x.b) {
				return x
			}
			y := ev.expr(v.Y)
			if y.isBool {
				return y
			}
		case token.EQL, token.NEQ:
			x, y := ev.expr(v.X), ev.expr(v.Y)
			if ev.err != nil {
				return c06Val{isBool: true}
			}
			if x.isBool != y.isBool {
				break
			}
			eq := x.b == y.b
			if !x.isBool {
				eq = x.s == y.s
			}
			return c06Val{isBool: true, b: eq == (v.Op == token.EQL)}
		}
	}
	ev.fail("%s is not something the translator can evaluate (only DryRun, DryRunOption, string literals, locals, ==, !=, !, &&, ||)", c06Show(e))
	return c06Val{isBool: true}
}

// block returns (returned?, value)
func (ev *c06Eval) block(l []ast.Stmt) (bool, bool) {
	for _, st := range l {
		if done, v := ev.stmt(st); done || ev.err != nil {
			return done, v
		}
	}
	return false, false
}

func (ev *c06Eval) stmt(st ast.Stmt) (bool, bool) {
	switch v := st.(type) {
	case *ast.EmptyStmt:
		return false, false
	case *ast.ReturnStmt:
		if len(v.Results) != 1 {
			ev.fail("a return with %d results", len(v.Results))
			return true, false
		}
		x := ev.expr(v.Results[0])
		if !x.isBool {
			ev.fail("a return of a non-boolean")
		}
		return true, x.b
	case *ast.BlockStmt:
		return ev.block(v.List)
	case *ast.AssignStmt:
		if len(v.Lhs) != len(v.Rhs) {
			ev.fail("an assignment with %d left and %d right sides", len(v.Lhs), len(v.Rhs))
			return false, false
		}
		for i := range v.Lhs {
			id, ok := v.Lhs[i].(*ast.Ident)
			if !ok {
				ev.fail("an assignment to %s", c06Show(v.Lhs[i]))
				return false, false
			}
			ev.env[id.Name] = ev.expr(v.Rhs[i])
		}
		return false, false
	case *ast.DeclStmt:
		gd, ok := v.Decl.(*ast.GenDecl)
		if !ok || gd.Tok != token.VAR {
			break
		}
		for _, sp := range gd.Specs {
			vs := sp.(*ast.ValueSpec)
			for i, n := range vs.Names {
				switch {
				case i < len(vs.Values):
					ev.env[n.Name] = ev.expr(vs.Values[i])
				case flowTypeName(vs.Type) == "bool":
					ev.env[n.Name] = c06Val{isBool: true}
				case flowTypeName(vs.Type) == "string":
					ev.env[n.Name] = c06Val{}
				default:
					ev.fail("a variable of type %s", flowTypeName(vs.Type))
				}
			}
		}
		return false, false
	case *ast.IfStmt:
		if v.Init != nil {
			if done, x := ev.stmt(v.Init); done || ev.err != nil {
				return done, x
			}
		}
		c := ev.expr(v.Cond)
		if ev.err != nil {
			return false, false
		}
		if c.b {
			return ev.block(v.Body.List)
		}
		if v.Else != nil {
			return ev.stmt(v.Else)
		}
		return false, false
	case *ast.SwitchStmt:
		if v.Init != nil {
			if done, x := ev.stmt(v.Init); done || ev.err != nil {
				return done, x
			}
		}
		tag := c06Val{isBool: true, b: true}
		if v.Tag != nil {
			tag = ev.expr(v.Tag)
		}
		var deflt *ast.CaseClause
		for _, cl := range v.Body.List {
			cc := cl.(*ast.CaseClause)
			if cc.List == nil {
				deflt = cc
				continue
			}
			for _, ce := range cc.List {
				x := ev.expr(ce)
				if ev.err != nil {
					return false, false
				}
				if x.isBool == tag.isBool && ((x.isBool && x.b == tag.b) || (!x.isBool && x.s == tag.s)) {
					return ev.clause(cc)
				}
			}
		}
		if deflt != nil {
			return ev.clause(deflt)
		}
		return false, false
	}
	ev.fail("a %s statement", strings.TrimPrefix(fmt.Sprintf("%T", st), "*ast."))
	return false, false
}

func (ev *c06Eval) clause(cc *ast.CaseClause) (bool, bool) {
	for _, st := range cc.Body {
		if b, ok := st.(*ast.BranchStmt); ok {
			if b.Tok == token.BREAK && b.Label == nil {
				return false, false
			}
			ev.fail("a %s in a switch", b.Tok)
			return false, false
		}
		if done, v := ev.stmt(st); done || ev.err != nil {
			return done, v
		}
	}
	return false, false
}

// string literals anywhere in the body
func c06Literals(body *ast.BlockStmt) []string {
	seen := map[string]bool{}
	ast.Inspect(body, func(n ast.Node) bool {
		if bl, ok := n.(*ast.BasicLit); ok {
			if s, ok := strLit(bl); ok {
				seen[s] = true
			}
		}
		return true
	})
	var out []string
	for s := range seen {
		out = append(out, s)
	}
	sort.Strings(out)
	return out
}

// c06ReadIsDryRun: (with DryRun set: true for every option, the spellings with DryRun clear, problem)
func c06ReadIsDryRun(repo, rel, typ string) (bool, []string, string) {
	f, _, err := parseFile(repo, rel)
	if err != nil {
		return false, nil, fmt.Sprintf("%s: %v", rel, err)
	}
	for _, d := range f.Decls {
		fd, ok := d.(*ast.FuncDecl)
		if !ok || fd.Name.Name != "isDryRun" || fd.Body == nil {
			continue
		}
		rv, rt := c06RecvName(fd)
		if rt != typ {
			continue
		}
		where := rel + ": " + typ + ".isDryRun: "
		lits := c06Literals(fd.Body)
		fresh := "\x00not-mentioned"
		run := func(dry bool, opt string) (bool, error) {
			ev := &c06Eval{recv: rv, dryRun: dry, opt: opt, env: map[string]c06Val{}}
			done, v := ev.block(fd.Body.List)
			if ev.err != nil {
				return false, ev.err
			}
			if !done {
				return false, fmt.Errorf("the body can end without a return")
			}
			return v, nil
		}
		usesBool := true
		var spell []string
		for _, opt := range append(append([]string{}, lits...), fresh) {
			vt, err := run(true, opt)
			if err != nil {
				return false, nil, where + err.Error()
			}
			if !vt {
				usesBool = false
			}
			vf, err := run(false, opt)
			if err != nil {
				return false, nil, where + err.Error()
			}
			if vf {
				if opt == fresh {
					return false, nil, where + "it returns true for option strings it does not mention: the dry spellings are not a finite list"
				}
				spell = append(spell, opt)
			}
		}
		sort.Strings(spell)
		return usesBool, spell, ""
	}
	return false, nil, rel + ": " + typ + ".isDryRun not found"
}

// functions of a file in which <recv>.DryRun is read (methods of typ)
func c06DryRunReaders(repo, rel, typ string) ([]string, error) {
	f, _, err := parseFile(repo, rel)
	if err != nil {
		return nil, err
	}
	var out []string
	for _, d := range f.Decls {
		fd, ok := d.(*ast.FuncDecl)
		if !ok || fd.Body == nil {
			continue
		}
		rv, rt := c06RecvName(fd)
		if rt != typ {
			continue
		}
		n := 0
		ast.Inspect(fd.Body, func(x ast.Node) bool {
			if e, ok := x.(ast.Expr); ok && c06IsSel(e, rv, "DryRun") {
				n++
			}
			return true
		})
		if n > 0 {
			out = append(out, fd.Name.Name)
		}
	}
	return out, nil
}

func genDryRunSpellings(repo string) (string, error) {
	var problems []string
	ib, il, p := c06ReadIsDryRun(repo, "pkg/action/install.go", "Install")
	if p != "" {
		problems = append(problems, p)
	}
	ub, ul, p := c06ReadIsDryRun(repo, "pkg/action/upgrade.go", "Upgrade")
	if p != "" {
		problems = append(problems, p)
	}
	rb, err := c06DryRunReaders(repo, "pkg/action/rollback.go", "Rollback")
	if err != nil {
		problems = append(problems, err.Error())
	}
	un, err := c06DryRunReaders(repo, "pkg/action/uninstall.go", "Uninstall")
	if err != nil {
		problems = append(problems, err.Error())
	}
	var b strings.Builder
	b.WriteString("(* pkg/action/install.go Install.isDryRun, pkg/action/upgrade.go Upgrade.isDryRun, evaluated:\n")
	b.WriteString("   uses_bool: with DryRun set the function is true for every option string;\n")
	b.WriteString("   spellings: the option strings (sorted) for which it is true with DryRun clear *)\n")
	fmt.Fprintf(&b, "Definition install_dry_uses_bool : bool := %s.\n", hx.CoqBool(ib))
	fmt.Fprintf(&b, "Definition install_dry_spellings : list string := %s.\n", hx.CoqStrList(il))
	fmt.Fprintf(&b, "Definition upgrade_dry_uses_bool : bool := %s.\n", hx.CoqBool(ub))
	fmt.Fprintf(&b, "Definition upgrade_dry_spellings : list string := %s.\n", hx.CoqStrList(ul))
	b.WriteString("(* what the translator could not evaluate (must be empty) *)\n")
	fmt.Fprintf(&b, "Definition dry_table_problems : list string := %s.\n", hx.CoqStrList(problems))
	b.WriteString("(* methods that read the single boolean DryRun: pkg/action/rollback.go, pkg/action/uninstall.go *)\n")
	fmt.Fprintf(&b, "Definition rollback_dry_readers : list string := %s.\n", hx.CoqStrList(rb))
	fmt.Fprintf(&b, "Definition uninstall_dry_readers : list string := %s.\n", hx.CoqStrList(un))
	return b.String(), nil
}

package main

// C05 — rendering is deterministic and sees only the chart, values and release data.
//
// A chart case is rendered through the REAL path (loader.LoadFiles -> action.Install with
// DryRun+ClientOnly, and engine.Render directly) under a number of regimes (repeated,
// concurrent, re-loaded from directory / archive, changed environment, working directory,
// host canary files, DNS switch); the runtime oracle demands byte equality of manifest, hook
// list and notes (or of the error) across all of them, empty hermeticity markers, and that no
// canary token of the host ever shows up.  The Coq model (Render/Pipeline.v) receives the
// real engine's rendered-files map in a shuffled order and must reproduce what the real
// renderResources assembled.  A files case drives the real .Files object.

import (
	"encoding/json"
	"fmt"
	"hash/fnv"
	"math/rand"
	"os"
	"sort"
	"strings"

	"verif/harness/internal/hx"
)

func init() {
	hx.Register("c05", func() hx.Property { return &c05{} })
	hx.Extra["excluded_functions"] = c05Excluded
}

type c05 struct{}

type c05Case struct {
	Kind        string         `json:"kind"`   // chart | files
	Stream      string         `json:"stream"` // valid | malformed-<what> | files | corpus-<what>
	Files       []c05File      `json:"files"`
	Values      map[string]any `json:"values,omitempty"`
	SubNotes    bool           `json:"sub_notes,omitempty"`
	IncludeCRDs bool           `json:"include_crds,omitempty"`
	HideSecret  bool           `json:"hide_secret,omitempty"`
	EnableDNS   bool           `json:"enable_dns,omitempty"`
	SkipSchema  bool           `json:"skip_schema,omitempty"`
	APIVersions []string       `json:"api_versions,omitempty"` // Install.APIVersions (--api-versions)
	KubeVersion string         `json:"kube_version,omitempty"` // Install.KubeVersion (--kube-version)
	Probe       bool           `json:"probe,omitempty"`        // contains the hermeticity probe template
	Expect      string         `json:"expect,omitempty"`       // forbidden-func: the render must fail
	Pattern     string         `json:"pattern,omitempty"`      // files case: glob pattern
	Tree        *c05Tree       `json:"tree,omitempty"`         // tree case (round 4): chart tree, render values, engine flags
	Funcs       []c05FCall     `json:"funcs,omitempty"`        // funcs case (round 4): calls of Helm's own template functions
}

type c05Hook struct {
	Name     string   `json:"name"`
	Kind     string   `json:"kind"`
	Path     string   `json:"path"`
	Manifest string   `json:"manifest"`
	Events   []string `json:"events"`
	Weight   int      `json:"weight"`
	Delete   []string `json:"delete"`
	OutLog   []string `json:"outlog"`
}

type c05Render struct {
	Err      string    `json:"err,omitempty"`
	NilRel   bool      `json:"nil_release,omitempty"`
	Manifest string    `json:"manifest"`
	Hooks    []c05Hook `json:"hooks"`
	Notes    string    `json:"notes"`
}

type c05Head struct {
	Doc     string      `json:"doc"`
	Err     bool        `json:"err,omitempty"`
	Version string      `json:"version,omitempty"`
	Kind    string      `json:"kind,omitempty"`
	HasMeta bool        `json:"has_meta,omitempty"`
	Name    string      `json:"name,omitempty"`
	Ann     [][2]string `json:"ann,omitempty"`
}

type c05Split struct {
	Content string   `json:"content"`
	Docs    []string `json:"docs"`
}

type c05Obs struct {
	Panic string `json:"panic,omitempty"`
	// chart case
	LoadErr    string            `json:"load_err,omitempty"`
	Class      string            `json:"class,omitempty"` // ok | deps | schema | render | yaml | other
	Base       *c05Render        `json:"base,omitempty"`
	ChartName  string            `json:"chart_name,omitempty"`
	CRDs       [][2]string       `json:"crds,omitempty"`
	Keys       []string          `json:"keys,omitempty"`
	SortedKeys []string          `json:"sorted_keys,omitempty"`
	Rendered   [][2]string       `json:"rendered,omitempty"`
	Splits     []c05Split        `json:"splits,omitempty"`
	Heads      []c05Head         `json:"heads,omitempty"`
	Regimes    map[string]string `json:"regimes,omitempty"` // regime -> same | n/a: why | differs: what
	Leaks      []string          `json:"leaks,omitempty"`   // canary tokens found in an output
	Markers    []string          `json:"markers,omitempty"` // non-empty hermeticity markers
	HTTPHits   int               `json:"http_hits,omitempty"`
	Shared     []string          `json:"shared_state,omitempty"` // process-wide state a render modified
	NTemplates int               `json:"n_templates,omitempty"`
	NSubcharts int               `json:"n_subcharts,omitempty"`
	// files case
	Matched  []string      `json:"matched,omitempty"`
	LibMatched []string    `json:"lib_matched,omitempty"` // round 4: what gobwas/glob matches on its own
	Gets     [][2]string   `json:"gets,omitempty"`
	Lines    []c05LinesObs `json:"lines,omitempty"`
	Config   [][2]string   `json:"config,omitempty"`
	Secrets  [][2]string   `json:"secrets,omitempty"`
	GlobGets [][2]string   `json:"glob_gets,omitempty"`
	// tree / funcs case (round 4)
	TreeObs *c05TreeObs `json:"tree_obs,omitempty"`
	FuncObs []c05FObs   `json:"func_obs,omitempty"`
}

type c05LinesObs struct {
	Name  string   `json:"name"`
	Lines []string `json:"lines"`
	Panic bool     `json:"panic,omitempty"`
}

func (*c05) ID() string { return "C05" }
func (*c05) CoqImport() string {
	return "From Coq Require Import Uint63.\nFrom Helm Require Import Values.Tree Render.Pipeline Render.Engine Render.Funcs Render.Mini Run.RunC05."
}
func (*c05) Rule() string {
	return "generated charts (1-4 manifest templates per chart with 1-3 documents each, partials with chart-specific and deliberately " +
		"clashing define names, 0-3 subcharts with 0-2 sub-subcharts, conditions/tags, tpl/include nesting, .Files Get/Glob/Lines/AsConfig/AsSecrets, " +
		"range over maps, hooks with weights/policies, NOTES.txt in parent and subcharts, crds/, values.schema.json with $ref in every URL form; " +
		"about 19% malformed: template parse error, execution error, YAML error in the output, env/expandenv) rendered through action.Install " +
		"(dry-run, client-only) 20x sequentially, 16x concurrently, after SaveDir+LoadDir and Save+LoadFile, under changed environment variables, " +
		"working directory, canary file contents and EnableDNS; plus .Files cases on the real files object; " +
		"non-trivial = a chart case whose base render succeeded with >= 2 rendered files and at least one of subchart/hook/notes, with all " +
		"regimes executed, or a files case with >= 2 files and a non-empty glob result; " +
		"round 4: tree cases (a chart tree built in memory: 0-3 dependencies with 0-2 of their own, library charts in several spellings, duplicate and dotted " +
		"dependency names, nil template entries, template names path.Join cleans, partials with clashing definitions, render values inserted in shuffled order, " +
		"templates in the fragment of coq/Render/Mini.v: fields, toJson of the scope and its parts, include, nested tpl with local definitions, required, fail, " +
		"lookup, .Files.Get; engines Strict / LintMode / with client provider; 14% malformed) observed through engine.allTemplates and Engine.Render, " +
		"non-trivial = rendered successfully with >= 2 files and >= 1 dependency; funcs cases (6-11 calls of toYaml/toYamlPretty/toJson/toToml/fromYaml/" +
		"fromYamlArray/fromJson/fromJsonArray/fromToml on value trees and on valid and invalid texts), non-trivial = at least one codec error among the calls; " +
		"distinct = hash of (case, observation)"
}

func c05CorpusChart(stream string, files map[string]string, mut func(*c05Case)) c05Case {
	if _, ok := files["Chart.yaml"]; !ok {
		files["Chart.yaml"] = "apiVersion: v2\nname: p\nversion: 0.1.0\n"
	}
	c := c05Case{Kind: "chart", Stream: "corpus-" + stream, Files: c05SortFiles(files), Values: map[string]any{}}
	if mut != nil {
		mut(&c)
	}
	return c
}

func (*c05) Corpus() []any {
	sub := func(n string) map[string]string {
		return map[string]string{
			"charts/" + n + "/Chart.yaml":          "apiVersion: v2\nname: " + n + "\nversion: 0.1.0\n",
			"charts/" + n + "/templates/NOTES.txt": "notes of " + n + " in {{ .Release.Name }}\n",
			"charts/" + n + "/templates/cm.yaml":   "apiVersion: v1\nkind: ConfigMap\nmetadata:\n  name: " + n + "\n",
			"charts/" + n + "/crds/crd.yaml":       "kind: CustomResourceDefinition\nmetadata:\n  name: " + n + "\n",
		}
	}
	merge := func(ms ...map[string]string) map[string]string {
		o := map[string]string{}
		for _, m := range ms {
			for k, v := range m {
				o[k] = v
			}
		}
		return o
	}
	var out []any
	// K3: schema $ref to a file URL is read from the host (known finding, not repaired)
	out = append(out, c05CorpusChart("k3-schema-ref-file-url", map[string]string{
		"values.schema.json": c05Schema("file://@CANARY@/s.json"),
		"templates/cm.yaml":  "apiVersion: v1\nkind: ConfigMap\nmetadata:\n  name: x\n",
	}, func(c *c05Case) { c.Values["refd"] = 1 }))
	// F7: several NOTES.txt with SubNotes
	out = append(out, c05CorpusChart("f7-subnotes", merge(sub("a"), sub("b"), sub("c"), sub("d"), map[string]string{
		"templates/NOTES.txt": "parent notes\n"}), func(c *c05Case) { c.SubNotes = true }))
	// F10: subchart order reaches the manifest through the CRD block
	out = append(out, c05CorpusChart("f10-subchart-order", merge(sub("zeta"), sub("alpha"), sub("mid"), sub("beta")),
		func(c *c05Case) { c.IncludeCRDs = true }))
	// F11: AsConfig with colliding base names
	out = append(out, c05CorpusChart("f11-asconfig-collision", map[string]string{
		"templates/cm.yaml": "apiVersion: v1\nkind: ConfigMap\nmetadata:\n  name: x\ndata:\n{{ (.Files.Glob \"conf/**\").AsConfig | indent 2 }}\n---\napiVersion: v1\nkind: Secret\nmetadata:\n  name: y\ndata:\n{{ (.Files.Glob \"conf/**\").AsSecrets | indent 2 }}\n",
		"conf/a/x.txt":      "AAA", "conf/b/x.txt": "BBB", "conf/c/x.txt": "CCC", "conf/d/x.txt": "DDD"}, nil))
	// F12: debug blob of a failed render
	out = append(out, c05CorpusChart("f12-error-blob", map[string]string{
		"templates/a.yaml": "kind: ConfigMap\nmetadata:\n  name: a\n", "templates/b.yaml": "kind: ConfigMap\nmetadata:\n  name: b\n",
		"templates/c.yaml": "kind: ConfigMap\nmetadata:\n  name: c\n", "templates/d.yaml": "kind: ConfigMap\nmetadata:\n  name: d\n",
		"templates/z.yaml": "kind: [unclosed\n"}, nil))
	// env / expandenv are not template functions
	for _, t := range []string{"{{ env \"HOME\" }}", "{{ expandenv \"$HOME\" }}", "{{ tpl \"{{ env \\\"HOME\\\" }}\" . }}"} {
		out = append(out, c05CorpusChart("env-function", map[string]string{"templates/cm.yaml": "a: " + t + "\n"},
			func(c *c05Case) { c.Expect = "forbidden-func" }))
	}
	// hermeticity probe on its own, with and without a NOTES.txt using it
	out = append(out, c05CorpusChart("probe", map[string]string{"templates/c05-probe.yaml": c05ProbeTemplate,
		"templates/NOTES.txt": "host: [{{ .Files.Get \"@CANARY@/secret.txt\" }}] dns: [{{ getHostByName \"localhost\" }}]\n"},
		func(c *c05Case) { c.Probe = true }))
	// clashing define names at different depths: the parse order decides
	out = append(out, c05CorpusChart("define-clash", merge(map[string]string{
		"templates/_h.tpl":           "{{- define \"common.dup\" -}}from-parent{{- end -}}",
		"templates/a/_h.tpl":         "{{- define \"common.dup\" -}}from-parent-a{{- end -}}",
		"templates/cm.yaml":          "apiVersion: v1\nkind: ConfigMap\nmetadata:\n  name: x\ndata:\n  d: {{ include \"common.dup\" . | quote }}\n",
		"charts/s/Chart.yaml":        "apiVersion: v2\nname: s\nversion: 0.1.0\n",
		"charts/s/templates/_h.tpl":  "{{- define \"common.dup\" -}}from-sub{{- end -}}",
		"charts/s/templates/cm.yaml": "apiVersion: v1\nkind: ConfigMap\nmetadata:\n  name: y\ndata:\n  d: {{ include \"common.dup\" . | quote }}\n"}), nil))
	// the same define name in two partials of the SAME depth: only the name part of the template order decides
	out = append(out, c05CorpusChart("define-clash-same-depth", map[string]string{
		"templates/_a.tpl":  "{{- define \"common.dup\" -}}from-a{{- end -}}",
		"templates/_b.tpl":  "{{- define \"common.dup\" -}}from-b{{- end -}}",
		"templates/_c.tpl":  "{{- define \"common.dup\" -}}from-c{{- end -}}",
		"templates/_d.tpl":  "{{- define \"common.dup\" -}}from-d{{- end -}}",
		"templates/cm.yaml": "apiVersion: v1\nkind: ConfigMap\nmetadata:\n  name: x\ndata:\n  d: {{ include \"common.dup\" . | quote }}\n"}, nil))
	// cross-template shared state: every file appends to .Values.trace / .Values.global and prints
	// what it has seen, in the parent and in a subchart; the execution order is fully visible
	{
		files := map[string]string{"values.yaml": "global:\n  g: x\nm:\n  k: v\n",
			"charts/s/Chart.yaml": "apiVersion: v2\nname: s\nversion: 0.1.0\n", "charts/s/values.yaml": "m:\n  k: v\n"}
		for _, pre := range []string{"", "charts/s/"} {
			for _, n := range []string{"w-a", "w-b", "w-c", "w-d", "w-e", "w-f", "sub/w-g", "sub/deep/w-h"} {
				files[pre+"templates/"+n+".yaml"] = "{{- $_ := set .Values \"trace\" (printf \"%s>%s\" (default \"\" .Values.trace) .Template.Name) -}}\n" +
					"{{- $_ := set .Values.global \"gtrace\" (printf \"%s|%s\" (default \"\" .Values.global.gtrace) .Template.Name) -}}\n" +
					"{{- $_ := set .Values.m (printf \"w%d\" (len .Values.m)) .Template.Name -}}\n" +
					"apiVersion: v1\nkind: ConfigMap\nmetadata:\n  name: " + strings.ReplaceAll(n, "/", "-") + "\ndata:\n  trace: {{ .Values.trace | quote }}\n  gtrace: {{ .Values.global.gtrace | quote }}\n  m: {{ .Values.m | toJson | quote }}\n"
			}
			files[pre+"templates/NOTES.txt"] = "{{- $_ := set .Values \"trace\" (printf \"%s>NOTES\" (default \"\" .Values.trace)) -}}\nseen: {{ .Values.trace }} / {{ .Values.global.gtrace }}\n"
		}
		out = append(out, c05CorpusChart("shared-state", files, func(c *c05Case) { c.SubNotes = true }))
	}
	// getHostByName reached directly, through tpl and through include, with DNS off: rendered through
	// every engine entry point (see the with-client regimes)
	out = append(out, c05CorpusChart("dns-entry-points", map[string]string{
		"templates/_h.tpl":       "{{- define \"dns.host\" -}}{{ getHostByName \"localhost\" }}{{- end -}}",
		"templates/direct.yaml":  "c05dns: \"[{{ getHostByName \"localhost\" }}]\"\n",
		"templates/via-tpl.yaml": "c05dns-tpl: \"[{{ tpl \"{{ getHostByName \\\"localhost\\\" }}\" . }}]\"\n",
		"templates/via-inc.yaml": "c05dns-inc: \"[{{ include \"dns.host\" . }}]\"\n",
		"templates/NOTES.txt":    "c05dns-notes: \"[{{ getHostByName \"localhost\" }}]\"\n"}, nil))
	// capabilities: templates branching on .Capabilities.APIVersions.Has (many evaluations per render)
	// and printing the Kubernetes version, rendered with their own --api-versions / --kube-version
	// while other renders of the process use different ones
	for _, av := range [][]string{{"c05.example/v1"}, {"c05.example/v2", "other.io/v1beta1"}, nil} {
		av := av
		out = append(out, c05CorpusChart("capabilities", map[string]string{
			"templates/a.yaml": c05CapsTemplate("a"), "templates/b.yaml": c05CapsTemplate("b"), "templates/sub/c.yaml": c05CapsTemplate("c"),
			"templates/NOTES.txt": "kube {{ .Capabilities.KubeVersion.Version }} v1={{ .Capabilities.APIVersions.Has \"c05.example/v1\" }} v2={{ .Capabilities.APIVersions.Has \"c05.example/v2\" }}\n"},
			func(c *c05Case) { c.APIVersions = av; c.KubeVersion = "v1.27.3" }))
	}
	// every schema $ref form once
	for _, ref := range c05RefForms {
		if ref == "file://@CANARY@/s.json" {
			continue
		}
		ref := ref
		out = append(out, c05CorpusChart("schema-ref", map[string]string{
			"values.schema.json": c05Schema(ref),
			"templates/cm.yaml":  "apiVersion: v1\nkind: ConfigMap\nmetadata:\n  name: x\n",
		}, func(c *c05Case) { c.Values["refd"] = 1 }))
	}
	// .Files: colliding base names, empty file, duplicate entry
	out = append(out, c05Case{Kind: "files", Stream: "corpus-files", Pattern: "conf/**", Files: []c05File{
		{"conf/a/x.txt", "AAA"}, {"conf/b/x.txt", "BBB"}, {"conf/c/x.txt", "CCC"}, {"conf/lines.txt", "l1\nl2\n"}, {"conf/empty.txt", ""}, {"conf/a/x.txt", "AAA2"}}})
	// round 4
	out = append(out, c05TreeCorpus()...)
	out = append(out, c05FuncsCorpus()...)
	if only := os.Getenv("C05_ONLY"); only != "" {
		var keep []any
		for _, x := range out {
			if strings.Contains(","+only+",", ","+x.(c05Case).Kind+",") {
				keep = append(keep, x)
			}
		}
		return keep
	}
	return out
}

func c05CapsTemplate(n string) string {
	return "apiVersion: v1\nkind: ConfigMap\nmetadata:\n  name: caps-" + n + "\ndata:\n" +
		"  kube: {{ printf \"%s/%s.%s\" .Capabilities.KubeVersion.Version .Capabilities.KubeVersion.Major .Capabilities.KubeVersion.Minor | quote }}\n" +
		"  v1: {{ .Capabilities.APIVersions.Has \"c05.example/v1\" | quote }}\n  v2: {{ .Capabilities.APIVersions.Has \"c05.example/v2\" | quote }}\n" +
		"  apps: {{ .Capabilities.APIVersions.Has \"apps/v1\" | quote }}\n  n: {{ len .Capabilities.APIVersions | quote }}\n" +
		"  many: \"{{ range until 300 }}{{ if $.Capabilities.APIVersions.Has \"c05.example/v1\" }}1{{ else }}0{{ end }}{{ if $.Capabilities.APIVersions.Has \"other.io/v1beta1\" }}b{{ else }}-{{ end }}{{ end }}\"\n"
}

func (*c05) Exhaustive(tier string) []any {
	// every order of three subcharts with notes and CRDs, both SubNotes settings
	var out []any
	names := []string{"aa", "bb", "cc"}
	perms := [][]int{{0, 1, 2}, {0, 2, 1}, {1, 0, 2}, {1, 2, 0}, {2, 0, 1}, {2, 1, 0}}
	if tier != "thorough" {
		perms = perms[:2]
	}
	for _, p := range perms {
		for _, sn := range []bool{true, false} {
			files := map[string]string{"Chart.yaml": "apiVersion: v2\nname: ex\nversion: 0.1.0\n", "templates/NOTES.txt": "root\n"}
			for rank, i := range p {
				n := names[i]
				files["charts/"+n+"/Chart.yaml"] = "apiVersion: v2\nname: " + n + "\nversion: 0.1.0\n"
				files["charts/"+n+"/templates/NOTES.txt"] = fmt.Sprintf("notes %s\n", n)
				files["charts/"+n+"/templates/"+strings.Repeat("d/", rank)+"cm.yaml"] = "apiVersion: v1\nkind: ConfigMap\nmetadata:\n  name: " + n + "\n"
				files["charts/"+n+"/crds/c.yaml"] = "kind: CustomResourceDefinition\nmetadata:\n  name: " + n + "\n"
			}
			c := c05Case{Kind: "chart", Stream: "exhaustive", Files: c05SortFiles(files), Values: map[string]any{}, SubNotes: sn, IncludeCRDs: true}
			out = append(out, c)
		}
	}
	return out
}

func (*c05) Generate(r *rand.Rand, i int) any {
	// development aid: C05_ONLY=tree,funcs restricts the run to these kinds of cases
	if only := os.Getenv("C05_ONLY"); only != "" {
		kinds := strings.Split(only, ",")
		switch kinds[i%len(kinds)] {
		case "chart":
			return c05GenChart(r)
		case "files":
			return c05GenFiles(r)
		case "funcs":
			return c05GenFuncs(r)
		}
		return c05GenTree(r)
	}
	switch i % 10 {
	case 0, 1, 2:
		return c05GenChart(r)
	case 3:
		return c05GenFiles(r)
	case 8, 9:
		return c05GenFuncs(r)
	}
	return c05GenTree(r)
}

func (*c05) Decode(raw json.RawMessage) (any, error) {
	var c c05Case
	err := json.Unmarshal(raw, &c)
	return c, err
}

// ---- oracle ---------------------------------------------------------------------------

func c05HasCanaryRef(c c05Case) bool {
	for _, f := range c.Files {
		if strings.HasSuffix(f.Name, "values.schema.json") && strings.Contains(f.Data, "\"$ref\":\"") {
			// any $ref that, resolved against file:///values.schema.json, is a file URL into the canary directory
			for _, form := range []string{"\"$ref\":\"file://@CANARY@", "\"$ref\":\"..@CANARY@", "\"$ref\":\"@CANARY@"} {
				if strings.Contains(f.Data, form) {
					return true
				}
			}
		}
	}
	return false
}

func (*c05) Oracle(ci, oi any) []hx.Violation {
	c, obs := ci.(c05Case), oi.(c05Obs)
	var vs []hx.Violation
	if obs.Panic != "" {
		return []hx.Violation{{Sig: "C05:panic", What: "panic while rendering: " + obs.Panic}}
	}
	if c.Kind == "tree" {
		return c05TreeOracle(c, obs)
	}
	if c.Kind == "funcs" {
		return c05FuncsOracle(obs)
	}
	if c.Kind == "files" {
		if s, ok := obs.Regimes["files-repeat"]; ok && s != "same" {
			vs = append(vs, hx.Violation{Sig: "C05:files-nondeterministic", What: "the .Files object answers differently on repetition: " + s})
		}
		return vs
	}
	regs := make([]string, 0, len(obs.Regimes))
	for k := range obs.Regimes {
		regs = append(regs, k)
	}
	sort.Strings(regs)
	for _, k := range regs {
		s := obs.Regimes[k]
		if !strings.HasPrefix(s, "differs") {
			continue
		}
		sig := "C05:differs-" + k
		what := fmt.Sprintf("the same chart, values and options rendered differently under regime %q: %s", k, s)
		if k == "canary-files" && c05HasCanaryRef(c) {
			sig = "C05:schema-ref-file-url"
			what = "values.schema.json $ref resolving to a file: URL is read from the host file system: the validation outcome changed with a file outside the chart (" + s + ")"
		}
		vs = append(vs, hx.Violation{Sig: sig, What: what})
	}
	for _, l := range obs.Leaks {
		vs = append(vs, hx.Violation{Sig: "C05:host-canary-leak", What: "host state outside the chart reached the output: " + l})
	}
	for _, m := range obs.Markers {
		sig := "C05:host-file-read"
		if strings.HasPrefix(m, "c05dns") {
			sig = "C05:dns-resolved-while-disabled"
		}
		vs = append(vs, hx.Violation{Sig: sig, What: "hermeticity marker is not empty: " + m})
	}
	for _, m := range obs.Shared {
		vs = append(vs, hx.Violation{Sig: "C05:shared-state-modified", What: "a render modified state shared by all renders of the process: " + m})
	}
	if obs.HTTPHits > 0 {
		vs = append(vs, hx.Violation{Sig: "C05:schema-ref-http-fetched", What: fmt.Sprintf("schema validation fetched an http $ref (%d requests)", obs.HTTPHits)})
	}
	// a template that calls env/expandenv and is part of the template set must make the render
	// fail with "function not defined" (it is not part of the set when its subchart is disabled
	// or a library chart; the render is not reached when dependencies or the schema fail first)
	if obs.Class == "ok" || obs.Class == "yaml" || obs.Class == "render" || obs.Class == "other" {
		inSet := map[string]bool{}
		for _, k := range obs.Keys {
			inSet[k] = true
		}
		for _, f := range c.Files {
			if !(strings.Contains(f.Data, "{{ env ") || strings.Contains(f.Data, "{{ expandenv ") || strings.Contains(f.Data, "{{ env \\\"")) {
				continue
			}
			if !inSet[obs.ChartName+"/"+f.Name] {
				continue
			}
			if obs.Class != "render" || obs.Base == nil || !strings.Contains(obs.Base.Err, "not defined") {
				vs = append(vs, hx.Violation{Sig: "C05:env-function-available", What: "the template " + f.Name + " calls env/expandenv and the render did not fail with 'function not defined' (class " + obs.Class + ")"})
			}
		}
	}
	return vs
}

// ---- Coq printing ---------------------------------------------------------------------

// c05Str prints a Go string as a Gallina string: a literal when it is short printable ASCII,
// otherwise (pk [i1; i2; ...]%uint63) where every primitive integer carries up to 7 bytes
// (little endian) and their number in bits 56-58 (decoded by RunC05.pk).
func c05Str(s string) string {
	short := len(s) <= 48
	if short {
		for i := 0; i < len(s); i++ {
			if s[i] < 0x20 || s[i] > 0x7e {
				short = false
				break
			}
		}
	}
	if short {
		return `"` + strings.ReplaceAll(s, `"`, `""`) + `"`
	}
	var b strings.Builder
	b.WriteString("(pk [")
	for i := 0; i < len(s); i += 7 {
		j := i + 7
		if j > len(s) {
			j = len(s)
		}
		var v uint64
		for k := i; k < j; k++ {
			v |= uint64(s[k]) << (8 * uint(k-i))
		}
		v |= uint64(j-i) << 56
		if i > 0 {
			b.WriteString(";")
		}
		fmt.Fprintf(&b, "%d", v)
	}
	b.WriteString("]%uint63)")
	return b.String()
}

func c05StrList(ss []string) string {
	it := make([]string, len(ss))
	for i, s := range ss {
		it[i] = c05Str(s)
	}
	return hx.CoqList(it)
}

func c05Pairs(ps [][2]string) string {
	it := make([]string, len(ps))
	for i, p := range ps {
		it[i] = "(" + c05Str(p[0]) + ", " + c05Str(p[1]) + ")"
	}
	return hx.CoqList(it)
}

func c05CoqHooks(hs []c05Hook) string {
	it := make([]string, len(hs))
	for i, h := range hs {
		it[i] = fmt.Sprintf("mkHook %s %s %s %s %s %s %s %s", c05Str(h.Name), c05Str(h.Kind), c05Str(h.Path), c05Str(h.Manifest),
			c05StrList(h.Events), hx.CoqZ(int64(h.Weight)), c05StrList(h.Delete), c05StrList(h.OutLog))
	}
	return hx.CoqList(it)
}

const c05Skip = "CFiles [] \"\" [] [] [] [] [] [] [] []"

func (*c05) CoqCase(ci, oi any) string {
	c, obs := ci.(c05Case), oi.(c05Obs)
	if obs.Panic != "" {
		return c05Skip
	}
	if c.Kind == "tree" {
		return c05CoqTree(c, obs)
	}
	if c.Kind == "funcs" {
		return c05CoqFuncs(c, obs)
	}
	if c.Kind == "files" {
		var from [][2]string
		for _, f := range c.Files {
			from = append(from, [2]string{f.Name, f.Data})
		}
		var lines []string
		for _, l := range obs.Lines {
			if l.Panic {
				lines = append(lines, "("+c05Str(l.Name)+", None)")
				continue
			}
			lines = append(lines, "("+c05Str(l.Name)+", Some "+c05StrList(l.Lines)+")")
		}
		return fmt.Sprintf("CFiles %s %s %s %s %s %s %s %s %s %s", c05Pairs(from), c05Str(c.Pattern), c05StrList(obs.Matched),
			c05Pairs(obs.Gets), hx.CoqList(lines), c05Pairs(obs.Config), c05Pairs(obs.Secrets), c05Pairs(obs.GlobGets),
			c05StrList(obs.LibMatched), c05StrList(obs.Matched))
	}
	var ob string
	switch obs.Class {
	case "ok":
		ob = fmt.Sprintf("(OOk %s %s %s)", c05Str(obs.Base.Manifest), c05CoqHooks(obs.Base.Hooks), c05Str(obs.Base.Notes))
	case "render":
		ob = "ORenderErr"
	case "yaml":
		ob = fmt.Sprintf("(OSortErr %s %s)", c05CoqHooks(obs.Base.Hooks), c05Str(obs.Base.Manifest))
	default:
		return c05Skip // the pipeline was not reached (load error, dependency or schema error)
	}
	var splits, heads []string
	for _, s := range obs.Splits {
		splits = append(splits, "("+c05Str(s.Content)+", "+c05StrList(s.Docs)+")")
	}
	for _, h := range obs.Heads {
		if h.Err {
			heads = append(heads, "("+c05Str(h.Doc)+", None)")
		} else {
			heads = append(heads, fmt.Sprintf("(%s, Some (mkHead %s %s %s %s %s))", c05Str(h.Doc), c05Str(h.Version), c05Str(h.Kind),
				hx.CoqBool(h.HasMeta), c05Str(h.Name), c05Pairs(h.Ann)))
		}
	}
	return fmt.Sprintf("CPipe (mkOpts %s %s %s) %s %s %s %s %s %s %s %s %s",
		hx.CoqBool(c.SubNotes), hx.CoqBool(c.IncludeCRDs), hx.CoqBool(c.HideSecret), c05Str(obs.ChartName), c05Pairs(obs.CRDs),
		c05StrList(obs.Keys), hx.CoqBool(obs.Class == "render"), c05Pairs(obs.Rendered), hx.CoqList(splits), hx.CoqList(heads),
		c05StrList(obs.SortedKeys), ob)
}

func (*c05) Class(ci, oi any) string {
	c, obs := ci.(c05Case), oi.(c05Obs)
	if c.Kind == "files" || c.Kind == "funcs" {
		return c.Stream
	}
	if c.Kind == "tree" {
		if obs.TreeObs == nil {
			return c.Stream + "/panic"
		}
		return c.Stream + "/" + obs.TreeObs.Render
	}
	cl := obs.Class
	if obs.LoadErr != "" {
		cl = "load-error"
	}
	return c.Stream + "/" + cl
}

func (*c05) NonTrivial(ci, oi any) bool {
	c, obs := ci.(c05Case), oi.(c05Obs)
	if obs.Panic != "" {
		return false
	}
	if c.Kind == "files" {
		return len(c.Files) >= 2 && len(obs.Matched) > 0
	}
	if c.Kind == "tree" {
		return obs.TreeObs != nil && obs.TreeObs.Render == "ok" && len(obs.TreeObs.Rendered) >= 2 && len(c.Tree.Root.Deps) >= 1
	}
	if c.Kind == "funcs" {
		for _, o := range obs.FuncObs {
			if !o.CodecOK {
				return true
			}
		}
		return false
	}
	if obs.Class != "ok" || obs.Base == nil || len(obs.Rendered) < 2 {
		return false
	}
	for _, s := range obs.Regimes {
		if strings.HasPrefix(s, "n/a") {
			return false
		}
	}
	return obs.NSubcharts > 0 || len(obs.Base.Hooks) > 0 || obs.Base.Notes != ""
}

// c05Shuffle reorders deterministically from the content (so that a case replays identically)
func c05Shuffle(keys []string, salt string) []string {
	out := append([]string(nil), keys...)
	sort.Strings(out)
	h := fnv.New64a()
	h.Write([]byte(salt))
	for _, k := range out {
		h.Write([]byte(k))
	}
	r := rand.New(rand.NewSource(int64(h.Sum64())))
	r.Shuffle(len(out), func(i, j int) { out[i], out[j] = out[j], out[i] })
	return out
}

package main

// C16, tree kinds: a generated tree of directories, regular files and symbolic links
// (relative and absolute targets, chains, loops, dangling links, links pointing out of the
// destination) is materialised in a fresh sandbox directory
//
//   <tmp>                 = /sb in the model
//   <tmp>/outside/target  a canary file          <tmp>/outside/dir/keep  a canary directory
//   <tmp>/work/dest       the destination
//
// and the real code runs on it:
//
//   secjoin   securejoin.SecureJoin(<tmp>/work/dest, unsafe)   (the copy Helm links, via a hook)
//   resolve   os.Stat / os.Lstat(<tmp>/work/dest/<path>): which file the kernel resolves to
//   expandt   chartutil.Expand(<tmp>/work/dest, archive)
//   extractt  installer.TarGzExtractor.Extract(archive, <tmp>/work/dest)
//   lockt     downloader.writeLock(<tmp>/<chart path>, lock, legacy)      (via a hook)
//
// The model's input tree is the sandbox as it is on disk right before the call; compared are
// the returned path / resolved location / error flag and the WHOLE sandbox afterwards
// (location -> directory | file content | link target) with Chart/FsTree.v.

import (
	"bytes"
	"errors"
	"fmt"
	"math/rand"
	"os"
	"path"
	"path/filepath"
	"sort"
	"strings"
	"syscall"

	"sigs.k8s.io/yaml"

	chart "helm.sh/helm/v4/pkg/chart/v2"
	"helm.sh/helm/v4/pkg/chart/v2/loader"
	chartutil "helm.sh/helm/v4/pkg/chart/v2/util"
	"helm.sh/helm/v4/pkg/downloader"
	"helm.sh/helm/v4/pkg/plugin/installer"

	"verif/harness/internal/chartx"
	"verif/harness/internal/hx"
)

// c16TP is one node of a tree, by its path relative to the sandbox root.  For a link Data
// is the target, with "$SB" standing for the sandbox root.
type c16TP struct {
	Path string `json:"path"`
	Kind string `json:"kind"` // dir | file | link
	Data string `json:"data,omitempty"`
}

const c16Canary = "digest: canary\n"

// c16NewLink is a link found below the destination after the call that was not there (with
// that target) before: where the real kernel says it leads.
type c16NewLink struct {
	Path   string `json:"path"`           // sandbox relative
	Target string `json:"target"`         // as read by Readlink, $SB-mapped
	Real   string `json:"real,omitempty"` // filepath.EvalSymlinks, sandbox relative ("<outside>/..." when it leaves the sandbox)
	Err    string `json:"err,omitempty"`  // EvalSymlinks failed (dangling, loop)
}

func c16TreeSetup(c *c16Case) (tmp string, err error) {
	tmp, err = os.MkdirTemp("", "c16t-")
	if err != nil {
		return "", err
	}
	if r, e := filepath.EvalSymlinks(tmp); e == nil {
		tmp = r
	}
	os.MkdirAll(filepath.Join(tmp, "outside", "dir"), 0o755)
	os.WriteFile(filepath.Join(tmp, "outside", "target"), []byte(c16Canary), 0o644)
	os.WriteFile(filepath.Join(tmp, "outside", "dir", "keep"), []byte("keep"), 0o644)
	os.MkdirAll(filepath.Join(tmp, "work", "dest"), 0o755)
	for _, p := range c.Tree {
		full := filepath.Join(tmp, filepath.FromSlash(p.Path))
		switch p.Kind {
		case "dir":
			os.Mkdir(full, 0o755)
		case "file":
			if _, e := os.Lstat(full); e != nil { // never through an earlier link
				os.WriteFile(full, []byte(p.Data), 0o644)
			}
		case "link":
			os.Symlink(strings.ReplaceAll(p.Data, "$SB", tmp), full)
		}
	}
	return tmp, nil
}

// c16MapName replaces the sandbox's random directory name by "sb" wherever it occurs as a
// path component (it does below the destination when an absolute link is re-rooted there).
func c16MapName(p, sbName, to string) string {
	if !strings.Contains(p, sbName) {
		return p
	}
	parts := strings.Split(p, "/")
	for i, q := range parts {
		if q == sbName {
			parts[i] = to
		}
	}
	return strings.Join(parts, "/")
}

// c16TreeSnapshot lists the sandbox without following links, parents before children.
func c16TreeSnapshot(tmp string) []c16TP {
	sbName := filepath.Base(tmp)
	var out []c16TP
	filepath.Walk(tmp, func(p string, fi os.FileInfo, err error) error {
		if err != nil || p == tmp {
			return nil
		}
		rel, _ := filepath.Rel(tmp, p)
		rel = c16MapName(filepath.ToSlash(rel), sbName, "sb")
		switch {
		case fi.Mode()&os.ModeSymlink != 0:
			t, _ := os.Readlink(p)
			if t == tmp || strings.HasPrefix(t, tmp+"/") {
				t = "$SB" + t[len(tmp):]
			}
			out = append(out, c16TP{Path: rel, Kind: "link", Data: t})
		case fi.IsDir():
			out = append(out, c16TP{Path: rel, Kind: "dir"})
		default:
			b, _ := os.ReadFile(p)
			out = append(out, c16TP{Path: rel, Kind: "file", Data: string(b)})
		}
		return nil
	})
	return out
}

func c16TreeHasLinkInDest(snap []c16TP) bool {
	for _, p := range snap {
		if p.Kind == "link" && strings.HasPrefix(p.Path, "work/dest/") {
			return true
		}
	}
	return false
}

func c16Errno(err error) string {
	switch {
	case err == nil:
		return ""
	case errors.Is(err, syscall.ENOENT):
		return "enoent"
	case errors.Is(err, syscall.ENOTDIR):
		return "enotdir"
	case errors.Is(err, syscall.ELOOP):
		return "eloop"
	case errors.Is(err, syscall.EINVAL):
		return "einval"
	}
	return "other"
}

func c16ChartNameOf(gz []byte) (name string, nameErr bool) {
	files, err := loader.LoadArchiveFiles(bytes.NewReader(gz))
	if err != nil {
		return "", false
	}
	for _, f := range files {
		if f.Name == "Chart.yaml" {
			md := &chart.Metadata{}
			if err := yaml.Unmarshal(f.Data, md); err != nil {
				return "", true
			}
			name = md.Name
		}
	}
	return name, false
}

var c16LockValue = &chart.Lock{Digest: "sha256:verif"}

func c16ExecTree(c *c16Case) (obs c16Obs) {
	tmp, err := c16TreeSetup(c)
	if err != nil {
		return c16Obs{Panic: "setup: " + err.Error()}
	}
	defer os.RemoveAll(tmp)
	dest := filepath.Join(tmp, "work", "dest")
	obs.Before = c16TreeSnapshot(tmp)
	obs.SBParent = filepath.Dir(tmp)
	sbName := filepath.Base(tmp)
	mapBack := func(p string) string {
		if p == tmp || strings.HasPrefix(p, tmp+"/") {
			return "$SB" + c16MapName(p[len(tmp):], sbName, "sb")
		}
		return p
	}
	func() {
		defer func() {
			if r := recover(); r != nil {
				obs.Panic = fmt.Sprint(r)
			}
		}()
		switch c.Kind {
		case "secjoin":
			p, err := installer.VerifSecureJoin(dest, c.Unsafe)
			if err != nil {
				obs.Err = "error"
			} else {
				obs.Path = mapBack(p)
			}
		case "resolve":
			full := dest + "/" + c.Unsafe
			var fi os.FileInfo
			var err error
			if c.Follow {
				fi, err = os.Stat(full)
			} else {
				fi, err = os.Lstat(full)
			}
			if err != nil {
				obs.Resolved = "!" + c16Errno(err)
				return
			}
			obs.Skip = true
			if root, e := os.Lstat(tmp); e == nil && os.SameFile(fi, root) {
				obs.Resolved, obs.Skip = "", false
				return
			}
			for _, p := range obs.Before {
				if q, e := os.Lstat(filepath.Join(tmp, filepath.FromSlash(c16MapName(p.Path, "sb", sbName)))); e == nil && os.SameFile(fi, q) {
					obs.Resolved, obs.Skip = p.Path, false
					break
				}
			}
		case "expandt":
			gz := c16Gzip(c)
			obs.Scan, obs.GzErr, obs.ScanErr = c16ScanStream(gz)
			obs.ChartName, obs.NameErr = c16ChartNameOf(gz)
			if err := chartutil.Expand(dest, bytes.NewReader(gz)); err != nil {
				obs.Err = "error"
			}
		case "extractt":
			gz := c16Gzip(c)
			obs.Scan, obs.GzErr, obs.ScanErr = c16ScanStream(gz)
			if err := (&installer.TarGzExtractor{}).Extract(bytes.NewBuffer(gz), dest); err != nil {
				obs.Err = "error"
			}
		case "lockt":
			data, _ := yaml.Marshal(c16LockValue)
			obs.LockData = string(data)
			if err := downloader.VerifWriteLock(tmp+"/"+c.ChartPath, c16LockValue, c.Legacy); err != nil {
				obs.Err = "error"
			}
		}
	}()
	obs.After = c16TreeSnapshot(tmp)
	if c.Kind == "expandt" || c.Kind == "extractt" {
		before := c16TreeIndex(obs.Before)
		for _, p := range obs.After {
			if p.Kind != "link" || !strings.HasPrefix(p.Path, "work/dest/") || before[p.Path] == p {
				continue
			}
			nl := c16NewLink{Path: p.Path, Target: p.Data}
			real, err := filepath.EvalSymlinks(filepath.Join(tmp, filepath.FromSlash(c16MapName(p.Path, "sb", sbName))))
			switch {
			case err != nil:
				nl.Err = c16Errno(err)
			case real == tmp:
				nl.Real = "."
			case strings.HasPrefix(real, tmp+"/"):
				nl.Real = c16MapName(real[len(tmp)+1:], sbName, "sb")
			default:
				nl.Real = "<outside>" + real
			}
			obs.NewLinks = append(obs.NewLinks, nl)
		}
	}
	return obs
}

// ---------------------------------------------------------------- runtime oracle

func c16TreeIndex(snap []c16TP) map[string]c16TP {
	m := map[string]c16TP{}
	for _, p := range snap {
		m[p.Path] = p
	}
	return m
}

func c16TreeChanged(before, after []c16TP) []string {
	a, b := c16TreeIndex(before), c16TreeIndex(after)
	var out []string
	for k, v := range a {
		if w, ok := b[k]; !ok || w != v {
			out = append(out, k)
		}
	}
	for k := range b {
		if _, ok := a[k]; !ok {
			out = append(out, k)
		}
	}
	sort.Strings(out)
	return out
}

// c16Realpath resolves a sandbox-relative path on a snapshot the way the kernel would,
// following every link; ok=false when it does not resolve or leaves the sandbox.  Written
// for the oracle, independently of the Coq model.
func c16Realpath(idx map[string]c16TP, rel string) (string, bool) {
	var cur []string
	todo := strings.Split(rel, "/")
	for links := 0; len(todo) > 0; {
		part := todo[0]
		todo = todo[1:]
		switch part {
		case "", ".":
			continue
		case "..":
			if len(cur) == 0 {
				return "", false
			}
			cur = cur[:len(cur)-1]
			continue
		}
		next := strings.Join(append(append([]string{}, cur...), part), "/")
		n, ok := idx[next]
		if !ok {
			return "", false
		}
		if n.Kind == "link" {
			if links++; links > 40 {
				return "", false
			}
			t := n.Data
			if strings.HasPrefix(t, "$SB") {
				cur = nil
				t = strings.TrimPrefix(t, "$SB")
			} else if strings.HasPrefix(t, "/") {
				return "", false
			}
			todo = append(strings.Split(t, "/"), todo...)
			continue
		}
		cur = append(cur, part)
	}
	return strings.Join(cur, "/"), true
}

// c16WalkLeaves follows the sandbox-relative path rel over a snapshot and reports whether the
// walk is ever at a location that is not dest or below it (rel itself lies below dest).
func c16WalkLeaves(idx map[string]c16TP, rel, dest string) bool {
	in := func(cur []string) bool {
		p := strings.Join(cur, "/")
		return p == dest || strings.HasPrefix(p, dest+"/")
	}
	var cur []string
	todo := strings.Split(rel, "/")
	started := false
	for links := 0; len(todo) > 0; {
		part := todo[0]
		todo = todo[1:]
		switch part {
		case "", ".":
		case "..":
			if len(cur) > 0 {
				cur = cur[:len(cur)-1]
			}
		default:
			next := strings.Join(append(append([]string{}, cur...), part), "/")
			n, ok := idx[next]
			if ok && n.Kind == "link" {
				if links++; links > 40 {
					return false
				}
				t := n.Data
				if strings.HasPrefix(t, "$SB") {
					cur = nil
					t = strings.TrimPrefix(t, "$SB")
				} else if strings.HasPrefix(t, "/") {
					return true // an absolute target outside the sandbox
				}
				todo = append(strings.Split(t, "/"), todo...)
				started = started || in(cur)
				continue
			}
			cur = append(cur, part)
			if !ok && len(todo) > 0 {
				// a missing intermediate component: the rest cannot be followed any further
				return started && !in(cur)
			}
		}
		if in(cur) {
			started = true
		} else if started {
			return true
		}
	}
	return false
}

func c16OracleTree(c *c16Case, obs *c16Obs) []hx.Violation {
	var vs []hx.Violation
	inside := func(p string) bool { return p == "work/dest" || strings.HasPrefix(p, "work/dest/") }
	before, after := c16TreeIndex(obs.Before), c16TreeIndex(obs.After)
	changed := c16TreeChanged(obs.Before, obs.After)
	switch c.Kind {
	case "secjoin":
		if obs.Err != "" {
			return nil
		}
		rel := strings.TrimPrefix(obs.Path, "$SB/")
		if !strings.HasPrefix(obs.Path, "$SB/") || !inside(rel) {
			return []hx.Violation{{Sig: "C16:securejoin-escapes-root", What: fmt.Sprintf("SecureJoin(dest, %q) = %q is not below the root", c.Unsafe, obs.Path)}}
		}
		// evaluated, the result stays inside: no component below the root is a symlink
		parts := strings.Split(rel, "/")
		for i := 3; i <= len(parts); i++ {
			if n, ok := before[strings.Join(parts[:i], "/")]; ok && n.Kind == "link" {
				return []hx.Violation{{Sig: "C16:securejoin-result-through-symlink", What: fmt.Sprintf("SecureJoin(dest, %q) = %q passes through the symlink %q", c.Unsafe, obs.Path, n.Path)}}
			}
		}
	case "expandt", "extractt":
		for _, p := range changed {
			if !inside(p) {
				vs = append(vs, hx.Violation{Sig: "C16:" + strings.TrimSuffix(c.Kind, "t") + "-writes-outside-destination",
					What: fmt.Sprintf("%s changed %q, which is outside the destination directory (tree %v)", c.Kind, p, c.Tree)})
				break
			}
		}
		// "... and FOLLOW files only inside the destination, regardless of symlink entries": a link
		// the call left below the destination must not lead out of it, by the real kernel
		// (EvalSymlinks in the sandbox) and by a walk over the snapshot that also sees where a
		// dangling or looping link passes through
		for _, nl := range obs.NewLinks {
			leaves := nl.Real != "" && !inside(nl.Real)
			if !leaves {
				leaves = c16WalkLeaves(after, nl.Path, "work/dest")
			}
			if leaves {
				vs = append(vs, hx.Violation{Sig: "C16:" + strings.TrimSuffix(c.Kind, "t") + "-link-leads-outside",
					What: fmt.Sprintf("%s left the link %q -> %q below the destination; it resolves to %q (%s), outside the destination", c.Kind, nl.Path, nl.Target, nl.Real, nl.Err)})
				break
			}
		}
	case "lockt":
		name := "Chart.lock"
		if c.Legacy {
			name = "requirements.lock"
		}
		// the chart directory: the given path as filepath.Join cleans it, resolved by the kernel
		dir, ok := c16Realpath(before, path.Clean(c.ChartPath))
		lockAt := name
		if dir != "" {
			lockAt = dir + "/" + name
		}
		for _, p := range changed {
			if !ok || p != lockAt {
				vs = append(vs, hx.Violation{Sig: "C16:lock-writes-outside-destination",
					What: fmt.Sprintf("writeLock(%q) changed %q, which is not the lock file of the chart directory (%q)", c.ChartPath, p, lockAt)})
				break
			}
		}
		if n, had := before[lockAt]; ok && had && n.Kind == "link" {
			if obs.Err == "" {
				vs = append(vs, hx.Violation{Sig: "C16:lock-written-through-symlink", What: fmt.Sprintf("writeLock succeeded although %q is a symlink to %q", lockAt, n.Data)})
			}
			if after[lockAt] != n {
				vs = append(vs, hx.Violation{Sig: "C16:lock-symlink-replaced", What: fmt.Sprintf("the symlink at %q was replaced", lockAt)})
			}
		}
	}
	return vs
}

// ---------------------------------------------------------------- Coq printer

// the sandbox root in the model: the real parent directory (usually /tmp) + "sb", so that
// absolute link targets have the same number of components in both worlds
func c16ModelRoot(parent string) string { return strings.TrimSuffix(parent, "/") + "/sb" }

func c16ModelTarget(t, parent string) string { return strings.Replace(t, "$SB", c16ModelRoot(parent), 1) }

type c16TNode struct {
	kind, data string
	names      []string
	kids       map[string]*c16TNode
}

func (n *c16TNode) coq(b *strings.Builder, parent string) {
	switch n.kind {
	case "file":
		b.WriteString("TFile " + chartx.CoqStr(n.data))
	case "link":
		b.WriteString("TLink " + chartx.CoqStr(c16ModelTarget(n.data, parent)))
	default:
		b.WriteString("TDir [")
		for i, k := range n.names {
			if i > 0 {
				b.WriteString("; ")
			}
			b.WriteString("(" + chartx.CoqStr(k) + ", ")
			n.kids[k].coq(b, parent)
			b.WriteString(")")
		}
		b.WriteString("]")
	}
}

func c16ParentComps(parent string) []string {
	var out []string
	for _, q := range strings.Split(parent, "/") {
		if q != "" {
			out = append(out, q)
		}
	}
	return out
}

// c16CoqTreeTerm prints the snapshot as a tnode: the parent directories hold sb, sb holds the sandbox.
func c16CoqTreeTerm(snap []c16TP, parent string) string {
	sb := &c16TNode{kind: "dir", kids: map[string]*c16TNode{}}
	for _, p := range snap {
		parts := strings.Split(p.Path, "/")
		cur := sb
		for _, q := range parts[:len(parts)-1] {
			cur = cur.kids[q]
		}
		last := parts[len(parts)-1]
		cur.names = append(cur.names, last)
		cur.kids[last] = &c16TNode{kind: p.Kind, data: p.Data, kids: map[string]*c16TNode{}}
	}
	var b strings.Builder
	b.WriteString("(")
	pc := c16ParentComps(parent)
	for _, q := range pc {
		b.WriteString("TDir [(" + chartx.CoqStr(q) + ", ")
	}
	b.WriteString(`TDir [("sb", `)
	sb.coq(&b, parent)
	b.WriteString(")]")
	for range pc {
		b.WriteString(")]")
	}
	b.WriteString(")")
	return b.String()
}

func c16CoqLoc(rel, parent string) string {
	var parts []string
	for _, q := range c16ParentComps(parent) {
		parts = append(parts, chartx.CoqStr(q))
	}
	parts = append(parts, `"sb"`)
	if rel != "" {
		for _, q := range strings.Split(rel, "/") {
			parts = append(parts, chartx.CoqStr(q))
		}
	}
	return "[" + strings.Join(parts, "; ") + "]"
}

func c16CoqListing(snap []c16TP, parent string) string {
	items := []string{"([], SDir)"}
	pc := c16ParentComps(parent)
	for i := range pc {
		var parts []string
		for _, q := range pc[:i+1] {
			parts = append(parts, chartx.CoqStr(q))
		}
		items = append(items, "(["+strings.Join(parts, "; ")+"], SDir)")
	}
	items = append(items, "("+c16CoqLoc("", parent)+", SDir)")
	for _, p := range snap {
		var sh string
		switch p.Kind {
		case "file":
			sh = "SFile " + chartx.CoqStr(p.Data)
		case "link":
			sh = "SLink " + chartx.CoqStr(c16ModelTarget(p.Data, parent))
		default:
			sh = "SDir"
		}
		items = append(items, "("+c16CoqLoc(p.Path, parent)+", "+sh+")")
	}
	return hx.CoqList(items)
}

func c16CoqStream(obs *c16Obs) string {
	ents := make([]string, len(obs.Scan))
	for i, e := range obs.Scan {
		ents[i] = fmt.Sprintf("mkTE %s %s %s %s %s %s", chartx.CoqStr(e.Name), hx.CoqZ(int64(e.Type)), hx.CoqZ(e.Mode), hx.CoqZ(e.Size),
			c16CoqBytes(e.Data), hx.CoqBool(e.RErr))
	}
	return fmt.Sprintf("(mkTS %s %s %s)", hx.CoqBool(obs.GzErr), hx.CoqList(ents), hx.CoqBool(obs.ScanErr))
}

func c16CoqTree(c *c16Case, obs *c16Obs) string {
	if obs.Skip {
		return "COracleOnly"
	}
	par := obs.SBParent
	root := c16ModelRoot(par)
	tree := c16CoqTreeTerm(obs.Before, par)
	failed := hx.CoqBool(obs.Err != "")
	destLoc := c16CoqLoc("work/dest", par)
	switch c.Kind {
	case "secjoin":
		o := "None"
		if obs.Err == "" {
			o = "(Some " + chartx.CoqStr(c16ModelTarget(obs.Path, par)) + ")"
		}
		return fmt.Sprintf(`CSecJoin %s %s %s %s`, tree, chartx.CoqStr(root+"/work/dest"), chartx.CoqStr(c.Unsafe), o)
	case "resolve":
		var o string
		switch obs.Resolved {
		case "!enoent":
			o = "RNoEnt"
		case "!enotdir":
			o = "RNotDir"
		case "!eloop":
			o = "RLoop"
		case "!einval":
			o = "RInval"
		case "!other":
			o = "ROther"
		default:
			o = "(RAt " + c16CoqLoc(obs.Resolved, par) + ")"
		}
		return fmt.Sprintf("CResolve %s %s %s %s", tree, chartx.CoqStr(root+"/work/dest/"+c.Unsafe), hx.CoqBool(c.Follow), o)
	case "expandt":
		name := "(Some " + chartx.CoqStr(obs.ChartName) + ")"
		if obs.NameErr {
			name = "None"
		}
		return fmt.Sprintf(`CExpandT %s %s %s %s %s %s`, tree, destLoc, name, c16CoqStream(obs), failed, c16CoqListing(obs.After, par))
	case "extractt":
		return fmt.Sprintf(`CExtractT %s %s %s %s %s`, tree, destLoc, c16CoqStream(obs), failed, c16CoqListing(obs.After, par))
	case "lockt":
		return fmt.Sprintf("CLockT %s %s %s %s %s %s", tree, chartx.CoqStr(root+"/"+c.ChartPath), hx.CoqBool(c.Legacy), chartx.CoqStr(obs.LockData), failed, c16CoqListing(obs.After, par))
	}
	return "CPanic"
}

func c16ClassTree(c *c16Case, obs *c16Obs) string {
	k := c.Kind + ":ok"
	if obs.Err != "" {
		k = c.Kind + ":error"
	}
	if c.Kind == "resolve" {
		switch {
		case obs.Skip:
			k = "resolve:left-sandbox"
		case strings.HasPrefix(obs.Resolved, "!"):
			k = "resolve:" + obs.Resolved[1:]
		default:
			k = "resolve:at"
		}
	}
	if c16TreeHasLinkInDest(obs.Before) {
		k += "(links)"
	}
	if (c.Kind == "expandt" || c.Kind == "extractt" || c.Kind == "lockt") && len(c16TreeChanged(obs.Before, obs.After)) > 0 {
		k += "(wrote)"
	}
	return k
}

// ---------------------------------------------------------------- generator

var c16TNames = []string{"a", "b", "mychart", "templates", "bin", "x", "Chart.yaml", "Chart.lock", "requirements.lock", "l1", "l2", "l3",
	"chart", "sub", "new", "plugin.yaml", "a b", "ü", "files"}

func c16Depth(rel string) int { return strings.Count(rel, "/") + 1 }

// c16GenTarget: a link target for a link named name inside the directory dir (sandbox
// relative).  Relative targets never climb above the sandbox root.
func c16GenTarget(r *rand.Rand, dir, name string, all []string) string {
	depth := c16Depth(dir)
	pick := func() string { return all[r.Intn(len(all))] }
	switch r.Intn(12) {
	case 0, 1:
		return "$SB/" + pick()
	case 2:
		return "$SB/outside/new" + fmt.Sprint(r.Intn(3))
	case 3:
		return name // a loop
	case 4, 5:
		return strings.Repeat("../", depth) + []string{"outside/dir", "outside/target", "outside", "outside/dir/keep", "outside/nothing"}[r.Intn(5)]
	case 6, 7:
		return c16TNames[r.Intn(len(c16TNames))] // a sibling: maybe another link (chain), maybe nothing
	case 8:
		k := r.Intn(depth + 1)
		t := strings.Repeat("../", k)
		for i := r.Intn(3); i >= 0; i-- {
			t += c16TNames[r.Intn(len(c16TNames))]
			if i > 0 {
				t += "/"
			}
		}
		return t
	case 9:
		return []string{".", "..", "./", "../", "./" + c16TNames[r.Intn(len(c16TNames))] + "/", "a//b", "a/./b"}[r.Intn(7)]
	case 10:
		return []string{"$SB/work/dest", "$SB", "$SB/work", "$SB/outside/dir/"}[r.Intn(4)]
	default:
		// up to the sandbox root and down again to somewhere that exists
		return strings.Repeat("../", depth) + pick()
	}
}

func c16GenPlants(r *rand.Rand, lockBias bool) []c16TP {
	dirs := []string{"work/dest"}
	all := []string{"outside", "outside/dir", "outside/target", "outside/dir/keep", "work", "work/dest"}
	seen := map[string]bool{}
	for _, p := range all {
		seen[p] = true
	}
	var out []c16TP
	add := func(p c16TP) {
		if seen[p.Path] {
			return
		}
		seen[p.Path] = true
		out = append(out, p)
		all = append(all, p.Path)
		if p.Kind == "dir" {
			dirs = append(dirs, p.Path)
		}
	}
	n := r.Intn(9)
	for i := 0; i < n; i++ {
		parent := dirs[r.Intn(len(dirs))]
		if r.Intn(12) == 0 {
			parent = []string{"outside", "work", "outside/dir"}[r.Intn(3)]
		}
		name := c16TNames[r.Intn(len(c16TNames))]
		p := parent + "/" + name
		switch k := r.Intn(20); {
		case k < 7:
			add(c16TP{Path: p, Kind: "dir"})
		case k < 11:
			add(c16TP{Path: p, Kind: "file", Data: fmt.Sprintf("planted-%d", i)})
		default:
			add(c16TP{Path: p, Kind: "link", Data: c16GenTarget(r, parent, name, all)})
		}
	}
	if lockBias && r.Intn(10) < 7 {
		parent := dirs[r.Intn(len(dirs))]
		name := []string{"Chart.lock", "requirements.lock"}[r.Intn(2)]
		switch r.Intn(6) {
		case 0:
			add(c16TP{Path: parent + "/" + name, Kind: "file", Data: "digest: planted\n"})
		case 1:
			add(c16TP{Path: parent + "/" + name, Kind: "dir"})
		default:
			add(c16TP{Path: parent + "/" + name, Kind: "link", Data: c16GenTarget(r, parent, name, all)})
		}
	}
	return out
}

// a path below the destination whose components mostly name things in the tree
func c16GenUnsafe(r *rand.Rand, tree []c16TP) string {
	var names []string
	for _, p := range tree {
		if strings.HasPrefix(p.Path, "work/dest/") {
			names = append(names, p.Path[strings.LastIndex(p.Path, "/")+1:])
		}
	}
	n := 1 + r.Intn(5)
	var parts []string
	for i := 0; i < n; i++ {
		switch k := r.Intn(20); {
		case k < 11 && len(names) > 0:
			parts = append(parts, names[r.Intn(len(names))])
		case k < 14:
			parts = append(parts, "..")
		case k < 15:
			parts = append(parts, ".")
		case k < 16:
			parts = append(parts, "")
		case k < 17:
			parts = append(parts, []string{"keep", "dir", "target", "outside"}[r.Intn(4)])
		default:
			parts = append(parts, c16TNames[r.Intn(len(c16TNames))])
		}
	}
	s := strings.Join(parts, "/")
	switch r.Intn(12) {
	case 0:
		s = "/" + s
	case 1:
		s += "/"
	case 2:
		s = strings.Replace(s, "/", "\\", 1)
	case 3:
		if r.Intn(4) == 0 {
			s += "\x00"
		}
	}
	return s
}

// archives whose entries are (or go through) links: names relative to the archive's base
func c16Lnk(name, target string) c16Ent {
	return c16Ent{Name: name, Type: '2', Mode: 0o777, Link: target}
}
func c16Hard(name, target string) c16Ent {
	return c16Ent{Name: name, Type: '1', Mode: 0o644, Link: target}
}
func c16Reg(name, data string) c16Ent {
	return c16Ent{Name: name, Type: '0', Mode: 0o644, Size: -1, Data: []byte(data)}
}
func c16DirEnt(name string) c16Ent { return c16Ent{Name: name, Type: '5', Mode: 0o755} }

var c16LinkScenarios = [][]c16Ent{
	// single links
	{c16Reg("plugin.yaml", "name: p"), c16Lnk("up", "..")},
	{c16Reg("plugin.yaml", "name: p"), c16Lnk("abs", "/etc")},
	{c16Reg("plugin.yaml", "name: p"), c16Lnk("in", "plugin.yaml"), c16Reg("in", "through the link")},
	{c16Reg("plugin.yaml", "name: p"), c16Lnk("self", ".")},
	{c16Reg("plugin.yaml", "name: p"), c16Lnk("esc", "a/../../x")},
	{c16Reg("plugin.yaml", "name: p"), c16Lnk("dang", "nothing/there")},
	{c16DirEnt("sub"), c16Lnk("sub/up", "../..")},
	{c16DirEnt("sub"), c16Lnk("sub/ok", ".."), c16Reg("sub/ok/f", "f")},
	// chained pairs: each target is lexically inside
	{c16Lnk("here", "."), c16Lnk("up", "here/.."), c16Reg("up/evil", "evil"), c16Reg("up/neighbour/plugin.yaml", "name: n")},
	{c16Reg("plugin.yaml", "name: p"), c16Lnk("here", "."), c16Lnk("up", "here/.."), c16Lnk("plugin2.yaml", "up/neighbour/plugin.yaml")},
	{c16DirEnt("sub"), c16Lnk("a", "sub"), c16Lnk("sub/b", "../.."), c16Reg("a/b/evil", "evil")},
	{c16DirEnt("sub"), c16Lnk("a", "sub"), c16Lnk("c", "a/.."), c16Reg("c/f", "f")},
	// triples
	{c16Lnk("a", "."), c16Lnk("b", "a/."), c16Lnk("c", "b/../.."), c16Reg("c/evil", "evil")},
	{c16DirEnt("d"), c16DirEnt("d/e"), c16Lnk("x", "d/e"), c16Lnk("y", "x/.."), c16Lnk("z", "y/../.."), c16Reg("z/evil", "evil")},
	// hard links: single, to outside names, chained with a symlink
	{c16Reg("plugin.yaml", "name: p"), c16Hard("h", "plugin.yaml"), c16Reg("h", "via hardlink")},
	{c16Hard("h", "../outside/target")}, {c16Hard("h", "/etc/passwd")},
	{c16Lnk("here", "."), c16Hard("h", "here/../../outside/target")},
	// a link where a later regular entry and a later directory entry want to be
	{c16Lnk("bin", ".."), c16DirEnt("bin"), c16Reg("bin/x", "x")},
	{c16Lnk("f", "../../outside/target"), c16Reg("f", "overwrite?")},
}

func c16GenLinkScenario(r *rand.Rand) []c16Ent {
	if r.Intn(3) != 0 {
		return append([]c16Ent{}, c16LinkScenarios[r.Intn(len(c16LinkScenarios))]...)
	}
	// a random chain: links whose targets go through earlier links
	names := []string{"l0", "l1", "l2", "l3"}
	var ents []c16Ent
	if r.Intn(2) == 0 {
		ents = append(ents, c16DirEnt("sub"))
		names = append(names, "sub/m")
	}
	var made []string
	for i := 0; i < 2+r.Intn(3); i++ {
		name := names[r.Intn(len(names))]
		var t string
		switch k := r.Intn(10); {
		case k < 2 || len(made) == 0:
			t = []string{".", "sub", "./", "sub/..", "..", "nothing"}[r.Intn(6)]
		case k < 8:
			t = made[r.Intn(len(made))] + []string{"/..", "/../..", "/.", "/sub", "/../outside"}[r.Intn(5)]
		default:
			t = []string{"/", "../..", "a/../../x"}[r.Intn(3)]
		}
		if strings.HasPrefix(name, "sub/") && r.Intn(2) == 0 {
			t = "../" + t
		}
		if r.Intn(8) == 0 {
			ents = append(ents, c16Hard(name, t))
		} else {
			ents = append(ents, c16Lnk(name, t))
		}
		made = append(made, strings.TrimPrefix(name, "sub/"))
	}
	if len(made) > 0 {
		ents = append(ents, c16Reg(made[len(made)-1]+"/evil", "evil"))
	}
	return ents
}

func c16GenTreeEnts(r *rand.Rand, tree []c16TP, plugin bool) []c16Ent {
	if r.Intn(4) == 0 {
		ents := c16GenLinkScenario(r)
		if !plugin {
			for i := range ents {
				ents[i].Name = "x/" + ents[i].Name
			}
		}
		return ents
	}
	var ents []c16Ent
	n := 1 + r.Intn(4)
	for i := 0; i < n; i++ {
		name := c16GenUnsafe(r, tree)
		name = strings.ReplaceAll(name, "\x00", "")
		if r.Intn(3) != 0 { // mostly well-behaved names, the tree is the hostile part
			name = strings.Trim(strings.ReplaceAll(strings.ReplaceAll(name, "../", ""), "..", "d"), "/")
			if name == "" {
				name = "f"
			}
		}
		e := c16Ent{Name: name, Type: '0', Mode: 0o644, Size: -1, Data: []byte(fmt.Sprintf("entry-%d", i))}
		if !plugin {
			e.Name = "x/" + name
		}
		switch k := r.Intn(30); {
		case k < 6 && plugin:
			e.Type, e.Mode, e.Data = '5', 0o755, nil
		case k < 8:
			e.Type, e.Link, e.Data = '2', []string{"../../outside/target", "/etc/passwd", "a"}[r.Intn(3)], nil
		case k < 9:
			e.Type, e.Link, e.Data = '1', "x/Chart.yaml", nil
		case k < 10:
			e.Type = 'x'
			e.Data = []byte("13 comment=x\n")
		case k < 11:
			e.Type = '5'
			e.Mode = 0o755
			e.Data = nil
		}
		ents = append(ents, e)
	}
	return ents
}

func c16GenTree(r *rand.Rand) c16Case {
	switch k := r.Intn(10); {
	case k < 2:
		c := c16Case{Kind: "secjoin", Tree: c16GenPlants(r, false)}
		c.Unsafe = c16GenUnsafe(r, c.Tree)
		return c
	case k < 4:
		c := c16Case{Kind: "resolve", Tree: c16GenPlants(r, false), Follow: r.Intn(2) == 0}
		c.Unsafe = c16GenUnsafe(r, c.Tree)
		return c
	case k < 6:
		c := c16Case{Kind: "expandt", Tree: c16GenPlants(r, false)}
		name := []string{"mychart", "mychart", "a", "l1", "l2", "chart", "bin", "../evil", "/abs", "a/b", ".", "..", "mychart/../l1", "a\x00b", "ü", "x\\y"}[r.Intn(16)]
		c.Ents = append([]c16Ent{{Name: "x/Chart.yaml", Type: '0', Mode: 0o644, Size: -1, Data: []byte(fmt.Sprintf("apiVersion: v2\nname: %q\nversion: 0.1.0\n", name))}},
			c16GenTreeEnts(r, c.Tree, false)...)
		return c
	case k < 8:
		c := c16Case{Kind: "extractt", Tree: c16GenPlants(r, false)}
		c.Ents = c16GenTreeEnts(r, c.Tree, true)
		return c
	default:
		c := c16Case{Kind: "lockt", Tree: c16GenPlants(r, true), Legacy: r.Intn(3) == 0}
		c.ChartPath = "work/dest"
		var dirs []string
		for _, p := range c.Tree {
			if strings.HasPrefix(p.Path, "work/dest/") && p.Kind != "file" {
				dirs = append(dirs, p.Path)
			}
		}
		if len(dirs) > 0 && r.Intn(4) != 0 {
			c.ChartPath = dirs[r.Intn(len(dirs))]
		}
		switch r.Intn(8) {
		case 0:
			c.ChartPath += "/"
		case 1:
			c.ChartPath += "/."
		case 2:
			c.ChartPath += "/sub/.."
		case 3:
			c.ChartPath = strings.Replace(c.ChartPath, "/", "//", 1)
		}
		return c
	}
}

// the tree of Chart/FsLockProofs.v (ex_tree), as plants
var c16ExTree = []c16TP{
	{Path: "work/dest/mychart", Kind: "link", Data: "../../outside/dir"},
	{Path: "work/dest/abs", Kind: "link", Data: "$SB/outside"},
	{Path: "work/dest/loop", Kind: "link", Data: "loop"},
	{Path: "work/dest/a", Kind: "dir"},
	{Path: "work/dest/a/up", Kind: "link", Data: "../../../outside/target"},
	{Path: "work/dest/a/chain", Kind: "link", Data: "../abs/dir"},
	{Path: "work/dest/dang", Kind: "link", Data: "$SB/outside/new"},
	{Path: "work/dest/chart", Kind: "dir"},
	{Path: "work/dest/chart/Chart.lock", Kind: "link", Data: "../../../outside/target"},
	{Path: "work/dest/linked", Kind: "link", Data: "chart"},
	{Path: "work/dest/plain", Kind: "dir"},
	{Path: "work/dest/plain/Chart.lock", Kind: "file", Data: "digest: planted\n"},
	{Path: "work/dest/plain/requirements.lock", Kind: "dir"},
	{Path: "work/dest/file", Kind: "file", Data: "a file"},
	{Path: "work/dest/inchart", Kind: "dir"},
	{Path: "work/dest/inchart/inner.lock", Kind: "file", Data: "digest: inner\n"},
	{Path: "work/dest/inchart/Chart.lock", Kind: "link", Data: "inner.lock"},
	{Path: "work/dest/inchart/requirements.lock", Kind: "link", Data: "./sub/../inner.lock"},
	{Path: "work/dest/inchart/sub", Kind: "dir"},
	{Path: "work/dest/linkplain", Kind: "link", Data: "plain"},
}

func c16Chain(n int, end string) []c16TP {
	var out []c16TP
	for i := 0; i < n; i++ {
		t := fmt.Sprintf("c%d", i+1)
		if i == n-1 {
			t = end
		}
		out = append(out, c16TP{Path: fmt.Sprintf("work/dest/c%d", i), Kind: "link", Data: t})
	}
	return out
}

func c16CorpusTree() []any {
	var out []any
	reg := func(name, data string) c16Ent {
		return c16Ent{Name: name, Type: '0', Mode: 0o644, Size: -1, Data: []byte(data)}
	}
	for _, u := range []string{"mychart/keep", "a/chain/x", "abs/../../x", "loop/x", "../../outside/target", "dang", "dang/x", "a/up", "a/up/x", "linked/Chart.lock",
		"", ".", "/", "file/x", "a/../mychart/../abs/target", "nothing/../mychart", "a\x00b", "mychart/", "a/chain/../../.."} {
		out = append(out, c16Case{Kind: "secjoin", Tree: c16ExTree, Unsafe: u})
		out = append(out, c16Case{Kind: "resolve", Tree: c16ExTree, Unsafe: u, Follow: true})
		out = append(out, c16Case{Kind: "resolve", Tree: c16ExTree, Unsafe: u, Follow: false})
	}
	// the kernel's and the library's link limits at their boundaries
	for _, n := range []int{39, 40, 41} {
		out = append(out, c16Case{Kind: "resolve", Tree: c16Chain(n, "../../outside/target"), Unsafe: "c0", Follow: true})
		out = append(out, c16Case{Kind: "resolve", Tree: c16Chain(n, "../../outside/dir"), Unsafe: "c0/keep", Follow: false})
	}
	for _, n := range []int{254, 255, 256} {
		out = append(out, c16Case{Kind: "secjoin", Tree: c16Chain(n, "end"), Unsafe: "c0/x"})
	}
	chartYaml := func(name string) c16Ent {
		return reg("x/Chart.yaml", fmt.Sprintf("apiVersion: v2\nname: %q\nversion: 0.1.0\n", name))
	}
	for _, name := range []string{"mychart", "linked", "abs", "loop", "dang", "a", "a/chain", "file", "../../outside/dir", "/", ".", "new/deeper"} {
		out = append(out, c16Case{Kind: "expandt", Tree: c16ExTree, Ents: []c16Ent{chartYaml(name), reg("x/keep", "new"), reg("x/templates/a.yaml", "a"), reg("x/up", "u"), reg("x/Chart.lock", "l")}})
	}
	out = append(out, c16Case{Kind: "expandt", Tree: c16ExTree, Ents: []c16Ent{chartYaml("a"), {Name: "x/lnk", Type: '2', Mode: 0o777, Link: "../../../outside/target"}, reg("x/lnk", "through?"), reg("x/up", "u"), reg("x/chain/keep", "written")}})
	for _, ents := range [][]c16Ent{
		{reg("plugin.yaml", "name: p"), {Name: "bin", Type: '5', Mode: 0o755}, reg("bin/x", "#!/bin/sh")},
		{reg("dang", "d")}, {reg("mychart/new", "n")}, {reg("a/up", "u")}, {reg("abs/dir/keep", "written")}, {reg("a/chain/keep", "written")}, {reg("loop", "l")}, {reg("loop/x", "l")},
		{{Name: "mychart", Type: '5', Mode: 0o755}}, {{Name: "dang", Type: '5', Mode: 0o755}}, {{Name: "newdir", Type: '5', Mode: 0o755}, reg("newdir/f", "f"), reg("newdir/f", "g2")},
		{reg("file", "xy")}, {reg("file/x", "x")}, {{Name: "l", Type: '2', Mode: 0o777, Link: "../../outside/target"}, reg("l", "x")}, {reg("plain/Chart.lock", "short")},
		{reg("linked/Chart.lock", "via two links")}, {reg("a\\up", "backslash is a separator here")}, {reg("c:up", "colon")},
	} {
		out = append(out, c16Case{Kind: "extractt", Tree: c16ExTree, Ents: ents})
	}
	// archives with link entries, into an empty destination and into the tree of links
	for _, sc := range c16LinkScenarios {
		out = append(out, c16Case{Kind: "extractt", Ents: sc})
		xs := []c16Ent{chartYaml("mychart")}
		for _, e := range sc {
			e.Name = "x/" + e.Name
			xs = append(xs, e)
		}
		out = append(out, c16Case{Kind: "expandt", Ents: xs})
	}
	out = append(out, c16Case{Kind: "extractt", Tree: c16ExTree, Ents: c16LinkScenarios[8]})
	out = append(out, c16Case{Kind: "extractt", Tree: c16ExTree, Ents: []c16Ent{c16Lnk("a/here", "."), c16Lnk("a/up2", "here/../.."), c16Reg("a/up2/evil", "evil")}})
	for _, legacy := range []bool{false, true} {
		for _, cp := range []string{"work/dest/chart", "work/dest/linked", "work/dest/mychart", "work/dest/abs/dir", "work/dest/a/..", "work/dest/loop", "work/dest/plain", "work/dest/plain/",
			"work/dest", "work/dest/dang", "work/dest/file", "work/dest/nothing", "work//dest/./chart", "work/dest/a/chain", "work/dest/inchart", "work/dest/linkplain", "work/dest/linkplain/../linkplain/"} {
			out = append(out, c16Case{Kind: "lockt", Tree: c16ExTree, ChartPath: cp, Legacy: legacy})
		}
	}
	return out
}

package main

// C18 — OCI tag lists.  An in-process registry stub (httptest, plain HTTP, nothing leaves the
// process) serves /v2/<repo>/tags/list split into pages linked by Link: rel="next", the way
// registries page long listings.  The REAL registry.Client.Tags, Client.ValidateReference and
// GetTagMatchingVersionOrConstraint are driven through it; the observations go to
// Misc/Tags.v through Run/RunC18.v, and the runtime oracle checks every answer against the
// maximum over the tags of ALL pages (real semver library as arbiter).

import (
	"encoding/json"
	"fmt"
	"math/rand"
	"net/http"
	"net/http/httptest"
	"net/url"
	"os"
	"path/filepath"
	"sort"
	"strings"
	"sync"

	"github.com/Masterminds/semver/v3"

	chart "helm.sh/helm/v4/pkg/chart/v2"
	"helm.sh/helm/v4/pkg/downloader"
	"helm.sh/helm/v4/pkg/registry"

	"verif/harness/internal/hx"
)

// ---- case / observation ----

type c18OCI struct {
	Pages    [][]string `json:"pages"`    // the tag listing as the registry serves it, page by page (>= 1 page)
	Versions []string   `json:"versions"` // version arguments: "", exact strings, constraints
}

type c18OVR struct {
	Kind string `json:"kind"` // ok err panic
	Tag  string `json:"tag,omitempty"`
}

type c18OOCI struct {
	TagsOK bool      `json:"tags_ok"`
	Tags   []string  `json:"tags"`
	VR     []c18OVR  `json:"vr"`    // Client.ValidateReference("oci://host/repo", version, url)
	Match  []c18OTag `json:"match"` // GetTagMatchingVersionOrConstraint(Client.Tags(..), version)
	Res    []c18ORes `json:"res"`   // Resolve of one dependency oci://host/charts, name appN, range = version
	Panic  string    `json:"panic,omitempty"`
}

// ---- the registry stub ----

var (
	c18StubOnce   sync.Once
	c18StubSrv    *httptest.Server
	c18StubHost   string
	c18StubClient *registry.Client
	c18StubErr    error
	c18StubMu     sync.Mutex
	c18StubRepos  = map[string][][]string{}
	c18StubSeq    int
	c18StubDir    string
)

func c18StubStart() {
	c18StubSrv = httptest.NewServer(http.HandlerFunc(func(w http.ResponseWriter, r *http.Request) {
		if r.URL.Path == "/v2/" {
			w.WriteHeader(http.StatusOK)
			return
		}
		const suffix = "/tags/list"
		if !strings.HasPrefix(r.URL.Path, "/v2/") || !strings.HasSuffix(r.URL.Path, suffix) {
			http.NotFound(w, r)
			return
		}
		repo := strings.TrimSuffix(strings.TrimPrefix(r.URL.Path, "/v2/"), suffix)
		c18StubMu.Lock()
		pages, ok := c18StubRepos[repo]
		c18StubMu.Unlock()
		if !ok {
			http.NotFound(w, r)
			return
		}
		page := 0
		if p := r.URL.Query().Get("page"); p != "" {
			fmt.Sscanf(p, "%d", &page)
		}
		if page < 0 || page >= len(pages) {
			http.NotFound(w, r)
			return
		}
		if page+1 < len(pages) {
			w.Header().Set("Link", fmt.Sprintf(`</v2/%s/tags/list?page=%d>; rel="next"`, repo, page+1))
		}
		w.Header().Set("Content-Type", "application/json")
		tags := pages[page]
		if tags == nil {
			tags = []string{}
		}
		json.NewEncoder(w).Encode(map[string]interface{}{"name": repo, "tags": tags})
	}))
	c18StubHost = strings.TrimPrefix(c18StubSrv.URL, "http://")
	dir, err := os.MkdirTemp("", "c18-oci-")
	if err != nil {
		c18StubErr = err
		return
	}
	c18StubDir = dir
	c18StubClient, c18StubErr = registry.NewClient(registry.ClientOptPlainHTTP(),
		registry.ClientOptCredentialsFile(filepath.Join(dir, "config.json")))
}

func c18RunOCI(q c18OCI) (o c18OOCI) {
	defer func() {
		if p := recover(); p != nil {
			o.Panic = fmt.Sprint(p)
		}
	}()
	c18StubOnce.Do(c18StubStart)
	if c18StubErr != nil {
		panic(c18StubErr)
	}
	c18StubMu.Lock()
	c18StubSeq++
	name := fmt.Sprintf("app%d", c18StubSeq)
	repo := "charts/" + name
	c18StubRepos[repo] = q.Pages
	c18StubMu.Unlock()
	defer func() {
		c18StubMu.Lock()
		delete(c18StubRepos, repo)
		c18StubMu.Unlock()
	}()
	tags, err := c18StubClient.Tags(c18StubHost + "/" + repo)
	o.TagsOK = err == nil
	o.Tags = append([]string{}, tags...)
	ref := "oci://" + c18StubHost + "/" + repo
	for _, v := range q.Versions {
		vr := c18OVR{}
		func() {
			defer func() {
				if p := recover(); p != nil {
					vr = c18OVR{Kind: "panic"}
				}
			}()
			u, err := url.Parse(ref)
			if err != nil {
				panic(err)
			}
			got, err := c18StubClient.ValidateReference(ref, v, u)
			if err != nil || got == nil {
				vr.Kind = "err"
				return
			}
			pre := repo + ":"
			if !strings.HasPrefix(got.Path, pre) && !strings.HasPrefix(got.Path, "/"+pre) {
				vr = c18OVR{Kind: "ok", Tag: "<unexpected path " + got.Path + ">"}
				return
			}
			vr = c18OVR{Kind: "ok", Tag: got.Path[strings.Index(got.Path, pre)+len(pre):]}
		}()
		o.VR = append(o.VR, vr)
		ot := c18OTag{}
		func() {
			defer func() {
				if p := recover(); p != nil {
					ot = c18OTag{Kind: "panic"}
				}
			}()
			if !o.TagsOK {
				ot.Kind = "err"
				return
			}
			tag, err := registry.GetTagMatchingVersionOrConstraint(append([]string{}, tags...), v)
			if err != nil {
				ot.Kind = "err"
			} else {
				ot = c18OTag{Kind: "ok", Tag: tag}
			}
		}()
		o.Match = append(o.Match, ot)
		or := c18ORes{}
		func() {
			defer func() {
				if p := recover(); p != nil {
					or = c18ORes{Kind: "panic"}
				}
			}()
			reqs := []*chart.Dependency{{Name: name, Version: v, Repository: "oci://" + c18StubHost + "/charts"}}
			lock, err := downloader.VerifResolveOCI(filepath.Join(c18StubDir, "chart"), c18StubDir, c18StubClient, reqs, map[string]string{name: "oci-stub"})
			if err != nil || lock == nil || len(lock.Dependencies) != 1 || lock.Dependencies[0] == nil {
				or.Kind = "err"
				return
			}
			or = c18ORes{Kind: "ok", Versions: []string{lock.Dependencies[0].Version}}
		}()
		o.Res = append(o.Res, or)
	}
	return o
}

// ---- generator ----

var c18OCIOdd = []string{"latest", "main", "v1.2.3", "1.2", "1", "1.2.3-", "1.2.3_", "1.2.3-a..b", "1.2.3-.", "1.2.3-a.", "01.2.3", "1.02.3",
	"1.2.3_a_b", "1.2.3-01", "1.2.3-0", "1.2.3_a..b", "1.2.3.4", "1.2.3-a_", "sha256-abc", "1.2.3+b1", "1.0.0-alpha_001", "18446744073709551616.0.0",
	"1.2.3-_b", "1.2.3-..", "1.2.3-.a", "1.2.3-1.", "1.2.3-0."}

func c18OCITag(r *rand.Rand) string {
	if r.Intn(100) < 14 {
		return c18OCIOdd[r.Intn(len(c18OCIOdd))]
	}
	n := [3]int{r.Intn(3), r.Intn(3), r.Intn(4)}
	if r.Intn(6) == 0 {
		n[r.Intn(3)] = []int{10, 9, 11, 20}[r.Intn(4)]
	}
	s := fmt.Sprintf("%d.%d.%d", n[0], n[1], n[2])
	if r.Intn(100) < 28 {
		s += "-" + c18Pre[r.Intn(len(c18Pre))]
	}
	if r.Intn(100) < 15 {
		s += "_" + c18Meta[r.Intn(len(c18Meta))] // registries store "+" as "_"
	}
	return s
}

func c18OCIGen(r *rand.Rand) c18OCI {
	n := r.Intn(13)
	if r.Intn(12) == 0 {
		n = 0
	}
	seen := map[string]bool{}
	var tags []string
	for i := 0; i < n; i++ {
		t := c18OCITag(r)
		if len(tags) > 0 && r.Intn(8) == 0 {
			// the same precedence with other build metadata
			base := tags[r.Intn(len(tags))]
			if k := strings.Index(base, "_"); k >= 0 {
				base = base[:k]
			}
			t = base + "_" + c18Meta[r.Intn(len(c18Meta))]
		}
		if !seen[t] {
			seen[t] = true
			tags = append(tags, t)
		}
	}
	if r.Intn(10) > 0 {
		sort.Strings(tags) // registries list tags in lexical order
	}
	// split into 1..4 pages
	np := 1 + r.Intn(4)
	cuts := make([]int, 0, np-1)
	for i := 0; i < np-1; i++ {
		cuts = append(cuts, r.Intn(len(tags)+1))
	}
	sort.Ints(cuts)
	q := c18OCI{}
	prev := 0
	for _, c := range append(cuts, len(tags)) {
		q.Pages = append(q.Pages, append([]string{}, tags[prev:c]...))
		prev = c
	}
	// version arguments
	var rendered []string
	for _, t := range tags {
		if v, err := semver.StrictNewVersion(strings.ReplaceAll(t, "_", "+")); err == nil {
			rendered = append(rendered, v.String())
		}
	}
	q.Versions = []string{""}
	for k := 0; k < 2+r.Intn(3); k++ {
		switch x := r.Intn(100); {
		case x < 12 && len(rendered) > 0:
			q.Versions = append(q.Versions, rendered[r.Intn(len(rendered))]) // an exact tag
		case x < 20 && len(tags) > 0:
			q.Versions = append(q.Versions, tags[r.Intn(len(tags))]) // as listed (may carry "_")
		case x < 45 && len(rendered) > 0:
			op := []string{"^", "~", ">=", ">", "<", "<=", "!="}[r.Intn(7)]
			q.Versions = append(q.Versions, op+rendered[r.Intn(len(rendered))])
		case x < 75:
			s, _ := c18CStructured(r)
			q.Versions = append(q.Versions, s)
		case x < 83:
			q.Versions = append(q.Versions, c18BadConstraints[r.Intn(len(c18BadConstraints))])
		default:
			q.Versions = append(q.Versions, c18Constraints[r.Intn(len(c18Constraints))])
		}
	}
	return q
}

// the paging witness of seeded change C18-7 and a few fixed listings
func c18OCICorpus() []c18OCI {
	qs := []string{"", "^1.0.0", "~1.2", ">=1.0.0 <2.0.0-0", "<1.0.0", ">=3.0.0", "1.3.0-rc.1", ">=1.3.0-0 <1.3.0", "latest", "1.2.3"}
	return []c18OCI{
		{Pages: [][]string{{"0.9.0", "1.0.0", "1.1.0"}, {"1.10.0", "1.2.0", "1.3.0-rc.1"}, {"2.0.0", "2.1.0", "latest"}}, Versions: qs},
		{Pages: [][]string{{"0.9.0", "1.0.0", "1.1.0", "1.10.0", "1.2.0", "1.3.0-rc.1", "2.0.0", "2.1.0", "latest"}}, Versions: qs},
		{Pages: [][]string{{}, {"1.0.0-rc.1", "1.0.0_b1"}, {}, {"1.0.0_b2", "v1.0.0", "1.0"}}, Versions: []string{"", "*", "1.0.0+b2", "1.0.0+zz", ">0.0.0-0", "^1"}},
		{Pages: [][]string{{"1.2.3-", "1.2.3-a..b", "1.2.3_"}, {"1.2.3-a.", "1.2.3-.", "1.2.3-0", "1.2.3-a"}}, Versions: []string{"", "1.2.3-a..b", ">=1.2.3-0", "<1.2.3"}},
		{Pages: [][]string{{}}, Versions: []string{"", "^1", "1.0.0"}},
		{Pages: [][]string{{"latest", "main"}, {"v1.0.0"}}, Versions: []string{"", "^1", "latest"}},
	}
}

// c18OCISplits: one tag set in every split into at most four contiguous pages (lexical order;
// with more: also reversed and one fixed shuffle), each with a fixed battery of versions.
func c18OCISplits(more bool) []any {
	base := []string{"0.9.0", "1.0.0", "1.1.0_b1", "1.10.0", "1.2.0-rc.1", "2.0.0-alpha", "latest"}
	orders := [][]string{base}
	if more {
		rev := make([]string, len(base))
		for i, t := range base {
			rev[len(base)-1-i] = t
		}
		orders = append(orders, rev, []string{"1.10.0", "latest", "0.9.0", "2.0.0-alpha", "1.1.0_b1", "1.2.0-rc.1", "1.0.0"})
	}
	qs := []string{"", "^1", "~1.1", ">=1.2.0-0", "<1.0.0", ">=2.0.0-0", ">=3", "1.1.0+b1"}
	var out []any
	n := len(base)
	for _, tags := range orders {
		cur := c18Case{File: c18File{Mode: "empty"}}
		// cut positions 0 < a <= b <= c < n mark page ends; equal cuts give fewer pages
		for a := 1; a <= n; a++ {
			for b := a; b <= n; b++ {
				for c := b; c <= n; c++ {
					var pages [][]string
					prev := 0
					for _, x := range []int{a, b, c, n} {
						if x > prev {
							pages = append(pages, append([]string{}, tags[prev:x]...))
							prev = x
						}
					}
					cur.OCI = append(cur.OCI, c18OCI{Pages: pages, Versions: qs})
				}
			}
		}
		out = append(out, cur)
	}
	return out
}

// ---- runtime oracle ----

// c18OCIOracle: every answer is the identical string if the listing has it, else a tag of the
// listing (any page) that satisfies the request with no strictly higher satisfying tag on ANY
// page, else an error.  "Tag of the listing" = a listed tag that is a semantic version once "_"
// is read as "+", in the library's rendering.
func c18OCIOracle(q c18OCI, o c18OOCI, bad func(sig, what string)) {
	if o.Panic != "" {
		bad("oci-panic", "tag listing / reference validation panicked: "+o.Panic)
		return
	}
	if !o.TagsOK {
		bad("oci-tags-error", fmt.Sprintf("Client.Tags failed on a well-formed paged listing %v", q.Pages))
		return
	}
	var all []string
	for _, p := range q.Pages {
		for _, t := range p {
			if v, err := semver.StrictNewVersion(strings.ReplaceAll(t, "_", "+")); err == nil {
				all = append(all, v.String())
			}
		}
	}
	parse := func(s string) *semver.Version {
		v, err := semver.NewVersion(s)
		if err != nil {
			return nil
		}
		return v
	}
	judge := func(where, version, kind, tag string) {
		exact := false
		for _, s := range all {
			if version != "" && s == version {
				exact = true
			}
		}
		if exact {
			if kind != "ok" || tag != version {
				bad("oci-exact", where+" did not return the identical tag")
			}
			return
		}
		check := func(v *semver.Version) bool { return false }
		if version == "" {
			check = func(v *semver.Version) bool { return v.Prerelease() == "" }
		} else if k, err := semver.NewConstraint(version); err == nil {
			check = k.Check
		}
		var cands []string
		for _, s := range all {
			if v := parse(s); v != nil && check(v) {
				cands = append(cands, s)
			}
		}
		if len(cands) == 0 {
			if kind == "ok" {
				bad("oci-unsatisfying", where+" returned "+tag+" which does not satisfy the request")
			}
			return
		}
		if kind != "ok" {
			bad("oci-missed", where+" reported an error although the listed tag "+cands[0]+" satisfies the request")
			return
		}
		rv := parse(tag)
		in := false
		for _, s := range cands {
			if s == tag {
				in = true
			}
		}
		if rv == nil || !in {
			bad("oci-unsatisfying", where+" returned "+tag+" which is not a listed tag satisfying the request")
			return
		}
		for _, s := range cands {
			if parse(s).GreaterThan(rv) {
				bad("oci-best", fmt.Sprintf("%s returned %s although the higher tag %s (pages %v) also satisfies the request", where, tag, s, q.Pages))
				return
			}
		}
	}
	for i, v := range q.Versions {
		if i < len(o.VR) {
			vr := o.VR[i]
			where := fmt.Sprintf("ValidateReference(version %q) on pages %v", v, q.Pages)
			switch {
			case vr.Kind == "panic":
				bad("oci-panic", where+" panicked")
			case parse(v) != nil:
				// an explicit version is taken as it is
				if vr.Kind != "ok" || vr.Tag != v {
					bad("oci-explicit", where+" did not keep the explicit version")
				}
			case len(all) == 0:
				if vr.Kind == "ok" {
					bad("oci-unsatisfying", where+" returned "+vr.Tag+" although the repository lists no version tag")
				}
			default:
				judge(where, v, vr.Kind, vr.Tag)
			}
		}
		if i < len(o.Res) {
			rs := o.Res[i]
			where := fmt.Sprintf("Resolve(OCI dependency with range %q) on pages %v", v, q.Pages)
			k, cerr := semver.NewConstraint(v)
			switch {
			case rs.Kind == "panic":
				bad("oci-panic", where+" panicked")
			case cerr != nil:
				if rs.Kind == "ok" {
					bad("oci-resolve-unsatisfiable", where+" produced a lock for an unparsable range")
				}
			case parse(v) != nil:
				// an explicit version is locked as it is (it satisfies itself)
				if k.Check(parse(v)) && (rs.Kind != "ok" || rs.Versions[0] != v) {
					bad("oci-resolve-explicit", where+" did not lock the explicit version")
				}
			default:
				var cands []string
				for _, s := range all {
					if pv := parse(s); pv != nil && k.Check(pv) {
						cands = append(cands, s)
					}
				}
				switch {
				case len(cands) == 0:
					if rs.Kind == "ok" && rs.Versions[0] == v {
						// the defect repaired by ac0e5ef: the OCI branch never reported a dependency as missing
						bad("oci-resolve-range-locked", where+" did not fail although no listed tag is in range: the lock carries the range text "+v+" as version")
					} else if rs.Kind == "ok" {
						bad("oci-resolve-unsatisfiable", where+" locked "+rs.Versions[0]+" although no listed tag is in range")
					}
				case rs.Kind != "ok":
					bad("oci-resolve-missed", where+" failed although the listed tag "+cands[0]+" is in range")
				default:
					rv := parse(rs.Versions[0])
					in := false
					for _, s := range cands {
						if s == rs.Versions[0] {
							in = true
						}
					}
					if rv == nil || !in {
						bad("oci-resolve-unsatisfying", where+" locked "+rs.Versions[0]+" which is not a listed tag in range")
						break
					}
					for _, s := range cands {
						if parse(s).GreaterThan(rv) {
							bad("oci-resolve-best", fmt.Sprintf("%s locked %s although the higher tag %s is in range", where, rs.Versions[0], s))
							break
						}
					}
				}
			}
		}
		if i < len(o.Match) {
			m := o.Match[i]
			where := fmt.Sprintf("GetTagMatchingVersionOrConstraint(Client.Tags(..), %q) on pages %v", v, q.Pages)
			if m.Kind == "panic" {
				bad("oci-panic", where+" panicked")
			} else {
				judge(where, v, m.Kind, m.Tag)
			}
		}
	}
}

// ---- Coq printer ----

func c18CoqOCI(q c18OCI, o c18OOCI) string {
	var pages []string
	for _, p := range q.Pages {
		pages = append(pages, hx.CoqStrList(p))
	}
	tags := "None"
	if o.TagsOK && o.Panic == "" {
		tags = "(Some " + hx.CoqStrList(o.Tags) + ")"
	}
	var qs []string
	for i, v := range q.Versions {
		vr, m, rs := "OVPanic", "OTPanic", "ORPanic"
		if i < len(o.Res) {
			switch o.Res[i].Kind {
			case "ok":
				rs = "OROk " + hx.CoqStrList(o.Res[i].Versions)
			case "err":
				rs = "ORErr"
			}
		}
		if i < len(o.VR) {
			switch o.VR[i].Kind {
			case "ok":
				vr = "OVOk " + hx.CoqStr(o.VR[i].Tag)
			case "err":
				vr = "OVErr"
			}
		}
		if i < len(o.Match) {
			switch o.Match[i].Kind {
			case "ok":
				m = "OTOk " + hx.CoqStr(o.Match[i].Tag)
			case "err":
				m = "OTErr"
			}
		}
		qs = append(qs, fmt.Sprintf("(%s, %s, %s, %s)", hx.CoqStr(v), vr, m, rs))
	}
	return fmt.Sprintf("mkOci %s %s %s", hx.CoqList(pages), tags, hx.CoqList(qs))
}

package main

import (
	"fmt"
	"math/rand"

	"verif/harness/internal/eng"
)

var c12Events = map[string][2]string{
	"install": {"pre-install", "post-install"}, "upgrade": {"pre-upgrade", "post-upgrade"},
	"rollback": {"pre-rollback", "post-rollback"}, "uninstall": {"pre-delete", "post-delete"},
}
var c12AllEvents = []string{"pre-install", "post-install", "pre-upgrade", "post-upgrade", "pre-rollback", "post-rollback", "pre-delete", "post-delete"}
var c12Policies = []string{"before-hook-creation", "hook-succeeded", "hook-failed"}
var c12Names = []string{"ha", "hb", "hc", "hd"}

func c12HookRes(r *rand.Rand, name string, variant int) eng.Res {
	switch r.Intn(8) {
	case 0:
		return eng.Res{Kind: "Secret", Name: name, Fields: map[string]string{"d:h": []string{"YQ==", "Yg=="}[variant%2]}}
	case 1:
		return eng.Res{Kind: "ServiceAccount", Name: name, Fields: map[string]string{"l:h": fmt.Sprint(variant)}}
	}
	return eng.Res{Kind: "ConfigMap", Name: name, Fields: map[string]string{"d:h": fmt.Sprintf("%s-%d", name, variant)}}
}

// c12GenHooks: focus = events the history will actually fire (picked 3/4 of the time)
func c12GenHooks(r *rand.Rand, variant int, focus []string, max int) []eng.Hook {
	var out []eng.Hook
	n := r.Intn(max + 1)
	if n == 0 && r.Intn(3) > 0 {
		n = 1 + r.Intn(max)
	}
	suffix := ""
	if r.Intn(3) == 0 {
		suffix = fmt.Sprint(variant) // hooks of this chart do not collide with those of other charts
	}
	for i := 0; i < n; i++ {
		name := c12Names[r.Intn(len(c12Names))] + suffix
		h := eng.Hook{Res: c12HookRes(r, name, variant), Weight: r.Intn(5) - 2}
		ne := 1 + r.Intn(3)
		for j := 0; j < ne; j++ {
			var e string
			if len(focus) > 0 && r.Intn(4) > 0 {
				e = focus[r.Intn(len(focus))]
			} else {
				e = c12AllEvents[r.Intn(len(c12AllEvents))]
			}
			dup := false
			for _, x := range h.Events {
				dup = dup || x == e
			}
			if !dup || r.Intn(4) == 0 { // an event repeated inside one annotation: about 1 hook in 8
				h.Events = append(h.Events, e)
			}
		}
		for _, p := range c12Policies {
			if r.Intn(3) == 0 {
				h.Policies = append(h.Policies, p)
			}
		}
		if len(h.Policies) > 1 && r.Intn(2) == 0 {
			r.Shuffle(len(h.Policies), func(a, b int) { h.Policies[a], h.Policies[b] = h.Policies[b], h.Policies[a] })
		}
		out = append(out, h)
	}
	return out
}

func c12Manifest(r *rand.Rand, variant int) []eng.Res {
	var out []eng.Res
	for _, n := range []string{"a", "b", "c"} {
		if r.Intn(3) > 0 {
			out = append(out, eng.Res{Kind: "ConfigMap", Name: n, Fields: map[string]string{"d:k": fmt.Sprintf("v%d", variant)}})
		}
	}
	if len(out) == 0 {
		out = append(out, eng.Res{Kind: "ConfigMap", Name: "a", Fields: map[string]string{"d:k": fmt.Sprintf("v%d", variant)}})
	}
	return out
}

func c12Gen(r *rand.Rand) eng.History {
	h := eng.History{Backend: []string{"secret", "memory", "configmap"}[r.Intn(3)]}
	n := 1 + r.Intn(4)
	kinds := make([]string, n)
	var focus []string
	for i := range kinds {
		if i == 0 && r.Intn(8) > 0 {
			kinds[i] = "install"
		} else {
			kinds[i] = []string{"install", "upgrade", "upgrade", "rollback", "rollback", "uninstall", "uninstall"}[r.Intn(7)]
		}
		ev := c12Events[kinds[i]]
		focus = append(focus, ev[0], ev[1])
	}
	var pool []eng.Hook // hooks of every chart so far: what rollback / uninstall may run
	variant := 0
	for _, kind := range kinds {
		op := &eng.Op{Kind: kind}
		f := &op.Flags
		f.NoHooks = r.Intn(8) == 0
		f.Atomic = (kind == "install" || kind == "upgrade") && r.Intn(8) == 0
		if f.Atomic && r.Intn(2) == 0 {
			f.NoHooks = true
		}
		f.Cleanup = (kind == "upgrade" || kind == "rollback") && r.Intn(6) == 0
		if kind == "uninstall" {
			f.KeepHistory = r.Intn(2) == 0
		}
		if kind == "install" {
			f.Replace = r.Intn(3) == 0
		}
		if kind == "rollback" && r.Intn(3) == 0 {
			f.Version = 1 + r.Intn(3)
		}
		if kind == "install" || kind == "upgrade" {
			variant++
			op.ChartID, op.ValsID = variant, r.Intn(3)
			op.Manifest = c12Manifest(r, variant)
			op.Hooks = c12GenHooks(r, variant, focus, 4)
			pool = append(pool, op.Hooks...)
		}
		// the hooks this operation can run
		cand := op.Hooks
		if kind == "rollback" || kind == "uninstall" {
			cand = pool
		}
		var rel []eng.Hook
		ev := c12Events[kind]
		for _, x := range cand {
			for _, e := range x.Events {
				if e == ev[0] || e == ev[1] {
					rel = append(rel, x)
					break
				}
			}
		}
		if len(rel) == 0 {
			rel = cand
		}
		nonHook := func() {
			if len(op.Manifest) > 0 && r.Intn(2) == 0 {
				op.KFault = &eng.KFault{Verb: "create", Key: op.Manifest[r.Intn(len(op.Manifest))].Key()}
			} else {
				op.WaitFail = true
			}
		}
		if f.Atomic && r.Intn(2) == 0 {
			nonHook() // the recovery (automatic uninstall / rollback) runs, with or without hooks
		} else if len(rel) == 0 {
			if r.Intn(10) == 0 {
				nonHook()
			}
		} else {
			x := rel[r.Intn(len(rel))]
			switch k := r.Intn(100); {
			case k < 45:
			case k < 55:
				nonHook()
			case k < 88:
				nth := 0
				if r.Intn(3) == 0 {
					nth = 1
				}
				op.HFault = &eng.HFault{Name: x.Res.Name, Nth: nth}
			case k < 96:
				op.KFault = &eng.KFault{Verb: "create", Key: x.Res.Key()}
			default:
				op.KFault = &eng.KFault{Verb: "delete", Key: x.Res.Key()}
			}
		}
		h.Steps = append(h.Steps, eng.Step{Op: op})
	}
	return h
}

// c12Exhaustive: fixed hook sets x the four operations x every single hook run failing in turn
// (watch Nth 0..2 of every name, rejected POST of every hook key) x {plain, atomic, no-hooks}.
func c12Exhaustive() []any {
	var out []any
	all := c12AllEvents
	sets := [][]eng.Hook{
		probeHooks(all...),
		{hk("ha", 0, all), hk("hb", 0, all, "hook-succeeded"), hk("hc", 0, all, "hook-failed"), hk("hd", 0, all, "hook-succeeded", "hook-failed")},
		{hk("ha", 1, []string{"pre-install", "pre-install", "pre-upgrade", "post-upgrade", "pre-rollback", "post-delete"}, "before-hook-creation", "hook-succeeded"),
			hk("hb", -1, []string{"post-install", "pre-upgrade", "pre-upgrade", "post-rollback", "pre-delete"}, "hook-failed", "before-hook-creation")},
	}
	for _, hs := range sets {
		var names []string
		for _, x := range hs {
			names = append(names, x.Res.Name)
		}
		for _, fl := range []eng.Flags{{}, {Atomic: true}, {NoHooks: true}, {Cleanup: true}, {Atomic: true, NoHooks: true}} {
			base := []*eng.Op{
				c12Op("install", 1, fl, hs, "a", "b"),
				c12Op("upgrade", 2, fl, hs, "a", "c"),
				c12Op("rollback", 0, eng.Flags{NoHooks: fl.NoHooks, Cleanup: fl.Cleanup}, nil),
				c12Op("uninstall", 0, eng.Flags{NoHooks: fl.NoHooks, KeepHistory: fl.Cleanup}, nil),
			}
			for k := range base {
				mk := func(f func(*eng.Op) *eng.Op) eng.History {
					ops := make([]*eng.Op, k+1)
					for i := 0; i <= k; i++ {
						o := *base[i]
						if i < k {
							o.Flags.Atomic = false
						}
						ops[i] = &o
					}
					ops[k] = f(ops[k])
					return hist(ops...)
				}
				out = append(out, mk(func(o *eng.Op) *eng.Op { return o }))
				out = append(out, mk(func(o *eng.Op) *eng.Op { c := *o; c.WaitFail = true; return &c }))
				out = append(out, mk(func(o *eng.Op) *eng.Op { return withK(o, "create", "ConfigMap/a") }))
				for _, nm := range names {
					for nth := 0; nth < 3; nth++ {
						nm, nth := nm, nth
						out = append(out, mk(func(o *eng.Op) *eng.Op { return withH(o, nm, nth) }))
					}
					nm := nm
					out = append(out, mk(func(o *eng.Op) *eng.Op { return withK(o, "create", "ConfigMap/"+nm) }))
					out = append(out, mk(func(o *eng.Op) *eng.Op { return withK(o, "delete", "ConfigMap/"+nm) }))
				}
			}
		}
	}
	return out
}

package main

import (
	"fmt"
	"math/rand"
	"strings"

	"verif/harness/internal/eng"
)

var c12Events = map[string][2]string{
	"install": {"pre-install", "post-install"}, "upgrade": {"pre-upgrade", "post-upgrade"},
	"rollback": {"pre-rollback", "post-rollback"}, "uninstall": {"pre-delete", "post-delete"},
}
var c12AllEvents = []string{"pre-install", "post-install", "pre-upgrade", "post-upgrade", "pre-rollback", "post-rollback", "pre-delete", "post-delete"}
var c12Policies = []string{"before-hook-creation", "hook-succeeded", "hook-failed"}
var c12Names = []string{"ha", "hb", "hc", "hd"}

func c12HookRes(r *rand.Rand, name string, variant int) eng.Res {
	switch r.Intn(8) {
	case 0:
		return eng.Res{Kind: "Secret", Name: name, Fields: map[string]string{"d:h": []string{"YQ==", "Yg=="}[variant%2]}}
	case 1:
		return eng.Res{Kind: "ServiceAccount", Name: name, Fields: map[string]string{"l:h": fmt.Sprint(variant)}}
	case 2: // the kinds whose logs outputLogsByPolicy fetches
		return eng.Res{Kind: []string{"Pod", "Job"}[r.Intn(2)], Name: name, Fields: map[string]string{"l:h": fmt.Sprint(variant)}}
	}
	return eng.Res{Kind: "ConfigMap", Name: name, Fields: map[string]string{"d:h": fmt.Sprintf("%s-%d", name, variant)}}
}

// c12GenHooks: focus = events the history will actually fire (picked 3/4 of the time)
func c12GenHooks(r *rand.Rand, variant int, focus []string, max int) []eng.Hook {
	var out []eng.Hook
	n := r.Intn(max + 1)
	if n == 0 && r.Intn(3) > 0 {
		n = 1 + r.Intn(max)
	}
	hasTest := false // the history runs helm test: hooks of event test are executed too
	for _, e := range focus {
		hasTest = hasTest || e == "test"
	}
	raw := r.Intn(2) == 0 // the chart spells its hook metadata as annotation strings (c12_meta.go)
	pal := c12WeightPalettes[r.Intn(len(c12WeightPalettes))]
	suffix := ""
	if r.Intn(3) == 0 {
		suffix = fmt.Sprint(variant) // hooks of this chart do not collide with those of other charts
	}
	for i := 0; i < n; i++ {
		name := c12Names[r.Intn(len(c12Names))] + suffix
		h := eng.Hook{Res: c12HookRes(r, name, variant), Weight: r.Intn(5) - 2}
		ne := 1 + r.Intn(3)
		for j := 0; j < ne; j++ {
			var e string
			if len(focus) > 0 && r.Intn(4) > 0 {
				e = focus[r.Intn(len(focus))]
			} else {
				e = c12AllEvents[r.Intn(len(c12AllEvents))]
				if r.Intn(10) == 0 {
					e = "test"
				}
			}
			dup := false
			for _, x := range h.Events {
				dup = dup || x == e
			}
			if !dup || r.Intn(4) == 0 { // an event repeated inside one annotation: about 1 hook in 8
				h.Events = append(h.Events, e)
			}
		}
		for _, p := range c12Policies {
			if r.Intn(3) == 0 {
				h.Policies = append(h.Policies, p)
			}
		}
		if len(h.Policies) > 1 && r.Intn(2) == 0 {
			r.Shuffle(len(h.Policies), func(a, b int) { h.Policies[a], h.Policies[b] = h.Policies[b], h.Policies[a] })
		}
		if raw {
			h = c12RawOf(r, h, pal, hasTest)
		}
		out = append(out, h)
	}
	return out
}

// ---- annotation strings ----

// weight-string palettes: the hooks of one chart draw from one palette, so that hooks of one event carry strings whose
// relative order differs between the decimal reading and other readings (base-0 prefixes, trimmed, underscores)
var c12WeightPalettes = [][]string{
	{"01", "02", "08", "09", "10", "010", "007", "9", "1", "00", "-08", "+010", "8", "0"},        // zero padded
	{"0x10", "0X1f", "0o7", "0b11", "0b1", "1_0", "1_000", "0x", "5", "3", "0", "-1", "2", "12"}, // Go literal prefixes / underscores
	{" 5", "5 ", " 5 ", "\t3", "3\n", "+5", "+0", "-0", "+-2", "--1", "-", "+", "4", "1", "-2"},  // white space, signs
	{"", "abc", "1e3", "1.5", "five", "0.5", "1", "-1", "2", "0"},                                // empty, not integers
	{"9223372036854775807", "9223372036854775808", "-9223372036854775808", "-9223372036854775809", "99999999999999999999", // range
		"000000000000000000000000000007", "2147483648", "-2147483649", "4294967296", "1", "0", "-1"},
	{"-2", "-1", "0", "1", "2", "-10", "20", "+3", "07", "010", "0x1", " 1", "1_1", ""}, // mostly plain
}

func c12Spell(r *rand.Rand, tok string) string {
	switch r.Intn(10) {
	case 0:
		tok = strings.ToUpper(tok)
	case 1:
		if tok != "" {
			tok = strings.ToUpper(tok[:1]) + tok[1:]
		}
	case 2:
		tok = " " + tok
	case 3:
		tok = tok + []string{" ", "\t", "  ", "\n"}[r.Intn(4)]
	}
	return tok
}

func c12SpellList(r *rand.Rand, toks []string) string {
	sp := make([]string, len(toks))
	for i, t := range toks {
		sp[i] = c12Spell(r, t)
	}
	return strings.Join(sp, []string{",", ",", ",", ", ", " ,"}[r.Intn(5)])
}

// c12RawOf: the same hook with its metadata spelled as annotation strings
func c12RawOf(r *rand.Rand, h eng.Hook, pal []string, hasTest bool) eng.Hook {
	evs := append([]string{}, h.Events...)
	for i, e := range evs {
		if e == "test" && r.Intn(2) == 0 {
			evs[i] = "test-success"
		}
	}
	pol := append([]string{}, h.Policies...)
	if r.Intn(8) == 0 { // an unknown policy token (every token is stored; none of them means anything)
		pol = append(pol, []string{"foo", "hook-succeded", "", "before-hook-creation!"}[r.Intn(4)])
		if len(pol) > 1 && r.Intn(2) == 0 {
			pol[0], pol[len(pol)-1] = pol[len(pol)-1], pol[0]
		}
	}
	var kv []string
	if len(pol) > 0 {
		kv = append(kv, "d", c12SpellList(r, pol))
		if !policyExpressible(annTokens(kv[1])) {
			// unknown tokens only: no default and no policy - outside the engine model's hook record; parsed, never run
			// (event test in a history without helm test; with helm test a known policy is added instead)
			if hasTest {
				kv[1] += ",hook-failed"
			} else {
				evs = []string{"test"}
			}
		}
	}
	if r.Intn(12) > 0 { // else: no weight annotation
		kv = append(kv, "w", pal[r.Intn(len(pal))])
	}
	if r.Intn(4) == 0 || ((h.Res.Kind == "Pod" || h.Res.Kind == "Job") && r.Intn(4) > 0) {
		kv = append(kv, "l", c12SpellList(r, [][]string{{"hook-succeeded"}, {"hook-failed"}, {"hook-succeeded", "hook-failed"}, {"hook-failed", "bar"}}[r.Intn(4)]))
	}
	ev := c12SpellList(r, evs)
	if r.Intn(20) == 0 { // an unknown event name: Helm skips the whole document
		ev = []string{ev + ",", "pre-instal," + ev, ev + ",post-instal", "", ev + ",,"}[r.Intn(5)]
	}
	return rawHookOf(h.Res, ev, kv...)
}

func c12Manifest(r *rand.Rand, variant int) []eng.Res {
	var out []eng.Res
	for _, n := range []string{"a", "b", "c"} {
		if r.Intn(3) > 0 {
			out = append(out, eng.Res{Kind: "ConfigMap", Name: n, Fields: map[string]string{"d:k": fmt.Sprintf("v%d", variant)}})
		}
	}
	if len(out) == 0 {
		out = append(out, eng.Res{Kind: "ConfigMap", Name: "a", Fields: map[string]string{"d:k": fmt.Sprintf("v%d", variant)}})
	}
	return out
}

func c12Gen(r *rand.Rand) eng.History {
	h := eng.History{Backend: []string{"secret", "memory", "configmap"}[r.Intn(3)]}
	n := 1 + r.Intn(4)
	kinds := make([]string, n)
	var focus []string
	for i := range kinds {
		if i == 0 && r.Intn(8) > 0 {
			kinds[i] = "install"
		} else {
			kinds[i] = []string{"install", "upgrade", "upgrade", "rollback", "rollback", "uninstall", "uninstall", "test"}[r.Intn(8)]
		}
		if kinds[i] == "test" {
			focus = append(focus, "test", "test")
			continue
		}
		ev := c12Events[kinds[i]]
		focus = append(focus, ev[0], ev[1])
	}
	var pool []eng.Hook // hooks of every chart so far: what rollback / uninstall may run
	variant := 0
	for _, kind := range kinds {
		op := &eng.Op{Kind: kind}
		f := &op.Flags
		f.NoHooks = r.Intn(8) == 0
		f.Atomic = (kind == "install" || kind == "upgrade") && r.Intn(8) == 0
		if f.Atomic && r.Intn(2) == 0 {
			f.NoHooks = true
		}
		f.Cleanup = (kind == "upgrade" || kind == "rollback") && r.Intn(6) == 0
		if kind == "uninstall" {
			f.KeepHistory = r.Intn(2) == 0
		}
		if kind == "install" {
			f.Replace = r.Intn(3) == 0
		}
		if kind == "rollback" && r.Intn(3) == 0 {
			f.Version = 1 + r.Intn(3)
		}
		if kind == "install" || kind == "upgrade" {
			variant++
			op.ChartID, op.ValsID = variant, r.Intn(3)
			op.Manifest = c12Manifest(r, variant)
			op.Hooks = c12GenHooks(r, variant, focus, 4)
			pool = append(pool, op.Hooks...)
		}
		// the hooks this operation can run
		cand := op.Hooks
		if kind == "rollback" || kind == "uninstall" || kind == "test" {
			cand = pool
		}
		var rel []eng.Hook
		ev := c12Events[kind]
		if kind == "test" {
			// helm test: no flags; name filters over the hook names seen so far (and a name no hook has)
			op.Flags = eng.Flags{}
			ev = [2]string{"test", "test"}
			pick := func() []string {
				var out []string
				for n := 1 + r.Intn(2); n > 0; n-- {
					if len(pool) > 0 && r.Intn(6) > 0 {
						out = append(out, pool[r.Intn(len(pool))].Res.Name)
					} else {
						out = append(out, "hnone")
					}
				}
				return out
			}
			switch r.Intn(6) {
			case 0, 1:
				op.TestInclude = pick()
			case 2, 3:
				op.TestExclude = pick()
			case 4:
				op.TestInclude, op.TestExclude = pick(), pick()
			}
		}
		for _, x := range cand {
			for _, e := range x.Events {
				if e == ev[0] || e == ev[1] {
					rel = append(rel, x)
					break
				}
			}
		}
		if len(rel) == 0 {
			rel = cand
		}
		nonHook := func() {
			if len(op.Manifest) > 0 && r.Intn(2) == 0 {
				op.KFault = &eng.KFault{Verb: "create", Key: op.Manifest[r.Intn(len(op.Manifest))].Key()}
			} else {
				op.WaitFail = true
			}
		}
		if f.Atomic && r.Intn(2) == 0 {
			nonHook() // the recovery (automatic uninstall / rollback) runs, with or without hooks
		} else if len(rel) == 0 {
			if r.Intn(10) == 0 {
				nonHook()
			}
		} else {
			x := rel[r.Intn(len(rel))]
			switch k := r.Intn(100); {
			case k < 45:
			case k < 55:
				nonHook()
			case k < 88:
				nth := 0
				if r.Intn(3) == 0 {
					nth = 1
				}
				op.HFault = &eng.HFault{Name: x.Res.Name, Nth: nth}
			case k < 96:
				op.KFault = &eng.KFault{Verb: "create", Key: x.Res.Key()}
			default:
				op.KFault = &eng.KFault{Verb: "delete", Key: x.Res.Key()}
			}
		}
		h.Steps = append(h.Steps, eng.Step{Op: op})
	}
	return h
}

// c12Exhaustive: fixed hook sets x the four operations x every single hook run failing in turn
// (watch Nth 0..2 of every name, rejected POST of every hook key) x {plain, atomic, no-hooks}.
func c12Exhaustive() []any {
	var out []any
	all := c12AllEvents
	sets := [][]eng.Hook{
		probeHooks(all...),
		{hk("ha", 0, all), hk("hb", 0, all, "hook-succeeded"), hk("hc", 0, all, "hook-failed"), hk("hd", 0, all, "hook-succeeded", "hook-failed")},
		{hk("ha", 1, []string{"pre-install", "pre-install", "pre-upgrade", "post-upgrade", "pre-rollback", "post-delete"}, "before-hook-creation", "hook-succeeded"),
			hk("hb", -1, []string{"post-install", "pre-upgrade", "pre-upgrade", "post-rollback", "pre-delete"}, "hook-failed", "before-hook-creation")},
		// weights and policies as annotation strings: decimal order hd(0) hc(8) hb(9) ha(10)
		{rawHk("ha", strings.Join(all, ","), "w", "010", "d", "Hook-Succeeded"), rawHk("hb", strings.Join(all, " ,"), "w", "9", "d", "hook-failed"),
			rawHk("hc", strings.ToUpper(strings.Join(all, ",")), "w", "08"), rawHk("hd", strings.Join(all, ", "), "w", "0x10", "d", "before-hook-creation, hook-succeeded")},
	}
	for _, hs := range sets {
		var names []string
		for _, x := range hs {
			names = append(names, x.Res.Name)
		}
		for _, fl := range []eng.Flags{{}, {Atomic: true}, {NoHooks: true}, {Cleanup: true}, {Atomic: true, NoHooks: true}} {
			base := []*eng.Op{
				c12Op("install", 1, fl, hs, "a", "b"),
				c12Op("upgrade", 2, fl, hs, "a", "c"),
				c12Op("rollback", 0, eng.Flags{NoHooks: fl.NoHooks, Cleanup: fl.Cleanup}, nil),
				c12Op("uninstall", 0, eng.Flags{NoHooks: fl.NoHooks, KeepHistory: fl.Cleanup}, nil),
			}
			for k := range base {
				mk := func(f func(*eng.Op) *eng.Op) eng.History {
					ops := make([]*eng.Op, k+1)
					for i := 0; i <= k; i++ {
						o := *base[i]
						if i < k {
							o.Flags.Atomic = false
						}
						ops[i] = &o
					}
					ops[k] = f(ops[k])
					return hist(ops...)
				}
				out = append(out, mk(func(o *eng.Op) *eng.Op { return o }))
				out = append(out, mk(func(o *eng.Op) *eng.Op { c := *o; c.WaitFail = true; return &c }))
				out = append(out, mk(func(o *eng.Op) *eng.Op { return withK(o, "create", "ConfigMap/a") }))
				for _, nm := range names {
					for nth := 0; nth < 3; nth++ {
						nm, nth := nm, nth
						out = append(out, mk(func(o *eng.Op) *eng.Op { return withH(o, nm, nth) }))
					}
					nm := nm
					out = append(out, mk(func(o *eng.Op) *eng.Op { return withK(o, "create", "ConfigMap/"+nm) }))
					out = append(out, mk(func(o *eng.Op) *eng.Op { return withK(o, "delete", "ConfigMap/"+nm) }))
				}
			}
		}
	}
	return out
}

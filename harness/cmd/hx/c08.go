package main

// C08 — every rendered document is applied exactly once, in dependency order.
//
// Case kinds, all executed on the real Helm code (full, lower and the token stream of sort are in
// c08_full.go):
//   split   releaseutil.SplitManifests on a raw stream                  -> Text/Split.v
//   sort    releaseutil.SortManifests on a file map                     -> Text/Classify.v, KindSort.v
//   render  action.Install (dry run, client only) on an in-memory chart -> render_full (all flags off)
//   full    the same with crds/, NOTES.txt at several depths, --hide-secret, a post-renderer,
//           --output-dir                                                 -> Text/Full.v render_full
//   lower   strings.ToLower on generated tokens                          -> Text/Lower.v go_to_lower
//   barrier kube.Client.Create against an in-process API with random per-request delays
//                                                                        -> Text/Batch.v
// The Coq side is Run/RunC08.v.

import (
	"encoding/json"
	"fmt"
	"math/rand"
	"sort"
	"strings"

	"verif/harness/internal/hx"
)

func init() { hx.Register("c08", func() hx.Property { return &c08{} }) }

type c08 struct{}

// c08Doc is one generated YAML document together with what the generator knows about it.
type c08Doc struct {
	Text    []byte  `json:"text"`
	Class   string  `json:"class"` // resource comment blank malformed
	Kind    string  `json:"kind,omitempty"`
	Name    string  `json:"name,omitempty"`
	HookAnn *string `json:"hook,omitempty"` // value of the helm.sh/hook annotation when present
	Policy  *string `json:"policy,omitempty"` // value of the helm.sh/resource-policy annotation when present
}

type c08File struct {
	Path    string   `json:"path"`
	Content []byte   `json:"content"`
	Docs    []c08Doc `json:"docs,omitempty"`
	// Clean: built from Docs with separators of the shape w1 "\n---" w2 only, so the
	// documents Helm must find are known by construction.
	Clean bool `json:"clean"`
}

type c08Case struct {
	Kind      string    `json:"kind"` // split sort render full lower uninstall barrier
	Raw       []byte    `json:"raw,omitempty"`
	RawDocs   []c08Doc  `json:"raw_docs,omitempty"`
	RawClean  bool      `json:"raw_clean,omitempty"`
	Uninstall bool      `json:"uninstall,omitempty"`
	Files     []c08File `json:"files,omitempty"`
	Tag       string    `json:"tag,omitempty"` // generator stream, for the distribution table
	// barrier
	Kinds     []string `json:"kinds,omitempty"`
	Fail      []int    `json:"fail,omitempty"`
	DelaySeed int64    `json:"delay_seed,omitempty"`
	// full: the rest of renderResources (c08_full.go)
	Full *c08Full `json:"full,omitempty"`
	// guard: the flags of an install that decide whether a rendered manifest is applied
	DryRun       bool   `json:"dry_run,omitempty"`
	DryRunOption string `json:"dry_run_option,omitempty"`
	HideSecret   bool   `json:"hide_secret,omitempty"`
}

type c08Hook struct {
	Name     string   `json:"name"`
	Kind     string   `json:"kind"`
	Path     string   `json:"path"`
	Manifest []byte   `json:"manifest"`
	Events   []string `json:"events"`
	Weight   int      `json:"weight"`
	Delete   []string `json:"delete"`
	OutLog   []string `json:"outlog"`
}

type c08Gen struct {
	Name    string `json:"name"`
	Content []byte `json:"content"`
	Kind    string `json:"kind"`
}

// c08Head is what the YAML library returns for one document (the third-party oracle table).
type c08Head struct {
	Doc     []byte            `json:"doc"`
	Err     bool              `json:"err,omitempty"`
	Version string            `json:"version,omitempty"`
	Kind    string            `json:"kind,omitempty"`
	HasMeta bool              `json:"has_meta,omitempty"`
	Name    string            `json:"name,omitempty"`
	Ann     map[string]string `json:"ann,omitempty"`
}

type c08Ev struct {
	Start bool `json:"start"`
	J     int  `json:"j"`
}

type c08Obs struct {
	Panic    string    `json:"panic,omitempty"`
	Docs     [][]byte  `json:"docs,omitempty"`
	Err      string    `json:"err,omitempty"` // "" | yaml | other
	ErrText  string    `json:"err_text,omitempty"`
	Hooks    []c08Hook `json:"hooks,omitempty"`
	Generic  []c08Gen  `json:"generic,omitempty"`
	Manifest []byte    `json:"manifest,omitempty"`
	Heads    []c08Head `json:"heads,omitempty"`
	// barrier
	Events   []c08Ev        `json:"events,omitempty"`
	NFail    int            `json:"nfail,omitempty"`
	Posts    map[string]int `json:"posts,omitempty"`
	BuiltK   []string       `json:"built_kinds,omitempty"`
	Returned bool           `json:"returned,omitempty"`
	// full
	Notes   string            `json:"notes,omitempty"`
	Written map[string][]byte `json:"written,omitempty"`
	PRCalls int               `json:"pr_calls,omitempty"`
	PRIn    []byte            `json:"pr_in,omitempty"`
	PROut   []byte            `json:"pr_out,omitempty"`
	Lowered []byte            `json:"lowered,omitempty"`
	// guard
	Rejected bool `json:"rejected,omitempty"` // "Hiding Kubernetes secrets requires a dry-run mode"
	Stored   bool `json:"stored,omitempty"`   // a release record exists afterwards
	// uninstall
	Stream   []byte     `json:"stream,omitempty"`
	NStreams int        `json:"nstreams,omitempty"`
	Deleted  []string   `json:"deleted,omitempty"`
	DelLog   []c08DelEv `json:"del_log,omitempty"`
}

func (*c08) ID() string { return "C08" }
func (*c08) CoqImport() string {
	return "From Helm Require Import Text.Classify Text.Batch Text.Full Run.RunC08."
}
func (*c08) Rule() string {
	return "streams from one PRNG: raw YAML streams for SplitManifests (structured: 0-8 documents joined with " +
		"LF/CRLF/blank-line/trailing-space separators, optional leading '---' and trailing separator; quirky: adjacent " +
		"separators, '---' glued to text, \\v/NBSP/U+0085/U+2028 white space; soup: random token sequences), file maps for " +
		"SortManifests and for a dry-run action.Install (1-6 files in nested paths incl. partials, NOTES.txt, blank files; " +
		"documents of known/unknown/missing kinds from a per-case palette of 3-5 kinds so that kinds repeat, hook annotations " +
		"with known, unknown, mixed, empty, upper-case and spaced event lists, weights incl. non-numeric/overflow, delete and " +
		"log policies, comment-only and blank documents, files with more than ten documents, a malformed-YAML stream), " +
		"a token stream (event names, delete/log policies and the keep policy spelled with capitals, U+0130, U+0131, U+212A, U+017F, " +
		"look-alike letters and letters drawn from every row of unicode.CaseRanges), strings.ToLower on token soup incl. invalid UTF-8, " +
		"full renders (the same charts plus a nested subchart, crds/ files in root and subcharts with 27 name shapes and 10 bodies, " +
		"Secret documents of several kinds/apiVersions incl. hook Secrets, NOTES.txt at up to 8 places with distinct texts, " +
		"SubNotes / IncludeCRDs / HideSecret / OutputDir / UseReleaseName drawn independently, one of six in-process post-renderers in 45 %), " +
		"the 32 combinations of DryRun x DryRunOption x HideSecret for the hide-secret guard, " +
		"install-then-uninstall runs (1-3 files, 2-6 kinds from the uninstall table or core kinds, hook and resource-policy annotations; " +
		"with core kinds the deletion is carried out by the real kube.Client against the delaying API), " +
		"kind-sorted resource lists of 2-9 resources in 1-4 kind batches for kube.Client.Create with seeded random delays; " +
		"non-trivial = split: at least 2 documents; sort/render: at least 2 documents placed and (a hook, a dropped document, " +
		"an unknown kind or a repeated kind); full: at least 2 entries placed and (a hidden Secret, a written file, a post-renderer call, " +
		"CRDs or notes); lower: the result differs from the input; guard: HideSecret set; uninstall: at least 2 kinds deleted; " +
		"barrier: at least 2 batches; distinct = hash of (case, observation)"
}

func (*c08) Decode(raw json.RawMessage) (any, error) {
	var c c08Case
	err := json.Unmarshal(raw, &c)
	return c, err
}

func (*c08) Class(ci, oi any) string {
	c := ci.(c08Case)
	if c.Tag != "" {
		return c.Kind + "/" + c.Tag
	}
	return c.Kind
}

func (*c08) NonTrivial(ci, oi any) bool {
	c, obs := ci.(c08Case), oi.(c08Obs)
	switch c.Kind {
	case "split":
		return len(obs.Docs) >= 2
	case "sort", "render":
		placed := len(obs.Hooks) + len(obs.Generic)
		if c.Kind == "render" {
			placed = len(obs.Hooks) + strings.Count(string(obs.Manifest), "# Source: ")
		}
		if placed < 2 {
			return false
		}
		if len(obs.Hooks) > 0 {
			return true
		}
		kinds := map[string]int{}
		for _, h := range obs.Heads {
			if h.Err {
				continue
			}
			kinds[h.Kind]++
			if _, ok := h.Ann["helm.sh/hook"]; ok {
				return true
			}
		}
		for k, n := range kinds {
			if n > 1 || !c08KnownKind(k) {
				return true
			}
		}
		return false
	case "full":
		return c08FullNonTrivial(c, obs)
	case "lower":
		return string(obs.Lowered) != string(c.Raw)
	case "guard":
		return c.HideSecret
	case "uninstall":
		docs, _ := c08StreamDocs(obs.Stream)
		kinds := map[string]bool{}
		for _, d := range docs {
			k, _, _ := c08Inspect(string(d))
			kinds[k] = true
		}
		return len(kinds) >= 2
	case "barrier":
		b := 0
		for i, k := range c.Kinds {
			if i == 0 || k != c.Kinds[i-1] {
				b++
			}
		}
		return b >= 2 && len(obs.Events) == 2*len(c.Kinds)
	}
	return false
}

// ---- printing cases as Gallina terms ---------------------------------------------

// c08DocIndex: position of a document text in the (sorted, duplicate-free) head table
func c08DocIndex(heads []c08Head, doc []byte) int {
	for i, h := range heads {
		if string(h.Doc) == string(doc) {
			return i
		}
	}
	return 999999 // not a document Helm was given: no position matches
}

func c08CoqHook(heads []c08Head, h c08Hook) string {
	return fmt.Sprintf("(mkOHook %s %s %s %d %s %s %s %s)", c08Str(h.Name), c08Str(h.Kind), c08Str(h.Path),
		c08DocIndex(heads, h.Manifest), c08StrList(h.Events), hx.CoqZ(int64(h.Weight)), c08StrList(h.Delete), c08StrList(h.OutLog))
}

// c08Pieces: Release.Manifest as (path, document) pieces when it is, byte for byte, the
// concatenation of "---\n# Source: <path>\n<document>\n" over them
func c08Pieces(heads []c08Head, manifest []byte) (string, bool) {
	var it []string
	var b strings.Builder
	for _, d := range c08SplitOrdered(string(manifest)) {
		s := string(d)
		if !strings.HasPrefix(s, "# Source: ") {
			return "", false
		}
		p, rest, _ := strings.Cut(strings.TrimPrefix(s, "# Source: "), "\n")
		idx := c08DocIndex(heads, []byte(rest))
		if idx == 999999 {
			return "", false
		}
		fmt.Fprintf(&b, "---\n# Source: %s\n%s\n", p, rest)
		it = append(it, hx.CoqPair(c08Str(p), fmt.Sprint(idx)))
	}
	if b.String() != string(manifest) {
		return "", false
	}
	return hx.CoqList(it), true
}

func c08CoqHeads(hs []c08Head) string {
	it := make([]string, 0, len(hs))
	for _, h := range hs {
		if h.Err {
			it = append(it, hx.CoqPair(c08Str(string(h.Doc)), "None"))
			continue
		}
		meta := "None"
		if h.HasMeta {
			keys := make([]string, 0, len(h.Ann))
			for k := range h.Ann {
				keys = append(keys, k)
			}
			sort.Strings(keys)
			meta = "(Some " + hx.CoqPair(c08Str(h.Name), c08StrMap(keys, h.Ann)) + ")"
		}
		it = append(it, hx.CoqPair(c08Str(string(h.Doc)),
			fmt.Sprintf("(Some (mkHead %s %s %s))", c08Str(h.Version), c08Str(h.Kind), meta)))
	}
	return hx.CoqList(it)
}

// c08FilePieces prints a file's text as literal pieces and references into the head table,
// when the file was assembled from generated documents and the concatenation reproduces it
// byte for byte; otherwise as one literal.
func c08FilePieces(heads []c08Head, f c08File) string {
	lit := "[PS " + c08Str(string(f.Content)) + "]"
	if len(f.Docs) == 0 {
		return lit
	}
	var it []string
	var rebuilt strings.Builder
	rest := string(f.Content)
	for _, d := range f.Docs {
		t := strings.TrimSpace(string(d.Text))
		idx := c08DocIndex(heads, []byte(t))
		if t == "" || idx == 999999 {
			continue
		}
		k := strings.Index(rest, t)
		if k < 0 {
			return lit
		}
		if k > 0 {
			it = append(it, "PS "+c08Str(rest[:k]))
			rebuilt.WriteString(rest[:k])
		}
		it = append(it, fmt.Sprintf("PD %d", idx))
		rebuilt.WriteString(t)
		rest = rest[k+len(t):]
	}
	if rest != "" {
		it = append(it, "PS "+c08Str(rest))
		rebuilt.WriteString(rest)
	}
	if rebuilt.String() != string(f.Content) {
		return lit
	}
	return hx.CoqList(it)
}

func c08CoqFiles(heads []c08Head, fs []c08File, prefix string) string {
	// a Go map: printed in key order (the model sorts the keys itself)
	idx := make([]int, len(fs))
	for i := range idx {
		idx[i] = i
	}
	sort.Slice(idx, func(a, b int) bool { return fs[idx[a]].Path < fs[idx[b]].Path })
	it := make([]string, 0, len(fs))
	for _, i := range idx {
		it = append(it, hx.CoqPair(c08Str(prefix+fs[i].Path), c08FilePieces(heads, fs[i])))
	}
	return hx.CoqList(it)
}

func (*c08) CoqCase(ci, oi any) string {
	c, obs := ci.(c08Case), oi.(c08Obs)
	hooks := func() string {
		it := make([]string, len(obs.Hooks))
		for i, h := range obs.Hooks {
			it[i] = c08CoqHook(obs.Heads, h)
		}
		return hx.CoqList(it)
	}
	switch c.Kind {
	case "split":
		ds := make([]string, len(obs.Docs))
		for i, d := range obs.Docs {
			ds[i] = string(d)
		}
		if obs.Panic != "" {
			ds = append(ds, "<panic>", "<panic>")
		}
		return fmt.Sprintf("CSplit %s %s", c08Str(string(c.Raw)), c08StrList(ds))
	case "sort":
		o := "OSortErr"
		if obs.Err == "" && obs.Panic == "" {
			gs := make([]string, len(obs.Generic))
			for i, g := range obs.Generic {
				gs[i] = "(" + c08Str(g.Name) + ", " + fmt.Sprint(c08DocIndex(obs.Heads, g.Content)) + ", " + c08Str(g.Kind) + ")"
			}
			o = fmt.Sprintf("(OSortOk %s %s)", hooks(), hx.CoqList(gs))
		}
		return fmt.Sprintf("CSort %s %s %s %s", hx.CoqBool(c.Uninstall), c08CoqFiles(obs.Heads, c.Files, ""), c08CoqHeads(obs.Heads), o)
	case "render":
		o := "ORenderErr"
		if obs.Err == "" && obs.Panic == "" {
			if ps, ok := c08Pieces(obs.Heads, obs.Manifest); ok {
				o = fmt.Sprintf("(ORenderOk %s %s)", hooks(), ps)
			} else {
				o = fmt.Sprintf("(ORenderRaw %s %s)", hooks(), c08Str(string(obs.Manifest)))
			}
		}
		// the template engine does not emit partials; every other template is a key of the rendered map
		var fs []c08File
		for _, f := range c.Files {
			if !c08IsPartial(f.Path) {
				fs = append(fs, f)
			}
		}
		return fmt.Sprintf("CRender %s %s %s", c08CoqFiles(obs.Heads, fs, c08ChartName+"/"), c08CoqHeads(obs.Heads), o)
	case "uninstall":
		return c08CoqUninstall(c, obs)
	case "full":
		return c08CoqFull(c, obs)
	case "lower":
		return fmt.Sprintf("CLower %s %s", c08Str(string(c.Raw)), c08Str(string(obs.Lowered)))
	case "guard":
		return fmt.Sprintf("CGuard (mkRunFlags %s %s %s) %s %s", hx.CoqBool(c.DryRun), c08Str(c.DryRunOption), hx.CoqBool(c.HideSecret),
			hx.CoqBool(obs.Rejected && obs.Panic == ""), hx.CoqBool(obs.Stored))
	case "barrier":
		evs := make([]string, len(obs.Events))
		for i, e := range obs.Events {
			if e.Start {
				evs[i] = fmt.Sprintf("EStart %d", e.J)
			} else {
				evs[i] = fmt.Sprintf("EEnd %d", e.J)
			}
		}
		fl := make([]string, len(c.Fail))
		for i, j := range c.Fail {
			fl[i] = fmt.Sprint(j)
		}
		kinds := obs.BuiltK
		if kinds == nil {
			kinds = c.Kinds
		}
		return fmt.Sprintf("CBarrier %s %s %s %d", c08StrList(kinds), hx.CoqList(fl), hx.CoqList(evs), obs.NFail)
	}
	return "CSplit \"\" [\"<unknown case kind>\"]"
}

// ---- corpus -----------------------------------------------------------------------

func c08RawCase(tag, s string) c08Case {
	return c08Case{Kind: "split", Raw: []byte(s), Tag: tag}
}

func (*c08) Corpus() []any {
	var out []any
	for _, s := range []string{
		"", "---", "---\n", "a: 1", "a: 1\n---\nb: 2\n",
		"a\n---\n---\nb",          // adjacent separators: the second marker stays in the next document
		"a: 1\n---b: 2",            // recorded observation: '---' glued to text still splits
		"---\na: 1\n---\n",         // leading marker, trailing separator
		"a: 1\r\n---\r\nb: 2\r\n",  // CRLF
		"a: 1  \n\n---  \n\nb: 2",  // trailing spaces, blank lines
		"# only a comment\n---\n\n---\nb: 2", // comment-only and blank documents
		"a: 1\n---\n\v\n---\nb: 2", // \v is not \s for the regexp but is trimmed: an empty document is kept
		"a: 1\n --- \nb: 2",        // indented marker does not split
		"a: 1\u00a0\n---\n\u2028b: 2\u0085", // unicode white space is trimmed, not matched by \s
		"x\n----\ny",               // four dashes
		"\n\n---\n\na: 1",
	} {
		out = append(out, c08RawCase("corpus", s))
	}
	// sort: the shapes the property text names
	hookV := func(s string) *string { return &s }
	mk := func(kind, name string, hook *string, extra string) c08Doc {
		return c08MakeDoc(kind, name, hook, extra, "\n", 0)
	}
	files := []c08File{
		c08Join("templates/b.yaml", []c08Doc{mk("Deployment", "d1", nil, ""), mk("ConfigMap", "c1", nil, ""), mk("Zebra", "z1", nil, ""), mk("Alpha", "a1", nil, "")}, []string{"\n---\n"}, "", "\n"),
		c08Join("templates/a.yaml", []c08Doc{mk("ConfigMap", "c0", nil, ""), mk("Job", "h1", hookV("pre-install,post-install"), "    \"helm.sh/hook-weight\": \"-5\"\n    \"helm.sh/hook-delete-policy\": \"hook-succeeded, Before-Hook-Creation\"\n"),
			mk("Job", "h2", hookV("pre-install,bogus"), ""), mk("Namespace", "n1", nil, "")}, []string{"\n---\n"}, "---\n", "\n"),
		c08Join("templates/_helpers.tpl", []c08Doc{mk("Secret", "partial", nil, "")}, nil, "", ""),
		c08Join("templates/NOTES.txt", []c08Doc{{Text: []byte("Thank you for installing."), Class: "notes"}}, nil, "", ""),
		c08Join("templates/empty.yaml", []c08Doc{{Text: []byte("  \n"), Class: "blank"}}, nil, "", ""),
	}
	out = append(out, c08Case{Kind: "render", Files: files, Tag: "corpus"})
	out = append(out, c08Case{Kind: "sort", Files: files[:3], Tag: "corpus"})
	out = append(out, c08Case{Kind: "sort", Files: files[:3], Uninstall: true, Tag: "corpus"})
	// more than ten documents in one file: manifest-10 must come after manifest-2
	var many []c08Doc
	for i := 0; i < 13; i++ {
		many = append(many, mk("ConfigMap", fmt.Sprintf("cm-%02d", i), nil, ""))
	}
	out = append(out, c08Case{Kind: "sort", Files: []c08File{c08Join("templates/many.yaml", many, []string{"\n---\n"}, "", "\n")}, Tag: "corpus"})
	out = append(out, c08Case{Kind: "barrier", Kinds: []string{"ConfigMap", "ConfigMap", "Secret", "Service", "Service"}, DelaySeed: 1, Tag: "corpus"})
	out = append(out, c08UninstallCorpus()...)
	out = append(out, c08FullCorpus()...)
	return out
}

// Exhaustive: every token sequence up to a small length over the separator alphabet.
func (*c08) Exhaustive(tier string) []any {
	toks := []string{"a", "\n", "---", " ", "\r\n", "\v"}
	maxLen := 4
	if tier == "thorough" {
		toks = append(toks, "-", "\u00a0")
		maxLen = 5
	}
	var out []any
	out = append(out, c08GuardCases()...)
	if tier == "thorough" {
		out = append(out, c08FullExhaustive()...)
	}
	var rec func(prefix string, depth int)
	rec = func(prefix string, depth int) {
		if depth > 0 {
			out = append(out, c08RawCase("exhaustive", prefix))
		}
		if depth == maxLen {
			return
		}
		for _, t := range toks {
			rec(prefix+t, depth+1)
		}
	}
	rec("", 0)
	return out
}

func (p *c08) Generate(r *rand.Rand, i int) any {
	switch k := r.Intn(100); {
	case k < 22:
		return c08GenSplit(r)
	case k < 44:
		c := c08GenFiles(r, "sort")
		c.Uninstall = r.Intn(3) == 0
		return c
	case k < 50:
		return c08GenTokens(r)
	case k < 54:
		return c08GenLower(r)
	case k < 64:
		return c08GenFiles(r, "render")
	case k < 82:
		return c08GenFull(r)
	case k < 91:
		return c08GenUninstall(r)
	default:
		return c08GenBarrier(r)
	}
}

// ---- string printing ---------------------------------------------------------------
// Documents are printed as Coq string literals with every byte verbatim inside the literal
// (parsing a (bs [..]) byte list costs two orders of magnitude more); only NUL goes through
// bs, pieces are joined with ++.

func c08Str(s string) string {
	safe := func(c byte) bool { return c != 0 } // coqc reads any other byte inside a literal verbatim (checked: CR, VT, invalid UTF-8)
	var pieces []string
	for i := 0; i < len(s); {
		j := i
		for j < len(s) && safe(s[j]) == safe(s[i]) {
			j++
		}
		if safe(s[i]) {
			pieces = append(pieces, `"`+strings.ReplaceAll(s[i:j], `"`, `""`)+`"`)
		} else {
			var b strings.Builder
			b.WriteString("bs [")
			for k := i; k < j; k++ {
				if k > i {
					b.WriteString(";")
				}
				fmt.Fprintf(&b, "%d", s[k])
			}
			b.WriteString("]")
			pieces = append(pieces, b.String())
		}
		i = j
	}
	switch len(pieces) {
	case 0:
		return `""`
	case 1:
		if strings.HasPrefix(pieces[0], "bs") {
			return "(" + pieces[0] + ")"
		}
		return pieces[0]
	}
	return "(" + strings.Join(pieces, " ++ ") + ")"
}

func c08StrList(ss []string) string {
	it := make([]string, len(ss))
	for i, s := range ss {
		it[i] = c08Str(s)
	}
	return hx.CoqList(it)
}

func c08StrMap(keys []string, m map[string]string) string {
	it := make([]string, 0, len(keys))
	for _, k := range keys {
		it = append(it, hx.CoqPair(c08Str(k), c08Str(m[k])))
	}
	return hx.CoqList(it)
}

package main

// C16 — file-writing operations never escape their directory or exceed size limits.
//
// Kinds of cases:
//   arch     tar+gzip streams built byte by byte from adversarial entry specs (names, type
//            flags, modes, declared vs. actual sizes, long-name mechanisms, mutations) →
//            real loader.LoadArchiveFiles under injected or default limits, compared with
//            Chart/Archive.v on what archive/tar yields for the same bytes.
//   join     pkg/plugin/installer.cleanJoin (through a verif hook) vs. Chart/Paths.v.
//   lock     downloader.Manager.Update on a chart directory with something planted at the
//            lock path (c16_sandbox.go) vs. Chart/Lock.v.
//   expand / extract / download   sandbox explorations with a before/after snapshot
//            (c16_sandbox.go); runtime oracle only.

import (
	"archive/tar"
	"bytes"
	"compress/gzip"
	"encoding/json"
	"fmt"
	"io"
	"math/rand"
	"regexp"
	"strings"

	"helm.sh/helm/v4/pkg/chart/v2/loader"

	"verif/harness/internal/chartx"
	"verif/harness/internal/hx"
)

func init() { hx.Register("c16", func() hx.Property { return &c16{} }) }

type c16 struct{}

// c16Ent is the specification of one raw tar entry.
type c16Ent struct {
	Name   string `json:"name"`
	Type   byte   `json:"type"`             // type flag byte
	Mode   int64  `json:"mode"`             // header mode field
	Size   int64  `json:"size"`             // declared size; -1 = len(data)
	Data   []byte `json:"data,omitempty"`   // bytes actually written after the header
	Fill   int64  `json:"fill,omitempty"`   // additional zero bytes written after Data
	Link   string `json:"link,omitempty"`   // linkname
	Long   string `json:"long,omitempty"`   // how a >100 byte name is carried: "gnu" | "pax" | "prefix" | "" (truncate)
	Prefix string `json:"prefix,omitempty"` // ustar prefix field
}

type c16Flip struct {
	Layer string `json:"layer"` // "tar" | "gz"
	Off   int    `json:"off"`   // offset (mod length)
	Xor   byte   `json:"xor"`
}

type c16Case struct {
	Kind string `json:"kind"`
	// arch / expand / extract
	Ents     []c16Ent  `json:"ents,omitempty"`
	MaxTotal int64     `json:"max_total,omitempty"` // 0 = leave the default
	MaxFile  int64     `json:"max_file,omitempty"`
	Flips    []c16Flip `json:"flips,omitempty"`
	Cut      int       `json:"cut,omitempty"`    // keep only the first Cut bytes of the tar stream (0 = all)
	NoEnd    bool      `json:"no_end,omitempty"` // omit the end-of-archive marker
	// join
	Root string `json:"root,omitempty"`
	Dest string `json:"dest,omitempty"`
	// sandbox kinds (c16_sandbox.go)
	Plant   []c16Plant `json:"plant,omitempty"`
	Legacy  bool       `json:"legacy,omitempty"`
	URLPath string     `json:"url_path,omitempty"`
	Note    string     `json:"note,omitempty"`
	// path kinds (c16_path.go)
	Str   string   `json:"str,omitempty"`
	Pre   string   `json:"pre,omitempty"`
	Elems []string `json:"elems,omitempty"`
	// tree kinds (c16_tree.go): a tree materialised below the sandbox root
	Tree      []c16TP `json:"tree,omitempty"`
	Unsafe    string  `json:"unsafe,omitempty"`
	Follow    bool    `json:"follow,omitempty"`
	ChartPath string  `json:"chart_path,omitempty"` // relative to the sandbox root
}

type c16ScanEnt struct {
	Name string `json:"name"`
	Type byte   `json:"type"`
	Mode int64  `json:"mode"`
	Size int64  `json:"size"`
	Data []byte `json:"data"`
	RErr bool   `json:"rerr"`
}

type c16File struct {
	Name string `json:"name"`
	Data []byte `json:"data"`
}

type c16Obs struct {
	// arch
	GzErr    bool         `json:"gzerr,omitempty"`
	Scan     []c16ScanEnt `json:"scan,omitempty"`
	ScanErr  bool         `json:"scan_err,omitempty"`
	Err      string       `json:"err,omitempty"` // error class, "" = accepted
	Files    []c16File    `json:"files,omitempty"`
	MaxTotal int64        `json:"max_total,omitempty"`
	MaxFile  int64        `json:"max_file,omitempty"`
	Default  bool         `json:"default_limits,omitempty"`
	Big      bool         `json:"big,omitempty"` // content too large to hand to the model
	// join / download
	Path           string `json:"path,omitempty"`
	URLPathDecoded string `json:"url_path_decoded,omitempty"`
	// sandbox
	Changed  []string `json:"changed,omitempty"` // paths (relative to the sandbox root) that differ
	LockPre  string   `json:"lock_pre,omitempty"`
	LockPost string   `json:"lock_post,omitempty"`
	Panic    string   `json:"panic,omitempty"`
	// path kinds
	Clean string `json:"clean,omitempty"`
	Base  string `json:"base,omitempty"`
	Dir   string `json:"dir,omitempty"`
	IsAbs bool   `json:"is_abs,omitempty"`
	Bool  bool   `json:"bool,omitempty"`
	// tree kinds
	Before    []c16TP `json:"before,omitempty"` // the sandbox as it was before the call (the model's input tree)
	After     []c16TP `json:"after,omitempty"`
	Resolved  string  `json:"resolved,omitempty"` // resolve: sandbox-relative location, or an error class
	ChartName string  `json:"chart_name,omitempty"`
	NameErr   bool    `json:"name_err,omitempty"`
	LockData  string  `json:"lock_data,omitempty"`
	Skip      bool    `json:"skip,omitempty"` // observation outside the model's scope (left the sandbox)
	SBParent  string  `json:"sb_parent,omitempty"` // the directory the sandbox was created in
	NewLinks  []c16NewLink `json:"new_links,omitempty"` // links below the destination that the call created or changed
}

func (*c16) ID() string { return "C16" }
func (*c16) CoqImport() string {
	return "From Helm Require Import Chart.Esc Chart.Paths Chart.PathFns Chart.Archive Chart.Lock Chart.FsTree Run.RunC16."
}
func (*c16) Rule() string {
	return "arch: gzip+tar streams built from 1-6 raw entries (names from adversarial components: absolute, '..' in every position, " +
		"backslashes, drive prefixes, unicode, long names via GNU/PAX/ustar-prefix, './' prefixes, duplicates; type flags reg/link/symlink/" +
		"char/block/dir/fifo/x/g/unknown; mode bits incl. directory bits; declared size = / > / < actual; byte flips, truncation) run " +
		"through loader.LoadArchiveFiles under injected small limits or the defaults; join: cleanJoin on the same name distribution; " +
		"lock/expand/extract/download: sandbox directory with planted symlinks and a canary outside; path/pjoin/prefix/join2: path.Clean, " +
		"filepath.Clean/Base/Dir/Join, path.IsAbs/Join, strings.HasPrefix and cleanJoin on strings built from components {., .., a, empty, 'a b', " +
		"c:, backslash, unicode} with / and \\ separators, absolute/relative, trailing slashes, plus all short strings over a small alphabet; " +
		"secjoin/resolve/expandt/extractt/lockt: a generated tree of directories, files and symlinks (relative, absolute, chains, loops, dangling, " +
		"pointing outside) materialised in the sandbox, then securejoin.SecureJoin, os.Stat/Lstat, chartutil.Expand, TarGzExtractor.Extract and " +
		"writeLock on it, the whole tree afterwards compared with the nested model. non-trivial = the loader accepted " +
		"at least one file, or rejected after reading at least one counted entry, or a sandbox call wrote something, or the path string is " +
		"non-empty, or the tree holds a symlink inside the destination; distinct = hash of (case, observation)"
}

// ---------------------------------------------------------------- raw tar writer

func c16Octal(b []byte, v int64) {
	// len(b)-1 octal digits + NUL; values that do not fit use the base-256 form
	s := fmt.Sprintf("%0*o", len(b)-1, v)
	if v < 0 || len(s) > len(b)-1 {
		for i := len(b) - 1; i >= 0; i-- {
			b[i] = byte(v)
			v >>= 8
		}
		b[0] |= 0x80
		return
	}
	copy(b, s)
	b[len(b)-1] = 0
}

func c16Header(name, prefix string, typ byte, mode, size int64, link string) []byte {
	b := make([]byte, 512)
	copy(b[0:100], name)
	c16Octal(b[100:108], mode)
	c16Octal(b[108:116], 0)
	c16Octal(b[116:124], 0)
	c16Octal(b[124:136], size)
	c16Octal(b[136:148], 0)
	b[156] = typ
	copy(b[157:257], link)
	copy(b[257:263], "ustar\x00")
	copy(b[263:265], "00")
	copy(b[345:500], prefix)
	for i := 148; i < 156; i++ {
		b[i] = ' '
	}
	sum := 0
	for _, c := range b {
		sum += int(c)
	}
	copy(b[148:156], fmt.Sprintf("%06o\x00 ", sum))
	return b
}

func c16Pad(out *bytes.Buffer, n int) {
	if r := n % 512; r != 0 {
		out.Write(make([]byte, 512-r))
	}
}

func c16BuildTar(c *c16Case) []byte {
	var out bytes.Buffer
	for _, e := range c.Ents {
		name := e.Name
		if len(name) > 100 {
			switch e.Long {
			case "gnu":
				out.Write(c16Header("././@LongLink", "", 'L', 0644, int64(len(name)+1), ""))
				out.WriteString(name)
				out.WriteByte(0)
				c16Pad(&out, len(name)+1)
			case "pax":
				rec := fmt.Sprintf(" path=%s\n", name)
				n := len(rec) + len(fmt.Sprint(len(rec)))
				if len(fmt.Sprint(n))+len(rec) != n {
					n = len(fmt.Sprint(n)) + len(rec)
				}
				rec = fmt.Sprint(n) + rec
				out.Write(c16Header("PaxHeaders.0/x", "", 'x', 0644, int64(len(rec)), ""))
				out.WriteString(rec)
				c16Pad(&out, len(rec))
			}
		}
		size := e.Size
		if size < 0 {
			size = int64(len(e.Data)) + e.Fill
		}
		out.Write(c16Header(name, e.Prefix, e.Type, e.Mode, size, e.Link))
		out.Write(e.Data)
		if e.Fill > 0 {
			out.Write(make([]byte, e.Fill))
		}
		c16Pad(&out, len(e.Data)+int(e.Fill))
	}
	if !c.NoEnd {
		out.Write(make([]byte, 1024))
	}
	raw := out.Bytes()
	if c.Cut > 0 && c.Cut < len(raw) {
		raw = raw[:c.Cut]
	}
	for _, f := range c.Flips {
		if f.Layer == "tar" && len(raw) > 0 {
			raw[((f.Off%len(raw))+len(raw))%len(raw)] ^= f.Xor
		}
	}
	return raw
}

func c16Gzip(c *c16Case) []byte {
	raw := c16BuildTar(c)
	var gz bytes.Buffer
	zw, _ := gzip.NewWriterLevel(&gz, gzip.BestSpeed)
	zw.Write(raw)
	zw.Close()
	b := gz.Bytes()
	for _, f := range c.Flips {
		if f.Layer == "gz" && len(b) > 0 {
			b[((f.Off%len(b))+len(b))%len(b)] ^= f.Xor
		}
	}
	return b
}

// c16ScanStream lists what archive/tar yields for the stream: the model's input.
func c16ScanStream(gz []byte) (ents []c16ScanEnt, gzerr, serr bool) {
	zr, err := gzip.NewReader(bytes.NewReader(gz))
	if err != nil {
		return nil, true, false
	}
	tr := tar.NewReader(zr)
	for {
		hd, err := tr.Next()
		if err == io.EOF {
			return ents, false, false
		}
		if err != nil {
			return ents, false, true
		}
		data, rerr := io.ReadAll(tr)
		ents = append(ents, c16ScanEnt{Name: hd.Name, Type: hd.Typeflag, Mode: hd.Mode, Size: hd.Size, Data: data, RErr: rerr != nil})
		if rerr != nil {
			return ents, false, false
		}
	}
}

func c16ErrClass(err error) string {
	if err == nil {
		return ""
	}
	s := err.Error()
	switch {
	case strings.Contains(s, "illegally contains absolute paths"):
		return "abs"
	case strings.Contains(s, "content outside the base directory"):
		return "outside"
	case strings.Contains(s, "illegally references parent directory"):
		return "parent"
	case strings.Contains(s, "illegally named files"):
		return "drive"
	case strings.Contains(s, "chart yaml not in base directory"):
		return "chartbase"
	case strings.Contains(s, "larger than the maximum file size"):
		return "file"
	case strings.Contains(s, "larger than the maximum size"):
		return "total"
	case strings.Contains(s, "no files in chart archive"):
		return "nofiles"
	}
	return "stream"
}

const c16BigData = 4096

func c16ExecArch(c *c16Case) (obs c16Obs) {
	gz := c16Gzip(c)
	obs.Scan, obs.GzErr, obs.ScanErr = c16ScanStream(gz)
	for _, e := range obs.Scan {
		if len(e.Data) > c16BigData {
			obs.Big = true
		}
	}
	oldT, oldF := loader.MaxDecompressedChartSize, loader.MaxDecompressedFileSize
	defer func() { loader.MaxDecompressedChartSize, loader.MaxDecompressedFileSize = oldT, oldF }()
	obs.Default = c.MaxTotal == 0 && c.MaxFile == 0
	if c.MaxTotal != 0 {
		loader.MaxDecompressedChartSize = c.MaxTotal
	}
	if c.MaxFile != 0 {
		loader.MaxDecompressedFileSize = c.MaxFile
	}
	obs.MaxTotal, obs.MaxFile = loader.MaxDecompressedChartSize, loader.MaxDecompressedFileSize
	files, err := loader.LoadArchiveFiles(bytes.NewReader(gz))
	obs.Err = c16ErrClass(err)
	if err == nil {
		for _, f := range files {
			obs.Files = append(obs.Files, c16File{Name: f.Name, Data: append([]byte{}, f.Data...)})
		}
	}
	if obs.Big {
		// keep the evidence small: drop large contents from the record (lengths stay in Size)
		for i := range obs.Scan {
			if len(obs.Scan[i].Data) > c16BigData {
				obs.Scan[i].Data = nil
			}
		}
		for i := range obs.Files {
			if len(obs.Files[i].Data) > c16BigData {
				obs.Files[i].Data = obs.Files[i].Data[:16]
			}
		}
	}
	return obs
}

func (p *c16) Execute(ci any) (out any) {
	c := ci.(c16Case)
	defer func() {
		if r := recover(); r != nil {
			out = c16Obs{Panic: fmt.Sprint(r)}
		}
	}()
	switch c.Kind {
	case "arch":
		return c16ExecArch(&c)
	case "join":
		return c16ExecJoin(&c)
	case "path", "pjoin", "prefix", "join2":
		return c16ExecPath(&c)
	case "secjoin", "resolve", "expandt", "extractt", "lockt":
		return c16ExecTree(&c)
	default:
		return c16ExecSandbox(&c)
	}
}

// ---------------------------------------------------------------- runtime oracle

var c16DriveRe = regexp.MustCompile(`^[a-zA-Z]:`)

// c16CleanRel: the property's own notion of a clean relative path, written directly.
func c16CleanRel(n string) bool {
	if n == "" || strings.HasPrefix(n, "/") || strings.Contains(n, "\\") || c16DriveRe.MatchString(n) && strings.HasPrefix(n[2:], "/") {
		return false
	}
	for _, p := range strings.Split(n, "/") {
		if p == "" || p == "." || p == ".." {
			return false
		}
	}
	return true
}

func (p *c16) Oracle(ci, oi any) []hx.Violation {
	c, obs := ci.(c16Case), oi.(c16Obs)
	var vs []hx.Violation
	if obs.Panic != "" {
		return []hx.Violation{{Sig: "C16:panic", What: "panic: " + obs.Panic}}
	}
	switch c.Kind {
	case "arch":
		if obs.Err != "" {
			return nil
		}
		var sum int64
		for _, f := range obs.Files {
			if !c16CleanRel(f.Name) {
				vs = append(vs, hx.Violation{Sig: "C16:unclean-name-accepted", What: fmt.Sprintf("LoadArchiveFiles exposed the file name %q, which is not a clean relative path", f.Name)})
			}
		}
		// sizes: from the stream as archive/tar sees it (declared sizes), every entry that is
		// not a directory or PAX header by its TYPE FLAG counts
		isMeta := func(e c16ScanEnt) bool {
			return e.Type == tar.TypeDir || e.Type == tar.TypeXHeader || e.Type == tar.TypeXGlobalHeader
		}
		isDirMode := func(e c16ScanEnt) bool { return e.Mode&0o170000 == 0o040000 }
		var all, plain int64
		overAll, overPlain := false, false
		for _, e := range obs.Scan {
			if isMeta(e) {
				continue
			}
			all += e.Size
			if e.Size > obs.MaxFile {
				overAll = true
			}
			if !isDirMode(e) {
				plain += e.Size
				if e.Size > obs.MaxFile {
					overPlain = true
				}
			}
		}
		if all > obs.MaxTotal {
			overAll = true
		}
		if plain > obs.MaxTotal {
			overPlain = true
		}
		sum = all
		if overPlain {
			vs = append(vs, hx.Violation{Sig: "C16:size-limit-bypassed", What: fmt.Sprintf("archive accepted although its entries declare %d bytes under limits %d (total) / %d (per file)", plain, obs.MaxTotal, obs.MaxFile)})
		} else if overAll {
			vs = append(vs, hx.Violation{Sig: "C16:dirmode-entry-uncounted", What: fmt.Sprintf("archive accepted although entries with a regular type flag and directory mode bits bring the content to %d bytes under limits %d (total) / %d (per file): they are skipped uncounted", sum, obs.MaxTotal, obs.MaxFile)})
		}
		var loaded int64
		for _, f := range obs.Files {
			n := int64(len(f.Data))
			if obs.Big {
				continue
			}
			loaded += n
			if n > obs.MaxFile {
				vs = append(vs, hx.Violation{Sig: "C16:file-over-limit-loaded", What: fmt.Sprintf("file %q of %d bytes loaded under a per-file limit of %d", f.Name, n, obs.MaxFile)})
			}
		}
		if loaded >= obs.MaxTotal {
			vs = append(vs, hx.Violation{Sig: "C16:total-over-limit-loaded", What: fmt.Sprintf("%d bytes loaded under a total limit of %d", loaded, obs.MaxTotal)})
		}
	case "join":
		return c16OracleJoin(&c, &obs)
	case "path", "pjoin", "prefix", "join2":
		return c16OraclePath(&c, &obs)
	case "secjoin", "resolve", "expandt", "extractt", "lockt":
		return c16OracleTree(&c, &obs)
	default:
		return c16OracleSandbox(&c, &obs)
	}
	return vs
}

// ---------------------------------------------------------------- Coq printer

func c16CoqBytes(b []byte) string { return chartx.CoqStr(string(b)) }

func c16CoqErr(cls string) string {
	return map[string]string{"stream": "EStream", "abs": "EAbs", "outside": "EOutside", "parent": "EParent", "drive": "EDrive",
		"chartbase": "EChartBase", "total": "ETotal", "file": "EFile", "nofiles": "ENoFiles"}[cls]
}

func (p *c16) CoqCase(ci, oi any) string {
	c, obs := ci.(c16Case), oi.(c16Obs)
	if obs.Panic != "" {
		return "CPanic"
	}
	switch c.Kind {
	case "arch":
		if obs.Big {
			return "COracleOnly"
		}
		ents := make([]string, len(obs.Scan))
		for i, e := range obs.Scan {
			ents[i] = fmt.Sprintf("mkTE %s %s %s %s %s %s", chartx.CoqStr(e.Name), hx.CoqZ(int64(e.Type)), hx.CoqZ(e.Mode), hx.CoqZ(e.Size),
				c16CoqBytes(e.Data), hx.CoqBool(e.RErr))
		}
		lim := "None"
		if !obs.Default {
			lim = fmt.Sprintf("(Some (%s, %s))", hx.CoqZ(obs.MaxTotal), hx.CoqZ(obs.MaxFile))
		}
		var o string
		if obs.Err != "" {
			o = "(inl " + c16CoqErr(obs.Err) + ")"
		} else {
			fs := make([]string, len(obs.Files))
			for i, f := range obs.Files {
				fs[i] = fmt.Sprintf("mkFile %s %s", chartx.CoqStr(f.Name), c16CoqBytes(f.Data))
			}
			o = "(inr " + hx.CoqList(fs) + ")"
		}
		return fmt.Sprintf("CArch %s (mkTS %s %s %s) %s", lim, hx.CoqBool(obs.GzErr), hx.CoqList(ents), hx.CoqBool(obs.ScanErr), o)
	case "join":
		return c16CoqJoin(&c, &obs)
	case "path", "pjoin", "prefix", "join2":
		return c16CoqPath(&c, &obs)
	case "secjoin", "resolve", "expandt", "extractt", "lockt":
		return c16CoqTree(&c, &obs)
	default:
		return c16CoqSandbox(&c, &obs)
	}
}

func (p *c16) Class(ci, oi any) string {
	c, obs := ci.(c16Case), oi.(c16Obs)
	switch c.Kind {
	case "arch":
		k := "arch:" + obs.Err
		if obs.Err == "" {
			k = "arch:accepted"
		}
		if obs.Default {
			k += "(default-limits)"
		}
		return k
	case "join":
		if obs.Err == "" {
			return "join:accepted"
		}
		return "join:" + obs.Err
	case "path", "pjoin", "prefix", "join2":
		return c16ClassPath(&c, &obs)
	case "secjoin", "resolve", "expandt", "extractt", "lockt":
		return c16ClassTree(&c, &obs)
	}
	if obs.Err == "" {
		return c.Kind + ":ok"
	}
	return c.Kind + ":error"
}

func (p *c16) NonTrivial(ci, oi any) bool {
	c, obs := ci.(c16Case), oi.(c16Obs)
	switch c.Kind {
	case "arch":
		if obs.Err == "" {
			return len(obs.Files) > 0
		}
		// rejected after at least one entry went through the name pipeline
		for _, e := range obs.Scan {
			if e.Type != tar.TypeDir && e.Mode&0o170000 != 0o040000 {
				return obs.Err != "stream" || len(obs.Scan) > 1
			}
		}
		return false
	case "join", "join2":
		return c.Dest != ""
	case "path", "prefix":
		return c.Str != ""
	case "pjoin":
		return len(c.Elems) > 0
	case "secjoin", "resolve", "expandt", "extractt", "lockt":
		return c16TreeHasLinkInDest(obs.Before)
	}
	return len(obs.Changed) > 0 || obs.Err != ""
}

func (*c16) Decode(raw json.RawMessage) (any, error) {
	var c c16Case
	err := json.Unmarshal(raw, &c)
	return c, err
}

func (*c16) Exhaustive(tier string) []any { return c16Exhaustive(tier) }

// ---------------------------------------------------------------- generator

var c16Comps = []string{"a", "b.txt", "templates", "x.yaml", "..", "..", ".", "", "Chart.yaml", "charts", "c:", "C:", "..foo", "...",
	"ünï", "日本語", "a b", "con", "values.yaml", "-", "~", "%2e%2e", "nul\u0001", "d.e.f", ".hidden", "...", "blob.tgz", "sub-0.1.0.tgz"}

func c16Name(r *rand.Rand) string {
	first := []string{"chart", "chart", "chart", "chart", "c", "", ".", "..", "Chart.yaml", "c:", "日本"}[r.Intn(11)]
	sep := "/"
	if r.Intn(6) == 0 {
		sep = "\\"
	}
	n := 1 + r.Intn(4)
	parts := []string{first}
	for i := 0; i < n; i++ {
		p := c16Comps[r.Intn(len(c16Comps))]
		if r.Intn(25) == 0 {
			p = strings.Repeat("x", 90+r.Intn(80))
		}
		parts = append(parts, p)
	}
	s := parts[0]
	for _, p := range parts[1:] {
		d := sep
		if r.Intn(12) == 0 { // mixed separators
			d = map[string]string{"/": "\\", "\\": "/"}[sep]
		}
		s += d + p
	}
	switch r.Intn(14) {
	case 0:
		s = "/" + s
	case 1:
		s = "./" + s
	case 2:
		s = "../" + s
	case 3:
		s = "C:\\" + s
	case 4:
		s = "chart/c:/" + c16Comps[r.Intn(len(c16Comps))]
	case 5:
		s = "chart//" + c16Comps[r.Intn(len(c16Comps))]
	case 6:
		s = s + "/"
	}
	if r.Intn(20) == 0 {
		return "chart/" + strings.Repeat("d/", 60) + "deep.txt"
	}
	return s
}

func c16GoodName(r *rand.Rand) string {
	good := []string{"a", "b.txt", "templates", "x.yaml", "charts", "charts", "ünï", "values.yaml", ".hidden", "d.e.f", "README.md", "blob.tgz", "dep-1.0.0.tgz", "x.prov"}
	s := "chart"
	for i := 0; i <= r.Intn(3); i++ {
		s += "/" + good[r.Intn(len(good))]
	}
	return s
}

var c16Types = []byte{'0', '0', '0', '0', '0', 0, '1', '2', '3', '4', '5', '6', '7', 'x', 'g', 'Z', 'D'}
var c16Modes = []int64{0o644, 0o644, 0o644, 0o755, 0o100644, 0o040755, 0o040000, 0o120777, 0, 0o7777, 0o060644}

func c16Data(r *rand.Rand, n int) []byte {
	b := make([]byte, n)
	for i := range b {
		b[i] = byte(r.Intn(256))
	}
	if n >= 3 && r.Intn(6) == 0 {
		copy(b, []byte{0xEF, 0xBB, 0xBF})
	}
	return b
}

func c16GenArch(r *rand.Rand) c16Case {
	c := c16Case{Kind: "arch"}
	hostile := r.Intn(3) != 0 // two thirds carry at least one adversarial name/type
	n := 1 + r.Intn(6)
	for i := 0; i < n; i++ {
		e := c16Ent{Type: '0', Mode: 0o644, Size: -1}
		if hostile && r.Intn(3) == 0 {
			e.Name = c16Name(r)
		} else {
			e.Name = c16GoodName(r)
		}
		if hostile && r.Intn(4) == 0 {
			e.Type = c16Types[r.Intn(len(c16Types))]
		}
		if r.Intn(8) == 0 {
			e.Mode = c16Modes[r.Intn(len(c16Modes))]
		}
		e.Data = c16Data(r, r.Intn(60))
		if len(e.Name) > 100 {
			e.Long = []string{"gnu", "pax", "", "gnu"}[r.Intn(4)]
		}
		if r.Intn(30) == 0 {
			e.Prefix = []string{"pre", "..", "/abs", "chart/sub"}[r.Intn(4)]
		}
		if e.Type == '1' || e.Type == '2' {
			e.Link = []string{"../../etc/passwd", "/etc/passwd", "a", "chart/a"}[r.Intn(4)]
			if r.Intn(2) == 0 {
				e.Data = nil
			}
		}
		if r.Intn(25) == 0 && i > 0 { // duplicate of an earlier entry name
			e.Name = c.Ents[r.Intn(i)].Name
		}
		c.Ents = append(c.Ents, e)
	}
	// size games
	switch r.Intn(10) {
	case 0: // last entry declares more than is there (truncated stream)
		e := &c.Ents[len(c.Ents)-1]
		e.Size = int64(len(e.Data)) + int64(1+r.Intn(2000))
		c.NoEnd = true
	case 1: // an entry declares less than is written: the rest is parsed as headers
		e := &c.Ents[r.Intn(len(c.Ents))]
		if len(e.Data) > 2 {
			e.Size = int64(r.Intn(len(e.Data)))
		}
	case 2:
		e := &c.Ents[r.Intn(len(c.Ents))]
		e.Fill = int64(r.Intn(3000))
	}
	// limits: mostly small injected ones around the actual sizes
	var total int64
	var maxOne int64
	for _, e := range c.Ents {
		sz := int64(len(e.Data)) + e.Fill
		total += sz
		if sz > maxOne {
			maxOne = sz
		}
	}
	switch r.Intn(8) {
	case 0: // defaults
	case 1, 2:
		c.MaxTotal = total + int64(r.Intn(3)) - 1 // just below, equal, just above
		c.MaxFile = maxOne + 10
	case 3:
		c.MaxTotal = total + 100
		c.MaxFile = maxOne + int64(r.Intn(3)) - 1
	default:
		c.MaxTotal = total + 1 + int64(r.Intn(200))
		c.MaxFile = maxOne + int64(r.Intn(50))
	}
	if c.MaxTotal < 0 {
		c.MaxTotal = 1
	}
	if c.MaxFile < 0 {
		c.MaxFile = 1
	}
	if c.MaxTotal == 0 && c.MaxFile != 0 {
		c.MaxTotal = 1
	}
	if c.MaxFile == 0 && c.MaxTotal != 0 {
		c.MaxFile = 1
	}
	// mutations
	switch r.Intn(12) {
	case 0:
		c.Flips = append(c.Flips, c16Flip{Layer: "tar", Off: r.Intn(4096), Xor: byte(1 << r.Intn(8))})
	case 1:
		c.Flips = append(c.Flips, c16Flip{Layer: "gz", Off: r.Intn(200), Xor: byte(1 << r.Intn(8))})
	case 2:
		c.Cut = 1 + r.Intn(2048)
	case 3:
		c.NoEnd = true
	}
	return c
}

func (p *c16) Generate(r *rand.Rand, i int) any {
	switch k := r.Intn(40); {
	case k < 17:
		return c16GenArch(r)
	case k < 20:
		return c16GenJoin(r)
	case k < 26:
		return c16GenSandbox(r)
	case k < 32:
		return c16GenPath(r)
	default:
		return c16GenTree(r)
	}
}

func c16Chart(name string) c16Ent {
	return c16Ent{Name: name + "/Chart.yaml", Type: '0', Mode: 0o644, Size: -1, Data: []byte("apiVersion: v2\nname: " + name + "\nversion: 0.1.0\n")}
}

func (p *c16) Corpus() []any {
	reg := func(name string, data string) c16Ent {
		return c16Ent{Name: name, Type: '0', Mode: 0o644, Size: -1, Data: []byte(data)}
	}
	var out []any
	// K5 witness: regular type flag, directory mode bits, 4000 bytes under a total limit of 1000
	out = append(out, c16Case{Kind: "arch", Note: "K5", MaxTotal: 1000, MaxFile: 500, Ents: []c16Ent{
		c16Chart("k5"), {Name: "k5/files/big", Type: '0', Mode: 0o040755, Size: -1, Fill: 4000}}})
	// control: the same with mode 0644 is rejected
	out = append(out, c16Case{Kind: "arch", MaxTotal: 1000, MaxFile: 5000, Ents: []c16Ent{
		c16Chart("k5"), {Name: "k5/files/big", Type: '0', Mode: 0o644, Size: -1, Fill: 4000}}})
	// default limits tied to the translator: declared size at / one above the per-file limit, stream truncated
	defT, defF := loader.MaxDecompressedChartSize, loader.MaxDecompressedFileSize
	out = append(out, c16Case{Kind: "arch", NoEnd: true, Ents: []c16Ent{c16Chart("d"), {Name: "d/f", Type: '0', Mode: 0o644, Size: defF, Data: []byte("x")}}})
	out = append(out, c16Case{Kind: "arch", NoEnd: true, Ents: []c16Ent{c16Chart("d"), {Name: "d/f", Type: '0', Mode: 0o644, Size: defF + 1, Data: []byte("x")}}})
	// total limit: per-file limit lifted so that the total check is the one that fires
	out = append(out, c16Case{Kind: "arch", NoEnd: true, MaxTotal: defT, MaxFile: 1 << 40, Ents: []c16Ent{c16Chart("d"), {Name: "d/f", Type: '0', Mode: 0o644, Size: defT - 47, Data: []byte("x")}}})
	out = append(out, c16Case{Kind: "arch", NoEnd: true, MaxTotal: defT, MaxFile: 1 << 40, Ents: []c16Ent{c16Chart("d"), {Name: "d/f", Type: '0', Mode: 0o644, Size: defT - 46, Data: []byte("x")}}})
	// an actual file of exactly the default per-file limit and one byte more (content not handed to the model)
	out = append(out, c16Case{Kind: "arch", Ents: []c16Ent{c16Chart("d"), {Name: "d/f", Type: '0', Mode: 0o644, Size: -1, Fill: defF}}})
	out = append(out, c16Case{Kind: "arch", Ents: []c16Ent{c16Chart("d"), {Name: "d/f", Type: '0', Mode: 0o644, Size: -1, Fill: defF + 1}}})
	// the limits apply to every entry whatever its name: packaged-dependency-looking names
	// (charts/*.tgz, nested or not) one byte over the per-file limit, total well below
	for _, n := range []string{"c/charts/sub-0.1.0.tgz", "c/charts/sub/files/blob.tgz", "c/charts/a/charts/b.tgz", "c/templates/x.tgz", "c/charts/.tgz"} {
		out = append(out, c16Case{Kind: "arch", MaxTotal: 100000, MaxFile: 50, Ents: []c16Ent{c16Chart("c"), {Name: n, Type: '0', Mode: 0o644, Size: -1, Fill: 51}}})
		out = append(out, c16Case{Kind: "arch", MaxTotal: 100000, MaxFile: 50, Ents: []c16Ent{c16Chart("c"), {Name: n, Type: '0', Mode: 0o644, Size: -1, Fill: 50}}})
	}
	// classic hostile names
	for _, n := range []string{"c/../../etc/passwd", "c//etc/passwd", "c\\..\\..\\x", "c/c:/x", "c/C:\\x", "/c/x", "c", "c/", "c/.", "c/a/..",
		"c/..a", "Chart.yaml/x", "c/./a/../b", "c\\a/b", "c/a\\b", "../c/x", "./c/x", "c/a/", "c/日本/ü", "c/...", "c/a//b", "c/c:", "c/c:x",
		"c/C:/x", "c/Z:/", "c/z:/x", "c\\C:\\x", "c/a/../C:/x", "c/1:/x", "c/cc:/x"} {
		out = append(out, c16Case{Kind: "arch", MaxTotal: 10000, MaxFile: 1000, Ents: []c16Ent{c16Chart("c"), reg(n, "data")}})
	}
	// symlink / hardlink / device entries, with and without a declared size
	for _, t := range []byte{'1', '2', '3', '4', '5', '6', '7', 'x', 'g', 0, 'Z'} {
		out = append(out, c16Case{Kind: "arch", MaxTotal: 10000, MaxFile: 1000, Ents: []c16Ent{c16Chart("c"), {Name: "c/l", Type: t, Mode: 0o777, Size: 0, Link: "/etc/passwd"}, reg("c/z", "z")}})
		out = append(out, c16Case{Kind: "arch", MaxTotal: 10000, MaxFile: 1000, Ents: []c16Ent{c16Chart("c"), {Name: "c/l", Type: t, Mode: 0o777, Size: 7, Link: "/etc/passwd"}, reg("c/z", "z")}})
	}
	// symlink / hard-link entries: single, chained pairs and triples, regular entries "through" them
	for _, sc := range c16LinkScenarios {
		ents := []c16Ent{c16Chart("c")}
		for _, e := range sc {
			e.Name = "c/" + e.Name
			ents = append(ents, e)
		}
		out = append(out, c16Case{Kind: "arch", MaxTotal: 10000, MaxFile: 1000, Ents: ents})
	}
	// BOM, empty archive, only directories, duplicates
	out = append(out, c16Case{Kind: "arch", MaxTotal: 10000, MaxFile: 1000, Ents: []c16Ent{c16Chart("c"), reg("c/b", "\xef\xbb\xbfabc"), reg("c/b", "second")}})
	out = append(out, c16Case{Kind: "arch", MaxTotal: 10000, MaxFile: 1000})
	out = append(out, c16Case{Kind: "arch", MaxTotal: 10000, MaxFile: 1000, Ents: []c16Ent{{Name: "c/", Type: '5', Mode: 0o755}}})
	// remaining budget hits exactly zero
	out = append(out, c16Case{Kind: "arch", MaxTotal: 8, MaxFile: 8, Ents: []c16Ent{reg("c/a", "1234"), reg("c/b", "5678")}})
	out = append(out, c16Case{Kind: "arch", MaxTotal: 9, MaxFile: 8, Ents: []c16Ent{reg("c/a", "1234"), reg("c/b", "5678")}})
	out = append(out, c16CorpusJoin()...)
	out = append(out, c16CorpusSandbox()...)
	out = append(out, c16CorpusPath()...)
	out = append(out, c16CorpusTree()...)
	return out
}

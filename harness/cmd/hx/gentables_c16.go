package main

// Translator table for C16: the decompression limits of pkg/chart/v2/loader/archive.go,
// read from the source with go/ast and evaluated as integer constant expressions.

import (
	"bytes"
	"fmt"
	"go/ast"
	"go/printer"
	"go/token"
	"math/big"
)

func init() { registerTable("Limits", genLimits) }

func evalIntExpr(e ast.Expr) (*big.Int, error) {
	switch v := e.(type) {
	case *ast.BasicLit:
		if v.Kind != token.INT {
			return nil, fmt.Errorf("not an integer literal: %s", v.Value)
		}
		n, ok := new(big.Int).SetString(v.Value, 0)
		if !ok {
			return nil, fmt.Errorf("bad integer literal %s", v.Value)
		}
		return n, nil
	case *ast.ParenExpr:
		return evalIntExpr(v.X)
	case *ast.BinaryExpr:
		a, err := evalIntExpr(v.X)
		if err != nil {
			return nil, err
		}
		b, err := evalIntExpr(v.Y)
		if err != nil {
			return nil, err
		}
		switch v.Op {
		case token.MUL:
			return new(big.Int).Mul(a, b), nil
		case token.ADD:
			return new(big.Int).Add(a, b), nil
		case token.SUB:
			return new(big.Int).Sub(a, b), nil
		case token.SHL:
			return new(big.Int).Lsh(a, uint(b.Uint64())), nil
		}
		return nil, fmt.Errorf("unsupported operator %s", v.Op)
	}
	return nil, fmt.Errorf("unsupported expression %T", e)
}

func varIntValue(f *ast.File, name string) (*big.Int, error) {
	for _, d := range f.Decls {
		gd, ok := d.(*ast.GenDecl)
		if !ok || (gd.Tok != token.VAR && gd.Tok != token.CONST) {
			continue
		}
		for _, s := range gd.Specs {
			vs := s.(*ast.ValueSpec)
			for i, n := range vs.Names {
				if n.Name == name && i < len(vs.Values) {
					return evalIntExpr(vs.Values[i])
				}
			}
		}
	}
	return nil, fmt.Errorf("%s not found", name)
}

func genLimits(repo string) (string, error) {
	f, _, err := parseFile(repo, "pkg/chart/v2/loader/archive.go")
	if err != nil {
		return "", err
	}
	total, err := varIntValue(f, "MaxDecompressedChartSize")
	if err != nil {
		return "", err
	}
	file, err := varIntValue(f, "MaxDecompressedFileSize")
	if err != nil {
		return "", err
	}
	// the comparison operators of the size checks, so that a flipped operator breaks a proof
	// obligation (Props/C16.v: C16_limit_operators) and not only the correspondence run
	fset := token.NewFileSet()
	ops := []struct{ name, fn, lhs, rhs, file string }{
		{"op_entry_vs_remaining", "LoadArchiveFiles", "hd.Size", "remainingSize", "pkg/chart/v2/loader/archive.go"},
		{"op_entry_vs_file_limit", "LoadArchiveFiles", "hd.Size", "MaxDecompressedFileSize", "pkg/chart/v2/loader/archive.go"},
		{"op_short_read", "LoadArchiveFiles", "bytesWritten", "hd.Size", "pkg/chart/v2/loader/archive.go"},
		{"op_budget_exhausted", "LoadArchiveFiles", "remainingSize", "0", "pkg/chart/v2/loader/archive.go"},
		{"op_dir_file_vs_limit", "LoadDir", "fi.Size()", "MaxDecompressedFileSize", "pkg/chart/v2/loader/directory.go"},
	}
	out := fmt.Sprintf("(* pkg/chart/v2/loader/archive.go *)\nDefinition max_decompressed_chart_size : Z := %s%%Z.\nDefinition max_decompressed_file_size : Z := %s%%Z.\n\n(* comparison operators of the size checks, as written in the source *)\n",
		total.String(), file.String())
	for _, o := range ops {
		pf, _, err := parseFile(repo, o.file)
		if err != nil {
			return "", err
		}
		op, n := findComparison(fset, pf, o.fn, o.lhs, o.rhs)
		if n != 1 {
			return "", fmt.Errorf("%s: expected exactly one comparison %s ? %s in %s, found %d", o.name, o.lhs, o.rhs, o.fn, n)
		}
		out += fmt.Sprintf("Definition %s : string := %q.\n", o.name, op)
	}
	return out, nil
}

func exprText(fset *token.FileSet, e ast.Expr) string {
	var b bytes.Buffer
	printer.Fprint(&b, fset, e)
	return b.String()
}

// findComparison returns the operator of the comparison `lhs OP rhs` inside function fn
// (searched in every expression, closures included) and how many such comparisons exist.
func findComparison(fset *token.FileSet, f *ast.File, fn, lhs, rhs string) (string, int) {
	op, n := "", 0
	for _, d := range f.Decls {
		fd, ok := d.(*ast.FuncDecl)
		if !ok || fd.Name.Name != fn || fd.Body == nil {
			continue
		}
		ast.Inspect(fd.Body, func(nd ast.Node) bool {
			be, ok := nd.(*ast.BinaryExpr)
			if !ok {
				return true
			}
			switch be.Op {
			case token.LSS, token.GTR, token.LEQ, token.GEQ, token.EQL, token.NEQ:
				if exprText(fset, be.X) == lhs && exprText(fset, be.Y) == rhs {
					op = be.Op.String()
					n++
				}
			}
			return true
		})
	}
	return op, n
}

package main

// Translator table for C16: the decompression limits of pkg/chart/v2/loader/archive.go,
// read from the source with go/ast and evaluated as integer constant expressions.

import (
	"fmt"
	"go/ast"
	"go/token"
	"math/big"
)

func init() { registerTable("Limits", genLimits) }

func evalIntExpr(e ast.Expr) (*big.Int, error) {
	switch v := e.(type) {
	case *ast.BasicLit:
		if v.Kind != token.INT {
			return nil, fmt.Errorf("not an integer literal: %s", v.Value)
		}
		n, ok := new(big.Int).SetString(v.Value, 0)
		if !ok {
			return nil, fmt.Errorf("bad integer literal %s", v.Value)
		}
		return n, nil
	case *ast.ParenExpr:
		return evalIntExpr(v.X)
	case *ast.BinaryExpr:
		a, err := evalIntExpr(v.X)
		if err != nil {
			return nil, err
		}
		b, err := evalIntExpr(v.Y)
		if err != nil {
			return nil, err
		}
		switch v.Op {
		case token.MUL:
			return new(big.Int).Mul(a, b), nil
		case token.ADD:
			return new(big.Int).Add(a, b), nil
		case token.SUB:
			return new(big.Int).Sub(a, b), nil
		case token.SHL:
			return new(big.Int).Lsh(a, uint(b.Uint64())), nil
		}
		return nil, fmt.Errorf("unsupported operator %s", v.Op)
	}
	return nil, fmt.Errorf("unsupported expression %T", e)
}

func varIntValue(f *ast.File, name string) (*big.Int, error) {
	for _, d := range f.Decls {
		gd, ok := d.(*ast.GenDecl)
		if !ok || (gd.Tok != token.VAR && gd.Tok != token.CONST) {
			continue
		}
		for _, s := range gd.Specs {
			vs := s.(*ast.ValueSpec)
			for i, n := range vs.Names {
				if n.Name == name && i < len(vs.Values) {
					return evalIntExpr(vs.Values[i])
				}
			}
		}
	}
	return nil, fmt.Errorf("%s not found", name)
}

func genLimits(repo string) (string, error) {
	f, _, err := parseFile(repo, "pkg/chart/v2/loader/archive.go")
	if err != nil {
		return "", err
	}
	total, err := varIntValue(f, "MaxDecompressedChartSize")
	if err != nil {
		return "", err
	}
	file, err := varIntValue(f, "MaxDecompressedFileSize")
	if err != nil {
		return "", err
	}
	return fmt.Sprintf("(* pkg/chart/v2/loader/archive.go *)\nDefinition max_decompressed_chart_size : Z := %s%%Z.\nDefinition max_decompressed_file_size : Z := %s%%Z.\n",
		total.String(), file.String()), nil
}

package main

// C20 storage stream: Secret / ConfigMap objects with hand-made bodies, read through the
// real drivers (Get/List/Query) and the real Storage (ListDeployed, ListUninstalled,
// Deployed, Last, History).

import (
	"bytes"
	"compress/gzip"
	"context"
	"encoding/base64"
	"encoding/json"
	"fmt"
	"io"
	"math/rand"
	"sort"
	"strings"

	v1 "k8s.io/api/core/v1"
	metav1 "k8s.io/apimachinery/pkg/apis/meta/v1"
	"k8s.io/client-go/kubernetes/fake"

	rspb "helm.sh/helm/v4/pkg/release/v1"
	"helm.sh/helm/v4/pkg/storage"
	"helm.sh/helm/v4/pkg/storage/driver"

	"verif/harness/internal/hx"
)

type c20Rec struct {
	ObjName string            `json:"obj"`
	Labels  map[string]string `json:"labels,omitempty"`
	Body    string            `json:"body"` // kind of body, see c20Body
	RelName string            `json:"rel_name,omitempty"`
	RelVer  int               `json:"rel_ver,omitempty"`
	Status  string            `json:"status,omitempty"`
	Seed    int64             `json:"seed,omitempty"` // for random bodies
}

type c20SOp struct {
	Op    string            `json:"op"` // get list query listdeployed listuninstalled deployed last history
	Key   string            `json:"key,omitempty"`
	Name  string            `json:"name,omitempty"`
	Query map[string]string `json:"query,omitempty"`
}

type c20Storage struct {
	Backend string   `json:"backend"` // secret configmap
	Recs    []c20Rec `json:"recs"`
	Ops     []c20SOp `json:"ops"`
}

type c20NV struct {
	Name string `json:"name"`
	Ver  int    `json:"ver"`
}

type c20SOut struct {
	Class string  `json:"class"`
	Rels  []c20NV `json:"rels,omitempty"`
	Panic string  `json:"panic,omitempty"`
}

var c20BodyKinds = []string{"ok", "ok", "ok", "ok-plain", "noinfo", "json-null", "json-empty", "badb64", "badgzip", "truncgzip",
	"gzip-nonjson", "json-array", "json-wrongtype", "nokey", "nildata", "empty", "random", "short-magic"}

func c20Gzip(b []byte) []byte {
	var buf bytes.Buffer
	w, _ := gzip.NewWriterLevel(&buf, gzip.BestCompression)
	w.Write(b)
	w.Close()
	return buf.Bytes()
}

// c20Body returns the raw value stored under the "release" key (present=false: key absent;
// nildata: the whole Data map is nil).
func c20Body(r c20Rec) (val string, present bool, nilData bool) {
	full := func() []byte {
		rel := &rspb.Release{Name: r.RelName, Version: r.RelVer, Namespace: "default",
			Info: &rspb.Info{Status: rspb.Status(r.Status), Description: "d"}, Manifest: "---\nkind: ConfigMap\n"}
		b, _ := json.Marshal(rel)
		return b
	}
	b64 := base64.StdEncoding.EncodeToString
	switch r.Body {
	case "ok":
		return b64(c20Gzip(full())), true, false
	case "ok-plain":
		return b64(full()), true, false
	case "noinfo":
		return b64(c20Gzip([]byte(fmt.Sprintf(`{"name":%q,"version":%d}`, r.RelName, r.RelVer)))), true, false
	case "json-null":
		return b64([]byte("null")), true, false
	case "json-empty":
		return b64(c20Gzip([]byte("{}"))), true, false
	case "badb64":
		return "!!! not base64 !!!", true, false
	case "badgzip":
		return b64(append([]byte{0x1f, 0x8b, 0x08}, []byte("this is not a deflate stream at all")...)), true, false
	case "truncgzip":
		g := c20Gzip(full())
		return b64(g[:len(g)/2]), true, false
	case "gzip-nonjson":
		return b64(c20Gzip([]byte("hello, not json"))), true, false
	case "json-array":
		return b64([]byte("[1,2,3]")), true, false
	case "json-wrongtype":
		return b64(c20Gzip([]byte(`{"name":5,"version":"x"}`))), true, false
	case "nokey":
		return "", false, false
	case "nildata":
		return "", false, true
	case "empty":
		return "", true, false
	case "short-magic":
		return b64([]byte{0x1f, 0x8b, 0x08}), true, false
	case "random":
		rr := rand.New(rand.NewSource(r.Seed))
		n := rr.Intn(60)
		b := make([]byte, n)
		rr.Read(b)
		if rr.Intn(2) == 0 {
			return b64(b), true, false
		}
		return string(b), true, false
	}
	return "", false, false
}

// c20Decodable says, from the third-party codecs alone (base64, gzip, JSON), what the body
// decodes to: this is data for the model's Section variable [dec], not a re-implementation
// of what is under test (the skip / error / dereference glue around it).
func c20Decodable(r c20Rec) (*rspb.Release, bool) {
	val, _, _ := c20Body(r)
	b, err := base64.StdEncoding.DecodeString(val)
	if err != nil {
		return nil, false
	}
	if len(b) > 3 && b[0] == 0x1f && b[1] == 0x8b && b[2] == 0x08 {
		zr, err := gzip.NewReader(bytes.NewReader(b))
		if err != nil {
			return nil, false
		}
		b2, err := io.ReadAll(zr)
		if err != nil {
			return nil, false
		}
		b = b2
	}
	var rel rspb.Release
	if err := json.Unmarshal(b, &rel); err != nil {
		return nil, false
	}
	return &rel, true
}

func (s *c20Storage) malformed() bool {
	for _, r := range s.Recs {
		if rel, ok := c20Decodable(r); !ok || rel.Info == nil {
			return true
		}
	}
	return false
}

func c20StorageCorpus() []any {
	lb := func(n, st string, v int) map[string]string {
		return map[string]string{"owner": "helm", "name": n, "status": st, "version": fmt.Sprint(v)}
	}
	key := func(n string, v int) string { return fmt.Sprintf("sh.helm.release.v1.%s.v%d", n, v) }
	var out []any
	for _, b := range []string{"secret", "configmap"} {
		// F1 witness: Get of an undecodable record; List/Query skip it and return the other
		out = append(out, c20Case{Kind: "storage", Storage: &c20Storage{Backend: b,
			Recs: []c20Rec{
				{ObjName: key("x", 1), Labels: lb("x", "superseded", 1), Body: "badgzip", RelName: "x", RelVer: 1, Status: "superseded"},
				{ObjName: key("x", 2), Labels: lb("x", "deployed", 2), Body: "ok", RelName: "x", RelVer: 2, Status: "deployed"}},
			Ops: []c20SOp{{Op: "get", Key: key("x", 1)}, {Op: "get", Key: key("x", 2)}, {Op: "list"},
				{Op: "query", Query: map[string]string{"name": "x", "owner": "helm"}}, {Op: "history", Name: "x"}, {Op: "last", Name: "x"}, {Op: "deployed", Name: "x"}}}})
		// witness of b7c9b57: a record that decodes but has no info object
		out = append(out, c20Case{Kind: "storage", Storage: &c20Storage{Backend: b,
			Recs: []c20Rec{
				{ObjName: key("y", 1), Labels: lb("y", "deployed", 1), Body: "noinfo", RelName: "y", RelVer: 1},
				{ObjName: key("z", 1), Labels: lb("z", "deployed", 1), Body: "ok", RelName: "z", RelVer: 1, Status: "deployed"},
				{ObjName: key("n", 1), Labels: lb("n", "deployed", 1), Body: "json-null"}},
			Ops: []c20SOp{{Op: "listdeployed"}, {Op: "listuninstalled"}, {Op: "list"}, {Op: "deployed", Name: "y"}, {Op: "last", Name: "n"}}}})
		// every record unreadable
		out = append(out, c20Case{Kind: "storage", Storage: &c20Storage{Backend: b,
			Recs: []c20Rec{
				{ObjName: key("q", 1), Labels: lb("q", "deployed", 1), Body: "nildata"},
				{ObjName: key("q", 2), Labels: lb("q", "deployed", 2), Body: "badb64"}},
			Ops: []c20SOp{{Op: "list"}, {Op: "history", Name: "q"}, {Op: "last", Name: "q"}, {Op: "deployed", Name: "q"}, {Op: "get", Key: key("q", 1)}}}})
	}
	return out
}

var c20RelNames = []string{"app", "db", "web.v2"}
var c20Statuses = []string{"deployed", "superseded", "failed", "uninstalled", "pending-install"}

func c20GenStorage(r *rand.Rand) *c20Storage {
	s := &c20Storage{Backend: []string{"secret", "configmap"}[r.Intn(2)]}
	n := 1 + r.Intn(7)
	used := map[string]bool{}
	for i := 0; i < n; i++ {
		name := c20RelNames[r.Intn(len(c20RelNames))]
		ver := 1 + r.Intn(4)
		obj := fmt.Sprintf("sh.helm.release.v1.%s.v%d", name, ver)
		if used[obj] {
			continue
		}
		used[obj] = true
		st := c20Statuses[r.Intn(len(c20Statuses))]
		rec := c20Rec{ObjName: obj, Body: c20BodyKinds[r.Intn(len(c20BodyKinds))], RelName: name, RelVer: ver, Status: st, Seed: r.Int63()}
		rec.Labels = map[string]string{"owner": "helm", "name": name, "status": st, "version": fmt.Sprint(ver)}
		switch r.Intn(12) {
		case 0:
			delete(rec.Labels, "owner") // a foreign object
		case 1:
			rec.Labels["owner"] = "tiller"
		case 2:
			rec.Labels = nil
		case 3:
			// labels disagree with the body (body says another name / revision)
			rec.RelName, rec.RelVer = "other", 9
		}
		s.Recs = append(s.Recs, rec)
	}
	nops := 2 + r.Intn(6)
	for i := 0; i < nops; i++ {
		name := c20RelNames[r.Intn(len(c20RelNames))]
		switch k := r.Intn(11); {
		case k < 3:
			key := fmt.Sprintf("sh.helm.release.v1.%s.v%d", name, 1+r.Intn(4))
			if len(s.Recs) > 0 && r.Intn(3) > 0 {
				key = s.Recs[r.Intn(len(s.Recs))].ObjName
			}
			s.Ops = append(s.Ops, c20SOp{Op: "get", Key: key})
		case k < 5:
			s.Ops = append(s.Ops, c20SOp{Op: "list"})
		case k < 7:
			q := map[string]string{}
			if r.Intn(4) > 0 {
				q["name"] = name
			}
			if r.Intn(2) == 0 {
				q["owner"] = "helm"
			}
			if r.Intn(3) == 0 {
				q["status"] = c20Statuses[r.Intn(2)]
			}
			if r.Intn(10) == 0 {
				q["name"] = "in valid" // not a valid label value
			}
			s.Ops = append(s.Ops, c20SOp{Op: "query", Query: q})
		case k == 7:
			s.Ops = append(s.Ops, c20SOp{Op: []string{"listdeployed", "listuninstalled"}[r.Intn(2)]})
		case k == 8:
			s.Ops = append(s.Ops, c20SOp{Op: "deployed", Name: name})
		case k == 9:
			s.Ops = append(s.Ops, c20SOp{Op: "last", Name: name})
		default:
			s.Ops = append(s.Ops, c20SOp{Op: "history", Name: name})
		}
	}
	return s
}

func c20ExecStorage(s *c20Storage) c20Obs {
	obs := c20Obs{Class: "ok"}
	cs := fake.NewSimpleClientset()
	var d driver.Driver
	for _, r := range s.Recs {
		val, present, nilData := c20Body(r)
		meta := metav1.ObjectMeta{Name: r.ObjName, Labels: r.Labels}
		if s.Backend == "secret" {
			o := &v1.Secret{ObjectMeta: meta, Type: "helm.sh/release.v1"}
			if !nilData {
				o.Data = map[string][]byte{"other": []byte("x")}
				if present {
					o.Data["release"] = []byte(val)
				}
			}
			cs.CoreV1().Secrets("default").Create(context.Background(), o, metav1.CreateOptions{})
		} else {
			o := &v1.ConfigMap{ObjectMeta: meta}
			if !nilData {
				o.Data = map[string]string{"other": "x"}
				if present {
					o.Data["release"] = val
				}
			}
			cs.CoreV1().ConfigMaps("default").Create(context.Background(), o, metav1.CreateOptions{})
		}
	}
	if s.Backend == "secret" {
		d = driver.NewSecrets(cs.CoreV1().Secrets("default"))
	} else {
		d = driver.NewConfigMaps(cs.CoreV1().ConfigMaps("default"))
	}
	st := storage.Init(d)
	for _, op := range s.Ops {
		var out c20SOut
		var rels []*rspb.Release
		var err error
		func() {
			defer func() {
				if p := recover(); p != nil {
					out.Class, out.Panic = "panic", fmt.Sprint(p)
				}
			}()
			one := func(r *rspb.Release, e error) {
				err = e
				if e == nil {
					rels = []*rspb.Release{r}
				}
			}
			switch op.Op {
			case "get":
				one(d.Get(op.Key))
			case "list":
				rels, err = d.List(func(*rspb.Release) bool { return true })
			case "query":
				rels, err = d.Query(op.Query)
			case "listdeployed":
				rels, err = st.ListDeployed()
			case "listuninstalled":
				rels, err = st.ListUninstalled()
			case "deployed":
				one(st.Deployed(op.Name))
			case "last":
				one(st.Last(op.Name))
			case "history":
				rels, err = st.History(op.Name)
			}
		}()
		if out.Class == "" {
			if err != nil {
				out.Class = "err"
			} else {
				out.Class = "ok"
				for _, r := range rels {
					if r == nil {
						out.Class, out.Panic = "panic", "nil release returned without an error"
						break
					}
					out.Rels = append(out.Rels, c20NV{r.Name, r.Version})
				}
				sort.Slice(out.Rels, func(i, j int) bool {
					if out.Rels[i].Name != out.Rels[j].Name {
						return out.Rels[i].Name < out.Rels[j].Name
					}
					return out.Rels[i].Ver < out.Rels[j].Ver
				})
			}
		}
		if out.Class == "panic" && obs.Class != "panic" {
			obs.Class, obs.Panic, obs.Where = "panic", out.Panic, s.Backend+" "+op.Op
		}
		obs.Storage = append(obs.Storage, out)
	}
	return obs
}

func c20SelMatch(sel, labels map[string]string) bool {
	for k, v := range sel {
		if lv, ok := labels[k]; !ok || lv != v {
			return false
		}
	}
	return true
}

// c20OracleStorage: the property text, evaluated on the observations without the model:
// List/Query return exactly the readable records among those selected; Get of an unreadable
// record is an error, of a readable one a result.
func c20OracleStorage(s *c20Storage, obs c20Obs) []hx.Violation {
	var vs []hx.Violation
	want := func(sel map[string]string, flt func(*rspb.Release) bool) []c20NV {
		var w []c20NV
		for _, r := range s.Recs {
			if !c20SelMatch(sel, r.Labels) {
				continue
			}
			if rel, ok := c20Decodable(r); ok && flt(rel) {
				w = append(w, c20NV{rel.Name, rel.Version})
			}
		}
		sort.Slice(w, func(i, j int) bool {
			if w[i].Name != w[j].Name {
				return w[i].Name < w[j].Name
			}
			return w[i].Ver < w[j].Ver
		})
		return w
	}
	same := func(a, b []c20NV) bool {
		if len(a) != len(b) {
			return false
		}
		for i := range a {
			if a[i] != b[i] {
				return false
			}
		}
		return true
	}
	all := func(*rspb.Release) bool { return true }
	for i, op := range s.Ops {
		if i >= len(obs.Storage) || obs.Storage[i].Class == "panic" {
			continue
		}
		got := obs.Storage[i]
		bad := func(sig, what string) {
			vs = append(vs, hx.Violation{Sig: "C20:storage-" + sig, What: fmt.Sprintf("%s %s: %s", s.Backend, op.Op, what)})
		}
		switch op.Op {
		case "list":
			if got.Class != "ok" || !same(got.Rels, want(map[string]string{"owner": "helm"}, all)) {
				bad("list-skip", "List did not return exactly the readable records (an unreadable record must be skipped, the others returned)")
			}
		case "listdeployed", "listuninstalled":
			st := map[string]string{"listdeployed": "deployed", "listuninstalled": "uninstalled"}[op.Op]
			if got.Class != "ok" || !same(got.Rels, want(map[string]string{"owner": "helm"}, func(r *rspb.Release) bool { return r.Info != nil && string(r.Info.Status) == st })) {
				bad("list-status", "status list did not return exactly the readable records with that status")
			}
		case "query", "history":
			sel := op.Query
			if op.Op == "history" {
				sel = map[string]string{"name": op.Name, "owner": "helm"}
			}
			valid := true
			for _, v := range sel {
				if strings.Contains(v, " ") {
					valid = false
				}
			}
			nsel := 0
			for _, r := range s.Recs {
				if c20SelMatch(sel, r.Labels) {
					nsel++
				}
			}
			if !valid || nsel == 0 {
				if got.Class != "err" {
					bad("query-empty", "query with an invalid label value or no selected object did not return an error")
				}
			} else if got.Class != "ok" || !same(got.Rels, want(sel, all)) {
				bad("query-skip", "Query did not return exactly the readable records among the selected objects")
			}
		case "get":
			var rec *c20Rec
			for k := range s.Recs {
				if s.Recs[k].ObjName == op.Key {
					rec = &s.Recs[k]
				}
			}
			if rec == nil {
				if got.Class != "err" {
					bad("get-missing", "Get of a missing key did not fail")
				}
			} else if rel, ok := c20Decodable(*rec); !ok {
				if got.Class != "err" {
					bad("get-unreadable", "Get of an unreadable record did not return an error")
				}
			} else if got.Class != "ok" || len(got.Rels) != 1 || got.Rels[0] != (c20NV{rel.Name, rel.Version}) {
				bad("get-readable", "Get of a readable record did not return it")
			}
		}
	}
	return vs
}

func c20CoqLabels(m map[string]string) string {
	keys := make([]string, 0, len(m))
	for k := range m {
		keys = append(keys, k)
	}
	sort.Strings(keys)
	return hx.CoqStrMap(keys, m)
}

func c20CoqStorage(s *c20Storage, obs c20Obs) string {
	var recs, ops, outs []string
	for _, r := range s.Recs {
		body := "None"
		if rel, ok := c20Decodable(r); ok {
			st := "None"
			if rel.Info != nil {
				st = "(Some " + hx.CoqStr(string(rel.Info.Status)) + ")"
			}
			body = fmt.Sprintf("(Some (mkSrel %s %s %s []))", hx.CoqStr(rel.Name), hx.CoqZ(int64(rel.Version)), st)
		}
		_, present, nilData := c20Body(r)
		data := "None"
		if !nilData {
			data = `(Some [("other", None)`
			if present {
				data += `; ("release", ` + body + `)`
			}
			data += "])"
		}
		recs = append(recs, fmt.Sprintf("mkSobj %s %s %s", hx.CoqStr(r.ObjName), c20CoqLabels(r.Labels), data))
	}
	for _, op := range s.Ops {
		switch op.Op {
		case "get":
			ops = append(ops, "SGet "+hx.CoqStr(op.Key))
		case "list":
			ops = append(ops, "SList")
		case "query":
			ops = append(ops, "SQuery "+c20CoqLabels(op.Query))
		case "listdeployed":
			ops = append(ops, "SListDeployed")
		case "listuninstalled":
			ops = append(ops, "SListUninstalled")
		case "deployed":
			ops = append(ops, "SDeployed "+hx.CoqStr(op.Name))
		case "last":
			ops = append(ops, "SLast "+hx.CoqStr(op.Name))
		case "history":
			ops = append(ops, "SHistory "+hx.CoqStr(op.Name))
		}
	}
	for _, o := range obs.Storage {
		var rs []string
		for _, nv := range o.Rels {
			rs = append(rs, hx.CoqPair(hx.CoqStr(nv.Name), hx.CoqZ(int64(nv.Ver))))
		}
		outs = append(outs, fmt.Sprintf("mkSobs %s %s", c20Cls(o.Class), hx.CoqList(rs)))
	}
	return fmt.Sprintf("CStorage %s %s %s", hx.CoqList(recs), hx.CoqList(ops), hx.CoqList(outs))
}

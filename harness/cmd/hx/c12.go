package main

// C12 — hooks run in weight order, gate the operation, and honour delete policies.
// Histories of real install/upgrade/rollback/uninstall whose charts carry hook sets; every
// hook run can be made to fail (stub waiter scripted by eng.HFault, or a rejected POST/DELETE
// of the hook resource).  Observed: the eng trace (kube.Interface calls with effective
// mutations, hook watches, storage writes) plus the raw, ordered request log of the simulated
// API server per operation.  The trace/ledger/objects are compared with Engine/Seq.v; the
// property clauses are evaluated directly on the request log by c12_oracle.go.

import (
	"encoding/json"
	"fmt"
	"math/rand"

	"verif/harness/internal/eng"
	"verif/harness/internal/hx"
)

func init() { hx.Register("c12", func() hx.Property { return &c12{} }) }

type c12 struct{}

const c12Import = "From Helm Require Import Common.Strs Engine.Types Engine.Eff Engine.Ops Engine.Cluster Engine.Seq Run.RunC12."

func (*c12) ID() string        { return "C12" }
func (*c12) CoqImport() string { return c12Import }

func (*c12) Rule() string {
	return "histories of 1-4 real operations (install first 7/8, then install/upgrade/rollback/uninstall) whose charts carry 0-4 hooks: " +
		"kinds ConfigMap (mostly) / Secret / ServiceAccount / Pod / Job, names from a 4-name pool (same name under two kinds and the same key twice occur), " +
		"weights -2..2 (ties frequent), 1-3 events per hook biased to the events of the operations in the history, an event repeated in one " +
		"annotation 1/8, every subset of the three delete policies; half of the charts spell their hook metadata as raw ANNOTATION STRINGS: the " +
		"weight from one of six palettes (zero padded 01..10/007/010/08/09, 0x/0o/0b prefixes and underscores, white space and signs, empty / " +
		"not integers, int64 and int32 boundaries, mostly plain) or no weight annotation (1/12), event and policy names in upper case / capitalised / " +
		"with surrounding blanks, tabs, newlines and ', ' separators, test-success, an unknown policy token 1/8 (hooks whose delete-policy annotation " +
		"has unknown tokens only get the event test), an unknown event name 1/20 (document dropped), an output-log policy 1/4 (3/4 for Pod / Job); flags no-hooks 1/8, atomic 1/8, cleanup-on-fail 1/6, keep-history 1/2; " +
		"per operation one of: no fault (45%), the n-th (0/1) watch of one hook fails (33%), POST of a hook resource rejected (8%), DELETE of a " +
		"hook resource rejected (4%), a non-hook failure (10%: readiness wait fails / CREATE of a manifest resource rejected; always drawn for half of the " +
		"atomic operations, so that the automatic uninstall / rollback runs with hooks enabled and disabled); non-trivial = some operation issued at least 2 hook creations or had a failing hook; distinct = hash of (case, observation)"
}

func (*c12) Decode(raw json.RawMessage) (any, error) {
	var h eng.History
	err := json.Unmarshal(raw, &h)
	return h, err
}

func (*c12) Execute(ci any) any { return c12Execute(ci.(eng.History)) }

// CoqCase: the model gets the hook DOCUMENTS (annotation strings) in Helm's order and computes events, weight
// and delete policies itself (Engine/HookMeta.v), so that whatever Helm loses or misreads in parsing shows as a
// correspondence mismatch; the hooks Helm parsed are compared with the model's reading in the same case
func (*c12) CoqCase(ci, oi any) string {
	return c12CoqCase(ci.(eng.History), oi.(c12Obs).Obs)
}

// the probe of DESIGN.md: hb(-1), hd(0), ha(5), hz(5) with mixed policies
func probeHooks(ev ...string) []eng.Hook {
	return []eng.Hook{
		hk("hz", 5, ev, "hook-failed"),
		hk("ha", 5, ev, "hook-succeeded"),
		hk("hd", 0, ev),
		hk("hb", -1, ev, "hook-succeeded", "before-hook-creation"),
	}
}

func (*c12) Corpus() []any {
	var out []any
	all := []string{"pre-install", "post-install", "pre-upgrade", "post-upgrade", "pre-rollback", "post-rollback", "pre-delete", "post-delete"}
	inst := c12Op("install", 1, eng.Flags{}, probeHooks("pre-install", "post-install"), "a", "b")
	// 1. the probe, all hooks succeed; then each hook failing in turn in the pre phase (Nth 0) and post phase (Nth 1)
	out = append(out, hist(inst))
	for _, n := range []string{"hb", "hd", "ha", "hz"} {
		out = append(out, hist(withH(inst, n, 0)), hist(withH(inst, n, 1)))
	}
	// 2. full life cycle with hooks on every event, then the same with a failing hook at every operation
	life := func(f func(i int, op *eng.Op) *eng.Op) eng.History {
		ops := []*eng.Op{
			c12Op("install", 1, eng.Flags{}, probeHooks(all...), "a", "b"),
			c12Op("upgrade", 2, eng.Flags{}, probeHooks(all...), "a", "c"),
			c12Op("rollback", 0, eng.Flags{}, nil),
			c12Op("uninstall", 0, eng.Flags{KeepHistory: true}, nil),
		}
		for i := range ops {
			ops[i] = f(i, ops[i])
		}
		return hist(ops...)
	}
	out = append(out, life(func(_ int, op *eng.Op) *eng.Op { return op }))
	for k := 0; k < 4; k++ {
		for _, nth := range []int{0, 1} {
			kk, nn := k, nth
			out = append(out, life(func(i int, op *eng.Op) *eng.Op {
				if i == kk {
					return withH(op, "ha", nn)
				}
				return op
			}))
		}
	}
	// 3. observation: an event named twice in one annotation selects the hook twice
	dup := []eng.Hook{hk("hd", 0, []string{"pre-install", "pre-install"}), hk("he", 1, []string{"pre-install"}, "hook-succeeded")}
	out = append(out, hist(c12Op("install", 1, eng.Flags{}, dup, "a")))
	//    ... and without before-hook-creation the second creation is refused (409): the hook fails
	dup2 := []eng.Hook{hk("hd", 0, []string{"pre-install", "pre-install"}, "hook-failed")}
	out = append(out, hist(c12Op("install", 1, eng.Flags{}, dup2, "a")))
	// 4. creation of a hook rejected after an earlier hook with hook-succeeded completed
	two := []eng.Hook{hk("h1", 0, []string{"pre-install"}, "hook-succeeded"), hk("h2", 1, []string{"pre-install"}, "hook-failed")}
	out = append(out, hist(withK(c12Op("install", 1, eng.Flags{}, two, "a"), "create", "ConfigMap/h2")))
	// 5. hooks disabled; atomic install / upgrade with a failing pre hook
	out = append(out, hist(c12Op("install", 1, eng.Flags{NoHooks: true}, probeHooks(all...), "a")))
	out = append(out, hist(withH(c12Op("install", 1, eng.Flags{Atomic: true}, probeHooks(all...), "a"), "hd", 0)))
	out = append(out, hist(c12Op("install", 1, eng.Flags{}, probeHooks(all...), "a"),
		withH(c12Op("upgrade", 2, eng.Flags{Atomic: true}, probeHooks(all...), "a", "b"), "hd", 0)))
	// 5b. hooks disabled cover the WHOLE operation, the automatic recovery included: an atomic upgrade / install with
	//     no-hooks that fails for a non-hook reason (wait failure, rejected request) on a release whose revisions carry
	//     rollback / delete hooks — the automatic rollback / uninstall must not touch a hook either
	wf := func(op *eng.Op) *eng.Op { o := *op; o.WaitFail = true; return &o }
	recHooks := []eng.Hook{
		hk("hr", 0, []string{"pre-rollback", "post-rollback", "pre-delete", "post-delete"}),
		hk("hs", 1, []string{"pre-rollback", "post-delete", "pre-upgrade", "post-upgrade", "pre-install"}, "hook-succeeded"),
	}
	for _, first := range []eng.Flags{{}, {NoHooks: true}} {
		out = append(out, hist(c12Op("install", 1, first, recHooks, "a"),
			wf(c12Op("upgrade", 2, eng.Flags{Atomic: true, NoHooks: true}, recHooks, "a", "b"))))
		out = append(out, hist(c12Op("install", 1, first, recHooks, "a"),
			withK(c12Op("upgrade", 2, eng.Flags{Atomic: true, NoHooks: true}, recHooks, "a", "b"), "create", "ConfigMap/b")))
	}
	out = append(out, hist(wf(c12Op("install", 1, eng.Flags{Atomic: true, NoHooks: true}, recHooks, "a"))))
	out = append(out, hist(withK(c12Op("install", 1, eng.Flags{Atomic: true, NoHooks: true}, recHooks, "a", "b"), "create", "ConfigMap/b")))
	//     ... and with hooks enabled the recovery does run them (the model must agree on both)
	out = append(out, hist(c12Op("install", 1, eng.Flags{}, recHooks, "a"),
		wf(c12Op("upgrade", 2, eng.Flags{Atomic: true}, recHooks, "a", "b"))))
	out = append(out, hist(wf(c12Op("install", 1, eng.Flags{Atomic: true}, recHooks, "a"))))
	// 5c. an explicit "before-hook-creation,hook-failed" (and the other orders / combinations that name
	//     before-hook-creation explicitly) on a hook that runs at install AND at upgrade: the resource left by
	//     the first run must be deleted before the second creation
	for _, pol := range [][]string{{"before-hook-creation", "hook-failed"}, {"hook-failed", "before-hook-creation"},
		{"before-hook-creation"}, {"before-hook-creation", "hook-succeeded", "hook-failed"}} {
		hp := []eng.Hook{hk("hp", 0, []string{"pre-install", "pre-upgrade", "post-upgrade"}, pol...)}
		out = append(out, hist(c12Op("install", 1, eng.Flags{}, hp, "a"), c12Op("upgrade", 2, eng.Flags{}, hp, "a")))
	}
	// 6. equal weight and name under two kinds: the kind-sorted input order decides (stable sort)
	st := []eng.Hook{
		{Res: cm("hx", "d:h", "1"), Events: []string{"pre-install"}, Weight: 1},
		{Res: eng.Res{Kind: "Secret", Name: "hx", Fields: map[string]string{"d:h": "YQ=="}}, Events: []string{"pre-install"}, Weight: 1},
		{Res: eng.Res{Kind: "ServiceAccount", Name: "hx", Fields: map[string]string{}}, Events: []string{"pre-install"}, Weight: 1},
		hk("ha", 1, []string{"pre-install"}),
	}
	out = append(out, hist(c12Op("install", 1, eng.Flags{}, st, "a")))
	out = append(out, c12MetaCorpus()...)
	out = append(out, c12TestCorpus()...)
	return out
}

// c12TestCorpus (section 8): helm test between the operations.  The release has two test hooks and pre-/post-delete,
// pre-/post-rollback and pre-/post-upgrade hooks; helm test runs with an include filter, an exclude filter, both, none, and
// with a failing test; afterwards uninstall, and upgrade + rollback, must still run every lifecycle hook the chart
// declares (the record helm test stores must keep the hooks the filter set aside).  Secret and ConfigMap backends
// serialise the record; the memory backend aliases it.
func c12TestCorpus() []any {
	var out []any
	hooks := []eng.Hook{
		hk("ht1", 1, []string{"test"}), hk("ht2", 2, []string{"test"}, "hook-succeeded"),
		hk("hpre", 0, []string{"pre-delete", "pre-rollback", "pre-upgrade"}, "hook-succeeded"),
		hk("hpost", 0, []string{"post-delete", "post-rollback", "post-upgrade"}),
		hk("hboth", -1, []string{"pre-delete", "post-delete", "test"}, "before-hook-creation", "hook-failed"),
	}
	test := func(incl, excl []string) *eng.Op {
		return &eng.Op{Kind: "test", TestInclude: incl, TestExclude: excl}
	}
	tests := []*eng.Op{
		test([]string{"ht1"}, nil), test(nil, []string{"ht2"}), test(nil, nil), test([]string{"ht1", "ht2"}, []string{"ht2"}),
		test([]string{"hnone"}, nil), withH(test([]string{"ht1"}, nil), "ht1", 0), withH(test(nil, nil), "ht2", 0),
		withH(test(nil, []string{"hboth"}), "ht2", 0),
	}
	for _, be := range []string{"secret", "configmap", "memory"} {
		for k, t := range tests {
			if be != "secret" && k > 1 {
				continue
			}
			h1 := hist(c12Op("install", 1, eng.Flags{}, hooks, "a"), t, c12Op("uninstall", 0, eng.Flags{KeepHistory: k%2 == 0}, nil))
			h2 := hist(c12Op("install", 1, eng.Flags{}, hooks, "a"), t, c12Op("upgrade", 2, eng.Flags{}, hooks, "a", "b"), c12Op("rollback", 0, eng.Flags{}, nil))
			h1.Backend, h2.Backend = be, be
			out = append(out, h1, h2)
		}
	}
	// two tests in a row, the second without filter runs what the first set aside; test of an uninstalled (kept) release;
	// test without a release
	out = append(out, hist(c12Op("install", 1, eng.Flags{}, hooks, "a"), test([]string{"ht2"}, nil), test(nil, nil), c12Op("uninstall", 0, eng.Flags{}, nil)))
	out = append(out, hist(c12Op("install", 1, eng.Flags{}, hooks, "a"), c12Op("uninstall", 0, eng.Flags{KeepHistory: true}, nil), test(nil, nil)))
	out = append(out, hist(test(nil, nil)))
	// K10 witness: the final Releases.Update of a filtered helm test fails (storage write #1; #0 is the record execHook
	// writes, with the reduced hook list, before creating the test hook): the stored revision keeps only the selected hook
	one := 1
	k10 := []eng.Hook{hk("ht", 0, []string{"test"}), hk("hpre", 0, []string{"pre-delete"})}
	tf := test([]string{"ht"}, nil)
	tf.WFail = &one
	out = append(out, hist(c12Op("install", 1, eng.Flags{}, k10, "a"), tf, c12Op("uninstall", 0, eng.Flags{}, nil)))
	// raw annotation strings: test-success, zero-padded weights, same name under two kinds (the stored order changes:
	// skipped hooks come first)
	raw := []eng.Hook{rawHk("ht1", "test-success", "w", "02"), rawHk("ht2", " Test", "w", "010", "d", "hook-succeeded"),
		rawHk("hx", "pre-delete,test", "w", "1"), rawHookOf(eng.Res{Kind: "Secret", Name: "hx", Fields: map[string]string{"d:h": "YQ=="}}, "pre-delete,test", "w", "1"),
		rawHk("hpost", "post-delete", "w", "08")}
	out = append(out, hist(c12Op("install", 1, eng.Flags{}, raw, "a"), test([]string{"ht1", "hx"}, nil), c12Op("uninstall", 0, eng.Flags{}, nil)))
	out = append(out, hist(c12Op("install", 1, eng.Flags{}, raw, "a"), test(nil, []string{"ht1"}), c12Op("uninstall", 0, eng.Flags{}, nil)))
	return out
}

// c12MetaCorpus (section 7): hook metadata given as annotation STRINGS.  Each weight set puts hooks on one event whose
// order under the decimal reading of strconv.Atoi (anything else = 0) differs from other plausible readings
// (base-0 literal prefixes, octal for a leading zero, trimmed white space, underscores, 32 bits).
func c12MetaCorpus() []any {
	var out []any
	both := "pre-install,post-install"
	set := func(ws ...string) []eng.Hook {
		var hs []eng.Hook
		for i, w := range ws {
			hs = append(hs, rawHk("h"+string(rune('a'+i)), both, "w", w))
		}
		return hs
	}
	for _, hs := range [][]eng.Hook{
		set("10", "09", "08", "02", "01"),                   // zero padded: 1 2 8 9 10 (octal reading: 08, 09 invalid)
		set("010", "9"),                                     // 9 before 10 (octal: 8 before 9)
		set("007", "010", "08", "09", "6"),                  //
		set("0x10", "5"), set("0o7", "3"), set("0b11", "2"), // not decimal = 0, first
		set("1_0", "5"), set("5", " 7", "6 ", "\t8", "3\n", "-1"), // underscores, white space: 0
		set("+5", "4", "-0", "-08", "-3", "+-2", "--9", "-", "+"), // signs
		set("", "abc", "1e3", "1.5", "-1", "1"),                   // empty and non-numeric = 0
		set("9223372036854775807", "9223372036854775808", "-9223372036854775808", "-9223372036854775809", "1", "-1"),
		set("2147483648", "-2147483649", "4294967296", "99999999999999999999", "000000000000000000000000000007", "5", "-5"),
	} {
		out = append(out, hist(c12Op("install", 1, eng.Flags{}, hs, "a")))
	}
	// no weight annotation at all = 0, between -1 and 1
	out = append(out, hist(c12Op("install", 1, eng.Flags{}, []eng.Hook{rawHk("ha", both, "w", "1"), rawHk("hb", both), rawHk("hc", both, "w", "-1")}, "a")))
	// zero-padded weights through a whole life cycle (stored and read back by rollback / uninstall), a hook failing at each operation
	all := "pre-install,post-install,pre-upgrade,post-upgrade,pre-rollback,post-rollback,pre-delete,post-delete"
	pad := []eng.Hook{rawHk("ha", all, "w", "09", "d", "hook-succeeded"), rawHk("hb", all, "w", "010", "d", "hook-failed"),
		rawHk("hc", all, "w", "08"), rawHk("hd", all, "w", "1", "d", "before-hook-creation,hook-succeeded")}
	for k := -1; k < 4; k++ {
		ops := []*eng.Op{c12Op("install", 1, eng.Flags{}, pad, "a"), c12Op("upgrade", 2, eng.Flags{}, pad, "a", "b"),
			c12Op("rollback", 0, eng.Flags{}, nil), c12Op("uninstall", 0, eng.Flags{KeepHistory: true}, nil)}
		if k >= 0 {
			ops[k] = withH(ops[k], "hb", k%2)
		}
		out = append(out, hist(ops...))
	}
	// events and delete policies spelled with white space and capitals; "test-success"; an event named twice
	out = append(out, hist(c12Op("install", 1, eng.Flags{}, []eng.Hook{
		rawHk("ha", " Pre-Install , POST-INSTALL", "w", "2", "d", "Hook-Succeeded, before-hook-creation "),
		rawHk("hb", "pre-install\t,\npost-install", "w", "1", "d", " HOOK-FAILED"),
		rawHk("hc", "PRE-INSTALL,pre-install", "w", "3", "d", "hook-succeeded ,hook-failed"),
		rawHk("hd", "test-success, Test", "w", "0"),
	}, "a"), withH(c12Op("upgrade", 2, eng.Flags{}, []eng.Hook{
		rawHk("ha", "PRE-UPGRADE", "w", "02", "d", "HOOK-SUCCEEDED"),
		rawHk("hb", " pre-upgrade", "w", "01", "d", "hook-failed , Hook-Succeeded"),
	}, "a"), "ha", 0)))
	// one unknown event name drops the whole document (it is neither a hook nor part of the manifest)
	out = append(out, hist(c12Op("install", 1, eng.Flags{}, []eng.Hook{
		rawHk("ha", "pre-install,bogus", "w", "1"), rawHk("hb", "pre-install,", "w", "2"), rawHk("hc", "", "w", "3"),
		rawHk("hd", "pre-install", "w", "4"), rawHk("he", "pre-install,,post-install"), rawHk("hd", "pre-instal", "w", "0"),
	}, "a")))
	// unknown delete-policy tokens are stored with the known ones; with a known one beside them nothing changes
	out = append(out, hist(c12Op("install", 1, eng.Flags{}, []eng.Hook{
		rawHk("ha", both, "w", "1", "d", "foo,hook-succeeded"), rawHk("hb", both, "w", "2", "d", "hook-failed,,bar"),
		rawHk("hc", "test", "d", ""), rawHk("hd", "test", "d", "hook-succeded"),
	}, "a"), c12Op("upgrade", 2, eng.Flags{}, []eng.Hook{rawHk("ha", "pre-upgrade", "d", "foo,hook-succeeded")}, "a")))
	// output-log policies (ConfigMap hooks: parsed and stored, nothing fetched)
	out = append(out, hist(c12Op("install", 1, eng.Flags{}, []eng.Hook{
		rawHk("ha", both, "l", "hook-succeeded"), rawHk("hb", both, "l", " Hook-Failed,hook-succeeded "), rawHk("hc", both, "l", "nonsense,"),
	}, "a")))
	// Job / Pod hooks: outputLogsByPolicy fetches the logs of the hook's pods (GetPodList by job-name label / pod name
	// field, then OutputContainerLogsForPodList) after the hook's own failure iff hook-failed is listed, and for every
	// hook of the event, last to first, once all of them succeeded iff hook-succeeded is listed
	pj := func(kind, name, w, l string, more ...string) eng.Hook {
		kv := append([]string{"w", w}, more...)
		if l != "-" {
			kv = append(kv, "l", l)
		}
		return rawHookOf(eng.Res{Kind: kind, Name: name, Fields: map[string]string{"l:h": name}}, both, kv...)
	}
	logHooks := []eng.Hook{pj("Job", "hj", "1", "hook-succeeded,hook-failed"), pj("Pod", "hp", "2", " Hook-Failed"),
		pj("Pod", "hq", "03", "hook-succeeded", "d", "hook-succeeded"), pj("Job", "hk", "4", "-"), pj("ConfigMap", "hc", "5", "hook-succeeded,hook-failed"),
		pj("Job", "hl", "06", "HOOK-SUCCEEDED ,bar", "d", "hook-failed,before-hook-creation")}
	out = append(out, hist(c12Op("install", 1, eng.Flags{}, logHooks, "a")))
	for _, n := range []string{"hj", "hp", "hq", "hk", "hl"} {
		out = append(out, hist(withH(c12Op("install", 1, eng.Flags{}, logHooks, "a"), n, 0)), hist(withH(c12Op("install", 1, eng.Flags{}, logHooks, "a"), n, 1)))
	}
	out = append(out, hist(c12Op("install", 1, eng.Flags{}, logHooks, "a"), withH(c12Op("upgrade", 2, eng.Flags{}, logHooks, "a", "b"), "hp", 1)))
	return out
}

func (*c12) Exhaustive(tier string) []any {
	if tier != "thorough" {
		return nil
	}
	return c12Exhaustive()
}

func (*c12) Generate(r *rand.Rand, _ int) any { return c12Gen(r) }

func (*c12) Class(ci, oi any) string {
	h, o := ci.(eng.History), oi.(c12Obs)
	fault := "nofault"
	flags := ""
	for i, s := range h.Steps {
		if s.Op == nil {
			continue
		}
		if s.Op.HFault != nil || s.Op.KFault != nil {
			fault = "fault-set"
			if i < len(o.Steps) && c12HookFailed(s.Op, o, i) {
				fault = "hook-failed"
			}
		}
		if s.Op.Flags.Atomic {
			flags = "/atomic"
		}
	}
	return fmt.Sprintf("len%d/%s%s/w:%s", len(h.Steps), fault, flags, c12Families(h))
}

// c12HookFailed: the operation saw a failing hook (a refused hook POST or the scripted watch failure consumed).
func c12HookFailed(op *eng.Op, o c12Obs, i int) bool {
	if i >= len(o.Reqs) {
		return false
	}
	for _, q := range o.Reqs[i] {
		if q.Method == "POST" && q.Code != 201 && isHookKeyName(q.Key) {
			return true
		}
	}
	// a watch failure shows as a hookwatch that is not followed by further progress and an error outcome
	return op.HFault != nil && o.Steps[i].Outcome != "ok" && countCalls(o.Steps[i].Trace, "hookwatch") > 0
}

func (*c12) NonTrivial(ci, oi any) bool {
	h, o := ci.(eng.History), oi.(c12Obs)
	for i, s := range h.Steps {
		if s.Op == nil || i >= len(o.Reqs) {
			continue
		}
		posts := 0
		for _, q := range o.Reqs[i] {
			if q.Method == "POST" && isHookKeyName(q.Key) {
				posts++
			}
		}
		if posts >= 2 || c12HookFailed(s.Op, o, i) {
			return true
		}
	}
	return false
}

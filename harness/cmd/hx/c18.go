package main

// C18 — version queries return the best matching chart from a well-formed index.
// Index files (YAML or JSON text written here) with arbitrary version sets in arbitrary
// order are loaded with the real repo.LoadIndexFile; IndexFile.Get,
// registry.GetTagMatchingVersionOrConstraint and resolver.Resolve (through the hook
// downloader.VerifResolve) are run on them.  Observations go to Misc/Semver.v and
// Misc/Index.v through Run/RunC18.v.  Constraint validity/satisfaction as computed by the real
// Masterminds/semver library is printed (tables for the queries, bit strings for the generated
// constraint/version pairs) and compared in Coq with the model Misc/Constraint.v, which is also
// what the query models are evaluated with.  (Generators and corpus: c18_gen.go, c18_cgen.go.)

import (
	"encoding/json"
	"errors"
	"fmt"
	"io"
	"log/slog"
	"os"
	"path/filepath"
	"sort"
	"strings"

	"github.com/Masterminds/semver/v3"

	chart "helm.sh/helm/v4/pkg/chart/v2"
	"helm.sh/helm/v4/pkg/downloader"
	"helm.sh/helm/v4/pkg/registry"
	"helm.sh/helm/v4/pkg/repo"

	"verif/harness/internal/hx"
)

func init() {
	hx.Register("c18", func() hx.Property {
		// loadIndex warns about every entry it skips; thousands of skipped entries are generated
		slog.SetDefault(slog.New(slog.NewTextHandler(io.Discard, nil)))
		return &c18{}
	})
}

type c18 struct{}

// ---- case ----

type c18Entry struct {
	Null    bool     `json:"null,omitempty"`
	NoMeta  bool     `json:"nometa,omitempty"`
	Name    string   `json:"name"`
	Version string   `json:"version"`
	API     string   `json:"api"`
	Type    string   `json:"type"`
	URLs    []string `json:"urls"`
	Digest  string   `json:"digest"`
}

type c18Chart struct {
	Key     string     `json:"key"`
	Entries []c18Entry `json:"entries"`
}

type c18File struct {
	Mode   string     `json:"mode"` // yaml json empty bad
	API    string     `json:"api"`
	Charts []c18Chart `json:"charts"` // unique keys, sorted
	Bad    string     `json:"bad,omitempty"`
}

type c18Get struct {
	Name    string `json:"name"`
	Version string `json:"version"`
}

type c18TagQ struct {
	Tags    []string `json:"tags"`
	Version string   `json:"version"`
	Sorted  bool     `json:"sorted"` // the parsable tags are in descending order
}

type c18Dep struct {
	Name       string `json:"name"`
	Constraint string `json:"constraint"`
}

// a constraint string and the version strings it is checked against (nil: the case's CVers)
type c18CPair struct {
	Constraint string   `json:"c"`
	Versions   []string `json:"vs,omitempty"`
}

type c18Case struct {
	File   c18File     `json:"file"`
	Gets   []c18Get    `json:"gets"`
	Tags   []c18TagQ   `json:"tags"`
	Res    [][]c18Dep  `json:"res"`
	Cmps   [][2]string `json:"cmps"`
	CVers  []string    `json:"cvers,omitempty"`  // shared version list of the enumerated constraints
	CPairs []c18CPair  `json:"cpairs,omitempty"` // constraint language: NewConstraint / Check vs the model
	OCI    []c18OCI    `json:"oci,omitempty"`    // paged OCI tag listings and version queries (c18_oci.go)
}

// ---- observation ----

type c18OEntry struct {
	Name    string   `json:"name"`
	Version string   `json:"version"`
	API     string   `json:"api"`
	Type    string   `json:"type"`
	URLs    []string `json:"urls"`
	Digest  string   `json:"digest"`
}

type c18OChart struct {
	Key     string      `json:"key"`
	Entries []c18OEntry `json:"entries"`
}

type c18OGet struct {
	Kind  string     `json:"kind"` // ok noname noversion err panic
	Entry *c18OEntry `json:"entry,omitempty"`
}

type c18OTag struct {
	Kind string `json:"kind"` // ok err panic
	Tag  string `json:"tag,omitempty"`
}

type c18ORes struct {
	Kind     string   `json:"kind"` // ok err panic
	Versions []string `json:"versions,omitempty"`
}

type c18OVer struct {
	S     string   `json:"s"`
	Valid bool     `json:"valid"`
	Major uint64   `json:"major,omitempty"`
	Minor uint64   `json:"minor,omitempty"`
	Patch uint64   `json:"patch,omitempty"`
	Pre   []string `json:"pre,omitempty"`
	Meta  string   `json:"meta,omitempty"`
}

type c18OCmp struct {
	A   c18OVer `json:"a"`
	B   c18OVer `json:"b"`
	Cmp *int    `json:"cmp,omitempty"`
}

// NewConstraint(c) succeeded, and Check per version: '1' / '0', '-' for an unparsable version
type c18OCPair struct {
	Valid bool   `json:"valid"`
	Bits  string `json:"bits,omitempty"`
}

type c18Obs struct {
	LoadKind string                     `json:"load"` // ok empty noapi err panic
	Idx      []c18OChart                `json:"idx,omitempty"`
	Gets     []c18OGet                  `json:"gets,omitempty"`
	Tags     []c18OTag                  `json:"tags,omitempty"`
	Res      []c18ORes                  `json:"res,omitempty"`
	Cmps     []c18OCmp                  `json:"cmps,omitempty"`
	CValid   map[string]bool            `json:"cvalid"`
	Sat      map[string]map[string]bool `json:"sat"`
	CPairs   []c18OCPair                `json:"cpairs,omitempty"`
	OCI      []c18OOCI                  `json:"oci,omitempty"`
	Panic    string                     `json:"panic,omitempty"`
}

func (*c18) ID() string        { return "C18" }
func (*c18) CoqImport() string { return "From Helm Require Import Misc.Semver Misc.Index Run.RunC18." }
func (*c18) Rule() string {
	return "index files (YAML or JSON text; 1-3 chart names x 0-9 entries in random order: releases, pre-releases " +
		"(alpha.1 < alpha.beta < beta.2 < beta.11 < rc.1, numeric identifiers beyond uint64), build metadata, leading v, " +
		"short forms, zero-padded segments, invalid strings, null entries, entries without metadata/name/URLs, bad names/types, " +
		"duplicated and equal-precedence versions) x Get queries (empty version, exact strings, same-precedence spellings, " +
		"^ ~ ranges wildcards hyphen ranges || with and without pre-release parts, invalid constraints) x tag lists x " +
		"dependency lists, plus pairs of version strings for parse/compare, plus 8 (constraint, 6-10 versions) pairs per case for " +
		"NewConstraint/Check vs the model (structured: all 12 operators, x/X/* wildcards, partial versions, hyphen ranges, pre-releases on " +
		"either side, white-space and separator variants, AND/OR combinations; 12% mutated strings, 10% from a list of 149 quirk strings; " +
		"versions near the constraint's numbers; the same generator feeds 25% of the Get/tag/Resolve constraints; shape distribution under " +
		"extra.constraint_language), plus one OCI tag listing per case served by an in-process registry stub in 1-4 pages " +
		"(0-12 tags in lexical order: semver tags with pre-releases and _metadata, odd tags such as latest, v1.2.3, 1.2.3-, 1.2.3-a..b) " +
		"with 3-5 version arguments for Client.Tags / ValidateReference / tag match / Resolve of an OCI dependency; " +
		"non-trivial = the index loaded, some chart kept " +
		">= 2 entries and at least one Get returned an entry; distinct = hash of (case, observation)"
}

func (*c18) Decode(raw json.RawMessage) (any, error) {
	var c c18Case
	err := json.Unmarshal(raw, &c)
	return c, err
}

// ---- writing the index file ----

func c18Q(s string) string { // a JSON string is a YAML double-quoted scalar
	b, _ := json.Marshal(s)
	return string(b)
}

func c18EntryMap(e c18Entry) map[string]interface{} {
	m := map[string]interface{}{"digest": e.Digest}
	if e.URLs != nil {
		m["urls"] = e.URLs
	}
	if !e.NoMeta {
		// keys with empty values are left out so that "no metadata at all" and "metadata with
		// empty fields" both occur: at least the name key is always written
		m["name"] = e.Name
		if e.Version != "" {
			m["version"] = e.Version
		}
		if e.API != "" {
			m["apiVersion"] = e.API
		}
		if e.Type != "" {
			m["type"] = e.Type
		}
	}
	return m
}

func c18FileText(f c18File) []byte {
	switch f.Mode {
	case "empty":
		return nil
	case "bad":
		return []byte(f.Bad)
	case "json":
		ents := map[string]interface{}{}
		for _, ch := range f.Charts {
			l := []interface{}{}
			for _, e := range ch.Entries {
				if e.Null {
					l = append(l, nil)
				} else {
					l = append(l, c18EntryMap(e))
				}
			}
			ents[ch.Key] = l
		}
		doc := map[string]interface{}{"entries": ents, "generated": "2020-01-01T00:00:00Z"}
		if f.API != "" {
			doc["apiVersion"] = f.API
		}
		b, _ := json.MarshalIndent(doc, "", " ")
		return b
	}
	var b strings.Builder
	if f.API != "" {
		fmt.Fprintf(&b, "apiVersion: %s\n", c18Q(f.API))
	}
	b.WriteString("generated: \"2020-01-01T00:00:00Z\"\n")
	if len(f.Charts) == 0 {
		b.WriteString("entries: {}\n")
		return []byte(b.String())
	}
	b.WriteString("entries:\n")
	for _, ch := range f.Charts {
		if len(ch.Entries) == 0 {
			fmt.Fprintf(&b, "  %s: []\n", c18Q(ch.Key))
			continue
		}
		fmt.Fprintf(&b, "  %s:\n", c18Q(ch.Key))
		for _, e := range ch.Entries {
			if e.Null {
				b.WriteString("  - null\n")
				continue
			}
			m := c18EntryMap(e)
			keys := make([]string, 0, len(m))
			for k := range m {
				keys = append(keys, k)
			}
			sort.Strings(keys)
			for i, k := range keys {
				v, _ := json.Marshal(m[k])
				pre := "    "
				if i == 0 {
					pre = "  - "
				}
				fmt.Fprintf(&b, "%s%s: %s\n", pre, k, v)
			}
		}
	}
	return []byte(b.String())
}

// ---- running the real code ----

func c18Back(cv *repo.ChartVersion) c18OEntry {
	o := c18OEntry{URLs: append([]string{}, cv.URLs...), Digest: cv.Digest}
	if cv.Metadata != nil {
		o.Name, o.Version, o.API, o.Type = cv.Name, cv.Version, cv.APIVersion, cv.Type
	} else {
		o.Name = "<nil metadata>"
	}
	return o
}

func c18ParseObs(s string) (c18OVer, *semver.Version) {
	v, err := semver.NewVersion(s)
	if err != nil {
		return c18OVer{S: s}, nil
	}
	o := c18OVer{S: s, Valid: true, Major: v.Major(), Minor: v.Minor(), Patch: v.Patch(), Meta: v.Metadata()}
	if v.Prerelease() != "" {
		o.Pre = strings.Split(v.Prerelease(), ".")
	}
	return o, v
}

func (*c18) Execute(ci any) (res any) {
	c := ci.(c18Case)
	obs := c18Obs{CValid: map[string]bool{}, Sat: map[string]map[string]bool{}}
	defer func() {
		if p := recover(); p != nil {
			obs.Panic = fmt.Sprint(p)
			res = obs
		}
	}()
	dir, err := os.MkdirTemp("", "c18-")
	if err != nil {
		panic(err)
	}
	defer os.RemoveAll(dir)
	path := filepath.Join(dir, "verifrepo-index.yaml")
	if err := os.WriteFile(path, c18FileText(c.File), 0o644); err != nil {
		panic(err)
	}

	// tables from the real library
	constraints := map[string]bool{"*": true}
	versions := map[string]bool{}
	for _, g := range c.Gets {
		if g.Version != "" {
			constraints[g.Version] = true
		}
	}
	for _, t := range c.Tags {
		if t.Version != "" {
			constraints[t.Version] = true
		}
		for _, s := range t.Tags {
			versions[s] = true
		}
	}
	for _, ds := range c.Res {
		for _, d := range ds {
			constraints[d.Constraint] = true
		}
	}
	for _, ch := range c.File.Charts {
		for _, e := range ch.Entries {
			if !e.Null && !e.NoMeta {
				versions[e.Version] = true
			}
		}
	}
	for cs := range constraints {
		k, err := semver.NewConstraint(cs)
		obs.CValid[cs] = err == nil
		if err != nil {
			continue
		}
		row := map[string]bool{}
		for vs := range versions {
			if v, err := semver.NewVersion(vs); err == nil {
				row[vs] = k.Check(v)
			}
		}
		obs.Sat[cs] = row
	}
	// the constraint language itself
	shared := make([]*semver.Version, len(c.CVers))
	for i, vs := range c.CVers {
		if v, err := semver.NewVersion(vs); err == nil {
			shared[i] = v
		}
	}
	for _, p := range c.CPairs {
		o := c18OCPair{}
		k, err := semver.NewConstraint(p.Constraint)
		if err == nil {
			o.Valid = true
			vers := shared
			if p.Versions != nil {
				vers = make([]*semver.Version, len(p.Versions))
				for i, vs := range p.Versions {
					if v, err := semver.NewVersion(vs); err == nil {
						vers[i] = v
					}
				}
			}
			b := make([]byte, len(vers))
			for i, v := range vers {
				switch {
				case v == nil:
					b[i] = '-'
				case k.Check(v):
					b[i] = '1'
				default:
					b[i] = '0'
				}
			}
			o.Bits = string(b)
		}
		obs.CPairs = append(obs.CPairs, o)
		c18CountShape(p.Constraint, o)
	}

	// load
	var idx *repo.IndexFile
	func() {
		defer func() {
			if p := recover(); p != nil {
				obs.LoadKind = "panic"
				obs.Panic = fmt.Sprint(p)
			}
		}()
		var err error
		idx, err = repo.LoadIndexFile(path)
		switch {
		case err == nil:
			obs.LoadKind = "ok"
		case errors.Is(err, repo.ErrEmptyIndexYaml):
			obs.LoadKind = "empty"
		case errors.Is(err, repo.ErrNoAPIVersion):
			obs.LoadKind = "noapi"
		default:
			obs.LoadKind = "err"
		}
	}()
	if obs.LoadKind == "ok" {
		keys := make([]string, 0, len(idx.Entries))
		for k := range idx.Entries {
			keys = append(keys, k)
		}
		sort.Strings(keys)
		for _, k := range keys {
			oc := c18OChart{Key: k, Entries: []c18OEntry{}}
			for _, cv := range idx.Entries[k] {
				if cv == nil {
					oc.Entries = append(oc.Entries, c18OEntry{Name: "<nil entry>"})
					continue
				}
				oc.Entries = append(oc.Entries, c18Back(cv))
			}
			obs.Idx = append(obs.Idx, oc)
		}
		for _, g := range c.Gets {
			og := c18OGet{}
			func() {
				defer func() {
					if p := recover(); p != nil {
						og = c18OGet{Kind: "panic"}
					}
				}()
				cv, err := idx.Get(g.Name, g.Version)
				switch {
				case err == nil && cv != nil:
					e := c18Back(cv)
					og = c18OGet{Kind: "ok", Entry: &e}
				case errors.Is(err, repo.ErrNoChartName):
					og.Kind = "noname"
				case errors.Is(err, repo.ErrNoChartVersion):
					og.Kind = "noversion"
				default:
					og.Kind = "err"
				}
			}()
			obs.Gets = append(obs.Gets, og)
		}
	}

	// tag matching
	for _, t := range c.Tags {
		ot := c18OTag{}
		func() {
			defer func() {
				if p := recover(); p != nil {
					ot = c18OTag{Kind: "panic"}
				}
			}()
			tag, err := registry.GetTagMatchingVersionOrConstraint(append([]string{}, t.Tags...), t.Version)
			if err != nil {
				ot.Kind = "err"
			} else {
				ot = c18OTag{Kind: "ok", Tag: tag}
			}
		}()
		obs.Tags = append(obs.Tags, ot)
	}

	// dependency resolution against the cached index <cache>/verifrepo-index.yaml
	for _, ds := range c.Res {
		or := c18ORes{}
		func() {
			defer func() {
				if p := recover(); p != nil {
					or = c18ORes{Kind: "panic"}
				}
			}()
			reqs := []*chart.Dependency{}
			names := map[string]string{}
			for _, d := range ds {
				reqs = append(reqs, &chart.Dependency{Name: d.Name, Version: d.Constraint, Repository: "http://example.com/charts"})
				names[d.Name] = "verifrepo"
			}
			lock, err := downloader.VerifResolve(filepath.Join(dir, "chart"), dir, reqs, names)
			if err != nil || lock == nil {
				or.Kind = "err"
				return
			}
			or = c18ORes{Kind: "ok", Versions: []string{}}
			for _, l := range lock.Dependencies {
				if l == nil {
					or.Versions = append(or.Versions, "<nil>")
				} else {
					or.Versions = append(or.Versions, l.Version)
				}
			}
		}()
		obs.Res = append(obs.Res, or)
	}

	// OCI tag listings through the registry stub
	for _, q := range c.OCI {
		obs.OCI = append(obs.OCI, c18RunOCI(q))
	}

	// parse / compare
	for _, p := range c.Cmps {
		a, va := c18ParseObs(p[0])
		b, vb := c18ParseObs(p[1])
		oc := c18OCmp{A: a, B: b}
		if va != nil && vb != nil {
			r := va.Compare(vb)
			oc.Cmp = &r
		}
		obs.Cmps = append(obs.Cmps, oc)
	}
	return obs
}

// ---- runtime oracle: the property text evaluated with the real semver library as arbiter,
// written without reference to the Coq model ----

// c18ValidRaw: "valid entry" = non-null, has metadata, and the chart metadata validator
// accepts it (after the documented apiVersion default).
func c18ValidRaw(e c18Entry) bool {
	if e.Null || e.NoMeta {
		return false
	}
	md := &chart.Metadata{Name: e.Name, Version: e.Version, APIVersion: e.API, Type: e.Type}
	if md.APIVersion == "" {
		md.APIVersion = chart.APIVersionV1
	}
	return md.Validate() == nil
}

func (*c18) Oracle(ci, oi any) []hx.Violation {
	c, obs := ci.(c18Case), oi.(c18Obs)
	var vs []hx.Violation
	bad := func(sig, what string) {
		vs = append(vs, hx.Violation{Sig: "C18:" + sig, What: what})
	}
	if obs.LoadKind == "panic" {
		bad("load-panic", "loading the index panicked: "+obs.Panic)
		return vs
	}
	if obs.Panic != "" {
		bad("panic", "panic: "+obs.Panic)
		return vs
	}
	wellFormed := (c.File.Mode == "yaml" || c.File.Mode == "json") && c.File.API != ""
	if wellFormed && obs.LoadKind != "ok" {
		bad("load-error", "a decodable index file with an apiVersion failed to load")
		return vs
	}
	if !wellFormed && obs.LoadKind == "ok" {
		bad("load-accepted", "an empty/undecodable/unversioned index file was accepted")
	}
	parse := func(s string) *semver.Version {
		v, err := semver.NewVersion(s)
		if err != nil {
			return nil
		}
		return v
	}
	idx := map[string][]c18OEntry{}
	if obs.LoadKind == "ok" {
		for _, oc := range obs.Idx {
			idx[oc.Key] = oc.Entries
		}
		// exactly the valid entries, newest first
		for _, ch := range c.File.Charts {
			want := map[string]int{}
			for _, e := range ch.Entries {
				if c18ValidRaw(e) {
					want[e.Digest]++
				}
			}
			got := map[string]int{}
			loaded, present := idx[ch.Key]
			if !present {
				bad("load-set", fmt.Sprintf("chart %q disappeared from the loaded index", ch.Key))
				continue
			}
			for _, e := range loaded {
				got[e.Digest]++
			}
			same := len(want) == len(got)
			for k, n := range want {
				if got[k] != n {
					same = false
				}
			}
			if !same {
				bad("load-set", fmt.Sprintf("chart %q: the loaded entries are not exactly the valid entries of the file (want %v, got %v)", ch.Key, want, got))
			}
			for i := 0; i+1 < len(loaded); i++ {
				a, b := parse(loaded[i].Version), parse(loaded[i+1].Version)
				if a == nil || b == nil {
					continue // reported by load-set
				}
				if a.LessThan(b) {
					bad("load-unsorted", fmt.Sprintf("chart %q: %q is listed before the newer %q", ch.Key, loaded[i].Version, loaded[i+1].Version))
					break
				}
			}
		}
		if len(obs.Idx) != len(c.File.Charts) {
			bad("load-set", "the loaded index has a different set of chart names")
		}
		// Get
		for i, g := range c.Gets {
			if i >= len(obs.Gets) {
				break
			}
			og := obs.Gets[i]
			where := fmt.Sprintf("Get(%q, %q)", g.Name, g.Version)
			if og.Kind == "panic" {
				bad("get-panic", where+" panicked")
				continue
			}
			entries, present := idx[g.Name]
			if !present {
				if og.Kind == "ok" {
					bad("get-unknown-name", where+" returned an entry for a chart name that is not in the index")
				}
				continue
			}
			check := func(v *semver.Version) bool { return false }
			exactWanted := false
			if g.Version == "" {
				check = func(v *semver.Version) bool { return v.Prerelease() == "" } // "highest stable version"
			} else {
				for _, e := range entries {
					if e.Version == g.Version {
						exactWanted = true
					}
				}
				if k, err := semver.NewConstraint(g.Version); err == nil {
					check = k.Check
				}
			}
			if exactWanted {
				if og.Kind != "ok" || og.Entry.Version != g.Version {
					bad("get-exact", where+" did not return the entry whose version string is identical")
				}
				continue
			}
			var cands []c18OEntry
			for _, e := range entries {
				if v := parse(e.Version); v != nil && check(v) {
					cands = append(cands, e)
				}
			}
			if len(cands) == 0 {
				if og.Kind == "ok" {
					bad("get-unsatisfying", where+" returned "+og.Entry.Version+" which does not satisfy the request")
				}
				continue
			}
			if og.Kind != "ok" {
				bad("get-missed", where+" reported an error although "+cands[0].Version+" satisfies the request")
				continue
			}
			rv := parse(og.Entry.Version)
			isCand := false
			for _, e := range cands {
				if e.Digest == og.Entry.Digest && e.Version == og.Entry.Version {
					isCand = true
				}
			}
			if rv == nil || !isCand {
				bad("get-unsatisfying", where+" returned "+og.Entry.Version+" which does not satisfy the request")
				continue
			}
			for _, e := range cands {
				if parse(e.Version).GreaterThan(rv) {
					bad("get-best", fmt.Sprintf("%s returned %s although the higher %s also satisfies the request", where, og.Entry.Version, e.Version))
					break
				}
			}
		}
	}
	// tag matching on descending lists
	for i, t := range c.Tags {
		if i >= len(obs.Tags) {
			break
		}
		ot := obs.Tags[i]
		where := fmt.Sprintf("tag match %q in %v", t.Version, t.Tags)
		if ot.Kind == "panic" {
			bad("tag-panic", where+" panicked")
			continue
		}
		if !t.Sorted {
			continue
		}
		exact := false
		for _, s := range t.Tags {
			if t.Version != "" && s == t.Version {
				exact = true
			}
		}
		if exact {
			if ot.Kind != "ok" || ot.Tag != t.Version {
				bad("tag-exact", where+" did not return the identical tag")
			}
			continue
		}
		check := func(v *semver.Version) bool { return false }
		if t.Version == "" {
			check = func(v *semver.Version) bool { return v.Prerelease() == "" }
		} else if k, err := semver.NewConstraint(t.Version); err == nil {
			check = k.Check
		}
		var cands []string
		for _, s := range t.Tags {
			if v := parse(s); v != nil && check(v) {
				cands = append(cands, s)
			}
		}
		if len(cands) == 0 {
			if ot.Kind == "ok" {
				bad("tag-unsatisfying", where+" returned "+ot.Tag+" which does not satisfy the request")
			}
			continue
		}
		if ot.Kind != "ok" {
			bad("tag-missed", where+" reported an error although "+cands[0]+" satisfies the request")
			continue
		}
		rv := parse(ot.Tag)
		in := false
		for _, s := range cands {
			if s == ot.Tag {
				in = true
			}
		}
		if rv == nil || !in {
			bad("tag-unsatisfying", where+" returned "+ot.Tag+" which does not satisfy the request")
			continue
		}
		for _, s := range cands {
			if parse(s).GreaterThan(rv) {
				bad("tag-best", fmt.Sprintf("%s returned %s although the higher %s also satisfies it", where, ot.Tag, s))
				break
			}
		}
	}
	// OCI tag listings
	for i, q := range c.OCI {
		if i < len(obs.OCI) {
			c18OCIOracle(q, obs.OCI[i], bad)
		}
	}
	// dependency resolution
	for i, ds := range c.Res {
		if i >= len(obs.Res) {
			break
		}
		or := obs.Res[i]
		where := fmt.Sprintf("Resolve(%v)", ds)
		if or.Kind == "panic" {
			bad("resolve-panic", where+" panicked")
			continue
		}
		// per dependency: the satisfying entries that have a URL
		resolvable := obs.LoadKind == "ok"
		cands := make([][]c18OEntry, len(ds))
		for j, d := range ds {
			k, err := semver.NewConstraint(d.Constraint)
			entries, present := idx[d.Name]
			if err != nil || !present {
				resolvable = false
				continue
			}
			for _, e := range entries {
				if v := parse(e.Version); v != nil && len(e.URLs) > 0 && k.Check(v) {
					cands[j] = append(cands[j], e)
				}
			}
			if len(cands[j]) == 0 {
				resolvable = false
			}
		}
		if len(ds) == 0 {
			resolvable = true
		}
		if !resolvable {
			if or.Kind == "ok" {
				bad("resolve-unsatisfiable", where+" produced a lock although a dependency has no indexed version with a URL in its range")
			}
			continue
		}
		if or.Kind != "ok" || len(or.Versions) != len(ds) {
			bad("resolve-missed", where+" failed although every dependency has a satisfying indexed version")
			continue
		}
		for j := range ds {
			rv := parse(or.Versions[j])
			in := false
			for _, e := range cands[j] {
				if e.Version == or.Versions[j] {
					in = true
				}
			}
			if rv == nil || !in {
				bad("resolve-unsatisfying", fmt.Sprintf("%s locked %s to %q which is not an indexed version with a URL in range", where, ds[j].Name, or.Versions[j]))
				continue
			}
			for _, e := range cands[j] {
				if parse(e.Version).GreaterThan(rv) {
					bad("resolve-best", fmt.Sprintf("%s locked %s to %s although the higher %s is in range", where, ds[j].Name, or.Versions[j], e.Version))
					break
				}
			}
		}
	}
	return vs
}

// ---- Coq printer ----

func c18CoqEntry(n, v, api, typ string, urls []string, digest string) string {
	return fmt.Sprintf("(mkEntry %s %s %s %s %s %s)", hx.CoqStr(n), hx.CoqStr(v), hx.CoqStr(api), hx.CoqStr(typ),
		hx.CoqStrList(urls), hx.CoqStr(digest))
}

func c18CoqOEntry(e c18OEntry) string {
	return c18CoqEntry(e.Name, e.Version, e.API, e.Type, e.URLs, e.Digest)
}

func c18CoqVer(o c18OVer) string {
	if !o.Valid {
		return fmt.Sprintf("(mkVO %s None)", hx.CoqStr(o.S))
	}
	return fmt.Sprintf("(mkVO %s (Some (%d%%N, %d%%N, %d%%N, %s, %s)))", hx.CoqStr(o.S), o.Major, o.Minor, o.Patch,
		hx.CoqStrList(o.Pre), hx.CoqStr(o.Meta))
}

func (*c18) CoqCase(ci, oi any) string {
	c, obs := ci.(c18Case), oi.(c18Obs)
	// file
	file := ""
	switch c.File.Mode {
	case "empty":
		file = "IFEmpty"
	case "bad":
		file = "IFBad"
	default:
		var charts []string
		for _, ch := range c.File.Charts {
			var es []string
			for _, e := range ch.Entries {
				switch {
				case e.Null:
					es = append(es, "CNull")
				case e.NoMeta:
					es = append(es, fmt.Sprintf("CNoMeta %s %s", hx.CoqStrList(e.URLs), hx.CoqStr(e.Digest)))
				default:
					es = append(es, "CFull "+c18CoqEntry(e.Name, e.Version, e.API, e.Type, e.URLs, e.Digest))
				}
			}
			charts = append(charts, hx.CoqPair(hx.CoqStr(ch.Key), hx.CoqList(es)))
		}
		file = fmt.Sprintf("(IFParsed %s %s)", hx.CoqStr(c.File.API), hx.CoqList(charts))
	}
	// tables
	ckeys := make([]string, 0, len(obs.CValid))
	for k := range obs.CValid {
		ckeys = append(ckeys, k)
	}
	sort.Strings(ckeys)
	var cvalid, sat []string
	for _, k := range ckeys {
		cvalid = append(cvalid, hx.CoqPair(hx.CoqStr(k), hx.CoqBool(obs.CValid[k])))
		row, ok := obs.Sat[k]
		if !ok {
			continue
		}
		vkeys := make([]string, 0, len(row))
		for v := range row {
			vkeys = append(vkeys, v)
		}
		sort.Strings(vkeys)
		var cells []string
		for _, v := range vkeys {
			cells = append(cells, hx.CoqPair(hx.CoqStr(v), hx.CoqBool(row[v])))
		}
		sat = append(sat, hx.CoqPair(hx.CoqStr(k), hx.CoqList(cells)))
	}
	// load
	load := ""
	switch obs.LoadKind {
	case "ok":
		var charts []string
		for _, oc := range obs.Idx {
			var es []string
			for _, e := range oc.Entries {
				es = append(es, c18CoqOEntry(e))
			}
			charts = append(charts, hx.CoqPair(hx.CoqStr(oc.Key), hx.CoqList(es)))
		}
		load = "(OLOk " + hx.CoqList(charts) + ")"
	case "empty":
		load = "(OLErr EEmpty)"
	case "noapi":
		load = "(OLErr ENoAPI)"
	case "err":
		load = "(OLErr EUnmarshal)"
	default:
		load = "OLPanic"
	}
	var gets, tags, ress, cmps []string
	for i, og := range obs.Gets {
		g := c.Gets[i]
		o := ""
		switch og.Kind {
		case "ok":
			o = "OGOk " + c18CoqOEntry(*og.Entry)
		case "noname":
			o = "OGNoName"
		case "noversion":
			o = "OGNoVersion"
		case "err":
			o = "OGErr"
		default:
			o = "OGPanic"
		}
		gets = append(gets, fmt.Sprintf("(%s, %s, %s)", hx.CoqStr(g.Name), hx.CoqStr(g.Version), o))
	}
	for i, ot := range obs.Tags {
		t := c.Tags[i]
		o := ""
		switch ot.Kind {
		case "ok":
			o = "OTOk " + hx.CoqStr(ot.Tag)
		case "err":
			o = "OTErr"
		default:
			o = "OTPanic"
		}
		tags = append(tags, fmt.Sprintf("(%s, %s, %s)", hx.CoqStrList(t.Tags), hx.CoqStr(t.Version), o))
	}
	for i, or := range obs.Res {
		var ds []string
		for _, d := range c.Res[i] {
			ds = append(ds, fmt.Sprintf("mkDep %s %s", hx.CoqStr(d.Name), hx.CoqStr(d.Constraint)))
		}
		o := ""
		switch or.Kind {
		case "ok":
			o = "OROk " + hx.CoqStrList(or.Versions)
		case "err":
			o = "ORErr"
		default:
			o = "ORPanic"
		}
		ress = append(ress, fmt.Sprintf("(%s, %s)", hx.CoqList(ds), o))
	}
	for _, oc := range obs.Cmps {
		r := "None"
		if oc.Cmp != nil {
			r = map[int]string{-1: "(Some Lt)", 0: "(Some Eq)", 1: "(Some Gt)"}[*oc.Cmp]
		}
		cmps = append(cmps, fmt.Sprintf("mkCmp %s %s %s", c18CoqVer(oc.A), c18CoqVer(oc.B), r))
	}
	var cfix, cpairs []string
	for i, p := range c.CPairs {
		if i >= len(obs.CPairs) {
			break
		}
		o := "None"
		if obs.CPairs[i].Valid {
			o = "(Some " + hx.CoqStr(obs.CPairs[i].Bits) + ")"
		}
		if p.Versions == nil {
			cfix = append(cfix, hx.CoqPair(hx.CoqStr(p.Constraint), o))
		} else {
			cpairs = append(cpairs, fmt.Sprintf("(%s, %s, %s)", hx.CoqStr(p.Constraint), hx.CoqStrList(p.Versions), o))
		}
	}
	var ocis []string
	for i, q := range c.OCI {
		if i < len(obs.OCI) {
			ocis = append(ocis, c18CoqOCI(q, obs.OCI[i]))
		}
	}
	return fmt.Sprintf("mkCase %s\n  %s\n  %s\n  %s\n  %s\n  %s\n  %s\n  %s\n  %s\n  %s\n  %s\n  %s", file, hx.CoqList(cvalid), hx.CoqList(sat), load,
		hx.CoqList(gets), hx.CoqList(tags), hx.CoqList(ress), hx.CoqList(cmps), hx.CoqStrList(c.CVers), hx.CoqList(cfix), hx.CoqList(cpairs), hx.CoqList(ocis))
}

// distribution of the constraint strings given to NewConstraint / Check (report: extra)
var c18Shapes = map[string]int{}

func c18CountShape(s string, o c18OCPair) {
	c18Shapes[c18CShape(s, o.Valid)]++
	c18Shapes["cells"] += len(o.Bits)
	c18Shapes["cells-satisfied"] += strings.Count(o.Bits, "1")
	hx.Extra["constraint_language"] = c18Shapes
}

func (*c18) Class(ci, oi any) string {
	c := ci.(c18Case)
	if len(c.CVers) > 0 {
		return "constraint-enumeration"
	}
	if len(c.OCI) > 0 && len(c.Gets) == 0 && len(c.File.Charts) == 0 {
		return "oci-listing"
	}
	cl := c.File.Mode
	if (c.File.Mode == "yaml" || c.File.Mode == "json") && c.File.API == "" {
		cl += "-noapi"
	}
	null, pre := false, false
	for _, ch := range c.File.Charts {
		for _, e := range ch.Entries {
			if e.Null {
				null = true
			}
			if strings.Contains(e.Version, "-") {
				pre = true
			}
		}
	}
	if null {
		cl += "+null"
	}
	if pre {
		cl += "+pre"
	}
	return cl
}

func (*c18) NonTrivial(ci, oi any) bool {
	obs := oi.(c18Obs)
	if obs.LoadKind != "ok" {
		return false
	}
	two, got := false, false
	for _, oc := range obs.Idx {
		if len(oc.Entries) >= 2 {
			two = true
		}
	}
	for _, g := range obs.Gets {
		if g.Kind == "ok" {
			got = true
		}
	}
	return two && got
}

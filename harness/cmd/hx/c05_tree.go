package main

// C05 (round 4) — tree cases: a chart TREE built in memory (library charts, duplicate and dotted
// dependency names, nil template entries, names path.Join has to clean), render values assembled
// in a shuffled insertion order, and templates written in the fragment the model's reference
// executor (coq/Render/Mini.v) understands.  Observed on the real code:
//   - engine.allTemplates (hook VerifAllTemplates): names, template text, base path, which templates
//     share one values map object, and each values map as JSON;
//   - Engine.Render (Strict / LintMode / with a client provider): the rendered map or the stage of
//     the error.
// The Coq model (Render/Engine.v all_templates + render, instantiated with Render/Mini.v and the
// function transcriptions of Render/Funcs.v) must reproduce all of it.

import (
	"bytes"
	"encoding/base64"
	"encoding/json"
	"fmt"
	"math/rand"
	"os"
	"reflect"
	"sort"
	"strconv"
	"strings"

	"k8s.io/client-go/rest"

	chart "helm.sh/helm/v4/pkg/chart/v2"
	chartutil "helm.sh/helm/v4/pkg/chart/v2/util"
	"helm.sh/helm/v4/pkg/engine"

	"verif/harness/internal/hx"
)

// ---- AST of the template fragment -------------------------------------------------------

type c05Node struct {
	K    string    `json:"k"` // text field tojson include tpl tpljson required fail lookup filesget define bad
	S    string    `json:"s,omitempty"`
	Path []string  `json:"path,omitempty"`
	Body []c05Node `json:"body,omitempty"`
}

const (
	c05MarkA = "\x01" // around the output of toJson
	c05MarkB = "\x02"
	c05MarkC = "\x03" // around the output of tpl ... | toJson (a JSON string literal whose text may contain marked JSON)
	c05MarkD = "\x04"
)

func c05FieldText(p []string) string {
	if len(p) == 0 {
		return "."
	}
	return "." + strings.Join(p, ".")
}

// c05Source prints nodes as Go template text.
func c05Source(ns []c05Node) string {
	var b strings.Builder
	for _, n := range ns {
		switch n.K {
		case "text":
			b.WriteString(n.S)
		case "field":
			b.WriteString("{{ " + c05FieldText(n.Path) + " }}")
		case "tojson":
			b.WriteString("{{ toJson " + c05FieldText(n.Path) + " }}")
		case "include":
			b.WriteString("{{ include " + strconv.Quote(n.S) + " . }}")
		case "tpl":
			b.WriteString("{{ tpl " + strconv.Quote(c05Source(n.Body)) + " . }}")
		case "tpljson":
			b.WriteString("{{ tpl " + strconv.Quote(c05Source(n.Body)) + " . | toJson }}")
		case "required":
			b.WriteString("{{ required " + strconv.Quote(n.S) + " " + c05FieldText(n.Path) + " }}")
		case "fail":
			b.WriteString("{{ fail " + strconv.Quote(n.S) + " }}")
		case "lookup":
			b.WriteString("{{ lookup \"v1\" \"Pod\" \"ns\" \"x\" | toJson }}")
		case "filesget":
			b.WriteString("{{ .Files.Get " + strconv.Quote(n.S) + " }}")
		case "define":
			b.WriteString("{{ define " + strconv.Quote(n.S) + " }}" + c05Source(n.Body) + "{{ end }}")
		case "bad":
			b.WriteString("{{ if }}")
		}
	}
	return b.String()
}

func c05CoqNodes(ns []c05Node) string {
	it := make([]string, len(ns))
	for i, n := range ns {
		switch n.K {
		case "text":
			it[i] = "NText " + c05Str(n.S)
		case "field":
			it[i] = "NField " + c05StrList(n.Path)
		case "tojson":
			it[i] = "NToJson " + c05StrList(n.Path)
		case "include":
			it[i] = "NInclude " + c05Str(n.S)
		case "tpl":
			it[i] = "NTpl " + c05CoqNodes(n.Body)
		case "tpljson":
			it[i] = "NTplJson " + c05CoqNodes(n.Body)
		case "required":
			it[i] = "NRequired " + c05Str(n.S) + " " + c05StrList(n.Path)
		case "fail":
			it[i] = "NFail " + c05Str(n.S)
		case "lookup":
			it[i] = "NLookup"
		case "filesget":
			it[i] = "NFilesGet " + c05Str(n.S)
		case "define":
			it[i] = "NDefine " + c05Str(n.S) + " " + c05CoqNodes(n.Body)
		default:
			it[i] = "NBad"
		}
	}
	return hx.CoqList(it)
}

// ---- the case ---------------------------------------------------------------------------

type c05TTemplate struct {
	Nil  bool      `json:"nil,omitempty"`
	Name string    `json:"name"`
	Src  []c05Node `json:"src"`
}

type c05TChart struct {
	Name      string         `json:"name"`
	Type      string         `json:"type,omitempty"`
	Version   string         `json:"version"`
	Templates []c05TTemplate `json:"templates"`
	Files     []c05File      `json:"files,omitempty"`
	Deps      []*c05TChart   `json:"deps,omitempty"`
}

type c05Tree struct {
	Root    *c05TChart     `json:"root"`
	Top     map[string]any `json:"top"` // the render values: Values, Release, Capabilities, ...
	Strict  bool           `json:"strict,omitempty"`
	Lint    bool           `json:"lint,omitempty"`
	Client  bool           `json:"client,omitempty"`
	Shuffle int64          `json:"shuffle"` // seed of the insertion orders
}

type c05TplObs struct {
	Name  string `json:"name"`
	Tpl   string `json:"tpl"`
	Base  string `json:"base"`
	Class int    `json:"class"`
}

type c05TreeObs struct {
	Tpls     []c05TplObs `json:"tpls"`
	Scopes   []any       `json:"scopes"` // by class: the values map (JSON, Files decoded)
	Render   string      `json:"render"` // ok | parse | exec
	Err      string      `json:"err,omitempty"`
	Rendered [][2]string `json:"rendered,omitempty"`
	Repeat   string      `json:"repeat,omitempty"` // same | differs: ...
	DepOrder string      `json:"dep_order,omitempty"` // same | differs: ... (the root's dependencies in every other order)
}

// ---- building the real chart ---------------------------------------------------------------

func c05BuildChart(t *c05TChart) *chart.Chart {
	ch := &chart.Chart{Metadata: &chart.Metadata{APIVersion: "v2", Name: t.Name, Version: t.Version, Type: t.Type}}
	for _, tp := range t.Templates {
		if tp.Nil {
			ch.Templates = append(ch.Templates, nil)
			continue
		}
		ch.Templates = append(ch.Templates, &chart.File{Name: tp.Name, Data: []byte(c05Source(tp.Src))})
	}
	for _, f := range t.Files {
		ch.Files = append(ch.Files, &chart.File{Name: f.Name, Data: []byte(f.Data)})
	}
	for _, d := range t.Deps {
		ch.AddDependency(c05BuildChart(d))
	}
	return ch
}

// c05ShuffledCopy deep-copies a value tree, inserting the keys of every map in an order drawn from r.
func c05ShuffledCopy(v any, r *rand.Rand) any {
	switch x := v.(type) {
	case map[string]any:
		ks := make([]string, 0, len(x))
		for k := range x {
			ks = append(ks, k)
		}
		sort.Strings(ks)
		r.Shuffle(len(ks), func(i, j int) { ks[i], ks[j] = ks[j], ks[i] })
		out := make(map[string]any, len(x))
		for _, k := range ks {
			out[k] = c05ShuffledCopy(x[k], r)
		}
		return out
	case []any:
		out := make([]any, len(x))
		for i, e := range x {
			out[i] = c05ShuffledCopy(e, r)
		}
		return out
	case float64:
		if x == float64(int64(x)) {
			return int64(x) // a decoded case: integers stay integers
		}
		return x
	}
	return v
}

func c05TopValues(top map[string]any, r *rand.Rand) chartutil.Values {
	return chartutil.Values(c05ShuffledCopy(top, r).(map[string]any))
}

// ---- JSON observations --------------------------------------------------------------------------

// c05DecodeFiles: a scope-shaped object (Chart, Files, Subcharts, Values) shows its Files as base64;
// decode them, recursively through Subcharts.
func c05DecodeFiles(v any) any {
	switch x := v.(type) {
	case map[string]any:
		_, a := x["Chart"]
		_, b := x["Files"]
		_, c := x["Subcharts"]
		_, d := x["Values"]
		if a && b && c && d {
			if fm, ok := x["Files"].(map[string]any); ok {
				nf := map[string]any{}
				for k, e := range fm {
					if s, ok := e.(string); ok {
						if raw, err := base64.StdEncoding.DecodeString(s); err == nil {
							nf[k] = string(raw)
							continue
						}
					}
					nf[k] = e
				}
				x["Files"] = nf
			}
		}
		for k, e := range x {
			if k == "Files" && a && b && c && d {
				continue
			}
			x[k] = c05DecodeFiles(e)
		}
		return x
	case []any:
		for i, e := range x {
			x[i] = c05DecodeFiles(e)
		}
		return x
	}
	return v
}

func c05ParseJSON(b []byte) (any, error) {
	d := json.NewDecoder(bytes.NewReader(b))
	d.UseNumber()
	var v any
	if err := d.Decode(&v); err != nil {
		return nil, err
	}
	return c05DecodeFiles(v), nil
}

// c05Canon rewrites every \x01<json>\x02 segment of a rendered text canonically: keys sorted,
// Files decoded, encoding/json's escapes.
func c05Canon(s string) string {
	// first the JSON string literals of tpl | toJson: canonicalise the text inside
	if strings.Contains(s, c05MarkC) {
		var b strings.Builder
		for {
			i := strings.Index(s, c05MarkC)
			if i < 0 {
				b.WriteString(s)
				break
			}
			j := strings.Index(s[i+1:], c05MarkD)
			if j < 0 {
				b.WriteString(s)
				break
			}
			seg := s[i+1 : i+1+j]
			var inner string
			if err := json.Unmarshal([]byte(seg), &inner); err == nil {
				if out, err := json.Marshal(c05Canon(inner)); err == nil {
					seg = string(out)
				}
			}
			b.WriteString(s[:i+1] + seg + c05MarkD)
			s = s[i+1+j+1:]
		}
		s = b.String()
	}
	var b strings.Builder
	for {
		i := strings.Index(s, c05MarkA)
		if i < 0 {
			b.WriteString(s)
			return b.String()
		}
		j := strings.Index(s[i+1:], c05MarkB)
		if j < 0 {
			b.WriteString(s)
			return b.String()
		}
		seg := s[i+1 : i+1+j]
		b.WriteString(s[:i+1])
		if v, err := c05ParseJSON([]byte(seg)); err == nil {
			if out, err := json.Marshal(v); err == nil {
				seg = string(out)
			}
		}
		b.WriteString(seg)
		b.WriteString(c05MarkB)
		s = s[i+1+j+1:]
	}
}

// ---- execution ----------------------------------------------------------------------------------

func c05EngineFor(t *c05Tree) engine.Engine {
	var e engine.Engine
	if t.Client {
		e = engine.New(&rest.Config{Host: "http://127.0.0.1:1"})
	}
	e.Strict, e.LintMode = t.Strict, t.Lint
	return e
}

func c05RenderTree(t *c05Tree, seed int64) (map[string]string, error) {
	ch := c05BuildChart(t.Root)
	top := c05TopValues(t.Top, rand.New(rand.NewSource(seed)))
	return c05EngineFor(t).Render(ch, top)
}

func c05ExecTree(c c05Case) (res c05Obs) {
	t := c.Tree
	obs := c05TreeObs{}
	res.TreeObs = &obs
	defer func() {
		if p := recover(); p != nil {
			res.Panic = fmt.Sprint(p)
		}
	}()
	c05HostInit()
	// (1) allTemplates
	ch := c05BuildChart(t.Root)
	top := c05TopValues(t.Top, rand.New(rand.NewSource(t.Shuffle)))
	m := engine.VerifAllTemplates(ch, top)
	names := make([]string, 0, len(m))
	for k := range m {
		names = append(names, k)
	}
	sort.Strings(names)
	classOf := map[uintptr]int{}
	for _, k := range names {
		r := m[k]
		p := reflect.ValueOf(map[string]any(r.Vals)).Pointer()
		cl, ok := classOf[p]
		if !ok {
			cl = len(classOf)
			classOf[p] = cl
			raw, err := json.Marshal(r.Vals)
			var v any
			if err == nil {
				v, err = c05ParseJSON(raw)
			}
			if err != nil {
				v = "<json error: " + err.Error() + ">"
			}
			obs.Scopes = append(obs.Scopes, v)
		}
		obs.Tpls = append(obs.Tpls, c05TplObs{Name: k, Tpl: r.Tpl, Base: r.BasePath, Class: cl})
	}
	// (2) the render, on fresh objects
	out, err := c05RenderTree(t, t.Shuffle+1)
	classify := func(out map[string]string, err error) (string, [][2]string) {
		if err != nil {
			if strings.HasPrefix(err.Error(), "parse error") {
				return "parse", nil
			}
			return "exec", nil
		}
		ks := make([]string, 0, len(out))
		for k := range out {
			ks = append(ks, k)
		}
		sort.Strings(ks)
		rs := make([][2]string, 0, len(ks))
		for _, k := range ks {
			rs = append(rs, [2]string{k, c05Canon(out[k])})
		}
		return "ok", rs
	}
	obs.Render, obs.Rendered = classify(out, err)
	if err != nil {
		obs.Err = c05Short(err.Error())
	}
	// (3) again with other insertion orders, a changed environment and working directory
	obs.Repeat = "same"
	wd, _ := os.Getwd()
	home, hadHome := os.LookupEnv("HOME")
	for i := int64(2); i < 6; i++ {
		if i == 4 {
			os.Setenv("C05_CANARY", c05H.tokenEnv)
			os.Setenv("HOME", "/nonexistent-"+c05H.tokenEnv)
			os.Chdir(c05H.cwd)
		}
		out2, err2 := c05RenderTree(t, t.Shuffle+i)
		cl, rs := classify(out2, err2)
		if cl != obs.Render || !reflect.DeepEqual(rs, obs.Rendered) {
			obs.Repeat = fmt.Sprintf("differs: render %d gives %s (%d files) after %s (%d files)", i, cl, len(rs), obs.Render, len(obs.Rendered))
			for j := range rs {
				if j < len(obs.Rendered) && rs[j] != obs.Rendered[j] {
					obs.Repeat += ": " + rs[j][0] + " " + c05FirstDiff(obs.Rendered[j][1], rs[j][1])
					break
				}
			}
		}
	}
	// (4) the dependencies of the root in every other order (when their names are distinct, so that no
	// template or Subcharts entry replaces another): the rendered map must not notice
	if n := len(t.Root.Deps); n >= 2 && n <= 3 {
		distinct := true
		for i := range t.Root.Deps {
			for j := 0; j < i; j++ {
				if t.Root.Deps[i].Name == t.Root.Deps[j].Name {
					distinct = false
				}
			}
		}
		if distinct {
			perms := [][]int{{1, 0}}
			if n == 3 {
				perms = [][]int{{0, 2, 1}, {1, 0, 2}, {1, 2, 0}, {2, 0, 1}, {2, 1, 0}}
			}
			for _, pm := range perms {
				root := *t.Root
				root.Deps = make([]*c05TChart, n)
				for i, j := range pm {
					root.Deps[i] = t.Root.Deps[j]
				}
				t2 := *t
				t2.Root = &root
				out2, err2 := c05RenderTree(&t2, t.Shuffle+1)
				cl, rs := classify(out2, err2)
				if cl != obs.Render || !reflect.DeepEqual(rs, obs.Rendered) {
					if !strings.HasPrefix(obs.DepOrder, "differs") {
						obs.DepOrder = fmt.Sprintf("differs: dependencies in order %v give %s (%d files) instead of %s (%d files)", pm, cl, len(rs), obs.Render, len(obs.Rendered))
					}
				} else if obs.DepOrder == "" {
					obs.DepOrder = "same"
				}
			}
		}
	}
	os.Unsetenv("C05_CANARY")
	if hadHome {
		os.Setenv("HOME", home)
	} else {
		os.Unsetenv("HOME")
	}
	os.Chdir(wd)
	return res
}

// ---- oracle (independent of the Coq model) ----------------------------------------------------

func c05TreeOracle(c c05Case, obs c05Obs) []hx.Violation {
	var vs []hx.Violation
	o := obs.TreeObs
	if o == nil {
		return nil
	}
	if strings.HasPrefix(o.Repeat, "differs") {
		vs = append(vs, hx.Violation{Sig: "C05:tree-differs", What: "the same chart tree and values rendered differently when the value maps were built in another insertion order / the environment and working directory changed: " + o.Repeat})
	}
	if strings.HasPrefix(o.DepOrder, "differs") {
		vs = append(vs, hx.Violation{Sig: "C05:tree-dependency-order", What: "the same chart tree rendered differently when the (distinctly named) dependencies of the root were listed in another order: " + o.DepOrder})
	}
	for _, kv := range o.Rendered {
		for _, tok := range []string{c05H.tokenA, c05H.tokenB, c05H.tokenEnv} {
			if strings.Contains(kv[1], tok) {
				vs = append(vs, hx.Violation{Sig: "C05:host-canary-leak", What: "host state outside the chart reached the output of " + kv[0]})
			}
		}
	}
	return vs
}

// ---- Coq printing ------------------------------------------------------------------------------------

func c05Val(v any) string {
	switch x := v.(type) {
	case nil:
		return "VNull"
	case bool:
		return "(VBool " + hx.CoqBool(x) + ")"
	case int:
		return "(VNum " + hx.CoqZ(int64(x)) + ")"
	case int64:
		return "(VNum " + hx.CoqZ(x) + ")"
	case float64:
		if x == float64(int64(x)) {
			return "(VNum " + hx.CoqZ(int64(x)) + ")"
		}
		return "(VFlt " + c05Str(strconv.FormatFloat(x, 'g', -1, 64)) + ")"
	case json.Number:
		if i, err := x.Int64(); err == nil {
			return "(VNum " + hx.CoqZ(i) + ")"
		}
		return "(VFlt " + c05Str(x.String()) + ")"
	case string:
		return "(VStr " + c05Str(x) + ")"
	case []any:
		it := make([]string, len(x))
		for i, e := range x {
			it[i] = c05Val(e)
		}
		return "(VList " + hx.CoqList(it) + ")"
	case map[string]any:
		return "(VMap " + c05ValMap(x) + ")"
	case chartutil.Values:
		return "(VMap " + c05ValMap(x) + ")"
	}
	return hx.CoqVal(v)
}

func c05ValMap(m map[string]any) string {
	ks := make([]string, 0, len(m))
	for k := range m {
		ks = append(ks, k)
	}
	sort.Strings(ks)
	it := make([]string, len(ks))
	for i, k := range ks {
		it[i] = "(" + c05Str(k) + ", " + c05Val(m[k]) + ")"
	}
	return hx.CoqList(it)
}

func c05CoqChart(t *c05TChart) string {
	md := chart.Metadata{APIVersion: "v2", Name: t.Name, Version: t.Version, Type: t.Type}
	raw, _ := json.Marshal(md)
	mv, _ := c05ParseJSON(raw)
	meta, _ := mv.(map[string]any)
	tps := make([]string, len(t.Templates))
	for i, tp := range t.Templates {
		if tp.Nil {
			tps[i] = "None"
		} else {
			tps[i] = "Some (" + c05Str(tp.Name) + ", " + c05Str(c05Source(tp.Src)) + ")"
		}
	}
	fs := make([][2]string, len(t.Files))
	for i, f := range t.Files {
		fs[i] = [2]string{f.Name, f.Data}
	}
	ds := make([]string, len(t.Deps))
	for i, d := range t.Deps {
		ds[i] = c05CoqChart(d)
	}
	return fmt.Sprintf("(Chart %s %s %s %s %s %s)", c05Str(t.Name), c05Str(t.Type), c05ValMap(meta), hx.CoqList(tps), c05Pairs(fs), hx.CoqList(ds))
}

func c05TreeSources(t *c05TChart, seen map[string]bool, out *[]string) {
	for _, tp := range t.Templates {
		if tp.Nil {
			continue
		}
		s := c05Source(tp.Src)
		if !seen[s] {
			seen[s] = true
			*out = append(*out, "("+c05Str(s)+", "+c05CoqNodes(tp.Src)+")")
		}
	}
	for _, d := range t.Deps {
		c05TreeSources(d, seen, out)
	}
}

func c05CoqTree(c c05Case, obs c05Obs) string {
	t, o := c.Tree, obs.TreeObs
	if o == nil || obs.Panic != "" {
		return c05Skip
	}
	var srcs []string
	c05TreeSources(t.Root, map[string]bool{}, &srcs)
	tpls := make([]string, len(o.Tpls))
	for i, tp := range o.Tpls {
		tpls[i] = fmt.Sprintf("(%s, (%s, %s, %d))", c05Str(tp.Name), c05Str(tp.Tpl), c05Str(tp.Base), tp.Class)
	}
	scs := make([]string, len(o.Scopes))
	for i, s := range o.Scopes {
		scs[i] = fmt.Sprintf("(%d, %s)", i, c05Val(s))
	}
	var ro string
	switch o.Render {
	case "parse":
		ro = "RParseErr"
	case "exec":
		ro = "RExecErr"
	default:
		ro = "(ROut " + c05Pairs(o.Rendered) + ")"
	}
	return fmt.Sprintf("CTree (mkEngine %s %s %s false) %s %s %s %s %s %s", hx.CoqBool(t.Strict), hx.CoqBool(t.Lint), hx.CoqBool(t.Client),
		c05CoqChart(t.Root), c05ValMap(t.Top), hx.CoqList(srcs), hx.CoqList(tpls), hx.CoqList(scs), ro)
}

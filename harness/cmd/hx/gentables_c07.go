package main

// Translator table for C07: the shape of the stamping code of pkg/action/validate.go, read out
// of the source with go/ast on every run, as coq/Gen/StampTable.v:
//   - the four string constants (label / annotation keys, the value Helm);
//   - mergeStrStrMaps: its parameter names and, in order, the maps whose entries it assigns to
//     the result (`for k, v := range m { result[k] = v }`, also when the maps are ranged from one
//     slice literal);
//   - mergeLabels / mergeAnnotations: the identifiers they pass to mergeStrStrMaps, in order, and
//     the accessor they read the first one from;
//   - setMetadataVisitor: the literal maps it passes to mergeLabels / mergeAnnotations
//     (constant or parameter names);
//   - the `force` argument at every call site of setMetadataVisitor in pkg/action.
// Props/C07.v states that the table is the expected one and that the merge it describes,
// interpreted (Engine/Stamp.v merge_by_table), IS the model's merge_str_str_maps / stamp_meta.

import (
	"fmt"
	"go/ast"
	"go/token"
	"os"
	"path/filepath"
	"sort"
	"strings"

	"verif/harness/internal/hx"
)

func init() { registerTable("StampTable", genStampTable) }

func c07FuncDecl(f *ast.File, name string) *ast.FuncDecl {
	for _, d := range f.Decls {
		if fd, ok := d.(*ast.FuncDecl); ok && fd.Name.Name == name && fd.Recv == nil {
			return fd
		}
	}
	return nil
}

func c07Ident(e ast.Expr) string {
	if id, ok := e.(*ast.Ident); ok {
		return id.Name
	}
	return "?"
}

// assignsResult: the loop body is `result[key] = val` with the loop's own key/value variables
func c07AssignsResult(rs *ast.RangeStmt) bool {
	if rs.Body == nil || len(rs.Body.List) != 1 {
		return false
	}
	as, ok := rs.Body.List[0].(*ast.AssignStmt)
	if !ok || as.Tok != token.ASSIGN || len(as.Lhs) != 1 || len(as.Rhs) != 1 {
		return false
	}
	ix, ok := as.Lhs[0].(*ast.IndexExpr)
	if !ok || c07Ident(ix.X) != "result" {
		return false
	}
	return c07Ident(ix.Index) == c07Ident(rs.Key) && c07Ident(as.Rhs[0]) == c07Ident(rs.Value)
}

// the maps mergeStrStrMaps copies into the result, in order
func c07MergeLoops(fd *ast.FuncDecl) ([]string, error) {
	var out []string
	for _, st := range fd.Body.List {
		rs, ok := st.(*ast.RangeStmt)
		if !ok {
			continue
		}
		if c07AssignsResult(rs) {
			out = append(out, c07Ident(rs.X))
			continue
		}
		// for _, m := range []map[string]string{a, b} { for k, v := range m { result[k] = v } }
		cl, ok := rs.X.(*ast.CompositeLit)
		if ok && rs.Body != nil && len(rs.Body.List) == 1 {
			if inner, ok := rs.Body.List[0].(*ast.RangeStmt); ok && c07AssignsResult(inner) && c07Ident(inner.X) == c07Ident(rs.Value) {
				for _, e := range cl.Elts {
					out = append(out, c07Ident(e))
				}
				continue
			}
		}
		return nil, fmt.Errorf("mergeStrStrMaps: a loop that is not `for k, v := range m { result[k] = v }`")
	}
	if len(out) == 0 {
		return nil, fmt.Errorf("mergeStrStrMaps: no copy loop found")
	}
	return out, nil
}

// the call f(args...) anywhere in the function body (looking through a local variable)
func c07FindCall(fd *ast.FuncDecl, callee string) *ast.CallExpr {
	var found *ast.CallExpr
	ast.Inspect(fd.Body, func(n ast.Node) bool {
		if ce, ok := n.(*ast.CallExpr); ok && found == nil {
			if id, ok := ce.Fun.(*ast.Ident); ok && id.Name == callee {
				found = ce
			}
		}
		return true
	})
	return found
}

// `current, err := accessor.Labels(obj)`: which accessor method feeds the named variable
func c07AccessorOf(fd *ast.FuncDecl, v string) string {
	out := "?"
	ast.Inspect(fd.Body, func(n ast.Node) bool {
		as, ok := n.(*ast.AssignStmt)
		if !ok || len(as.Lhs) == 0 || len(as.Rhs) != 1 || c07Ident(as.Lhs[0]) != v {
			return true
		}
		if ce, ok := as.Rhs[0].(*ast.CallExpr); ok {
			if se, ok := ce.Fun.(*ast.SelectorExpr); ok && c07Ident(se.X) == "accessor" {
				out = se.Sel.Name
			}
		}
		return true
	})
	return out
}

func c07MapLit(e ast.Expr) ([][2]string, bool) {
	cl, ok := e.(*ast.CompositeLit)
	if !ok {
		return nil, false
	}
	var out [][2]string
	for _, el := range cl.Elts {
		kv, ok := el.(*ast.KeyValueExpr)
		if !ok {
			return nil, false
		}
		out = append(out, [2]string{c07Ident(kv.Key), c07Ident(kv.Value)})
	}
	return out, true
}

func c07CoqPairs(ps [][2]string) string {
	var it []string
	for _, p := range ps {
		it = append(it, hx.CoqPair(hx.CoqStr(p[0]), hx.CoqStr(p[1])))
	}
	return hx.CoqList(it)
}

func genStampTable(repo string) (string, error) {
	f, _, err := parseFile(repo, "pkg/action/validate.go")
	if err != nil {
		return "", err
	}
	var b strings.Builder
	// constants
	consts := map[string]string{}
	for _, d := range f.Decls {
		gd, ok := d.(*ast.GenDecl)
		if !ok || gd.Tok != token.CONST {
			continue
		}
		for _, s := range gd.Specs {
			vs := s.(*ast.ValueSpec)
			for i, n := range vs.Names {
				if i < len(vs.Values) {
					if v, ok := strLit(vs.Values[i]); ok {
						consts[n.Name] = v
					}
				}
			}
		}
	}
	var cps [][2]string
	for _, n := range []string{"appManagedByLabel", "appManagedByHelm", "helmReleaseNameAnnotation", "helmReleaseNamespaceAnnotation"} {
		v, ok := consts[n]
		if !ok {
			return "", fmt.Errorf("validate.go: constant %s not found", n)
		}
		cps = append(cps, [2]string{n, v})
	}
	fmt.Fprintf(&b, "Definition stamp_consts : list (string * string) := %s.\n\n", c07CoqPairs(cps))

	// mergeStrStrMaps
	ms := c07FuncDecl(f, "mergeStrStrMaps")
	if ms == nil || ms.Body == nil {
		return "", fmt.Errorf("validate.go: mergeStrStrMaps not found")
	}
	var params []string
	for _, fl := range ms.Type.Params.List {
		for _, n := range fl.Names {
			params = append(params, n.Name)
		}
	}
	loops, err := c07MergeLoops(ms)
	if err != nil {
		return "", err
	}
	fmt.Fprintf(&b, "Definition merge_params : list string := %s.\nDefinition merge_loops : list string := %s.\n\n", hx.CoqStrList(params), hx.CoqStrList(loops))

	// mergeLabels / mergeAnnotations
	var calls []string
	for _, fn := range []string{"mergeLabels", "mergeAnnotations"} {
		fd := c07FuncDecl(f, fn)
		if fd == nil || fd.Body == nil {
			return "", fmt.Errorf("validate.go: %s not found", fn)
		}
		ce := c07FindCall(fd, "mergeStrStrMaps")
		if ce == nil {
			return "", fmt.Errorf("validate.go: %s does not call mergeStrStrMaps", fn)
		}
		var args []string
		for _, a := range ce.Args {
			args = append(args, c07Ident(a))
		}
		var fparams []string
		for _, fl := range fd.Type.Params.List {
			for _, n := range fl.Names {
				fparams = append(fparams, n.Name)
			}
		}
		// which argument is the object's own map (read through the accessor), which the parameter
		var roles []string
		for _, a := range args {
			acc := c07AccessorOf(fd, a)
			switch {
			case acc != "?":
				roles = append(roles, "object:"+acc)
			case len(fparams) == 2 && a == fparams[1]:
				roles = append(roles, "param")
			default:
				roles = append(roles, "?")
			}
		}
		calls = append(calls, hx.CoqPair(hx.CoqStr(fn), hx.CoqStrList(roles)))
	}
	fmt.Fprintf(&b, "Definition merge_calls : list (string * list string) := %s.\n\n", hx.CoqList(calls))

	// setMetadataVisitor: the literal maps
	sv := c07FuncDecl(f, "setMetadataVisitor")
	if sv == nil || sv.Body == nil {
		return "", fmt.Errorf("validate.go: setMetadataVisitor not found")
	}
	var lits []string
	for _, fn := range []string{"mergeLabels", "mergeAnnotations"} {
		ce := c07FindCall(sv, fn)
		if ce == nil || len(ce.Args) != 2 {
			return "", fmt.Errorf("setMetadataVisitor does not call %s(obj, map)", fn)
		}
		ps, ok := c07MapLit(ce.Args[1])
		if !ok {
			return "", fmt.Errorf("setMetadataVisitor: the map passed to %s is not a literal", fn)
		}
		lits = append(lits, hx.CoqPair(hx.CoqStr(fn), c07CoqPairs(ps)))
	}
	fmt.Fprintf(&b, "Definition visitor_maps : list (string * list (string * string)) := %s.\n\n", hx.CoqList(lits))

	// the force argument at every call site in pkg/action
	files, _ := filepath.Glob(filepath.Join(repo, "pkg/action/*.go"))
	sort.Strings(files)
	var sites [][2]string
	for _, p := range files {
		if strings.HasSuffix(p, "_test.go") || strings.HasPrefix(filepath.Base(p), "zz_verif_") {
			continue
		}
		if _, err := os.Stat(p); err != nil {
			continue
		}
		af, _, err := parseFile(repo, "pkg/action/"+filepath.Base(p))
		if err != nil {
			return "", err
		}
		ast.Inspect(af, func(n ast.Node) bool {
			ce, ok := n.(*ast.CallExpr)
			if !ok {
				return true
			}
			if id, ok := ce.Fun.(*ast.Ident); ok && id.Name == "setMetadataVisitor" && len(ce.Args) == 3 {
				sites = append(sites, [2]string{filepath.Base(p), c07Ident(ce.Args[2])})
			}
			return true
		})
	}
	fmt.Fprintf(&b, "Definition visitor_force_sites : list (string * string) := %s.\n", c07CoqPairs(sites))
	return b.String(), nil
}

package main

// Translator table for C07: WHAT the stamping code of pkg/action/validate.go computes, read out of
// the source with go/ast on every run by a small symbolic evaluation (not by matching one
// spelling), as coq/Gen/StampTable.v:
//   - mergeStrStrMaps(p1, p2): the order in which its two parameters are copied into the result
//     (merge_params are the canonical positional names current / desired, merge_loops the copy order);
//   - setMetadataVisitor: for the labels and for the annotations, the map that finally reaches
//     accessor.SetLabels / SetAnnotations, as a sequence of sources (the object's own map read through
//     the accessor, a map literal); from it the literal maps (visitor_maps) and which source plays
//     which parameter of the merge (merge_calls);
//   - the constants the literals name (stamp_consts);
//   - the `force` argument at every call site of setMetadataVisitor in pkg/action.
// The evaluation follows local variables to their definition anywhere in the enclosing functions
// (hoisted maps), reads `for k, v := range m { r[k] = v }`, a loop over a slice of maps,
// maps.Copy(dst, src), maps.Clone(m) and make (pre-sized or not) as copies into a fresh map,
// inlines same-package helpers (bounded depth) and does not depend on the order of independent
// statements, on parameter or constant NAMES (canonical names by position / by value).
// The table is ALWAYS emitted: whatever cannot be interpreted becomes a row `Unknown "<text>"`
// (also collected in stamp_table_unknowns), which fails an obligation of Props/C07.v with that
// text — never a missing definition.
// Props/C07.v: the table is the expected one, and the merge / the stamping it describes,
// interpreted (Engine/StampTableSem.v), ARE the model's merge_str_str_maps / stamp_meta.

import (
	"fmt"
	"go/ast"
	"go/token"
	"go/types"
	"path/filepath"
	"sort"
	"strings"

	"verif/harness/internal/hx"
)

func init() { registerTable("StampTable", genStampTable) }

// ---- symbolic values ----

type c07Map struct {
	Kind  string      // lit param accessor merge unknown
	Name  string      // param / accessor name
	Pairs [][2]string // lit
	Parts []*c07Map   // merge: copied in this order into a fresh map
	Text  string      // unknown
}

func c07Unknown(format string, a ...any) *c07Map {
	return &c07Map{Kind: "unknown", Text: fmt.Sprintf(format, a...)}
}

// flatten: the sequence of sources copied, in order
func (m *c07Map) flatten() []*c07Map {
	if m == nil {
		return nil
	}
	if m.Kind != "merge" {
		return []*c07Map{m}
	}
	var out []*c07Map
	for _, p := range m.Parts {
		out = append(out, p.flatten()...)
	}
	return out
}

type c07Env struct {
	maps    map[string]*c07Map
	scalars map[string]string
}

func c07NewEnv() *c07Env { return &c07Env{maps: map[string]*c07Map{}, scalars: map[string]string{}} }

// one call of accessor.SetLabels / SetAnnotations
type c07Effect struct {
	Setter string
	Val    *c07Map
}

type c07Eval struct {
	funcs    map[string]*ast.FuncDecl
	consts   map[string]string // package-level string constants
	used     map[string]string // canonical constant name -> value, as met during the evaluation
	extra    []string          // uninterpretable constructs that end up in no cell
}

// canonical names of the constants, by VALUE (so that renaming a constant changes nothing)
var c07CanonConst = map[string]string{
	"app.kubernetes.io/managed-by":   "appManagedByLabel",
	"Helm":                           "appManagedByHelm",
	"meta.helm.sh/release-name":      "helmReleaseNameAnnotation",
	"meta.helm.sh/release-namespace": "helmReleaseNamespaceAnnotation",
}

func c07Text(n ast.Node) string {
	if e, ok := n.(ast.Expr); ok {
		s := types.ExprString(e)
		if len(s) > 120 {
			s = s[:120] + "..."
		}
		return s
	}
	return fmt.Sprintf("%T", n)
}

// unknownRow formats a table cell for something the translator cannot interpret; cells are
// collected into stamp_table_unknowns when the table is printed
func (ev *c07Eval) unknownRow(format string, a ...any) string {
	return "Unknown \"" + strings.ReplaceAll(fmt.Sprintf(format, a...), "\"", "'") + "\""
}

func c07ReturnsMap(fd *ast.FuncDecl) bool {
	if fd.Type.Results == nil {
		return false
	}
	for _, fl := range fd.Type.Results.List {
		if c07IsMapType(fl.Type) {
			return true
		}
	}
	return false
}

func (ev *c07Eval) constName(value, srcName string) string {
	n, ok := c07CanonConst[value]
	if !ok {
		n = srcName
		if n == "" {
			n = "lit:" + value
		}
	}
	ev.used[n] = value
	return n
}

// a string-valued expression: a constant (canonical name), a parameter bound by the caller, a literal
func (ev *c07Eval) scalar(e ast.Expr, env *c07Env) string {
	switch x := e.(type) {
	case *ast.ParenExpr:
		return ev.scalar(x.X, env)
	case *ast.BasicLit:
		if s, ok := strLit(x); ok {
			return ev.constName(s, "")
		}
	case *ast.Ident:
		if s, ok := env.scalars[x.Name]; ok {
			return s
		}
		if v, ok := ev.consts[x.Name]; ok {
			return ev.constName(v, x.Name)
		}
	}
	return ev.unknownRow("string expression %s", c07Text(e))
}

func c07IsMapType(e ast.Expr) bool {
	_, ok := e.(*ast.MapType)
	return ok
}

func c07Sel(e ast.Expr) (string, string, bool) {
	se, ok := e.(*ast.SelectorExpr)
	if !ok {
		return "", "", false
	}
	id, ok := se.X.(*ast.Ident)
	if !ok {
		return "", "", false
	}
	return id.Name, se.Sel.Name, true
}

const c07MaxDepth = 4

// a map-valued expression; nil when the expression is not map-valued as far as we can tell
func (ev *c07Eval) mapExpr(e ast.Expr, env *c07Env, depth int) *c07Map {
	switch x := e.(type) {
	case *ast.ParenExpr:
		return ev.mapExpr(x.X, env, depth)
	case *ast.Ident:
		if m, ok := env.maps[x.Name]; ok {
			return m
		}
		if x.Name == "nil" {
			return &c07Map{Kind: "merge"}
		}
		return nil
	case *ast.CompositeLit:
		if !c07IsMapType(x.Type) {
			return nil
		}
		m := &c07Map{Kind: "lit"}
		for _, el := range x.Elts {
			kv, ok := el.(*ast.KeyValueExpr)
			if !ok {
				return c07Unknown("map literal element %s", c07Text(el))
			}
			m.Pairs = append(m.Pairs, [2]string{ev.scalar(kv.Key, env), ev.scalar(kv.Value, env)})
		}
		return m
	case *ast.CallExpr:
		if id, ok := x.Fun.(*ast.Ident); ok {
			if id.Name == "make" && len(x.Args) >= 1 && c07IsMapType(x.Args[0]) {
				return &c07Map{Kind: "merge"} // fresh, empty (a size hint changes nothing)
			}
			if fd, ok := ev.funcs[id.Name]; ok && depth < c07MaxDepth && c07ReturnsMap(fd) {
				ret, _ := ev.call(fd, x.Args, env, depth+1)
				if ret == nil {
					ret = c07Unknown("%s returns no map we can read", id.Name)
				}
				return ret
			}
		}
		if pkg, fn, ok := c07Sel(x.Fun); ok && pkg == "maps" && fn == "Clone" && len(x.Args) == 1 {
			if src := ev.mapExpr(x.Args[0], env, depth); src != nil {
				return &c07Map{Kind: "merge", Parts: []*c07Map{src}}
			}
			return c07Unknown("maps.Clone(%s)", c07Text(x.Args[0]))
		}
		if pkg, fn, ok := c07Sel(x.Fun); ok && pkg == "accessor" && (fn == "Labels" || fn == "Annotations") {
			return &c07Map{Kind: "accessor", Name: fn}
		}
		return nil
	}
	return nil
}

// call: evaluate a same-package function with the given arguments; its returned map (if any) and
// the setter effects of its body
func (ev *c07Eval) call(fd *ast.FuncDecl, args []ast.Expr, caller *c07Env, depth int) (*c07Map, []c07Effect) {
	env := c07NewEnv()
	i := 0
	if fd.Type.Params != nil {
		for _, fl := range fd.Type.Params.List {
			for _, n := range fl.Names {
				if i < len(args) {
					if c07IsMapType(fl.Type) {
						if m := ev.mapExpr(args[i], caller, depth); m != nil {
							env.maps[n.Name] = m
						} else {
							env.maps[n.Name] = c07Unknown("argument %s", c07Text(args[i]))
						}
					} else if id, ok := fl.Type.(*ast.Ident); ok && id.Name == "string" {
						env.scalars[n.Name] = ev.scalar(args[i], caller)
					}
				}
				i++
			}
		}
	}
	if fd.Body == nil {
		return nil, nil
	}
	return ev.block(fd.Body.List, env, depth)
}

// appendTo: dst receives a copy of every entry of src
func c07AppendTo(env *c07Env, dst string, src *c07Map) {
	cur, ok := env.maps[dst]
	if !ok || cur.Kind != "merge" {
		if ok {
			cur = &c07Map{Kind: "merge", Parts: []*c07Map{cur}}
		} else {
			cur = &c07Map{Kind: "merge", Parts: []*c07Map{c07Unknown("copy into undefined map %s", dst)}}
		}
	} else {
		cur = &c07Map{Kind: "merge", Parts: append([]*c07Map{}, cur.Parts...)}
	}
	cur.Parts = append(cur.Parts, src)
	env.maps[dst] = cur
}

// `for k, v := range SRC { DST[k] = v }`: returns DST and SRC
func c07CopyLoop(rs *ast.RangeStmt) (string, ast.Expr, bool) {
	if rs.Body == nil || len(rs.Body.List) != 1 || rs.Key == nil || rs.Value == nil {
		return "", nil, false
	}
	as, ok := rs.Body.List[0].(*ast.AssignStmt)
	if !ok || as.Tok != token.ASSIGN || len(as.Lhs) != 1 || len(as.Rhs) != 1 {
		return "", nil, false
	}
	ix, ok := as.Lhs[0].(*ast.IndexExpr)
	if !ok {
		return "", nil, false
	}
	dst, ok := ix.X.(*ast.Ident)
	if !ok || c07Ident(ix.Index) != c07Ident(rs.Key) || c07Ident(as.Rhs[0]) != c07Ident(rs.Value) || c07Ident(rs.Key) == "?" {
		return "", nil, false
	}
	return dst.Name, rs.X, true
}

func c07Ident(e ast.Expr) string {
	if id, ok := e.(*ast.Ident); ok {
		return id.Name
	}
	return "?"
}

// onlyReturns: an error path (`if err != nil { return ... }`), nothing that concerns us
func c07OnlyReturns(b *ast.BlockStmt) bool {
	if b == nil {
		return true
	}
	for _, s := range b.List {
		if _, ok := s.(*ast.ReturnStmt); !ok {
			return false
		}
	}
	return true
}

// mentions: does the node call a setter, a copy, or a same-package function that could
func (ev *c07Eval) mentions(n ast.Node, depth int) bool {
	found := false
	ast.Inspect(n, func(x ast.Node) bool {
		ce, ok := x.(*ast.CallExpr)
		if !ok || found {
			return !found
		}
		if pkg, fn, ok := c07Sel(ce.Fun); ok && ((pkg == "accessor" && strings.HasPrefix(fn, "Set")) || (pkg == "maps" && fn == "Copy")) {
			found = true
		}
		if id, ok := ce.Fun.(*ast.Ident); ok {
			if fd, ok := ev.funcs[id.Name]; ok && fd.Body != nil && depth < c07MaxDepth && ev.mentions(fd.Body, depth+1) {
				found = true
			}
		}
		return !found
	})
	return found
}

// an expression evaluated for its effects (value ignored or an error)
func (ev *c07Eval) effectsOf(e ast.Expr, env *c07Env, depth int) []c07Effect {
	ce, ok := e.(*ast.CallExpr)
	if !ok {
		return nil
	}
	if pkg, fn, ok := c07Sel(ce.Fun); ok && pkg == "accessor" && (fn == "SetLabels" || fn == "SetAnnotations") && len(ce.Args) == 2 {
		v := ev.mapExpr(ce.Args[1], env, depth)
		if v == nil {
			v = c07Unknown("argument of %s: %s", fn, c07Text(ce.Args[1]))
		}
		return []c07Effect{{fn, v}}
	}
	if pkg, fn, ok := c07Sel(ce.Fun); ok && pkg == "maps" && fn == "Copy" && len(ce.Args) == 2 {
		src := ev.mapExpr(ce.Args[1], env, depth)
		if src == nil {
			src = c07Unknown("maps.Copy source %s", c07Text(ce.Args[1]))
		}
		if dst, ok := ce.Args[0].(*ast.Ident); ok {
			c07AppendTo(env, dst.Name, src)
		}
		return nil
	}
	if id, ok := ce.Fun.(*ast.Ident); ok {
		if fd, ok := ev.funcs[id.Name]; ok && depth < c07MaxDepth && fd.Body != nil && ev.mentions(fd.Body, depth) {
			_, eff := ev.call(fd, ce.Args, env, depth+1)
			return eff
		}
	}
	return nil
}

func (ev *c07Eval) assign(lhs []ast.Expr, rhs []ast.Expr, env *c07Env, depth int) []c07Effect {
	if len(rhs) != 1 || len(lhs) == 0 {
		// x, y := a, b
		if len(rhs) == len(lhs) {
			var eff []c07Effect
			for i := range lhs {
				eff = append(eff, ev.assign(lhs[i:i+1], rhs[i:i+1], env, depth)...)
			}
			return eff
		}
		return nil
	}
	name := c07Ident(lhs[0])
	if m := ev.mapExpr(rhs[0], env, depth); m != nil {
		if name != "?" && name != "_" {
			env.maps[name] = m
		}
		// a helper called for its value may also have effects
		return nil
	}
	switch x := rhs[0].(type) {
	case *ast.BasicLit:
		if s, ok := strLit(x); ok && name != "?" {
			env.scalars[name] = ev.constName(s, "")
		}
		return nil
	case *ast.Ident:
		if s, ok := env.scalars[x.Name]; ok && name != "?" {
			env.scalars[name] = s
		}
		return nil
	}
	// err := mergeLabels(obj, m)
	return ev.effectsOf(rhs[0], env, depth)
}

// block: run the statements; the returned map (of a `return <map>`) and the setter effects
func (ev *c07Eval) block(stmts []ast.Stmt, env *c07Env, depth int) (*c07Map, []c07Effect) {
	var ret *c07Map
	var eff []c07Effect
	for _, st := range stmts {
		switch s := st.(type) {
		case *ast.AssignStmt:
			if s.Tok == token.DEFINE || s.Tok == token.ASSIGN {
				if ix, ok := s.Lhs[0].(*ast.IndexExpr); ok && len(s.Lhs) == 1 && len(s.Rhs) == 1 {
					// dst[k] = v outside a copy loop: one entry
					if dst, ok := ix.X.(*ast.Ident); ok {
						c07AppendTo(env, dst.Name, &c07Map{Kind: "lit", Pairs: [][2]string{{ev.scalar(ix.Index, env), ev.scalar(s.Rhs[0], env)}}})
						continue
					}
				}
				eff = append(eff, ev.assign(s.Lhs, s.Rhs, env, depth)...)
			}
		case *ast.DeclStmt:
			if gd, ok := s.Decl.(*ast.GenDecl); ok && gd.Tok == token.VAR {
				for _, sp := range gd.Specs {
					vs := sp.(*ast.ValueSpec)
					for i, n := range vs.Names {
						if i < len(vs.Values) {
							eff = append(eff, ev.assign([]ast.Expr{n}, []ast.Expr{vs.Values[i]}, env, depth)...)
						} else if vs.Type != nil && c07IsMapType(vs.Type) {
							env.maps[n.Name] = &c07Map{Kind: "merge"}
						}
					}
				}
			}
		case *ast.RangeStmt:
			if dst, src, ok := c07CopyLoop(s); ok {
				m := ev.mapExpr(src, env, depth)
				if m == nil {
					m = c07Unknown("range over %s", c07Text(src))
				}
				c07AppendTo(env, dst, m)
				continue
			}
			// for _, m := range []map[string]string{a, b} { <copy loop over m> }
			if cl, ok := s.X.(*ast.CompositeLit); ok && s.Body != nil && len(s.Body.List) == 1 && s.Value != nil {
				if inner, ok := s.Body.List[0].(*ast.RangeStmt); ok {
					if dst, src, ok := c07CopyLoop(inner); ok && c07Ident(src) == c07Ident(s.Value) {
						for _, el := range cl.Elts {
							m := ev.mapExpr(el, env, depth)
							if m == nil {
								m = c07Unknown("range over %s", c07Text(el))
							}
							c07AppendTo(env, dst, m)
						}
						continue
					}
				}
			}
			if ev.mentions(s, depth) || c07TouchesMaps(s, env) {
				eff = append(eff, c07Effect{"?", c07Unknown("loop `for ... range %s`", c07Text(s.X))})
			}
		case *ast.ExprStmt:
			eff = append(eff, ev.effectsOf(s.X, env, depth)...)
		case *ast.IfStmt:
			if c07NilGuard(s, env) {
				continue // `if m == nil { m = make(map...) }`: a nil map has no entries, nothing changes
			}
			if s.Init != nil {
				_, e2 := ev.block([]ast.Stmt{s.Init}, env, depth)
				eff = append(eff, e2...)
			}
			bodyPlain := c07OnlyReturns(s.Body) || !(ev.mentions(s.Body, depth) || c07TouchesMaps(s.Body, env))
			elsePlain := s.Else == nil || !(ev.mentions(s.Else, depth) || c07TouchesMaps(s.Else, env))
			if !bodyPlain || !elsePlain {
				eff = append(eff, c07Effect{"?", c07Unknown("conditional `if %s`", c07Text(s.Cond))})
			}
		case *ast.ReturnStmt:
			for _, r := range s.Results {
				if fl, ok := r.(*ast.FuncLit); ok { // the visitor closure: same scope
					m, e2 := ev.block(fl.Body.List, env, depth)
					eff = append(eff, e2...)
					if m != nil && ret == nil {
						ret = m
					}
					continue
				}
				if m := ev.mapExpr(r, env, depth); m != nil {
					if ret == nil {
						ret = m
					}
					continue
				}
				eff = append(eff, ev.effectsOf(r, env, depth)...)
			}
		case *ast.BlockStmt:
			m, e2 := ev.block(s.List, env, depth)
			eff = append(eff, e2...)
			if m != nil && ret == nil {
				ret = m
			}
		default:
			if ev.mentions(st, depth) {
				eff = append(eff, c07Effect{"?", c07Unknown("statement %T", st)})
			}
		}
	}
	return ret, eff
}

// `if m == nil { m = make(map[K]V...) }` for a map we track
func c07NilGuard(s *ast.IfStmt, env *c07Env) bool {
	be, ok := s.Cond.(*ast.BinaryExpr)
	if !ok || be.Op != token.EQL || s.Init != nil || s.Else != nil || s.Body == nil || len(s.Body.List) != 1 {
		return false
	}
	name := c07Ident(be.X)
	if c07Ident(be.Y) != "nil" {
		return false
	}
	if _, ok := env.maps[name]; !ok {
		return false
	}
	as, ok := s.Body.List[0].(*ast.AssignStmt)
	if !ok || as.Tok != token.ASSIGN || len(as.Lhs) != 1 || len(as.Rhs) != 1 || c07Ident(as.Lhs[0]) != name {
		return false
	}
	ce, ok := as.Rhs[0].(*ast.CallExpr)
	return ok && c07Ident(ce.Fun) == "make" && len(ce.Args) >= 1 && c07IsMapType(ce.Args[0])
}

// a map literal (or a run of entry assignments) is a map: one value per key (the last one), no order
var c07KeyRank = map[string]int{"appManagedByLabel": 0, "helmReleaseNameAnnotation": 1, "helmReleaseNamespaceAnnotation": 2}

func c07NormPairs(ps [][2]string) [][2]string {
	last := map[string]string{}
	var keys []string
	for _, p := range ps {
		if _, ok := last[p[0]]; !ok {
			keys = append(keys, p[0])
		}
		last[p[0]] = p[1]
	}
	sort.SliceStable(keys, func(i, j int) bool {
		ri, oki := c07KeyRank[keys[i]]
		rj, okj := c07KeyRank[keys[j]]
		switch {
		case oki && okj:
			return ri < rj
		case oki != okj:
			return oki
		}
		return keys[i] < keys[j]
	})
	out := make([][2]string, 0, len(keys))
	for _, k := range keys {
		out = append(out, [2]string{k, last[k]})
	}
	return out
}

// does the node assign into one of the maps we track (an entry or the variable)
func c07TouchesMaps(n ast.Node, env *c07Env) bool {
	found := false
	ast.Inspect(n, func(x ast.Node) bool {
		as, ok := x.(*ast.AssignStmt)
		if !ok {
			return !found
		}
		for _, l := range as.Lhs {
			if ix, ok := l.(*ast.IndexExpr); ok {
				if _, ok := env.maps[c07Ident(ix.X)]; ok {
					found = true
				}
			}
			if _, ok := env.maps[c07Ident(l)]; ok && as.Tok == token.ASSIGN {
				found = true
			}
		}
		return !found
	})
	return found
}

func c07CoqPairs(ps [][2]string) string {
	var it []string
	for _, p := range ps {
		it = append(it, hx.CoqPair(hx.CoqStr(p[0]), hx.CoqStr(p[1])))
	}
	return hx.CoqList(it)
}

func genStampTable(repo string) (string, error) {
	ev := &c07Eval{funcs: map[string]*ast.FuncDecl{}, consts: map[string]string{}, used: map[string]string{}}
	files, _ := filepath.Glob(filepath.Join(repo, "pkg/action/*.go"))
	sort.Strings(files)
	type site struct{ file, arg string }
	var parsed []*ast.File
	var names []string
	for _, p := range files {
		base := filepath.Base(p)
		if strings.HasSuffix(base, "_test.go") || strings.HasPrefix(base, "zz_verif_") {
			continue
		}
		f, _, err := parseFile(repo, "pkg/action/"+base)
		if err != nil {
			ev.extra = append(ev.extra, ev.unknownRow("%s does not parse: %v", base, err))
			continue
		}
		parsed = append(parsed, f)
		names = append(names, base)
		for _, d := range f.Decls {
			switch x := d.(type) {
			case *ast.FuncDecl:
				if x.Recv == nil {
					ev.funcs[x.Name.Name] = x
				}
			case *ast.GenDecl:
				if x.Tok != token.CONST {
					continue
				}
				for _, s := range x.Specs {
					vs := s.(*ast.ValueSpec)
					for i, n := range vs.Names {
						if i < len(vs.Values) {
							if v, ok := strLit(vs.Values[i]); ok {
								ev.consts[n.Name] = v
							}
						}
					}
				}
			}
		}
	}

	// ---- mergeStrStrMaps(p1, p2): the order in which the parameters are copied ----
	params := []string{"current", "desired"} // canonical, by position
	var loops []string
	if ms := ev.funcs["mergeStrStrMaps"]; ms == nil || ms.Body == nil {
		loops = []string{ev.unknownRow("mergeStrStrMaps not found in pkg/action")}
	} else {
		env := c07NewEnv()
		i := 0
		for _, fl := range ms.Type.Params.List {
			for _, n := range fl.Names {
				if i < 2 && c07IsMapType(fl.Type) {
					env.maps[n.Name] = &c07Map{Kind: "param", Name: params[i]}
				}
				i++
			}
		}
		if i != 2 || len(env.maps) != 2 {
			loops = []string{ev.unknownRow("mergeStrStrMaps does not take two maps")}
		} else {
			ret, eff := ev.block(ms.Body.List, env, 0)
			for _, e := range eff {
				if e.Val != nil && e.Val.Kind == "unknown" {
					loops = append(loops, ev.unknownRow("mergeStrStrMaps: %s", e.Val.Text))
				}
			}
			if ret == nil {
				loops = append(loops, ev.unknownRow("mergeStrStrMaps: no returned map"))
			}
			for _, p := range ret.flatten() {
				switch p.Kind {
				case "param":
					loops = append(loops, p.Name)
				case "unknown":
					loops = append(loops, ev.unknownRow("mergeStrStrMaps: %s", p.Text))
				default:
					loops = append(loops, ev.unknownRow("mergeStrStrMaps copies a %s map", p.Kind))
				}
			}
		}
	}

	// ---- setMetadataVisitor(name, namespace, force): what reaches SetLabels / SetAnnotations ----
	calls := map[string][]string{}
	vmaps := map[string][][2]string{}
	setterOf := map[string]string{"mergeLabels": "SetLabels", "mergeAnnotations": "SetAnnotations"}
	accOf := map[string]string{"mergeLabels": "Labels", "mergeAnnotations": "Annotations"}
	var effects []c07Effect
	if sv := ev.funcs["setMetadataVisitor"]; sv == nil || sv.Body == nil {
		ev.extra = append(ev.extra, ev.unknownRow("setMetadataVisitor not found in pkg/action"))
	} else {
		env := c07NewEnv()
		canon := []string{"releaseName", "releaseNamespace"}
		i := 0
		for _, fl := range sv.Type.Params.List {
			for _, n := range fl.Names {
				if id, ok := fl.Type.(*ast.Ident); ok && id.Name == "string" && i < 2 {
					env.scalars[n.Name] = canon[i]
					i++
				}
			}
		}
		_, effects = ev.block(sv.Body.List, env, 0)
	}
	for _, fn := range []string{"mergeLabels", "mergeAnnotations"} {
		var mine []c07Effect
		for _, e := range effects {
			if e.Setter == setterOf[fn] {
				mine = append(mine, e)
			}
		}
		if len(mine) != 1 {
			r := ev.unknownRow("setMetadataVisitor reaches accessor.%s %d times", setterOf[fn], len(mine))
			calls[fn] = []string{r}
			vmaps[fn] = [][2]string{{r, r}}
			continue
		}
		parts := mine[0].Val.flatten()
		// the sources, in copy order: exactly the object's own map and one literal
		var roles []string
		var lit *c07Map
		for _, p := range parts {
			switch {
			case p.Kind == "accessor":
				roles = append(roles, "object:"+p.Name)
			case p.Kind == "lit" && lit == nil:
				lit = p
				roles = append(roles, "param")
			case p.Kind == "lit": // two literals copied one after the other: one literal, later entries win
				lit = &c07Map{Kind: "lit", Pairs: append(append([][2]string{}, lit.Pairs...), p.Pairs...)}
				if roles[len(roles)-1] != "param" {
					roles = append(roles, ev.unknownRow("%s: literals on both sides of the object's map", setterOf[fn]))
				}
			case p.Kind == "unknown":
				roles = append(roles, ev.unknownRow("%s: %s", setterOf[fn], p.Text))
			default:
				roles = append(roles, ev.unknownRow("%s: a %s map %s", setterOf[fn], p.Kind, p.Name))
			}
		}
		// which source plays which parameter of the merge: source i is copied i-th, and the merge
		// copies its parameters in the order merge_loops
		arg := map[string]string{}
		if len(roles) == 2 && len(loops) == 2 && loops[0] != loops[1] {
			arg[loops[0]], arg[loops[1]] = roles[0], roles[1]
			calls[fn] = []string{arg["current"], arg["desired"]}
		} else {
			calls[fn] = roles
		}
		for i, r := range calls[fn] {
			if r == "" {
				calls[fn][i] = ev.unknownRow("%s: cannot relate the %d sources to the merge", setterOf[fn], len(roles))
			}
		}
		if lit != nil {
			vmaps[fn] = c07NormPairs(lit.Pairs)
		} else {
			r := ev.unknownRow("%s: no literal map reaches it", setterOf[fn])
			vmaps[fn] = [][2]string{{r, r}}
		}
		_ = accOf
	}
	for _, e := range effects {
		if e.Setter == "?" {
			ev.extra = append(ev.extra, ev.unknownRow("setMetadataVisitor: %s", e.Val.Text))
		}
	}

	// ---- the force argument at every call site ----
	var sites [][2]string
	for k, af := range parsed {
		for _, d := range af.Decls {
			fd, ok := d.(*ast.FuncDecl)
			if !ok || fd.Body == nil {
				continue
			}
			// simple local booleans of the enclosing function
			locals := map[string]string{}
			ast.Inspect(fd.Body, func(n ast.Node) bool {
				if as, ok := n.(*ast.AssignStmt); ok && len(as.Lhs) == 1 && len(as.Rhs) == 1 {
					if v := c07Ident(as.Rhs[0]); v == "true" || v == "false" {
						if prev, seen := locals[c07Ident(as.Lhs[0])]; seen && prev != v {
							locals[c07Ident(as.Lhs[0])] = "?"
						} else {
							locals[c07Ident(as.Lhs[0])] = v
						}
					}
				}
				return true
			})
			ast.Inspect(fd.Body, func(n ast.Node) bool {
				ce, ok := n.(*ast.CallExpr)
				if !ok {
					return true
				}
				if id, ok := ce.Fun.(*ast.Ident); ok && id.Name == "setMetadataVisitor" && len(ce.Args) == 3 {
					a := c07Text(ce.Args[2])
					if v, ok := locals[a]; ok && v != "?" {
						a = v
					}
					sites = append(sites, [2]string{names[k], a})
				}
				return true
			})
		}
	}

	// ---- print ----
	var b strings.Builder
	var cps [][2]string
	seenC := map[string]bool{}
	var refs []string
	for _, fn := range []string{"mergeLabels", "mergeAnnotations"} {
		for _, kv := range vmaps[fn] {
			refs = append(refs, kv[0], kv[1])
		}
	}
	for _, n := range append([]string{"appManagedByLabel", "appManagedByHelm", "helmReleaseNameAnnotation", "helmReleaseNamespaceAnnotation"}, refs...) {
		referenced := false
		for _, r := range refs {
			referenced = referenced || r == n
		}
		if v, ok := ev.used[n]; ok && referenced && !seenC[n] {
			seenC[n] = true
			cps = append(cps, [2]string{n, v})
		}
	}
	fmt.Fprintf(&b, "Definition stamp_consts : list (string * string) := %s.\n\n", c07CoqPairs(cps))
	fmt.Fprintf(&b, "Definition merge_params : list string := %s.\nDefinition merge_loops : list string := %s.\n\n", hx.CoqStrList(params), hx.CoqStrList(loops))
	var cl, vl []string
	for _, fn := range []string{"mergeLabels", "mergeAnnotations"} {
		cl = append(cl, hx.CoqPair(hx.CoqStr(fn), hx.CoqStrList(calls[fn])))
		vl = append(vl, hx.CoqPair(hx.CoqStr(fn), c07CoqPairs(vmaps[fn])))
	}
	fmt.Fprintf(&b, "Definition merge_calls : list (string * list string) := %s.\n\n", hx.CoqList(cl))
	fmt.Fprintf(&b, "Definition visitor_maps : list (string * list (string * string)) := %s.\n\n", hx.CoqList(vl))
	fmt.Fprintf(&b, "Definition visitor_force_sites : list (string * string) := %s.\n\n", c07CoqPairs(sites))
	unknowns := append([]string{}, ev.extra...)
	cell := func(c string) {
		if strings.HasPrefix(c, "Unknown \"") {
			unknowns = append(unknowns, c)
		}
	}
	for _, c := range loops {
		cell(c)
	}
	for _, fn := range []string{"mergeLabels", "mergeAnnotations"} {
		for _, c := range calls[fn] {
			cell(c)
		}
		for _, kv := range vmaps[fn] {
			cell(kv[0])
			cell(kv[1])
		}
	}
	for _, st := range sites {
		if st[1] != "true" && st[1] != "false" {
			unknowns = append(unknowns, ev.unknownRow("force argument %s in %s", st[1], st[0]))
		}
	}
	fmt.Fprintf(&b, "(* constructs the translator could not interpret *)\nDefinition stamp_table_unknowns : list string := %s.\n", hx.CoqStrList(unknowns))
	return b.String(), nil
}

package main

// C08 generators: documents, files, raw streams, resource lists.  Every random choice comes
// from the *rand.Rand handed in.

import (
	"fmt"
	"math/rand"
	"path"
	"strings"

	releaseutil "helm.sh/helm/v4/pkg/release/util"
)

const c08ChartName = "c08chart"

func c08IsPartial(p string) bool { return strings.HasPrefix(path.Base(p), "_") }
func c08IsNotes(p string) bool   { return strings.HasSuffix(p, "NOTES.txt") }

func c08KnownKind(k string) bool {
	for _, x := range releaseutil.InstallOrder {
		if x == k {
			return true
		}
	}
	return false
}

var c08UnknownKinds = []string{"Zebra", "Alpha", "Widget", "alpha", "configmap", "CronTab", "Ωmega"}

var c08HookValues = []string{
	"pre-install", "post-install", "pre-delete", "post-delete", "pre-upgrade", "post-upgrade", "pre-rollback",
	"post-rollback", "test", "test-success",
	"pre-install,post-install", "pre-upgrade, post-upgrade ,test", " Pre-Install ", "TEST", "post-delete,pre-delete,post-delete",
	// dropped: at least one unknown token
	"pre-instal", "bogus", "pre-install,bogus", "bogus,pre-install", "", "pre-install,", ",test", "pre install", "test-failure",
	"post-install,pre-delete,crd-install",
}

var c08Weights = []string{"0", "5", "-3", "+7", "007", "abc", "", "1.5", "99999999999999999999", " 5", "0x10", "-0", "9223372036854775807", "-9223372036854775808", "9223372036854775808", "1_0", "-", "+"}

var c08Policies = []string{"hook-succeeded", "hook-failed", "before-hook-creation", "before-hook-creation,hook-succeeded",
	" Hook-Succeeded , hook-failed", "bogus", "", "hook-succeeded,"}

// c08MakeDoc builds a resource document.  extraAnn is raw, already indented annotation lines.
func c08MakeDoc(kind, name string, hook *string, extraAnn string, nl string, variant int) c08Doc {
	var b strings.Builder
	line := func(s string) { b.WriteString(s); b.WriteString(nl) }
	kindLine := func() {
		if kind != "\x00" {
			line("kind: " + kind)
		}
	}
	if variant%2 == 0 {
		line("apiVersion: v1")
		kindLine()
	} else {
		kindLine()
		line("apiVersion: v1")
	}
	switch {
	case variant%7 == 3 && hook == nil && extraAnn == "":
		// no metadata at all
	case variant%7 == 4 && hook == nil && extraAnn == "":
		line("metadata:")
		line("  name: " + name)
		line("  annotations: {}")
	default:
		line("metadata:")
		line("  name: " + name)
		if hook != nil || extraAnn != "" {
			line("  annotations:")
			if variant%3 == 1 {
				line("    example.com/owner: \"team-a\"")
			}
			if hook != nil {
				line("    \"helm.sh/hook\": \"" + *hook + "\"")
			}
			if extraAnn != "" {
				b.WriteString(strings.ReplaceAll(extraAnn, "\n", nl))
			}
		}
	}
	if variant%4 == 0 {
		line("data:")
		line("  key: \"value of " + name + "\"")
	}
	if variant%5 == 2 {
		line("  # a comment inside the document")
		line("  dashes: \"a --- b\"")
		line("  more: x---y")
	}
	d := c08Doc{Text: []byte(b.String()), Class: "resource", Name: name, HookAnn: hook}
	if kind != "\x00" {
		d.Kind = kind
	}
	return d
}

// c08GenDoc: one random document; palette = kinds in use for this case.
func c08GenDoc(r *rand.Rand, palette []string, id int, nl string, quirky bool) c08Doc {
	switch k := r.Intn(100); {
	case k < 7:
		return c08Doc{Text: []byte("# only a comment" + nl + "# " + fmt.Sprint(id) + nl), Class: "comment"}
	case k < 12:
		return c08Doc{Text: []byte([]string{"", " ", nl, "  " + nl + nl, "\t"}[r.Intn(5)]), Class: "blank"}
	}
	kind := palette[r.Intn(len(palette))]
	name := fmt.Sprintf("obj-%d", id)
	if r.Intn(12) == 0 {
		name = "same-name"
	}
	var hook *string
	extra := ""
	if r.Intn(100) < 35 {
		v := c08HookValues[r.Intn(len(c08HookValues))]
		hook = &v
		if r.Intn(2) == 0 {
			extra += "    \"helm.sh/hook-weight\": \"" + c08Weights[r.Intn(len(c08Weights))] + "\"\n"
		}
		if r.Intn(2) == 0 {
			extra += "    \"helm.sh/hook-delete-policy\": \"" + c08Policies[r.Intn(len(c08Policies))] + "\"\n"
		}
		if r.Intn(4) == 0 {
			extra += "    \"helm.sh/hook-output-log-policy\": \"" + c08Policies[r.Intn(len(c08Policies))] + "\"\n"
		}
	} else if r.Intn(5) == 0 {
		// annotations, but not the hook one (weight alone does not make a hook)
		extra = "    \"helm.sh/hook-weight\": \"3\"\n"
		if r.Intn(2) == 0 {
			extra = "    \"helm.sh/resource-policy\": \"keep\"\n"
		}
	}
	d := c08MakeDoc(kind, name, hook, extra, nl, r.Intn(1000))
	if quirky && r.Intn(4) == 0 {
		// white space that TrimSpace removes but the separator's \s does not match
		d.Text = append(d.Text, []string{"\v", " ", "\u0085", " \n", " \f"}[r.Intn(5)]...)
	}
	return d
}

var c08CleanSeps = []string{"\n---\n", "\n---\n", "\n---\n", "\n--- \n", "\r\n---\r\n", "\n\n---\n\n", "  \n---\n", "\n---\t\n", "\n---\n\n\n", " \t\n---\n", "\n---\r\n"}
var c08QuirkySeps = []string{"\n---\n---\n", "\n---", "---\n", "\n ---\n", "\n----\n", "\n--- # comment\n", "\n---\n\v\n---\n", "\n--- ---\n", "\n...\n---\n", "\n ---\n", "\n---\n--- \n---\n"}
var c08Leads = []string{"", "", "", "---\n", "\n\n", "---\r\n", "--- \n\n", "  \n", "\n---\n"}
var c08Trails = []string{"", "\n", "\n", "\n---\n", "\n\n  ", "\n---", "\r\n", "\n--- \n\n"}

// c08Join assembles a file; seps are cycled.  The result is Clean when only separators of
// the w1 "\n---" w2 shape were used (the caller says so by passing clean separators).
func c08Join(p string, docs []c08Doc, seps []string, lead, trail string) c08File {
	var b strings.Builder
	b.WriteString(lead)
	for i, d := range docs {
		if i > 0 {
			if len(seps) == 0 {
				b.WriteString("\n---\n")
			} else {
				b.WriteString(seps[(i-1)%len(seps)])
			}
		}
		b.Write(d.Text)
	}
	b.WriteString(trail)
	clean := true
	for _, s := range seps {
		ok := false
		for _, c := range c08CleanSeps {
			if s == c {
				ok = true
			}
		}
		clean = clean && ok
	}
	return c08File{Path: p, Content: []byte(b.String()), Docs: docs, Clean: clean}
}

func c08Palette(r *rand.Rand) []string {
	n := 3 + r.Intn(3)
	var p []string
	for i := 0; i < n; i++ {
		switch k := r.Intn(10); {
		case k < 6:
			p = append(p, releaseutil.InstallOrder[r.Intn(len(releaseutil.InstallOrder))])
		case k < 9:
			p = append(p, c08UnknownKinds[r.Intn(len(c08UnknownKinds))])
		default:
			p = append(p, "\x00") // no kind line
		}
	}
	return p
}

func c08GenFile(r *rand.Rand, p string, palette []string, id *int, quirky bool, allowMalformed bool) c08File {
	nl := "\n"
	if r.Intn(6) == 0 {
		nl = "\r\n"
	}
	n := r.Intn(6)
	if r.Intn(15) == 0 {
		n = 11 + r.Intn(4)
	}
	var docs []c08Doc
	for i := 0; i < n; i++ {
		*id++
		d := c08GenDoc(r, palette, *id, nl, quirky)
		if r.Intn(14) == 0 && len(docs) > 0 {
			d = docs[r.Intn(len(docs))] // an exact duplicate
		}
		docs = append(docs, d)
	}
	if allowMalformed && n > 0 {
		bad := []string{"kind: ConfigMap\nmetadata:\n  annotations:\n    helm.sh/hook-weight: 5\n", "a: b: c\n", "\tkind: X\n", "just a string\n",
			"- a\n- list\n", "kind: [unclosed\n", "metadata: 7\n"}
		docs[r.Intn(len(docs))] = c08Doc{Text: []byte(bad[r.Intn(len(bad))]), Class: "malformed"}
	}
	var seps []string
	for i := 0; i+1 < len(docs) || i < 1; i++ {
		if quirky && r.Intn(3) == 0 {
			seps = append(seps, c08QuirkySeps[r.Intn(len(c08QuirkySeps))])
		} else {
			seps = append(seps, c08CleanSeps[r.Intn(len(c08CleanSeps))])
		}
	}
	lead, trail := c08Leads[r.Intn(len(c08Leads))], c08Trails[r.Intn(len(c08Trails))]
	f := c08Join(p, docs, seps, lead, trail)
	if quirky {
		f.Clean = false
	}
	return f
}

var c08Paths = []string{"templates/deployment.yaml", "templates/service.yaml", "templates/configmap.yaml", "templates/hooks/job.yaml",
	"templates/a.yaml", "templates/z.yaml", "templates/sub/dir/deep.yaml", "templates/tests/test.yaml", "templates/10-x.yaml", "templates/2-x.yaml",
	"charts/sub/templates/svc.yaml", "charts/sub/templates/cm.yaml", "templates/A-upper.yaml", "templates/notes.txt", "templates/x_y.yaml"}
var c08PartialPaths = []string{"templates/_helpers.tpl", "templates/sub/_partial.yaml", "charts/sub/templates/_x.tpl", "templates/_"}
var c08NotesPaths = []string{"templates/NOTES.txt", "charts/sub/templates/NOTES.txt", "templates/myNOTES.txt"}

func c08GenFiles(r *rand.Rand, kind string) c08Case {
	c := c08Case{Kind: kind}
	palette := c08Palette(r)
	quirky := r.Intn(4) == 0
	malformed := r.Intn(12) == 0
	c.Tag = "clean"
	if quirky {
		c.Tag = "quirky"
	}
	if malformed {
		c.Tag = "malformed"
	}
	id := 0
	nf := 1 + r.Intn(5)
	perm := r.Perm(len(c08Paths))
	badFile := r.Intn(nf)
	for i := 0; i < nf; i++ {
		c.Files = append(c.Files, c08GenFile(r, c08Paths[perm[i]], palette, &id, quirky, malformed && i == badFile))
	}
	if r.Intn(3) == 0 {
		c.Files = append(c.Files, c08GenFile(r, c08PartialPaths[r.Intn(len(c08PartialPaths))], palette, &id, false, false))
	}
	if r.Intn(8) == 0 {
		c.Files = append(c.Files, c08File{Path: "templates/blank-" + fmt.Sprint(r.Intn(3)) + ".yaml", Content: []byte([]string{"", "\n\n", "  \t\n", "\v "}[r.Intn(4)]), Clean: true})
	}
	if kind == "render" && r.Intn(2) == 0 || kind == "sort" && r.Intn(25) == 0 {
		p := c08NotesPaths[r.Intn(len(c08NotesPaths))]
		c.Files = append(c.Files, c08File{Path: p, Content: []byte("Thank you for installing.\nkind: Secret\n"), Docs: []c08Doc{{Text: []byte("Thank you for installing.\nkind: Secret\n"), Class: "notes"}}, Clean: true})
	}
	if kind == "sort" {
		// SortManifests is also called with arbitrary keys (helm template --show-only, plugins)
		for i := range c.Files {
			c.Files[i].Path = c08ChartName + "/" + c.Files[i].Path
		}
	}
	r.Shuffle(len(c.Files), func(i, j int) { c.Files[i], c.Files[j] = c.Files[j], c.Files[i] })
	return c
}

var c08SoupTokens = []string{"---", "\n", "\r\n", " ", "\t", "a: 1", "# c", "\v", "\f", " ", "\u0085", " ", "-", "--", "----", "...",
	"x", "\n---", "---\n", "é", "\xc2", "\xe2\x80", "\n---\n", "kind: A", "\u1680", "\u2000", "\u200a", "\u200b", "\u2029", "\u202f", "\u205f", "\u180e", "\ufeff", "\u2007", "\xe2\x80\x8b", "\xe1\x9a", "\x80", "　", "\xa0", "\n--- "}

func c08GenSplit(r *rand.Rand) c08Case {
	c := c08Case{Kind: "split"}
	switch k := r.Intn(10); {
	case k < 4:
		id := 0
		f := c08GenFile(r, "raw", c08Palette(r), &id, false, false)
		c.Raw, c.RawDocs, c.RawClean, c.Tag = f.Content, f.Docs, true, "structured"
	case k < 7:
		id := 0
		f := c08GenFile(r, "raw", c08Palette(r), &id, true, false)
		c.Raw, c.RawDocs, c.RawClean, c.Tag = f.Content, f.Docs, false, "quirky"
	default:
		var b strings.Builder
		for i, n := 0, r.Intn(14); i < n; i++ {
			b.WriteString(c08SoupTokens[r.Intn(len(c08SoupTokens))])
		}
		c.Raw, c.Tag = []byte(b.String()), "soup"
	}
	return c
}

// kinds the in-process API serves (all core/v1 or apps/v1, present in kubectl's test REST mapper)
var c08BarrierKinds = []string{"Namespace", "ServiceAccount", "Secret", "ConfigMap", "Service", "Pod", "ReplicationController"}

func c08GenBarrier(r *rand.Rand) c08Case {
	c := c08Case{Kind: "barrier", DelaySeed: r.Int63(), Tag: "sorted"}
	nb := 1 + r.Intn(4)
	start := r.Intn(len(c08BarrierKinds))
	for b := 0; b < nb; b++ {
		k := c08BarrierKinds[(start+b)%len(c08BarrierKinds)]
		if (start+b)%len(c08BarrierKinds) < start && r.Intn(2) == 0 {
			c.Tag = "unsorted" // wrapped around: a later batch of an earlier kind (batchPerform only compares neighbours)
		}
		for i, n := 0, 1+r.Intn(3); i < n; i++ {
			c.Kinds = append(c.Kinds, k)
		}
	}
	if r.Intn(4) == 0 {
		c.Fail = []int{r.Intn(len(c.Kinds))}
		c.Tag += "+failure"
	}
	return c
}

package main

// C08 barrier runs: the real kube.Client.Create on a kind-ordered resource list against an
// in-process API (kubectl's test factory + client-go's fake REST client) whose round-tripper
// holds every request for a seeded random time and logs the order in which requests start
// and finish.  NOTE: fake.RESTClient stores the last request in an unsynchronised field
// (see the comment in /repo/pkg/kube/client_test.go); this run is therefore not meant for -race.

import (
	"bytes"
	"encoding/json"
	"errors"
	"fmt"
	"io"
	"math/rand"
	"net/http"
	"strings"
	"sync"
	"time"

	multierror "github.com/hashicorp/go-multierror"
	"k8s.io/cli-runtime/pkg/resource"
	"k8s.io/client-go/rest/fake"
	cmdtesting "k8s.io/kubectl/pkg/cmd/testing"

	"helm.sh/helm/v4/pkg/kube"

	"verif/harness/internal/hx"
)

func c08ResourceYAML(kind string, j int) string {
	api := "v1"
	return fmt.Sprintf("apiVersion: %s\nkind: %s\nmetadata:\n  name: r%d\n  namespace: default\n", api, kind, j)
}

func c08RunBarrier(c c08Case, obs *c08Obs) {
	var mu sync.Mutex
	delays := rand.New(rand.NewSource(c.DelaySeed))
	failing := map[int]bool{}
	for _, j := range c.Fail {
		failing[j] = true
	}
	obs.Posts = map[string]int{}
	rt := func(req *http.Request) (*http.Response, error) {
		body, _ := io.ReadAll(req.Body)
		var o struct {
			Kind     string `json:"kind"`
			Metadata struct {
				Name string `json:"name"`
			} `json:"metadata"`
		}
		_ = json.Unmarshal(body, &o)
		j := -1
		fmt.Sscanf(o.Metadata.Name, "r%d", &j)
		mu.Lock()
		if req.Method == http.MethodPost {
			obs.Posts[o.Metadata.Name]++
		}
		obs.Events = append(obs.Events, c08Ev{Start: true, J: j})
		d := time.Duration(delays.Intn(1500)) * time.Microsecond
		mu.Unlock()
		time.Sleep(d)
		mu.Lock()
		obs.Events = append(obs.Events, c08Ev{Start: false, J: j})
		mu.Unlock()
		h := http.Header{}
		h.Set("Content-Type", "application/json")
		if failing[j] {
			st := `{"kind":"Status","apiVersion":"v1","status":"Failure","message":"injected","reason":"InternalError","code":500}`
			return &http.Response{StatusCode: 500, Header: h, Body: io.NopCloser(strings.NewReader(st))}, nil
		}
		return &http.Response{StatusCode: 201, Header: h, Body: io.NopCloser(bytes.NewReader(body))}, nil
	}
	tf := cmdtesting.NewTestFactory().WithNamespace("default")
	defer tf.Cleanup()
	tf.UnstructuredClient = &fake.RESTClient{
		NegotiatedSerializer: resource.UnstructuredPlusDefaultContentConfig().NegotiatedSerializer,
		Client:               fake.CreateHTTPClient(rt),
	}
	kc := &kube.Client{Factory: tf}
	var b strings.Builder
	for j, k := range c.Kinds {
		b.WriteString("---\n")
		b.WriteString(c08ResourceYAML(k, j))
	}
	list, err := kc.Build(strings.NewReader(b.String()), false)
	if err != nil {
		obs.Err, obs.ErrText = "other", "build: "+err.Error()
		return
	}
	for _, info := range list {
		obs.BuiltK = append(obs.BuiltK, info.Object.GetObjectKind().GroupVersionKind().Kind)
	}
	_, err = kc.Create(list)
	mu.Lock()
	defer mu.Unlock()
	obs.Returned = true
	if err != nil {
		obs.NFail = 1
		var me *multierror.Error
		if errors.As(err, &me) {
			obs.NFail = len(me.Errors)
		}
	}
	// events after this point would mean perform returned before its workers were finished
	obs.Events = append([]c08Ev(nil), obs.Events...)
}

func c08OracleBarrier(c c08Case, obs c08Obs) []hx.Violation {
	var vs []hx.Violation
	bad := func(sig, what string) { vs = append(vs, hx.Violation{Sig: "C08:" + sig, What: "barrier: " + what}) }
	if obs.Err != "" {
		bad("barrier-harness", "could not build the resource list: "+obs.ErrText)
		return vs
	}
	n := len(c.Kinds)
	batch := make([]int, n)
	for j := range c.Kinds {
		if j > 0 {
			batch[j] = batch[j-1]
			if c.Kinds[j] != c.Kinds[j-1] {
				batch[j]++
			}
		}
	}
	start, end := make([]int, n), make([]int, n)
	for j := range start {
		start[j], end[j] = -1, -1
	}
	for t, e := range obs.Events {
		if e.J < 0 || e.J >= n {
			bad("create-count", fmt.Sprintf("a request for an unknown resource was sent (index %d)", e.J))
			return vs
		}
		if e.Start {
			if start[e.J] >= 0 {
				bad("create-count", fmt.Sprintf("resource %d was created more than once", e.J))
				return vs
			}
			start[e.J] = t
		} else {
			end[e.J] = t
		}
	}
	for j := 0; j < n; j++ {
		if start[j] < 0 || end[j] < 0 {
			bad("create-count", fmt.Sprintf("resource %d (%s) was not created before Create returned", j, c.Kinds[j]))
			return vs
		}
		if obs.Posts[fmt.Sprintf("r%d", j)] != 1 {
			bad("create-count", fmt.Sprintf("resource %d was POSTed %d times", j, obs.Posts[fmt.Sprintf("r%d", j)]))
		}
	}
	for i := 0; i < n; i++ {
		for j := 0; j < n; j++ {
			if batch[i] < batch[j] && !(end[i] < start[j]) {
				bad("barrier-broken", fmt.Sprintf("creation of %s r%d (batch %d) started before %s r%d (batch %d) had finished", c.Kinds[j], j, batch[j], c.Kinds[i], i, batch[i]))
				return vs
			}
		}
	}
	if obs.NFail != len(c.Fail) {
		bad("error-lost", fmt.Sprintf("%d creates failed but Create reported %d errors", len(c.Fail), obs.NFail))
	}
	return vs
}

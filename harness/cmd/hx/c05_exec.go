package main

// C05 — execution of a case on the real Helm code under the regimes.

import (
	"encoding/base64"
	"encoding/json"
	"fmt"
	"io"
	"log/slog"
	"net"
	"net/http"
	"os"
	"path/filepath"
	"reflect"
	"sort"
	"strings"
	"sync"
	"sync/atomic"

	"github.com/gobwas/glob"
	"k8s.io/apimachinery/pkg/api/meta"
	"k8s.io/client-go/discovery"
	"k8s.io/client-go/dynamic"
	"k8s.io/client-go/rest"
	"sigs.k8s.io/yaml"

	"helm.sh/helm/v4/pkg/action"
	chart "helm.sh/helm/v4/pkg/chart/v2"
	"helm.sh/helm/v4/pkg/chart/v2/loader"
	chartutil "helm.sh/helm/v4/pkg/chart/v2/util"
	"helm.sh/helm/v4/pkg/engine"
	kubefake "helm.sh/helm/v4/pkg/kube/fake"
	releaseutil "helm.sh/helm/v4/pkg/release/util"
	"helm.sh/helm/v4/pkg/storage"
	"helm.sh/helm/v4/pkg/storage/driver"
)

// per-process host fixtures
type c05Host struct {
	dir      string // scratch root
	canary   string // canary directory (host files outside every chart)
	cwd      string // decoy working directory
	httpBase string
	hits     int64
	tokenA   string
	tokenB   string
	tokenEnv string
	n        int
}

var (
	c05HostOnce sync.Once
	c05H        *c05Host
)

func c05OutDir() string {
	for i, a := range os.Args {
		if a == "--out" && i+1 < len(os.Args) {
			return os.Args[i+1]
		}
		if strings.HasPrefix(a, "--out=") {
			return strings.TrimPrefix(a, "--out=")
		}
	}
	return os.TempDir()
}

func c05HostInit() *c05Host {
	c05HostOnce.Do(func() {
		slog.SetDefault(slog.New(slog.NewTextHandler(io.Discard, nil)))
		root, err := filepath.Abs(filepath.Join(c05OutDir(), fmt.Sprintf("c05-host-%d", os.Getpid())))
		if err != nil {
			panic(err)
		}
		h := &c05Host{dir: root, canary: filepath.Join(root, "canary"), cwd: filepath.Join(root, "cwd"),
			tokenA: "C05TOKENA7f3a91", tokenB: "C05TOKENB2c8e44", tokenEnv: "C05TOKENENV5d1b07"}
		for _, d := range []string{h.canary, h.cwd, filepath.Join(h.cwd, "templates"), filepath.Join(root, "tmp")} {
			if err := os.MkdirAll(d, 0o755); err != nil {
				panic(err)
			}
		}
		h.canaryState("A")
		for n, d := range map[string]string{"cwd-decoy.txt": h.tokenA, "secret.txt": h.tokenA, "s.json": `{"type":"string"}`, "sub.json": `{"type":"string"}`,
			"values.schema.json": `{"type":"string"}`, "Chart.yaml": "apiVersion: v2\nname: decoy\nversion: 9.9.9\n", "values.yaml": "str: " + h.tokenA + "\n",
			"templates/decoy.yaml": "decoy: " + h.tokenA + "\n"} {
			os.WriteFile(filepath.Join(h.cwd, n), []byte(d), 0o644)
		}
		ln, err := net.Listen("tcp", "127.0.0.1:0")
		if err == nil {
			h.httpBase = "http://" + ln.Addr().String()
			go http.Serve(ln, http.HandlerFunc(func(w http.ResponseWriter, _ *http.Request) {
				atomic.AddInt64(&h.hits, 1)
				w.Header().Set("Content-Type", "application/json")
				io.WriteString(w, `{"type":"string"}`)
			}))
		} else {
			h.httpBase = "http://127.0.0.1:1"
		}
		c05H = h
	})
	return c05H
}

// canaryState sets the content of the host files a chart must not be able to see.
func (h *c05Host) canaryState(s string) {
	secret, schema := filepath.Join(h.canary, "secret.txt"), filepath.Join(h.canary, "s.json")
	switch s {
	case "A":
		os.WriteFile(secret, []byte(h.tokenA+"\n"), 0o644)
		os.WriteFile(schema, []byte(`{"type":"string","description":"`+h.tokenA+`"}`), 0o644)
	case "B":
		os.WriteFile(secret, []byte(h.tokenB+"\nsecond line\n"), 0o644)
		os.WriteFile(schema, []byte(`{"type":"integer","description":"`+h.tokenB+`"}`), 0o644)
	case "absent":
		os.Remove(secret)
		os.Remove(schema)
	}
}

func (h *c05Host) subst(s string) string {
	if !strings.Contains(s, "@") {
		return s
	}
	return strings.NewReplacer("@CANARY@", h.canary, "@HTTP@", h.httpBase).Replace(s)
}

func (h *c05Host) tmp() string {
	h.n++
	d := filepath.Join(h.dir, "tmp", fmt.Sprint(h.n))
	os.MkdirAll(d, 0o755)
	return d
}

func c05CopyVals(v map[string]any) map[string]any {
	b, _ := json.Marshal(v)
	out := map[string]any{}
	json.Unmarshal(b, &out)
	return out
}

func c05Load(files []c05File) (*chart.Chart, error) {
	bf := make([]*loader.BufferedFile, len(files))
	for i, f := range files {
		bf[i] = &loader.BufferedFile{Name: f.Name, Data: []byte(f.Data)}
	}
	return loader.LoadFiles(bf)
}

// a cluster connection that leads nowhere: enough to make the engine "client aware"
type c05Getter struct{}

func (c05Getter) ToRESTConfig() (*rest.Config, error) {
	return &rest.Config{Host: "http://127.0.0.1:1"}, nil
}
func (c05Getter) ToDiscoveryClient() (discovery.CachedDiscoveryInterface, error) {
	return nil, fmt.Errorf("c05: no discovery")
}
func (c05Getter) ToRESTMapper() (meta.RESTMapper, error) { return nil, fmt.Errorf("c05: no mapper") }

type c05Provider struct{}

func (c05Provider) GetClientFor(_, _ string) (dynamic.NamespaceableResourceInterface, bool, error) {
	return nil, false, fmt.Errorf("c05: no cluster")
}

// c05Caps builds, without touching anything shared, the capabilities a client-only install with
// the case's --api-versions / --kube-version is meant to render with.
func c05Caps(c c05Case) *chartutil.Capabilities {
	d := chartutil.DefaultCapabilities
	caps := &chartutil.Capabilities{KubeVersion: d.KubeVersion, HelmVersion: d.HelmVersion}
	caps.APIVersions = append(append(chartutil.VersionSet{}, d.APIVersions...), c.APIVersions...)
	if c.KubeVersion != "" {
		if kv, err := chartutil.ParseKubeVersion(c.KubeVersion); err == nil {
			caps.KubeVersion = *kv
		}
	}
	return caps
}

// c05SharedSnapshot is everything of chartutil's process-wide defaults a render could reach,
// including the spare capacity of the shared version slice.
func c05SharedSnapshot() string {
	d := chartutil.DefaultCapabilities
	full := d.APIVersions[:cap(d.APIVersions)]
	dvs := chartutil.DefaultVersionSet[:cap(chartutil.DefaultVersionSet)]
	return fmt.Sprintf("kube=%+v helm=%+v len=%d cap=%d api=%q defaultset(len=%d)=%q", d.KubeVersion, d.HelmVersion, len(d.APIVersions), cap(d.APIVersions), []string(full),
		len(chartutil.DefaultVersionSet), []string(dvs))
}

// c05Install runs the real action.Install (dry-run, client-only) on a freshly loaded chart.
func c05Install(ch *chart.Chart, c c05Case, dns bool) (res c05Render) {
	return c05InstallMode(ch, c, dns, false)
}

// server=false: DryRun + ClientOnly (helm template); server=true: --dry-run=server against a
// reachable fake cluster, which makes renderResources build the engine with engine.New(restConfig)
func c05InstallMode(ch *chart.Chart, c c05Case, dns, server bool) (res c05Render) {
	defer func() {
		if p := recover(); p != nil {
			res = c05Render{Err: fmt.Sprintf("panic: %v", p)}
		}
	}()
	cfg := &action.Configuration{Releases: storage.Init(driver.NewMemory()), KubeClient: &kubefake.PrintingKubeClient{Out: io.Discard},
		Capabilities: chartutil.DefaultCapabilities}
	inst := action.NewInstall(cfg)
	if server {
		cfg.RESTClientGetter = c05Getter{}
		cfg.Capabilities = c05Caps(c) // what the cluster would report: the same capabilities
		inst.DryRunOption = "server"
	} else {
		inst.DryRun, inst.ClientOnly = true, true
		inst.APIVersions = append(chartutil.VersionSet{}, c.APIVersions...)
		if c.KubeVersion != "" {
			if kv, err := chartutil.ParseKubeVersion(c.KubeVersion); err == nil {
				inst.KubeVersion = kv
			}
		}
	}
	inst.ReleaseName, inst.Namespace = "rel", "ns"
	inst.SubNotes, inst.IncludeCRDs, inst.HideSecret, inst.EnableDNS, inst.SkipSchemaValidation = c.SubNotes, c.IncludeCRDs, c.HideSecret, dns, c.SkipSchema
	rel, err := inst.Run(ch, c05CopyVals(c.Values))
	if err != nil {
		res.Err = err.Error()
	}
	if rel == nil {
		res.NilRel = true
		return res
	}
	res.Manifest = rel.Manifest
	if rel.Info != nil {
		res.Notes = rel.Info.Notes
	}
	for _, h := range rel.Hooks {
		x := c05Hook{Name: h.Name, Kind: h.Kind, Path: h.Path, Manifest: h.Manifest, Weight: h.Weight, Events: []string{}, Delete: []string{}, OutLog: []string{}}
		for _, e := range h.Events {
			x.Events = append(x.Events, string(e))
		}
		for _, e := range h.DeletePolicies {
			x.Delete = append(x.Delete, string(e))
		}
		for _, e := range h.OutputLogPolicies {
			x.OutLog = append(x.OutLog, string(e))
		}
		res.Hooks = append(res.Hooks, x)
	}
	return res
}

func c05Diff(a, b c05Render) string {
	switch {
	case (a.Err == "") != (b.Err == ""):
		// only success/failure is compared: the TEXT of an error is not an output the property
		// speaks about (the schema validator, for one, lists its findings in map order)
		return fmt.Sprintf("error %q vs %q", c05Short(a.Err), c05Short(b.Err))
	case a.NilRel != b.NilRel:
		return "release present vs absent"
	case a.Manifest != b.Manifest:
		return "manifest " + c05FirstDiff(a.Manifest, b.Manifest)
	case a.Notes != b.Notes:
		return "notes " + c05FirstDiff(a.Notes, b.Notes)
	case !reflect.DeepEqual(a.Hooks, b.Hooks):
		an, bn := []string{}, []string{}
		for _, h := range a.Hooks {
			an = append(an, h.Kind+"/"+h.Name)
		}
		for _, h := range b.Hooks {
			bn = append(bn, h.Kind+"/"+h.Name)
		}
		return fmt.Sprintf("hooks %v vs %v", an, bn)
	}
	return ""
}

func c05Short(s string) string {
	if len(s) > 160 {
		return s[:160] + "..."
	}
	return s
}

func c05FirstDiff(a, b string) string {
	i := 0
	for i < len(a) && i < len(b) && a[i] == b[i] {
		i++
	}
	lo := i - 40
	if lo < 0 {
		lo = 0
	}
	cut := func(s string) string {
		hi := i + 60
		if hi > len(s) {
			hi = len(s)
		}
		if lo > len(s) {
			return ""
		}
		return s[lo:hi]
	}
	return fmt.Sprintf("at byte %d: %q vs %q", i, cut(a), cut(b))
}

func (*c05) Execute(ci any) (res any) {
	c := ci.(c05Case)
	h := c05HostInit()
	obs := c05Obs{}
	defer func() {
		if p := recover(); p != nil {
			obs.Panic = fmt.Sprint(p)
			res = obs
		}
	}()
	if c.Kind == "files" {
		return c05ExecFiles(c)
	}
	if c.Kind == "tree" {
		return c05ExecTree(c)
	}
	if c.Kind == "funcs" {
		return c05ExecFuncs(c)
	}
	files := make([]c05File, len(c.Files))
	for i, f := range c.Files {
		files[i] = c05File{Name: f.Name, Data: h.subst(f.Data)}
	}
	obs.Regimes = map[string]string{}
	shared0 := c05SharedSnapshot()
	hits0 := atomic.LoadInt64(&h.hits)
	h.canaryState("A")

	ch, err := c05Load(files)
	if err != nil {
		obs.LoadErr = err.Error()
		obs.Class = "load"
		return obs
	}
	base := c05Install(ch, c, c.EnableDNS)
	obs.Base = &base
	all := []c05Render{base}
	run := func(dns bool) c05Render {
		ch, err := c05Load(files)
		if err != nil {
			return c05Render{Err: "load: " + err.Error()}
		}
		r := c05Install(ch, c, dns)
		all = append(all, r)
		return r
	}
	cmp := func(regime string, r c05Render) {
		if d := c05Diff(base, r); d != "" {
			if _, seen := obs.Regimes[regime]; !seen || obs.Regimes[regime] == "same" {
				obs.Regimes[regime] = "differs: " + d
			}
		} else if _, seen := obs.Regimes[regime]; !seen {
			obs.Regimes[regime] = "same"
		}
	}

	// (i) sequential repetition
	for i := 0; i < 20; i++ {
		cmp("sequential", run(c.EnableDNS))
	}
	// (ii) concurrent renders
	{
		var wg sync.WaitGroup
		out := make([]c05Render, 16)
		for i := range out {
			wg.Add(1)
			go func(i int) {
				defer wg.Done()
				ch, err := c05Load(files)
				if err != nil {
					out[i] = c05Render{Err: "load: " + err.Error()}
					return
				}
				out[i] = c05Install(ch, c, c.EnableDNS)
			}(i)
		}
		wg.Wait()
		for _, r := range out {
			all = append(all, r)
			cmp("concurrent", r)
		}
	}
	// (iii) re-loaded from directory and from archive
	{
		tmp := h.tmp()
		ch1, _ := c05Load(files)
		if err := chartutil.SaveDir(ch1, tmp); err != nil {
			obs.Regimes["reload-dir"] = "n/a: SaveDir: " + c05Short(err.Error())
		} else if ch2, err := loader.LoadDir(filepath.Join(tmp, ch1.Name())); err != nil {
			obs.Regimes["reload-dir"] = "differs: saved chart does not load from directory: " + c05Short(strings.ReplaceAll(err.Error(), tmp, "<tmp>"))
		} else {
			r := c05Install(ch2, c, c.EnableDNS)
			all = append(all, r)
			cmp("reload-dir", r)
		}
		ch3, _ := c05Load(files)
		if p, err := chartutil.Save(ch3, filepath.Join(tmp, "pkg")); err != nil {
			obs.Regimes["reload-archive"] = "n/a: Save: " + c05Short(err.Error())
		} else if ch4, err := loader.LoadFile(p); err != nil {
			obs.Regimes["reload-archive"] = "differs: saved chart does not load from archive: " + c05Short(strings.ReplaceAll(err.Error(), tmp, "<tmp>"))
		} else {
			r := c05Install(ch4, c, c.EnableDNS)
			all = append(all, r)
			cmp("reload-archive", r)
		}
		os.RemoveAll(tmp)
	}
	// (iv) environment, working directory, host files, DNS switch
	{
		envs := map[string]string{"HOME": "/nonexistent-" + h.tokenEnv, "C05_CANARY": h.tokenEnv, "HELM_NAMESPACE": h.tokenEnv, "HELM_DEBUG": "1",
			"HELM_KUBECONTEXT": h.tokenEnv, "KUBECONFIG": "/nonexistent-" + h.tokenEnv, "LANG": "tlh_" + h.tokenEnv, "LC_ALL": "C", "TZ": "Pacific/Kiritimati",
			"USER": h.tokenEnv, "HOSTNAME": h.tokenEnv, "HELM_DRIVER": "sql", "HELM_MAX_HISTORY": "1", "XDG_CONFIG_HOME": "/nonexistent-" + h.tokenEnv}
		old := map[string]*string{}
		for k, v := range envs {
			if o, ok := os.LookupEnv(k); ok {
				o := o
				old[k] = &o
			} else {
				old[k] = nil
			}
			os.Setenv(k, v)
		}
		cmp("environment", run(c.EnableDNS))
		for k, o := range old {
			if o == nil {
				os.Unsetenv(k)
			} else {
				os.Setenv(k, *o)
			}
		}
		if wd, err := os.Getwd(); err == nil {
			if err := os.Chdir(h.cwd); err == nil {
				cmp("working-directory", run(c.EnableDNS))
				os.Chdir("/")
				cmp("working-directory", run(c.EnableDNS))
				os.Chdir(wd)
			}
		}
		h.canaryState("B")
		cmp("canary-files", run(c.EnableDNS))
		h.canaryState("absent")
		cmp("canary-files", run(c.EnableDNS))
		h.canaryState("A")
		usesDNS := false
		for _, f := range files {
			if strings.Contains(f.Data, "getHostByName") {
				usesDNS = true
			}
		}
		if !usesDNS {
			cmp("dns-switch", run(!c.EnableDNS))
		} else {
			run(true) // must not panic; output is allowed to depend on the resolver
			all = all[:len(all)-1]
			obs.Regimes["dns-switch"] = "same"
		}
	}
	// (vi) other renders of the same process use DIFFERENT capabilities (--api-versions,
	// --kube-version): this render's output must stay what it is alone, theirs what theirs is alone
	{
		other := c
		other.APIVersions = []string{"other.io/v1beta1", "c05.example/v2", "zz.c05/v9"}
		if len(c.APIVersions) > 0 && c.APIVersions[0] != "c05.example/v1" {
			other.APIVersions = []string{"c05.example/v1"}
		}
		other.KubeVersion = "v1.19.7"
		if c.KubeVersion == other.KubeVersion {
			other.KubeVersion = "v1.33.1"
		}
		one := func(cc c05Case) c05Render {
			ch, err := c05Load(files)
			if err != nil {
				return c05Render{Err: "load: " + err.Error()}
			}
			return c05Install(ch, cc, cc.EnableDNS)
		}
		refB := one(other) // the other render alone
		cmpB := func(r c05Render) {
			if d := c05Diff(refB, r); d != "" && !strings.HasPrefix(obs.Regimes["mixed-capabilities"], "differs") {
				obs.Regimes["mixed-capabilities"] = "differs: the render with the other capabilities changed: " + d
			}
		}
		// sequential A, B, A, B, A
		for i := 0; i < 2; i++ {
			r := one(c)
			all = append(all, r)
			cmp("mixed-capabilities", r)
			cmpB(one(other))
		}
		r := one(c)
		all = append(all, r)
		cmp("mixed-capabilities", r)
		// concurrent: A and B renders interleaved
		for round := 0; round < 3; round++ {
			var wg sync.WaitGroup
			outA, outB := make([]c05Render, 8), make([]c05Render, 8)
			for i := 0; i < 8; i++ {
				wg.Add(2)
				go func(i int) { defer wg.Done(); outA[i] = one(c) }(i)
				go func(i int) { defer wg.Done(); outB[i] = one(other) }(i)
			}
			wg.Wait()
			for i := 0; i < 8; i++ {
				all = append(all, outA[i])
				cmp("mixed-capabilities", outA[i])
				cmpB(outB[i])
			}
		}
	}
	// (v) with a cluster connection (server-side dry run): same outputs, and the DNS stub still in place
	usesLookup := false
	for _, f := range files {
		if strings.Contains(f.Data, "lookup") {
			usesLookup = true
		}
	}
	if !usesLookup {
		for i := 0; i < 2; i++ {
			if ch, err := c05Load(files); err == nil {
				r := c05InstallMode(ch, c, c.EnableDNS, true)
				all = append(all, r)
				cmp("server-dry-run", r)
			}
		}
	} else {
		obs.Regimes["server-dry-run"] = "same"
	}
	obs.HTTPHits = int(atomic.LoadInt64(&h.hits) - hits0)

	// stage replay on the real functions: classification, the inputs of the model, and the
	// engine's other entry points
	for _, t := range c05Stages(files, c, &obs, !usesLookup) {
		all = append(all, c05Render{Manifest: t})
	}

	// a render must not modify what all renders of the process share
	if shared1 := c05SharedSnapshot(); shared1 != shared0 {
		obs.Shared = append(obs.Shared, "chartutil.DefaultCapabilities / DefaultVersionSet (backing array included) "+c05FirstDiff(shared0, shared1))
	}

	// canary tokens and markers over every output produced
	leak := map[string]bool{}
	marker := map[string]bool{}
	for _, r := range all {
		texts := []string{r.Err, r.Manifest, r.Notes}
		for _, hk := range r.Hooks {
			texts = append(texts, hk.Manifest, hk.Name)
		}
		for _, t := range texts {
			for _, tok := range []string{h.tokenA, h.tokenB, h.tokenEnv} {
				if strings.Contains(t, tok) {
					leak[tok+" in "+c05Short(c05Around(t, tok))] = true
				}
			}
			if !c.EnableDNS {
				for _, line := range strings.Split(t, "\n") {
					l := strings.TrimSpace(line)
					if strings.HasPrefix(l, "c05host") || strings.HasPrefix(l, "c05dns") {
						if i := strings.Index(l, ": "); i > 0 && l[i+2:] != `"[]"` {
							marker[l] = true
						}
					}
				}
			}
		}
	}
	for k := range leak {
		obs.Leaks = append(obs.Leaks, k)
	}
	for k := range marker {
		obs.Markers = append(obs.Markers, k)
	}
	sort.Strings(obs.Leaks)
	sort.Strings(obs.Markers)

	return obs
}

func c05Around(t, tok string) string {
	i := strings.Index(t, tok)
	lo, hi := i-30, i+len(tok)+10
	if lo < 0 {
		lo = 0
	}
	if hi > len(t) {
		hi = len(t)
	}
	return t[lo:hi]
}

// c05Stages calls the real stage functions one by one (what Install does internally) to
// classify the outcome and to collect what the Coq model is given: the template keys, the
// engine's rendered map, the splitter's and the YAML head decoder's results.
func c05Stages(files []c05File, c c05Case, obs *c05Obs, withClient bool) (texts []string) {
	ch, err := c05Load(files)
	if err != nil {
		obs.Class = "load"
		return
	}
	vals := c05CopyVals(c.Values)
	if err := chartutil.ProcessDependencies(ch, vals); err != nil {
		obs.Class = "deps"
		return
	}
	caps := c05Caps(c)
	opts := chartutil.ReleaseOptions{Name: "rel", Namespace: "ns", Revision: 1, IsInstall: true}
	rv, err := chartutil.ToRenderValuesWithSchemaValidation(ch, vals, opts, caps, c.SkipSchema)
	if err != nil {
		obs.Class = "schema"
		return
	}
	obs.ChartName = ch.Name()
	var count func(*chart.Chart) int
	count = func(x *chart.Chart) int {
		n := 0
		for _, d := range x.Dependencies() {
			n += 1 + count(d)
		}
		return n
	}
	obs.NSubcharts = count(ch)
	for _, crd := range ch.CRDObjects() {
		obs.CRDs = append(obs.CRDs, [2]string{crd.Filename, string(crd.File.Data)})
	}
	obs.Keys = c05Shuffle(engine.VerifTemplateKeys(ch, rv), "keys")
	obs.NTemplates = len(obs.Keys)
	obs.SortedKeys = engine.VerifSortTemplates(obs.Keys)
	e := engine.Engine{EnableDNS: c.EnableDNS}
	rendered, err := e.Render(ch, rv)
	if err != nil {
		obs.Class = "render"
		return
	}
	// the engine on its own, repeated
	for i := 0; i < 3; i++ {
		ch2, _ := c05Load(files)
		vals2 := c05CopyVals(c.Values)
		chartutil.ProcessDependencies(ch2, vals2)
		rv2, err := chartutil.ToRenderValuesWithSchemaValidation(ch2, vals2, opts, caps, c.SkipSchema)
		if err != nil {
			obs.Regimes["engine-direct"] = "differs: values error on repetition"
			break
		}
		r2, err := engine.Engine{EnableDNS: c.EnableDNS}.Render(ch2, rv2)
		if err != nil || !reflect.DeepEqual(rendered, r2) {
			obs.Regimes["engine-direct"] = "differs: engine.Render output map changed on repetition"
			break
		}
		obs.Regimes["engine-direct"] = "same"
	}
	// the engine's other entry points: with a client provider the output (for charts that do not
	// call lookup) and in particular the DNS stub must be the same
	if withClient {
		entries := map[string]func(*chart.Chart, chartutil.Values) (map[string]string, error){
			"engine.New": func(x *chart.Chart, v chartutil.Values) (map[string]string, error) {
				e := engine.New(&rest.Config{Host: "http://127.0.0.1:1"})
				e.EnableDNS = c.EnableDNS
				return e.Render(x, v)
			},
		}
		if !c.EnableDNS {
			entries["engine.RenderWithClient"] = func(x *chart.Chart, v chartutil.Values) (map[string]string, error) {
				return engine.RenderWithClient(x, v, &rest.Config{Host: "http://127.0.0.1:1"})
			}
			entries["engine.RenderWithClientProvider"] = func(x *chart.Chart, v chartutil.Values) (map[string]string, error) {
				return engine.RenderWithClientProvider(x, v, c05Provider{})
			}
			entries["engine.Render(func)"] = engine.Render
		}
		obs.Regimes["engine-entry-points"] = "same"
		enames := make([]string, 0, len(entries))
		for n := range entries {
			enames = append(enames, n)
		}
		sort.Strings(enames)
		for _, n := range enames {
			ch2, _ := c05Load(files)
			vals2 := c05CopyVals(c.Values)
			chartutil.ProcessDependencies(ch2, vals2)
			rv2, err := chartutil.ToRenderValuesWithSchemaValidation(ch2, vals2, opts, caps, c.SkipSchema)
			if err != nil {
				continue
			}
			r2, err := entries[n](ch2, rv2)
			if err != nil {
				obs.Regimes["engine-entry-points"] = "differs: " + n + " fails: " + c05Short(err.Error())
				continue
			}
			ks := make([]string, 0, len(r2))
			for k := range r2 {
				ks = append(ks, k)
			}
			sort.Strings(ks)
			for _, k := range ks {
				texts = append(texts, r2[k])
			}
			if !reflect.DeepEqual(rendered, r2) {
				for _, k := range ks {
					if rendered[k] != r2[k] {
						obs.Regimes["engine-entry-points"] = "differs: " + n + " renders " + k + " " + c05FirstDiff(rendered[k], r2[k])
						break
					}
				}
			}
		}
	}
	names := make([]string, 0, len(rendered))
	for k := range rendered {
		names = append(names, k)
	}
	for _, k := range c05Shuffle(names, "rendered") {
		obs.Rendered = append(obs.Rendered, [2]string{k, rendered[k]})
	}
	// documents and heads, by the real splitter and the real decoder
	seenC, seenD := map[string]bool{}, map[string]bool{}
	rest := map[string]string{}
	for _, k := range names {
		if strings.HasSuffix(k, "NOTES.txt") {
			continue
		}
		rest[k] = rendered[k]
		content := rendered[k]
		if seenC[content] {
			continue
		}
		seenC[content] = true
		entries := releaseutil.SplitManifests(content)
		ek := make([]string, 0, len(entries))
		for x := range entries {
			ek = append(ek, x)
		}
		sort.Sort(releaseutil.BySplitManifestsOrder(ek))
		sp := c05Split{Content: content, Docs: []string{}}
		for _, x := range ek {
			d := entries[x]
			sp.Docs = append(sp.Docs, d)
			if seenD[d] {
				continue
			}
			seenD[d] = true
			var sh releaseutil.SimpleHead
			hd := c05Head{Doc: d}
			if err := yaml.Unmarshal([]byte(d), &sh); err != nil {
				hd.Err = true
			} else {
				hd.Version, hd.Kind = sh.Version, sh.Kind
				if sh.Metadata != nil {
					hd.HasMeta = true
					hd.Name = sh.Metadata.Name
					ak := make([]string, 0, len(sh.Metadata.Annotations))
					for a := range sh.Metadata.Annotations {
						ak = append(ak, a)
					}
					sort.Strings(ak)
					for _, a := range ak {
						hd.Ann = append(hd.Ann, [2]string{a, sh.Metadata.Annotations[a]})
					}
				}
			}
			obs.Heads = append(obs.Heads, hd)
		}
		obs.Splits = append(obs.Splits, sp)
	}
	if _, _, err := releaseutil.SortManifests(rest, nil, releaseutil.InstallOrder); err != nil {
		obs.Class = "yaml"
		return
	}
	if obs.Base != nil && obs.Base.Err != "" {
		obs.Class = "other"
		return
	}
	obs.Class = "ok"
	return
}

// c05ExecFiles drives the real .Files object.
func c05ExecFiles(c c05Case) (res c05Obs) {
	obs := c05Obs{Regimes: map[string]string{}}
	var from []*chart.File
	for _, f := range c.Files {
		from = append(from, &chart.File{Name: f.Name, Data: []byte(f.Data)})
	}
	once := func() (o c05Obs) {
		all := engine.VerifNewFiles(from, "")
		g := engine.VerifNewFiles(from, c.Pattern)
		o.Matched = g.Names()
		if o.Matched == nil {
			o.Matched = []string{}
		}
		probe := append(all.Names(), "nope.txt", "../x", "/etc/hostname", "conf")
		for _, n := range probe {
			o.Gets = append(o.Gets, [2]string{n, all.Get(n)})
			o.GlobGets = append(o.GlobGets, [2]string{n, g.Get(n)})
			func() {
				l := c05LinesObs{Name: n}
				defer func() {
					if p := recover(); p != nil {
						l.Panic = true
					}
					o.Lines = append(o.Lines, l)
				}()
				l.Lines = all.Lines(n)
				if l.Lines == nil {
					l.Lines = []string{}
				}
			}()
		}
		parse := func(y string, dec bool) [][2]string {
			m := map[string]string{}
			if err := yaml.Unmarshal([]byte(y), &m); err != nil {
				return [][2]string{{"<yaml error>", err.Error()}}
			}
			ks := make([]string, 0, len(m))
			for k := range m {
				ks = append(ks, k)
			}
			sort.Strings(ks)
			out := [][2]string{}
			for _, k := range ks {
				v := m[k]
				if dec {
					b, err := base64.StdEncoding.DecodeString(v)
					if err != nil {
						v = "<base64 error>"
					} else {
						v = string(b)
					}
				}
				out = append(out, [2]string{k, v})
			}
			return out
		}
		o.Config = parse(g.AsConfig(), false)
		o.Secrets = parse(g.AsSecrets(), true)
		return o
	}
	first := once()
	// the glob library asked directly, the way files.Glob is documented to use it: '/' separates
	// path elements, an invalid pattern matches everything
	{
		g, err := glob.Compile(c.Pattern, '/')
		if err != nil {
			g, _ = glob.Compile("**")
		}
		seen := map[string]bool{}
		obs.LibMatched = []string{}
		for _, f := range c.Files {
			if !seen[f.Name] && g.Match(f.Name) {
				obs.LibMatched = append(obs.LibMatched, f.Name)
			}
			seen[f.Name] = true
		}
		sort.Strings(obs.LibMatched)
	}
	obs.Matched, obs.Gets, obs.GlobGets, obs.Lines, obs.Config, obs.Secrets = first.Matched, first.Gets, first.GlobGets, first.Lines, first.Config, first.Secrets
	obs.Regimes["files-repeat"] = "same"
	for i := 0; i < 12; i++ {
		o := once()
		if !reflect.DeepEqual(o.Config, first.Config) || !reflect.DeepEqual(o.Secrets, first.Secrets) || !reflect.DeepEqual(o.Matched, first.Matched) ||
			!reflect.DeepEqual(o.Gets, first.Gets) || !reflect.DeepEqual(o.Lines, first.Lines) {
			obs.Regimes["files-repeat"] = fmt.Sprintf("differs: AsConfig %v vs %v", first.Config, o.Config)
			break
		}
	}
	return obs
}

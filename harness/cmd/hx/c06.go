package main

// C06 — dry-run and template never change the cluster or the release history.
//
// A case is a history of REAL operations (the set-up), then the operation under test with a
// dry-run SPELLING (the DryRun boolean and/or DryRunOption string of the real action struct),
// optionally followed by one more real operation.  Everything runs through the real
// action.Install/Upgrade/Rollback/Uninstall over the real kube.Client in front of the simulated
// API server and a counting wrapper around the real storage driver.
//
// Runtime oracle (independent of the Coq model): raw count of POST/PUT/PATCH/DELETE requests
// that reached the API server = 0, raw count of storage driver write calls = 0, ledger and
// objects identical before/after; client-only: raw request count = 0.
// Correspondence: cases inside the engine model's domain are evaluated by Engine/Seq.v with
// the dry flag computed by the model's own transcription of isDryRun from the spelling.

import (
	"encoding/json"
	"fmt"
	"math/rand"
	"reflect"
	"strings"

	"verif/harness/internal/eng"
	"verif/harness/internal/hx"
)

func init() { hx.Register("c06", func() hx.Property { return &c06{} }) }

type c06 struct{}

type c06Case struct {
	Backend string    `json:"backend"`
	Init    []eng.Res `json:"init,omitempty"`
	Setup   []*eng.Op `json:"setup,omitempty"`
	Op      *eng.Op   `json:"op"`             // under test; Flags.DryRun / Flags.DryRunOption are the spelling
	Wide    *c06Wide  `json:"wide,omitempty"` // non-nil: outside the model's domain (oracle only)
	After   *eng.Op   `json:"after,omitempty"`
	Shape   string    `json:"shape,omitempty"`
	// Template: drive `helm template` through pkg/cmd instead of the action struct (thorough tier)
	Template *c06Template `json:"template,omitempty"`
	// Cmd: drive helm install / upgrade / rollback / uninstall through pkg/cmd (the command layer)
	Cmd *c06Cmd `json:"cmd,omitempty"`
}

type c06State struct {
	Ledger []eng.LedgerRow              `json:"ledger"`
	Objs   map[string]map[string]string `json:"objs"`
}

type c06Obs struct {
	Setup  []eng.StepObs `json:"setup,omitempty"`
	Before c06State      `json:"before"`
	Test   eng.StepObs   `json:"test"`
	After  *eng.StepObs  `json:"after,omitempty"`
	Out    string        `json:"out,omitempty"`  // helm template: size of the rendered output
	Rich   *c06RichObs   `json:"rich,omitempty"` // wide / template cases: the ordered event log for the richer model
}

func (*c06) ID() string { return "C06" }
func (*c06) CoqImport() string {
	return "From Helm Require Import Engine.Types Engine.Eff Engine.Ops Engine.Cluster Engine.Seq Run.RunEng.\nFrom Helm Require Import Engine.DryOps Run.RunC06Rich Run.RunC06."
}

func (*c06) Rule() string {
	return "set-up history (empty 1/3; else 3 real operations: install+2 upgrades / failed last / uninstalled keep-history / rolled back) on " +
		"memory/Secret/ConfigMap storage, then ONE operation under test (install 35%, upgrade 35%, rollback 15%, uninstall 15%) with uniformly random " +
		"boolean flags and a dry-run spelling (DryRun bool, DryRunOption client|server|true, DryRun with option none/false; 15% controls spelled none/false/empty = not dry); " +
		"chart: 1-5 resources, hooks (half of the charts: one hook per event); 25%: a foreign object in the way; 45% wide cases (crds/, NOTES, subchart, " +
		"post-renderer, CreateNamespace, Force, SkipCRDs, HideSecret, ... : runtime oracle only); 30% of the in-model cases continue with a real operation. " +
		"non-trivial = a dry/client-only operation under test that returned success, i.e. passed every pre-check and reached the bail-out point; distinct = hash of (case, observation)"
}

func (*c06) Decode(raw json.RawMessage) (any, error) {
	var c c06Case
	err := json.Unmarshal(raw, &c)
	return c, err
}

// the property text's list of dry-run modes (NOT Helm's isDryRun)
func c06IsDrySpelling(kind string, f eng.Flags) bool {
	if f.DryRun {
		return true
	}
	if kind == "install" || kind == "upgrade" {
		switch f.DryRunOption {
		case "client", "server", "true":
			return true
		}
	}
	return false
}

// c06TalksToServer: the DryRunOption (for helm template: the --dry-run value) asks for the
// server, or the run is not a dry run at all.
func c06TalksToServer(c c06Case) bool {
	opt := c.Op.Flags.DryRunOption
	dry := c06IsDrySpelling(c.Op.Kind, c.Op.Flags)
	if c.Template != nil {
		opt, dry = "", true
		for _, a := range c.Template.Args {
			if strings.HasPrefix(a, "--dry-run=") {
				opt = strings.TrimPrefix(a, "--dry-run=")
			}
		}
	}
	return !dry || opt == "server" || opt == "none" || opt == "false"
}

func c06InModel(c c06Case) bool {
	if c.Wide != nil || c.Template != nil || c.Cmd != nil {
		return false
	}
	// the model's client-only install is the `helm template` configuration: always a dry run
	if c.Op.Flags.ClientOnly && !c06IsDrySpelling(c.Op.Kind, c.Op.Flags) {
		return false
	}
	return true
}

func (*c06) Execute(ci any) any {
	c := ci.(c06Case)
	r := eng.NewRunner(c.Backend)
	for _, x := range c.Init {
		r.Srv.Put(x.Kind, x.Name, x.Fields)
	}
	var o c06Obs
	for _, op := range c.Setup {
		o.Setup = append(o.Setup, r.RunOp(op))
	}
	o.Before = c06State{Ledger: c06Ledger(r.Inner), Objs: r.Srv.Snapshot()}
	switch {
	case c.Cmd != nil:
		o.Test, o.Rich = c06RunCmd(r, c.Op, c.Wide, c.Cmd)
	case c.Template != nil:
		o.Test, o.Out, o.Rich = c06RunTemplate(r, c.Op, c.Wide, c.Template)
	case c.Wide != nil:
		o.Test, o.Rich = c06RunWide(r, c.Op, c.Wide)
	default:
		o.Test = r.RunOp(c.Op)
	}
	if c.After != nil {
		so := r.RunOp(c.After)
		o.After = &so
	}
	return o
}

func c06LedgerEq(a, b []eng.LedgerRow) bool {
	if len(a) == 0 && len(b) == 0 {
		return true
	}
	x, _ := json.Marshal(a)
	y, _ := json.Marshal(b)
	return string(x) == string(y)
}

func (*c06) Oracle(ci, oi any) []hx.Violation {
	c, o := ci.(c06Case), oi.(c06Obs)
	var vs []hx.Violation
	add := func(sig, what string) { vs = append(vs, hx.Violation{Sig: sig, What: what}) }
	t := o.Test
	f := c.Op.Flags
	what := fmt.Sprintf("%s (DryRun=%v DryRunOption=%q ClientOnly=%v)", c.Op.Kind, f.DryRun, f.DryRunOption, f.ClientOnly)
	if c.Template != nil {
		what = fmt.Sprintf("helm template %v", c.Template.Args)
	}
	if c.Cmd != nil {
		what = fmt.Sprintf("helm %s %q %v", c.Cmd.Sub, c.Cmd.Dry, c.Cmd.Extra)
	}
	if t.Panic != "" {
		add("C06:panic", what+" panicked: "+t.Panic)
	}
	dry := c06IsDrySpelling(c.Op.Kind, f) || c.Template != nil
	if c.Cmd != nil {
		// the command layer: a dry-run REQUEST, whether the command accepts or refuses the value
		dry = c06CmdDryRequest(c.Cmd)
	}
	clientOnly := (c.Op.Kind == "install" && f.ClientOnly) || (c.Template != nil && !c.Template.Validate)
	if dry || clientOnly {
		if t.MutReqs != 0 {
			add("C06:dry-run-cluster-mutation", fmt.Sprintf("%s sent %d creating/updating/deleting request(s) to the API server", what, t.MutReqs))
		}
		if t.SWrites != 0 {
			add("C06:dry-run-storage-write", fmt.Sprintf("%s made %d write call(s) on the release storage driver", what, t.SWrites))
		}
		if !c06LedgerEq(o.Before.Ledger, t.Ledger) {
			add("C06:dry-run-ledger-changed", what+" changed the release history")
		}
		if !reflect.DeepEqual(o.Before.Objs, t.Objs) {
			add("C06:dry-run-objects-changed", what+" changed the cluster objects")
		}
	}
	if clientOnly && t.Reqs != 0 {
		// Client-only rendering is "helm template without --validate, --dry-run=client".  With a
		// --dry-run value that asks for the server (server; the code reads none and false the same
		// way) a `lookup` in a template is answered by the cluster when the configuration can reach
		// it: at most two GETs per lookup (the resource list of the group version, the object).
		// Everything else is still a violation.
		allowed := 0
		if c06TalksToServer(c) && c.Wide != nil && c.Wide.Getter {
			allowed = 2 * c.Wide.Lookups
		}
		if t.Reqs > allowed {
			add("C06:client-only-request", fmt.Sprintf("%s sent %d request(s) to the API server (lookups may account for %d)", what, t.Reqs, allowed))
		}
	}
	return vs
}

// CoqCase: in-model cases as a RunEng.case whose operation under test has its dry flag cleared;
// the spelling travels beside it and the model decides.
func (*c06) CoqCase(ci, oi any) string {
	c, o := ci.(c06Case), oi.(c06Obs)
	if !c06InModel(c) {
		return "mkC06 false [] (mkCase [] [] []) " + c06CoqRich(c, o)
	}
	h := eng.History{Backend: c.Backend, Init: c.Init}
	var obs eng.Obs
	for i, op := range c.Setup {
		h.Steps = append(h.Steps, eng.Step{Op: op})
		obs.Steps = append(obs.Steps, o.Setup[i])
	}
	stripped := *c.Op
	stripped.Flags.DryRun, stripped.Flags.DryRunOption = false, ""
	idx := len(h.Steps)
	h.Steps = append(h.Steps, eng.Step{Op: &stripped})
	obs.Steps = append(obs.Steps, o.Test)
	if c.After != nil && o.After != nil {
		h.Steps = append(h.Steps, eng.Step{Op: c.After})
		obs.Steps = append(obs.Steps, *o.After)
	}
	opt := c.Op.Flags.DryRunOption
	if c.Op.Kind == "rollback" || c.Op.Kind == "uninstall" {
		opt = "" // these actions have the boolean only
	}
	return fmt.Sprintf("mkC06 true [mkSp %d %s %s]\n (%s) None", idx, hx.CoqBool(c.Op.Flags.DryRun), hx.CoqStr(opt), eng.CoqCase(h, obs))
}

func c06SpellName(f eng.Flags) string {
	s := "opt=" + f.DryRunOption
	if f.DryRunOption == "" {
		s = "opt=(empty)"
	}
	if f.DryRun {
		s = "DryRun+" + s
	}
	return s
}

func (*c06) Class(ci, _ any) string {
	c := ci.(c06Case)
	dom := "model"
	if !c06InModel(c) {
		dom = "oracle-only"
		if c06RichInDomain(c) {
			dom = "rich-model"
			if w := c.Wide; w != nil {
				for _, x := range []struct {
					on bool
					n  string
				}{{w.CRDs, "crds"}, {w.CreateNamespace, "ns"}, {w.PostRender, "post"}, {w.Lookups > 0, "lookup"}, {w.Getter, "getter"}, {w.NilCaps, "nilcaps"}} {
					if x.on {
						dom += "+" + x.n
					}
				}
			}
		}
	}
	if c.Template != nil {
		return "helm-template/" + c.Shape + "/" + dom
	}
	if c.Cmd != nil {
		req := "no-request"
		if c06CmdDryRequest(c.Cmd) {
			req = "dry-request"
		}
		return fmt.Sprintf("helm-%s/%s/%s/%s", c.Cmd.Sub, req, c.Shape, dom)
	}
	k := c.Op.Kind
	if c.Op.Flags.ClientOnly {
		k += "+client-only"
	}
	if !c06IsDrySpelling(c.Op.Kind, c.Op.Flags) {
		k += "/CONTROL(not dry)"
	}
	return fmt.Sprintf("%s/%s/%s/%s", k, c06SpellName(c.Op.Flags), c.Shape, dom)
}

func (*c06) NonTrivial(ci, oi any) bool {
	c, o := ci.(c06Case), oi.(c06Obs)
	dry := c06IsDrySpelling(c.Op.Kind, c.Op.Flags) || c.Op.Flags.ClientOnly || c.Template != nil
	if c.Cmd != nil {
		return c06CmdDryRequest(c.Cmd) // accepted (a dry run) or refused: both are what the property is about
	}
	return dry && o.Test.Outcome == "ok"
}

func (*c06) Generate(r *rand.Rand, _ int) any { return c06Gen(r) }

package main

// Translator table for C18: the version-constraint language Helm uses is the one of the
// github.com/Masterminds/semver/v3 release pinned in /repo/go.mod.  This reads that release's
// constraints.go from the module cache with go/ast and prints (Gen/C18Semver.v)
//   - the pinned version and the SHA-256 of constraints.go (the file Misc/Constraint.v transcribes),
//   - the source text of the four regular expressions built in init() (cvRegex and ops
//     substituted into the fmt.Sprintf formats),
//   - the map constraintOps (operator -> name of the constraint function).
// Props/C18.v proves that the model's expressions print to exactly these texts and that its
// operator table is this map.

import (
	"crypto/sha256"
	"encoding/hex"
	"fmt"
	"go/ast"
	"go/parser"
	"go/token"
	"os"
	"path/filepath"
	"regexp"
	"strings"
	"unicode"

	"verif/harness/internal/hx"
)

func init() { registerTable("C18Semver", genC18Semver) }

const c18SemverModule = "github.com/Masterminds/semver/v3"

func c18ModCache() string {
	if d := os.Getenv("GOMODCACHE"); d != "" {
		return d
	}
	if d := os.Getenv("GOPATH"); d != "" {
		return filepath.Join(strings.Split(d, string(os.PathListSeparator))[0], "pkg", "mod")
	}
	home, _ := os.UserHomeDir()
	return filepath.Join(home, "go", "pkg", "mod")
}

func c18EscapeModPath(p string) string {
	var b strings.Builder
	for _, r := range p {
		if unicode.IsUpper(r) {
			b.WriteByte('!')
			b.WriteRune(unicode.ToLower(r))
		} else {
			b.WriteRune(r)
		}
	}
	return b.String()
}

// a constant string expression: literals joined by +, and named constants already known
func c18EvalStr(e ast.Expr, env map[string]string) (string, error) {
	switch v := e.(type) {
	case *ast.BasicLit:
		if s, ok := strLit(v); ok {
			return s, nil
		}
	case *ast.Ident:
		if s, ok := env[v.Name]; ok {
			return s, nil
		}
		return "", fmt.Errorf("unknown identifier %s", v.Name)
	case *ast.ParenExpr:
		return c18EvalStr(v.X, env)
	case *ast.BinaryExpr:
		if v.Op == token.ADD {
			a, err := c18EvalStr(v.X, env)
			if err != nil {
				return "", err
			}
			b, err := c18EvalStr(v.Y, env)
			if err != nil {
				return "", err
			}
			return a + b, nil
		}
	}
	return "", fmt.Errorf("unsupported string expression %T", e)
}

func c18IsCall(e ast.Expr, pkg, fn string) (*ast.CallExpr, bool) {
	c, ok := e.(*ast.CallExpr)
	if !ok {
		return nil, false
	}
	sel, ok := c.Fun.(*ast.SelectorExpr)
	if !ok || sel.Sel.Name != fn {
		return nil, false
	}
	id, ok := sel.X.(*ast.Ident)
	return c, ok && id.Name == pkg
}

func genC18Semver(repo string) (string, error) {
	gomod, err := os.ReadFile(filepath.Join(repo, "go.mod"))
	if err != nil {
		return "", err
	}
	m := regexp.MustCompile(`(?m)^\s*` + regexp.QuoteMeta(c18SemverModule) + `\s+(v[^\s]+)`).FindSubmatch(gomod)
	if m == nil {
		return "", fmt.Errorf("%s is not required by go.mod", c18SemverModule)
	}
	version := string(m[1])
	src := filepath.Join(c18ModCache(), c18EscapeModPath(c18SemverModule)+"@"+version, "constraints.go")
	raw, err := os.ReadFile(src)
	if err != nil {
		return "", err
	}
	sum := sha256.Sum256(raw)
	fset := token.NewFileSet()
	f, err := parser.ParseFile(fset, src, raw, 0)
	if err != nil {
		return "", err
	}
	env := map[string]string{}
	// package-level string constants (cvRegex)
	for _, d := range f.Decls {
		gd, ok := d.(*ast.GenDecl)
		if !ok || gd.Tok != token.CONST {
			continue
		}
		for _, s := range gd.Specs {
			vs := s.(*ast.ValueSpec)
			for i, n := range vs.Names {
				if i < len(vs.Values) {
					if v, err := c18EvalStr(vs.Values[i], env); err == nil {
						env[n.Name] = v
					}
				}
			}
		}
	}
	var regexes, ops [][2]string
	for _, d := range f.Decls {
		fd, ok := d.(*ast.FuncDecl)
		if !ok || fd.Name.Name != "init" || fd.Recv != nil {
			continue
		}
		for _, st := range fd.Body.List {
			as, ok := st.(*ast.AssignStmt)
			if !ok || len(as.Lhs) != 1 || len(as.Rhs) != 1 {
				continue
			}
			lhs, ok := as.Lhs[0].(*ast.Ident)
			if !ok {
				continue
			}
			// ops := `...`
			if as.Tok == token.DEFINE {
				if v, err := c18EvalStr(as.Rhs[0], env); err == nil {
					env[lhs.Name] = v
				}
				continue
			}
			// constraintOps = map[string]cfunc{ "op": fn, ... }
			if cl, ok := as.Rhs[0].(*ast.CompositeLit); ok && lhs.Name == "constraintOps" {
				for _, e := range cl.Elts {
					kv, ok := e.(*ast.KeyValueExpr)
					if !ok {
						return "", fmt.Errorf("constraintOps: unexpected element")
					}
					k, ok1 := strLit(kv.Key)
					fn, ok2 := kv.Value.(*ast.Ident)
					if !ok1 || !ok2 {
						return "", fmt.Errorf("constraintOps: unexpected element")
					}
					ops = append(ops, [2]string{k, fn.Name})
				}
				continue
			}
			// X = regexp.MustCompile(fmt.Sprintf(format, args...))
			mc, ok := c18IsCall(as.Rhs[0], "regexp", "MustCompile")
			if !ok || len(mc.Args) != 1 {
				continue
			}
			text := ""
			if sp, ok := c18IsCall(mc.Args[0], "fmt", "Sprintf"); ok && len(sp.Args) >= 1 {
				format, err := c18EvalStr(sp.Args[0], env)
				if err != nil {
					return "", fmt.Errorf("%s: %v", lhs.Name, err)
				}
				if strings.Count(format, "%s") != len(sp.Args)-1 || strings.Count(format, "%") != len(sp.Args)-1 {
					return "", fmt.Errorf("%s: format verbs other than %%s", lhs.Name)
				}
				parts := strings.Split(format, "%s")
				text = parts[0]
				for i, a := range sp.Args[1:] {
					v, err := c18EvalStr(a, env)
					if err != nil {
						return "", fmt.Errorf("%s: %v", lhs.Name, err)
					}
					text += v + parts[i+1]
				}
			} else {
				v, err := c18EvalStr(mc.Args[0], env)
				if err != nil {
					return "", fmt.Errorf("%s: %v", lhs.Name, err)
				}
				text = v
			}
			if _, err := regexp.Compile(text); err != nil {
				return "", fmt.Errorf("%s: %v", lhs.Name, err)
			}
			regexes = append(regexes, [2]string{lhs.Name, text})
		}
	}
	if len(regexes) == 0 || len(ops) == 0 {
		return "", fmt.Errorf("init() of constraints.go has no regular expressions / operator map")
	}
	pairs := func(l [][2]string) string {
		var it []string
		for _, p := range l {
			it = append(it, hx.CoqPair(hx.CoqStr(p[0]), hx.CoqStr(p[1])))
		}
		return "[" + strings.Join(it, ";\n   ") + "]"
	}
	var b strings.Builder
	fmt.Fprintf(&b, "(* %s %s, constraints.go *)\n", c18SemverModule, version)
	fmt.Fprintf(&b, "Definition semver_version : string := %s.\n\n", hx.CoqStr(version))
	fmt.Fprintf(&b, "Definition semver_constraints_sha256 : string := %s.\n\n", hx.CoqStr(hex.EncodeToString(sum[:])))
	fmt.Fprintf(&b, "(* the regular expressions compiled in init(), in source order *)\nDefinition semver_regexes : list (string * string) :=\n  %s.\n\n", pairs(regexes))
	fmt.Fprintf(&b, "(* constraintOps: operator -> constraint function *)\nDefinition semver_constraint_ops : list (string * string) :=\n  %s.\n", pairs(ops))
	return b.String(), nil
}

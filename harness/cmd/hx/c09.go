package main

// C09 — concurrent installs/upgrades of one release cannot both proceed.
// Two or three REAL action.Install / action.Upgrade (round 4: also Rollback / Uninstall) calls on one release run under a
// deterministic scheduler (harness/internal/conc) that preempts at every storage driver call
// and every mutating kube call; the same gate schedule drives Engine/Conc.v.  The oracle
// evaluates the property text directly on what the real code did.

import (
	"encoding/json"
	"fmt"
	"math/rand"
	"sort"
	"strings"

	"verif/harness/internal/conc"
	"verif/harness/internal/eng"
	"verif/harness/internal/hx"
)

func init() { hx.Register("c09", func() hx.Property { return &c09{} }) }

type c09 struct{}

func (*c09) ID() string { return "C09" }
func (*c09) CoqImport() string {
	return "From Helm Require Import Engine.Types Engine.Eff Engine.Ops Engine.Cluster Engine.Seq Engine.Conc Run.RunEng Run.RunC09."
}

func (*c09) Rule() string {
	return "a sequential prefix (nothing / install / install+upgrade) then 2 or 3 concurrent real install/upgrade operations on the same release " +
		"(flags atomic/cleanup-on-fail/no-hooks/take-ownership/dry-run variants, sometimes --replace; options outside the model on every operation: --force, --recreate-pods, upgrade --install, value-reuse modes, " +
		"skip-schema, no-validate, dns, sub-notes, skip-crds, label, description; a crds/ directory on 1 chart in 5, --create-namespace on 1 install in 8; 1-3 resource charts, 0-1 hooks) on memory/Secret/ConfigMap storage, " +
		"sometimes one rejected mutating cluster request, sometimes (1 in 7, with a history) one participant is a rollback or an uninstall (a mix); replayed under a gate schedule: corpus witnesses " +
		"(incl. the flag family: one option at a time on the operation that must lose), enumerated interleavings of the base, flag, mix and pruning scenarios (quick: sampled; thorough: all two-operation " +
		"interleavings, three operations with <= 2 preemptions) and uniformly drawn interleavings of generated scenarios; " +
		"non-trivial = the effective schedule switches operation at least twice while both are still running; distinct = hash of (case, observation)"
}

func (*c09) Decode(raw json.RawMessage) (any, error) {
	var c conc.Case
	err := json.Unmarshal(raw, &c)
	return c, err
}

// ---------- scenarios ----------

func c9op(kind string, chart int, f eng.Flags, keys ...string) eng.Op {
	op := eng.Op{Kind: kind, Flags: f, ChartID: chart, ValsID: chart}
	for _, k := range keys {
		op.Manifest = append(op.Manifest, eng.Res{Kind: "ConfigMap", Name: k, Fields: map[string]string{"d:k": fmt.Sprintf("v%d", chart)}})
	}
	return op
}

func c9fault(op eng.Op, verb, key string) eng.Op {
	op.KFault = &eng.KFault{Verb: verb, Key: key}
	return op
}

func c9hasFault(c conc.Case) bool {
	for _, op := range c.Ops {
		if op.KFault != nil {
			return true
		}
	}
	return false
}

func c9hook(name string, events ...string) eng.Hook {
	return eng.Hook{Res: eng.Res{Kind: "ConfigMap", Name: name, Fields: map[string]string{"d:h": name}}, Events: events}
}

func c9pre(n int) []eng.Step {
	var s []eng.Step
	if n >= 1 {
		o := c9op("install", 1, eng.Flags{}, "a")
		s = append(s, eng.Step{Op: &o})
	}
	for i := 2; i <= n; i++ {
		o := c9op("upgrade", i, eng.Flags{}, "a", "b")
		s = append(s, eng.Step{Op: &o})
	}
	return s
}

type c9scn struct {
	name string
	pre  int // c9pre(pre); negative: install, then an upgrade that fails (wait failure), so the last revision is "failed"
	ops  []eng.Op
}

func c9preOf(n int) []eng.Step {
	if n >= 0 {
		return c9pre(n)
	}
	s := c9pre(1)
	o := c9op("upgrade", 2, eng.Flags{}, "a", "b")
	o.WaitFail = true
	return append(s, eng.Step{Op: &o})
}

// the base scenarios of the property: from an empty and from a deployed history
func c9base() []c9scn {
	hk := c9op("upgrade", 12, eng.Flags{}, "a")
	hk.Hooks = []eng.Hook{c9hook("hk", "pre-upgrade", "pre-install")}
	ihk := c9op("install", 13, eng.Flags{}, "a")
	ihk.Hooks = []eng.Hook{c9hook("hk", "post-install")}
	return []c9scn{
		{"empty:install|install", 0, []eng.Op{c9op("install", 10, eng.Flags{}, "a"), c9op("install", 11, eng.Flags{}, "a", "b")}},
		{"empty:install|upgrade", 0, []eng.Op{c9op("install", 10, eng.Flags{}, "a"), c9op("upgrade", 11, eng.Flags{}, "a")}},
		{"deployed:upgrade|upgrade", 1, []eng.Op{c9op("upgrade", 10, eng.Flags{}, "a"), c9op("upgrade", 11, eng.Flags{}, "b")}},
		{"deployed:install|upgrade", 1, []eng.Op{c9op("install", 10, eng.Flags{}, "a"), c9op("upgrade", 11, eng.Flags{}, "a", "c")}},
		{"deployed2:upgrade|upgrade-atomic", 2, []eng.Op{c9op("upgrade", 10, eng.Flags{Cleanup: true}, "a"), c9op("upgrade", 11, eng.Flags{Atomic: true}, "a", "c")}},
		{"empty:install-hook|install", 0, []eng.Op{ihk, c9op("install", 11, eng.Flags{}, "b")}},
		{"deployed:upgrade-hook|upgrade", 1, []eng.Op{hk, c9op("upgrade", 11, eng.Flags{}, "a", "b")}},
		// the last revision is failed, the deployed one is older: the next revision is last+1, not deployed+1
		// a rejected cluster request makes the atomic upgrade fail and roll back while the other upgrade runs
		{"deployed:upgrade-atomic-fault|upgrade", 1, []eng.Op{c9fault(c9op("upgrade", 10, eng.Flags{Atomic: true}, "a", "c"), "create", "ConfigMap/c"), c9op("upgrade", 11, eng.Flags{}, "a")}},
		// ... and without --atomic: the failed upgrade just records "failed"
		{"deployed:upgrade-fault|upgrade", 1, []eng.Op{c9fault(c9op("upgrade", 10, eng.Flags{Cleanup: true}, "a", "c"), "patch", "ConfigMap/a"), c9op("upgrade", 11, eng.Flags{}, "a", "b")}},
		{"deployed+failed:upgrade|upgrade", -1, []eng.Op{c9op("upgrade", 10, eng.Flags{}, "a"), c9op("upgrade", 11, eng.Flags{}, "a", "c")}},
	}
}

func c9three() []c9scn {
	return []c9scn{
		{"empty:install|install|upgrade", 0, []eng.Op{c9op("install", 10, eng.Flags{}, "a"), c9op("install", 11, eng.Flags{}, "b"), c9op("upgrade", 12, eng.Flags{}, "a")}},
		{"deployed:upgrade|upgrade|upgrade", 1, []eng.Op{c9op("upgrade", 10, eng.Flags{}, "a"), c9op("upgrade", 11, eng.Flags{}, "b"), c9op("upgrade", 12, eng.Flags{}, "a", "c")}},
		{"deployed:upgrade|install|upgrade", 1, []eng.Op{c9op("upgrade", 10, eng.Flags{}, "a"), c9op("install", 11, eng.Flags{}, "a"), c9op("upgrade", 12, eng.Flags{}, "c")}},
	}
}

func (s c9scn) mk(backend string, sched []int) conc.Case {
	return conc.Case{Backend: backend, Pre: c9preOf(s.pre), Ops: s.ops, Sched: sched, Note: s.name}
}

// counts: gates of each operation when run alone after the prefix; an install --replace can
// pass one more (the write that supersedes the last revision)
func c9counts(c conc.Case) []int {
	n := conc.GateCounts(c)
	for i, op := range c.Ops {
		if op.Kind == "install" && op.Flags.Replace {
			n[i]++
		}
	}
	return n
}

var c9backends = []string{"secret", "memory", "configmap"}

// the witness of K8: install --replace racing a plain install of a fresh name
func c9replaceRace(backend string) conc.Case {
	return conc.Case{Backend: backend, Note: "K8 install --replace races install",
		Ops: []eng.Op{c9op("install", 10, eng.Flags{Replace: true}, "a"), c9op("install", 11, eng.Flags{}, "b")},
		// 0: name check (history empty); 1: name check, create r1 (pending-install);
		// 0: replaceRelease reads r1, supersedes it, creates r2; then both install and both record "deployed"
		Sched: []int{0, 1, 1, 0, 0, 0, 1, 1, 0, 0}}
}

func (*c09) Corpus() []any {
	var out []any
	// the assumption of the model ("a single storage call is atomic") probed directly on the memory driver
	out = append(out, conc.Case{Backend: "memory", Probe: "memory-lock-discipline", Note: "probe: lock discipline of driver.Memory"})
	for _, b := range []string{"secret", "memory"} {
		out = append(out, c9replaceRace(b))
		base := c9base()
		// the window between reading the last revision and creating the next record
		out = append(out, base[2].mk(b, []int{0, 1, 0, 1, 0, 0, 0, 1}))
		out = append(out, base[2].mk(b, []int{0, 1, 1, 0, 1, 1, 1, 0}))
		// the loser reads while the winner's record is pending
		out = append(out, base[2].mk(b, []int{0, 0, 1, 0, 0, 0}))
		// reads between "superseded" and "deployed" of the winner
		out = append(out, base[2].mk(b, []int{0, 0, 0, 0, 1, 0, 1}))
		out = append(out, base[0].mk(b, []int{0, 1, 0, 1, 0, 1, 0, 1}))
		out = append(out, base[1].mk(b, []int{1, 0, 0, 0, 0}))
		out = append(out, base[1].mk(b, []int{0, 0, 1, 0, 0}))
		out = append(out, base[9].mk(b, []int{0, 1, 0, 1, 0, 1, 0, 1, 0, 1}))
		// K1 (C01) seen through C09: install --replace when the last revision is failed and an older one is deployed
		out = append(out, conc.Case{Backend: b, Pre: c9preOf(-1), Note: "K1 install --replace over a failed last revision",
			Ops: []eng.Op{c9op("install", 10, eng.Flags{Replace: true}, "a"), c9op("upgrade", 11, eng.Flags{}, "a")}, Sched: []int{0, 0, 0, 0, 0, 0, 0}})
		// install --atomic fails on a rejected request, uninstalls and purges its record; the other install then creates revision 1 again
		out = append(out, conc.Case{Backend: b, Note: "atomic install purges its record, revision 1 is created again",
			Ops:   []eng.Op{c9fault(c9op("install", 10, eng.Flags{Atomic: true}, "a"), "create", "ConfigMap/a"), c9op("install", 11, eng.Flags{}, "b")},
			Sched: []int{0, 0, 0, 0, 0, 0, 0, 0, 0, 0}})
		// the pruning window (outside the quantifier): max-history 2, the stale upgrade prunes the other's PENDING revision 3 and re-creates it
		out = append(out, conc.Case{Backend: b, Pre: c9preOf(-1), Note: "pruning window: a stale upgrade --max-history 2 prunes the other's pending revision",
			Ops:   []eng.Op{c9op("upgrade", 10, eng.Flags{MaxHistory: 2}, "a"), c9op("upgrade", 11, eng.Flags{}, "a")},
			Sched: []int{1, 1, 0, 0, 1, 0, 0, 0, 1, 1, 0, 1, 0, 0, 0}})
		// a plain upgrade that starts while the automatic rollback of the failed --atomic upgrade is in
		// flight (revision 2 failed, revision 3 pending-rollback) must be refused: "another operation is in progress"
		out = append(out, base[7].mk(b, []int{0, 0, 0, 0, 0, 0, 0, 0, 0, 0, 1, 0, 1, 0, 1}))
		// K-C09-2: the automatic rollback of a failed --atomic upgrade races the other upgrade
		out = append(out, base[7].mk(b, []int{0, 0, 0, 0, 0, 1, 0, 1, 1, 1, 0, 0, 1, 0, 0, 0, 0, 0}))
		out = append(out, c9mixCorpus(b)...)
	}
	return append(out, c9flagFamily()...)
}

func (*c09) Exhaustive(tier string) []any {
	var out []any
	r := rand.New(rand.NewSource(909))
	c09RaceRun(tier)
	if tier == "thorough" {
		for _, b := range c9backends {
			for _, s := range c9base() {
				all := conc.Interleavings(c9counts(s.mk(b, nil)))
				if len(all) > 3000 { // the long failure paths (atomic rollback): a large sample on one backend
					if b != "secret" {
						continue
					}
					all = conc.Sample(r, all, 2000)
				} else if len(all) > 600 && b == "configmap" { // ConfigMaps share the code path of Secrets
					continue
				}
				for _, sch := range all {
					out = append(out, s.mk(b, sch))
				}
			}
			for _, s := range c9three() {
				for _, sch := range conc.Bounded(c9counts(s.mk(b, nil)), 2) {
					out = append(out, s.mk(b, sch))
				}
			}
		}
		return append(out, c9mixExhaustive(r, tier)...)
	}
	for i, s := range c9base() {
		b := c9backends[i%len(c9backends)]
		all := conc.Interleavings(c9counts(s.mk(b, nil)))
		for _, sch := range conc.Sample(r, all, 25) {
			out = append(out, s.mk(b, sch))
		}
	}
	for i, s := range c9three() {
		b := c9backends[(i+1)%len(c9backends)]
		all := conc.Bounded(c9counts(s.mk(b, nil)), 2)
		for _, sch := range conc.Sample(r, all, 15) {
			out = append(out, s.mk(b, sch))
		}
	}
	return append(out, c9mixExhaustive(r, tier)...)
}

func (*c09) Generate(r *rand.Rand, i int) any {
	c := conc.Case{Backend: c9backends[r.Intn(3)]}
	npre := r.Intn(3)
	c.Pre = c9pre(npre)
	if npre == 1 && r.Intn(3) == 0 {
		c.Pre = c9preOf(-1)
	}
	nops := 2
	if r.Intn(4) == 0 {
		nops = 3
	}
	var notes []string
	for k := 0; k < nops; k++ {
		kind := "upgrade"
		if (npre == 0 && r.Intn(3) > 0) || (npre > 0 && r.Intn(4) == 0) {
			kind = "install"
		}
		op := eng.Op{Kind: kind, ChartID: 10 + k, ValsID: r.Intn(4)}
		op.Manifest = eng.GenManifest(r, 10+k, false)
		if len(op.Manifest) > 3 {
			op.Manifest = op.Manifest[:3]
		}
		if r.Intn(3) == 0 {
			op.Hooks = eng.GenHooks(r, 1)
		}
		f := &op.Flags
		f.Atomic = r.Intn(5) == 0
		f.Cleanup = r.Intn(5) == 0
		f.NoHooks = r.Intn(8) == 0
		// no history pruning among the concurrent operations: outside the quantifier of C09, and the
		// shared model classifies a final Update that finds its record pruned away as "other"
		// where Helm returns "release: not found" (reported to the owner of Engine/Ops.v)
		if kind == "install" && r.Intn(12) == 0 {
			f.Replace = true
		}
		c.Ops = append(c.Ops, op)
		notes = append(notes, kind)
	}
	notes = append(notes, c9genMix(r, &c, npre)...)
	if r.Intn(6) == 0 {
		// one rejected mutating request, on a resource of one of the charts or of the prefix
		var keys []string
		for _, op := range c.Ops {
			for _, m := range op.Manifest {
				keys = append(keys, m.Key())
			}
		}
		keys = append(keys, "ConfigMap/a", "ConfigMap/b")
		c.Ops[0].KFault = &eng.KFault{Verb: []string{"create", "patch", "delete"}[r.Intn(3)], Key: keys[r.Intn(len(keys))]}
		notes = append(notes, "fault")
	}
	c.Note = fmt.Sprintf("gen pre%d:%s", npre, strings.Join(notes, "|"))
	c.Sched = conc.Random(r, c9counts(c))
	return c
}

func (*c09) Execute(ci any) any { return conc.Run(ci.(conc.Case)) }

// ---------- Coq case ----------

func (*c09) CoqCase(ci, oi any) string {
	c, o := ci.(conc.Case), oi.(conc.Obs)
	pre := eng.CoqCase(eng.History{Backend: c.Backend, Init: c.Init, Steps: c.Pre}, o.Pre)
	var steps []eng.Step
	var obs eng.Obs
	for i := range c.Ops {
		steps = append(steps, eng.Step{Op: &c.Ops[i]})
		var oo conc.OpObs
		if i < len(o.Ops) {
			oo = o.Ops[i]
		}
		obs.Steps = append(obs.Steps, eng.StepObs{Outcome: oo.Outcome, Ledger: o.Ledger, Objs: o.Objs, Trace: oo.Trace,
			Rendered: oo.Rendered, RHooks: oo.RHooks})
	}
	cc := eng.CoqCase(eng.History{Backend: c.Backend, Steps: steps}, obs)
	return fmt.Sprintf("mkCCase\n (%s)\n (%s)\n %s %s", pre, cc, coqNats(c.Sched), coqNats(o.Effective))
}

func coqNats(l []int) string {
	it := make([]string, len(l))
	for i, x := range l {
		it[i] = fmt.Sprint(x)
	}
	return hx.CoqList(it)
}

// ---------- classes ----------

func c9kinds(c conc.Case) string {
	var k []string
	for i, op := range c.Ops {
		s := op.Kind
		if op.Flags.Replace {
			s += "-replace"
		}
		if op.Flags.IsDry() {
			s += "-dry"
		}
		if op.Flags.MaxHistory > 0 {
			s += fmt.Sprintf("-mh%d", op.Flags.MaxHistory)
		}
		if op.Flags.KeepHistory {
			s += "-keep"
		}
		x := c.ExtOf(i)
		if x.CRDs {
			s += "+crds"
		}
		if x.CreateNamespace {
			s += "+ns"
		}
		x.CRDs, x.CreateNamespace = false, false
		if x.Force {
			s += "+force"
		} else if x.Any() {
			s += "+opts"
		}
		k = append(k, s)
	}
	return strings.Join(k, "|")
}

func (*c09) Class(ci, oi any) string {
	c := ci.(conc.Case)
	if c.Probe != "" {
		return "probe/" + c.Probe
	}
	f := ""
	if c9hasFault(c) {
		f = "/fault"
	}
	if o, ok := oi.(conc.Obs); ok {
		for i, oo := range o.Ops {
			if i < len(c.Ops) && len(oo.Created) == 0 && oo.Outcome == "err:exists" && oo.PreCalls > 0 {
				f += "/observed:crds-or-namespace-before-create"
				break
			}
		}
	}
	if o, ok := oi.(conc.Obs); ok && c9isMix(c) && c9deployed(o) > 1 {
		f += "/observed:two-deployed" // outside the property text (a rollback / uninstall takes part): an observation, see notes/C09.md
	}
	return fmt.Sprintf("pre%d/%s/%s%s", len(c.Pre), c9kinds(c), c.Backend, f)
}

// switches of the effective schedule away from an operation that was still running
func c9switches(o conc.Obs) int {
	left := map[int]int{}
	for _, i := range o.Effective {
		left[i]++
	}
	n := 0
	for k := 0; k+1 < len(o.Effective); k++ {
		a, b := o.Effective[k], o.Effective[k+1]
		left[a]--
		if a != b && left[a] > 0 {
			n++
		}
	}
	return n
}

func (*c09) NonTrivial(_, oi any) bool { return c9switches(oi.(conc.Obs)) >= 2 }

// ---------- oracle: the property text on the implementation's observations ----------

func (*c09) Oracle(ci, oi any) []hx.Violation {
	c, o := ci.(conc.Case), oi.(conc.Obs)
	var vs []hx.Violation
	add := func(sig, what string) { vs = append(vs, hx.Violation{Sig: sig, What: what}) }
	for _, f := range o.Probe {
		add("C09:memory-driver-lock-discipline", f)
	}
	if c09RaceFound != "" {
		add("C09:data-race", c09RaceFound)
		c09RaceFound = ""
	}
	if o.Hang != "" {
		add("C09:hang", o.Hang)
		return vs
	}
	replace := false
	for _, op := range c.Ops {
		if op.Kind == "install" && op.Flags.Replace {
			replace = true
		}
	}
	startEmpty := len(c.Pre) == 0
	// (1) every revision is created by exactly one operation: never two successful creates of a
	// revision without a successful delete of it in between (install --atomic purges its own
	// record when it fails; pruning deletes)
	live := map[int]int{}
	for _, ev := range o.StoreLog {
		switch ev.What {
		case "create":
			if j, dup := live[ev.Rev]; dup {
				add("C09:revision-created-twice", fmt.Sprintf("revision %d was created by operation %d and again by operation %d with no delete in between", ev.Rev, j, ev.Op))
			}
			live[ev.Rev] = ev.Op
		case "delete":
			delete(live, ev.Rev)
		}
	}
	for i, oo := range o.Ops {
		if oo.Panic != "" {
			add("C09:panic", fmt.Sprintf("operation %d panicked: %s", i, oo.Panic))
		}
	}
	// (1b) an upgrade that finds the last revision pending (install, upgrade OR rollback in flight)
	// must stop with the operation-in-progress error, having done nothing
	for i, oo := range o.Ops {
		if c.Ops[i].Kind != "upgrade" || !strings.HasPrefix(oo.FirstLast, "pending-") {
			continue
		}
		if oo.Outcome != "err:pending" || len(oo.Created) > 0 || oo.MutCalls > 0 {
			add("C09:pending-last-revision-not-refused", fmt.Sprintf("operation %d (upgrade) read a history whose last revision is %s but went on: outcome %s, created %v, %d mutating cluster calls",
				i, oo.FirstLast, oo.Outcome, oo.Created, oo.MutCalls))
		}
	}
	// (2) an operation that created no revision is inert and fails with the right class.
	// The property text speaks of install and upgrade operations; when a rollback or an uninstall
	// runs beside them (a "mix"), the clause still binds the install / upgrade participants; a
	// rollback that created nothing must be inert as well (its error classes are its own); an
	// uninstall creates nothing and deletes the release's resources by design.
	mix := c9isMix(c)
	uninstalling := false
	for _, op := range c.Ops {
		if op.Kind == "uninstall" {
			uninstalling = true
		}
	}
	for i, oo := range o.Ops {
		kind := c.Ops[i].Kind
		if kind == "uninstall" || len(oo.Created) > 0 || c.Ops[i].Flags.IsDry() {
			continue
		}
		if oo.MutCalls > 0 || len(oo.Muts) > 0 {
			add("C09:loser-mutated-cluster", fmt.Sprintf("operation %d (%s) created no revision (%s) but issued %d mutating cluster calls: %v",
				i, kind, oo.Outcome, oo.MutCalls, oo.Muts))
		}
		// an operation refused at its first check (the name is in use / another operation is in progress) has sent no
		// mutating request AT ALL: not even the CRD pre-install step of the chart's crds/ or the creation of the
		// release namespace, which an install otherwise performs before its revision record exists (the loser of
		// the create race may therefore have sent them: counted by Class() as observed:crds-or-namespace-before-create)
		// (an install --replace refused at its SECOND read, in replaceRelease, comes after the namespace creation)
		if (oo.Outcome == "err:name-in-use" || (kind == "upgrade" && oo.Outcome == "err:pending")) && (oo.PreCalls > 0 || len(oo.PreMuts) > 0) {
			add("C09:loser-mutated-cluster", fmt.Sprintf("operation %d (%s) was refused (%s) but had already sent %d create request(s) for CRDs / the namespace: %v",
				i, kind, oo.Outcome, oo.PreCalls, oo.PreMuts))
		}
		if len(oo.Refused) > 0 && oo.Outcome != "err:exists" {
			add("C09:exists-not-reported", fmt.Sprintf("operation %d: the create of revision %v was refused but it returned %q", i, oo.Refused, oo.Outcome))
		}
		if kind == "rollback" {
			continue
		}
		switch oo.Outcome {
		case "err:exists", "err:pending", "err:name-in-use":
		case "err:no-deployed":
			// an upgrade of a release that does not exist (or, in a mix, that an uninstall is taking / has taken away)
			if !startEmpty && !uninstalling {
				add("C09:loser-error-class", fmt.Sprintf("operation %d (%s) created no revision and returned %q", i, kind, oo.ErrText))
			}
		case "ok":
			add("C09:loser-reported-success", fmt.Sprintf("operation %d (%s) created no revision but reported success", i, kind))
		default:
			sig := "C09:loser-error-class"
			if c.Ops[i].Flags.MaxHistory > 0 && strings.Contains(oo.ErrText, "deletion errors") {
				// K-C09-4: two upgrades prune the same old revisions inside Storage.Create; the one whose deletes
				// find them gone twice gives up with the accumulated deletion errors (inert, but not one of the two promised errors)
				sig = "C09:loser-error-class-concurrent-pruning-deletion-errors"
			}
			add(sig, fmt.Sprintf("operation %d (%s) created no revision and returned %q", i, kind, oo.ErrText))
		}
	}
	// (3) quiescence: unique revisions, at most one deployed
	nd := 0
	var view []string
	for j, row := range o.Ledger {
		view = append(view, fmt.Sprintf("%d:%s", row.Rev, row.Status))
		if j > 0 && row.Rev <= o.Ledger[j-1].Rev {
			add("C09:duplicate-revision", fmt.Sprintf("revision %d stored twice", row.Rev))
		}
		if row.Status == "deployed" {
			nd++
		}
	}
	// "at most one deployed once all have returned" is promised for install / upgrade participants;
	// with a rollback (no pending check: K-C09-2) or an uninstall (marks the last revision
	// "uninstalling", which is not a pending status) beside them it does not hold — documented
	// observation (Class() counts it, the model reproduces it: C09_mix_*_refuted), not a violation
	if nd > 1 && !mix {
		sig := "C09:two-deployed"
		atomicUp := false
		for _, op := range c.Ops {
			if op.Kind == "upgrade" && op.Flags.Atomic {
				atomicUp = true
			}
		}
		failedLast := false
		if n := len(o.Pre.Steps); n > 0 {
			if l := o.Pre.Steps[n-1].Ledger; len(l) > 1 && l[len(l)-1].Status == "failed" {
				failedLast = true
			}
		}
		pruning := false
		for _, op := range c.Ops {
			if op.Kind == "upgrade" && op.Flags.MaxHistory > 0 {
				pruning = true
			}
		}
		// ... or the failed last revision was produced by a concurrent operation (a rejected request) and the
		// install --replace read it as the last one: the same sequential K1
		for i, op := range c.Ops {
			if op.Kind == "install" && op.Flags.Replace && i < len(o.Ops) && o.Ops[i].FirstLast == "failed" {
				failedLast = true
			}
		}
		switch {
		case pruning && !replace && !c9hasFault(c):
			// K-C09-3: Storage.Create prunes and then creates, not atomically; a pruner with max-history 1 or 2 deletes the
			// newest revision (the other upgrade's pending record, or the failed last revision, so that "last+1" goes back)
			sig = "C09:two-deployed-history-pruning-races-upgrade"
		case replace && failedLast:
			sig = "C09:two-deployed-install-replace-over-failed-last" // = K1 of C01, sequential
		case replace && startEmpty:
			sig = "C09:two-deployed-install-replace-races-install" // K-C09-1, repaired in /repo: must not fire any more
		case atomicUp && c9hasFault(c):
			sig = "C09:two-deployed-atomic-rollback-races-upgrade" // K-C09-2
		}
		var outs []string
		for _, oo := range o.Ops {
			outs = append(outs, oo.Outcome)
		}
		add(sig, fmt.Sprintf("%d revisions are deployed once all operations have returned: %v (outcomes %v, effective schedule %v)", nd, view, outs, o.Effective))
	}
	sort.SliceStable(vs, func(i, j int) bool { return vs[i].Sig < vs[j].Sig })
	return vs
}

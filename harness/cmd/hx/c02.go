package main

// C02 — after a successful operation the cluster matches the recorded manifest.
// Two levels of cases, both compared with the Coq model (Engine/Cluster.v, Engine/Seq.v):
//   (a) kube.Client.Create/Update/Delete alone on generated (orig, tgt, live) triples
//       (c02_kube.go), and
//   (b) full fault-free histories of real install/upgrade/rollback/uninstall with keep
//       policies, out-of-band edits and hooks (eng.GenHistory).
// The runtime oracle (c02_oracle.go) evaluates the property's sentences directly on the
// snapshots of the simulated API server before and after each successful operation.

import (
	"encoding/json"
	"fmt"
	"math/rand"

	"verif/harness/internal/eng"
	"verif/harness/internal/hx"
)

func init() { hx.Register("c02", func() hx.Property { return &c02{} }) }

type c02 struct{}

type c02Case struct {
	Hist *eng.History `json:"hist,omitempty"`
	Kube *kubeCase    `json:"kube,omitempty"`
	Obj  *objCase     `json:"obj,omitempty"` // round 4: whole objects (keyed lists, custom kind, --force)
	Act  *actCase     `json:"act,omitempty"` // round 4: real actions on charts of whole objects
}

type c02Obs struct {
	Hist *eng.Obs `json:"hist,omitempty"`
	Kube *kubeObs `json:"kube,omitempty"`
	Obj  *objObs  `json:"obj,omitempty"`
	Act  *actObs  `json:"act,omitempty"`
}

func (*c02) ID() string { return "C02" }
func (*c02) CoqImport() string {
	return "From Helm Require Import Engine.Types Engine.Eff Engine.Ops Engine.Cluster Engine.Seq Engine.Obj2 Engine.Update2 Run.RunEng Run.RunC02Obj Run.RunC02."
}

func (*c02) Rule() string {
	return "40%: one kube.Client call (update 70% / create 15% / delete 15%) on a generated (original, target, live) triple over 11 keys " +
		"(ConfigMap/Secret/ServiceAccount in namespace default, plus 4 twins with the same kind and name in namespace other; the API-server stand-in keys objects by namespace): per key a role (kept in both manifests with changed/added/dropped fields, added, removed, bystander), " +
		"live object = stamped original with drift on specified fields, foreign fields, missing fields, missing object; keep policy toggled " +
		"independently on the original, the target and the live object (keep / other value / absent); 8% adversarial (target live but not in " +
		"original, duplicate target keys, empty lists). 60%: histories of 1-6 real operations (install/upgrade/rollback/uninstall, " +
		"random flags, hooks, keep policies in the manifests) with out-of-band edits/deletions of live objects between operations, on " +
		"memory/Secret/ConfigMap storage; half of the histories also contain failing operations (about every fourth operation gets a rejected " +
		"request on one resource, a failing hook or a failing wait). non-trivial = the call (or at least two operations of the history) changed the object store; " +
		"distinct = hash of (case, observation)"
}

func (*c02) Decode(raw json.RawMessage) (any, error) {
	var c c02Case
	err := json.Unmarshal(raw, &c)
	return c, err
}

func c02Op(kind string, chart int, f eng.Flags, rs ...eng.Res) *eng.Op {
	return &eng.Op{Kind: kind, Flags: f, ChartID: chart, ValsID: chart, Manifest: rs}
}

func cm(name string, kv ...string) eng.Res {
	f := map[string]string{}
	for i := 0; i+1 < len(kv); i += 2 {
		f[kv[i]] = kv[i+1]
	}
	return eng.Res{Kind: "ConfigMap", Name: name, Fields: f}
}

const polKey = "a:helm.sh/resource-policy"

func (*c02) Corpus() []any {
	var out []any
	hist := func(steps ...eng.Step) { out = append(out, c02Case{Hist: &eng.History{Backend: "memory", Steps: steps}}) }
	op := func(o *eng.Op) eng.Step { return eng.Step{Op: o} }
	stampOn := func(r eng.Res) *eng.Res {
		r.Fields["l:app.kubernetes.io/managed-by"] = "Helm"
		r.Fields["a:meta.helm.sh/release-name"] = eng.RelName
		r.Fields["a:meta.helm.sh/release-namespace"] = eng.RelNS
		return &r
	}
	// F6 witness (repaired by 18ab676): a resource whose policy annotation is not "keep" must go on uninstall
	hist(op(c02Op("install", 1, eng.Flags{}, cm("a", "d:k", "v1", polKey, "foo"), cm("b", "d:k", "v1", polKey, "Keep "), cm("c", "d:k", "v1"))),
		op(c02Op("uninstall", 0, eng.Flags{})))
	// the drift case of DESIGN: a specified field edited out of band is corrected, a foreign field survives
	hist(op(c02Op("install", 1, eng.Flags{}, cm("a", "d:k", "v1", "d:x", "1"))),
		eng.Step{Edit: &eng.Edit{Set: stampOn(cm("a", "d:k", "EDITED", "d:x", "1", "d:foreign", "f"))}},
		op(c02Op("upgrade", 2, eng.Flags{}, cm("a", "d:k", "v1", "d:y", "2"))))
	// keep toggles: manifest says keep but the live object lost the annotation => upgrade deletes it;
	// manifest does not say keep but the live object carries it => kept
	hist(op(c02Op("install", 1, eng.Flags{}, cm("a", "d:k", "v1", polKey, "keep"), cm("b", "d:k", "v1"), cm("c", "d:k", "v1"))),
		eng.Step{Edit: &eng.Edit{Set: stampOn(cm("a", "d:k", "v1"))}},
		eng.Step{Edit: &eng.Edit{Set: stampOn(cm("b", "d:k", "v1", polKey, "keep"))}},
		op(c02Op("upgrade", 2, eng.Flags{}, cm("c", "d:k", "v2"))))
	// out-of-band deletion followed by an upgrade that still contains the resource: re-created
	hist(op(c02Op("install", 1, eng.Flags{}, cm("a", "d:k", "v1"), cm("b", "d:k", "v1"))),
		eng.Step{Edit: &eng.Edit{Del: "ConfigMap/a"}},
		op(c02Op("upgrade", 2, eng.Flags{}, cm("a", "d:k", "v1"), cm("b", "d:k", "v2"))),
		op(c02Op("rollback", 0, eng.Flags{})), op(c02Op("uninstall", 0, eng.Flags{KeepHistory: true})))
	// install --replace while a revision is still deployed (K1 of C01, reached here without any fault: the
	// upgrade fails because its hook object, kept by delete policy hook-failed, already exists): the
	// resources of the deployed revision that the new manifest drops are never deleted
	hk := func(ev string) []eng.Hook {
		return []eng.Hook{{Res: cm("hk", "d:h", "0"), Events: []string{ev}, Policies: []string{"hook-failed"}}}
	}
	in1 := c02Op("install", 1, eng.Flags{}, cm("a", "d:k", "v1"), cm("b", "d:k", "v1"))
	in1.Hooks = hk("pre-install")
	up2 := c02Op("upgrade", 2, eng.Flags{}, cm("a", "d:k", "v2"), cm("b", "d:k", "v2"))
	up2.Hooks = hk("pre-upgrade")
	hist(op(in1), op(up2), op(c02Op("install", 3, eng.Flags{Replace: true}, cm("a", "d:k", "v3"))))
	// rollback after an upgrade that failed before touching the cluster, to a revision other than the deployed one:
	// rollback diffs against the failed (latest) revision, so what only the deployed revision has stays (K6-C02)
	sa := eng.Res{Kind: "ServiceAccount", Name: "sa", Fields: map[string]string{"l:tier": "web"}}
	up2b := c02Op("upgrade", 2, eng.Flags{}, cm("a", "d:k", "v2"), sa)
	up2b.Hooks = []eng.Hook{{Res: cm("hk", "d:h", "0"), Events: []string{"pre-upgrade"}}}
	up3b := c02Op("upgrade", 3, eng.Flags{}, cm("a", "d:k", "v3"))
	up3b.Hooks = []eng.Hook{{Res: cm("hk", "d:h", "0"), Events: []string{"pre-upgrade"}, Policies: []string{"hook-succeeded"}}}
	hist(op(c02Op("install", 1, eng.Flags{}, cm("a", "d:k", "v1"))), op(up2b), op(up3b), op(c02Op("rollback", 0, eng.Flags{Version: 1})))
	// a FAILED upgrade in the middle: r1 {a,b} deployed; r2 {a} fails on its pre-upgrade hook before anything is
	// applied (injected hook failure / fault-free: the hook object already exists) or after everything was applied
	// (wait fails); r3 {a} succeeds and must be diffed against the still-deployed r1, so b goes
	gate := []eng.Hook{{Res: cm("gate", "d:h", "0"), Events: []string{"pre-upgrade"}}}
	for variant := 0; variant < 3; variant++ {
		i1 := c02Op("install", 1, eng.Flags{}, cm("a", "d:k", "v1"), cm("b", "d:k", "v1"))
		u2 := c02Op("upgrade", 2, eng.Flags{}, cm("a", "d:k", "v2"))
		u3 := c02Op("upgrade", 3, eng.Flags{}, cm("a", "d:k", "v3"))
		switch variant {
		case 0:
			u2.Hooks = gate
			u2.HFault = &eng.HFault{Name: "gate"}
		case 1:
			i1.Hooks = []eng.Hook{{Res: cm("gate", "d:h", "0"), Events: []string{"post-install"}, Policies: []string{"hook-failed"}}}
			u2.Hooks = []eng.Hook{{Res: cm("gate", "d:h", "0"), Events: []string{"pre-upgrade"}, Policies: []string{"hook-failed"}}}
		case 2:
			u2 = c02Op("upgrade", 2, eng.Flags{}, cm("a", "d:k", "v2"), cm("b", "d:k", "v2"), cm("c", "d:k", "v2"))
			u2.WaitFail = true
		}
		hist(op(i1), op(u2), op(u3), op(c02Op("uninstall", 0, eng.Flags{})))
	}
	out = append(out, kubeCorpus()...)
	out = append(out, objCorpus()...)
	out = append(out, actCorpus()...)
	return out
}

func (*c02) Exhaustive(tier string) []any {
	if tier != "thorough" {
		return nil
	}
	return append(kubeExhaustive(), objExhaustive()...)
}

func (*c02) Generate(r *rand.Rand, i int) any {
	// every third case is a rich-object case (round 4; quick_n went from 300 to 450 so that the number of
	// flat cases and histories per run stayed what it was)
	if i%3 == 2 {
		r2 := rand.New(rand.NewSource(r.Int63()))
		if (i/3)%3 == 0 {
			return c02Case{Act: genActCase(r2)}
		}
		return c02Case{Obj: genObjCase(r2)}
	}
	if r.Intn(10) < 4 {
		return c02Case{Kube: genKubeCase(r)}
	}
	h := eng.GenHistory(r, eng.GenOpts{KeepPolicies: true, Edits: true, Flags: true, Hooks: 1})
	// half of the histories also contain FAILING operations: a rejected request, a failing hook or a failing
	// wait on about every fourth operation (the property quantifies over histories of successful and failed
	// operations; its sentences are evaluated after the successful, unfaulted ones)
	if r.Intn(2) == 0 {
		var prevKeys []string
		for _, s := range h.Steps {
			if s.Op == nil {
				continue
			}
			if r.Intn(4) == 0 {
				c02Fault(r, s.Op, prevKeys)
			}
			for _, m := range s.Op.Manifest {
				prevKeys = append(prevKeys, m.Key())
			}
		}
	}
	return c02Case{Hist: &h}
}

// c02Fault attaches one cluster-side fault to the operation.
func c02Fault(r *rand.Rand, op *eng.Op, prevKeys []string) {
	switch x := r.Intn(10); {
	case x < 2:
		op.WaitFail = true
	case x < 6 && len(op.Hooks) > 0:
		h := op.Hooks[r.Intn(len(op.Hooks))]
		op.HFault = &eng.HFault{Name: h.Res.Name}
	default:
		var keys []string
		for _, m := range op.Manifest {
			keys = append(keys, m.Key())
		}
		keys = append(keys, prevKeys...)
		if len(keys) == 0 {
			op.WaitFail = true
			return
		}
		op.KFault = &eng.KFault{Verb: []string{"create", "patch", "delete", "get"}[r.Intn(4)], Key: keys[r.Intn(len(keys))]}
	}
}

func (*c02) Execute(ci any) any {
	c := ci.(c02Case)
	if c.Obj != nil {
		o := objExecute(c.Obj)
		return c02Obs{Obj: &o}
	}
	if c.Act != nil {
		o := actExecute(c.Act)
		return c02Obs{Act: &o}
	}
	if c.Kube != nil {
		o := kubeExecute(c.Kube)
		return c02Obs{Kube: &o}
	}
	o := eng.NewRunner(c.Hist.Backend).Run(*c.Hist)
	return c02Obs{Hist: &o}
}

func (*c02) CoqCase(ci, oi any) string {
	c, o := ci.(c02Case), oi.(c02Obs)
	if c.Obj != nil {
		return "CObj (" + objCoq(c.Obj, o.Obj) + ")"
	}
	if c.Act != nil {
		return "CObj (" + actCoq(c.Act, o.Act) + ")"
	}
	if c.Kube != nil {
		return "CKube (" + kubeCoq(c.Kube, o.Kube) + ")"
	}
	kept := make([]string, len(c.Hist.Steps))
	for i := range c.Hist.Steps {
		var k []string
		if i < len(o.Hist.Steps) {
			k = keptLines(o.Hist.Steps[i].Kept)
		}
		kept[i] = hx.CoqStrList(k)
	}
	return "CHist (" + eng.CoqCase(*c.Hist, *o.Hist) + ")\n  " + hx.CoqList(kept)
}

func (*c02) Class(ci, oi any) string {
	c, o := ci.(c02Case), oi.(c02Obs)
	if c.Obj != nil {
		return objClass(c.Obj, o.Obj)
	}
	if c.Act != nil {
		return actClass(c.Act, o.Act)
	}
	if c.Kube != nil {
		res := "err"
		if o.Kube.Ok {
			res = "ok"
		}
		return "kube/" + c.Kube.Verb + "/" + res
	}
	nok := 0
	for i, s := range c.Hist.Steps {
		if s.Op != nil && i < len(o.Hist.Steps) && o.Hist.Steps[i].Outcome == "ok" {
			nok++
		}
	}
	nops := 0
	for _, s := range c.Hist.Steps {
		if s.Op != nil {
			nops++
		}
	}
	return fmt.Sprintf("hist/ops%d/ok%d", nops, nok)
}

func (*c02) NonTrivial(ci, oi any) bool {
	c, o := ci.(c02Case), oi.(c02Obs)
	if c.Obj != nil {
		for _, so := range o.Obj.Steps {
			if len(so.Muts) > 0 {
				return true
			}
		}
		return false
	}
	if c.Act != nil {
		changed := 0
		for _, so := range o.Act.Steps {
			for _, call := range so.Calls {
				if len(call.Obs.Muts) > 0 {
					changed++
					break
				}
			}
		}
		return changed >= 2
	}
	if c.Kube != nil {
		return len(o.Kube.Muts) > 0
	}
	changed := 0
	for i, s := range c.Hist.Steps {
		if s.Op == nil || i >= len(o.Hist.Steps) {
			continue
		}
		for _, e := range o.Hist.Steps[i].Trace {
			if e.Call != "" && len(e.Muts) > 0 {
				changed++
				break
			}
		}
	}
	return changed >= 2
}

func (*c02) Oracle(ci, oi any) []hx.Violation {
	c, o := ci.(c02Case), oi.(c02Obs)
	if c.Obj != nil {
		return objOracle(c.Obj, o.Obj)
	}
	if c.Act != nil {
		return actOracle(c.Act, o.Act)
	}
	if c.Kube != nil {
		return kubeOracle(c.Kube, o.Kube)
	}
	return histOracle(c.Hist, o.Hist)
}

package main

// C04, the --set grammar and the flag mixtures: generators (grammar stream, malformed stream,
// Options mixtures), execution of the real strvals parsers and values.Options.MergeValues,
// and the JSON decode table handed to the model for --set-json.

import (
	"crypto/sha1"
	"encoding/hex"
	"encoding/json"
	"fmt"
	"math/rand"
	"os"
	"path/filepath"
	"sort"
	"strings"

	"sigs.k8s.io/yaml"

	"helm.sh/helm/v4/pkg/cli/values"
	"helm.sh/helm/v4/pkg/getter"
	"helm.sh/helm/v4/pkg/strvals"

	"verif/harness/internal/hx"
)

type c04Seg struct {
	Key string `json:"key"`
	Idx []int  `json:"idx,omitempty"`
}

// c04Pair: one name=value of a grammar-generated expression, with what it should mean.
type c04Pair struct {
	Path []c04Seg    `json:"path"`
	Val  interface{} `json:"val"` // the typed value the documented rules give
}

type c04Parse struct {
	Fn    string            `json:"fn"` // ParseInto ParseIntoString ParseJSON ParseLiteralInto ParseIntoFile
	S     string            `json:"s"`
	Dest  vtree             `json:"dest"`
	Files map[string]string `json:"files,omitempty"` // path -> content (--set-file)
	Pairs []c04Pair         `json:"pairs,omitempty"` // grammar stream only
	// round 4 (c04_set2.go): the case goes through the second model (CParse2 / CProbe)
	V2         bool               `json:"v2,omitempty"`
	SHex       string             `json:"s_hex,omitempty"`       // S in hex when it is not valid UTF-8 (JSON would mangle it)
	NamesKnown bool               `json:"names_known,omitempty"` // the generator printed S from Pairs / NamePaths
	NamePaths  [][]c04Seg         `json:"name_paths,omitempty"`
	Reader     map[string]c04RVal `json:"reader,omitempty"` // synthetic RunesValueReader (ParseIntoFile / ParseFile)
	Probes     [][]orStep         `json:"probes,omitempty"` // observe only these deep paths
	// what the documented rules say about the probes (index 0..MaxIndex allowed, nil padding below it)
	ProbeWant []c04Probed `json:"probe_want,omitempty"`
	WantErr   bool        `json:"want_err,omitempty"`
}

// c04Assign: for the precedence oracle of simple flag mixtures.
type c04Assign struct {
	Path  []string    `json:"path"`
	Val   interface{} `json:"val"`
	Exact bool        `json:"exact"`
}

type c04Opts struct {
	Files     []vtree           `json:"files,omitempty"`
	JSON      []string          `json:"json,omitempty"`
	Set       []string          `json:"set,omitempty"`
	SetString []string          `json:"set_string,omitempty"`
	SetFile   []string          `json:"set_file,omitempty"`
	Literal   []string          `json:"literal,omitempty"`
	Contents  map[string]string `json:"contents,omitempty"` // path -> content for --set-file
	// Assign lists, in documented precedence order (lowest first), what each source sets;
	// only filled for the "simple" stream, where every flag value is one path=value.
	Assign []c04Assign `json:"assign,omitempty"`
	// Named: for the single-path value flags ("json:0", "set:1", "string:0", "setfile:0",
	// "literal:0": family and position) the paths the expression names; used by the frame oracle.
	Named map[string][][]c04Seg `json:"named,omitempty"`
}

func (o *c04Opts) name(fam string, i int, paths ...[]c04Seg) {
	if o.Named == nil {
		o.Named = map[string][][]c04Seg{}
	}
	o.Named[fmt.Sprintf("%s:%d", fam, i)] = paths
}

func c04PlainSegs(p []string) []c04Seg {
	out := make([]c04Seg, len(p))
	for i, k := range p {
		out[i] = c04Seg{Key: k}
	}
	return out
}

func c04PairPaths(ps []c04Pair) [][]c04Seg {
	var out [][]c04Seg
	for _, p := range ps {
		out = append(out, p.Path)
	}
	return out
}

const c04FileDir = "/tmp/hxc04-setfile"

func c04FilePath(content string) string {
	h := sha1.Sum([]byte(content))
	return filepath.Join(c04FileDir, "f"+hex.EncodeToString(h[:5])+"txt")
}

func c04WriteFiles(m map[string]string) error {
	if len(m) == 0 {
		return nil
	}
	if err := os.MkdirAll(c04FileDir, 0o755); err != nil {
		return err
	}
	for p, c := range m {
		if c == "\x00missing" {
			continue
		}
		if old, err := os.ReadFile(p); err == nil && string(old) == c {
			continue
		}
		if err := os.WriteFile(p, []byte(c), 0o644); err != nil {
			return err
		}
	}
	return nil
}

// ---------- grammar ----------

var c04EscKeys = []string{"x.y", "a,b", "k=v", "p[q", "back\\slash", "né", "sp ace"}

func c04EscapeKey(k string) string {
	var b strings.Builder
	for _, r := range k {
		switch r {
		case '.', ',', '=', '[', '\\':
			b.WriteByte('\\')
		}
		b.WriteRune(r)
	}
	return b.String()
}

func c04ShowPath(p []c04Seg) string {
	parts := make([]string, len(p))
	for i, s := range p {
		parts[i] = c04EscapeKey(s.Key)
		for _, ix := range s.Idx {
			parts[i] += fmt.Sprintf("[%d]", ix)
		}
	}
	return strings.Join(parts, ".")
}

// one path in c04UnsafeOneIn ignores the shape of dest (lowered while generating flag mixtures,
// where a single error anywhere turns the whole case into "error")
var c04UnsafeOneIn = 5

func c04GenPath(r *rand.Rand, dest vtree) []c04Seg {
	n := 1 + r.Intn(3)
	// mostly paths that fit what dest already has (a key below a scalar, or an index on a
	// non-list, is an error in strvals); one in five ignores the shape on purpose
	safe := r.Intn(c04UnsafeOneIn) > 0
	var p []c04Seg
	var cur interface{} = dest
	for i := 0; i < n; i++ {
		var k string
		m, _ := cur.(vtree)
		switch {
		case len(m) > 0 && r.Intn(3) > 0:
			ks := c04SortedKeys(m)
			k = ks[r.Intn(len(ks))]
		case r.Intn(8) == 0:
			k = c04EscKeys[r.Intn(len(c04EscKeys))]
		default:
			k = vtKeys[r.Intn(len(vtKeys))]
		}
		s := c04Seg{Key: k}
		var nxt interface{}
		exists := false
		if m != nil {
			nxt, exists = m[k]
		}
		l, isList := nxt.([]interface{})
		if (r.Intn(5) == 0 && (!safe || !exists)) || (isList && r.Intn(2) == 0) {
			ix := r.Intn(3)
			s.Idx = append(s.Idx, ix)
			nxt, exists = nil, false
			if isList && ix < len(l) {
				nxt, exists = l[ix], true
			}
			if _, inner := nxt.([]interface{}); (inner && r.Intn(2) == 0) || (!exists && r.Intn(6) == 0) {
				s.Idx = append(s.Idx, r.Intn(2))
				nxt, exists = nil, false
			}
		}
		p = append(p, s)
		if _, isTable := nxt.(vtree); safe && exists && !isTable {
			break // anything below a non-table would be an error
		}
		cur = nxt
	}
	return p
}

type c04Lit struct {
	Text  string
	Typed interface{} // under --set
}

var c04Lits = []c04Lit{
	{"true", true}, {"TRUE", true}, {"False", false}, {"null", nil}, {"NULL", nil}, {"0", int64(0)}, {"7", int64(7)},
	{"-12", int64(-12)}, {"+5", int64(5)}, {"007", "007"}, {"00", "00"}, {"1.5", "1.5"}, {"1e3", "1e3"},
	{"9223372036854775807", int64(9223372036854775807)}, {"9223372036854775808", "9223372036854775808"},
	{"text", "text"}, {"", ""}, {"a\\,b", "a,b"}, {"x=y", "x=y"}, {"a.b", "a.b"}, {"héllo", "héllo"}, {"sp ace", "sp ace"},
	{"a\\\\b", "a\\b"}, {"-", "-"}, {"tru", "tru"}, {"[0]", "[0]"}, {"}", "}"},
}

// c04GenValue: the text after '=' and its meaning under --set and --set-string.
func c04GenValue(r *rand.Rand) (text string, typed, str interface{}) {
	if r.Intn(6) == 0 {
		n := r.Intn(4)
		items := make([]string, n)
		tl := make([]interface{}, n)
		sl := make([]interface{}, n)
		for i := 0; i < n; i++ {
			l := c04Lits[r.Intn(len(c04Lits))]
			for strings.ContainsAny(l.Text, "}") || (n == 1 && l.Text == "") {
				l = c04Lits[r.Intn(len(c04Lits))]
			}
			items[i], tl[i] = l.Text, l.Typed
			sl[i] = c04Unescape(l.Text)
		}
		if n == 0 {
			// "{}" is a list with one empty item
			return "{}", []interface{}{""}, []interface{}{""}
		}
		return "{" + strings.Join(items, ",") + "}", tl, sl
	}
	l := c04Lits[r.Intn(len(c04Lits))]
	return l.Text, l.Typed, c04Unescape(l.Text)
}

func c04Unescape(s string) string {
	var b strings.Builder
	rs := []rune(s)
	for i := 0; i < len(rs); i++ {
		if rs[i] == '\\' && i+1 < len(rs) {
			i++
		}
		b.WriteRune(rs[i])
	}
	return b.String()
}

// c04GenSetExpr: 1-3 pairs over paths that often collide with what dest already has.
func c04GenSetExpr(r *rand.Rand, dest vtree, fn string) (string, []c04Pair) {
	n := 1
	if fn != "ParseLiteralInto" && r.Intn(3) == 0 {
		n += 1 + r.Intn(2)
	}
	var parts []string
	var pairs []c04Pair
	for i := 0; i < n; i++ {
		p := c04GenPath(r, dest)
		text, typed, str := c04GenValue(r)
		var val interface{}
		switch fn {
		case "ParseIntoString":
			val = str
		case "ParseLiteralInto":
			val = text
			// the literal parser has no escapes: keys are taken as written
			for j := range p {
				p[j].Key = strings.NewReplacer(".", "_", "=", "_", "[", "_").Replace(p[j].Key)
			}
			parts = append(parts, c04ShowPathLiteral(p)+"="+text)
			pairs = append(pairs, c04Pair{Path: p, Val: val})
			continue
		default:
			val = typed
		}
		if i < n-1 && text == "" {
			text, val = "mid", "mid"
		}
		parts = append(parts, c04ShowPath(p)+"="+text)
		pairs = append(pairs, c04Pair{Path: p, Val: val})
	}
	return strings.Join(parts, ","), pairs
}

func c04ShowPathLiteral(p []c04Seg) string {
	parts := make([]string, len(p))
	for i, s := range p {
		parts[i] = s.Key
		for _, ix := range s.Idx {
			parts[i] += fmt.Sprintf("[%d]", ix)
		}
	}
	return strings.Join(parts, ".")
}

var c04Alphabet = []string{"a", "b", ".", "=", ",", "[", "]", "{", "}", "\\", " ", "0", "1", "-", "é", "\"", ":", "n", "u", "l"}

func c04GenMalformed(r *rand.Rand) string {
	n := r.Intn(13)
	var b strings.Builder
	for i := 0; i < n; i++ {
		b.WriteString(c04Alphabet[r.Intn(len(c04Alphabet))])
	}
	return b.String()
}

var c04Hand = []string{"", "a", "a=", "a.", "a.b", "a.b=", ".a=1", "a.=1", "a[0]", "a[0].", "a[0]=", "a[0][0].", "a[0].d=", "a[1][0].d=", "a[0].d.e=", "a[2].b=", "a[", "a[x]=1", "a[-1]=1",
	"a[300]=1", "a[65537]=1", "a=1,", "a=1,b", ",", "=", "=x", "a=,b=2", "a={", "a={x", "a={x}y", "a={x},b=1", "a={x}b=1", "a=\\", "a\\", "a[0]x=1",
	"a[0]=1,a[2]=3", "a[1].b=1,a[1].c=2", "a[0][1]=x", "a.b.c.d.e.f.g.h.i.j.k.l.m.n.o.p.q.r.s.t.u.v.w.x.y.z.a.b.c.d.e=1",
	"a.b.c.d.e.f.g.h.i.j.k.l.m.n.o.p.q.r.s.t.u.v.w.x.y.z.a.b.c.d=1", "a=1,a=2", "a.b=1,a=2", "a=2,a.b=1", "a=null", "a.b=null",
	// the nesting bound also counts list items (C20's fix): 30 levels pass, 31 fail
	"a[0][0][0][0][0][0][0][0][0][0][0][0][0][0][0][0][0][0][0][0][0][0][0][0][0][0][0][0][0][0][0]=1", "a[0][0][0][0][0][0][0][0][0][0][0][0][0][0][0][0][0][0][0][0][0][0][0][0][0][0][0][0][0][0][0][0]=1",
	"a[0].a[0].a[0].a[0].a[0].a[0].a[0].a[0].a[0].a[0].a[0].a[0].a[0].a[0].a[0].a=1", "a[0].a[0].a[0].a[0].a[0].a[0].a[0].a[0].a[0].a[0].a[0].a[0].a[0].a[0].a[0].a.a=1"}

func c04GenJSONExpr(r *rand.Rand, dest vtree) string {
	s, _ := c04GenJSONExprPaths(r, dest)
	return s
}

func c04GenJSONExprPaths(r *rand.Rand, dest vtree) (string, [][]c04Seg) {
	vals := []string{`1`, `"s"`, `null`, `true`, `[1,2]`, `{"x":1}`, `{"x":{"y":null}}`, ` 2`, `"a,b"`, `[{"k":"v"}]`, ``, ` `, `1.5`, `"é"`, `-3`, `[]`, `{}`, `"t"`, `false`, `[null]`}
	if r.Intn(c04UnsafeOneIn) == 0 {
		vals = []string{`tru`, `{`, `[1,`, `"open`, `nul`}
	}
	n := 1 + r.Intn(2)
	var parts []string
	var paths [][]c04Seg
	for i := 0; i < n; i++ {
		p := c04GenPath(r, dest)
		paths = append(paths, p)
		parts = append(parts, c04ShowPath(p)+"="+vals[r.Intn(len(vals))])
	}
	sep := ","
	if r.Intn(6) == 0 {
		sep = " , "
		// the blank after the comma is not skipped: it belongs to the next pair's first key
		// (the first version of this generator named the key without it: flag-frame false
		// alarm in the thorough tier, notes/C04.md)
		for i := 1; i < len(paths); i++ {
			paths[i] = append([]c04Seg{{Key: " " + paths[i][0].Key, Idx: paths[i][0].Idx}}, paths[i][1:]...)
		}
	}
	return strings.Join(parts, sep), paths
}

func c04GenParse(r *rand.Rand, base vtree) c04Case {
	dest := vtMutate(r, base, 3)
	if r.Intn(4) == 0 {
		dest = vtree{}
	}
	// lists of tables / lists in dest so that index paths meet something
	if r.Intn(3) == 0 {
		dest[vtKeys[r.Intn(len(vtKeys))]] = []interface{}{vtGenVal(r, 1), vtree{"a": int64(1)}, []interface{}{"x"}}
	}
	p := &c04Parse{Dest: dest}
	tag := ""
	switch k := r.Intn(20); {
	case k < 8:
		p.Fn = "ParseInto"
		p.S, p.Pairs = c04GenSetExpr(r, dest, p.Fn)
		tag = "parse-grammar"
	case k < 10:
		p.Fn = "ParseIntoString"
		p.S, p.Pairs = c04GenSetExpr(r, dest, p.Fn)
		tag = "parse-grammar-string"
	case k < 12:
		p.Fn = "ParseLiteralInto"
		p.S, p.Pairs = c04GenSetExpr(r, dest, p.Fn)
		tag = "parse-grammar-literal"
	case k < 14:
		p.Fn = "ParseJSON"
		p.S = c04GenJSONExpr(r, dest)
		tag = "parse-json"
	case k < 15:
		p.Fn = "ParseIntoFile"
		content := vtStrings[r.Intn(len(vtStrings))]
		path := c04FilePath(content)
		p.Files = map[string]string{path: content}
		pp := c04GenPath(r, dest)
		p.S = c04ShowPath(pp) + "=" + path
		if r.Intn(4) == 0 {
			p.S = c04ShowPath(pp) + "=/nonexistent/hxc04"
		} else {
			p.Pairs = []c04Pair{{Path: pp, Val: content}}
		}
		tag = "parse-file"
	case k < 17:
		p.Fn = []string{"ParseInto", "ParseIntoString", "ParseLiteralInto", "ParseJSON"}[r.Intn(4)]
		p.S = c04Hand[r.Intn(len(c04Hand))]
		tag = "parse-handwritten"
	default:
		p.Fn = []string{"ParseInto", "ParseInto", "ParseIntoString", "ParseLiteralInto", "ParseJSON"}[r.Intn(5)]
		p.S = c04GenMalformed(r)
		tag = "parse-malformed"
	}
	return c04Case{Kind: "parse", Parse: p, Tag: tag}
}

// ---------- flag mixtures ----------

func c04LeafAssigns(t vtree) []c04Assign {
	var out []c04Assign
	for _, p := range vtPaths(t) {
		v, _ := vtLookup(p, t)
		if m, ok := v.(vtree); ok {
			if len(m) == 0 {
				out = append(out, c04Assign{Path: p, Exact: false})
			}
			continue
		}
		out = append(out, c04Assign{Path: p, Val: v, Exact: true})
	}
	return out
}

func c04GenOpts(r *rand.Rand, base vtree) c04Case {
	o := &c04Opts{Contents: map[string]string{}}
	simple := r.Intn(3) > 0
	stamp := 0
	next := func() string { stamp++; return fmt.Sprintf("v%d", stamp) }
	// a small pool of plain paths shared by all sources
	pool := [][]string{{"a", "x"}, {"b"}, {"a", "y"}, {"c", "d", "e"}, {"c", "d", "f"}, {"e"}, {"g", "h"}}
	clash := [][]string{{"a"}, {"c", "d"}, {"b", "z"}}
	pick := func() []string {
		if r.Intn(12) == 0 {
			return clash[r.Intn(len(clash))]
		}
		return pool[r.Intn(len(pool))]
	}
	mk := func(p []string, v interface{}) vtree {
		t := vtree{}
		cur := t
		for i, k := range p {
			if i == len(p)-1 {
				cur[k] = v
			} else {
				n := vtree{}
				cur[k] = n
				cur = n
			}
		}
		return t
	}
	if simple {
		for i := r.Intn(3); i > 0; i-- {
			f := vtree{}
			for j := 1 + r.Intn(3); j > 0; j-- {
				p := pick()
				if _, ok := vtLookup(p[:1], f); ok {
					continue
				}
				for k, v := range mk(p, next()) {
					f[k] = v
				}
			}
			if r.Intn(5) == 0 {
				f[pick()[0]] = vtree{}
			}
			o.Files = append(o.Files, f)
			o.Assign = append(o.Assign, c04LeafAssigns(f)...)
		}
		for i := r.Intn(3); i > 0; i-- {
			p := pick()
			if r.Intn(2) == 0 {
				t := mk(p, next())
				b, _ := json.Marshal(t)
				o.JSON = append(o.JSON, string(b))
				o.Assign = append(o.Assign, c04LeafAssigns(t)...)
			} else {
				v := next()
				o.name("json", len(o.JSON), c04PlainSegs(p))
				o.JSON = append(o.JSON, strings.Join(p, ".")+"=\""+v+"\"")
				o.Assign = append(o.Assign, c04Assign{Path: p, Val: v, Exact: true})
			}
		}
		fam := func(dst *[]string, name string) {
			for i := r.Intn(3); i > 0; i-- {
				p, v := pick(), next()
				o.name(name, len(*dst), c04PlainSegs(p))
				*dst = append(*dst, strings.Join(p, ".")+"="+v)
				o.Assign = append(o.Assign, c04Assign{Path: p, Val: v, Exact: true})
			}
		}
		fam(&o.Set, "set")
		fam(&o.SetString, "string")
		for i := r.Intn(2); i > 0; i-- {
			p, v := pick(), next()
			path := c04FilePath(v)
			o.Contents[path] = v
			o.name("setfile", len(o.SetFile), c04PlainSegs(p))
			o.SetFile = append(o.SetFile, strings.Join(p, ".")+"="+path)
			o.Assign = append(o.Assign, c04Assign{Path: p, Val: v, Exact: true})
		}
		for i := r.Intn(2); i > 0; i-- {
			p, v := pick(), next()
			o.name("literal", len(o.Literal), c04PlainSegs(p))
			o.Literal = append(o.Literal, strings.Join(p, ".")+"="+v)
			o.Assign = append(o.Assign, c04Assign{Path: p, Val: v, Exact: true})
		}
		return c04Case{Kind: "opts", Opts: o, Tag: "opts-simple"}
	}
	// rich: generated trees as files, grammar expressions for every family
	c04UnsafeOneIn = 25
	defer func() { c04UnsafeOneIn = 5 }()
	cur := vtree{}
	for i := r.Intn(3); i > 0; i-- {
		f := vtMutate(r, base, 3)
		// lists of tables / scalars, so that indexed flags land on lists a lower source defined
		if r.Intn(2) == 0 {
			f[vtKeys[r.Intn(len(vtKeys))]] = []interface{}{vtree{"port": int64(1), "name": "n0"}, vtree{"port": int64(2)}, "s"}
		}
		o.Files = append(o.Files, f)
		cur = f
	}
	for i := r.Intn(3); i > 0; i-- {
		if r.Intn(2) == 0 {
			b, _ := json.Marshal(vtMutate(r, base, 2))
			s := string(b)
			if r.Intn(4) == 0 {
				s = "  " + s + " "
			}
			o.JSON = append(o.JSON, s)
		} else {
			js, paths := c04GenJSONExprPaths(r, cur)
			o.name("json", len(o.JSON), paths...)
			o.JSON = append(o.JSON, js)
		}
	}
	for i := r.Intn(3); i > 0; i-- {
		s, ps := c04GenSetExpr(r, cur, "ParseInto")
		o.name("set", len(o.Set), c04PairPaths(ps)...)
		o.Set = append(o.Set, s)
	}
	for i := r.Intn(3); i > 0; i-- {
		s, ps := c04GenSetExpr(r, cur, "ParseIntoString")
		o.name("string", len(o.SetString), c04PairPaths(ps)...)
		o.SetString = append(o.SetString, s)
	}
	for i := r.Intn(2); i > 0; i-- {
		content := vtStrings[r.Intn(len(vtStrings))]
		path := c04FilePath(content)
		o.Contents[path] = content
		fp := c04GenPath(r, cur)
		o.name("setfile", len(o.SetFile), fp)
		o.SetFile = append(o.SetFile, c04ShowPath(fp)+"="+path)
	}
	for i := r.Intn(2); i > 0; i-- {
		s, ps := c04GenSetExpr(r, cur, "ParseLiteralInto")
		o.name("literal", len(o.Literal), c04PairPaths(ps)...)
		o.Literal = append(o.Literal, s)
	}
	if r.Intn(15) == 0 {
		o.Set = append(o.Set, c04GenMalformed(r))
	}
	return c04Case{Kind: "opts", Opts: o, Tag: "opts-rich"}
}

// ---------- execution ----------

// c04OptStep: Options.MergeValues on the sources up to and including one flag (all -f files
// first, then the value flags in the documented order); used by the frame oracle.
type c04OptStep struct {
	Flag string `json:"flag"` // "" = the -f files alone, else "set:0", "string:1", ...
	Err  bool   `json:"err,omitempty"`
	Out  vtree  `json:"out,omitempty"`
}

func c04ExecOpts(o *c04Opts, obs *c04Obs) {
	dir, err := os.MkdirTemp("", "c04-")
	if err != nil {
		obs.Panic = "tempdir: " + err.Error()
		return
	}
	defer os.RemoveAll(dir)
	if err := c04WriteFiles(o.Contents); err != nil {
		obs.Panic = "set-file fixture: " + err.Error()
		return
	}
	var files []string
	for i, f := range o.Files {
		b, err := yaml.Marshal(f)
		if err != nil {
			obs.Panic = "yaml: " + err.Error()
			return
		}
		p := filepath.Join(dir, fmt.Sprintf("v%d.yaml", i))
		if err := os.WriteFile(p, b, 0o644); err != nil {
			obs.Panic = "write: " + err.Error()
			return
		}
		files = append(files, p)
	}
	opts := values.Options{ValueFiles: files, JSONValues: o.JSON, Values: o.Set, StringValues: o.SetString, FileValues: o.SetFile, LiteralValues: o.Literal}
	m, err := opts.MergeValues(getter.Providers{})
	if err != nil {
		obs.Err = "error"
	} else {
		obs.Out = m
	}
	// the same call on every prefix of the flag sequence
	if len(o.Named) == 0 {
		return
	}
	fams := []struct {
		name string
		all  []string
		dst  func(*values.Options) *[]string
	}{
		{"json", o.JSON, func(v *values.Options) *[]string { return &v.JSONValues }},
		{"set", o.Set, func(v *values.Options) *[]string { return &v.Values }},
		{"string", o.SetString, func(v *values.Options) *[]string { return &v.StringValues }},
		{"setfile", o.SetFile, func(v *values.Options) *[]string { return &v.FileValues }},
		{"literal", o.Literal, func(v *values.Options) *[]string { return &v.LiteralValues }},
	}
	pre := values.Options{ValueFiles: files}
	run := func(flag string) {
		st := c04OptStep{Flag: flag}
		cp := pre // slices are re-sliced prefixes, never written after being handed over
		m, err := cp.MergeValues(getter.Providers{})
		if err != nil {
			st.Err = true
		} else if t, ok := vtNorm(vtree(m)).(vtree); ok {
			st.Out = t
		}
		obs.Steps = append(obs.Steps, st)
	}
	run("")
	for _, f := range fams {
		for i := range f.all {
			d := f.dst(&pre)
			*d = append(append([]string{}, *d...), f.all[i])
			run(fmt.Sprintf("%s:%d", f.name, i))
		}
	}
}

func c04ExecParse(p *c04Parse, obs *c04Obs) {
	if err := c04WriteFiles(p.Files); err != nil {
		obs.Panic = "set-file fixture: " + err.Error()
		return
	}
	dest := vtCopyMap(p.Dest)
	if dest == nil {
		dest = vtree{}
	}
	var err error
	switch p.Fn {
	case "ParseInto":
		err = strvals.ParseInto(p.S, dest)
	case "ParseIntoString":
		err = strvals.ParseIntoString(p.S, dest)
	case "ParseJSON":
		err = strvals.ParseJSON(p.S, dest)
	case "ParseLiteralInto":
		err = strvals.ParseLiteralInto(p.S, dest)
	case "ParseIntoFile":
		err = strvals.ParseIntoFile(p.S, dest, func(rs []rune) (interface{}, error) {
			b, err := os.ReadFile(string(rs))
			if err != nil {
				return nil, err
			}
			return string(b), nil
		})
	default:
		obs.Panic = "unknown parse fn " + p.Fn
		return
	}
	if err != nil {
		obs.Err = "error"
	}
	// also after an error: ParseInto changes dest in place before it fails
	obs.Out = dest
}

// c04JDec: for every suffix of s, what encoding/json's streaming decoder reads from it
// (value and bytes consumed).  This is the third-party part of --set-json, given to the
// model as data; suffixes that do not decode are left out.
func c04JDec(s string) string {
	var items []string
	for i := 0; i <= len(s); i++ {
		suf := s[i:]
		var v interface{}
		dec := json.NewDecoder(strings.NewReader(suf))
		if err := dec.Decode(&v); err != nil {
			continue
		}
		items = append(items, fmt.Sprintf("(%d, (%s, %d))", len(suf), hx.CoqVal(v), dec.InputOffset()))
	}
	return hx.CoqList(items)
}

func c04CoqJSON(s string) string {
	obj := "None"
	t := strings.TrimSpace(s)
	if len(t) > 0 && t[0] == '{' {
		var m map[string]interface{}
		if err := json.Unmarshal([]byte(t), &m); err == nil {
			obj = "(Some " + hx.CoqValMap(m) + ")"
		}
	}
	return fmt.Sprintf("(mkJson %s %s %s)", hx.CoqStr(s), obj, c04JDec(s))
}

func c04CoqStrMap(m map[string]string) string {
	ks := make([]string, 0, len(m))
	for k := range m {
		ks = append(ks, k)
	}
	sort.Strings(ks)
	return hx.CoqStrMap(ks, m)
}

func c04CoqOpts(o *c04Opts) string {
	fs := make([]string, len(o.Files))
	for i, f := range o.Files {
		fs[i] = hx.CoqValMap(f)
	}
	js := make([]string, len(o.JSON))
	for i, j := range o.JSON {
		js[i] = c04CoqJSON(j)
	}
	return fmt.Sprintf("(mkOptions %s %s %s %s %s %s %s)", hx.CoqList(fs), hx.CoqList(js), hx.CoqStrList(o.Set),
		hx.CoqStrList(o.SetString), hx.CoqStrList(o.SetFile), hx.CoqStrList(o.Literal), c04CoqStrMap(o.Contents))
}

func c04CoqParse(p *c04Parse, res string) string {
	fn := map[string]string{"ParseInto": "PInto", "ParseIntoString": "PIntoString", "ParseJSON": "PJson",
		"ParseLiteralInto": "PLiteral", "ParseIntoFile": "PFile"}[p.Fn]
	jd := "[]"
	if p.Fn == "ParseJSON" {
		jd = c04JDec(p.S)
	}
	return fmt.Sprintf("CParse %s %s %s %s %s %s", fn, hx.CoqStr(p.S), hx.CoqValMap(p.Dest), c04CoqStrMap(p.Files), jd, res)
}

// c04CoqParseRes: the destination afterwards, on success and on error.
func c04CoqParseRes(o c04Obs) string {
	if o.Panic != "" {
		return "RErr"
	}
	out := "(VMap [])"
	if o.Out != nil {
		out = hx.CoqVal(o.Out)
	}
	if o.Err != "" {
		return "(RErrD " + out + ")"
	}
	return "(ROk " + out + ")"
}

package main

// C01 — storage READ faults (round 5).  On the Secret / ConfigMap backends every storage read is a
// call to the cluster API, so "wherever cluster calls fail" covers a failed list / get of the release
// records.  A history = a prefix that builds one of the ledgers below, then ONE operation whose n-th
// storage read (Driver.Get / Query / List as seen by the recording wrapper) returns an injected error,
// for EVERY read position of that operation, then a fault-free upgrade (so that what the faulted
// operation left behind is used once more).  The release-engine model has no error answer for a read:
// these histories are compared with the model up to the faulted operation (eng.TruncateAtRFail) and
// judged by the oracle from there on.

import (
	"math/rand"

	"verif/harness/internal/eng"
)

type c01Ledger struct {
	Name string
	Ops  []*eng.Op
}

func c01WaitFail(op *eng.Op) *eng.Op { o := *op; o.WaitFail = true; return &o }

// the ledgers the faulted operation starts from
func c01Ledgers() []c01Ledger {
	in := mkOp("install", 1, eng.Flags{}, "a")
	return []c01Ledger{
		// the deployed revision is the OLDEST one: pruning must step over it
		{"dep-failed-failed", []*eng.Op{in, c01WaitFail(mkOp("upgrade", 2, eng.Flags{}, "a")), c01WaitFail(mkOp("upgrade", 3, eng.Flags{}, "a", "b"))}},
		{"sup-dep", []*eng.Op{in, mkOp("upgrade", 2, eng.Flags{}, "a", "b")}},
		{"sup-dep-failed", []*eng.Op{in, mkOp("upgrade", 2, eng.Flags{}, "a", "b"), c01WaitFail(mkOp("upgrade", 3, eng.Flags{}, "a"))}},
		{"dep", []*eng.Op{in}},
		{"dep-failed", []*eng.Op{in, c01WaitFail(mkOp("upgrade", 2, eng.Flags{}, "a", "b"))}},
		{"uninstalled", []*eng.Op{in, mkOp("uninstall", 0, eng.Flags{KeepHistory: true})}},
	}
}

// the operations that get the read fault
func c01RFailOps(tier string) []*eng.Op {
	ops := []*eng.Op{
		mkOp("upgrade", 7, eng.Flags{MaxHistory: 3}, "a", "c"),
		mkOp("upgrade", 7, eng.Flags{MaxHistory: 2}, "a", "c"),
		mkOp("upgrade", 7, eng.Flags{}, "a", "c"),
		mkOp("rollback", 0, eng.Flags{Version: 1}),
		mkOp("rollback", 0, eng.Flags{Version: 1, MaxHistory: 2}),
		mkOp("install", 7, eng.Flags{Replace: true}, "a", "c"),
		mkOp("uninstall", 0, eng.Flags{}),
		// round 6 (the read handlers of NESTED runs are inside the model, Engine/OpsR.v): a failing atomic upgrade - the
		// history read of its recovery and every read of the rollback it starts, its last lookup included - and a failing
		// atomic install --replace - the history read of the uninstall it starts
		c01WaitFail(mkOp("upgrade", 7, eng.Flags{Atomic: true, MaxHistory: 3}, "a", "c")),
		c01WaitFail(mkOp("install", 7, eng.Flags{Replace: true, Atomic: true}, "a", "c")),
	}
	if tier == "thorough" {
		ops = append(ops,
			mkOp("upgrade", 7, eng.Flags{MaxHistory: 1}, "a", "c"),
			c01WaitFail(mkOp("upgrade", 7, eng.Flags{MaxHistory: 2}, "a", "c")),
			mkOp("rollback", 0, eng.Flags{}),
			mkOp("rollback", 0, eng.Flags{MaxHistory: 1}),
			mkOp("uninstall", 0, eng.Flags{KeepHistory: true}),
			mkOp("install", 7, eng.Flags{Replace: true, Atomic: true}, "a", "c"))
	}
	return ops
}

func c01Hist(backend string, ops ...*eng.Op) eng.History {
	h := eng.History{Backend: backend}
	for _, o := range ops {
		h.Steps = append(h.Steps, eng.Step{Op: o})
	}
	return h
}

// c01RFailEnum: every read position of every operation on every ledger.  The number of reads an
// operation makes is learnt by running the history once without the fault.
func c01RFailEnum(tier string) []any {
	var out []any
	backends := []string{"secret"}
	ledgers := c01Ledgers()
	if tier != "thorough" {
		ledgers = ledgers[:3]
	} else {
		backends = append(backends, "configmap", "memory")
	}
	after := mkOp("upgrade", 9, eng.Flags{}, "a")
	for bi, b := range backends {
		for _, l := range ledgers {
			if bi > 0 && l.Name != "dep-failed-failed" && l.Name != "sup-dep" {
				continue
			}
			for _, op := range c01RFailOps(tier) {
				if tier != "thorough" && (op.Kind == "install" || op.Kind == "uninstall") && l.Name != "sup-dep-failed" {
					continue // quick: install --replace / uninstall on one ledger only
				}
				base := c01Hist(b, append(append([]*eng.Op{}, l.Ops...), op)...)
				obs := engExecute(base).(eng.Obs)
				n := obs.Steps[len(obs.Steps)-1].SReads
				for k := 0; k < n; k++ {
					o := *op
					o.RFail = ipt(k)
					out = append(out, c01Hist(b, append(append([]*eng.Op{}, l.Ops...), &o, after)...))
				}
			}
		}
	}
	return out
}

// c01RFailCorpus: the shapes the seeded changes C01-10 / C13-10 need, spelled out
func c01RFailCorpus() []any {
	var out []any
	in := mkOp("install", 1, eng.Flags{}, "a")
	f2 := c01WaitFail(mkOp("upgrade", 2, eng.Flags{}, "a"))
	f3 := c01WaitFail(mkOp("upgrade", 3, eng.Flags{}, "a"))
	rf := func(op *eng.Op, n int) *eng.Op { o := *op; o.RFail = ipt(n); return &o }
	for _, b := range []string{"secret", "configmap"} {
		// (a) 1:deployed 2:failed 3:failed; upgrade --history-max 3: Storage.Create prunes; the lookup of the deployed
		// revision inside removeLeastRecent (4th read of the operation) fails: the upgrade must abort, never prune revision 1
		out = append(out, c01Hist(b, in, f2, f3, rf(mkOp("upgrade", 4, eng.Flags{MaxHistory: 3}, "a"), 3)))
		// (b) 1:superseded 2:deployed; rollback to 1: the lookup of the revisions to supersede at the end (last read) fails:
		// the rollback must not report success with 2 and 3 both deployed
		out = append(out, c01Hist(b, in, mkOp("upgrade", 2, eng.Flags{}, "a", "b"), rf(mkOp("rollback", 0, eng.Flags{Version: 1}), 3)))
		// (c) 1:deployed 2:failed; upgrade: the lookup of the deployed revision in prepareUpgrade (2nd read) fails:
		// the upgrade must not go on from the failed revision 2
		out = append(out, c01Hist(b, in, f2, rf(mkOp("upgrade", 3, eng.Flags{}, "a", "b"), 1), mkOp("upgrade", 4, eng.Flags{}, "a")))
	}
	// K14 (repaired, ac81746): 1 pruned away (2:superseded 3:deployed); install whose name check cannot read the history.
	// Before the repair that was taken for "the name is free", revision 1 was created and deployed next to revision 3 and the
	// install reported success; now the install returns the read error and the ledger stays 2:superseded 3:deployed
	out = append(out, c01Hist("secret", in, mkOp("upgrade", 2, eng.Flags{}, "a"), mkOp("upgrade", 3, eng.Flags{MaxHistory: 2}, "a"),
		rf(mkOp("install", 4, eng.Flags{}, "a"), 0)))
	return out
}

// c01GenRFail: a generic history in which one operation gets a read fault at a random position
func c01GenRFail(r *rand.Rand) eng.History {
	var h eng.History
	if r.Intn(2) == 0 {
		h = genLedgerStress(r)
	} else {
		h = eng.GenHistory(r, eng.GenOpts{Faults: true, ClusterOnly: true, Hooks: 1, Flags: true})
	}
	if h.Backend == "memory" && r.Intn(2) == 0 {
		h.Backend = "secret"
	}
	// not the first operation (an install on an empty history reads once); prefer the later ones
	i := 0
	if len(h.Steps) > 1 {
		i = 1 + r.Intn(len(h.Steps)-1)
	}
	if op := h.Steps[i].Op; op != nil {
		op.Crash, op.WFail = nil, nil
		op.RFail = ipt(r.Intn(6))
	}
	return h
}

// c01LostNameCheck (K14): an install whose history lookup — read 0, Install.availableName; with --replace also read 1,
// Install.replaceRelease — was hit by the read fault while the release has a history.  Before the repair (ac81746) both
// functions returned nil on ANY error of Releases.History, the install went on as if the name were free and asked the
// driver to create revision 1; now they return every error but not-found
func c01LostNameCheck(op *eng.Op, so eng.StepObs, prev []eng.LedgerRow) bool {
	if op == nil || op.Kind != "install" || op.RFail == nil || !so.RFailHit || len(prev) == 0 {
		return false
	}
	return *op.RFail == 0 || (*op.RFail == 1 && op.Flags.Replace)
}

package main

// C13 — storage READ faults (round 5).  The n-th read an operation makes on the release store
// (Driver.Get / Query / List) returns an injected error, once: on a real backend that is a failed
// list / get call to the cluster API.  The case that matters for the property: the newest revision
// is a FAILED upgrade with other values, and the lookup of the deployed revision in
// Upgrade.prepareUpgrade (the 2nd read) fails — the upgrade must be refused, never carry the failed
// revision's values forward as "the currently deployed revision's".  The value model has no faults:
// an operation that was refused before it stored anything is left out of the model's chain, one that
// failed after its record was created is the model's "fails" (c13CoqView).

import (
	"errors"
	"math/rand"

	rspb "helm.sh/helm/v4/pkg/release/v1"
	"helm.sh/helm/v4/pkg/storage/driver"
)

var errC13Read = errors.New("injected storage read failure: the list call timed out")

type c13Drv struct {
	inner driver.Driver
	at    int // -1: no fault
	n     int
	hit   bool
}

func (d *c13Drv) arm(at *int) {
	d.at, d.n, d.hit = -1, 0, false
	if at != nil {
		d.at = *at
	}
}
func (d *c13Drv) read() error {
	n := d.n
	d.n++
	if d.at >= 0 && n == d.at {
		d.hit = true
		return errC13Read
	}
	return nil
}
func (d *c13Drv) Name() string { return d.inner.Name() }
func (d *c13Drv) Get(key string) (*rspb.Release, error) {
	if err := d.read(); err != nil {
		return nil, err
	}
	return d.inner.Get(key)
}
func (d *c13Drv) List(f func(*rspb.Release) bool) ([]*rspb.Release, error) {
	if err := d.read(); err != nil {
		return nil, err
	}
	return d.inner.List(f)
}
func (d *c13Drv) Query(l map[string]string) ([]*rspb.Release, error) {
	if err := d.read(); err != nil {
		return nil, err
	}
	return d.inner.Query(l)
}
func (d *c13Drv) Create(key string, r *rspb.Release) error { return d.inner.Create(key, r) }
func (d *c13Drv) Update(key string, r *rspb.Release) error { return d.inner.Update(key, r) }
func (d *c13Drv) Delete(key string) (*rspb.Release, error) { return d.inner.Delete(key) }

// c13CoqView: the chain of release k as the fault-free value model sees it
func c13CoqView(ops []c13Op, steps []c13Step) ([]c13Op, []c13Step) {
	var o2 []c13Op
	var s2 []c13Step
	for i, o := range ops {
		if i >= len(steps) {
			o2 = append(o2, o)
			continue
		}
		st := steps[i]
		if o.RFail != nil && st.RFailHit && !st.OK {
			if !st.Stored {
				continue // refused before anything was stored: not an operation of the value history
			}
			o.Fails = true // failed after its record was created
		}
		o2, s2 = append(o2, o), append(s2, st)
	}
	return o2, s2
}

func c13RF(n int) *int { return &n }

// c13RFailCorpus: 1 deployed (a=10,u=keep), 2 FAILED (a=99,bad=x, other chart version); the next upgrade — in each
// flag mode — with the read fault on each of its reads; then a fault-free upgrade in the same mode
func c13RFailCorpus() []any {
	d1 := vtree{"a": int64(1), "t": vtree{"x": "d", "y": "d"}, "n": "dflt"}
	d2 := vtree{"a": int64(2), "t": vtree{"x": "D", "z": "D"}, "m": "new-default"}
	var out []any
	for _, f := range [][3]bool{{false, true, false}, {false, false, true}, {false, false, false}, {true, false, false}} {
		nv := vtree{"t": vtree{"y": "u3"}}
		if !f[0] && !f[1] && !f[2] {
			nv = vtree{}
		}
		for pos := 0; pos < 2; pos++ {
			out = append(out, c13Case{Ops: []c13Op{
				{Kind: "install", Chart: c13Chart("c", d1), Vals: vtree{"a": int64(10), "u": "keep"}},
				{Kind: "upgrade", Chart: c13Chart("c", d2), Vals: vtree{"a": int64(99), "bad": "x"}, Fails: true},
				{Kind: "upgrade", Reset: f[0], Reuse: f[1], RTR: f[2], Chart: c13Chart("c", d2), Vals: nv, RFail: c13RF(pos)},
				{Kind: "upgrade", Reset: f[0], Reuse: f[1], RTR: f[2], Chart: c13Chart("c", d1), Vals: nv},
			}})
		}
	}
	// a rollback whose reads fail, one after the other (the last one after its record was created)
	for pos := 0; pos < 4; pos++ {
		out = append(out, c13Case{Ops: []c13Op{
			{Kind: "install", Chart: c13Chart("c", d1), Vals: vtree{"a": int64(10)}},
			{Kind: "upgrade", Reuse: true, Chart: c13Chart("c", d2), Vals: vtree{"b": int64(2)}},
			{Kind: "rollback", Version: 1, RFail: c13RF(pos)},
			{Kind: "upgrade", Reuse: true, Chart: c13Chart("c", d2), Vals: vtree{"c": int64(3)}},
		}})
	}
	return out
}

// c13AddRFail: one upgrade / rollback of the chain (not the install) gets a read fault at position 0..2;
// preferably one whose predecessor fails, so that the newest revision is not the deployed one
func c13AddRFail(r *rand.Rand, c *c13Case) {
	var cand, pref []int
	for i := 1; i < len(c.Ops); i++ {
		if c.Ops[i].Kind == "install" {
			continue
		}
		cand = append(cand, i)
		if c.Ops[i-1].Fails && c.Ops[i].Kind == "upgrade" {
			pref = append(pref, i)
		}
	}
	if len(cand) == 0 {
		return
	}
	i := cand[r.Intn(len(cand))]
	if len(pref) > 0 && r.Intn(3) > 0 {
		i = pref[r.Intn(len(pref))]
	}
	c.Ops[i].RFail = c13RF(r.Intn(3))
	if i > 0 && c.Ops[i].Kind == "upgrade" && r.Intn(2) == 0 {
		c.Ops[i-1].Fails = c.Ops[i-1].Kind != "install" // make the newest revision a failed one
	}
}

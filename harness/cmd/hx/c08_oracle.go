package main

// C08 runtime oracle: the property text evaluated directly on what the real code returned,
// written without reference to the Coq model.

import (
	"bytes"
	"fmt"
	"sort"
	"strings"
	"unicode"
	"unicode/utf8"

	"sigs.k8s.io/yaml"

	release "helm.sh/helm/v4/pkg/release/v1"
	releaseutil "helm.sh/helm/v4/pkg/release/util"

	"verif/harness/internal/hx"
)

// c08Norm removes leading "---" marker lines (a document-start marker that the splitter left
// inside a document, see the adjacent-separator observation) and surrounding white space.
func c08Norm(d string) string {
	d = strings.TrimSpace(d)
	for strings.HasPrefix(d, "---") {
		rest := d[3:]
		if rest == "" || strings.ContainsRune(" \t\r\n", rune(rest[0])) {
			d = strings.TrimSpace(rest)
		} else {
			break
		}
	}
	return d
}

// payload: the bytes of s that are neither white space nor '-'
func c08Payload(s string) string {
	var b strings.Builder
	for len(s) > 0 {
		r, n := utf8.DecodeRuneInString(s)
		if !(unicode.IsSpace(r) && !(r == utf8.RuneError && n == 1)) && s[0] != '-' {
			b.WriteString(s[:n])
		}
		s = s[n:]
	}
	return b.String()
}

var c08KnownEvents = map[string]bool{
	string(release.HookPreInstall): true, string(release.HookPostInstall): true, string(release.HookPreDelete): true,
	string(release.HookPostDelete): true, string(release.HookPreUpgrade): true, string(release.HookPostUpgrade): true,
	string(release.HookPreRollback): true, string(release.HookPostRollback): true, string(release.HookTest): true,
	"test-success": true,
}

type c08Exp struct {
	path, content string
	kind          string
	place         string // generic hook dropped
}

// c08Inspect: kind and hook annotation of a document, read with a generic YAML decode
func c08Inspect(content string) (kind string, hook *string, err error) {
	var m map[string]interface{}
	if err := yaml.Unmarshal([]byte(content), &m); err != nil {
		return "", nil, err
	}
	// the YAML library's verdict on "parses into the expected format" (a head): e.g.
	// "metadata: 7" is a mapping but not a head
	var sh releaseutil.SimpleHead
	if err := yaml.Unmarshal([]byte(content), &sh); err != nil {
		return "", nil, err
	}
	if k, ok := m["kind"].(string); ok {
		kind = k
	}
	if md, ok := m["metadata"].(map[string]interface{}); ok {
		if an, ok := md["annotations"].(map[string]interface{}); ok {
			if v, ok := an[release.HookAnnotation]; ok {
				if s, ok := v.(string); ok {
					hook = &s
				} else {
					return kind, nil, fmt.Errorf("non-string annotation")
				}
			}
			for _, v := range an {
				if _, ok := v.(string); !ok {
					return kind, nil, fmt.Errorf("non-string annotation")
				}
			}
		}
	}
	return kind, hook, nil
}

func yamlUnmarshal(b []byte, v interface{}) error { return yaml.Unmarshal(b, v) }

func c08Place(hook *string) string {
	if hook == nil {
		return "generic"
	}
	for _, t := range strings.Split(*hook, ",") {
		if !c08KnownEvents[strings.ToLower(strings.TrimSpace(t))] {
			return "dropped"
		}
	}
	return "hook"
}

func c08Less(ord []string, ka, kb string) bool {
	ra, rb := len(ord), len(ord)
	for i, k := range ord {
		if k == ka {
			ra = i
		}
		if k == kb {
			rb = i
		}
	}
	if ra != rb {
		return ra < rb
	}
	if ra == len(ord) {
		return ka < kb
	}
	return false
}

func (*c08) Oracle(ci, oi any) []hx.Violation {
	c, obs := ci.(c08Case), oi.(c08Obs)
	if obs.Panic != "" {
		return []hx.Violation{{Sig: "C08:panic", What: c.Kind + ": panic: " + obs.Panic}}
	}
	switch c.Kind {
	case "split":
		return c08OracleSplit(c, obs)
	case "sort", "render":
		return c08OracleSort(c, obs)
	case "full":
		return c08OracleFull(c, obs)
	case "guard":
		return c08OracleGuard(c, obs)
	case "uninstall":
		return c08OracleUninstall(c, obs)
	case "barrier":
		return c08OracleBarrier(c, obs)
	}
	return nil
}

func c08OracleSplit(c c08Case, obs c08Obs) []hx.Violation {
	var vs []hx.Violation
	in := string(c.Raw)
	var cat strings.Builder
	for _, d := range obs.Docs {
		if !strings.Contains(in, string(d)) {
			vs = append(vs, hx.Violation{Sig: "C08:split-altered", What: fmt.Sprintf("SplitManifests returned a document that is not a substring of the input: %q", d)})
		}
		cat.WriteString(c08Payload(string(d)))
	}
	if got, want := cat.String(), c08Payload(in); got != want {
		vs = append(vs, hx.Violation{Sig: "C08:split-lost-or-duplicated", What: fmt.Sprintf("non-blank content of the stream and of the documents differ: stream %q documents %q", want, got)})
	}
	if c.RawClean {
		var want []string
		for _, d := range c.RawDocs {
			if t := strings.TrimSpace(string(d.Text)); t != "" {
				want = append(want, t)
			}
		}
		var got []string
		for _, d := range obs.Docs {
			if t := c08Norm(string(d)); t != "" {
				got = append(got, t)
			}
		}
		if strings.Join(got, "\x00") != strings.Join(want, "\x00") {
			vs = append(vs, hx.Violation{Sig: "C08:split-documents", What: fmt.Sprintf("documents joined with plain separators were not returned one by one: want %d %q got %d %q", len(want), want, len(got), got)})
		}
	}
	return vs
}

func c08OracleSort(c c08Case, obs c08Obs) []hx.Violation {
	var vs []hx.Violation
	bad := func(sig, what string) { vs = append(vs, hx.Violation{Sig: "C08:" + sig, What: c.Kind + ": " + what}) }
	prefix := ""
	if c.Kind == "render" {
		prefix = c08ChartName + "/"
	}
	files := append([]c08File(nil), c.Files...)
	sort.Slice(files, func(i, j int) bool { return files[i].Path < files[j].Path })
	var exp []c08Exp
	expectErr := false
	resplitOK := true
	for _, f := range files {
		if c08IsPartial(f.Path) || strings.TrimSpace(string(f.Content)) == "" || (c.Kind == "render" && c08IsNotes(f.Path)) {
			continue
		}
		var docs []string
		if f.Clean {
			for _, d := range f.Docs {
				if d.Class == "malformed" || d.Class == "notes" {
					expectErr = true
				}
				if t := strings.TrimSpace(string(d.Text)); t != "" {
					docs = append(docs, t)
				}
			}
		} else {
			for _, d := range c08SplitOrdered(string(f.Content)) {
				// a leftover marker can make the document itself unreadable ("--- ---\nkind: X"):
				// the verdict is taken on the document as it is, identity on the normalised text
				if _, _, err := c08Inspect(string(d)); err != nil {
					expectErr = true
				}
				if t := c08Norm(string(d)); t != "" {
					docs = append(docs, t)
				}
			}
		}
		for _, d := range c08SplitOrdered(string(f.Content)) {
			if len(d) == 0 || bytes.HasPrefix(d, []byte("---")) || bytes.Contains(d, []byte("\n---")) {
				resplitOK = false
			}
		}
		for _, d := range docs {
			kind, hook, err := c08Inspect(d)
			if err != nil {
				expectErr = true
				continue
			}
			exp = append(exp, c08Exp{path: prefix + f.Path, content: d, kind: kind, place: c08Place(hook)})
		}
		if f.Clean {
			// heads known by construction agree with what the YAML library reads
			i := 0
			for _, d := range f.Docs {
				if strings.TrimSpace(string(d.Text)) == "" || d.Class != "resource" {
					if strings.TrimSpace(string(d.Text)) != "" {
						i++
					}
					continue
				}
				if i < len(docs) {
					kind, hook, err := c08Inspect(docs[i])
					if err == nil && (kind != d.Kind || (hook == nil) != (d.HookAnn == nil) || (hook != nil && *hook != *d.HookAnn)) {
						bad("head-differs", fmt.Sprintf("document %s generated with kind %q parsed as kind %q", d.Name, d.Kind, kind))
					}
				}
				i++
			}
		}
	}
	if obs.Err != "" {
		if !expectErr {
			bad("unexpected-error", "all documents are well-formed but nothing was returned: "+obs.ErrText)
		}
		return vs
	}
	if expectErr {
		return vs // a malformed document was let through: not this property's business (C20)
	}
	// observed placement
	type placed struct{ path, content string }
	var og, oh []placed
	if c.Kind == "sort" {
		for _, g := range obs.Generic {
			og = append(og, placed{g.Name, c08Norm(string(g.Content))})
		}
	} else {
		if !resplitOK {
			return vs
		}
		for _, d := range c08SplitOrdered(string(obs.Manifest)) {
			s := string(d)
			if !strings.HasPrefix(s, "# Source: ") {
				bad("doc-altered", fmt.Sprintf("a manifest document does not start with its source header: %q", s))
				continue
			}
			s = strings.TrimPrefix(s, "# Source: ")
			p, rest, _ := strings.Cut(s, "\n")
			og = append(og, placed{p, c08Norm(rest)})
		}
	}
	for _, h := range obs.Hooks {
		oh = append(oh, placed{h.Path, c08Norm(string(h.Manifest))})
	}
	key := func(p, c string) string { return p + "\x00" + c }
	expG, expH, expD := map[string]int{}, map[string]int{}, map[string]int{}
	kindOf := map[string]string{}
	for _, e := range exp {
		k := key(e.path, e.content)
		kindOf[k] = e.kind
		switch e.place {
		case "generic":
			expG[k]++
		case "hook":
			expH[k]++
		default:
			expD[k]++
		}
	}
	obsG, obsH := map[string]int{}, map[string]int{}
	for _, g := range og {
		if g.content == "" {
			continue
		}
		obsG[key(g.path, g.content)]++
	}
	for _, h := range oh {
		obsH[key(h.path, h.content)]++
	}
	keys := map[string]bool{}
	for _, m := range []map[string]int{expG, expH, expD, obsG, obsH} {
		for k := range m {
			keys[k] = true
		}
	}
	ks := make([]string, 0, len(keys))
	for k := range keys {
		ks = append(ks, k)
	}
	sort.Strings(ks)
	for _, k := range ks {
		p, content, _ := strings.Cut(k, "\x00")
		short := content
		if len(short) > 60 {
			short = short[:60] + "..."
		}
		switch {
		case expG[k]+expH[k]+expD[k] == 0:
			if c08IsPartial(p) || (c.Kind == "render" && c08IsNotes(p)) {
				bad("partial-or-notes-applied", fmt.Sprintf("content of %s was placed in the release", p))
			} else {
				bad("doc-altered", fmt.Sprintf("%s: a placed document is not one of the input documents: %q", p, short))
			}
		case expD[k] > 0 && obsG[k]+obsH[k] > 0:
			bad("unknown-event-applied", fmt.Sprintf("%s: a document whose hook annotation names an unknown event was placed: %q", p, short))
		case obsG[k]+obsH[k] < expG[k]+expH[k]:
			bad("doc-lost", fmt.Sprintf("%s: document placed %d times, expected %d: %q", p, obsG[k]+obsH[k], expG[k]+expH[k], short))
		case obsG[k]+obsH[k] > expG[k]+expH[k]:
			bad("doc-duplicated", fmt.Sprintf("%s: document placed %d times, expected %d: %q", p, obsG[k]+obsH[k], expG[k]+expH[k], short))
		case obsG[k] != expG[k]:
			bad("misclassified", fmt.Sprintf("%s: document in manifest %d times / hooks %d times, expected %d / %d: %q", p, obsG[k], obsH[k], expG[k], expH[k], short))
		}
	}
	if len(vs) > 0 {
		return vs
	}
	// order: sorted by the kind table, unknown kinds last by name, input order kept within a kind
	ord := []string(releaseutil.InstallOrder)
	if c.Uninstall {
		ord = releaseutil.UninstallOrder
	}
	check := func(what string, seq []placed, place string) {
		for i := 0; i+1 < len(seq); i++ {
			ka, kb := kindOf[key(seq[i].path, seq[i].content)], kindOf[key(seq[i+1].path, seq[i+1].content)]
			if c08Less(ord, kb, ka) {
				bad("kind-order", fmt.Sprintf("%s: kind %q is placed before kind %q", what, ka, kb))
				return
			}
		}
		byKindObs, byKindExp := map[string][]string{}, map[string][]string{}
		for _, s := range seq {
			if s.content == "" {
				continue
			}
			k := key(s.path, s.content)
			byKindObs[kindOf[k]] = append(byKindObs[kindOf[k]], k)
		}
		for _, e := range exp {
			if e.place == place {
				byKindExp[e.kind] = append(byKindExp[e.kind], key(e.path, e.content))
			}
		}
		for k, l := range byKindObs {
			if strings.Join(l, "\x01") != strings.Join(byKindExp[k], "\x01") {
				bad("unstable-within-kind", fmt.Sprintf("%s: documents of kind %q are not in their original order", what, k))
				return
			}
		}
	}
	check("manifest", og, "generic")
	check("hooks", oh, "hook")
	return vs
}

package main

// Translator table of C05 (round 4): Gen/C05Funcs.v
//   sprig_names      the key set of sprig.TxtFuncMap() (third party), by reflection
//   funcmap_origins  engine.funcMap(): every name with its origin - OSprig when the entry IS sprig's
//                    function of that name (same code pointer), OHelm otherwise
//   bound_origins    for each of the 8 engines (LintMode x client provider x EnableDNS): the table
//                    initFunMap binds on a fresh template, same classification
//   bound_rebound    for each engine: the names whose function is not funcMap()'s entry any more
// The obligations over it (Render/FuncMap2.v) compare with the model's func_table / bound_table /
// rebound computed from sprig_names: semantic (set and origin equality), no source text involved.

import (
	"fmt"
	"reflect"
	"sort"
	"strings"

	"github.com/Masterminds/sprig/v3"
	"k8s.io/client-go/rest"

	"helm.sh/helm/v4/pkg/engine"

	"verif/harness/internal/hx"
)

func init() {
	registerTable("C05Funcs", genC05Funcs)
}

func c05Origins(m map[string]uintptr, sp map[string]uintptr) string {
	names := make([]string, 0, len(m))
	for n := range m {
		names = append(names, n)
	}
	sort.Strings(names)
	it := make([]string, len(names))
	for i, n := range names {
		o := "OHelm"
		if p, ok := sp[n]; ok && p == m[n] {
			o = "OSprig"
		}
		it[i] = "(" + hx.CoqStr(n) + ", " + o + ")"
	}
	return "[" + strings.Join(it, ";\n   ") + "]"
}

func genC05Funcs(_ string) (string, error) {
	sp := map[string]uintptr{}
	for n, f := range sprig.TxtFuncMap() {
		sp[n] = reflect.ValueOf(f).Pointer()
	}
	if len(sp) < 100 {
		return "", fmt.Errorf("sprig.TxtFuncMap() has only %d entries", len(sp))
	}
	fm := map[string]uintptr{}
	for n, f := range engine.VerifFuncMap() {
		fm[n] = reflect.ValueOf(f).Pointer()
	}
	spNames := make([]string, 0, len(sp))
	for n := range sp {
		spNames = append(spNames, n)
	}
	sort.Strings(spNames)
	var b strings.Builder
	b.WriteString("From Helm Require Import Render.Funcs.\n")
	fmt.Fprintf(&b, "(* github.com/Masterminds/sprig/v3 TxtFuncMap(): key set *)\nDefinition sprig_names : list string :=\n  %s.\n\n", hx.CoqStrList(spNames))
	fmt.Fprintf(&b, "(* pkg/engine/funcs.go funcMap(): name, origin *)\nDefinition funcmap_origins : list (string * origin) :=\n  %s.\n\n", c05Origins(fm, sp))
	var bo, br []string
	for _, lint := range []bool{false, true} {
		for _, client := range []bool{false, true} {
			for _, dns := range []bool{false, true} {
				var e engine.Engine
				if client {
					e = engine.New(&rest.Config{Host: "http://127.0.0.1:1"})
				}
				e.LintMode, e.EnableDNS = lint, dns
				bound := e.VerifBoundFuncs()
				var reb []string
				for n, p := range bound {
					if q, ok := fm[n]; !ok || q != p {
						reb = append(reb, n)
					}
				}
				sort.Strings(reb)
				cfg := fmt.Sprintf("(mkEngine false %s %s %s)", hx.CoqBool(lint), hx.CoqBool(client), hx.CoqBool(dns))
				bo = append(bo, "("+cfg+",\n  "+c05Origins(bound, sp)+")")
				br = append(br, "("+cfg+", "+hx.CoqStrList(reb)+")")
			}
		}
	}
	fmt.Fprintf(&b, "(* pkg/engine/engine.go initFunMap on a fresh template, per engine: name, origin *)\nDefinition bound_origins : list (engine_opts * list (string * origin)) :=\n  [%s].\n\n", strings.Join(bo, ";\n   "))
	fmt.Fprintf(&b, "(* per engine: the names whose function is no longer funcMap()'s entry *)\nDefinition bound_rebound : list (engine_opts * list string) :=\n  [%s].\n", strings.Join(br, ";\n   "))
	return b.String(), nil
}

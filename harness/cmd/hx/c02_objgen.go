package main

// Generator for the rich object domain of C02: objects are drawn from a small grammar per kind
// (gspec), the new manifest is derived from the old one (keep / change / drop / add per map entry and
// per keyed-list element, reorder, replace atomic lists, change the kind of a value for the custom
// kind), the live object from either manifest (drift of specified values, lost entries, foreign
// entries and elements, reordered keyed lists, keep policy set or cleared out of band).

import (
	"math/rand"
	"sort"

	"verif/harness/internal/nsim"
)

type gfield struct {
	Name string
	S    *gspec
	P    int // present with probability 1/P... 1 = always
}

type gspec struct {
	Kind   string        // scalar map open alist klist union
	Vals   []interface{} // scalar: choices
	Drift  interface{}   // scalar: the out-of-band value
	Fields []gfield      // map: possible fields
	Pool   []string      // open: key pool (values from Elem)
	Elem   *gspec        // open / alist: element; klist: element body (a map spec)
	MKey   string        // klist: merge key field
	Keys   []interface{} // klist: merge key values
	Alts   []*gspec      // union
}

func gS(drift interface{}, vals ...interface{}) *gspec {
	return &gspec{Kind: "scalar", Vals: vals, Drift: drift}
}
func gM(fs ...gfield) *gspec                 { return &gspec{Kind: "map", Fields: fs} }
func gO(elem *gspec, pool ...string) *gspec   { return &gspec{Kind: "open", Elem: elem, Pool: pool} }
func gA(elem *gspec) *gspec                   { return &gspec{Kind: "alist", Elem: elem} }
func gF(n string, s *gspec, p int) gfield     { return gfield{n, s, p} }
func gU(alts ...*gspec) *gspec                { return &gspec{Kind: "union", Alts: alts} }
func gK(mkey string, body *gspec, keys ...interface{}) *gspec {
	return &gspec{Kind: "klist", MKey: mkey, Elem: body, Keys: keys}
}

var (
	gWord  = gS("DRIFT", "web", "db", "cache", "v1", "v2")
	gImage = gS("evil:latest", "nginx:1.25", "nginx:1.26", "busybox:1", "redis:7")
	gNum   = gS(float64(99), float64(1), float64(2), float64(3))
	gBool  = gS(true, false, true)
	gMeta  = gM(
		gF("labels", gO(gWord, "app", "tier", "foreign"), 2),
		gF("annotations", gO(gS("DRIFT", "n0", "n1", "keep", "keep", "delete"), "note", "team", "helm.sh/resource-policy", "foreign"), 2))

	gContainer = gM(
		gF("image", gImage, 1),
		gF("args", gA(gS("--drift", "-v", "--port=80", "--debug")), 2),
		gF("env", gK("name", gM(gF("value", gWord, 1)), "A", "B", "C", "FOREIGN"), 2),
		gF("ports", gK("containerPort", gM(gF("name", gS("drift", "http", "https", "metrics"), 2), gF("protocol", gS("SCTP", "TCP", "UDP"), 3)),
			float64(80), float64(443), float64(8080)), 2),
		gF("imagePullPolicy", gS("Never", "Always", "IfNotPresent"), 3))

	gDeployment = gM(
		gF("metadata", gMeta, 1),
		gF("spec", gM(
			gF("replicas", gNum, 2),
			gF("selector", gM(gF("matchLabels", gO(gWord, "app", "tier"), 1)), 1),
			gF("template", gM(
				gF("metadata", gM(gF("labels", gO(gWord, "app", "tier", "foreign"), 1)), 1),
				gF("spec", gM(
					gF("containers", gK("name", gContainer, "web", "sidecar", "log", "foreign"), 1),
					gF("nodeSelector", gO(gWord, "disk", "zone"), 3),
					gF("tolerations", gA(gM(gF("key", gWord, 1), gF("operator", gS("Drift", "Exists", "Equal"), 1))), 4),
					gF("serviceAccountName", gWord, 4)), 1)), 1)), 1))

	gService = gM(
		gF("metadata", gMeta, 1),
		gF("spec", gM(
			gF("type", gS("ExternalName", "ClusterIP", "NodePort"), 2),
			gF("selector", gO(gWord, "app", "tier", "foreign"), 1),
			gF("ports", gK("port", gM(gF("name", gS("drift", "http", "https", "metrics"), 2), gF("targetPort", gNum, 2), gF("protocol", gS("SCTP", "TCP", "UDP"), 3)),
				float64(80), float64(443), float64(8080), float64(9090)), 1),
			gF("externalIPs", gA(gS("6.6.6.6", "10.0.0.1", "10.0.0.2", "10.0.0.3")), 3)), 1))

	gConfigMap = gM(
		gF("metadata", gMeta, 1),
		gF("data", gO(gWord, "k", "x", "y", "foreign"), 1))

	// the custom kind: free-form spec; "cfg" changes its kind (scalar / map / list) between versions
	gWidgetLeaf = gU(gWord, gNum, gBool)
	gWidget     = gM(
		gF("metadata", gMeta, 1),
		gF("spec", gM(
			gF("size", gNum, 2),
			gF("enabled", gBool, 3),
			gF("color", gWord, 2),
			gF("tags", gA(gWord), 2),
			gF("rules", gA(gM(gF("name", gWord, 1), gF("weight", gNum, 2))), 3),
			gF("limits", gM(gF("cpu", gWord, 2), gF("memory", gWord, 2), gF("extra", gO(gWidgetLeaf, "a", "b", "foreign"), 3)), 2),
			gF("cfg", gU(gWord, gO(gWidgetLeaf, "a", "b", "c"), gA(gWord), gM(gF("deep", gO(gWord, "p", "q", "foreign"), 1))), 2),
			gF("foreign", gWidgetLeaf, 6)), 1),
		gF("status", gM(gF("phase", gWord, 1)), 6))
)

var objKinds = []struct {
	Kind string
	S    *gspec
}{{"Deployment", gDeployment}, {"Service", gService}, {"ConfigMap", gConfigMap}, {"Widget", gWidget}}

func objSpecOf(nskind string) *gspec {
	_, kind := nsim.SplitKind(nskind)
	for _, k := range objKinds {
		if k.Kind == kind {
			return k.S
		}
	}
	return gConfigMap
}

func gGen(r *rand.Rand, s *gspec) interface{} {
	switch s.Kind {
	case "scalar":
		return s.Vals[r.Intn(len(s.Vals))]
	case "map":
		m := map[string]interface{}{}
		for _, f := range s.Fields {
			if r.Intn(f.P) == 0 {
				m[f.Name] = gGen(r, f.S)
			}
		}
		return m
	case "open":
		m := map[string]interface{}{}
		for _, k := range s.Pool {
			if k != "foreign" && r.Intn(2) == 0 {
				m[k] = gGen(r, s.Elem)
			}
		}
		return m
	case "alist":
		l := []interface{}{}
		for n := r.Intn(4); n > 0; n-- {
			l = append(l, gGen(r, s.Elem))
		}
		return l
	case "klist":
		l := []interface{}{}
		for _, i := range r.Perm(len(s.Keys)) {
			k := s.Keys[i]
			if gForeignKey(k) || r.Intn(2) == 0 {
				continue
			}
			l = append(l, gElem(r, s, k))
		}
		return l
	case "union":
		return gGen(r, s.Alts[r.Intn(len(s.Alts))])
	}
	return nil
}

func gForeignKey(k interface{}) bool {
	s, ok := k.(string)
	return ok && (s == "foreign" || s == "FOREIGN")
}

func gElem(r *rand.Rand, s *gspec, key interface{}) map[string]interface{} {
	e := gGen(r, s.Elem).(map[string]interface{})
	e[s.MKey] = key
	return e
}

// which alternative of a union a value belongs to (by JSON kind; scalars by Go type)
func gAlt(s *gspec, v interface{}) *gspec {
	for _, a := range s.Alts {
		switch v.(type) {
		case map[string]interface{}:
			if a.Kind == "map" || a.Kind == "open" {
				return a
			}
		case []interface{}:
			if a.Kind == "alist" || a.Kind == "klist" {
				return a
			}
		default:
			if a.Kind == "scalar" {
				for _, x := range append(append([]interface{}{}, a.Vals...), a.Drift) {
					if sameType(x, v) {
						return a
					}
				}
			}
		}
	}
	return nil
}

func sameType(a, b interface{}) bool {
	switch a.(type) {
	case string:
		_, ok := b.(string)
		return ok
	case float64:
		_, ok := b.(float64)
		return ok
	case bool:
		_, ok := b.(bool)
		return ok
	}
	return false
}

func sortedIKeys(m map[string]interface{}) []string {
	ks := make([]string, 0, len(m))
	for k := range m {
		ks = append(ks, k)
	}
	sort.Strings(ks)
	return ks
}

// gMutate derives the new manifest's value from the old one's.
func gMutate(r *rand.Rand, s *gspec, v interface{}) interface{} {
	switch s.Kind {
	case "scalar":
		if r.Intn(10) < 7 {
			return v
		}
		return gGen(r, s)
	case "map", "open":
		old, ok := v.(map[string]interface{})
		if !ok {
			return gGen(r, s)
		}
		m := map[string]interface{}{}
		sub := func(k string) *gspec {
			if s.Kind == "open" {
				return s.Elem
			}
			for _, f := range s.Fields {
				if f.Name == k {
					return f.S
				}
			}
			return nil
		}
		for _, k := range sortedIKeys(old) {
			fs := sub(k)
			switch x := r.Intn(20); {
			case fs == nil || x < 8:
				m[k] = jsonCopy(old[k])
			case x < 17:
				m[k] = gMutate(r, fs, old[k])
			}
		}
		if s.Kind == "open" {
			for _, k := range s.Pool {
				if _, has := m[k]; !has && k != "foreign" && r.Intn(6) == 0 {
					m[k] = gGen(r, s.Elem)
				}
			}
		} else {
			for _, f := range s.Fields {
				if _, has := m[f.Name]; !has && r.Intn(5*f.P) == 0 {
					m[f.Name] = gGen(r, f.S)
				}
			}
		}
		return m
	case "alist":
		old, ok := v.([]interface{})
		if !ok {
			return gGen(r, s)
		}
		switch x := r.Intn(10); {
		case x < 6:
			return jsonCopy(old)
		case x < 8:
			return append(jsonCopy(old).([]interface{}), gGen(r, s.Elem))
		case x < 9 && len(old) > 0:
			return jsonCopy(old[1:])
		}
		return gGen(r, s)
	case "klist":
		old, ok := v.([]interface{})
		if !ok {
			return gGen(r, s)
		}
		var l []interface{}
		have := map[interface{}]bool{}
		for _, e := range old {
			em, ok := e.(map[string]interface{})
			if !ok {
				continue
			}
			have[em[s.MKey]] = true
			switch x := r.Intn(20); {
			case x < 8:
				l = append(l, jsonCopy(em))
			case x < 16:
				n := gMutate(r, s.Elem, em).(map[string]interface{})
				n[s.MKey] = em[s.MKey]
				l = append(l, n)
			}
		}
		for _, k := range s.Keys {
			if !have[k] && !gForeignKey(k) && r.Intn(5) == 0 {
				l = append(l, gElem(r, s, k))
			}
		}
		if r.Intn(4) == 0 {
			r.Shuffle(len(l), func(i, j int) { l[i], l[j] = l[j], l[i] })
		}
		if l == nil {
			l = []interface{}{}
		}
		return l
	case "union":
		if a := gAlt(s, v); a != nil && r.Intn(5) > 0 {
			return gMutate(r, a, v)
		}
		return gGen(r, s) // the value changes its kind
	}
	return v
}

// gDrift derives the live value from a manifest's: out-of-band edits.
func gDrift(r *rand.Rand, s *gspec, v interface{}) interface{} {
	switch s.Kind {
	case "scalar":
		if r.Intn(10) < 2 {
			return s.Drift
		}
		return v
	case "map", "open":
		old, ok := v.(map[string]interface{})
		if !ok {
			return v
		}
		m := map[string]interface{}{}
		sub := func(k string) *gspec {
			if s.Kind == "open" {
				return s.Elem
			}
			for _, f := range s.Fields {
				if f.Name == k {
					return f.S
				}
			}
			return nil
		}
		for _, k := range sortedIKeys(old) {
			fs := sub(k)
			switch x := r.Intn(20); {
			case fs == nil || x < 2:
				m[k] = jsonCopy(old[k])
			case x < 3:
				// the entry was removed out of band
			default:
				m[k] = gDrift(r, fs, old[k])
			}
		}
		// foreign entries: valid fields no manifest of this case names at this place
		if s.Kind == "open" {
			for _, k := range s.Pool {
				if _, has := old[k]; !has && (k == "foreign" || r.Intn(10) == 0) && r.Intn(3) == 0 {
					m[k] = gGen(r, s.Elem)
				}
			}
		} else {
			for _, f := range s.Fields {
				if _, has := old[f.Name]; !has && r.Intn(6*f.P) == 0 {
					m[f.Name] = gGen(r, f.S)
				}
			}
		}
		return m
	case "alist":
		old, ok := v.([]interface{})
		if !ok {
			return v
		}
		switch x := r.Intn(10); {
		case x < 7:
			return jsonCopy(old)
		case x < 9:
			return append(jsonCopy(old).([]interface{}), s.Elem.driftElem(r))
		}
		return []interface{}{}
	case "klist":
		old, ok := v.([]interface{})
		if !ok {
			return v
		}
		l := []interface{}{}
		have := map[interface{}]bool{}
		for _, e := range old {
			em, ok := e.(map[string]interface{})
			if !ok {
				continue
			}
			have[em[s.MKey]] = true
			if r.Intn(12) == 0 {
				continue // element removed out of band
			}
			n := gDrift(r, s.Elem, em).(map[string]interface{})
			n[s.MKey] = em[s.MKey]
			l = append(l, n)
		}
		for _, k := range s.Keys {
			if !have[k] && (gForeignKey(k) && r.Intn(3) == 0 || r.Intn(12) == 0) {
				// a foreign element, somewhere in the list
				i := r.Intn(len(l) + 1)
				l = append(l[:i], append([]interface{}{gElem(r, s, k)}, l[i:]...)...)
			}
		}
		if r.Intn(5) == 0 {
			r.Shuffle(len(l), func(i, j int) { l[i], l[j] = l[j], l[i] })
		}
		return l
	case "union":
		if a := gAlt(s, v); a != nil {
			if r.Intn(10) == 0 {
				return gGen(r, s) // somebody replaced the value by one of another kind
			}
			return gDrift(r, a, v)
		}
	}
	return v
}

func (s *gspec) driftElem(r *rand.Rand) interface{} {
	if s.Kind == "scalar" {
		return s.Drift
	}
	return gGen(r, s)
}

// ---------- cases ----------

var objPool = []struct{ Kind, Name string }{
	{"Deployment", "web"}, {"Deployment", "api"}, {"Service", "web"}, {"Service", "db"},
	{"ConfigMap", "cfg"}, {"Widget", "w1"}, {"Widget", "w2"}, {"other/Deployment", "web"}, {"other/Widget", "w1"},
}

func objBody(v interface{}) map[string]interface{} {
	m, _ := v.(map[string]interface{})
	if m == nil {
		m = map[string]interface{}{}
	}
	return m
}

// objLive derives the live object from the manifests of an update step.
func objLive(r *rand.Rand, spec *gspec, o, t map[string]interface{}) map[string]interface{} {
	base := o
	if t != nil && r.Intn(6) == 0 {
		base = t // somebody (or an earlier, failed attempt) already applied the new manifest
	}
	l := objBody(gDrift(r, spec, jsonCopy(base)))
	// keep policy set / cleared out of band
	md := objBody(l["metadata"])
	an := objBody(md["annotations"])
	switch x := r.Intn(10); {
	case x < 2:
		an["helm.sh/resource-policy"] = "keep"
	case x < 3:
		an["helm.sh/resource-policy"] = []string{"Keep ", "delete", "KEEP"}[r.Intn(3)]
	case x < 5:
		delete(an, "helm.sh/resource-policy")
	}
	if len(an) > 0 || md["annotations"] != nil {
		md["annotations"] = an
	}
	l["metadata"] = md
	return l
}

func genObjCase(r *rand.Rand) *objCase {
	c := &objCase{}
	type slot struct {
		kind, name string
		spec       *gspec
		cur        map[string]interface{} // the manifest entry of the latest revision, nil = not in it
		ver        string                 // version of the API group the manifest names ("" = the default)
	}
	var slots []*slot
	for _, p := range objPool {
		if r.Intn(3) > 0 {
			slots = append(slots, &slot{kind: p.Kind, name: p.Name, spec: objSpecOf(p.Kind)})
		}
	}
	res := func(s *slot, b map[string]interface{}) objRes {
		return objRes{Kind: s.kind, Name: s.name, Ver: s.ver, Body: objBody(jsonCopy(b))}
	}
	// a Deployment may move between apps/v1 and apps/v1beta2 from one manifest to the next: the same object
	flipVer := func(s *slot) {
		if _, kind := nsim.SplitKind(s.kind); kind == "Deployment" && r.Intn(4) == 0 {
			if s.ver == "" {
				s.ver = "v1beta2"
			} else {
				s.ver = ""
			}
		}
	}
	// the state the history starts from: a previous revision and what the cluster holds of it
	var cur []objRes
	for _, s := range slots {
		switch x := r.Intn(10); {
		case x < 6:
			s.cur = objBody(gGen(r, s.spec))
			flipVer(s)
			cur = append(cur, res(s, s.cur))
			if r.Intn(8) > 0 {
				c.Live = append(c.Live, res(s, objLive(r, s.spec, s.cur, nil)))
			}
		case x < 7: // a bystander
			c.Live = append(c.Live, res(s, objLive(r, s.spec, objBody(gGen(r, s.spec)), nil)))
		}
	}
	nsteps := 1 + r.Intn(3)
	for i := 0; i < nsteps; i++ {
		// an out-of-band edit before the call
		if i > 0 && r.Intn(2) == 0 && len(slots) > 0 {
			s := slots[r.Intn(len(slots))]
			if s.cur != nil && r.Intn(4) > 0 {
				l := res(s, objLive(r, s.spec, s.cur, nil))
				c.Steps = append(c.Steps, objStep{Verb: "edit", Set: &l})
			} else {
				c.Steps = append(c.Steps, objStep{Verb: "edit", Del: res(s, nil).Key()})
			}
		}
		switch x := r.Intn(20); {
		case x < 15 || len(cur) == 0:
			st := objStep{Verb: "update", Orig: cur}
			switch y := r.Intn(20); {
			case y < 3:
				st.Force = true
			case y < 7:
				st.ThreeWay = true
			}
			var tgt []objRes
			for _, s := range slots {
				switch {
				case s.cur != nil && r.Intn(6) > 0: // stays, changed
					s.cur = objBody(gMutate(r, s.spec, jsonCopy(s.cur)))
					flipVer(s)
					tgt = append(tgt, res(s, s.cur))
				case s.cur != nil: // dropped by the new manifest
					s.cur = nil
				case r.Intn(4) == 0: // added
					s.cur = objBody(gGen(r, s.spec))
					tgt = append(tgt, res(s, s.cur))
				}
			}
			r.Shuffle(len(tgt), func(i, j int) { tgt[i], tgt[j] = tgt[j], tgt[i] })
			if r.Intn(30) == 0 && len(tgt) > 0 { // adversarial: one entry twice
				tgt = append(tgt, tgt[r.Intn(len(tgt))])
			}
			st.Tgt = tgt
			c.Steps = append(c.Steps, st)
			cur = tgt
		case x < 17:
			c.Steps = append(c.Steps, objStep{Verb: "delete", Tgt: cur})
			for _, s := range slots {
				s.cur = nil
			}
			cur = nil
		default:
			var tgt []objRes
			for _, s := range slots {
				if s.cur == nil && r.Intn(2) == 0 {
					s.cur = objBody(gGen(r, s.spec))
					tgt = append(tgt, res(s, s.cur))
				}
			}
			c.Steps = append(c.Steps, objStep{Verb: "create", Tgt: tgt})
			cur = append(append([]objRes{}, cur...), tgt...)
		}
	}
	return c
}

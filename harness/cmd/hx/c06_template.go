package main

// C06 — `helm template` through pkg/cmd (thorough tier): the real cobra command
// (newTemplateCmd, exported by the add-only hook pkg/cmd/zz_verif_template.go) runs against an
// action.Configuration whose kube client is the real kube.Client in front of the counting API
// server and whose release storage is the counting driver wrapper.  The chart is written to a
// scratch directory with chartutil.SaveDir and loaded back by the command itself.

import (
	"bytes"
	"fmt"
	"math/rand"
	"os"

	chartutil "helm.sh/helm/v4/pkg/chart/v2/util"
	helmcmd "helm.sh/helm/v4/pkg/cmd"

	"verif/harness/internal/eng"
)

type c06Template struct {
	Validate bool     `json:"validate,omitempty"`
	Args     []string `json:"args,omitempty"` // extra command-line flags
}

func c06RunTemplate(r *eng.Runner, op *eng.Op, w *c06Wide, t *c06Template) (so eng.StepObs, out string, ro *c06RichObs) {
	env := c06NewEnv(r, w)
	cfg := env.cfg
	var err error
	func() {
		defer func() {
			if x := recover(); x != nil {
				so.Panic = fmt.Sprint(x)
			}
		}()
		dir, derr := os.MkdirTemp("", "c06-template-")
		if derr != nil {
			err = derr
			return
		}
		defer os.RemoveAll(dir)
		ch := c06Chart(op, w)
		if err = chartutil.SaveDir(ch, dir); err != nil {
			return
		}
		var buf bytes.Buffer
		cmd := helmcmd.VerifNewTemplateCmd(cfg, &buf)
		args := []string{eng.RelName, dir + "/" + ch.Name()}
		if t.Validate {
			args = append(args, "--validate")
		}
		args = append(args, t.Args...)
		cmd.SetArgs(args)
		cmd.SetOut(&buf)
		cmd.SetErr(&buf)
		cmd.SilenceUsage, cmd.SilenceErrors = true, true
		err = cmd.Execute()
		out = fmt.Sprintf("%d bytes", buf.Len())
	}()
	so.Outcome = c06Classify(err)
	if err != nil {
		so.ErrText = err.Error()
	}
	env.finish(&so)
	ro = env.rich(err, so.Panic != "")
	ro.Rendered, ro.RHooks = c06RenderWide(op, w)
	return
}

// every subset of a few flags x validate on/off x empty/populated history x two charts
func c06TemplateCases(r *rand.Rand) []any {
	var out []any
	flagSets := [][]string{
		{}, {"--include-crds"}, {"--is-upgrade"}, {"--no-hooks"}, {"--skip-tests"}, {"--create-namespace"},
		{"--dry-run=server"}, {"--dry-run=client"}, {"--dry-run=none"}, {"--dry-run=false"}, {"--dry-run=true"}, {"--atomic"}, {"--replace", "--take-ownership"},
		{"--skip-crds", "--force"}, {"--render-subchart-notes", "--hide-notes"}, {"--disable-openapi-validation"},
		{"--include-crds", "--create-namespace", "--atomic", "--dry-run=server", "--take-ownership"},
	}
	for _, sh := range []string{"empty", "deployed3"} {
		for _, validate := range []bool{false, true} {
			for _, fs := range flagSets {
				for _, wide := range []*c06Wide{{}, {CRDs: true, Notes: true, Subchart: true}} {
					op := &eng.Op{Kind: "install", ChartID: 7, ValsID: 1, Manifest: c06Manifest(r, 7), Hooks: c06HooksEveryEvent(r),
						Flags: eng.Flags{DryRun: true}}
					out = append(out, c06Case{Backend: "secret", Shape: sh, Setup: c06Setup(r, sh), Op: op, Wide: wide,
						Template: &c06Template{Validate: validate, Args: fs}})
				}
			}
		}
	}
	return out
}

package main

// C06 — `helm template` through pkg/cmd (thorough tier).

import (
	"math/rand"

	"verif/harness/internal/eng"
)

type c06Template struct {
	Validate bool     `json:"validate,omitempty"`
	Args     []string `json:"args,omitempty"` // extra command-line flags
}

func c06TemplateCases(_ *rand.Rand) []any { return nil }

func c06RunTemplate(_ *eng.Runner, _ *eng.Op, _ *c06Wide, _ *c06Template) (eng.StepObs, string) {
	return eng.StepObs{Outcome: "err:other", ErrText: "helm template driver not built"}, ""
}

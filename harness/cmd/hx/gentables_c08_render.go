package main

// Translator for the rest of renderResources (coq/Text/Full.v) -> coq/Gen/C08Render.v.
//
// It does not print source text to be compared with text.  It reads, with go/ast, the CALL
// SITES that make up the behaviour the model transcribes (fmt.Fprintf to the buffer,
// writeToFile, notesBuffer.WriteString, delete(files, k), pr.Run, os.Create / os.OpenFile,
// append in CRDObjects) and prints for each one a row
//
//	(callee, format string resolved to its literal value, arguments in canonical form, CONDITION)
//
// where the condition is the path condition of the call as a boolean expression over named
// atoms (Text/Cond.v): nested ifs, && chains, else branches, early `continue`, switch
// statements and single-assignment locals all fold into it; same-package helpers are followed
// (a call inside writeRenderedFiles(b, files) is a row of renderResources with the helper's
// parameters replaced by the caller's arguments); boolean functions of the package
// (hasManifestExtension, isDryRun) are evaluated symbolically, so an || chain, a switch and
// early returns give equivalent expressions.  Props/C08.v proves every condition EQUIVALENT to
// the model's condition by truth table.  Canonical form: the receiver is $recv, parameter n is
// $argN, the variable of the innermost range loop is $elem (key: $key), a local assigned once
// is replaced by its definition, package constants by their literal value.
//
// For the hide-secret guard: the necessary condition, over the atoms built from $recv.DryRun,
// $recv.DryRunOption and $recv.HideSecret (isDryRun inlined), for control to reach the call of
// renderResources and the calls that apply a release (performInstall*, KubeClient.Create,
// Releases.Create) in Install.RunWithContext / Upgrade.prepareUpgrade: conditions on anything
// else count as "may go either way", early returns prune.  No statement order is compared.
//
// What cannot be read is printed as an explicit BUnknown / "<unknown ...>" row: the file is
// always well formed and the obligation that needs the row fails.

import (
	"bytes"
	"fmt"
	"go/ast"
	"go/parser"
	"go/printer"
	"go/token"
	"os"
	"path/filepath"
	"sort"
	"strconv"
	"strings"

	"verif/harness/internal/hx"
)

func init() { registerTable("C08Render", genC08Render) }

// ---- boolean expressions ---------------------------------------------------------------------

type c08B struct {
	op   string // T F atom not and or unk
	a, b *c08B
	s    string
}

var c08T, c08F = &c08B{op: "T"}, &c08B{op: "F"}

func c08Atom(s string) *c08B { return &c08B{op: "atom", s: s} }
func c08Unk(s string) *c08B  { return &c08B{op: "unk", s: s} }
func c08Not(x *c08B) *c08B {
	switch x.op {
	case "T":
		return c08F
	case "F":
		return c08T
	case "not":
		return x.a
	}
	return &c08B{op: "not", a: x}
}
func c08And(x, y *c08B) *c08B {
	switch {
	case x.op == "T":
		return y
	case y.op == "T":
		return x
	case x.op == "F" || y.op == "F":
		return c08F
	case x.coq() == y.coq():
		return x
	}
	return &c08B{op: "and", a: x, b: y}
}
func c08Or(x, y *c08B) *c08B {
	switch {
	case x.op == "F":
		return y
	case y.op == "F":
		return x
	case x.op == "T" || y.op == "T":
		return c08T
	case x.coq() == y.coq():
		return x
	}
	return &c08B{op: "or", a: x, b: y}
}
func (x *c08B) coq() string {
	switch x.op {
	case "T":
		return "BTrue"
	case "F":
		return "BFalse"
	case "atom":
		return "(BAtom " + hx.CoqStr(x.s) + ")"
	case "unk":
		return "(BUnknown " + hx.CoqStr(x.s) + ")"
	case "not":
		return "(BNot " + x.a.coq() + ")"
	case "and":
		return "(BAnd " + x.a.coq() + " " + x.b.coq() + ")"
	}
	return "(BOr " + x.a.coq() + " " + x.b.coq() + ")"
}

// abs: over-approximations of "x is true" / "x is false" when only some atoms are tracked
func (x *c08B) abs(relevant func(string) bool) (pos, neg *c08B) {
	switch x.op {
	case "T":
		return c08T, c08F
	case "F":
		return c08F, c08T
	case "atom":
		if relevant == nil || relevant(x.s) {
			return x, c08Not(x)
		}
		return c08T, c08T
	case "unk":
		if relevant == nil {
			return x, c08Not(x)
		}
		return c08T, c08T
	case "not":
		p, n := x.a.abs(relevant)
		return n, p
	case "and":
		p1, n1 := x.a.abs(relevant)
		p2, n2 := x.b.abs(relevant)
		return c08And(p1, p2), c08Or(n1, n2)
	}
	p1, n1 := x.a.abs(relevant)
	p2, n2 := x.b.abs(relevant)
	return c08Or(p1, p2), c08And(n1, n2)
}

// ---- a package ---------------------------------------------------------------------------------

type c08Pkg struct {
	fset   *token.FileSet
	funcs  map[string]*ast.FuncDecl // "Recv.name" and "name"
	byName map[string][]*ast.FuncDecl
	consts map[string]string
}

func c08LoadPkg(repo, dir string) (*c08Pkg, error) {
	p := &c08Pkg{fset: token.NewFileSet(), funcs: map[string]*ast.FuncDecl{}, byName: map[string][]*ast.FuncDecl{}, consts: map[string]string{}}
	ents, err := os.ReadDir(filepath.Join(repo, dir))
	if err != nil {
		return nil, err
	}
	for _, e := range ents {
		n := e.Name()
		if e.IsDir() || !strings.HasSuffix(n, ".go") || strings.HasSuffix(n, "_test.go") || strings.HasPrefix(n, "zz_verif") {
			continue
		}
		f, err := parser.ParseFile(p.fset, filepath.Join(repo, dir, n), nil, 0)
		if err != nil {
			return nil, err
		}
		for _, d := range f.Decls {
			switch v := d.(type) {
			case *ast.FuncDecl:
				if v.Body == nil {
					continue
				}
				key := v.Name.Name
				if v.Recv != nil && len(v.Recv.List) == 1 {
					t := v.Recv.List[0].Type
					if st, ok := t.(*ast.StarExpr); ok {
						t = st.X
					}
					if id, ok := t.(*ast.Ident); ok {
						key = id.Name + "." + key
					}
				}
				p.funcs[key] = v
				p.byName[v.Name.Name] = append(p.byName[v.Name.Name], v)
			case *ast.GenDecl:
				if v.Tok != token.CONST && v.Tok != token.VAR {
					continue
				}
				for _, s := range v.Specs {
					vs := s.(*ast.ValueSpec)
					for i, nm := range vs.Names {
						if i < len(vs.Values) {
							if lit, ok := strLit(vs.Values[i]); ok {
								p.consts[nm.Name] = lit
							}
						}
					}
				}
			}
		}
	}
	return p, nil
}

// ---- scopes and canonical text ---------------------------------------------------------------------

type c08Scope struct {
	pkg    *c08Pkg
	subst  map[string]string // identifier -> canonical text
	bsub   map[string]*c08B  // identifier -> boolean value (locals assigned once)
	lits   map[string]string // identifier -> string literal value
	single map[string]bool   // locals defined exactly once and never assigned again
	depth  int
	recvT  string // type of the receiver ($recv), "" in a plain function
}

func (sc *c08Scope) child() *c08Scope {
	n := &c08Scope{pkg: sc.pkg, subst: map[string]string{}, bsub: map[string]*c08B{}, lits: map[string]string{}, single: sc.single, depth: sc.depth, recvT: sc.recvT}
	for k, v := range sc.subst {
		n.subst[k] = v
	}
	for k, v := range sc.bsub {
		n.bsub[k] = v
	}
	for k, v := range sc.lits {
		n.lits[k] = v
	}
	return n
}

// c08Singles: the names introduced by exactly one := / var and never written again
func c08Singles(body ast.Node) map[string]bool {
	def, write := map[string]int{}, map[string]int{}
	ast.Inspect(body, func(n ast.Node) bool {
		switch v := n.(type) {
		case *ast.AssignStmt:
			for _, l := range v.Lhs {
				if id, ok := l.(*ast.Ident); ok {
					if v.Tok == token.DEFINE {
						def[id.Name]++
					} else {
						write[id.Name]++
					}
				}
			}
		case *ast.IncDecStmt:
			if id, ok := v.X.(*ast.Ident); ok {
				write[id.Name]++
			}
		case *ast.RangeStmt:
			for _, e := range []ast.Expr{v.Key, v.Value} {
				if id, ok := e.(*ast.Ident); ok {
					write[id.Name]++
				}
			}
		case *ast.ValueSpec:
			for _, id := range v.Names {
				def[id.Name]++
			}
		case *ast.UnaryExpr:
			if v.Op == token.AND {
				if id, ok := v.X.(*ast.Ident); ok {
					write[id.Name]++ // address taken
				}
			}
		}
		return true
	})
	out := map[string]bool{}
	for k, n := range def {
		if n == 1 && write[k] == 0 {
			out[k] = true
		}
	}
	return out
}

func c08FuncScope(pkg *c08Pkg, fd *ast.FuncDecl, recv string, args []string, depth int) *c08Scope {
	sc := &c08Scope{pkg: pkg, subst: map[string]string{}, bsub: map[string]*c08B{}, lits: map[string]string{}, single: c08Singles(fd.Body), depth: depth}
	if fd.Recv != nil && len(fd.Recv.List) == 1 {
		if len(fd.Recv.List[0].Names) == 1 {
			sc.subst[fd.Recv.List[0].Names[0].Name] = recv
		}
		t := fd.Recv.List[0].Type
		if st, ok := t.(*ast.StarExpr); ok {
			t = st.X
		}
		if id, ok := t.(*ast.Ident); ok && recv == "$recv" {
			sc.recvT = id.Name
		}
	}
	i := 0
	for _, f := range fd.Type.Params.List {
		for _, nm := range f.Names {
			if args != nil && i < len(args) {
				sc.subst[nm.Name] = args[i]
			} else {
				sc.subst[nm.Name] = fmt.Sprintf("$arg%d", i)
			}
			i++
		}
	}
	return sc
}

func c08Paren(s string) string {
	if strings.ContainsAny(s, " |&") && !(strings.HasPrefix(s, "(") && strings.HasSuffix(s, ")")) {
		return "(" + s + ")"
	}
	return s
}

func (sc *c08Scope) canonList(es []ast.Expr) []string {
	out := make([]string, len(es))
	for i, e := range es {
		out[i] = sc.canon(e)
	}
	return out
}

// canon: the expression as text, identifiers replaced as the scope says
func (sc *c08Scope) canon(e ast.Expr) string {
	switch v := e.(type) {
	case *ast.Ident:
		if s, ok := sc.subst[v.Name]; ok {
			return s
		}
		if s, ok := sc.lits[v.Name]; ok {
			return strconv.Quote(s)
		}
		if _, shadow := sc.single[v.Name]; !shadow {
			if s, ok := sc.pkg.consts[v.Name]; ok {
				return strconv.Quote(s)
			}
		}
		return v.Name
	case *ast.BasicLit:
		if v.Kind == token.STRING {
			if s, err := strconv.Unquote(v.Value); err == nil {
				return strconv.Quote(s)
			}
		}
		return v.Value
	case *ast.ParenExpr:
		return c08Paren(sc.canon(v.X))
	case *ast.SelectorExpr:
		return sc.canon(v.X) + "." + v.Sel.Name
	case *ast.StarExpr:
		return "*" + sc.canon(v.X)
	case *ast.UnaryExpr:
		return v.Op.String() + sc.canon(v.X)
	case *ast.BinaryExpr:
		op := v.Op.String()
		if v.Op == token.OR || v.Op == token.AND || v.Op == token.ADD || v.Op == token.SUB || v.Op == token.MUL {
			return sc.canon(v.X) + op + sc.canon(v.Y) // os.O_APPEND|os.O_WRONLY
		}
		return sc.canon(v.X) + " " + op + " " + sc.canon(v.Y)
	case *ast.CallExpr:
		s := sc.canon(v.Fun) + "(" + strings.Join(sc.canonList(v.Args), ", ")
		if v.Ellipsis.IsValid() {
			s += "..."
		}
		return s + ")"
	case *ast.IndexExpr:
		return sc.canon(v.X) + "[" + sc.canon(v.Index) + "]"
	case *ast.SliceExpr:
		lo, hi := "", ""
		if v.Low != nil {
			lo = sc.canon(v.Low)
		}
		if v.High != nil {
			hi = sc.canon(v.High)
		}
		return sc.canon(v.X) + "[" + lo + ":" + hi + "]"
	case *ast.KeyValueExpr:
		return sc.canon(v.Key) + ": " + sc.canon(v.Value)
	case *ast.CompositeLit:
		t := ""
		if v.Type != nil {
			t = c08Print(sc.pkg.fset, v.Type)
		}
		return t + "{" + strings.Join(sc.canonList(v.Elts), ", ") + "}"
	case *ast.FuncLit:
		return "func{...}"
	}
	return c08Print(sc.pkg.fset, e)
}

func c08Print(fset *token.FileSet, n ast.Node) string {
	var b bytes.Buffer
	printer.Fprint(&b, fset, n)
	return strings.Join(strings.Fields(b.String()), " ")
}

func c08IsLit(e ast.Expr) bool {
	switch v := e.(type) {
	case *ast.BasicLit:
		return true
	case *ast.Ident:
		return v.Name == "nil" || v.Name == "true" || v.Name == "false"
	case *ast.ParenExpr:
		return c08IsLit(v.X)
	}
	return false
}

func c08BoolShaped(e ast.Expr) bool {
	switch v := e.(type) {
	case *ast.ParenExpr:
		return c08BoolShaped(v.X)
	case *ast.UnaryExpr:
		return v.Op == token.NOT
	case *ast.BinaryExpr:
		switch v.Op {
		case token.LAND, token.LOR, token.EQL, token.NEQ, token.LSS, token.GTR, token.LEQ, token.GEQ:
			return true
		}
	}
	return false
}

// resolveFunc: the declaration a call refers to, when it is a function or method of this package
func (sc *c08Scope) resolveFunc(call *ast.CallExpr) (fd *ast.FuncDecl, recv string) {
	switch f := call.Fun.(type) {
	case *ast.Ident:
		if _, local := sc.subst[f.Name]; local {
			return nil, ""
		}
		if d, ok := sc.pkg.funcs[f.Name]; ok {
			return d, ""
		}
	case *ast.SelectorExpr:
		// a method: unique by name among the methods of the package, and not a package-qualified call
		if id, ok := f.X.(*ast.Ident); ok {
			if _, isVar := sc.subst[id.Name]; !isVar && !sc.single[id.Name] && id.Obj == nil {
				return nil, "" // strings.X, os.X, ...
			}
		}
		if sc.recvT != "" && sc.canon(f.X) == "$recv" {
			if d, ok := sc.pkg.funcs[sc.recvT+"."+f.Sel.Name]; ok {
				return d, "$recv"
			}
		}
		var cands []*ast.FuncDecl
		for _, d := range sc.pkg.byName[f.Sel.Name] {
			if d.Recv != nil {
				cands = append(cands, d)
			}
		}
		if len(cands) == 1 {
			return cands[0], sc.canon(f.X)
		}
		// several types have a method of that name: take the one of the receiver type if the receiver is $recv
		return nil, ""
	}
	return nil, ""
}

func c08ReturnsBool(fd *ast.FuncDecl) bool {
	r := fd.Type.Results
	if r == nil || len(r.List) != 1 || len(r.List[0].Names) > 1 {
		return false
	}
	id, ok := r.List[0].Type.(*ast.Ident)
	return ok && id.Name == "bool"
}

// toB: a Go condition as a boolean expression over canonical atoms
func (sc *c08Scope) toB(e ast.Expr) *c08B {
	switch v := e.(type) {
	case *ast.ParenExpr:
		return sc.toB(v.X)
	case *ast.Ident:
		switch v.Name {
		case "true":
			return c08T
		case "false":
			return c08F
		}
		if b, ok := sc.bsub[v.Name]; ok {
			return b
		}
		return c08Atom(sc.canon(v))
	case *ast.UnaryExpr:
		if v.Op == token.NOT {
			return c08Not(sc.toB(v.X))
		}
	case *ast.BinaryExpr:
		x, y := v.X, v.Y
		switch v.Op {
		case token.LAND:
			return c08And(sc.toB(x), sc.toB(y))
		case token.LOR:
			return c08Or(sc.toB(x), sc.toB(y))
		case token.EQL, token.NEQ:
			if c08IsLit(x) && !c08IsLit(y) {
				x, y = y, x
			}
			var a *c08B
			switch sc.canon(y) {
			case "true":
				a = sc.toB(x)
			case "false":
				a = c08Not(sc.toB(x))
			default:
				a = c08Atom(sc.canon(x) + " == " + sc.canon(y))
			}
			if v.Op == token.NEQ {
				return c08Not(a)
			}
			return a
		case token.LSS:
			return c08Atom(sc.canon(x) + " < " + sc.canon(y))
		case token.GTR:
			return c08Atom(sc.canon(y) + " < " + sc.canon(x))
		case token.GEQ:
			return c08Not(c08Atom(sc.canon(x) + " < " + sc.canon(y)))
		case token.LEQ:
			return c08Not(c08Atom(sc.canon(y) + " < " + sc.canon(x)))
		}
	case *ast.CallExpr:
		if fd, recv := sc.resolveFunc(v); fd != nil && c08ReturnsBool(fd) && sc.depth < 3 {
			return c08EvalBool(sc.pkg, fd.Body, c08FuncScope(sc.pkg, fd, recv, sc.canonList(v.Args), sc.depth+1))
		}
	}
	return c08Atom(sc.canon(e))
}

// ---- the walker ----------------------------------------------------------------------------------------

type c08Row struct {
	callee, format string
	args           []string
	cond           *c08B
}

type c08Walk struct {
	pkg         *c08Pkg
	dropReturns bool                 // conditions are relative to reaching the place: early error returns do not count
	relevant    func(string) bool    // nil: every atom is tracked
	interesting func(callee string) bool
	follow      bool
	rows        []c08Row
	onReturn    func(C *c08B, r *ast.ReturnStmt, sc *c08Scope)
	stack       map[*ast.FuncDecl]bool // functions being walked: a recursive call is not followed
}

const (
	c08Falls = iota
	c08Loops // continue / break / goto
	c08Returns
)

func c08EndKind(b *ast.BlockStmt) int {
	if b == nil || len(b.List) == 0 {
		return c08Falls
	}
	switch v := b.List[len(b.List)-1].(type) {
	case *ast.ReturnStmt:
		return c08Returns
	case *ast.BranchStmt:
		if v.Tok != token.FALLTHROUGH {
			return c08Loops
		}
	case *ast.ExprStmt:
		if c, ok := v.X.(*ast.CallExpr); ok {
			if id, ok := c.Fun.(*ast.Ident); ok && id.Name == "panic" {
				return c08Returns
			}
		}
	}
	return c08Falls
}

// resolveString: a string expression as its value (literals, named constants, locals, +)
func (sc *c08Scope) resolveString(e ast.Expr) (string, bool) {
	switch v := e.(type) {
	case *ast.BasicLit:
		return strLit(v)
	case *ast.ParenExpr:
		return sc.resolveString(v.X)
	case *ast.Ident:
		if s, ok := sc.lits[v.Name]; ok {
			return s, true
		}
		if s, ok := sc.pkg.consts[v.Name]; ok {
			return s, true
		}
	case *ast.BinaryExpr:
		if v.Op == token.ADD {
			a, ok1 := sc.resolveString(v.X)
			b, ok2 := sc.resolveString(v.Y)
			return a + b, ok1 && ok2
		}
	}
	return "", false
}

func (w *c08Walk) expr(e ast.Node, C *c08B, sc *c08Scope) {
	if e == nil {
		return
	}
	ast.Inspect(e, func(n ast.Node) bool {
		switch v := n.(type) {
		case *ast.FuncLit:
			return false
		case *ast.CallExpr:
			callee := sc.canon(v.Fun)
			if w.interesting != nil && w.interesting(callee) {
				r := c08Row{callee: callee, cond: C}
				args := v.Args
				if strings.HasSuffix(callee, "Fprintf") && len(args) >= 2 {
					if s, ok := sc.resolveString(args[1]); ok {
						r.format = s
					} else {
						r.format = "<unknown format: " + sc.canon(args[1]) + ">"
					}
					args = args[2:]
				}
				r.args = sc.canonList(args)
				w.rows = append(w.rows, r)
				return true
			}
			if w.follow && sc.depth < 3 {
				if fd, recv := sc.resolveFunc(v); fd != nil && !w.stack[fd] {
					inner := c08FuncScope(w.pkg, fd, recv, sc.canonList(v.Args), sc.depth+1)
					saved := w.onReturn
					w.onReturn = nil
					w.stack[fd] = true
					w.block(fd.Body.List, C, inner)
					w.stack[fd] = false
					w.onReturn = saved
				}
			}
		}
		return true
	})
}

func (w *c08Walk) define(lhs []ast.Expr, rhs []ast.Expr, sc *c08Scope) {
	if len(lhs) != len(rhs) {
		return
	}
	// parallel definition: evaluate all right-hand sides first
	type d struct {
		name, text string
		b          *c08B
		lit        *string
	}
	var ds []d
	for i, l := range lhs {
		id, ok := l.(*ast.Ident)
		if !ok || id.Name == "_" || !sc.single[id.Name] {
			continue
		}
		if !c08Inlinable(rhs[i]) {
			continue
		}
		x := d{name: id.Name, text: c08Paren(sc.canon(rhs[i]))}
		if c08BoolShaped(rhs[i]) {
			x.b = sc.toB(rhs[i])
		} else if c, ok := rhs[i].(*ast.CallExpr); ok {
			if fd, _ := sc.resolveFunc(c); fd != nil && c08ReturnsBool(fd) {
				x.b = sc.toB(rhs[i])
			}
		}
		if s, ok := sc.resolveString(rhs[i]); ok {
			x.lit = &s
		}
		ds = append(ds, x)
	}
	for _, x := range ds {
		sc.subst[x.name] = x.text
		if x.b != nil {
			sc.bsub[x.name] = x.b
		}
		if x.lit != nil {
			sc.lits[x.name] = *x.lit
			delete(sc.subst, x.name)
		}
	}
}

// c08Inlinable: a local may stand for its definition unless that creates a fresh object
func c08Inlinable(e ast.Expr) bool {
	switch v := e.(type) {
	case *ast.CompositeLit, *ast.FuncLit:
		return false
	case *ast.UnaryExpr:
		return v.Op != token.AND
	case *ast.CallExpr:
		if id, ok := v.Fun.(*ast.Ident); ok && (id.Name == "make" || id.Name == "new") {
			return false
		}
	}
	return true
}

// block: the condition after the statements, and how the block ended if it cannot fall through
func (w *c08Walk) block(list []ast.Stmt, C *c08B, sc *c08Scope) (*c08B, int) {
	for _, s := range list {
		var k int
		C, k = w.stmt(s, C, sc)
		if k != c08Falls {
			return c08F, k
		}
	}
	return C, c08Falls
}

func (w *c08Walk) stmt(s ast.Stmt, C *c08B, sc *c08Scope) (*c08B, int) {
	switch v := s.(type) {
	case nil:
		return C, c08Falls
	case *ast.BlockStmt:
		return w.block(v.List, C, sc)
	case *ast.LabeledStmt:
		return w.stmt(v.Stmt, C, sc)
	case *ast.ReturnStmt:
		w.expr(v, C, sc)
		if w.onReturn != nil {
			w.onReturn(C, v, sc)
		}
		return c08F, c08Returns
	case *ast.BranchStmt:
		if v.Tok == token.FALLTHROUGH {
			return C, c08Falls
		}
		return c08F, c08Loops
	case *ast.AssignStmt:
		w.expr(v, C, sc)
		if v.Tok == token.DEFINE {
			w.define(v.Lhs, v.Rhs, sc)
		}
		return C, c08Falls
	case *ast.DeclStmt:
		w.expr(v, C, sc)
		if gd, ok := v.Decl.(*ast.GenDecl); ok {
			for _, sp := range gd.Specs {
				if vs, ok := sp.(*ast.ValueSpec); ok && len(vs.Values) == len(vs.Names) {
					lhs := make([]ast.Expr, len(vs.Names))
					for i, n := range vs.Names {
						lhs[i] = n
					}
					w.define(lhs, vs.Values, sc)
				}
			}
		}
		return C, c08Falls
	case *ast.IfStmt:
		inner := sc
		if v.Init != nil {
			inner = sc.child()
			C, _ = w.stmt(v.Init, C, inner)
		}
		w.expr(v.Cond, C, inner)
		pos, neg := inner.toB(v.Cond).abs(w.relevant)
		if w.dropReturns && inner.depth == 0 {
			if c08EndKind(v.Body) == c08Returns {
				neg = c08T
			}
			if eb, ok := v.Else.(*ast.BlockStmt); ok && c08EndKind(eb) == c08Returns {
				pos = c08T
			}
		}
		startB, startE := c08And(C, pos), c08And(C, neg)
		cb, kb := w.block(v.Body.List, startB, inner.child())
		ce, ke := startE, c08Falls
		if v.Else != nil {
			ce, ke = w.stmt(v.Else, startE, inner.child())
		}
		switch {
		case kb != c08Falls && ke != c08Falls:
			if kb == c08Returns && ke == c08Returns {
				return c08F, c08Returns
			}
			return c08F, c08Loops
		case kb != c08Falls:
			return ce, c08Falls
		case ke != c08Falls:
			return cb, c08Falls
		case cb.coq() == startB.coq() && ce.coq() == startE.coq():
			return C, c08Falls
		}
		return c08Or(cb, ce), c08Falls
	case *ast.ForStmt:
		inner := sc.child()
		if v.Init != nil {
			w.stmt(v.Init, C, inner)
		}
		w.expr(v.Cond, C, inner)
		w.block(v.Body.List, C, inner)
		return C, c08Falls
	case *ast.RangeStmt:
		w.expr(v.X, C, sc)
		inner := sc.child()
		suffix := ""
		for _, t := range sc.subst {
			if strings.HasPrefix(t, "$elem") {
				suffix = "'" // a loop inside a loop
			}
		}
		key, val := v.Key, v.Value
		if val == nil {
			key, val = nil, key // for k := range m: the one variable is the element of the loop
		}
		if id, ok := key.(*ast.Ident); ok && id.Name != "_" {
			inner.subst[id.Name] = "$key" + suffix
		}
		if id, ok := val.(*ast.Ident); ok && id.Name != "_" {
			inner.subst[id.Name] = "$elem" + suffix
		}
		w.block(v.Body.List, C, inner)
		return C, c08Falls
	case *ast.SwitchStmt:
		inner := sc.child()
		if v.Init != nil {
			C, _ = w.stmt(v.Init, C, inner)
		}
		w.expr(v.Tag, C, inner)
		earlier := c08F // some earlier case matched
		after := c08F
		hasDefault := false
		var defaultClause *ast.CaseClause
		allReturn := true
		clause := func(cc *ast.CaseClause, cond *c08B) {
			pos, _ := cond.abs(w.relevant)
			c, k := w.block(cc.Body, c08And(C, pos), inner.child())
			if k == c08Falls {
				after = c08Or(after, c)
			}
			if k != c08Returns {
				allReturn = false
			}
		}
		for _, st := range v.Body.List {
			cc := st.(*ast.CaseClause)
			if cc.List == nil {
				hasDefault, defaultClause = true, cc
				continue
			}
			this := c08F
			for _, e := range cc.List {
				w.expr(e, C, inner)
				if v.Tag != nil {
					this = c08Or(this, inner.toB(&ast.BinaryExpr{X: v.Tag, Op: token.EQL, Y: e}))
				} else {
					this = c08Or(this, inner.toB(e))
				}
			}
			clause(cc, c08And(this, c08Not(earlier)))
			earlier = c08Or(earlier, this)
		}
		if hasDefault {
			clause(defaultClause, c08Not(earlier))
		} else {
			_, neg := earlier.abs(w.relevant)
			after = c08Or(after, c08And(C, neg))
			allReturn = false
		}
		if after.op == "F" {
			if allReturn {
				return c08F, c08Returns
			}
			return c08F, c08Loops
		}
		return after, c08Falls
	case *ast.TypeSwitchStmt:
		w.expr(v.Assign, C, sc)
		for _, st := range v.Body.List {
			w.block(st.(*ast.CaseClause).Body, C, sc.child())
		}
		return C, c08Falls
	case *ast.SelectStmt:
		for _, st := range v.Body.List {
			cc := st.(*ast.CommClause)
			w.stmt(cc.Comm, C, sc.child())
			w.block(cc.Body, C, sc.child())
		}
		return C, c08Falls
	default: // ExprStmt, GoStmt, DeferStmt, IncDecStmt, SendStmt, EmptyStmt
		w.expr(s, C, sc)
		return C, c08Falls
	}
}

// c08EvalBool: the value of a boolean function body: the disjunction over its return statements
func c08EvalBool(pkg *c08Pkg, body *ast.BlockStmt, sc *c08Scope) *c08B {
	res := c08F
	w := &c08Walk{pkg: pkg}
	w.onReturn = func(C *c08B, r *ast.ReturnStmt, sc *c08Scope) {
		if len(r.Results) != 1 {
			res = c08Or(res, c08And(C, c08Unk("return of "+strconv.Itoa(len(r.Results))+" values")))
			return
		}
		res = c08Or(res, c08And(C, sc.toB(r.Results[0])))
	}
	w.block(body.List, c08T, sc)
	return res
}

// ---- printing ---------------------------------------------------------------------------------------------

func c08CoqRows(rows []c08Row) string {
	if len(rows) == 0 {
		return "[]"
	}
	it := make([]string, len(rows))
	for i, r := range rows {
		it[i] = fmt.Sprintf("mkRow %s %s %s\n      %s", hx.CoqStr(r.callee), hx.CoqStr(r.format), hx.CoqStrList(r.args), r.cond.coq())
	}
	return "[" + strings.Join(it, ";\n   ") + "]"
}

func c08UnknownRows(what string) []c08Row {
	return []c08Row{{callee: "<unknown: " + what + ">", cond: c08Unk(what)}}
}

func c08Suffixes(sfx ...string) func(string) bool {
	return func(callee string) bool {
		for _, s := range sfx {
			if callee == s || strings.HasSuffix(callee, "."+s) {
				return true
			}
		}
		return false
	}
}

// rows of one function: every interesting call in it and in the helpers it calls
func c08RowsOf(pkg *c08Pkg, key string, interesting func(string) bool) []c08Row {
	fd := pkg.funcs[key]
	if fd == nil {
		return c08UnknownRows(key + " not found")
	}
	w := &c08Walk{pkg: pkg, dropReturns: true, follow: true, interesting: interesting, stack: map[*ast.FuncDecl]bool{fd: true},
		relevant: func(a string) bool { return strings.Contains(a, "$") }}
	w.block(fd.Body.List, c08T, c08FuncScope(pkg, fd, "$recv", nil, 0))
	return w.rows
}

// reach: necessary conditions over the dry-run / hide-secret atoms for reaching the calls
func c08Reach(pkg *c08Pkg, key string, classes map[string]func(string) bool) (map[string]*c08B, []string) {
	out := map[string]*c08B{}
	fd := pkg.funcs[key]
	if fd == nil {
		for k := range classes {
			out[k] = c08Unk(key + " not found")
		}
		return out, []string{"<unknown: " + key + " not found>"}
	}
	w := &c08Walk{pkg: pkg, follow: true, stack: map[*ast.FuncDecl]bool{fd: true},
		interesting: func(c string) bool {
			for _, f := range classes {
				if f(c) {
					return true
				}
			}
			return false
		},
		relevant: func(a string) bool {
			return strings.Contains(a, "$recv.DryRun") || strings.Contains(a, "$recv.HideSecret")
		}}
	w.block(fd.Body.List, c08T, c08FuncScope(pkg, fd, "$recv", nil, 0))
	var renderArgs []string
	for k, f := range classes {
		acc, found := c08F, false
		for _, r := range w.rows {
			if f(r.callee) {
				acc, found = c08Or(acc, r.cond), true
				if k == "render" && renderArgs == nil {
					renderArgs = r.args
				}
			}
		}
		if !found {
			acc = c08Unk("no call of class " + k + " in " + key)
		}
		out[k] = acc
	}
	if renderArgs == nil {
		renderArgs = []string{"<unknown: no call of renderResources in " + key + ">"}
	}
	return out, renderArgs
}

func genC08Render(repo string) (string, error) {
	var b strings.Builder
	b.WriteString("From Helm Require Import Common.Strs Text.Cond.\n\n")
	act, err := c08LoadPkg(repo, "pkg/action")
	if err != nil {
		act = &c08Pkg{fset: token.NewFileSet(), funcs: map[string]*ast.FuncDecl{}, byName: map[string][]*ast.FuncDecl{}, consts: map[string]string{}}
	}
	// renderResources: buffer writes, file writes, notes, deletion of NOTES keys, the post-renderer
	rr := c08RowsOf(act, "Configuration.renderResources", c08Suffixes("Fprintf", "writeToFile", "WriteString", "delete", "Run"))
	fmt.Fprintf(&b, "(* pkg/action/action.go renderResources and the helpers it calls: call sites with their path conditions *)\nDefinition render_rows : list row :=\n  %s.\n\n", c08CoqRows(rr))
	// the NOTES key order: the comparison handed to sort.Slice, evaluated
	less := c08Unk("no sort.Slice(keys, func) in renderResources")
	if fd := act.funcs["Configuration.renderResources"]; fd != nil {
		sc := c08FuncScope(act, fd, "$recv", nil, 0)
		ast.Inspect(fd.Body, func(n ast.Node) bool {
			c, ok := n.(*ast.CallExpr)
			if !ok || len(c.Args) != 2 || sc.canon(c.Fun) != "sort.Slice" {
				return true
			}
			fl, ok := c.Args[1].(*ast.FuncLit)
			if !ok || len(fl.Type.Params.List) == 0 {
				return true
			}
			inner := sc.child()
			inner.single = c08Singles(fl.Body)
			if id, ok := c.Args[0].(*ast.Ident); ok {
				inner.subst[id.Name] = "$slice"
			}
			i := 0
			for _, f := range fl.Type.Params.List {
				for _, nm := range f.Names {
					inner.subst[nm.Name] = fmt.Sprintf("$p%d", i)
					i++
				}
			}
			less = c08EvalBool(act, fl.Body, inner)
			return false
		})
	}
	fmt.Fprintf(&b, "(* the less function of sort.Slice on the NOTES keys, as the disjunction over its returns *)\nDefinition notes_less : bexp :=\n  %s.\n\n", less.coq())
	// writeToFile / createOrOpenFile
	wr := c08RowsOf(act, "writeToFile", c08Suffixes("Fprintf", "OpenFile", "Create"))
	fmt.Fprintf(&b, "(* pkg/action/install.go writeToFile and createOrOpenFile *)\nDefinition write_rows : list row :=\n  %s.\n\n", c08CoqRows(wr))
	// the guard
	applies := func(c string) bool {
		last := c[strings.LastIndex(c, ".")+1:]
		return strings.HasPrefix(last, "performInstall") || strings.HasPrefix(last, "performUpgrade") ||
			last == "Create" && (strings.Contains(c, "KubeClient") || strings.Contains(c, "Releases"))
	}
	classes := map[string]func(string) bool{"render": c08Suffixes("renderResources"), "apply": applies}
	dry := func(key string) *c08B {
		fd := act.funcs[key]
		if fd == nil || !c08ReturnsBool(fd) {
			return c08Unk(key + " not found")
		}
		return c08EvalBool(act, fd.Body, c08FuncScope(act, fd, "$recv", nil, 1))
	}
	ir, iargs := c08Reach(act, "Install.RunWithContext", classes)
	ur, uargs := c08Reach(act, "Upgrade.prepareUpgrade", map[string]func(string) bool{"render": classes["render"]})
	fmt.Fprintf(&b, "(* pkg/action/install.go: Install.isDryRun evaluated; what must hold of DryRun / DryRunOption / HideSecret for\n   RunWithContext to reach renderResources, and to reach a call that applies the release *)\n")
	fmt.Fprintf(&b, "Definition install_is_dry_run : bexp :=\n  %s.\n", dry("Install.isDryRun").coq())
	fmt.Fprintf(&b, "Definition install_render_reach : bexp :=\n  %s.\n", ir["render"].coq())
	fmt.Fprintf(&b, "Definition install_apply_reach : bexp :=\n  %s.\n", ir["apply"].coq())
	fmt.Fprintf(&b, "Definition install_render_args : list string := %s.\n\n", hx.CoqStrList(iargs))
	fmt.Fprintf(&b, "(* pkg/action/upgrade.go: the same for Upgrade.prepareUpgrade *)\n")
	fmt.Fprintf(&b, "Definition upgrade_is_dry_run : bexp :=\n  %s.\n", dry("Upgrade.isDryRun").coq())
	fmt.Fprintf(&b, "Definition upgrade_render_reach : bexp :=\n  %s.\n", ur["render"].coq())
	fmt.Fprintf(&b, "Definition upgrade_render_args : list string := %s.\n\n", hx.CoqStrList(uargs))
	// chart.go
	cp, err := c08LoadPkg(repo, "pkg/chart/v2")
	if err != nil {
		cp = &c08Pkg{fset: token.NewFileSet(), funcs: map[string]*ast.FuncDecl{}, byName: map[string][]*ast.FuncDecl{}, consts: map[string]string{}}
	}
	cr := c08RowsOf(cp, "Chart.CRDObjects", c08Suffixes("append"))
	fmt.Fprintf(&b, "(* pkg/chart/v2/chart.go CRDObjects (hasManifestExtension evaluated inside the condition) *)\nDefinition crd_rows : list row :=\n  %s.\n", c08CoqRows(cr))
	crdName := "<unknown: no Filename field in CRDObjects>"
	if fd := cp.funcs["Chart.CRDObjects"]; fd != nil {
		sc := c08FuncScope(cp, fd, "$recv", nil, 0)
		ast.Inspect(fd.Body, func(n ast.Node) bool {
			switch v := n.(type) {
			case *ast.RangeStmt:
				if id, ok := v.Value.(*ast.Ident); ok {
					if _, seen := sc.subst[id.Name]; !seen {
						sc.subst[id.Name] = "$elem"
					}
				}
			case *ast.KeyValueExpr:
				if k, ok := v.Key.(*ast.Ident); ok && k.Name == "Filename" {
					crdName = sc.canon(v.Value)
				}
			}
			return true
		})
	}
	fmt.Fprintf(&b, "Definition crd_filename : string := %s.\n", hx.CoqStr(crdName))
	_ = sort.Strings
	return b.String(), nil
}

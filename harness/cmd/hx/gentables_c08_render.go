package main

// Translator table for the rest of renderResources (coq/Text/Full.v), read out of /repo with
// go/ast: the format strings of the Fprintf calls in renderResources and writeToFile, the
// conditions that select NOTES.txt files, CRD files and hidden Secrets, the isDryRun
// conditions, the arguments install.go / upgrade.go pass to renderResources, and the order of
// the statements of Install.RunWithContext / Upgrade.prepareUpgrade that decide whether a
// rendered manifest can be applied (hide-secret guard, render, dry-run return, store/perform).
// It becomes coq/Gen/C08Render.v; Props/C08.v states what the model was transcribed from.

import (
	"bytes"
	"fmt"
	"go/ast"
	"go/printer"
	"go/token"
	"strings"

	"verif/harness/internal/hx"
)

func init() { registerTable("C08Render", genC08Render) }

func c08Src(fset *token.FileSet, n ast.Node) string {
	var b bytes.Buffer
	printer.Fprint(&b, fset, n)
	return strings.Join(strings.Fields(b.String()), " ")
}

// c08Func: the declaration of func (recv) name, recv == "" for a plain function
func c08Func(f *ast.File, recv, name string) *ast.FuncDecl {
	for _, d := range f.Decls {
		fd, ok := d.(*ast.FuncDecl)
		if !ok || fd.Name.Name != name {
			continue
		}
		r := ""
		if fd.Recv != nil && len(fd.Recv.List) == 1 {
			t := fd.Recv.List[0].Type
			if st, ok := t.(*ast.StarExpr); ok {
				t = st.X
			}
			if id, ok := t.(*ast.Ident); ok {
				r = id.Name
			}
		}
		if r == recv {
			return fd
		}
	}
	return nil
}

func c08CallsTo(n ast.Node, name string) []*ast.CallExpr {
	var out []*ast.CallExpr
	ast.Inspect(n, func(x ast.Node) bool {
		if c, ok := x.(*ast.CallExpr); ok {
			if fn, ok := selName(c.Fun); ok && fn == name {
				out = append(out, c)
			}
		}
		return true
	})
	return out
}

// c08ReturnsError: the block ends with a return whose last result is not the literal nil
func c08ReturnsError(b *ast.BlockStmt) bool {
	if len(b.List) == 0 {
		return false
	}
	r, ok := b.List[len(b.List)-1].(*ast.ReturnStmt)
	if !ok || len(r.Results) == 0 {
		return false
	}
	id, isIdent := r.Results[len(r.Results)-1].(*ast.Ident)
	return !(isIdent && id.Name == "nil")
}

// c08Skeleton tags the top-level statements of a function body that matter for "can a rendered
// manifest be applied": in source order.
func c08Skeleton(fset *token.FileSet, fd *ast.FuncDecl, recv string) []string {
	var tags []string
	for _, st := range fd.Body.List {
		if ifs, ok := st.(*ast.IfStmt); ok && ifs.Init == nil {
			cond := c08Src(fset, ifs.Cond)
			switch {
			case cond == "!"+recv+".isDryRun() && "+recv+".HideSecret" && c08ReturnsError(ifs.Body) && ifs.Else == nil:
				tags = append(tags, "hide-guard")
				continue
			case cond == recv+".isDryRun()" && ifs.Else == nil && len(ifs.Body.List) > 0:
				if r, ok := ifs.Body.List[len(ifs.Body.List)-1].(*ast.ReturnStmt); ok && len(r.Results) > 0 {
					if id, ok := r.Results[len(r.Results)-1].(*ast.Ident); ok && id.Name == "nil" {
						tags = append(tags, "dry-run-return")
						continue
					}
				}
			}
		}
		switch {
		case len(c08CallsTo(st, "renderResources")) > 0:
			tags = append(tags, "render")
		case len(c08CallsTo(st, "performInstallCtx")) > 0 || len(c08CallsTo(st, "performInstall")) > 0:
			tags = append(tags, "perform")
		}
	}
	return tags
}

func genC08Render(repo string) (string, error) {
	var b strings.Builder
	b.WriteString("From Helm Require Import Common.Strs.\n")
	af, afs, err := parseFile(repo, "pkg/action/action.go")
	if err != nil {
		return "", err
	}
	rr := c08Func(af, "Configuration", "renderResources")
	if rr == nil {
		return "", fmt.Errorf("renderResources not found")
	}
	var formats []string
	for _, c := range c08CallsTo(rr, "Fprintf") {
		if len(c.Args) >= 2 {
			if s, ok := strLit(c.Args[1]); ok {
				formats = append(formats, s)
			}
		}
	}
	fmt.Fprintf(&b, "(* pkg/action/action.go renderResources: the formats of its fmt.Fprintf calls, in source order *)\nDefinition render_formats : list string :=\n  %s.\n\n", hx.CoqStrList(formats))
	// conditions
	var hideCond, notesCond, notesSel, crdsFlag string
	var outDirTests []string
	ast.Inspect(rr, func(x ast.Node) bool {
		ifs, ok := x.(*ast.IfStmt)
		if !ok {
			return true
		}
		c := c08Src(afs, ifs.Cond)
		switch {
		case strings.Contains(c, "hideSecret"):
			hideCond = c
		case strings.Contains(c, "HasSuffix") && strings.Contains(c, "notesFileSuffix"):
			notesCond = c
		case strings.Contains(c, "subNotes"):
			notesSel = c
		case c == "includeCrds":
			crdsFlag = c
		case strings.Contains(c, "outputDir"):
			outDirTests = append(outDirTests, c)
		}
		return true
	})
	fmt.Fprintf(&b, "Definition hide_secret_condition : string := %s.\n", hx.CoqStr(hideCond))
	fmt.Fprintf(&b, "Definition notes_file_condition : string := %s.\n", hx.CoqStr(notesCond))
	fmt.Fprintf(&b, "Definition notes_selected_condition : string := %s.\n", hx.CoqStr(notesSel))
	fmt.Fprintf(&b, "Definition include_crds_condition : string := %s.\n", hx.CoqStr(crdsFlag))
	fmt.Fprintf(&b, "Definition output_dir_conditions : list string := %s.\n", hx.CoqStrList(outDirTests))
	// the NOTES key comparison
	var sortLess []string
	for _, c := range c08CallsTo(rr, "Slice") {
		if len(c.Args) == 2 {
			if fl, ok := c.Args[1].(*ast.FuncLit); ok {
				for _, st := range fl.Body.List {
					sortLess = append(sortLess, c08Src(afs, st))
				}
			}
		}
	}
	fmt.Fprintf(&b, "Definition notes_less : list string := %s.\n", hx.CoqStrList(sortLess))
	// the post-renderer call
	var prCall []string
	for _, c := range c08CallsTo(rr, "Run") {
		prCall = append(prCall, c08Src(afs, c))
	}
	fmt.Fprintf(&b, "Definition post_render_calls : list string := %s.\n\n", hx.CoqStrList(prCall))

	inf, ifs, err := parseFile(repo, "pkg/action/install.go")
	if err != nil {
		return "", err
	}
	wf := c08Func(inf, "", "writeToFile")
	if wf == nil {
		return "", fmt.Errorf("writeToFile not found")
	}
	var wformats, wjoin []string
	for _, c := range c08CallsTo(wf, "Fprintf") {
		if len(c.Args) >= 2 {
			if s, ok := strLit(c.Args[1]); ok {
				wformats = append(wformats, s)
			}
		}
	}
	for _, c := range c08CallsTo(wf, "Join") {
		wjoin = append(wjoin, c08Src(ifs, c))
	}
	fmt.Fprintf(&b, "(* pkg/action/install.go writeToFile / createOrOpenFile *)\nDefinition write_formats : list string := %s.\n", hx.CoqStrList(wformats))
	fmt.Fprintf(&b, "Definition write_path : list string := %s.\n", hx.CoqStrList(wjoin))
	cof := c08Func(inf, "", "createOrOpenFile")
	if cof == nil {
		return "", fmt.Errorf("createOrOpenFile not found")
	}
	var cofStmts []string
	for _, st := range cof.Body.List {
		cofStmts = append(cofStmts, c08Src(ifs, st))
	}
	fmt.Fprintf(&b, "Definition create_or_open : list string := %s.\n\n", hx.CoqStrList(cofStmts))

	// isDryRun, the skeletons and the arguments of renderResources
	dry := func(f *ast.File, fset *token.FileSet, recv string) (string, error) {
		fd := c08Func(f, recv, "isDryRun")
		if fd == nil || len(fd.Body.List) != 2 {
			return "", fmt.Errorf("%s.isDryRun: unexpected shape", recv)
		}
		is, ok := fd.Body.List[0].(*ast.IfStmt)
		if !ok || c08Src(fset, is.Body) != "{ return true }" || c08Src(fset, fd.Body.List[1]) != "return false" {
			return "", fmt.Errorf("%s.isDryRun: unexpected shape", recv)
		}
		return c08Src(fset, is.Cond), nil
	}
	args := func(fset *token.FileSet, fd *ast.FuncDecl) []string {
		var out []string
		for _, c := range c08CallsTo(fd, "renderResources") {
			for _, a := range c.Args {
				out = append(out, c08Src(fset, a))
			}
		}
		return out
	}
	idr, err := dry(inf, ifs, "Install")
	if err != nil {
		return "", err
	}
	run := c08Func(inf, "Install", "RunWithContext")
	if run == nil {
		return "", fmt.Errorf("Install.RunWithContext not found")
	}
	fmt.Fprintf(&b, "(* pkg/action/install.go *)\nDefinition install_is_dry_run : string := %s.\n", hx.CoqStr(idr))
	fmt.Fprintf(&b, "Definition install_skeleton : list string := %s.\n", hx.CoqStrList(c08Skeleton(ifs, run, "i")))
	fmt.Fprintf(&b, "Definition install_render_args : list string := %s.\n\n", hx.CoqStrList(args(ifs, run)))
	uf, ufs, err := parseFile(repo, "pkg/action/upgrade.go")
	if err != nil {
		return "", err
	}
	udr, err := dry(uf, ufs, "Upgrade")
	if err != nil {
		return "", err
	}
	prep := c08Func(uf, "Upgrade", "prepareUpgrade")
	if prep == nil {
		return "", fmt.Errorf("Upgrade.prepareUpgrade not found")
	}
	fmt.Fprintf(&b, "(* pkg/action/upgrade.go *)\nDefinition upgrade_is_dry_run : string := %s.\n", hx.CoqStr(udr))
	fmt.Fprintf(&b, "Definition upgrade_skeleton : list string := %s.\n", hx.CoqStrList(c08Skeleton(ufs, prep, "u")))
	fmt.Fprintf(&b, "Definition upgrade_render_args : list string := %s.\n\n", hx.CoqStrList(args(ufs, prep)))

	cf, cfs, err := parseFile(repo, "pkg/chart/v2/chart.go")
	if err != nil {
		return "", err
	}
	co := c08Func(cf, "Chart", "CRDObjects")
	hme := c08Func(cf, "", "hasManifestExtension")
	if co == nil || hme == nil {
		return "", fmt.Errorf("CRDObjects / hasManifestExtension not found")
	}
	crdCond, crdName, extRet := "", "", ""
	ast.Inspect(co, func(x ast.Node) bool {
		switch v := x.(type) {
		case *ast.IfStmt:
			crdCond = c08Src(cfs, v.Cond)
		case *ast.KeyValueExpr:
			if k, ok := v.Key.(*ast.Ident); ok && k.Name == "Filename" {
				crdName = c08Src(cfs, v.Value)
			}
		}
		return true
	})
	ast.Inspect(hme, func(x ast.Node) bool {
		if r, ok := x.(*ast.ReturnStmt); ok && len(r.Results) == 1 {
			extRet = c08Src(cfs, r.Results[0])
		}
		return true
	})
	fmt.Fprintf(&b, "(* pkg/chart/v2/chart.go CRDObjects / hasManifestExtension *)\nDefinition crd_file_condition : string := %s.\n", hx.CoqStr(crdCond))
	fmt.Fprintf(&b, "Definition crd_filename : string := %s.\n", hx.CoqStr(crdName))
	fmt.Fprintf(&b, "Definition manifest_extension_test : string := %s.\n", hx.CoqStr(extRet))
	return b.String(), nil
}

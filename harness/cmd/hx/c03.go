package main

// C03 — a failed operation is contained; --atomic restores the last good state.
// Histories = prefix of 0-4 real operations followed by one install / upgrade / rollback that
// carries exactly ONE cluster-side fault (a rejected create / patch / delete / get of one
// resource, the readiness wait failing, the n-th watch of one hook failing), enumerated over
// every fault position of that operation and the flag combinations atomic / cleanup-on-fail /
// no-hooks.  The prefix is fault-free, or every operation of it carries a single fault of its
// own (c03_multi.go: failed upgrades / rollbacks / installs, a crashed and recovered upgrade),
// so that the operation under test starts from the ledgers failures leave behind.  The ledger,
// the cluster objects, the outcome class and the trace of EVERY step are compared with
// Engine/Seq.v; the property clauses are evaluated directly on the observations by
// c03_oracle.go, the "most recent revision that had been deployed" being tracked over the whole
// history.

import (
	"encoding/json"
	"fmt"
	"math/rand"

	"verif/harness/internal/eng"
	"verif/harness/internal/hx"
)

func init() { hx.Register("c03", func() hx.Property { return &c03{} }) }

type c03 struct{}

func (*c03) ID() string { return "C03" }
func (*c03) CoqImport() string {
	return "From Helm Require Import Engine.Types Engine.Eff Engine.Ops Engine.Cluster Engine.Seq Run.RunC03."
}

func (*c03) Rule() string {
	return "enumerated part: install {a,b,s}+3 hooks then upgrade to {a',c} (drops b,s; adds c) / install alone, the last operation carrying every single " +
		"fault position (every resource key of the old and new manifest x {create,patch,delete,get}, every hook x watch 0/1, the wait with and without " +
		"wait-for-jobs) x every combination of atomic / cleanup-on-fail / no-hooks; install, upgrade, then rollback with every position x cleanup/no-hooks; " +
		"histories with SEVERAL faulted operations: 11 prefixes that end in the ledgers failed operations leave behind (failed rollback by update / wait / hook, " +
		"uninstall --keep-history + failed install --replace, failed first install, failed upgrade + failed rollback, two failed upgrades, K6 abort, crash + " +
		"rollback, restored atomic upgrade, failed then successful upgrade; five of them without a deployed revision or with a superseded revision that was " +
		"never deployed) x atomic / non-atomic / cleanup upgrade, rollback, install --replace with wait / patch / create / hook faults (thorough: every position " +
		"x every flag set); generated part: prefix of 0-4 operations from eng.GenHistory (5-resource pool, <=3 hooks, random flags), fault-free in one half and " +
		"with a cluster fault of its own on 3/4 of the operations in the other half, then install (1/5) / upgrade (3/5) / rollback (1/5) with <=4 resources, " +
		"<=3 hooks, random atomic/cleanup/no-hooks and one fault position drawn uniformly; no keep annotations, no storage faults, crashes only in the " +
		"crash-rb prefix; non-trivial = the fault of the last faulted operation was hit (a request was rejected, the wait or the hook watch failed)"
}

func (*c03) Decode(raw json.RawMessage) (any, error) {
	var h eng.History
	err := json.Unmarshal(raw, &h)
	return h, err
}

func (*c03) Execute(ci any) any        { return c12Execute(ci.(eng.History)) }
func (*c03) CoqCase(ci, oi any) string { return eng.CoqCase(ci.(eng.History), oi.(c12Obs).Obs) }

var c03Hooks = []eng.Hook{
	hk("h1", 0, []string{"pre-install", "pre-upgrade", "pre-rollback"}, "hook-succeeded"),
	hk("h2", 1, []string{"post-install", "post-upgrade", "post-rollback"}, "before-hook-creation", "hook-failed"),
	hk("h3", 2, []string{"pre-upgrade", "post-upgrade", "pre-delete"}),
}

func (*c03) Corpus() []any {
	var out []any
	ab := func(f eng.Flags) *eng.Op { return c12Op("install", 1, f, nil, "a", "b") }
	// K6: install {a,b}; upgrade --atomic to {a'} with PATCH a rejected => 1:deployed 2:superseded 3:failed
	out = append(out, hist(ab(eng.Flags{}), withK(c12Op("upgrade", 2, eng.Flags{Atomic: true}, nil, "a"), "patch", "ConfigMap/a")))
	// K6': the same abort after a failing pre-upgrade hook (nothing was changed, yet the rollback aborts on b)
	out = append(out, hist(ab(eng.Flags{}), withH(c12Op("upgrade", 2, eng.Flags{Atomic: true}, c03Hooks, "a"), "h1", 0)))
	// K7: install {a,b}; upgrade to {a'} with DELETE b rejected => success, b remains
	out = append(out, hist(ab(eng.Flags{}), withK(c12Op("upgrade", 2, eng.Flags{}, nil, "a"), "delete", "ConfigMap/b")))
	// K7': the GET of the deletion phase rejected; and the same in a rollback
	out = append(out, hist(ab(eng.Flags{}), withK(c12Op("upgrade", 2, eng.Flags{}, nil, "a"), "get", "ConfigMap/b")))
	out = append(out, hist(ab(eng.Flags{}), c12Op("upgrade", 2, eng.Flags{}, nil, "a", "c"),
		withK(c12Op("rollback", 0, eng.Flags{}, nil), "delete", "ConfigMap/c")))
	// F5 (fixed in /repo 34832b0): failing pre- / post-rollback hook must leave the new revision failed, not pending-rollback
	inst := c12Op("install", 1, eng.Flags{}, c03Hooks, "a", "b")
	up := c12Op("upgrade", 2, eng.Flags{}, c03Hooks, "a", "c")
	out = append(out, hist(inst, up, withH(c12Op("rollback", 0, eng.Flags{}, nil), "h1", 0)))
	out = append(out, hist(inst, up, withH(c12Op("rollback", 0, eng.Flags{}, nil), "h2", 0), c12Op("upgrade", 3, eng.Flags{}, nil, "a")))
	// atomic upgrade that restores; atomic install that removes everything; cleanup-on-fail
	w := *c12Op("upgrade", 2, eng.Flags{Atomic: true}, c03Hooks, "a", "b", "c")
	w.WaitFail = true
	out = append(out, hist(inst, &w))
	out = append(out, hist(withK(c12Op("install", 1, eng.Flags{Atomic: true}, c03Hooks, "a", "b"), "create", "ConfigMap/b")))
	out = append(out, hist(inst, withK(c12Op("upgrade", 2, eng.Flags{Cleanup: true}, nil, "a", "c", "d"), "create", "ConfigMap/d")))
	// the witness of C03_atomic_upgrade: install {a,b}; upgrade --atomic --no-hooks to {a',b',c} with PATCH b rejected => restored
	out = append(out, hist(ab(eng.Flags{}), withK(c12Op("upgrade", 2, eng.Flags{Atomic: true, NoHooks: true}, nil, "a", "b", "c"), "patch", "ConfigMap/b")))
	// ... and of C03_atomic_install_any_history: a failed install left 1:failed and a; install --replace --atomic {a',b}, CREATE b rejected
	out = append(out, hist(withK(c12Op("install", 1, eng.Flags{}, nil, "a", "c"), "create", "ConfigMap/c"),
		withK(c12Op("install", 2, eng.Flags{Atomic: true, Replace: true}, nil, "a", "b"), "create", "ConfigMap/b")))
	// the readiness wait failing in the WaitWithJobs branch of rollback / upgrade / install (secret backend: the
	// records are serialised, so a status that is only set in memory does not reach the ledger)
	wfj := func(op *eng.Op) *eng.Op { o := *op; o.WaitFail = true; o.Flags.WaitForJobs = true; return &o }
	out = append(out, hist(inst, up, wfj(c12Op("rollback", 0, eng.Flags{}, nil))))
	out = append(out, hist(inst, wfj(c12Op("upgrade", 2, eng.Flags{}, c03Hooks, "a", "c"))))
	out = append(out, hist(wfj(c12Op("install", 1, eng.Flags{}, c03Hooks, "a", "b"))))
	// rollback (excluded from "previous stays deployed"): PATCH a rejected => 1:superseded 2:superseded 3:failed
	out = append(out, hist(c12Op("install", 1, eng.Flags{}, nil, "a"), c12Op("upgrade", 2, eng.Flags{}, nil, "a"),
		withK(c12Op("rollback", 0, eng.Flags{}, nil), "patch", "ConfigMap/a")))
	// K9: the hook hx runs on pre-install and on pre-delete and is never deleted (hook-failed only): the install fails
	// (CREATE a rejected), the automatic uninstall cannot create hx again (409) and aborts: history 1:uninstalling
	k9 := []eng.Hook{hk("hx", 0, []string{"pre-install", "pre-delete"}, "hook-failed")}
	out = append(out, hist(withK(c12Op("install", 1, eng.Flags{Atomic: true}, k9, "a"), "create", "ConfigMap/a")))
	// ---- histories with more than one fault ----
	a1 := c12Op("install", 1, eng.Flags{}, nil, "a")
	a2 := c12Op("upgrade", 2, eng.Flags{}, nil, "a")
	a4 := func(f eng.Flags) *eng.Op { o := *c12Op("upgrade", 4, f, nil, "a"); o.WaitFail = true; return &o }
	// no revision is deployed when the atomic upgrade fails: install; upgrade; rollback with PATCH a rejected
	// (1:superseded 2:superseded 3:failed); upgrade --atomic whose wait fails => 5:deployed with the manifest of 2,
	// the most recent revision that had been deployed (seeded C03-7 narrows the candidates to deployed ones)
	out = append(out, hist(a1, a2, withK(c12Op("rollback", 0, eng.Flags{}, nil), "patch", "ConfigMap/a"), a4(eng.Flags{Atomic: true})))
	// ... and the non-atomic upgrade on the same ledger: 4:failed, nothing else changes
	out = append(out, hist(a1, a2, withK(c12Op("rollback", 0, eng.Flags{}, nil), "patch", "ConfigMap/a"), a4(eng.Flags{})))
	// K11: install; upgrade whose wait fails (2:failed, never deployed); rollback to 1 with PATCH a rejected marks the
	// CURRENT revision 2 superseded; upgrade --atomic whose wait fails rolls back to 2, not to 1
	a2f := *a2
	a2f.WaitFail = true
	out = append(out, hist(a1, &a2f, withK(c12Op("rollback", 0, eng.Flags{Version: 1}, nil), "patch", "ConfigMap/a"), a4(eng.Flags{Atomic: true})))
	// K12: the same ledger without a deployed revision, upgrade --atomic --history-max 2 whose wait fails: the upgrade prunes
	// revisions 1 and 2 (only a deployed revision is spared), nothing is left to roll back to: 3:failed 4:failed
	out = append(out, hist(a1, a2, withK(c12Op("rollback", 0, eng.Flags{}, nil), "patch", "ConfigMap/a"), a4(eng.Flags{Atomic: true, MaxHistory: 2})))
	// two failed non-atomic operations in a row (the witness of C03_history_contained_example): 1:deployed 2:failed 3:failed
	out = append(out, hist(ab(eng.Flags{}), withK(c12Op("upgrade", 2, eng.Flags{}, nil, "a", "c"), "create", "ConfigMap/c"),
		a4(eng.Flags{})))
	// ---- a hook object left over from an earlier run (no before-hook-creation): its creation is refused with 409, the
	// operation must fail and record its revision failed, the deployed revision stays (seeded C03-9 tolerates the 409) ----
	lo := func(name string, ev []string, pol ...string) []eng.Hook { return []eng.Hook{hk(name, 0, ev, pol...)} }
	u := func(chart int, hs []eng.Hook) *eng.Op { return c12Op("upgrade", chart, eng.Flags{}, hs, "a") }
	// hook-failed only: a successful run leaves hp behind; the second upgrade cannot create it again
	hpf := lo("hp", []string{"pre-upgrade"}, "hook-failed")
	out = append(out, hist(c12Op("install", 1, eng.Flags{}, hpf, "a"), u(2, hpf), u(3, hpf), u(4, hpf)))
	// hook-succeeded with a failing first run: hs stays; the next upgrade is refused as well
	hss := lo("hs", []string{"pre-upgrade"}, "hook-succeeded")
	out = append(out, hist(c12Op("install", 1, eng.Flags{}, hss, "a"), withH(u(2, hss), "hs", 0), u(3, hss)))
	// the same in a rollback (pre-rollback hook, hook-failed only): the second rollback fails
	hrf := lo("hr", []string{"pre-rollback"}, "hook-failed")
	out = append(out, hist(c12Op("install", 1, eng.Flags{}, hrf, "a"), u(2, hrf), c12Op("rollback", 0, eng.Flags{}, nil), c12Op("rollback", 0, eng.Flags{}, nil)))
	// ... and in an uninstall: hd ran on pre-upgrade and is due again on pre-delete
	hdf := lo("hd", []string{"pre-upgrade", "pre-delete"}, "hook-failed")
	out = append(out, hist(c12Op("install", 1, eng.Flags{}, hdf, "a"), u(2, hdf), c12Op("uninstall", 0, eng.Flags{}, nil)))
	// ---- witnesses of the round-4 forms of the atomic-upgrade theorem ----
	// C03_atomic_upgrade_hooks: hooks enabled; hp runs on pre- and post-upgrade with the default policy; PATCH b rejected => restored
	hp := []eng.Hook{hk("hp", 0, []string{"pre-upgrade", "post-upgrade"})}
	out = append(out, hist(c12Op("install", 1, eng.Flags{}, hp, "a", "b"),
		withK(c12Op("upgrade", 2, eng.Flags{Atomic: true}, hp, "a", "b", "c"), "patch", "ConfigMap/b")))
	// ... and with well-behaved ROLLBACK hooks in the revision rolled back to (hr on pre- and post-rollback, default policy)
	hr := []eng.Hook{hk("hr", 0, []string{"pre-rollback", "post-rollback"})}
	out = append(out, hist(c12Op("install", 1, eng.Flags{}, hr, "a", "b"),
		withK(c12Op("upgrade", 2, eng.Flags{Atomic: true}, hr, "a", "b"), "patch", "ConfigMap/b")))
	// after the deletion phase: install {a,b}; upgrade --atomic to {a'} (drops b) whose WAIT fails => b is created again (no K6)
	ad := *c12Op("upgrade", 2, eng.Flags{Atomic: true}, nil, "a")
	ad.WaitFail = true
	out = append(out, hist(ab(eng.Flags{}), &ad))
	// history limit: 1:superseded 2:superseded 3:deployed; upgrade --atomic --history-max 2 whose wait fails => 3:superseded 4:failed 5:deployed
	hl := *c12Op("upgrade", 4, eng.Flags{Atomic: true, MaxHistory: 2}, nil, "a")
	hl.WaitFail = true
	out = append(out, hist(a1, a2, c12Op("upgrade", 3, eng.Flags{}, nil, "a"), &hl))
	// a failing post-upgrade hook (deleted on failure), no rollback hooks in revision 1 => restored
	hq := []eng.Hook{hk("hq", 0, []string{"post-upgrade"}, "hook-failed")}
	out = append(out, hist(ab(eng.Flags{}), withH(c12Op("upgrade", 2, eng.Flags{Atomic: true}, hq, "a", "b"), "hq", 0)))
	return out
}

func (*c03) Exhaustive(tier string) []any { return c03Exhaustive(tier) }

func (*c03) Generate(r *rand.Rand, _ int) any { return c03Gen(r) }

func c03Last(h eng.History) (int, *eng.Op) {
	for i := len(h.Steps) - 1; i >= 0; i-- {
		if op := h.Steps[i].Op; op != nil && (op.KFault != nil || op.HFault != nil || op.WaitFail) {
			return i, op
		}
	}
	return -1, nil
}

func (*c03) Class(ci, oi any) string {
	h, o := ci.(eng.History), oi.(c12Obs)
	i, op := c03Last(h)
	if op == nil {
		return "nofault"
	}
	f := ""
	switch {
	case op.KFault != nil:
		f = op.KFault.Verb
	case op.HFault != nil:
		f = "hook"
	default:
		f = "wait"
	}
	fl := ""
	if op.Flags.Atomic {
		fl += "A"
	}
	if op.Flags.Cleanup {
		fl += "C"
	}
	if op.Flags.NoHooks {
		fl += "N"
	}
	hit := "miss"
	if i < len(o.Steps) && c03Hit(op, o.Steps[i], o.Reqs[i]) {
		hit = "hit"
	}
	// histories with several faulted operations: marked, with whether a revision was deployed when the last one started
	label := fmt.Sprintf("%s/%s/%s/%s", op.Kind, f, fl, hit)
	if c03FaultCount(h) < 2 {
		return label
	}
	dep := "nodep"
	if i > 0 && i-1 < len(o.Steps) {
		for _, r := range o.Steps[i-1].Ledger {
			if r.Status == "deployed" {
				dep = "dep"
			}
		}
	}
	return label + "/multi-" + dep
}

func (*c03) NonTrivial(ci, oi any) bool {
	h, o := ci.(eng.History), oi.(c12Obs)
	i, op := c03Last(h)
	return op != nil && i < len(o.Steps) && c03Hit(op, o.Steps[i], o.Reqs[i])
}

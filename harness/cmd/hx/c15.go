package main

// C15 — packaging and loading a chart preserves its content.
//
// Kinds of cases:
//   rt     a generated in-memory chart → real chartutil.Save → loader.Load(.tgz) and
//          chartutil.SaveDir → loader.Load(dir); compared field by field with the original
//          (runtime oracle) and with Chart/Save.v + Chart/Load.v (correspondence).
//   files  an arbitrary list of (name, data) → real loader.LoadFiles; the model's
//          classification of every name against the result.
//   dir    a directory tree with a .helmignore → real loader.LoadDir and action.Package.Run;
//          ignored files must not reach the archive; invalid name/version must not package.
//
// YAML/JSON/semver/tar/.helmignore matching are third-party for the model: the harness
// tabulates the answers of the real libraries for every query the model can make (c15_oracle.go).

import (
	"archive/tar"
	"bytes"
	"compress/gzip"
	"encoding/json"
	"fmt"
	"io"
	"os"
	"path/filepath"
	"runtime/debug"
	"sort"
	"strings"

	"github.com/Masterminds/semver/v3"

	"helm.sh/helm/v4/pkg/action"
	chart "helm.sh/helm/v4/pkg/chart/v2"
	"helm.sh/helm/v4/pkg/chart/v2/loader"
	chartutil "helm.sh/helm/v4/pkg/chart/v2/util"

	"verif/harness/internal/hx"
)

func init() { hx.Register("c15", func() hx.Property { return &c15{} }) }

type c15 struct{}

type c15File struct {
	Name string `json:"name"`
	Data []byte `json:"data"`
}

// c15Chart is the specification of an in-memory chart.
type c15Chart struct {
	Meta      *chart.Metadata `json:"meta"`
	Lock      *chart.Lock     `json:"lock,omitempty"`
	Values    []byte          `json:"values,omitempty"` // raw values.yaml; nil = none
	HasValues bool            `json:"has_values,omitempty"`
	Schema    []byte          `json:"schema,omitempty"`
	HasSchema bool            `json:"has_schema,omitempty"`
	Templates []c15File       `json:"templates,omitempty"`
	Files     []c15File       `json:"files,omitempty"`
	Deps      []*c15Chart     `json:"deps,omitempty"`
}

type c15Case struct {
	Kind       string    `json:"kind"`
	Chart      *c15Chart `json:"chart,omitempty"`       // rt
	Files      []c15File `json:"files,omitempty"`       // files / dir (dir: includes Chart.yaml and .helmignore)
	PkgVersion string    `json:"pkg_version,omitempty"` // dir: --version override
	MaxFile    int64     `json:"max_file,omitempty"`    // loader.MaxDecompressedFileSize for this case (0 = default)
	Pat        []byte    `json:"pat,omitempty"`         // match: the pattern (bytes: need not be UTF-8)
	Names      [][]byte  `json:"names,omitempty"`       // match: the names it is tried on
	Ex         bool      `json:"ex,omitempty"`
	Rows       [][]byte  `json:"rows,omitempty"`        // matchex: patterns, each tried on the fixed name list
	Note       string    `json:"note,omitempty"`
}

// c15PChart is a loaded chart projected to what is compared.
type c15PChart struct {
	Meta      *chart.Metadata        `json:"meta"`
	Lock      *chart.Lock            `json:"lock,omitempty"`
	Raw       []c15File              `json:"raw"`
	Values    map[string]interface{} `json:"values"`
	ValuesNil bool                   `json:"values_nil"`
	Schema    []byte                 `json:"schema"`
	SchemaNil bool                   `json:"schema_nil"`
	Templates []c15File              `json:"templates"`
	Files     []c15File              `json:"files"`
	Deps      []*c15PChart           `json:"deps"`
}

type c15Ent struct {
	Name string `json:"name"`
	Type byte   `json:"type"`
	Mode int64  `json:"mode"`
	Size int64  `json:"size"`
	Data []byte `json:"data"`
}

type c15Obs struct {
	SaveErr    string     `json:"save_err,omitempty"`
	SaveName   string     `json:"save_name,omitempty"`
	Saved      []c15Ent   `json:"saved,omitempty"`
	LoadErr    string     `json:"load_err,omitempty"`
	Loaded     *c15PChart `json:"loaded,omitempty"`
	SaveDirErr string     `json:"savedir_err,omitempty"`
	Tree       []c15File  `json:"tree,omitempty"`
	DirErr     string     `json:"dir_err,omitempty"`
	DirLoaded  *c15PChart `json:"dir_loaded,omitempty"`
	Orig       *c15PChart `json:"orig,omitempty"` // the original after Save (Validate sanitises in place)
	PkgErr     string     `json:"pkg_err,omitempty"`
	Packaged   []c15Ent   `json:"packaged,omitempty"`
	PkgFiles   []string   `json:"pkg_files,omitempty"` // what appeared in the destination directory
	Ignored    []string   `json:"ignored,omitempty"`   // dir: paths excluded by the real rules (files, incl. below ignored dirs)
	IgnoreErr  bool       `json:"ignore_err,omitempty"`
	ValidIgn   []string   `json:"valid_ignored,omitempty"` // .helmignore with a rejected line: files its valid rules exclude
	Wf         bool       `json:"wf"`
	MatchRes   string     `json:"match_res,omitempty"` // match: y/n/e per name
	IgnRes     string     `json:"ign_res,omitempty"`   // match: the pattern as a .helmignore line, i/k per (name, file|dir)
	RowRes     []string   `json:"row_res,omitempty"`   // matchex
	Oracle     *c15Oracle `json:"-"`
	Panic      string     `json:"panic,omitempty"`
}

func (*c15) ID() string { return "C15" }
func (*c15) CoqImport() string {
	return "From Helm Require Import Values.Tree Chart.Esc Chart.Paths Chart.Archive Chart.Files Chart.Load Run.RunC15."
}
func (*c15) Rule() string {
	return "rt: generated charts (metadata with arbitrary/unicode/unprintable fields, apiVersion v1/v2/other, valid and invalid names and versions, " +
		"locks, values with comments/multi-doc/BOM, schemas, 0-4 templates and 0-5 files with nested/unicode/dot names and binary content, BOMs, " +
		"0-2 dependencies nested to depth 2; one case in five deliberately outside the well-formed charts) through Save+Load and SaveDir+Load; " +
		"files: 1-9 names from the reserved/near-reserved name pool through LoadFiles; dir: directory trees with .helmignore rule sets over the " +
		"documented syntax (partly derived from the generated tree) through LoadDir and Package.Run; " +
		"round 4: dependency names that collide as prefixes or by case, archives nested 2-3 levels, shuffled real trees through LoadFiles, " +
		".prov files at several depths, SaveDir's tree compared with the model; match: (pattern, names) through filepath.Match and " +
		"ignore.Parse/Rules.Ignore (structured + malformed + exhaustive short patterns). non-trivial = a chart was loaded (rt/files/dir), " +
		"a pattern matched a name (match); distinct = hash of (case, observation)"
}

// ---------------------------------------------------------------- building real charts

func c15CopyMeta(m *chart.Metadata) *chart.Metadata {
	if m == nil {
		return nil
	}
	b, _ := json.Marshal(m)
	out := new(chart.Metadata)
	json.Unmarshal(b, out)
	return out
}

func c15CopyLock(l *chart.Lock) *chart.Lock {
	if l == nil {
		return nil
	}
	b, _ := json.Marshal(l)
	out := new(chart.Lock)
	json.Unmarshal(b, out)
	return out
}

func c15Build(s *c15Chart) *chart.Chart {
	c := &chart.Chart{Metadata: c15CopyMeta(s.Meta), Lock: c15CopyLock(s.Lock)}
	if s.HasValues {
		data := append([]byte{}, s.Values...)
		c.Raw = append(c.Raw, &chart.File{Name: "values.yaml", Data: data})
		if v, err := loader.LoadValues(bytes.NewReader(bytes.TrimPrefix(data, []byte{0xEF, 0xBB, 0xBF}))); err == nil {
			c.Values = v
		}
	}
	if s.HasSchema {
		c.Schema = append([]byte{}, s.Schema...)
	}
	for _, f := range s.Templates {
		c.Templates = append(c.Templates, &chart.File{Name: f.Name, Data: append([]byte{}, f.Data...)})
	}
	for _, f := range s.Files {
		c.Files = append(c.Files, &chart.File{Name: f.Name, Data: append([]byte{}, f.Data...)})
	}
	for _, d := range s.Deps {
		c.AddDependency(c15Build(d))
	}
	return c
}

func c15PFiles(fs []*chart.File) []c15File {
	out := []c15File{}
	for _, f := range fs {
		out = append(out, c15File{Name: f.Name, Data: append([]byte{}, f.Data...)})
	}
	return out
}

func c15Project(c *chart.Chart) *c15PChart {
	if c == nil {
		return nil
	}
	p := &c15PChart{Meta: c15CopyMeta(c.Metadata), Lock: c15CopyLock(c.Lock), Raw: c15PFiles(c.Raw), Values: c.Values, ValuesNil: c.Values == nil,
		Schema: append([]byte{}, c.Schema...), SchemaNil: c.Schema == nil, Templates: c15PFiles(c.Templates), Files: c15PFiles(c.Files), Deps: []*c15PChart{}}
	for _, d := range c.Dependencies() {
		p.Deps = append(p.Deps, c15Project(d))
	}
	return p
}

func c15LoadErrClass(err error) string {
	if err == nil {
		return ""
	}
	s := err.Error()
	switch {
	case strings.Contains(s, "error unpacking subchart"):
		return "sub"
	case strings.Contains(s, "cannot load Chart.yaml"):
		return "meta"
	case strings.Contains(s, "cannot load Chart.lock"), strings.Contains(s, "cannot load requirements.lock"):
		return "lock"
	case strings.Contains(s, "cannot load values.yaml"):
		return "values"
	case strings.Contains(s, "cannot load requirements.yaml"):
		return "req"
	case strings.Contains(s, "Chart.yaml file is missing"):
		return "missing"
	case strings.HasPrefix(s, "validation:"):
		return "invalid"
	case strings.Contains(s, "is larger than the maximum file size") && strings.HasPrefix(s, "chart file"):
		return "dirtoobig"
	}
	if cls := c16ErrClassC15(s); cls != "" {
		return "archive:" + cls
	}
	return "other"
}

// archive error classes (same strings as pkg/chart/v2/loader/archive.go)
func c16ErrClassC15(s string) string {
	switch {
	case strings.Contains(s, "illegally contains absolute paths"):
		return "abs"
	case strings.Contains(s, "content outside the base directory"):
		return "outside"
	case strings.Contains(s, "illegally references parent directory"):
		return "parent"
	case strings.Contains(s, "illegally named files"):
		return "drive"
	case strings.Contains(s, "chart yaml not in base directory"):
		return "chartbase"
	case strings.Contains(s, "larger than the maximum file size"):
		return "file"
	case strings.Contains(s, "larger than the maximum size"):
		return "total"
	case strings.Contains(s, "no files in chart archive"):
		return "nofiles"
	}
	return ""
}

func c15ScanTgz(data []byte) (ents []c15Ent, ok bool) {
	zr, err := gzip.NewReader(bytes.NewReader(data))
	if err != nil {
		return nil, false
	}
	tr := tar.NewReader(zr)
	for {
		hd, err := tr.Next()
		if err == io.EOF {
			return ents, true
		}
		if err != nil {
			return ents, false
		}
		b, err := io.ReadAll(tr)
		if err != nil {
			return ents, false
		}
		ents = append(ents, c15Ent{Name: hd.Name, Type: hd.Typeflag, Mode: hd.Mode, Size: hd.Size, Data: b})
	}
}

// c15ListTree lists the regular files below root (relative slash paths), sorted.
func c15ListTree(root string) []c15File {
	var out []c15File
	filepath.Walk(root, func(p string, fi os.FileInfo, err error) error {
		if err != nil || fi.IsDir() {
			return nil
		}
		rel, _ := filepath.Rel(root, p)
		b, _ := os.ReadFile(p)
		out = append(out, c15File{Name: filepath.ToSlash(rel), Data: b})
		return nil
	})
	sort.Slice(out, func(i, j int) bool { return out[i].Name < out[j].Name })
	return out
}

// ---------------------------------------------------------------- execute

// c15MaxFile: the per-file limit of the case being executed (0 = default), for the oracle table
var c15MaxFile int64

func (p *c15) Execute(ci any) (out any) {
	c := ci.(c15Case)
	defer func() {
		if r := recover(); r != nil {
			out = c15Obs{Panic: fmt.Sprint(r) + "\n" + string(debug.Stack())}
		}
	}()
	tmp, err := os.MkdirTemp("", "c15-")
	if err != nil {
		return c15Obs{Panic: "mkdtemp: " + err.Error()}
	}
	defer os.RemoveAll(tmp)
	// the per-file limit is a package variable: lowered for boundary cases, restored afterwards
	if c.MaxFile > 0 {
		old := loader.MaxDecompressedFileSize
		loader.MaxDecompressedFileSize = c.MaxFile
		defer func() { loader.MaxDecompressedFileSize = old }()
	}
	c15MaxFile = c.MaxFile
	var obs c15Obs
	switch c.Kind {
	case "rt":
		obs = c15ExecRt(&c, tmp)
	case "files":
		obs = c15ExecFiles(&c)
	case "dir":
		obs = c15ExecDir(&c, tmp)
	case "match":
		obs = c15ExecMatch(&c)
	case "matchex":
		obs = c15ExecMatchEx(&c)
	}
	return obs
}

func c15ExecRt(c *c15Case, tmp string) (obs c15Obs) {
	obs.Wf = c15Wf(c.Chart, true)
	orc := newC15Oracle()
	orc.addSpec(c.Chart)
	ch := c15Build(c.Chart)
	path, err := chartutil.Save(ch, filepath.Join(tmp, "out"))
	obs.Orig = c15SanitizeP(c15Project(ch))
	if err != nil {
		obs.SaveErr = "error"
	} else {
		obs.SaveName = filepath.Base(path)
		raw, _ := os.ReadFile(path)
		ents, ok := c15ScanTgz(raw)
		if !ok {
			obs.SaveErr = "unreadable"
		}
		obs.Saved = ents
		for _, e := range ents {
			orc.addFile(e.Name, e.Data)
		}
		if afs, err := loader.LoadArchiveFiles(bytes.NewReader(raw)); err == nil {
			var lvl []c15File
			for _, af := range afs {
				lvl = append(lvl, c15File{Name: af.Name, Data: af.Data})
			}
			orc.addLevel(lvl, 0)
		}
		l, err := loader.Load(path)
		obs.LoadErr = c15LoadErrClass(err)
		if err == nil {
			obs.Loaded = c15Project(l)
			orc.addChart(l)
		}
	}
	ch2 := c15Build(c.Chart)
	if err := chartutil.SaveDir(ch2, filepath.Join(tmp, "dir")); err != nil {
		obs.SaveDirErr = "error"
	} else {
		root := filepath.Join(tmp, "dir", ch2.Name())
		obs.Tree = c15ListTree(root)
		for _, f := range obs.Tree {
			orc.addFile(f.Name, f.Data)
		}
		obs.IgnoreErr = orc.addIgnore(root, obs.Tree)
		obs.Ignored = orc.ignoredFiles
		orc.addLevel(c15Kept(obs.Tree, obs.Ignored), 0)
		l, err := loader.Load(root)
		obs.DirErr = c15LoadErrClass(err)
		if err == nil {
			obs.DirLoaded = c15Project(l)
			orc.addChart(l)
		} else if obs.IgnoreErr {
			obs.DirErr = "ignore"
		}
	}
	orc.close()
	obs.Oracle = orc
	return obs
}

func c15ExecFiles(c *c15Case) (obs c15Obs) {
	orc := newC15Oracle()
	orc.addLevel(c.Files, 0)
	var bfs []*loader.BufferedFile
	for _, f := range c.Files {
		orc.addFile(f.Name, f.Data)
		data := make([]byte, len(f.Data)) // never nil
		copy(data, f.Data)
		bfs = append(bfs, &loader.BufferedFile{Name: f.Name, Data: data})
	}
	l, err := loader.LoadFiles(bfs)
	obs.LoadErr = c15LoadErrClass(err)
	if err == nil {
		obs.Loaded = c15Project(l)
		orc.addChart(l)
	}
	orc.close()
	obs.Oracle = orc
	return obs
}

func c15ExecDir(c *c15Case, tmp string) (obs c15Obs) {
	orc := newC15Oracle()
	root := filepath.Join(tmp, "src", "thechart")
	os.MkdirAll(root, 0o755)
	for _, f := range c.Files {
		p := filepath.Join(root, filepath.FromSlash(f.Name))
		if err := os.MkdirAll(filepath.Dir(p), 0o755); err != nil {
			continue
		}
		os.WriteFile(p, f.Data, 0o644)
	}
	obs.Tree = c15ListTree(root)
	for _, f := range obs.Tree {
		orc.addFile(f.Name, f.Data)
	}
	obs.IgnoreErr = orc.addIgnore(root, obs.Tree)
	obs.Ignored = orc.ignoredFiles
	obs.ValidIgn = orc.validIgnored
	orc.addLevel(c15Kept(obs.Tree, obs.Ignored), 0)
	l, err := loader.LoadDir(root)
	obs.DirErr = c15LoadErrClass(err)
	if err == nil {
		obs.DirLoaded = c15Project(l)
		orc.addChart(l)
	} else if obs.IgnoreErr {
		obs.DirErr = "ignore"
	}
	dest := filepath.Join(tmp, "pkg")
	os.MkdirAll(dest, 0o755)
	pk := action.NewPackage()
	pk.Destination = dest
	pk.Version = c.PkgVersion
	if c.PkgVersion != "" {
		orc.semverQ(c.PkgVersion)
		if l != nil && l.Metadata != nil {
			m := c15CopyMeta(l.Metadata)
			m.Version = c.PkgVersion
			orc.addMeta(m)
		}
	}
	name, err := pk.Run(root, nil)
	if err != nil {
		obs.PkgErr = "error"
	}
	des, _ := os.ReadDir(dest)
	for _, de := range des {
		obs.PkgFiles = append(obs.PkgFiles, de.Name())
	}
	if err == nil {
		raw, _ := os.ReadFile(name)
		ents, ok := c15ScanTgz(raw)
		if !ok {
			obs.PkgErr = "unreadable"
		}
		obs.Packaged = ents
	}
	orc.close()
	obs.Oracle = orc
	return obs
}

// c15Kept: the files of a directory tree the walk keeps, BOM-trimmed, in walk order (the
// listing is sorted by full path; within one level only the relative order of equal names
// matters for the merge chain, and names are unique in a directory).
func c15Kept(tree []c15File, ignored []string) []c15File {
	ig := map[string]bool{}
	for _, n := range ignored {
		ig[n] = true
	}
	var out []c15File
	for _, f := range tree {
		if !ig[f.Name] {
			out = append(out, f)
		}
	}
	return c15Trimmed(out)
}

// ---------------------------------------------------------------- runtime oracle

var c15Bom = []byte{0xEF, 0xBB, 0xBF}

func c15IsText(name string) bool {
	for _, s := range []string{".yaml", ".yml", ".json", ".tpl", ".txt", ".md", ".lock"} {
		if strings.HasSuffix(name, s) {
			return true
		}
	}
	return false
}

// c15CleanRel: a clean relative slash path without backslashes.
func c15CleanRel(n string) bool {
	if n == "" || strings.Contains(n, "\\") || strings.HasPrefix(n, "/") {
		return false
	}
	for _, p := range strings.Split(n, "/") {
		if p == "" || p == "." || p == ".." {
			return false
		}
	}
	return true
}

var c15Reserved = map[string]bool{"Chart.yaml": true, "Chart.lock": true, "values.yaml": true, "values.schema.json": true,
	"requirements.yaml": true, "requirements.lock": true}

// c15Wf: the charts the property quantifies over ("any valid chart"): metadata that
// Validate accepts, apiVersion v1 or v2, clean relative file names with templates under
// templates/ and other files outside the reserved names and directories, a schema that is
// JSON, a lock only where the format has a place for it, dependency names usable as
// directory names.  Charts outside are still run and compared with the model.
func c15Wf(s *c15Chart, top bool) bool {
	if s.Meta == nil {
		return false
	}
	m := c15CopyMeta(s.Meta)
	if m.Validate() != nil {
		return false
	}
	if m.APIVersion != "v1" && m.APIVersion != "v2" {
		return false
	}
	if m.Name != s.Meta.Name { // the name itself needed sanitising: SaveDir and Save would use different names
		return false
	}
	if !c15CleanRel(m.Name) || strings.HasPrefix(m.Name, "_") || strings.HasPrefix(m.Name, ".") || filepath.Ext(m.Name) == ".tgz" {
		return false
	}
	if s.HasSchema && !json.Valid(s.Schema) {
		return false
	}
	if s.HasValues {
		if _, err := loader.LoadValues(bytes.NewReader(bytes.TrimPrefix(s.Values, c15Bom))); err != nil {
			return false
		}
	}
	lim := loader.MaxDecompressedFileSize // set by Execute for the case
	for _, l := range [][]c15File{s.Templates, s.Files} {
		for _, f := range l {
			if int64(len(f.Data)) > lim {
				return false
			}
		}
	}
	if int64(len(s.Values)) > lim || int64(len(s.Schema)) > lim {
		return false
	}
	// ... the files Save itself writes included: with a lowered limit a long Chart.yaml / Chart.lock
	// (three dependency records) is over it, and the archive is rightly refused on load
	if c15YamlLen(m) > lim || (s.Lock != nil && c15YamlLen(s.Lock) > lim) {
		return false
	}
	hasReqYaml, hasReqLock := false, false
	names := map[string]bool{} // one file per name, no name that is also a directory
	dup := func(n string) bool {
		if names[n] {
			return true
		}
		for k := range names {
			if strings.HasPrefix(k, n+"/") || strings.HasPrefix(n, k+"/") {
				return true
			}
		}
		names[n] = true
		return false
	}
	for _, f := range s.Templates {
		if !c15CleanRel(f.Name) || !strings.HasPrefix(f.Name, "templates/") || dup(f.Name) {
			return false
		}
	}
	for _, f := range s.Files {
		if !c15CleanRel(f.Name) || strings.HasPrefix(f.Name, "templates/") || dup(f.Name) {
			return false
		}
		if f.Name == ".helmignore" {
			if _, _, ok := c15ParseIgnore(f.Data, true); !ok {
				return false // the directory loader reads it as rules; garbage there is not a valid chart
			}
		}
		if strings.HasPrefix(f.Name, "charts/") && filepath.Ext(f.Name) != ".prov" {
			return false
		}
		if c15Reserved[f.Name] {
			// v1 keeps requirements.* among the files; they must agree with the metadata / lock
			if m.APIVersion == "v1" && f.Name == "requirements.yaml" {
				hasReqYaml = true
				mm := c15CopyMeta(s.Meta)
				mm.Dependencies = nil
				if err := c15YamlUnmarshal(f.Data, mm); err != nil || !c15JSONEq(mm, s.Meta) {
					return false
				}
				continue
			}
			if m.APIVersion == "v1" && f.Name == "requirements.lock" {
				hasReqLock = true
				l := new(chart.Lock)
				if err := c15YamlUnmarshal(f.Data, &l); err != nil || !c15JSONEq(l, s.Lock) {
					return false
				}
				continue
			}
			return false
		}
	}
	if m.APIVersion == "v1" {
		if len(m.Dependencies) > 0 && !hasReqYaml {
			return false
		}
		if (s.Lock != nil) != hasReqLock {
			return false
		}
	}
	seen := map[string]bool{}
	for _, d := range s.Deps {
		if !c15Wf(d, false) || seen[d.Meta.Name] {
			return false
		}
		seen[d.Meta.Name] = true
	}
	return true
}

func c15JSONEq(a, b any) bool {
	x, _ := json.Marshal(a)
	y, _ := json.Marshal(b)
	return bytes.Equal(x, y)
}

// c15Diff compares a reloaded chart with the original; returns (sig, what) pairs.
func c15Diff(orig, got *c15PChart, path string, viaDir bool, ignored map[string]bool, prefix string) [][2]string {
	var out [][2]string
	// through a directory: walk order instead of the original order, and the files the
	// (default) ignore rules exclude are legitimately absent
	norm := func(l []c15File) []c15File {
		if !viaDir {
			return l
		}
		var o []c15File
		for _, f := range l {
			if !ignored[prefix+f.Name] {
				o = append(o, f)
			}
		}
		sort.SliceStable(o, func(i, j int) bool { return o[i].Name < o[j].Name })
		return o
	}
	add := func(sig, what string) { out = append(out, [2]string{sig, path + ": " + what}) }
	if !c15JSONEq(orig.Meta, got.Meta) {
		add("C15:roundtrip-metadata", "metadata differs after reload")
	}
	if !c15JSONEq(orig.Lock, got.Lock) {
		sig := "C15:roundtrip-lock"
		if viaDir {
			sig = "C15:savedir-drops-lock"
		}
		add(sig, fmt.Sprintf("lock differs after reload (original %v, reloaded %v)", orig.Lock != nil, got.Lock != nil))
	}
	rawv := func(p *c15PChart) []c15File {
		var l []c15File
		for _, f := range p.Raw {
			if f.Name == "values.yaml" {
				l = append(l, f)
			}
		}
		return l
	}
	cmpFiles := func(kind string, a, b []c15File) {
		if len(a) != len(b) {
			add("C15:roundtrip-"+kind, fmt.Sprintf("%d %s before, %d after", len(a), kind, len(b)))
			return
		}
		for i := range a {
			if a[i].Name != b[i].Name {
				add("C15:roundtrip-"+kind, fmt.Sprintf("%s[%d] is %q, was %q", kind, i, b[i].Name, a[i].Name))
				continue
			}
			if bytes.Equal(a[i].Data, b[i].Data) {
				continue
			}
			if bytes.HasPrefix(a[i].Data, c15Bom) && bytes.Equal(a[i].Data[3:], b[i].Data) {
				if c15IsText(a[i].Name) {
					continue // BOM removal from a text file is the documented intent
				}
				add("C15:bom-stripped-from-non-yaml-file", fmt.Sprintf("%s: the leading EF BB BF of a non-text file is gone after reload", a[i].Name))
				continue
			}
			add("C15:roundtrip-"+kind, fmt.Sprintf("%s content differs after reload", a[i].Name))
		}
	}
	cmpFiles("raw-values", rawv(orig), rawv(got))
	if !c15JSONEq(orig.Values, got.Values) || orig.ValuesNil != got.ValuesNil {
		add("C15:roundtrip-values", "parsed values differ after reload")
	}
	if !bytes.Equal(orig.Schema, got.Schema) || orig.SchemaNil != got.SchemaNil {
		add("C15:roundtrip-schema", "schema differs after reload")
	}
	cmpFiles("templates", norm(orig.Templates), norm(got.Templates))
	cmpFiles("files", norm(orig.Files), norm(got.Files))
	// dependencies: the same set, compared in name order
	byName := func(l []*c15PChart) []*c15PChart {
		c := append([]*c15PChart{}, l...)
		sort.SliceStable(c, func(i, j int) bool { return c[i].Meta.Name < c[j].Meta.Name })
		return c
	}
	a, b := byName(orig.Deps), byName(got.Deps)
	if len(a) != len(b) {
		add("C15:roundtrip-dependencies", fmt.Sprintf("%d dependencies before, %d after", len(a), len(b)))
		return out
	}
	for i := range a {
		// below the top level SaveDir stores dependencies as archives: no ignore rules, original order
		out = append(out, c15Diff(a[i], b[i], path+"/"+a[i].Meta.Name, false, nil, "")...)
	}
	return out
}

func (p *c15) Oracle(ci, oi any) []hx.Violation {
	c, obs := ci.(c15Case), oi.(c15Obs)
	var vs []hx.Violation
	add := func(sig, what string) { vs = append(vs, hx.Violation{Sig: sig, What: what}) }
	if obs.Panic != "" {
		return []hx.Violation{{Sig: "C15:panic", What: "panic: " + obs.Panic}}
	}
	switch c.Kind {
	case "rt":
		// an invalid name or version must not be packaged
		if c.Chart.Meta != nil && obs.SaveErr == "" {
			m := c.Chart.Meta
			if _, err := semver.NewVersion(m.Version); err != nil {
				add("C15:invalid-version-packaged", fmt.Sprintf("Save packaged a chart with version %q", m.Version))
			}
			if sm := c15Sanitized(m); sm.Name != filepath.Base(sm.Name) || sm.Name == "" {
				add("C15:invalid-name-packaged", fmt.Sprintf("Save packaged a chart named %q", m.Name))
			}
			// ... at every depth of the dependency tree: every chart written into the archive
			var walk func(d *c15Chart, path string)
			walk = func(d *c15Chart, path string) {
				for _, sub := range d.Deps {
					if sub.Meta != nil && sub.Meta.Name != filepath.Base(sub.Meta.Name) {
						add("C15:invalid-dependency-name-packaged", fmt.Sprintf("Save packaged %s with a dependency named %q", path, sub.Meta.Name))
					}
					if sub.Meta != nil {
						walk(sub, path+"/"+sub.Meta.Name)
					}
				}
			}
			walk(c.Chart, m.Name)
			// ... and every entry of the archive stays below <name>/
			// (root names ".", ".." and "/" equal their own base name and are accepted by Helm; what
			// they lead to is recorded in notes/C15.md as an observation)
			// Only chart NAMES are the subject here: a template or file whose own name climbs out
			// ("../up" in an in-memory chart; no loader produces one) leaves the directory whatever
			// the chart is called, and the property text does not speak about it.
			root := c15Sanitized(m).Name
			var climbing func(d *c15Chart) bool
			climbing = func(d *c15Chart) bool {
				for _, l := range [][]c15File{d.Templates, d.Files} {
					for _, f := range l {
						if !c15CleanRel(f.Name) {
							return true
						}
					}
				}
				for _, sub := range d.Deps {
					if climbing(sub) {
						return true
					}
				}
				return false
			}
			for _, e := range obs.Saved {
				if root == "." || root == ".." || root == "/" || climbing(c.Chart) {
					break
				}
				if !strings.HasPrefix(e.Name, root+"/") {
					add("C15:entry-outside-chart-directory", fmt.Sprintf("Save wrote the entry %q outside %s/", e.Name, c15Sanitized(m).Name))
					break
				}
			}
		}
		if obs.Loaded != nil && obs.DirLoaded != nil && len(c.Chart.Deps) == 0 {
			ign := map[string]bool{}
			for _, n := range obs.Ignored {
				ign[n] = true
			}
			byName := map[string][]byte{}
			for _, f := range append(append([]c15File{}, obs.DirLoaded.Templates...), obs.DirLoaded.Files...) {
				byName[f.Name] = f.Data
			}
			dupl := map[string]int{}
			for _, f := range append(append([]c15File{}, obs.Loaded.Templates...), obs.Loaded.Files...) {
				dupl[f.Name]++
			}
			for _, f := range append(append([]c15File{}, obs.Loaded.Templates...), obs.Loaded.Files...) {
				if d, ok := byName[f.Name]; ok && dupl[f.Name] == 1 && !ign[f.Name] && !bytes.Equal(d, f.Data) && !c15Reserved[f.Name] && c15CleanRel(f.Name) {
					add("C15:directory-and-archive-load-differ", fmt.Sprintf("%s has %d bytes when loaded from the archive and %d bytes when loaded from the directory", f.Name, len(f.Data), len(d)))
					break
				}
			}
		}
		if !obs.Wf {
			return vs
		}
		if obs.SaveErr != "" {
			add("C15:valid-chart-not-saved", "Save failed on a well-formed chart")
			return vs
		}
		if obs.LoadErr != "" {
			add("C15:saved-chart-unloadable", "the archive written by Save cannot be loaded: "+obs.LoadErr)
		} else {
			for _, d := range c15Diff(obs.Orig, obs.Loaded, obs.Orig.Meta.Name, false, nil, "") {
				add(d[0], "archive round trip: "+d[1])
			}
		}
		ign := map[string]bool{}
		for _, n := range obs.Ignored {
			ign[n] = true
		}
		if obs.SaveDirErr != "" {
			add("C15:valid-chart-not-saved", "SaveDir failed on a well-formed chart")
		} else if obs.DirErr != "" {
			add("C15:saved-chart-unloadable", "the directory written by SaveDir cannot be loaded: "+obs.DirErr)
		} else {
			for _, d := range c15Diff(obs.Orig, obs.DirLoaded, obs.Orig.Meta.Name, true, ign, "") {
				add(d[0], "directory round trip: "+d[1])
			}
		}
	case "dir":
		ign := map[string]bool{}
		for _, n := range obs.Ignored {
			ign[n] = true
		}
		for _, e := range obs.Packaged {
			i := strings.Index(e.Name, "/")
			if i < 0 {
				continue
			}
			n := e.Name[i+1:]
			if ign[n] && n != "Chart.yaml" {
				add("C15:ignored-file-packaged", fmt.Sprintf("%s is excluded by .helmignore but is in the package", n))
			}
		}
		if obs.DirLoaded != nil {
			for _, f := range obs.DirLoaded.Raw {
				if ign[f.Name] {
					add("C15:ignored-file-loaded", fmt.Sprintf("%s is excluded by .helmignore but was loaded", f.Name))
				}
			}
		}
		// a .helmignore with a line Helm cannot parse: the load and the package fail (unchanged tree);
		// if they do not, the valid rules of the file must still be honoured -- nothing they exclude
		// may be in the loaded chart or in the archive
		if obs.IgnoreErr {
			vign := map[string]bool{}
			for _, n := range obs.ValidIgn {
				vign[n] = true
			}
			for _, e := range obs.Packaged {
				if i := strings.Index(e.Name, "/"); i >= 0 && vign[e.Name[i+1:]] && e.Name[i+1:] != "Chart.yaml" {
					add("C15:ignored-file-packaged", fmt.Sprintf("%s is excluded by a valid rule of a .helmignore that also has a line Helm rejects; the package succeeded and contains it", e.Name[i+1:]))
					break
				}
			}
			if obs.DirLoaded != nil {
				for _, f := range obs.DirLoaded.Raw {
					if vign[f.Name] {
						add("C15:ignored-file-loaded", fmt.Sprintf("%s is excluded by a valid rule of a .helmignore that also has a line Helm rejects; the directory loaded and contains it", f.Name))
						break
					}
				}
			}
		}
		// invalid name / version never packaged
		if obs.PkgErr == "" && obs.DirLoaded != nil {
			v := obs.DirLoaded.Meta.Version
			if c.PkgVersion != "" {
				v = c.PkgVersion
			}
			if _, err := semver.NewVersion(v); err != nil {
				add("C15:invalid-version-packaged", fmt.Sprintf("Package.Run packaged version %q", v))
			}
			if n := obs.DirLoaded.Meta.Name; n != filepath.Base(n) {
				add("C15:invalid-name-packaged", fmt.Sprintf("Package.Run packaged a chart named %q", n))
			}
		}
		if obs.PkgErr != "" && len(obs.PkgFiles) > 0 {
			add("C15:failed-package-left-archive", fmt.Sprintf("Package.Run failed but left %v in the destination", obs.PkgFiles))
		}
	}
	return vs
}

// c15SanitizeP: Validate sanitises the metadata of a chart when it is saved (top level)
// and when it is loaded (every level); the original is compared in that form.
func c15SanitizeP(p *c15PChart) *c15PChart {
	if p == nil {
		return nil
	}
	if p.Meta != nil {
		p.Meta = c15Sanitized(p.Meta)
	}
	for _, d := range p.Deps {
		c15SanitizeP(d)
	}
	return p
}

func c15Sanitized(m *chart.Metadata) *chart.Metadata {
	c := c15CopyMeta(m)
	c.Validate()
	return c
}

// c15TgzDepth: how deep archives are nested inside the data ("charts/x.tgz" inside an archive ...)
func c15TgzDepth(data []byte, limit int) int {
	if limit == 0 {
		return 0
	}
	ents, ok := c15ScanTgz(data)
	if !ok {
		return 0
	}
	d := 1
	for _, e := range ents {
		if strings.HasSuffix(e.Name, ".tgz") && strings.Contains(e.Name, "/charts/") {
			if k := 1 + c15TgzDepth(e.Data, limit-1); k > d {
				d = k
			}
		}
	}
	return d
}

func c15FilesTags(files []c15File) string {
	tags := ""
	depth, prov, names := 0, false, map[string]bool{}
	for _, f := range files {
		if strings.HasPrefix(f.Name, "charts/") {
			rest := strings.TrimPrefix(f.Name, "charts/")
			names[strings.SplitN(rest, "/", 2)[0]] = true
			if strings.HasSuffix(f.Name, ".tgz") && !strings.Contains(rest, "/") {
				if k := c15TgzDepth(f.Data, 4); k > depth {
					depth = k
				}
			}
		}
		if strings.HasSuffix(f.Name, ".prov") {
			prov = true
		}
	}
	if depth > 0 {
		tags += fmt.Sprintf("+tgz%d", depth)
	}
	if prov {
		tags += "+prov"
	}
	for a := range names {
		for b := range names {
			if a != b && (strings.HasPrefix(b, a) || strings.EqualFold(a, b)) {
				return tags + "+pfx"
			}
		}
	}
	return tags
}

// c15ChartTags: the input classes of round 4 present in a generated chart
func c15ChartTags(s *c15Chart) string {
	v1req, prov, pfx, tgz := false, false, false, 0
	var walk func(d *c15Chart)
	walk = func(d *c15Chart) {
		for _, f := range d.Files {
			if d.Meta != nil && d.Meta.APIVersion == "v1" && (f.Name == "requirements.yaml" || f.Name == "requirements.lock") {
				v1req = true
			}
			if strings.HasSuffix(f.Name, ".prov") {
				prov = true
			}
			if strings.HasPrefix(f.Name, "charts/") && strings.HasSuffix(f.Name, ".tgz") {
				if k := c15TgzDepth(f.Data, 4); k > tgz {
					tgz = k
				}
			}
		}
		for i, a := range d.Deps {
			for j, b := range d.Deps {
				if i != j && a.Meta != nil && b.Meta != nil && (strings.HasPrefix(b.Meta.Name, a.Meta.Name) || strings.EqualFold(a.Meta.Name, b.Meta.Name)) {
					pfx = true
				}
			}
			walk(a)
		}
	}
	walk(s)
	t := ""
	if v1req {
		t += "+v1req"
	}
	if tgz > 0 {
		t += fmt.Sprintf("+tgz%d", tgz)
	}
	if prov {
		t += "+prov"
	}
	if pfx {
		t += "+pfx"
	}
	return t
}

// the input classes of round 4, counted over the run: report.extra.round4_input_classes
var c15TagCount = map[string]int{}

func c15CountTags(kind, tags string) {
	hx.Extra["round4_input_classes"] = c15TagCount
	for _, t := range strings.Split(tags, "+") {
		if t != "" {
			c15TagCount[kind+":"+t]++
		}
	}
}

func (p *c15) Class(ci, oi any) string {
	c, obs := ci.(c15Case), oi.(c15Obs)
	switch c.Kind {
	case "rt":
		k := "rt:"
		if obs.Wf {
			k += "wf"
		} else {
			k += "hostile"
		}
		if obs.SaveErr != "" {
			return k + ":save-refused"
		}
		if obs.LoadErr != "" {
			return k + ":load-" + obs.LoadErr
		}
		if len(c.Chart.Deps) > 0 {
			k += ":deps"
		}
		c15CountTags("rt", c15ChartTags(c.Chart))
		return k + ":" + c.Chart.Meta.APIVersion
	case "files":
		k := "files:"
		if c.Note == "tree-shuffled" {
			k = "files:tree-shuffled:"
		}
		if obs.LoadErr != "" {
			return k + obs.LoadErr
		}
		c15CountTags("files(loaded)", c15FilesTags(c.Files))
		return k + "loaded"
	case "dir":
		k := "dir:"
		if obs.DirErr != "" {
			return k + obs.DirErr
		}
		tags := c15FilesTags(c.Files)
		hasIgn, dot := false, false
		for _, f := range c.Files {
			if f.Name == ".helmignore" {
				hasIgn = true
			}
			if strings.HasPrefix(f.Name, "templates/.") {
				dot = true
			}
		}
		if dot && !hasIgn {
			tags += "+no-helmignore-with-templates-dotfile"
		} else if dot {
			tags += "+templates-dotfile"
		}
		c15CountTags("dir(loaded)", tags)
		if obs.PkgErr != "" {
			return k + "loaded:package-refused"
		}
		return k + "loaded:packaged"
	case "match", "matchex":
		return c15MatchClass(c, obs)
	}
	return c.Kind
}

func (p *c15) NonTrivial(ci, oi any) bool {
	c, obs := ci.(c15Case), oi.(c15Obs)
	switch c.Kind {
	case "rt":
		return obs.Loaded != nil || obs.DirLoaded != nil
	case "files":
		return obs.Loaded != nil
	case "dir":
		return obs.DirLoaded != nil
	case "match":
		return strings.ContainsAny(obs.MatchRes, "y") // the pattern matched one of the names
	case "matchex":
		return true
	}
	return false
}

func (*c15) Decode(raw json.RawMessage) (any, error) {
	var c c15Case
	err := json.Unmarshal(raw, &c)
	return c, err
}

// Exhaustive: filepath.Match on every pattern of at most 2 (quick) / 4 (thorough) letters over
// {a b * ? [ ] - ^ \ /} against 51 fixed names.
func (*c15) Exhaustive(tier string) []any {
	if tier == "thorough" {
		return c15MatchExhaustive(4, 600)
	}
	return c15MatchExhaustive(2, 200)
}

package main

// Translator table for C16: the securejoin library Helm is built against.  The version comes
// from /repo/go.mod; from that version's join.go in the module cache the table takes the
// link limit and a fingerprint (SHA-256 of the comment-free, gofmt-printed declaration) of
// SecureJoinVFS.  Chart/FsTree.v's sj_loop / sj_pass were transcribed from the function with
// the fingerprint recorded there; Props/C16.v (C16_securejoin_source) holds the two together,
// so a dependency bump that changes the function breaks a proof obligation instead of
// silently leaving the model behind.

import (
	"bytes"
	"crypto/sha256"
	"encoding/hex"
	"fmt"
	"go/ast"
	"go/parser"
	"go/printer"
	"go/token"
	"os"
	"path/filepath"
	"regexp"
)

func init() { registerTable("SecureJoinLib", genSecureJoinLib) }

func modCache() string {
	if d := os.Getenv("GOMODCACHE"); d != "" {
		return d
	}
	if d := os.Getenv("GOPATH"); d != "" {
		return filepath.Join(filepath.SplitList(d)[0], "pkg", "mod")
	}
	home, _ := os.UserHomeDir()
	return filepath.Join(home, "go", "pkg", "mod")
}

func genSecureJoinLib(repo string) (string, error) {
	gomod, err := os.ReadFile(filepath.Join(repo, "go.mod"))
	if err != nil {
		return "", err
	}
	m := regexp.MustCompile(`(?m)^\s*github\.com/cyphar/filepath-securejoin\s+(v[^\s]+)`).FindSubmatch(gomod)
	if m == nil {
		return "", fmt.Errorf("go.mod does not require github.com/cyphar/filepath-securejoin")
	}
	version := string(m[1])
	src := filepath.Join(modCache(), "github.com", "cyphar", "filepath-securejoin@"+version, "join.go")
	fset := token.NewFileSet()
	f, err := parser.ParseFile(fset, src, nil, 0)
	if err != nil {
		return "", err
	}
	limit, err := varIntValue(f, "maxSymlinkLimit")
	if err != nil {
		return "", err
	}
	var fp string
	for _, d := range f.Decls {
		if fd, ok := d.(*ast.FuncDecl); ok && fd.Name.Name == "SecureJoinVFS" && fd.Recv == nil {
			fd.Doc = nil
			var b bytes.Buffer
			if err := printer.Fprint(&b, fset, fd); err != nil {
				return "", err
			}
			h := sha256.Sum256(b.Bytes())
			fp = hex.EncodeToString(h[:])
		}
	}
	if fp == "" {
		return "", fmt.Errorf("SecureJoinVFS not found in %s", src)
	}
	return fmt.Sprintf("(* github.com/cyphar/filepath-securejoin as required by /repo/go.mod *)\n"+
		"Definition sj_lib_version : string := %q.\nDefinition sj_lib_max_symlinks : Z := %s%%Z.\nDefinition sj_lib_join_sha256 : string := %q.\n",
		version, limit.String(), fp), nil
}

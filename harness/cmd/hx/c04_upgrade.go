package main

// C04, the "never modifies the chart's stored defaults or the value maps the caller
// supplied" clause on the upgrade path: install, then upgrade with --reuse-values or
// --reset-then-reuse-values through the real actions; afterwards the map and the chart
// object the caller handed to the upgrade are compared with what they were.

import (
	"context"
	"fmt"
	"io"
	"log/slog"
	"math/rand"

	"helm.sh/helm/v4/pkg/action"
	chartutil "helm.sh/helm/v4/pkg/chart/v2/util"
	kubefake "helm.sh/helm/v4/pkg/kube/fake"
	"helm.sh/helm/v4/pkg/storage"
	"helm.sh/helm/v4/pkg/storage/driver"

	"verif/harness/internal/hx"
)

type c04Upgrade struct {
	Chart1 *c04Chart `json:"chart1"`
	Vals1  vtree     `json:"vals1"`
	Chart2 *c04Chart `json:"chart2"`
	Vals2  vtree     `json:"vals2"`
	Reuse  bool      `json:"reuse_values"` // else reset-then-reuse-values
}

func c04GenUpgrade(r *rand.Rand, base vtree) c04Case {
	u := &c04Upgrade{Reuse: r.Intn(2) == 0}
	u.Chart1 = &c04Chart{Name: "c", Values: vtMutate(r, base, 3)}
	u.Chart2 = &c04Chart{Name: "c", Values: vtMutate(r, u.Chart1.Values, 3)}
	u.Vals1 = vtMutate(r, base, 3)
	u.Vals2 = vtMutate(r, u.Vals1, 3)
	if r.Intn(6) == 0 {
		u.Vals2 = vtree{}
	}
	return c04Case{Kind: "upgrade", Upgrade: u, Tag: "upgrade-reuse"}
}

func c04ExecUpgrade(u *c04Upgrade, obs *c04Obs) {
	slog.SetDefault(slog.New(slog.NewTextHandler(io.Discard, nil)))
	cfg := &action.Configuration{
		Releases:     storage.Init(driver.NewMemory()),
		KubeClient:   &kubefake.PrintingKubeClient{Out: io.Discard},
		Capabilities: chartutil.DefaultCapabilities,
	}
	ch1, v1 := u.Chart1.build(), vtCopyMap(u.Vals1)
	if v1 == nil {
		v1 = vtree{}
	}
	in := action.NewInstall(cfg)
	in.Namespace, in.ReleaseName = "default", "rel"
	if _, err := in.RunWithContext(context.Background(), ch1, v1); err != nil {
		obs.Err = "error"
		return
	}
	ch2, v2 := u.Chart2.build(), vtCopyMap(u.Vals2)
	if v2 == nil {
		v2 = vtree{}
	}
	up := action.NewUpgrade(cfg)
	up.Namespace = "default"
	up.ReuseValues, up.ResetThenReuseValues = u.Reuse, !u.Reuse
	rel, err := up.RunWithContext(context.Background(), "rel", ch2, v2)
	if err != nil {
		obs.Err = "error"
		return
	}
	obs.Out = vtCopy(map[string]interface{}(rel.Config))
	if rel.Config == nil {
		obs.Out = vtree{}
	}
	if !vtEqual(v1, u.Vals1) {
		obs.Mutated = append(obs.Mutated, "caller-map:install-vals")
	}
	if !vtEqual(v2, u.Vals2) {
		obs.Mutated = append(obs.Mutated, "caller-map:upgrade-vals")
	}
	if !vtEqual(ch1.Values, u.Chart1.Values) {
		obs.Mutated = append(obs.Mutated, "chart-defaults:install-chart")
	}
	if !vtEqual(ch2.Values, u.Chart2.Values) {
		if u.Reuse {
			// the one known way: reuseValues does `chart.Values = oldVals` on the caller's chart
			obs.Mutated = append(obs.Mutated, "reuse-values-rewrites-chart-defaults:upgrade-chart")
		} else {
			obs.Mutated = append(obs.Mutated, "chart-defaults:upgrade-chart")
		}
	}
}

func c04CoqUpgrade(u *c04Upgrade, res string) string {
	// the recorded Config of the upgrade is CoalesceTables(new values, deployed Config)
	return fmt.Sprintf("CTables false %s %s %s", hx.CoqValMap(u.Vals2), hx.CoqValMap(u.Vals1), res)
}

package main

// C17 — provenance verification accepts exactly untampered, trusted-key-signed charts.
//
// A case is one chart packaged and signed by the REAL `action.Package` (Sign=true) with a
// freshly generated OpenPGP key, plus a list of mutants (archive bytes, provenance text /
// armor / headers, file name, keyring).  Every mutant is verified by the real
// provenance.Signatory.Verify and downloader.VerifyChart; a few go through
// ChartDownloader.DownloadTo, ChartPathOptions.LocateChart and Pull.Run with each
// verification strategy.  The library results (clearsign.Decode, CheckDetachedSignature,
// SHA-256, YAML) are recomputed here independently of Helm and handed to the Coq model
// Misc/Prov.v as tables (Run/RunC17.v).

import (
	"bytes"
	"context"
	"crypto"
	"crypto/sha256"
	"encoding/hex"
	"encoding/json"
	"fmt"
	"io"
	"math/rand"
	"net"
	"net/http"
	"net/http/httptest"
	"os"
	"path/filepath"
	"sort"
	"strings"
	"sync"
	"time"
	"unicode/utf8"

	"golang.org/x/crypto/openpgp"           //nolint
	"golang.org/x/crypto/openpgp/clearsign" //nolint
	"golang.org/x/crypto/openpgp/packet"    //nolint
	"sigs.k8s.io/yaml"

	"helm.sh/helm/v4/pkg/action"
	chart "helm.sh/helm/v4/pkg/chart/v2"
	"helm.sh/helm/v4/pkg/chart/v2/loader"
	chartutil "helm.sh/helm/v4/pkg/chart/v2/util"
	"helm.sh/helm/v4/pkg/cli"
	helmcmd "helm.sh/helm/v4/pkg/cmd"
	"helm.sh/helm/v4/pkg/downloader"
	"helm.sh/helm/v4/pkg/getter"
	kubefake "helm.sh/helm/v4/pkg/kube/fake"
	"helm.sh/helm/v4/pkg/provenance"
	"helm.sh/helm/v4/pkg/storage"
	"helm.sh/helm/v4/pkg/storage/driver"

	"verif/harness/internal/hx"
)

func init() { hx.Register("c17", func() hx.Property { return &c17{} }) }

type c17 struct{}

// ---------------------------------------------------------------- types

type c17Mut struct {
	T      string `json:"t"`            // none archive prov name
	Op     string `json:"op,omitempty"` // xor trunc append insert del line-ws line-dash crlf junk-before junk-after dup-line alt evil evil-first hash-edit name-edit rename subdir
	Pos    int    `json:"pos,omitempty"`
	Val    int    `json:"val,omitempty"`
	S      string `json:"s,omitempty"`
	KR     string `json:"kr"`               // signer other both empty garbage
	Expect string `json:"expect,omitempty"` // by construction: accept | reject | "" (judged by the recomputed right-hand side only)
}

type c17Dl struct {
	Kind string `json:"kind"` // download locate-local locate-remote pull manager cmd-*
	// the VerificationStrategy (iota order) for download / manager; for the flag-driven kinds
	// 0 = no flag, 2 = --verify, 3 = --prov (pull only), 5 = --verify --prov (pull only)
	Strat   int    `json:"strat"`
	Variant string `json:"variant"` // good tampered tampered-prov wrong-name noprov untrusted nochart nokeyring
}

// the --verify flag (or VerifyAlways) is part of the run: verification is required
func (d c17Dl) required() bool { return d.Strat == 2 || d.Strat == 5 }

func (d c17Dl) how() string {
	if d.Kind == "download" || d.Kind == "manager" {
		return fmt.Sprintf("strategy=%d", d.Strat)
	}
	return map[int]string{0: "flags=none", 2: "flags=--verify", 3: "flags=--prov", 5: "flags=--verify+--prov"}[d.Strat]
}

// the --prov flag of `helm pull` is part of the run
func (d c17Dl) later() bool { return d.Strat == 3 || d.Strat == 5 }

type c17Case struct {
	Name        string `json:"name"` // base name of the archive
	Archive     []byte `json:"archive"`
	Prov        []byte `json:"prov"`
	RingSigner  []byte `json:"ring_signer"`
	RingOther   []byte `json:"ring_other"`
	AltProv     []byte `json:"alt_prov"`     // same archive, signed by the OTHER key
	EvilArchive []byte `json:"evil_archive"` // a different archive of the same name
	EvilProv    []byte `json:"evil_prov"`    // its provenance, signed by the OTHER key
	// the same archive bytes under other file names, each signed UNDER THAT NAME by the real
	// action.Package.Clearsign with the trusted key (renamed / mirrored / CI-named copies)
	Renamed map[string][]byte `json:"renamed"`
	// hand-made messages clear-signed by the TRUSTED key (three parts, odd sums entries, ...)
	Customs map[string][]byte `json:"customs"`
	Muts    []c17Mut          `json:"muts"`
	Dls     []c17Dl           `json:"dls"`
	// the two (unencrypted, generated) secret keys: A signed Prov, B signed AltProv / EvilProv;
	// Signatories with a signing Entity are rebuilt from them (c17_trust.go)
	SecA []byte   `json:"sec_a"`
	SecB []byte   `json:"sec_b"`
	Sigs []c17Sig `json:"sigs"`
	// archive path x provenance path in every state (c17_files.go)
	Files []c17FileCk `json:"files"`
}

type c17Tab struct {
	Decoded   bool              `json:"decoded"`
	Plaintext string            `json:"-"`
	Bytes     string            `json:"-"`
	Part0     string            `json:"-"`
	Part1     string            `json:"-"`
	TwoParts  bool              `json:"two_parts"`
	MetaOK    bool              `json:"meta_ok"`
	SumsOK    bool              `json:"sums_ok"`
	Sums      map[string]string `json:"sums,omitempty"`
}

type c17Res struct {
	Name    string `json:"name"`
	Sha     string `json:"sha"`
	SigOK   bool   `json:"sig_ok"`
	KrLoads bool   `json:"kr_loads"`
	OK      bool   `json:"ok"`      // Signatory.Verify returned no error
	Hash    string `json:"hash"`    // its FileHash
	OKvc    bool   `json:"ok_vc"`   // downloader.VerifyChart returned no error
	HashVC  string `json:"hash_vc"` //
	Tab     c17Tab `json:"tab"`
	Panic   string `json:"panic,omitempty"`
}

type c17DlRes struct {
	ChartOK bool   `json:"chart_ok"`
	ProvOK  bool   `json:"prov_ok"`
	Chk     c17Res `json:"chk"`
	Err     bool   `json:"err"`
	Hash    string `json:"hash,omitempty"`
	HasHash bool   `json:"has_hash"`
	Panic   string `json:"panic,omitempty"`
}

type c17Obs struct {
	Res   []c17Res     `json:"res"`
	Dls   []c17DlRes   `json:"dls"`
	Sigs  []c17SigRes  `json:"sigs"`
	Files []c17FileRes `json:"files"`
	// hypotheses of C17_sign_then_verify on the genuine pair: the Plaintext clearsign returns
	// is byte for byte yaml(metadata) "\n...\n" yaml(sums) rebuilt here from the archive
	BlockNote string `json:"block_note,omitempty"`
}

// c17CheckBlock rebuilds what messageBlock must have signed and compares it with the decoded text
func c17CheckBlock(c *c17Case) string {
	if n := c17CheckBlockFor(c, c.Name, c.Prov); n != "" {
		return n
	}
	for _, nm := range c17RenamedNames(c.Name) {
		if pv, ok := c.Renamed[nm]; ok {
			if n := c17CheckBlockFor(c, nm, pv); n != "" {
				return "signed as " + nm + ": " + n
			}
		}
	}
	return ""
}

// what ClearSign produced for the archive under file name [name] against the model's
// message_block: yaml(metadata) separator yaml(files: {name: sha256:digest})
func c17CheckBlockFor(c *c17Case, name string, provBytes []byte) string {
	ch, err := loader.LoadArchive(bytes.NewReader(c.Archive))
	if err != nil {
		return "archive does not load: " + err.Error()
	}
	meta, err := yaml.Marshal(ch.Metadata)
	if err != nil {
		return err.Error()
	}
	sums, _ := yaml.Marshal(&provenance.SumCollection{Files: map[string]string{name: "sha256:" + c17Hex(c.Archive)}})
	want := string(meta) + "\n...\n" + string(sums)
	block, _ := clearsign.Decode(provBytes)
	if block == nil {
		return "the signed provenance does not decode"
	}
	if string(block.Plaintext) != want {
		return "decoded Plaintext differs from yaml(metadata)+separator+yaml(sums)"
	}
	for _, l := range strings.SplitAfter(want, "\n") {
		if strings.HasSuffix(l, " \n") || strings.HasSuffix(l, "\t\n") || strings.HasSuffix(l, "\r\n") {
			return "the printed block has a blank before a line feed"
		}
	}
	if parts := strings.Split(want, "\n...\n"); len(parts) != 2 || parts[0] != string(meta) || parts[1] != string(sums) {
		return "the printed block does not split into exactly metadata and sums"
	}
	// Misc/ProvYaml.print_sums: for a name of the modelled shape the sums are printed as
	// files: / two blanks, name, colon, blank, value
	if c17NameOK(name) && string(sums) != "files:\n  "+name+": sha256:"+c17Hex(c.Archive)+"\n" {
		return "the printed sums differ from the model's print_sums for a name of the modelled shape"
	}
	return ""
}

// Misc/ProvYaml.name_ok: [A-Za-z0-9._+-]+ with extension .tgz in any letter case
func c17NameOK(name string) bool {
	if strings.Trim(name, "abcdefghijklmnopqrstuvwxyzABCDEFGHIJKLMNOPQRSTUVWXYZ0123456789._+-") != "" {
		return false
	}
	return strings.EqualFold(filepath.Ext(name), ".tgz")
}

func (*c17) ID() string        { return "C17" }
func (*c17) CoqImport() string { return "From Helm Require Import Misc.Prov Run.RunC17." }
func (*c17) Rule() string {
	return "charts packaged and signed by action.Package with generated RSA keys; per chart: sampled (thorough: every) single-byte " +
		"mutations, truncations and appends of the archive; bit/byte mutations of provenance body, armor and headers; structural " +
		"edits (trailing blanks, dash escapes, CRLF, junk around the block, duplicated / edited hash and name lines, provenance " +
		"re-signed by an untrusted key, attacker block first); renamed archives; keyrings signer / other / both / empty / garbage; " +
		"each through Signatory.Verify and downloader.VerifyChart; per chart, without random choice: DownloadTo / Manager with every " +
		"strategy and Pull / LocateChart / the command line with every combination of --verify and --prov against genuine, " +
		"tampered-archive, tampered-provenance, wrong-name, untrusted-signer, missing-provenance and unloadable-keyring artefacts; " +
		"Signatories with Entity in {none, A, B} x KeyRing in {empty, A, B, AB, BA, unloadable} x signer in {A, B} built by hand, " +
		"NewFromFiles and NewFromKeyring (six ids); archive path x provenance path in {file, missing, directory, unreadable}; " +
		"non-trivial = the unmutated pair verifies with the signer's keyring and at least one mutant is rejected; " +
		"distinct = hash of (case, observation)"
}

// ---------------------------------------------------------------- keys

type c17Keys struct {
	dir                    string
	signer, other          *openpgp.Entity
	signerPub, otherPub    []byte
	signerSecret, otherSec string // secret keyring files
	signerSecB, otherSecB  []byte // their content
}

var (
	c17KeysOnce sync.Once
	c17K        *c17Keys
)

func c17NewKey(name string, dir string) (*openpgp.Entity, []byte, string, []byte) {
	e, err := openpgp.NewEntity(name, "", strings.ToLower(strings.ReplaceAll(name, " ", "."))+"@example.test", &packet.Config{RSABits: 1024})
	if err != nil {
		panic(err)
	}
	var sec bytes.Buffer
	if err := e.SerializePrivate(&sec, nil); err != nil { // also signs the identities
		panic(err)
	}
	el, err := openpgp.ReadKeyRing(bytes.NewReader(sec.Bytes()))
	if err != nil || len(el) != 1 {
		panic(fmt.Sprint("re-reading generated key: ", err))
	}
	var pub bytes.Buffer
	if err := el[0].Serialize(&pub); err != nil {
		panic(err)
	}
	f := filepath.Join(dir, strings.ReplaceAll(name, " ", "_")+".secret")
	if err := os.WriteFile(f, sec.Bytes(), 0o600); err != nil {
		panic(err)
	}
	return el[0], pub.Bytes(), f, sec.Bytes()
}

func c17GetKeys() *c17Keys {
	c17KeysOnce.Do(func() {
		dir, err := os.MkdirTemp(c17TmpBase(), "hx-c17-")
		if err != nil {
			panic(err)
		}
		k := &c17Keys{dir: dir}
		for _, e := range []string{"HELM_CACHE_HOME", "HELM_CONFIG_HOME", "HELM_DATA_HOME"} {
			d := filepath.Join(dir, strings.ToLower(e))
			os.MkdirAll(d, 0o755)
			os.Setenv(e, d)
		}
		k.signer, k.signerPub, k.signerSecret, k.signerSecB = c17NewKey("Trusted Signer", dir)
		k.other, k.otherPub, k.otherSec, k.otherSecB = c17NewKey("Other Key", dir)
		c17K = k
	})
	return c17K
}

// c17TmpBase prefers a memory file system: DownloadTo writes through fileutil.AtomicWriteFile,
// which is slow on a disk-backed /tmp
func c17TmpBase() string {
	// scratch directories of earlier runs (the runner has no exit hook): drop those older than an hour
	for _, base := range []string{"/dev/shm", os.TempDir()} {
		old, _ := filepath.Glob(filepath.Join(base, "hx-c17-*"))
		for _, d := range old {
			if fi, err := os.Stat(d); err == nil && time.Since(fi.ModTime()) > time.Hour {
				os.RemoveAll(d)
			}
		}
	}
	if fi, err := os.Stat("/dev/shm"); err == nil && fi.IsDir() {
		if f, err := os.CreateTemp("/dev/shm", "hx-probe-"); err == nil {
			f.Close()
			os.Remove(f.Name())
			return "/dev/shm"
		}
	}
	return ""
}

// ---------------------------------------------------------------- generator

func c17Chart(r *rand.Rand, evil bool) *chart.Chart {
	names := []string{"web", "db-proxy", "a", "my.chart", "x_y"}
	md := &chart.Metadata{APIVersion: "v2", Name: names[r.Intn(len(names))], Version: fmt.Sprintf("%d.%d.%d", r.Intn(3), r.Intn(10), r.Intn(10))}
	switch r.Intn(4) {
	case 0:
		md.Description = "a chart\n...\nfiles:\n  fake.tgz: sha256:00" // a description that contains the part separator
	case 1:
		md.Description = "- dash first\n-----BEGIN PGP SIGNATURE-----\nline with trailing blanks   \n"
	case 2:
		md.Description = "héllo wörld"
	}
	if r.Intn(3) == 0 {
		md.Version += "-rc.1+b" + fmt.Sprint(r.Intn(9))
	}
	ch := &chart.Chart{Metadata: md}
	body := fmt.Sprintf("kind: ConfigMap\nmetadata:\n  name: cm-%d\n", r.Intn(1000))
	ch.Templates = []*chart.File{{Name: "templates/cm.yaml", Data: []byte(body)}}
	ch.Raw = []*chart.File{{Name: "values.yaml", Data: []byte("a: 1\n")}}
	ch.Values = map[string]interface{}{"a": 1}
	return ch
}

// file names an archive may carry other than <name>-<version>.tgz
func c17RenamedNames(name string) []string {
	return []string{"ci-build-4711.tgz", "mirror-" + name, strings.TrimSuffix(name, ".tgz") + ".copy.TGZ"}
}

func c17Hex(b []byte) string {
	h := sha256.Sum256(b)
	return hex.EncodeToString(h[:])
}

func c17Sample(r *rand.Rand, n, k int) []int {
	if n <= k {
		out := make([]int, n)
		for i := range out {
			out[i] = i
		}
		return out
	}
	p := r.Perm(n)[:k]
	sort.Ints(p)
	return p
}

func c17Build(r *rand.Rand, exhaustive, withCmd bool) c17Case {
	k := c17GetKeys()
	work, _ := os.MkdirTemp(k.dir, "gen-")
	defer os.RemoveAll(work)
	ch := c17Chart(r, false)
	if err := chartutil.SaveDir(ch, work); err != nil {
		panic(err)
	}
	out := filepath.Join(work, "out")
	os.MkdirAll(out, 0o755)
	// the real packaging + signing entry point
	p := action.NewPackage()
	p.Sign, p.Key, p.Keyring, p.Destination = true, "Trusted Signer", k.signerSecret, out
	path, err := p.Run(filepath.Join(work, ch.Metadata.Name), nil)
	if err != nil {
		panic(fmt.Sprint("package --sign: ", err))
	}
	c := c17Case{Name: filepath.Base(path), RingSigner: k.signerPub, RingOther: k.otherPub, SecA: k.signerSecB, SecB: k.otherSecB, Sigs: c17SigMatrix(), Files: c17FileMatrix()}
	c.Archive, _ = os.ReadFile(path)
	c.Prov, _ = os.ReadFile(path + ".prov")
	// the same archive signed by the other key
	alt := &provenance.Signatory{Entity: k.other}
	s, err := alt.ClearSign(path)
	if err != nil {
		panic(err)
	}
	c.AltProv = []byte(s)
	// a different archive under the same name, signed by the other key
	evilDir := filepath.Join(work, "evil")
	os.MkdirAll(evilDir, 0o755)
	ch.Templates[0].Data = append(ch.Templates[0].Data, []byte("data:\n  backdoor: \"1\"\n")...)
	ep, err := chartutil.Save(ch, evilDir)
	if err != nil {
		panic(err)
	}
	c.EvilArchive, _ = os.ReadFile(ep)
	s, err = alt.ClearSign(ep)
	if err != nil {
		panic(err)
	}
	c.EvilProv = []byte(s)

	// renamed copies signed under their own name
	c.Renamed = map[string][]byte{}
	for _, nm := range c17RenamedNames(c.Name) {
		rp := filepath.Join(work, "renamed", nm)
		os.MkdirAll(filepath.Dir(rp), 0o755)
		os.WriteFile(rp, c.Archive, 0o644)
		ps := action.NewPackage()
		ps.Key, ps.Keyring = "Trusted Signer", k.signerSecret
		if err := ps.Clearsign(rp); err != nil {
			panic(fmt.Sprint("signing a renamed copy: ", err))
		}
		c.Renamed[nm], _ = os.ReadFile(rp + ".prov")
	}
	// messages of unusual shape, signed by the trusted key itself
	realSum := "sha256:" + c17Hex(c.Archive)
	evilSum := "sha256:" + c17Hex(c.EvilArchive)
	meta, _ := yaml.Marshal(ch.Metadata)
	sums := func(name, v string) string { return "files:\n  " + name + ": " + v + "\n" }
	c.Customs = map[string][]byte{}
	for key, msg := range map[string]string{
		"three-real-evil": string(meta) + "\n...\n" + sums(c.Name, realSum) + "\n...\n" + sums(c.Name, evilSum),
		"three-evil-real": string(meta) + "\n...\n" + sums(c.Name, evilSum) + "\n...\n" + sums(c.Name, realSum),
		"prefix-hash":     string(meta) + "\n...\n" + sums(c.Name, realSum[:20]),
		"upper-hash":      string(meta) + "\n...\n" + sums(c.Name, "sha256:"+strings.ToUpper(realSum[7:])),
		"bare-hash":       string(meta) + "\n...\n" + sums(c.Name, realSum[7:]),
		"one-part":        string(meta) + "\n" + sums(c.Name, realSum),
		"other-name":      string(meta) + "\n...\n" + sums("y"+c.Name, realSum),
		"two-names":       string(meta) + "\n...\n" + sums("y"+c.Name, evilSum) + "  " + c.Name + ": " + realSum + "\n",
		"bad-meta":        "name: [unclosed\n...\n" + sums(c.Name, realSum),
		"sums-not-map":    string(meta) + "\n...\nfiles: 7\n",
		"path-name":       string(meta) + "\n...\n" + sums("sub/dir/"+c.Name, realSum),
		"empty-digest":    string(meta) + "\n...\n" + sums(c.Name, "\"sha256:\""), // no digest at all: what an unreadable archive "hashed" to before fda75d8
	} {
		var buf bytes.Buffer
		w, err := clearsign.Encode(&buf, k.signer.PrivateKey, &packet.Config{DefaultHash: crypto.SHA512})
		if err != nil {
			panic(err)
		}
		io.WriteString(w, msg)
		if err := w.Close(); err != nil {
			panic(err)
		}
		c.Customs[key] = buf.Bytes()
	}

	add := func(m c17Mut) { c.Muts = append(c.Muts, m) }
	for _, key := range []string{"three-real-evil", "three-evil-real", "prefix-hash", "upper-hash", "bare-hash", "one-part", "other-name",
		"two-names", "bad-meta", "sums-not-map", "path-name", "empty-digest"} {
		for v := 0; v < 2; v++ {
			e := "reject"
			if (key == "three-real-evil" || key == "two-names") && v == 0 || key == "three-evil-real" && v == 1 {
				e = "accept"
			}
			add(c17Mut{T: "prov", Op: "custom", S: key, Val: v, KR: "signer", Expect: e})
		}
	}
	add(c17Mut{T: "prov", Op: "custom-subdir", S: "path-name", KR: "signer", Expect: "reject"})
	for _, nm := range c17RenamedNames(c.Name) {
		add(c17Mut{T: "prov", Op: "resigned", S: nm, KR: "signer", Expect: "accept"})           // signed and verified under the new name
		add(c17Mut{T: "prov", Op: "resigned", S: nm, KR: "other", Expect: "reject"})            //   ... untrusted keyring
		add(c17Mut{T: "prov", Op: "resigned-orig-name", S: nm, KR: "signer", Expect: "reject"}) // that provenance next to the canonical name
		add(c17Mut{T: "prov", Op: "resigned-evil", S: nm, KR: "signer", Expect: "reject"})      // other bytes under the new name
	}
	for _, kr := range []string{"signer", "both"} {
		add(c17Mut{T: "none", KR: kr, Expect: "accept"})
	}
	for _, kr := range []string{"other", "empty", "garbage"} {
		add(c17Mut{T: "none", KR: kr, Expect: "reject"})
	}
	krs := func() string { return []string{"signer", "signer", "signer", "both"}[r.Intn(4)] }
	// archive
	na := len(c.Archive)
	if exhaustive {
		for i := 0; i < na; i++ {
			for _, v := range []int{0x01, 0x80, 0xff} {
				add(c17Mut{T: "archive", Op: "xor", Pos: i, Val: v, KR: "signer", Expect: "reject"})
			}
			add(c17Mut{T: "archive", Op: "trunc", Pos: i, KR: "signer", Expect: "reject"})
		}
	} else {
		for _, i := range c17Sample(r, na, 90) {
			v := 1 << uint(r.Intn(8))
			if r.Intn(2) == 0 {
				v = 1 + r.Intn(255)
			}
			add(c17Mut{T: "archive", Op: "xor", Pos: i, Val: v, KR: krs(), Expect: "reject"})
		}
		for _, i := range c17Sample(r, na, 12) {
			add(c17Mut{T: "archive", Op: "trunc", Pos: i, KR: krs(), Expect: "reject"})
		}
		add(c17Mut{T: "archive", Op: "trunc", Pos: 0, KR: "signer", Expect: "reject"})
		add(c17Mut{T: "archive", Op: "trunc", Pos: na - 1, KR: "signer", Expect: "reject"})
	}
	add(c17Mut{T: "archive", Op: "append", Val: 0, KR: "signer", Expect: "reject"})
	add(c17Mut{T: "archive", Op: "append", Val: r.Intn(256), KR: "signer", Expect: "reject"})
	add(c17Mut{T: "archive", Op: "evil", KR: "signer", Expect: "reject"}) // the other archive with the original provenance
	// provenance: byte level
	np := len(c.Prov)
	if exhaustive {
		for i := 0; i < np; i++ {
			add(c17Mut{T: "prov", Op: "xor", Pos: i, Val: 0x01, KR: "signer"})
			add(c17Mut{T: "prov", Op: "xor", Pos: i, Val: 0x20, KR: "signer"})
			add(c17Mut{T: "prov", Op: "del", Pos: i, KR: "signer"})
		}
	} else {
		sigStart := bytes.Index(c.Prov, []byte("-----BEGIN PGP SIGNATURE-----"))
		hdrEnd := bytes.Index(c.Prov, []byte("\n\n"))
		for _, i := range c17Sample(r, hdrEnd+2, 10) {
			add(c17Mut{T: "prov", Op: "xor", Pos: i, Val: 1 << uint(r.Intn(7)), KR: krs()})
		}
		for _, i := range c17Sample(r, sigStart-hdrEnd-2, 45) {
			op := []string{"xor", "xor", "xor", "del", "insert"}[r.Intn(5)]
			add(c17Mut{T: "prov", Op: op, Pos: hdrEnd + 2 + i, Val: 1 + r.Intn(127), KR: krs()})
		}
		for _, i := range c17Sample(r, np-sigStart, 40) {
			op := []string{"xor", "xor", "xor", "del", "insert"}[r.Intn(5)]
			add(c17Mut{T: "prov", Op: op, Pos: sigStart + i, Val: 1 << uint(r.Intn(7)), KR: krs()})
		}
		for _, i := range c17Sample(r, np, 8) {
			add(c17Mut{T: "prov", Op: "trunc", Pos: i, KR: "signer"})
		}
	}
	// provenance: structural
	lines := bytes.Count(c.Prov, []byte("\n"))
	for n := 0; n < 6; n++ {
		add(c17Mut{T: "prov", Op: "line-ws", Pos: r.Intn(lines), S: []string{" ", "\t", "  \t "}[r.Intn(3)], KR: "signer"})
	}
	for n := 0; n < 4; n++ {
		add(c17Mut{T: "prov", Op: "line-dash", Pos: r.Intn(lines), KR: "signer"})
	}
	for n := 0; n < 3; n++ {
		add(c17Mut{T: "prov", Op: "dup-line", Pos: r.Intn(lines), KR: "signer"})
	}
	add(c17Mut{T: "prov", Op: "crlf", KR: "signer"})
	add(c17Mut{T: "prov", Op: "junk-before", S: "some text\nfiles:\n  " + c.Name + ": sha256:00\n", KR: "signer"})
	add(c17Mut{T: "prov", Op: "junk-after", S: "\ntrailing text\n...\nfiles:\n  " + c.Name + ": sha256:00\n", KR: "signer"})
	add(c17Mut{T: "prov", Op: "hash-edit", Pos: r.Intn(64), KR: "signer", Expect: "reject"})
	add(c17Mut{T: "prov", Op: "name-edit", KR: "signer", Expect: "reject"})
	add(c17Mut{T: "prov", Op: "sep-edit", KR: "signer", Expect: "reject"})
	for _, kr := range []string{"signer", "other", "both", "empty"} {
		e := "reject"
		if kr == "other" || kr == "both" {
			e = "accept" // the keyring trusts that key: accepted by the property's own wording
		}
		add(c17Mut{T: "prov", Op: "alt", KR: kr, Expect: e})
		add(c17Mut{T: "prov", Op: "evil", KR: kr, Expect: e})                  // evil archive + its provenance
		add(c17Mut{T: "prov", Op: "evil-prov-only", KR: kr, Expect: "reject"}) // original archive, evil provenance
	}
	add(c17Mut{T: "prov", Op: "evil-first", KR: "signer", Expect: "reject"}) // attacker's block before the genuine one, evil archive
	add(c17Mut{T: "prov", Op: "evil-first-orig", KR: "signer", Expect: "reject"})
	// names
	add(c17Mut{T: "name", Op: "rename", S: "x-" + c.Name, KR: "signer", Expect: "reject"})
	add(c17Mut{T: "name", Op: "rename", S: strings.TrimSuffix(c.Name, ".tgz") + ".TGZ", KR: "signer", Expect: "reject"})
	add(c17Mut{T: "name", Op: "rename", S: strings.TrimSuffix(c.Name, ".tgz") + ".tar.gz", KR: "signer", Expect: "reject"})
	add(c17Mut{T: "name", Op: "rename", S: strings.TrimSuffix(c.Name, ".tgz"), KR: "signer", Expect: "reject"})
	add(c17Mut{T: "name", Op: "subdir", S: "sub/dir", KR: "signer", Expect: "accept"})
	add(c17Mut{T: "name", Op: "subdir", S: "x-" + c.Name, KR: "signer", Expect: "accept"}) // a DIRECTORY named like another file
	// strategy checks
	// every strategy / every combination of the verification flags of each entry point against
	// a genuine pair, a tampered archive, a tampered provenance file, the pair served under
	// another name, an untrusted signer, a missing provenance file, an unloadable keyring
	// (the same list for every case: nothing here depends on the random source)
	for st := 0; st < 4; st++ {
		for _, v := range []string{"good", "tampered", "tampered-prov", "wrong-name", "noprov", "untrusted", "nochart", "nokeyring"} {
			c.Dls = append(c.Dls, c17Dl{Kind: "download", Strat: st, Variant: v})
		}
	}
	for _, v := range []string{"good", "tampered", "tampered-prov", "wrong-name", "noprov", "untrusted", "nokeyring"} {
		for st := 0; st < 2; st++ {
			c.Dls = append(c.Dls, c17Dl{Kind: "locate-local", Strat: st * 2, Variant: v})
			c.Dls = append(c.Dls, c17Dl{Kind: "locate-remote", Strat: st * 2, Variant: v})
		}
		for _, st := range []int{0, 2, 3, 5} { // Pull{Verify, VerifyLater}: all four combinations
			c.Dls = append(c.Dls, c17Dl{Kind: "pull", Strat: st, Variant: v})
		}
	}
	// the same strategies through the dependency manager and the command line
	if !strings.Contains(ch.Metadata.Version, "+") {
		for _, v := range []string{"good", "tampered", "tampered-prov", "wrong-name", "noprov", "untrusted", "nochart"} {
			for st := 0; st < 4; st++ {
				c.Dls = append(c.Dls, c17Dl{Kind: "manager", Strat: st, Variant: v})
			}
		}
		if withCmd {
			for _, v := range []string{"good", "noprov", "tampered"} {
				for _, st := range []int{0, 2} {
					c.Dls = append(c.Dls, c17Dl{Kind: "cmd-dep-update", Strat: st, Variant: v})
					c.Dls = append(c.Dls, c17Dl{Kind: "cmd-dep-build", Strat: st, Variant: v})
				}
			}
		}
	}
	if withCmd {
		for _, v := range []string{"good", "tampered", "noprov", "untrusted"} {
			for _, st := range []int{0, 2, 3, 5} { // helm pull [--verify] [--prov]
				c.Dls = append(c.Dls, c17Dl{Kind: "cmd-pull", Strat: st, Variant: v})
			}
			c.Dls = append(c.Dls, c17Dl{Kind: "cmd-template", Strat: 2, Variant: v})
			c.Dls = append(c.Dls, c17Dl{Kind: "cmd-verify", Strat: 2, Variant: v})
		}
		c.Dls = append(c.Dls, c17Dl{Kind: "cmd-template", Strat: 0, Variant: "good"}, c17Dl{Kind: "cmd-template", Strat: 0, Variant: "noprov"})
	}
	return c
}

// command-line runs go through cobra, whose global initialiser list grows with every run:
// only the first cases of a run carry them
func (*c17) Generate(r *rand.Rand, i int) any { return c17Build(r, false, i < 40) }

// the witness of the repaired `helm dependency build --verify` defect (missing provenance file
// tolerated) is the cmd-dep-build / strategy 2 / noprov run of every case that carries
// command-line runs; one such case is always run first
func (*c17) Corpus() []any { return []any{c17Build(rand.New(rand.NewSource(17)), false, true)} }

func (*c17) Exhaustive(tier string) []any {
	if tier != "thorough" {
		return nil
	}
	r := rand.New(rand.NewSource(1717))
	return []any{c17Build(r, true, false), c17Build(r, true, false)}
}

func (*c17) Decode(raw json.RawMessage) (any, error) {
	var c c17Case
	err := json.Unmarshal(raw, &c)
	return c, err
}

// ---------------------------------------------------------------- applying a mutant

func c17Lines(b []byte) [][]byte { return bytes.SplitAfter(b, []byte("\n")) }

func c17Apply(c *c17Case, m c17Mut) (archive, prov []byte, rel string) {
	archive, prov, rel = c.Archive, c.Prov, c.Name
	clamp := func(p, n int) int {
		if n == 0 {
			return 0
		}
		if p < 0 {
			p = 0
		}
		return p % n
	}
	edit := func(b []byte) []byte {
		b = append([]byte(nil), b...)
		switch m.Op {
		case "xor":
			if len(b) > 0 {
				v := byte(m.Val)
				if v == 0 {
					v = 1
				}
				b[clamp(m.Pos, len(b))] ^= v
			}
		case "trunc":
			b = b[:clamp(m.Pos, len(b))]
		case "append":
			b = append(b, byte(m.Val))
		case "del":
			if len(b) > 0 {
				p := clamp(m.Pos, len(b))
				b = append(b[:p], b[p+1:]...)
			}
		case "insert":
			p := clamp(m.Pos, len(b)+1)
			b = append(b[:p], append([]byte{byte(m.Val)}, b[p:]...)...)
		}
		return b
	}
	switch m.T {
	case "archive":
		if m.Op == "evil" {
			archive = c.EvilArchive
		} else {
			archive = edit(c.Archive)
		}
	case "name":
		if m.Op == "rename" {
			rel = m.S
		} else {
			rel = filepath.Join(m.S, c.Name)
		}
	case "prov":
		ls := c17Lines(c.Prov)
		li := clamp(m.Pos, len(ls))
		switch m.Op {
		case "xor", "trunc", "append", "del", "insert":
			prov = edit(c.Prov)
		case "line-ws":
			l := ls[li]
			if bytes.HasSuffix(l, []byte("\n")) {
				ls[li] = append(append(append([]byte(nil), l[:len(l)-1]...), m.S...), '\n')
			}
			prov = bytes.Join(ls, nil)
		case "line-dash":
			ls[li] = append([]byte("- "), ls[li]...)
			prov = bytes.Join(ls, nil)
		case "dup-line":
			out := append([][]byte(nil), ls[:li+1]...)
			out = append(out, ls[li])
			out = append(out, ls[li+1:]...)
			prov = bytes.Join(out, nil)
		case "crlf":
			prov = bytes.ReplaceAll(c.Prov, []byte("\n"), []byte("\r\n"))
		case "junk-before":
			prov = append([]byte(m.S), c.Prov...)
		case "junk-after":
			prov = append(append([]byte(nil), c.Prov...), m.S...)
		case "hash-edit":
			i := bytes.Index(c.Prov, []byte("sha256:"))
			prov = append([]byte(nil), c.Prov...)
			if i >= 0 {
				p := i + 7 + clamp(m.Pos, 64)
				if prov[p] == '0' {
					prov[p] = '1'
				} else {
					prov[p] = '0'
				}
			}
		case "name-edit":
			prov = bytes.Replace(c.Prov, []byte("  "+c.Name+":"), []byte("  y"+c.Name+":"), 1)
		case "sep-edit":
			i := bytes.LastIndex(c.Prov, []byte("\n...\n"))
			prov = append([]byte(nil), c.Prov...)
			if i >= 0 {
				prov[i+1] = ','
			}
		case "custom", "custom-subdir":
			prov = c.Customs[m.S]
			if m.Val == 1 {
				archive = c.EvilArchive
			}
			if m.Op == "custom-subdir" {
				rel = filepath.Join("sub/dir", c.Name)
			}
		case "resigned":
			prov, rel = c.Renamed[m.S], m.S
		case "resigned-orig-name":
			prov = c.Renamed[m.S]
		case "resigned-evil":
			prov, rel, archive = c.Renamed[m.S], m.S, c.EvilArchive
		case "alt":
			prov = c.AltProv
		case "evil":
			prov, archive = c.EvilProv, c.EvilArchive
		case "evil-prov-only":
			prov = c.EvilProv
		case "evil-first":
			prov, archive = append(append([]byte(nil), c.EvilProv...), c.Prov...), c.EvilArchive
		case "evil-first-orig":
			prov = append(append([]byte(nil), c.EvilProv...), c.Prov...)
		}
	}
	return
}

// ---------------------------------------------------------------- independent recomputation (tables)

func c17Ring(c *c17Case, kr string) []byte {
	switch kr {
	case "signer":
		return c.RingSigner
	case "other":
		return c.RingOther
	case "both":
		return append(append([]byte(nil), c.RingSigner...), c.RingOther...)
	case "garbage":
		return []byte("this is not a keyring\n")
	}
	return nil
}

func c17Tables(prov, ring []byte) (tab c17Tab, sigOK, krLoads bool) {
	el, err := openpgp.ReadKeyRing(bytes.NewReader(ring))
	krLoads = err == nil
	block, _ := clearsign.Decode(prov)
	if block == nil {
		return
	}
	tab.Decoded = true
	tab.Plaintext, tab.Bytes = string(block.Plaintext), string(block.Bytes)
	if krLoads {
		_, err := openpgp.CheckDetachedSignature(el, bytes.NewReader(block.Bytes), block.ArmoredSignature.Body)
		sigOK = err == nil
	}
	parts := strings.Split(tab.Plaintext, "\n...\n")
	if len(parts) >= 2 {
		tab.TwoParts, tab.Part0, tab.Part1 = true, parts[0], parts[1]
		tab.MetaOK = yaml.Unmarshal([]byte(parts[0]), &chart.Metadata{}) == nil
		var sc struct {
			Files map[string]string `json:"files"`
		}
		if yaml.Unmarshal([]byte(parts[1]), &sc) == nil {
			// provenance.SumCollection has a second field; its presence may change strictness
			var sc2 provenance.SumCollection
			if yaml.Unmarshal([]byte(parts[1]), &sc2) == nil {
				tab.SumsOK, tab.Sums = true, sc.Files
			}
		}
	}
	return
}

// the right-hand side of C17_verify_iff on the recomputed tables
func c17Expected(tab *c17Tab, sigOK bool, base, sha string) (bool, string) {
	if !tab.Decoded || !sigOK || !tab.TwoParts || !tab.MetaOK || !tab.SumsOK {
		return false, ""
	}
	want := "sha256:" + sha
	if got, ok := tab.Sums[base]; ok && got == want {
		return true, want
	}
	return false, ""
}

// ---------------------------------------------------------------- execution

// a local file server reached by the real HTTP getter through a transport that sends every
// host name to it (hook getter.VerifSetDefaultTransport)
type c17Srv struct {
	mu    sync.Mutex
	files map[string][]byte // host+path -> body
}

var (
	c17SrvOnce sync.Once
	c17S       *c17Srv
)

func c17Server() *c17Srv {
	c17SrvOnce.Do(func() {
		s := &c17Srv{}
		ts := httptest.NewServer(http.HandlerFunc(func(w http.ResponseWriter, r *http.Request) {
			s.mu.Lock()
			b, ok := s.files[r.Host+r.URL.Path]
			s.mu.Unlock()
			if !ok {
				http.NotFound(w, r)
				return
			}
			w.Write(b)
		}))
		addr := ts.Listener.Addr().String()
		getter.VerifSetDefaultTransport(&http.Transport{DisableKeepAlives: true,
			DialContext: func(ctx context.Context, network, _ string) (net.Conn, error) {
				var d net.Dialer
				return d.DialContext(ctx, "tcp", addr)
			}})
		for _, k := range []string{"HTTP_PROXY", "HTTPS_PROXY", "http_proxy", "https_proxy", "HELM_REPOSITORY_CONFIG", "HELM_REPOSITORY_CACHE", "HELM_PLUGINS"} {
			os.Unsetenv(k)
		}
		c17S = s
	})
	return c17S
}

func (p *c17) Execute(ci any) any {
	c := ci.(c17Case)
	k := c17GetKeys()
	work, _ := os.MkdirTemp(k.dir, "case-")
	defer os.RemoveAll(work)
	rings := map[string]string{}
	for _, kr := range []string{"signer", "other", "both", "empty", "garbage"} {
		f := filepath.Join(work, kr+".pub")
		os.WriteFile(f, c17Ring(&c, kr), 0o644)
		rings[kr] = f
	}
	var obs c17Obs
	run := func(i int, archive, prov []byte, rel, kr string) (res c17Res) {
		dir := filepath.Join(work, fmt.Sprintf("m%d", i))
		path := filepath.Join(dir, rel)
		os.MkdirAll(filepath.Dir(path), 0o755)
		os.WriteFile(path, archive, 0o644)
		os.WriteFile(path+".prov", prov, 0o644)
		defer os.RemoveAll(dir)
		h := sha256.Sum256(archive)
		res.Name, res.Sha = filepath.Base(rel), hex.EncodeToString(h[:])
		res.Tab, res.SigOK, res.KrLoads = c17Tables(prov, c17Ring(&c, kr))
		defer func() {
			if x := recover(); x != nil {
				res.Panic = fmt.Sprint(x)
			}
		}()
		if sig, err := provenance.NewFromKeyring(rings[kr], ""); err == nil {
			if ver, err := sig.Verify(path, path+".prov"); err == nil {
				res.OK, res.Hash = true, ver.FileHash
			}
			if base := filepath.Base(rel); base != c.Name && !res.OK {
				// round 6 (seeded C17-9): the provenance file under its ORIGINAL name next to the renamed archive
				// (helm verify of a copy / a cache layout): the file name is part of what is signed
				orig := filepath.Join(filepath.Dir(path), c.Name+".prov")
				os.WriteFile(orig, prov, 0o644)
				if ver, err := sig.Verify(path, orig); err == nil {
					res.OK, res.Hash = true, ver.FileHash
				}
			}
		}
		if ver, err := downloader.VerifyChart(path, rings[kr]); err == nil {
			res.OKvc, res.HashVC = true, ver.FileHash
		}
		return res
	}
	for i, m := range c.Muts {
		archive, prov, rel := c17Apply(&c, m)
		obs.Res = append(obs.Res, run(i, archive, prov, rel, m.KR))
	}
	for i, d := range c.Dls {
		obs.Dls = append(obs.Dls, c17RunDl(&c, d, filepath.Join(work, fmt.Sprintf("d%d", i)), rings))
	}
	obs.Sigs = c17RunSigs(&c, work)
	obs.Files = c17RunFiles(&c, work, rings)
	obs.BlockNote = c17CheckBlock(&c)
	c17Count("mutant_verifications (Signatory.Verify + VerifyChart each)", len(obs.Res))
	c17Count("strategy_runs (DownloadTo / LocateChart / Pull)", len(obs.Dls))
	for _, r := range obs.Res {
		if r.OK {
			c17Count("mutants_accepted", 1)
		}
	}
	return obs
}

func c17RunDl(c *c17Case, d c17Dl, dir string, rings map[string]string) (res c17DlRes) {
	os.MkdirAll(dir, 0o755)
	defer os.RemoveAll(dir)
	archive, prov, kr := c.Archive, c.Prov, "signer"
	name := c.Name // the file name the pair is served / stored under
	res.ChartOK, res.ProvOK = true, true
	switch d.Variant {
	case "tampered":
		archive = append([]byte(nil), c.Archive...)
		archive[len(archive)/2] ^= 0x10
	case "tampered-prov": // one digit of the signed digest changed: the signature no longer checks
		_, prov, _ = c17Apply(c, c17Mut{T: "prov", Op: "hash-edit", Pos: 3})
	case "wrong-name": // the genuine pair under a name the provenance file does not list
		name = "x-" + c.Name
	case "noprov":
		res.ProvOK = false
	case "untrusted":
		kr = "other"
	case "nochart":
		res.ChartOK = false
	case "nokeyring":
		kr = "garbage"
	}
	h := sha256.Sum256(archive)
	res.Chk.Name, res.Chk.Sha = name, hex.EncodeToString(h[:])
	res.Chk.Tab, res.Chk.SigOK, res.Chk.KrLoads = c17Tables(prov, c17Ring(c, kr))
	defer func() {
		if x := recover(); x != nil {
			res.Panic, res.Err = fmt.Sprint(x), true
		}
	}()
	base := "http://charts.test/pkg/"
	srv := c17Server()
	files := map[string][]byte{}
	if res.ChartOK {
		files["charts.test/pkg/"+name] = archive
	}
	if res.ProvOK {
		files["charts.test/pkg/"+name+".prov"] = prov
	}
	srv.mu.Lock()
	srv.files = files
	srv.mu.Unlock()
	settings := cli.New()
	settings.RepositoryConfig, settings.RepositoryCache = filepath.Join(dir, "none.yaml"), filepath.Join(dir, "cache")
	settings.PluginsDirectory = filepath.Join(dir, "plugins")
	dest := filepath.Join(dir, "dest")
	os.MkdirAll(dest, 0o755)
	switch d.Kind {
	case "download":
		dl := downloader.ChartDownloader{Out: io.Discard, Verify: downloader.VerificationStrategy(d.Strat), Keyring: rings[kr],
			Getters: getter.All(settings), RepositoryConfig: settings.RepositoryConfig, RepositoryCache: settings.RepositoryCache}
		_, ver, err := dl.DownloadTo(base+name, "", dest)
		res.Err = err != nil
		if err == nil && ver != nil && ver.FileHash != "" {
			res.HasHash, res.Hash = true, ver.FileHash
		}
	case "locate-local":
		path := filepath.Join(dest, name)
		os.WriteFile(path, archive, 0o644)
		if res.ProvOK {
			os.WriteFile(path+".prov", prov, 0o644)
		}
		cpo := action.ChartPathOptions{Verify: d.required(), Keyring: rings[kr]}
		_, err := cpo.LocateChart(path, settings)
		res.Err = err != nil
	case "cmd-pull":
		args := []string{"pull", base + name, "-d", dest, "--keyring", rings[kr], "--repository-config", settings.RepositoryConfig, "--repository-cache", settings.RepositoryCache}
		if d.required() {
			args = append(args, "--verify")
		}
		if d.later() {
			args = append(args, "--prov")
		}
		_, err := helmcmd.VerifRunCmd(args, c17Cfg())
		res.Err = err != nil
	case "cmd-template":
		args := []string{"template", "rel", base + name, "--keyring", rings[kr], "--repository-config", settings.RepositoryConfig, "--repository-cache", settings.RepositoryCache}
		if d.required() {
			args = append(args, "--verify")
		}
		_, err := helmcmd.VerifRunCmd(args, c17Cfg())
		res.Err = err != nil
	case "cmd-verify":
		path := filepath.Join(dest, name)
		os.WriteFile(path, archive, 0o644)
		if res.ProvOK {
			os.WriteFile(path+".prov", prov, 0o644)
		}
		_, err := helmcmd.VerifRunCmd([]string{"verify", path, "--keyring", rings[kr]}, c17Cfg())
		res.Err = err != nil
	case "manager", "cmd-dep-update", "cmd-dep-build":
		ch, err := loader.LoadArchive(bytes.NewReader(c.Archive))
		if err != nil {
			res.Err, res.Panic = true, "case archive does not load: "+err.Error()
			return res
		}
		idx, _ := yaml.Marshal(map[string]any{"apiVersion": "v1", "entries": map[string]any{ch.Metadata.Name: []map[string]any{
			{"apiVersion": "v2", "name": ch.Metadata.Name, "version": ch.Metadata.Version, "urls": []string{name}}}}})
		srv.mu.Lock()
		srv.files["charts.test/pkg/index.yaml"] = idx
		srv.mu.Unlock()
		os.MkdirAll(settings.RepositoryCache, 0o755)
		os.WriteFile(filepath.Join(settings.RepositoryCache, "r-index.yaml"), idx, 0o644)
		settings.RepositoryConfig = filepath.Join(dir, "repositories.yaml")
		os.WriteFile(settings.RepositoryConfig, []byte("apiVersion: \"\"\nrepositories:\n- name: r\n  url: http://charts.test/pkg\n"), 0o644)
		parent := filepath.Join(dir, "parent")
		os.MkdirAll(parent, 0o755)
		md, _ := yaml.Marshal(&chart.Metadata{APIVersion: "v2", Name: "parent", Version: "0.1.0",
			Dependencies: []*chart.Dependency{{Name: ch.Metadata.Name, Version: ch.Metadata.Version, Repository: "http://charts.test/pkg"}}})
		os.WriteFile(filepath.Join(parent, "Chart.yaml"), md, 0o644)
		repoFlags := []string{"--keyring", rings[kr], "--skip-refresh", "--repository-config", settings.RepositoryConfig, "--repository-cache", settings.RepositoryCache}
		switch d.Kind {
		case "manager":
			m := &downloader.Manager{Out: io.Discard, ChartPath: parent, Keyring: rings[kr], SkipUpdate: true, Getters: getter.All(settings),
				RepositoryConfig: settings.RepositoryConfig, RepositoryCache: settings.RepositoryCache, Verify: downloader.VerificationStrategy(d.Strat)}
			res.Err = m.Update() != nil
		case "cmd-dep-update":
			args := append([]string{"dependency", "update", parent}, repoFlags...)
			if d.required() {
				args = append(args, "--verify")
			}
			_, err := helmcmd.VerifRunCmd(args, c17Cfg())
			res.Err = err != nil
		case "cmd-dep-build":
			// a lock file first (genuine archive, no verification), then the build under test
			srv.mu.Lock()
			srv.files["charts.test/pkg/"+name] = c.Archive
			srv.mu.Unlock()
			m := &downloader.Manager{Out: io.Discard, ChartPath: parent, SkipUpdate: true, Getters: getter.All(settings),
				RepositoryConfig: settings.RepositoryConfig, RepositoryCache: settings.RepositoryCache}
			if err := m.Update(); err != nil {
				res.Err, res.Panic = true, "preparing the lock file: "+err.Error()
				return res
			}
			os.RemoveAll(filepath.Join(parent, "charts"))
			srv.mu.Lock()
			delete(srv.files, "charts.test/pkg/"+name)
			if res.ChartOK {
				srv.files["charts.test/pkg/"+name] = archive
			}
			srv.mu.Unlock()
			args := append([]string{"dependency", "build", parent}, repoFlags...)
			if d.required() {
				args = append(args, "--verify")
			}
			_, err := helmcmd.VerifRunCmd(args, c17Cfg())
			res.Err = err != nil
		}
	case "locate-remote", "pull":
		if d.Kind == "locate-remote" {
			cpo := action.ChartPathOptions{Verify: d.required(), Keyring: rings[kr]}
			_, err := cpo.LocateChart(base+name, settings)
			res.Err = err != nil
		} else {
			pl := action.NewPull(action.WithConfig(&action.Configuration{}))
			pl.Settings, pl.DestDir, pl.Keyring = settings, dest, rings[kr]
			pl.Verify, pl.VerifyLater = d.required(), d.later()
			_, err := pl.Run(base + name)
			res.Err = err != nil
		}
	}
	return res
}

func c17Cfg() *action.Configuration {
	return &action.Configuration{Releases: storage.Init(driver.NewMemory()), KubeClient: &kubefake.PrintingKubeClient{Out: io.Discard},
		Capabilities: chartutil.DefaultCapabilities}
}

func c17Count(key string, n int) {
	v, _ := hx.Extra[key].(int)
	hx.Extra[key] = v + n
}

// ---------------------------------------------------------------- oracle

func (*c17) Oracle(ci, oi any) []hx.Violation {
	c, obs := ci.(c17Case), oi.(c17Obs)
	var vs []hx.Violation
	seen := map[string]bool{}
	flag := func(sig, what string) {
		if !seen[sig] {
			seen[sig] = true
			vs = append(vs, hx.Violation{Sig: "C17:" + sig, What: what})
		}
	}
	if obs.BlockNote != "" {
		flag("sign-hypothesis", "hypothesis of C17_sign_then_verify fails on "+c.Name+": "+obs.BlockNote)
	}
	for i, m := range c.Muts {
		if i >= len(obs.Res) {
			break
		}
		r := obs.Res[i]
		desc := fmt.Sprintf("mutant %d (%s/%s pos=%d val=%d kr=%s) of %s", i, m.T, m.Op, m.Pos, m.Val, m.KR, c.Name)
		if r.Panic != "" {
			flag("panic", desc+": panic "+r.Panic)
			continue
		}
		// (1) the right-hand side of the iff, recomputed from the libraries
		want, wantHash := c17Expected(&r.Tab, r.SigOK, r.Name, r.Sha)
		if r.OK && !want {
			flag("accepted-without-valid-provenance-"+m.T, desc+": Signatory.Verify accepted although signature / sums / digest do not all hold")
		}
		if !r.OK && want {
			flag("rejected-valid-provenance", desc+": Signatory.Verify rejected a pair whose signature, sums entry and digest all hold")
		}
		if r.OK && r.Hash != wantHash {
			flag("wrong-filehash", desc+": FileHash "+r.Hash+" is not sha256 of the archive")
		}
		// VerifyChart = Verify behind the .tgz / keyring-loads gate
		wantVC := want && r.KrLoads && strings.EqualFold(filepath.Ext(r.Name), ".tgz")
		if r.OKvc != wantVC || (r.OKvc && r.HashVC != wantHash) {
			flag("verifychart-disagrees", desc+fmt.Sprintf(": downloader.VerifyChart ok=%v, expected %v", r.OKvc, wantVC))
		}
		// (2) by construction
		if m.Expect == "reject" && (r.OK || r.OKvc) {
			flag("tampering-accepted-"+m.T+"-"+m.Op, desc+": a tampered archive / message / name or an untrusted key was accepted")
		}
		if m.Expect == "accept" && !r.OK {
			flag("genuine-rejected-"+m.T+"-"+m.Op, desc+": a genuine signed pair was rejected")
		}
	}
	for i, d := range c.Dls {
		if i >= len(obs.Dls) {
			break
		}
		r := obs.Dls[i]
		desc := fmt.Sprintf("%s %s variant=%s of %s", d.Kind, d.how(), d.Variant, c.Name)
		if r.Panic != "" {
			flag("panic", desc+": panic "+r.Panic)
			continue
		}
		verifies, _ := c17Expected(&r.Chk.Tab, r.Chk.SigOK, r.Chk.Name, r.Chk.Sha)
		verifies = verifies && r.Chk.KrLoads && r.ProvOK
		// verification required (VerifyAlways / --verify, whatever else is set): success means
		// the artefact is genuine and signed by a key of the keyring
		if d.required() && r.ChartOK && !verifies && !r.Err {
			flag("required-verification-failed-open-"+d.Kind, desc+": verification was required and fails, but no error was returned")
		}
		if d.Variant == "good" && r.Err {
			flag("genuine-download-rejected-"+d.Kind, desc+": a genuine signed chart was refused")
		}
		if d.Kind == "download" && d.Strat == 1 && r.ChartOK && r.ProvOK && !verifies && !r.Err {
			flag("if-possible-bad-provenance-accepted", desc+": a provenance file that does not verify was accepted under VerifyIfPossible")
		}
		if r.HasHash && !verifies {
			flag("verification-reported-without-verifying", desc+": a Verification with a FileHash was returned although nothing verifies")
		}
	}
	c17SigOracle(&c, obs.Sigs, flag)
	c17FileOracle(&c, obs.Files, flag)
	return vs
}

// ---------------------------------------------------------------- Coq printer

// Coq string literals may contain any byte (only the double quote is doubled); writing them
// raw keeps the shards small (hx.CoqStr falls back to unary-number byte lists)
func c17Str(s string) string { return `"` + strings.ReplaceAll(s, `"`, `""`) + `"` }

// digests are opaque to the model: every 64-digit hex digest of a case is renamed
// injectively to a short token (elaborating string literals dominates the Coq time)
type c17Tok struct {
	m      map[string]string
	inSums map[string]string // token -> digest, for the tokens printed inside sums tables
	seenP1 map[string]bool   // part-1 texts already handed to the parser model for this case
	name   string            // the case's archive name, bound once as [nm] around the case term
}

// the case's own name is written as the let-bound variable nm (it occurs some 600 times per
// case and elaborating string literals dominates the Coq time)
func (t *c17Tok) nameRef(n string) string {
	if t.name != "" && n == t.name {
		return "nm"
	}
	return c17Str(n)
}

// a value of a sums table: as val, and the token is remembered for k_toks
func (t *c17Tok) sumVal(v string) string {
	out := t.val(v)
	if out != v {
		if t.inSums == nil {
			t.inSums = map[string]string{}
		}
		t.inSums[out[7:]] = v[7:]
	}
	return out
}

func (t *c17Tok) coqToks() string {
	keys := make([]string, 0, len(t.inSums))
	for k := range t.inSums {
		keys = append(keys, k)
	}
	sort.Strings(keys)
	it := make([]string, 0, len(keys))
	for _, k := range keys {
		it = append(it, hx.CoqPair(c17Str(k), c17Str(t.inSums[k])))
	}
	return hx.CoqList(it)
}

// part 1 can be written as a Coq string literal as it is
func c17Printable(s string) bool {
	if !utf8.ValidString(s) {
		return false
	}
	for i := 0; i < len(s); i++ {
		if (s[i] < 0x20 && s[i] != '\n') || s[i] == 0x7f {
			return false
		}
	}
	return true
}

func (t *c17Tok) hex(h string) string {
	if len(h) != 64 || strings.Trim(h, "0123456789abcdef") != "" {
		return h
	}
	if x, ok := t.m[h]; ok {
		return x
	}
	x := fmt.Sprintf("#%d", len(t.m))
	t.m[h] = x
	return x
}

func (t *c17Tok) val(v string) string {
	if strings.HasPrefix(v, "sha256:") {
		return "sha256:" + t.hex(v[7:])
	}
	return v
}

func c17CoqTab(tk *c17Tok, t *c17Tab, elide bool, base *c17Tab) string {
	if !t.Decoded {
		return `(mkTab None None false None None)`
	}
	sums := "None"
	if t.SumsOK {
		keys := make([]string, 0, len(t.Sums))
		for k := range t.Sums {
			keys = append(keys, k)
		}
		sort.Strings(keys)
		it := make([]string, 0, len(keys))
		for _, k := range keys {
			it = append(it, hx.CoqPair(c17Str(k), c17Str(tk.sumVal(t.Sums[k]))))
		}
		sums = "(Some " + hx.CoqList(it) + ")"
	}
	if elide {
		// the model never reads the text of a block whose signature fails; part 1 alone is
		// kept (with the library's reading of it) for the sums parser
		// (not when it is the case's own part 1 again: that one is parsed with the base table)
		// (once per text and case, and not the case's own part 1 again: that one is parsed with the base table)
		if t.TwoParts && len(t.Part1) < 400 && c17Printable(t.Part1) && !(base != nil && base.TwoParts && base.Part1 == t.Part1) && !tk.seenP1[t.Part1] {
			if tk.seenP1 == nil {
				tk.seenP1 = map[string]bool{}
			}
			tk.seenP1[t.Part1] = true
			c17Count("sums_texts_of_failed_signature_blocks_to_the_parser_model", 1)
			return fmt.Sprintf(`(mkTab (Some ("", "")) None false %s (Some %s))`, sums, c17Str(t.Part1))
		}
		return `(mkTab (Some ("", "")) None false None None)`
	}
	parts := "None"
	if t.TwoParts {
		parts = fmt.Sprintf("(Some (%d, %d))", len(t.Part0), len(t.Part1))
	}
	return fmt.Sprintf("(mkTab (Some (%s, %s)) %s %s %s None)", c17Str(t.Plaintext), c17Str(t.Bytes), parts, hx.CoqBool(t.MetaOK), sums)
}

func c17CoqCheck(tk *c17Tok, r *c17Res) string {
	return fmt.Sprintf("(mkCheck %s %s %s %s %s %s)", tk.nameRef(r.Name), c17Str(tk.hex(r.Sha)), hx.CoqBool(r.SigOK), hx.CoqBool(r.KrLoads),
		hx.CoqOpt(c17Str(tk.val(r.Hash)), r.OK), hx.CoqOpt(c17Str(tk.val(r.HashVC)), r.OKvc))
}

func c17SameTab(a, b *c17Tab) bool {
	if a.Decoded != b.Decoded || a.Plaintext != b.Plaintext || a.Bytes != b.Bytes || a.TwoParts != b.TwoParts ||
		a.Part0 != b.Part0 || a.Part1 != b.Part1 || a.MetaOK != b.MetaOK || a.SumsOK != b.SumsOK || len(a.Sums) != len(b.Sums) {
		return false
	}
	for k, v := range a.Sums {
		if w, ok := b.Sums[k]; !ok || w != v {
			return false
		}
	}
	return true
}

func (*c17) CoqCase(ci, oi any) string {
	c, obs := ci.(c17Case), oi.(c17Obs)
	tk := &c17Tok{m: map[string]string{}, name: c.Name}
	var base *c17Tab
	var checks, provs, dls []string
	for i, m := range c.Muts {
		if i < len(obs.Res) && m.T != "prov" && obs.Res[i].Tab.Decoded {
			base = &obs.Res[i].Tab
			break
		}
	}
	if base == nil {
		base = &c17Tab{}
	}
	for i, m := range c.Muts {
		if i >= len(obs.Res) {
			break
		}
		r := &obs.Res[i]
		if m.T != "prov" {
			checks = append(checks, c17CoqCheck(tk, r))
		} else if c17SameTab(&r.Tab, base) {
			provs = append(provs, hx.CoqPair("None", c17CoqCheck(tk, r)))
		} else {
			provs = append(provs, hx.CoqPair("Some "+c17CoqTab(tk, &r.Tab, !r.SigOK, base), c17CoqCheck(tk, r)))
		}
	}
	for i, d := range c.Dls {
		if i >= len(obs.Dls) {
			break
		}
		r := &obs.Dls[i]
		var kind string
		switch d.Kind {
		case "download":
			kind = fmt.Sprintf("(DDownload %d)", d.Strat)
		case "locate-local":
			kind = "(DLocateLocal " + hx.CoqBool(d.required()) + ")"
		case "locate-remote", "cmd-template":
			kind = "(DLocateRemote " + hx.CoqBool(d.required()) + ")"
		case "cmd-verify":
			kind = "(DLocateLocal true)"
		case "manager":
			kind = fmt.Sprintf("(DManager %d)", d.Strat)
		case "cmd-dep-update":
			kind = "(DDepUpdate " + hx.CoqBool(d.required()) + ")"
		case "cmd-dep-build":
			kind = "(DDepBuild " + hx.CoqBool(d.required()) + ")"
		default:
			kind = fmt.Sprintf("(DPull %s %s)", hx.CoqBool(d.required()), hx.CoqBool(d.later()))
		}
		tab := "None" // library results of the provenance file served: those of the case's
		if !c17SameTab(&r.Chk.Tab, base) {
			tab = "Some " + c17CoqTab(tk, &r.Chk.Tab, !r.Chk.SigOK, base)
		}
		dls = append(dls, hx.CoqPair(tab, fmt.Sprintf("mkDl %s %s %s %s %s %s", kind, hx.CoqBool(r.ChartOK), hx.CoqBool(r.ProvOK), c17CoqCheck(tk, &r.Chk),
			hx.CoqBool(r.Err), hx.CoqOpt(c17Str(tk.val(r.Hash)), r.HasHash))))
	}
	var sigs []string
	for i, g := range c.Sigs {
		if i >= len(obs.Sigs) {
			break
		}
		r := &obs.Sigs[i]
		tab := "None"
		if !c17SameTab(&r.Res.Tab, base) {
			tab = "Some " + c17CoqTab(tk, &r.Res.Tab, !r.Res.SigOK, base)
		}
		sigs = append(sigs, hx.CoqPair(tab, c17CoqSig(tk, g, r)))
	}
	// the blocks the real signing produced, per file name the archive was signed under
	var signs []string
	sha := c17Hex(c.Archive)
	names := append([]string{c.Name}, c17RenamedNames(c.Name)...)
	for _, nm := range names {
		pv := c.Prov
		if nm != c.Name {
			var ok bool
			if pv, ok = c.Renamed[nm]; !ok {
				continue
			}
		}
		tab, _, _ := c17Tables(pv, c.RingSigner)
		sums := "None"
		if tab.SumsOK {
			keys := make([]string, 0, len(tab.Sums))
			for k := range tab.Sums {
				keys = append(keys, k)
			}
			sort.Strings(keys)
			it := make([]string, 0, len(keys))
			for _, k := range keys {
				it = append(it, hx.CoqPair(c17Str(k), c17Str(tk.val(tab.Sums[k]))))
			}
			sums = "(Some " + hx.CoqList(it) + ")"
		}
		signs = append(signs, fmt.Sprintf("mkSign %s %s %s", c17Str(nm), c17Str(tk.hex(sha)), sums))
	}
	var files []string
	for i, f := range c.Files {
		if i >= len(obs.Files) || obs.Files[i].Skipped {
			continue
		}
		r := &obs.Files[i]
		tab := "None"
		if f.Prov == "file" && !c17SameTab(&r.Res.Tab, base) {
			tab = "Some " + c17CoqTab(tk, &r.Res.Tab, !r.Res.SigOK, base)
		}
		files = append(files, hx.CoqPair(tab, c17CoqFile(tk, f, r)))
	}
	baseTab := c17CoqTab(tk, base, false, nil)
	return fmt.Sprintf("(let nm := %s in let ida := %s in let idb := %s in mkCase %s %s %s %s %s %s %s %s)", c17Str(c.Name), c17Str(c17Ident("A")), c17Str(c17Ident("B")), baseTab, hx.CoqList(checks), hx.CoqList(provs), hx.CoqList(dls), hx.CoqList(signs),
		hx.CoqList(sigs), hx.CoqList(files), tk.coqToks())
}

func (*c17) Class(ci, oi any) string {
	obs := oi.(c17Obs)
	acc := 0
	for _, r := range obs.Res {
		if r.OK {
			acc++
		}
	}
	return fmt.Sprintf("mutants=%d-accepted=%d", len(obs.Res)/50*50, acc/5*5)
}

func (*c17) NonTrivial(ci, oi any) bool {
	obs := oi.(c17Obs)
	if len(obs.Res) == 0 || !obs.Res[0].OK {
		return false
	}
	for _, r := range obs.Res {
		if !r.OK {
			return true
		}
	}
	return false
}

package main

// Translator table ActionSkeleton: the *effect skeleton* of the release operations, read out
// of /repo's Go source with go/ast on every check run (coq/Gen/ActionSkeleton.v).
//
// For every tracked function (skelTracked) the body is walked statement by statement and
// everything that cannot reach the release storage driver or the cluster is erased.  What is
// left: the effectful calls in evaluation order (Call kind), calls of other tracked
// functions (Fn), runs of freshly constructed actions (Run, with the options copied from the
// caller), and the control flow around them (If / Loop / Return) with conditions abstracted
// to the option flags they test (CFlag), nil-tests of a call's last result (CErr) and
// everything else (CData).  A `return` is ReturnOk when its last result is the literal nil,
// ReturnErr when it is an error constructor or a variable the enclosing `if x != nil` proved
// non-nil, Return otherwise; Pure marks an assignment of an error variable by a call the
// translator ignores (kept only in front of an error test or a return, where it matters to
// the checker).  Statements without effect, call or return are dropped, so renaming locals,
// adding log lines and reformatting do not change the table.
//
// The TRUSTED part is the classification below: which receiver class a field selects
// (skelFieldClass), which (class, method) pairs are effects (skelEffects), which are known
// not to be (skelIgnored / skelIgnoredFuncs), and which fields are option flags (skelFlags).
// Everything that has a receiver of a known class, or is an unqualified call, and is in none
// of the tables becomes an `Unknown "…"` node, which no proof obligation accepts.
// Calls on values of no known class (packages, data: rel.SetStatus, slog.Debug, …) are
// dropped unless an argument has a known class (then: Unknown).
// See notes/SKEL.md.

import (
	"fmt"
	"go/ast"
	"go/token"
	"os"
	"path/filepath"
	"sort"
	"strings"

	"verif/harness/internal/hx"
)

func init() { registerTable("ActionSkeleton", genActionSkeleton) }

// ---- classification tables (trusted) -------------------------------------------------------

// Go type name -> receiver class
var skelTypeClass = map[string]string{
	"Install": "Install", "Upgrade": "Upgrade", "Rollback": "Rollback", "Uninstall": "Uninstall",
	"History": "History", "Configuration": "Configuration", "Storage": "Storage",
	"Interface": "KubeClient", "Waiter": "Waiter", "Driver": "Driver", "Context": "Context",
}

var skelActionClass = map[string]bool{"Install": true, "Upgrade": true, "Rollback": true, "Uninstall": true, "History": true}

// class.field -> class
var skelFieldClass = map[string]string{
	"Install.cfg": "Configuration", "Upgrade.cfg": "Configuration", "Rollback.cfg": "Configuration",
	"Uninstall.cfg": "Configuration", "History.cfg": "Configuration",
	"Configuration.Releases": "Storage", "Configuration.KubeClient": "KubeClient",
	"Storage.Driver": "Driver",
}

// result class of calls
var skelResultClass = map[string]string{
	"KubeClient.GetWaiter": "Waiter",
	"NewUninstall":         "Uninstall", "NewRollback": "Rollback", "NewHistory": "History",
}

// class.method -> effect kind (Gallina term of type Skeleton.kind)
var skelEffects = map[string]string{
	"Driver.Create": "DCreate", "Driver.Update": "DUpdate", "Driver.Delete": "DDelete", "Driver.Get": "DGet",
	"Storage.List": `(Other "Driver.List")`, "Driver.List": `(Other "Driver.List")`,
	"KubeClient.Create": "KcCreate",
	"KubeClient.Update": "KcUpdate", "KubeClient.UpdateThreeWayMerge": "KcUpdate",
	"KubeClient.Delete": "KcDelete", "KubeClient.DeleteWithPropagationPolicy": "KcDelete",
	"KubeClient.GetPodList":                    `(Other "GetPodList")`,
	"KubeClient.OutputContainerLogsForPodList": `(Other "OutputContainerLogsForPodList")`,
	"Waiter.Wait":                              "KcWait", "Waiter.WaitWithJobs": "KcWaitJobs",
	"Waiter.WaitForDelete": "KcWaitDelete", "Waiter.WatchUntilReady": `(KcWatch "")`,
	"Install.installCRDs": `(Other "installCRDs")`,
	// package-level functions of pkg/action
	"existingResourceConflict": "(KcExisting false)", "requireAdoption": "(KcExisting true)",
	"recreate": `(Other "recreate")`,
}

// Query is an effect whose kind depends on the argument (a map literal with or without "status")
var skelQuery = map[string]bool{"Storage.Query": true, "Driver.Query": true}

// class.method known NOT to write to storage or cluster (reads of the cluster that the
// model does not have are listed here too: IsReachable, Build, getCapabilities, renderResources)
var skelIgnored = map[string]bool{
	"KubeClient.IsReachable": true, "KubeClient.Build": true, "KubeClient.GetWaiter": true,
	"Configuration.getCapabilities": true, "Configuration.renderResources": true, "Configuration.Now": true,
	"Configuration.deriveNamespace": true,
	"Install.createRelease":         true, "Install.isDryRun": true, "Upgrade.isDryRun": true, "Upgrade.reuseValues": true,
	"Context.Done": true, "Context.Err": true,
}

// unqualified functions of the package known to be effect-free (or only Build)
var skelIgnoredFuncs = map[string]bool{
	"setMetadataVisitor": true, "validateManifest": true, "filterManifestsToKeep": true,
	"parseCascadingFlag": true, "joinErrors": true, "objectKey": true, "mergeCustomLabels": true,
	"Timestamper": true, "hookHasDeletePolicy": true, "hookHasOutputLogPolicy": true, "makeKey": true,
	"NewUninstall": true, "NewRollback": true, "NewHistory": true,
}

var skelBuiltins = map[string]bool{
	"len": true, "cap": true, "append": true, "make": true, "new": true, "close": true, "delete": true,
	"copy": true, "panic": true, "print": true, "println": true, "min": true, "max": true, "string": true,
	"int": true, "int64": true, "error": true, "bool": true, "byte": true,
}

// option fields read in conditions; isDryRun() reads as DryRun
var skelFlags = map[string]bool{
	"Atomic": true, "CleanupOnFail": true, "KeepHistory": true, "Replace": true, "DisableHooks": true,
	"DryRun": true, "ClientOnly": true, "TakeOwnership": true,
	// not in the model (the checker holds them false); "ContextCancelled" is not a field: it is
	// the condition of a select clause that receives from ctx.Done()
	"Recreate": true, "WaitForJobs": true, "CreateNamespace": true, "HideSecret": true, "SkipCRDs": true,
	"IgnoreNotFound": true, "IsUpgrade": true,
}

// tracked functions: file -> "Class.method" in the order they are printed
var skelTracked = []struct {
	File  string
	Funcs []string
}{
	{"pkg/action/install.go", []string{"Install.Run", "Install.RunWithContext", "Install.performInstallCtx", "Install.performInstall",
		"Install.failRelease", "Install.availableName", "Install.recordRelease", "Install.replaceRelease"}},
	{"pkg/action/upgrade.go", []string{"Upgrade.Run", "Upgrade.RunWithContext", "Upgrade.prepareUpgrade", "Upgrade.performUpgrade",
		"Upgrade.reportToPerformUpgrade", "Upgrade.handleContext", "Upgrade.releasingUpgrade", "Upgrade.failRelease"}},
	{"pkg/action/rollback.go", []string{"Rollback.Run", "Rollback.prepareRollback", "Rollback.performRollback"}},
	{"pkg/action/uninstall.go", []string{"Uninstall.Run", "Uninstall.purgeReleases", "Uninstall.deleteRelease"}},
	{"pkg/action/history.go", []string{"History.Run"}},
	{"pkg/action/hooks.go", []string{"Configuration.execHook", "Configuration.deleteHookByPolicy", "Configuration.deleteHooksByPolicy",
		"Configuration.outputLogsByPolicy", "Configuration.outputContainerLogsForListOptions"}},
	{"pkg/action/action.go", []string{"Configuration.recordRelease", "Configuration.releaseContent"}},
	{"pkg/storage/storage.go", []string{"Storage.Get", "Storage.Create", "Storage.Update", "Storage.Delete", "Storage.Deployed",
		"Storage.DeployedAll", "Storage.History", "Storage.removeLeastRecent", "Storage.deleteReleaseVersion", "Storage.Last"}},
}

// tracked functions that take the hook event as their n-th argument
var skelEventArg = map[string]int{"Configuration.execHook": 1}

// ---- the tree ---------------------------------------------------------------------------------

type skNode struct {
	Op      string // Call Fn Run If Loop Return Unknown Branch
	A, B    string // Call: kind; Fn: name, arg; Run: name; Unknown: what
	Inherit []string
	Cond    string
	Th, El  []skNode
}

func skUnknown(format string, a ...interface{}) skNode {
	return skNode{Op: "Unknown", A: fmt.Sprintf(format, a...)}
}

type skFunc struct {
	name     string // Class.method
	recv     string // receiver identifier
	class    map[string]string
	errVars  map[string]bool
	inherit  map[string][]string // local action variable -> flags copied from the receiver
	events   map[string]string   // HookEvent constant name -> value
	tracked  map[string]bool
	typeName map[string]bool // package-level type names (conversions)
	nonNil   map[string]bool // error variables known non-nil here (inside `if x != nil`)
	decls    map[string]*ast.FuncDecl // every function of the package, "Recv.name" / "name"
	hasErr   bool            // the last result of the function is an error
	g        *skGen          // shared state: instances of followed (untracked) callees
	self     map[string]bool // parameters bound to the caller's receiver (followed callees)
	boolVars map[string]string // local := condition over option flags (no error test): its Gallina term
	retClass string            // followed callee: class of the freshly constructed action it returns ...
	retInh   []string          // ... and the options that action inherits from the receiver
	retBad   bool              // ... unless its returns disagree
	lits     int             // closures invoked in place, numbered
	scopes   []map[string]skSaved
}

// lexical scopes: a name declared (:= / var) inside a nested block, or in the init statement of
// an if / for / switch, shadows the outer variable of that name; what is known about the outer
// one comes back when the block ends
type skSaved struct {
	errVar, hasErrVar, nonNil, hasNonNil bool
	class, boolVar                      string
	hasClass, hasBool                   bool
}

func (f *skFunc) pushScope() { f.scopes = append(f.scopes, map[string]skSaved{}) }

func (f *skFunc) popScope() {
	top := f.scopes[len(f.scopes)-1]
	f.scopes = f.scopes[:len(f.scopes)-1]
	for n, sv := range top {
		delete(f.errVars, n)
		delete(f.nonNil, n)
		delete(f.class, n)
		delete(f.boolVars, n)
		if sv.hasErrVar {
			f.errVars[n] = sv.errVar
		}
		if sv.hasNonNil {
			f.nonNil[n] = sv.nonNil
		}
		if sv.hasClass {
			f.class[n] = sv.class
		}
		if sv.hasBool {
			f.boolVars[n] = sv.boolVar
		}
	}
}

func (f *skFunc) declare(n string) {
	if len(f.scopes) == 0 || n == "_" {
		return
	}
	top := f.scopes[len(f.scopes)-1]
	if _, ok := top[n]; ok {
		return
	}
	var sv skSaved
	sv.errVar, sv.hasErrVar = f.errVars[n]
	sv.nonNil, sv.hasNonNil = f.nonNil[n]
	sv.class, sv.hasClass = f.class[n]
	sv.boolVar, sv.hasBool = f.boolVars[n]
	top[n] = sv
}

func (f *skFunc) scoped(l []ast.Stmt) []skNode {
	f.pushScope()
	out := f.block(l)
	f.popScope()
	return out
}

// isSelf: the identifier denotes the action the function runs on (its receiver, or, in a
// followed package function, the parameter the caller's receiver was passed for)
func (f *skFunc) isSelf(n string) bool { return n == f.recv || f.self[n] }

func (f *skFunc) classOf(e ast.Expr) string {
	switch v := e.(type) {
	case *ast.Ident:
		return f.class[v.Name]
	case *ast.ParenExpr:
		return f.classOf(v.X)
	case *ast.StarExpr:
		return f.classOf(v.X)
	case *ast.UnaryExpr:
		if v.Op == token.AND {
			return f.classOf(v.X)
		}
	case *ast.TypeAssertExpr:
		return f.classOf(v.X)
	case *ast.SelectorExpr:
		if c := f.classOf(v.X); c != "" {
			return skelFieldClass[c+"."+v.Sel.Name]
		}
	case *ast.CallExpr:
		switch fn := v.Fun.(type) {
		case *ast.Ident:
			return skelResultClass[fn.Name]
		case *ast.SelectorExpr:
			if c := f.classOf(fn.X); c != "" {
				return skelResultClass[c+"."+fn.Sel.Name]
			}
		}
	}
	return ""
}

func skTypeClassOf(t ast.Expr) string {
	switch v := t.(type) {
	case *ast.StarExpr:
		return skTypeClassOf(v.X)
	case *ast.Ident:
		return skelTypeClass[v.Name]
	case *ast.SelectorExpr: // kube.Interface, kube.Waiter, driver.Driver
		return skelTypeClass[v.Sel.Name]
	}
	return ""
}

// ---- expressions: effect calls in evaluation order --------------------------------------------

func (f *skFunc) exprs(es []ast.Expr) []skNode {
	var out []skNode
	for _, e := range es {
		out = append(out, f.expr(e)...)
	}
	return out
}

func (f *skFunc) expr(e ast.Expr) []skNode {
	switch v := e.(type) {
	case nil:
		return nil
	case *ast.Ident, *ast.BasicLit:
		return nil
	case *ast.ParenExpr:
		return f.expr(v.X)
	case *ast.StarExpr:
		return f.expr(v.X)
	case *ast.UnaryExpr:
		return f.expr(v.X)
	case *ast.SelectorExpr:
		return f.expr(v.X)
	case *ast.TypeAssertExpr:
		return f.expr(v.X)
	case *ast.IndexExpr:
		return append(f.expr(v.X), f.expr(v.Index)...)
	case *ast.SliceExpr:
		return append(append(append(f.expr(v.X), f.expr(v.Low)...), f.expr(v.High)...), f.expr(v.Max)...)
	case *ast.KeyValueExpr:
		return append(f.expr(v.Key), f.expr(v.Value)...)
	case *ast.CompositeLit:
		return f.exprs(v.Elts)
	case *ast.BinaryExpr:
		l, r := f.expr(v.X), f.expr(v.Y)
		if (v.Op == token.LAND || v.Op == token.LOR) && len(r) > 0 {
			return append(l, skUnknown("call in a short-circuit operand"))
		}
		return append(l, r...)
	case *ast.FuncLit:
		// a closure that is not the operand of `go`: must be effect-free
		if body := f.scoped(v.Body.List); skHasCall(body) {
			return []skNode{skUnknown("closure with effects")}
		}
		return nil
	case *ast.CallExpr:
		return f.call(v)
	case *ast.ArrayType, *ast.MapType, *ast.ChanType, *ast.FuncType, *ast.InterfaceType, *ast.StructType, *ast.Ellipsis:
		return nil
	}
	return []skNode{skUnknown("expression %T", e)}
}

func (f *skFunc) call(c *ast.CallExpr) []skNode {
	var out []skNode
	// a closure invoked in place: its body runs here, its returns leave the closure only;
	// it shares the variables of the enclosing function
	if fl, ok := c.Fun.(*ast.FuncLit); ok {
		out = append(out, f.exprs(c.Args)...)
		return append(out, f.closure(fl)...)
	}
	// receiver expression, then arguments, then the call itself
	if s, ok := c.Fun.(*ast.SelectorExpr); ok {
		out = append(out, f.expr(s.X)...)
	} else if _, ok := c.Fun.(*ast.Ident); !ok {
		out = append(out, f.expr(c.Fun)...)
	}
	out = append(out, f.exprs(c.Args)...)
	passes := ""
	for _, a := range c.Args {
		if cl := f.classOf(a); cl != "" {
			passes = cl
		}
	}
	switch fn := c.Fun.(type) {
	case *ast.Ident:
		n := fn.Name
		switch {
		case skelEffects[n] != "":
			return append(out, skNode{Op: "Call", A: skelEffects[n]})
		case f.tracked[n]:
			return append(out, skNode{Op: "Fn", A: n})
		case skelIgnoredFuncs[n]:
			return out
		case skelBuiltins[n] || f.typeName[n]:
			if passes != "" {
				return append(out, skUnknown("%s passed to %s", passes, n))
			}
			return out
		}
		if fd := f.decls[n]; fd != nil {
			return append(out, f.follow(n, "", fd, c)...)
		}
		return append(out, skUnknown("call of %s", n))
	case *ast.SelectorExpr:
		cl := f.classOf(fn.X)
		key := cl + "." + fn.Sel.Name
		if cl == "" {
			// a package function or a method of a value that is neither the storage, the
			// cluster client, a waiter nor an action: cannot reach an effect by itself
			if passes != "" {
				return append(out, skUnknown("%s passed to %s", passes, skExprName(c.Fun)))
			}
			return out
		}
		switch {
		case skelQuery[key]:
			return append(out, f.query(c))
		case skelEffects[key] != "":
			return append(out, skNode{Op: "Call", A: skelEffects[key]})
		case f.tracked[key]:
			id, isIdent := fn.X.(*ast.Ident)
			if isIdent && !f.isSelf(id.Name) && skelActionClass[cl] {
				// a freshly constructed action: its own options
				inh := append([]string(nil), f.inherit[id.Name]...)
				sort.Strings(inh)
				return append(out, skNode{Op: "Run", A: key, Inherit: inh})
			}
			arg := ""
			if i, ok := skelEventArg[key]; ok {
				if i >= len(c.Args) {
					return append(out, skUnknown("%s without event argument", key))
				}
				name := skExprName(c.Args[i])
				if j := strings.LastIndex(name, "."); j >= 0 {
					name = name[j+1:]
				}
				v, ok := f.events[name]
				if !ok {
					return append(out, skUnknown("%s with event %s", key, name))
				}
				arg = v
			}
			if m := f.errArgMarker(key, c); m != nil {
				out = append(out, *m)
			}
			return append(out, skNode{Op: "Fn", A: key, B: arg})
		case skelIgnored[key]:
			return out
		}
		if fd := f.decls[key]; fd != nil {
			if id, isIdent := fn.X.(*ast.Ident); isIdent && !f.isSelf(id.Name) && skelActionClass[cl] {
				return append(out, skUnknown("untracked method %s of a nested action", key))
			}
			return append(out, f.follow(key, cl, fd, c)...)
		}
		return append(out, skUnknown("call of %s", key))
	}
	return append(out, skUnknown("call of %s", skExprName(c.Fun)))
}

// errArgMarker: when the tracked callee has a parameter of type error, what is passed for it:
// ArgOk (literal nil), ArgErr (an error known to be non-nil), Pure (anything else)
func (f *skFunc) errArgMarker(key string, c *ast.CallExpr) *skNode {
	fd := f.decls[key]
	if fd == nil || fd.Type.Params == nil {
		return nil
	}
	idx, pos := -1, 0
	for _, p := range fd.Type.Params.List {
		n := len(p.Names)
		if n == 0 {
			n = 1
		}
		if id, ok := p.Type.(*ast.Ident); ok && id.Name == "error" {
			idx = pos + n - 1
		}
		pos += n
	}
	if idx < 0 || idx >= len(c.Args) {
		return nil
	}
	switch f.errKind(c.Args[idx]) {
	case "ReturnOk":
		return &skNode{Op: "ArgOk"}
	case "ReturnErr":
		return &skNode{Op: "ArgErr"}
	}
	return &skNode{Op: "Pure", A: "keep"}
}

// Query(map[string]string{"name": …, "owner": …[, "status": "deployed"]})
func (f *skFunc) query(c *ast.CallExpr) skNode {
	if len(c.Args) != 1 {
		return skUnknown("Query with %d arguments", len(c.Args))
	}
	cl, ok := c.Args[0].(*ast.CompositeLit)
	if !ok {
		return skUnknown("Query argument is not a map literal")
	}
	keys := map[string]string{}
	for _, e := range cl.Elts {
		kv, ok := e.(*ast.KeyValueExpr)
		if !ok {
			return skUnknown("Query argument element")
		}
		k, ok := strLit(kv.Key)
		if !ok {
			return skUnknown("Query key")
		}
		v, _ := strLit(kv.Value)
		keys[k] = v
	}
	_, hasName := keys["name"]
	switch {
	case len(keys) == 2 && hasName && keys["owner"] == "helm":
		return skNode{Op: "Call", A: "DHistory"}
	case len(keys) == 3 && hasName && keys["owner"] == "helm" && keys["status"] == "deployed":
		return skNode{Op: "Call", A: "DDeployed"}
	}
	return skUnknown("Query with unexpected keys")
}

func skExprName(e ast.Expr) string {
	switch v := e.(type) {
	case *ast.Ident:
		return v.Name
	case *ast.SelectorExpr:
		return skExprName(v.X) + "." + v.Sel.Name
	case *ast.CallExpr:
		return skExprName(v.Fun) + "()"
	case *ast.TypeAssertExpr:
		return skExprName(v.X)
	case *ast.ParenExpr:
		return skExprName(v.X)
	}
	return fmt.Sprintf("%T", e)
}

// ---- conditions ---------------------------------------------------------------------------------

func (f *skFunc) cond(e ast.Expr) string {
	s, _ := f.cond1(e)
	return s
}

// cond1 returns the condition and whether it mentions a flag or an error test; a
// subtree that does not collapses to CData
func (f *skFunc) cond1(e ast.Expr) (string, bool) {
	switch v := e.(type) {
	case *ast.ParenExpr:
		return f.cond1(v.X)
	case *ast.UnaryExpr:
		if v.Op == token.NOT {
			if s, ok := f.cond1(v.X); ok {
				return "(CNot " + s + ")", true
			}
		}
	case *ast.BinaryExpr:
		switch v.Op {
		case token.LAND, token.LOR:
			l, lo := f.cond1(v.X)
			r, ro := f.cond1(v.Y)
			if lo || ro {
				op := "CAnd"
				if v.Op == token.LOR {
					op = "COr"
				}
				return "(" + op + " " + l + " " + r + ")", true
			}
		case token.NEQ, token.EQL:
			if id, ok := v.Y.(*ast.Ident); ok && id.Name == "nil" {
				if x, ok := v.X.(*ast.Ident); ok && f.errVars[x.Name] {
					if v.Op == token.NEQ {
						return "CErr", true
					}
					return "(CNot CErr)", true
				}
			}
		}
	case *ast.Ident:
		if s, ok := f.boolVars[v.Name]; ok {
			return s, true
		}
	case *ast.SelectorExpr:
		if cl := f.classOf(v.X); skelActionClass[cl] && skelFlags[v.Sel.Name] {
			return `(CFlag "` + v.Sel.Name + `")`, true
		}
	case *ast.CallExpr:
		if s, ok := v.Fun.(*ast.SelectorExpr); ok && s.Sel.Name == "isDryRun" && len(v.Args) == 0 && skelActionClass[f.classOf(s.X)] {
			return `(CFlag "DryRun")`, true
		}
	}
	return "CData", false
}

// impliesNonNil: the error variables x for which the condition implies x != nil
func (f *skFunc) impliesNonNil(e ast.Expr) []string {
	switch v := e.(type) {
	case *ast.ParenExpr:
		return f.impliesNonNil(v.X)
	case *ast.BinaryExpr:
		switch v.Op {
		case token.LAND:
			return append(f.impliesNonNil(v.X), f.impliesNonNil(v.Y)...)
		case token.NEQ:
			if id, ok := v.Y.(*ast.Ident); ok && id.Name == "nil" {
				if x, ok := v.X.(*ast.Ident); ok && f.errVars[x.Name] {
					return []string{x.Name}
				}
			}
		}
	}
	return nil
}

// impliesNonNilWhenFalse: the error variables x for which the NEGATION of the condition implies x != nil
func (f *skFunc) impliesNonNilWhenFalse(e ast.Expr) []string {
	switch v := e.(type) {
	case *ast.ParenExpr:
		return f.impliesNonNilWhenFalse(v.X)
	case *ast.UnaryExpr:
		if v.Op == token.NOT {
			return f.impliesNonNil(v.X)
		}
	case *ast.BinaryExpr:
		switch v.Op {
		case token.LOR:
			return append(f.impliesNonNilWhenFalse(v.X), f.impliesNonNilWhenFalse(v.Y)...)
		case token.EQL:
			if id, ok := v.Y.(*ast.Ident); ok && id.Name == "nil" {
				if x, ok := v.X.(*ast.Ident); ok && f.errVars[x.Name] {
					return []string{x.Name}
				}
			}
		}
	}
	return nil
}

// error constructors: the result is never nil (pkg/errors Wrap/Wrapf of a non-nil error)
var skelErrCtor = map[string]bool{"errors.New": true, "errors.Errorf": true, "fmt.Errorf": true}
var skelErrWrap = map[string]bool{"errors.Wrap": true, "errors.Wrapf": true}

func (f *skFunc) returnKind(r *ast.ReturnStmt) string {
	if !f.hasErr || len(r.Results) == 0 {
		return "Return"
	}
	return f.errKind(r.Results[len(r.Results)-1])
}

// errKind: is the error expression nil ("ReturnOk"), known non-nil ("ReturnErr") or neither ("Return")
func (f *skFunc) errKind(e ast.Expr) string {
	switch v := e.(type) {
	case *ast.Ident:
		if v.Name == "nil" {
			return "ReturnOk"
		}
		if f.nonNil[v.Name] {
			return "ReturnErr"
		}
	case *ast.CallExpr:
		n := skExprName(v.Fun)
		if skelErrCtor[n] {
			return "ReturnErr"
		}
		if skelErrWrap[n] && len(v.Args) > 0 {
			if id, ok := v.Args[0].(*ast.Ident); ok && f.nonNil[id.Name] {
				return "ReturnErr"
			}
		}
	}
	return "Return"
}

// pure appends a Pure node when the statement assigned an error variable and none of the
// calls it made is tracked: the value tested next does not come from the skeleton
func (f *skFunc) pure(out []skNode, lhs []ast.Expr) []skNode {
	assigns := false
	for _, l := range lhs {
		if id, ok := l.(*ast.Ident); ok {
			if f.errVars[id.Name] {
				assigns = true
			}
			delete(f.nonNil, id.Name)
		}
	}
	if assigns && !skHasCall(out) {
		return append(out, skNode{Op: "Pure"})
	}
	return out
}

// ---- statements -----------------------------------------------------------------------------------

func (f *skFunc) block(l []ast.Stmt) []skNode {
	var out []skNode
	for _, s := range l {
		out = append(out, f.stmt(s)...)
	}
	return out
}

// noErrorCall: a builtin (make, append, len, ...) or a conversion: its result is no error value
func (f *skFunc) noErrorCall(c *ast.CallExpr) bool {
	switch fn := c.Fun.(type) {
	case *ast.Ident:
		return skelBuiltins[fn.Name] || f.typeName[fn.Name]
	case *ast.ArrayType, *ast.MapType, *ast.ChanType, *ast.FuncType, *ast.InterfaceType, *ast.StarExpr, *ast.ParenExpr:
		return true
	}
	return false
}

// bind records what an assignment tells about its left-hand sides
func (f *skFunc) bind(lhs, rhs []ast.Expr) {
	if len(rhs) == 1 {
		// the last result of a call is (by convention) the error
		if ce, isCall := rhs[0].(*ast.CallExpr); isCall && !f.noErrorCall(ce) {
			for i, l := range lhs {
				if id, ok := l.(*ast.Ident); ok {
					if i == len(lhs)-1 {
						f.errVars[id.Name] = true
					} else {
						delete(f.errVars, id.Name)
					}
				}
			}
		}
		if id, ok := lhs[0].(*ast.Ident); ok && id.Name != "_" {
			if c := f.classOf(rhs[0]); c != "" {
				f.class[id.Name] = c
				delete(f.errVars, id.Name)
			} else if !f.isSelf(id.Name) {
				delete(f.class, id.Name)
			}
			// the result of a followed helper that constructs an action
			if ce, ok := rhs[0].(*ast.CallExpr); ok && len(lhs) == 1 {
				if sm, ok := f.g.summ[f.g.callInst[ce]]; ok {
					f.class[id.Name] = sm.class
					f.inherit[id.Name] = append([]string(nil), sm.inh...)
					delete(f.errVars, id.Name)
				}
			}
		}
		return
	}
	for i, l := range lhs {
		if id, ok := l.(*ast.Ident); ok && i < len(rhs) && id.Name != "_" {
			delete(f.errVars, id.Name)
			if c := f.classOf(rhs[i]); c != "" {
				f.class[id.Name] = c
			} else if !f.isSelf(id.Name) {
				delete(f.class, id.Name)
			}
		}
	}
}

// noteReturn: does the function hand back an action it constructed (a followed helper such as
// `func (u *Upgrade) atomicRollback(v int) *Rollback`)?  Then the caller's variable gets the
// class and the inherited options, as if the construction stood in the caller.
func (f *skFunc) noteReturn(r *ast.ReturnStmt) {
	if len(r.Results) == 1 {
		if id, ok := r.Results[0].(*ast.Ident); ok && !f.isSelf(id.Name) && skelActionClass[f.class[id.Name]] {
			inh := append([]string(nil), f.inherit[id.Name]...)
			sort.Strings(inh)
			if f.retClass != "" && (f.retClass != f.class[id.Name] || strings.Join(f.retInh, ",") != strings.Join(inh, ",")) {
				f.retBad = true
			}
			f.retClass, f.retInh = f.class[id.Name], inh
			return
		}
	}
	f.retBad = true
}

// bindBool: `x := <condition over option flags>` lets a later `if x` read as that condition
// (options do not change during a run); any other assignment to x forgets it
func (f *skFunc) bindBool(lhs, rhs []ast.Expr) {
	for i, l := range lhs {
		id, ok := l.(*ast.Ident)
		if !ok {
			continue
		}
		delete(f.boolVars, id.Name)
		if len(lhs) == len(rhs) && id.Name != "_" {
			if s, ok := f.cond1(rhs[i]); ok && !strings.Contains(s, "CErr") {
				f.boolVars[id.Name] = s
			}
		}
	}
}

// quiet: the nodes of an expression, computed a second time without side effects on the
// numbering of closures (used to ask whether a call contributes anything)
func (f *skFunc) quiet(e ast.Expr) []skNode {
	saved := f.lits
	out := f.expr(e)
	f.lits = saved
	return out
}

func (f *skFunc) stmt(s ast.Stmt) []skNode {
	switch v := s.(type) {
	case nil, *ast.EmptyStmt:
		return nil
	case *ast.ExprStmt:
		return f.expr(v.X)
	case *ast.IncDecStmt:
		return f.expr(v.X)
	case *ast.SendStmt:
		return append(f.expr(v.Chan), f.expr(v.Value)...)
	case *ast.AssignStmt:
		out := append(f.exprs(v.Rhs), f.exprs(v.Lhs)...)
		if v.Tok == token.DEFINE {
			for _, l := range v.Lhs {
				if id, ok := l.(*ast.Ident); ok {
					f.declare(id.Name)
				}
			}
		}
		// option of a freshly constructed action: x.Flag = <receiver>.Flag | false
		if len(v.Lhs) == 1 && len(v.Rhs) == 1 {
			if sel, ok := v.Lhs[0].(*ast.SelectorExpr); ok {
				if id, ok := sel.X.(*ast.Ident); ok && !f.isSelf(id.Name) && skelActionClass[f.class[id.Name]] && skelFlags[sel.Sel.Name] {
					switch r := v.Rhs[0].(type) {
					case *ast.Ident:
						if r.Name != "false" {
							out = append(out, skUnknown("option %s set to %s", sel.Sel.Name, r.Name))
						}
					case *ast.SelectorExpr:
						rid, ok := r.X.(*ast.Ident)
						if ok && f.isSelf(rid.Name) && r.Sel.Name == sel.Sel.Name {
							f.inherit[id.Name] = append(f.inherit[id.Name], sel.Sel.Name)
						} else {
							out = append(out, skUnknown("option %s set from %s", sel.Sel.Name, skExprName(r)))
						}
					default:
						out = append(out, skUnknown("option %s set from an expression", sel.Sel.Name))
					}
				}
			}
		}
		f.bind(v.Lhs, v.Rhs)
		f.bindBool(v.Lhs, v.Rhs)
		out = f.pure(out, v.Lhs)
		// x := y copies what is known about the error variable y
		if len(v.Lhs) == len(v.Rhs) {
			for i := range v.Lhs {
				l, lok := v.Lhs[i].(*ast.Ident)
				r, rok := v.Rhs[i].(*ast.Ident)
				if lok && rok && f.errVars[r.Name] {
					f.errVars[l.Name] = true
					if f.nonNil[r.Name] {
						f.nonNil[l.Name] = true
					}
				}
			}
		}
		return out
	case *ast.DeclStmt:
		gd, ok := v.Decl.(*ast.GenDecl)
		if !ok {
			return []skNode{skUnknown("declaration")}
		}
		var out []skNode
		for _, sp := range gd.Specs {
			vs, ok := sp.(*ast.ValueSpec)
			if !ok {
				continue // type declarations
			}
			out = append(out, f.exprs(vs.Values)...)
			isErr := false
			if id, ok := vs.Type.(*ast.Ident); ok && id.Name == "error" {
				isErr = true
			}
			for _, n := range vs.Names {
				delete(f.errVars, n.Name)
				delete(f.class, n.Name)
				if isErr {
					f.errVars[n.Name] = true
				}
				if c := skTypeClassOf(vs.Type); c != "" {
					f.class[n.Name] = c
				}
			}
			lhs := make([]ast.Expr, len(vs.Names))
			for i, n := range vs.Names {
				lhs[i] = n
			}
			if len(vs.Values) > 0 {
				f.bind(lhs, vs.Values)
			}
			f.bindBool(lhs, vs.Values)
			out = f.pure(out, lhs)
		}
		return out
	case *ast.BlockStmt:
		return f.scoped(v.List)
	case *ast.ReturnStmt:
		f.noteReturn(v)
		out := f.exprs(v.Results)
		kind := f.returnKind(v)
		if kind == "Return" && f.hasErr && len(v.Results) > 0 {
			// the error handed back is the result of a call outside the skeleton: nil or not
			if ce, ok := v.Results[len(v.Results)-1].(*ast.CallExpr); ok && !skHasCall(f.quiet(ce)) {
				out = append(out, skNode{Op: "Pure"})
			}
		}
		return append(out, skNode{Op: kind})
	case *ast.IfStmt:
		f.pushScope()
		defer f.popScope()
		out := f.stmt(v.Init)
		out = append(out, f.expr(v.Cond)...)
		n := skNode{Op: "If", Cond: f.cond(v.Cond)}
		proved := f.impliesNonNil(v.Cond)
		saved := map[string]bool{}
		for _, x := range proved {
			saved[x] = f.nonNil[x]
			f.nonNil[x] = true
		}
		n.Th = f.scoped(v.Body.List)
		for _, x := range proved {
			f.nonNil[x] = saved[x]
		}
		if v.Else != nil {
			disproved := f.impliesNonNilWhenFalse(v.Cond)
			savedEl := map[string]bool{}
			for _, x := range disproved {
				savedEl[x] = f.nonNil[x]
				f.nonNil[x] = true
			}
			n.El = f.stmt(v.Else)
			for _, x := range disproved {
				f.nonNil[x] = savedEl[x]
			}
		}
		return append(out, n)
	case *ast.ForStmt:
		f.pushScope()
		defer f.popScope()
		out := f.stmt(v.Init)
		if c := f.expr(v.Cond); len(c) > 0 {
			out = append(out, skUnknown("call in a loop condition"))
		}
		body := f.scoped(v.Body.List)
		body = append(body, f.stmt(v.Post)...)
		return append(out, skNode{Op: "Loop", Th: body})
	case *ast.RangeStmt:
		out := f.expr(v.X)
		f.pushScope()
		defer f.popScope()
		for _, kv := range []ast.Expr{v.Key, v.Value} {
			if id, ok := kv.(*ast.Ident); ok {
				if v.Tok == token.DEFINE {
					f.declare(id.Name)
				}
				delete(f.errVars, id.Name)
				delete(f.class, id.Name)
				delete(f.boolVars, id.Name)
			}
		}
		return append(out, skNode{Op: "Loop", Th: f.scoped(v.Body.List)})
	case *ast.GoStmt:
		// goroutines of performInstallCtx / performUpgrade: inlined in program order
		if fl, ok := v.Call.Fun.(*ast.FuncLit); ok {
			out := f.exprs(v.Call.Args)
			body := f.block(fl.Body.List)
			if skHasReturn(body) {
				return append(out, skUnknown("return inside a goroutine literal"))
			}
			return append(out, body...)
		}
		return f.call(v.Call)
	case *ast.DeferStmt:
		if c := f.call(v.Call); len(c) > 0 {
			return []skNode{skUnknown("deferred call with effects")}
		}
		return nil
	case *ast.BranchStmt:
		if v.Tok == token.BREAK || v.Tok == token.CONTINUE {
			if v.Label != nil {
				return []skNode{skUnknown("labelled %s", v.Tok)}
			}
			return []skNode{{Op: "Branch", A: v.Tok.String()}}
		}
		return []skNode{skUnknown("%s", v.Tok)}
	case *ast.SelectStmt:
		var alts [][]skNode
		var conds []string
		for _, cc := range v.Body.List {
			c := cc.(*ast.CommClause)
			f.pushScope()
			alts = append(alts, append(f.stmt(c.Comm), f.block(c.Body)...))
			f.popScope()
			cond := "CData"
			if f.recvFromDone(c.Comm) {
				cond = `(CFlag "ContextCancelled")`
			}
			conds = append(conds, cond)
		}
		return skAlternativesC(alts, conds)
	case *ast.SwitchStmt:
		f.pushScope()
		defer f.popScope()
		out := f.stmt(v.Init)
		if v.Tag == nil {
			if chain, ok := f.switchChain(v.Body.List); ok {
				return append(out, chain...)
			}
		}
		out = append(out, f.expr(v.Tag)...)
		return append(out, f.clauses(v.Body.List)...)
	case *ast.TypeSwitchStmt:
		out := f.stmt(v.Init)
		out = append(out, f.stmt(v.Assign)...)
		return append(out, f.clauses(v.Body.List)...)
	}
	return []skNode{skUnknown("statement %T", s)}
}

// switchChain: `switch { case a: A; case b, c: B; default: D }` read as
// `if a {A} else if b || c {B} else {D}` (conditions and what they prove about error variables
// as in an if statement).  Only when the default clause, if any, is the last one, no case
// expression contains a call with effects and no clause ends in fallthrough.
func (f *skFunc) switchChain(l []ast.Stmt) ([]skNode, bool) {
	for i, cs := range l {
		c := cs.(*ast.CaseClause)
		if c.List == nil && i != len(l)-1 {
			return nil, false
		}
		if len(f.exprs(c.List)) > 0 {
			return nil, false
		}
		if n := len(c.Body); n > 0 {
			if b, ok := c.Body[n-1].(*ast.BranchStmt); ok && b.Tok == token.FALLTHROUGH {
				return nil, false
			}
		}
	}
	return f.switchChainFrom(l), true
}

func (f *skFunc) switchChainFrom(l []ast.Stmt) []skNode {
	if len(l) == 0 {
		return nil
	}
	c := l[0].(*ast.CaseClause)
	body := func() []skNode {
		b := f.block(c.Body)
		for i := range b {
			if b[i].Op == "Branch" && b[i].A == "break" {
				b[i] = skUnknown("break inside switch")
			}
		}
		return b
	}
	if c.List == nil {
		return body()
	}
	// the clause's condition: the disjunction of its expressions
	var cond ast.Expr = c.List[0]
	for _, e := range c.List[1:] {
		cond = &ast.BinaryExpr{X: cond, Op: token.LOR, Y: e}
	}
	n := skNode{Op: "If", Cond: f.cond(cond)}
	proved := f.impliesNonNil(cond)
	saved := map[string]bool{}
	for _, x := range proved {
		saved[x] = f.nonNil[x]
		f.nonNil[x] = true
	}
	n.Th = body()
	for _, x := range proved {
		f.nonNil[x] = saved[x]
	}
	disproved := f.impliesNonNilWhenFalse(cond)
	savedEl := map[string]bool{}
	for _, x := range disproved {
		savedEl[x] = f.nonNil[x]
		f.nonNil[x] = true
	}
	n.El = f.switchChainFrom(l[1:])
	for _, x := range disproved {
		f.nonNil[x] = savedEl[x]
	}
	return []skNode{n}
}

func (f *skFunc) clauses(l []ast.Stmt) []skNode {
	var alts [][]skNode
	hasDefault := false
	for _, cs := range l {
		c := cs.(*ast.CaseClause)
		if c.List == nil {
			hasDefault = true
		}
		var a []skNode
		if e := f.exprs(c.List); len(e) > 0 {
			a = append(a, skUnknown("call in a case expression"))
		}
		body := f.block(c.Body)
		// a `break` inside a switch leaves the switch, not a loop
		for i := range body {
			if body[i].Op == "Branch" && body[i].A == "break" {
				body[i] = skUnknown("break inside switch")
			}
		}
		alts = append(alts, append(a, body...))
	}
	if !hasDefault {
		alts = append(alts, nil)
	}
	return skAlternatives(alts)
}

// exactly one of the alternatives runs; which one is data
func skAlternatives(alts [][]skNode) []skNode {
	return skAlternativesC(alts, nil)
}

func skAlternativesC(alts [][]skNode, conds []string) []skNode {
	if len(alts) == 0 {
		return nil
	}
	if len(alts) == 1 {
		return alts[0]
	}
	c := "CData"
	var rest []string
	if len(conds) > 0 {
		c, rest = conds[0], conds[1:]
	}
	return []skNode{{Op: "If", Cond: c, Th: alts[0], El: skAlternativesC(alts[1:], rest)}}
}

// recvFromDone: the communication of a select clause is `<-ctx.Done()` for a context.Context
func (f *skFunc) recvFromDone(s ast.Stmt) bool {
	var e ast.Expr
	switch v := s.(type) {
	case *ast.ExprStmt:
		e = v.X
	case *ast.AssignStmt:
		if len(v.Rhs) == 1 {
			e = v.Rhs[0]
		}
	}
	u, ok := e.(*ast.UnaryExpr)
	if !ok || u.Op != token.ARROW {
		return false
	}
	c, ok := u.X.(*ast.CallExpr)
	if !ok {
		return false
	}
	sel, ok := c.Fun.(*ast.SelectorExpr)
	return ok && sel.Sel.Name == "Done" && f.classOf(sel.X) == "Context"
}

// ---- simplification -----------------------------------------------------------------------------

func skHasCall(l []skNode) bool {
	for _, n := range l {
		switch n.Op {
		case "Call", "Fn", "Run", "Unknown":
			return true
		case "If", "Loop":
			if skHasCall(n.Th) || skHasCall(n.El) {
				return true
			}
		}
	}
	return false
}

func skHasReturn(l []skNode) bool {
	for _, n := range l {
		if strings.HasPrefix(n.Op, "Return") || ((n.Op == "If" || n.Op == "Loop") && (skHasReturn(n.Th) || skHasReturn(n.El))) {
			return true
		}
	}
	return false
}

func skHasBranch(l []skNode) bool {
	for _, n := range l {
		if n.Op == "Branch" || (n.Op == "If" && (skHasBranch(n.Th) || skHasBranch(n.El))) {
			return true
		}
	}
	return false
}

func skDropBranches(l []skNode) []skNode {
	var out []skNode
	for _, n := range l {
		if n.Op == "Branch" {
			continue
		}
		if n.Op == "If" {
			n.Th, n.El = skDropBranches(n.Th), skDropBranches(n.El)
		}
		out = append(out, n)
	}
	return out
}

// drop what has neither an effect nor a return; a loop that keeps effects must not
// contain break/continue (the checker has no such node)
func skSimplify(l []skNode) []skNode {
	return skDropPure(skSimplify1(l))
}

// a Pure matters only to the node right behind it, and only if that node looks at the error
func skDropPure(l []skNode) []skNode {
	var out []skNode
	for i, n := range l {
		switch n.Op {
		case "Pure":
			if n.A == "keep" {
				break
			}
			if i+1 >= len(l) {
				continue
			}
			nx := l[i+1]
			if !(nx.Op == "Return" || (nx.Op == "If" && strings.Contains(nx.Cond, "CErr"))) {
				continue
			}
		case "If":
			n.Th, n.El = skDropPure(n.Th), skDropPure(n.El)
		case "Loop":
			n.Th = skDropPure(n.Th)
		}
		out = append(out, n)
	}
	return out
}

func skSimplify1(l []skNode) []skNode {
	var out []skNode
	for _, n := range l {
		switch n.Op {
		case "If":
			n.Th, n.El = skSimplify1(n.Th), skSimplify1(n.El)
			if skOnlyPure(n.Th) && skOnlyPure(n.El) {
				continue
			}
		case "Loop":
			if !skHasCall(n.Th) && !skHasReturn(n.Th) {
				continue
			}
			if skHasBranch(n.Th) {
				out = append(out, skUnknown("break/continue in a loop with effects"))
				continue
			}
			n.Th = skSimplify1(n.Th)
			if skOnlyPure(n.Th) {
				continue
			}
		}
		out = append(out, n)
	}
	return out
}

func skOnlyPure(l []skNode) bool {
	for _, n := range l {
		if n.Op != "Pure" {
			return false
		}
	}
	return true
}

// ---- printing -------------------------------------------------------------------------------------

func skPrintBlock(b *strings.Builder, l []skNode, ind string) {
	if len(l) == 0 {
		b.WriteString("[]")
		return
	}
	b.WriteString("[ ")
	for i, n := range l {
		if i > 0 {
			b.WriteString(";\n" + ind + "  ")
		}
		skPrintNode(b, n, ind+"  ")
	}
	b.WriteString(" ]")
}

func skPrintNode(b *strings.Builder, n skNode, ind string) {
	switch n.Op {
	case "Call":
		b.WriteString("Call " + n.A)
	case "Fn":
		b.WriteString("Fn " + hx.CoqStr(n.A) + " " + hx.CoqStr(n.B))
	case "Run":
		b.WriteString("Run " + hx.CoqStr(n.A) + " " + hx.CoqStrList(n.Inherit))
	case "Return", "ReturnOk", "ReturnErr", "Pure", "ArgOk", "ArgErr":
		b.WriteString(n.Op)
	case "Loop":
		b.WriteString("Loop\n" + ind + "  ")
		skPrintBlock(b, n.Th, ind+"  ")
	case "If":
		b.WriteString("If " + n.Cond + "\n" + ind + "  ")
		skPrintBlock(b, n.Th, ind+"  ")
		if len(n.El) == 0 {
			b.WriteString(" []")
		} else {
			b.WriteString("\n" + ind + "  ")
			skPrintBlock(b, n.El, ind+"  ")
		}
	default:
		b.WriteString("Unknown " + hx.CoqStr(n.A))
	}
}

// ---- followed callees ----------------------------------------------------------------------------

// skGen: what the functions of one run share.  A call of a function or method of the same
// package that is in none of the classification tables is FOLLOWED: the callee's body is
// translated like a tracked one (receiver class from the call, parameter classes from the
// parameter types or, when the type says nothing, from the arguments) and becomes an extra
// entry of the table, which the caller refers to by `Fn`.  The normal form of
// Engine/SkeletonNorm.v inlines every Fn, so the table compares equal whether an effect sits
// in the caller or in a helper.  A callee without any effect is dropped like an ignored call.
type skGen struct {
	events   map[string]string
	tracked  map[string]bool
	pkgs     map[string]*skPkg  // directory -> declarations
	inst     map[string][]skNode // instance name -> body (nil while in progress)
	done     map[string]bool
	order    []string
	callInst map[*ast.CallExpr]string // followed call -> instance name
	summ     map[string]skSummary     // instance -> the action it constructs and returns, if any
}

type skSummary struct {
	class string
	inh   []string
}

type skPkg struct {
	decls     map[string]*ast.FuncDecl
	typeNames map[string]bool
}

func skHasErrResult(ft *ast.FuncType) bool {
	if rs := ft.Results; rs != nil && len(rs.List) > 0 {
		if id, ok := rs.List[len(rs.List)-1].Type.(*ast.Ident); ok && id.Name == "error" {
			return true
		}
	}
	return false
}

// newFunc prepares the translation of one declaration; recvClass overrides the class of the receiver
func (g *skGen) newFunc(pkg *skPkg, name string, fd *ast.FuncDecl, recvClass string) *skFunc {
	rv, rt := skRecv(fd)
	f := &skFunc{name: name, recv: rv, class: map[string]string{}, errVars: map[string]bool{},
		inherit: map[string][]string{}, events: g.events, tracked: g.tracked, typeName: pkg.typeNames,
		nonNil: map[string]bool{}, decls: pkg.decls, g: g, self: map[string]bool{}, boolVars: map[string]string{}}
	f.hasErr = skHasErrResult(fd.Type)
	if rv != "" {
		if recvClass == "" {
			recvClass = skelTypeClass[rt]
		}
		f.class[rv] = recvClass
	}
	if fd.Type.Params != nil {
		for _, p := range fd.Type.Params.List {
			for _, n := range p.Names {
				if c := skTypeClassOf(p.Type); c != "" {
					f.class[n.Name] = c
				}
				if id, ok := p.Type.(*ast.Ident); ok && id.Name == "error" {
					f.errVars[n.Name] = true
				}
			}
		}
	}
	return f
}

func (f *skFunc) pkgOf() *skPkg { return &skPkg{decls: f.decls, typeNames: f.typeName} }

// follow: the call c of the untracked same-package function fd (key = "Class.method" or "name")
func (f *skFunc) follow(key, recvClass string, fd *ast.FuncDecl, c *ast.CallExpr) []skNode {
	g := f.g
	// parameter names in order
	var params []*ast.Ident
	var ptypes []ast.Expr
	if fd.Type.Params != nil {
		for _, p := range fd.Type.Params.List {
			for _, n := range p.Names {
				params = append(params, n)
				ptypes = append(ptypes, p.Type)
			}
			if len(p.Names) == 0 {
				params = append(params, nil)
				ptypes = append(ptypes, p.Type)
			}
		}
	}
	// classes that only the arguments know, and parameters that stand for the caller's action
	extra := map[string]string{}
	self := map[string]bool{}
	var tag []string
	for i, a := range c.Args {
		ac := f.classOf(a)
		pi := i
		if pi >= len(params) {
			pi = len(params) - 1 // the variadic tail
		}
		variadic := false
		if pi >= 0 {
			_, variadic = ptypes[pi].(*ast.Ellipsis)
		}
		if pi < 0 || params[pi] == nil || variadic || i >= len(params) {
			if ac != "" {
				return []skNode{skUnknown("%s passed to %s (unnamed or variadic parameter)", ac, key)}
			}
			continue
		}
		if ac != "" && skTypeClassOf(ptypes[i]) == "" {
			extra[params[i].Name] = ac
			tag = append(tag, params[i].Name+"="+ac)
		}
		if id, ok := a.(*ast.Ident); ok && f.isSelf(id.Name) && skelActionClass[ac] {
			self[params[i].Name] = true
		}
	}
	inst := key
	if recvClass != "" && !strings.HasPrefix(key, recvClass+".") {
		tag = append([]string{"recv=" + recvClass}, tag...)
	}
	if len(tag) > 0 {
		inst += "[" + strings.Join(tag, ",") + "]"
	}
	if !g.done[inst] {
		if _, inProgress := g.inst[inst]; !inProgress {
			g.inst[inst] = nil // recursion guard: a call met while translating refers to the entry by name
			cf := g.newFunc(f.pkgOf(), inst, fd, recvClass)
			for n, cl := range extra {
				cf.class[n] = cl
			}
			for n := range self {
				cf.self[n] = true
			}
			body := skDropBranches(skSimplify(cf.block(fd.Body.List)))
			g.inst[inst] = body
			g.done[inst] = true
			g.order = append(g.order, inst)
			if cf.retClass != "" && !cf.retBad {
				g.summ[inst] = skSummary{cf.retClass, cf.retInh}
			}
		}
	}
	g.callInst[c] = inst
	if g.done[inst] && !skHasCall(g.inst[inst]) {
		return nil // no effect anywhere below: like an ignored call
	}
	var out []skNode
	if m := f.errArgMarker(key, c); m != nil {
		out = append(out, *m)
	}
	return append(out, skNode{Op: "Fn", A: inst})
}

// closure: a function literal invoked where it stands, sharing the variables of f
func (f *skFunc) closure(fl *ast.FuncLit) []skNode {
	savedErr := f.hasErr
	f.hasErr = skHasErrResult(fl.Type)
	body := skDropBranches(skSimplify(f.scoped(fl.Body.List)))
	f.hasErr = savedErr
	if !skHasCall(body) {
		if skHasReturn(body) {
			return nil // the literal's returns end the literal only
		}
		return body
	}
	if !skHasReturn(body) {
		return body // no return inside: the statements simply run here
	}
	f.lits++
	inst := fmt.Sprintf("%s$%d", f.name, f.lits)
	f.g.inst[inst] = body
	f.g.done[inst] = true
	f.g.order = append(f.g.order, inst)
	return []skNode{{Op: "Fn", A: inst}}
}

// ---- driver ----------------------------------------------------------------------------------------

func skRecv(fd *ast.FuncDecl) (recvVar, recvType string) {
	if fd.Recv == nil || len(fd.Recv.List) != 1 {
		return "", ""
	}
	fl := fd.Recv.List[0]
	if len(fl.Names) == 1 {
		recvVar = fl.Names[0].Name
	}
	t := fl.Type
	if st, ok := t.(*ast.StarExpr); ok {
		t = st.X
	}
	if id, ok := t.(*ast.Ident); ok {
		recvType = id.Name
	}
	return
}

// skLoadPkg: every function declaration and type name of the non-test Go files of a directory
func skLoadPkg(repo, dir string) (*skPkg, error) {
	ents, err := os.ReadDir(filepath.Join(repo, dir))
	if err != nil {
		return nil, err
	}
	pk := &skPkg{decls: map[string]*ast.FuncDecl{}, typeNames: map[string]bool{}}
	for _, e := range ents {
		n := e.Name()
		if e.IsDir() || !strings.HasSuffix(n, ".go") || strings.HasSuffix(n, "_test.go") || strings.HasPrefix(n, "zz_verif_") {
			continue
		}
		af, _, err := parseFile(repo, filepath.Join(dir, n))
		if err != nil {
			return nil, err
		}
		for _, d := range af.Decls {
			switch v := d.(type) {
			case *ast.GenDecl:
				if v.Tok == token.TYPE {
					for _, sp := range v.Specs {
						pk.typeNames[sp.(*ast.TypeSpec).Name.Name] = true
					}
				}
			case *ast.FuncDecl:
				if v.Body == nil {
					continue
				}
				if v.Recv == nil {
					pk.decls[v.Name.Name] = v
				} else if _, rt := skRecv(v); rt != "" {
					pk.decls[rt+"."+v.Name.Name] = v
				}
			}
		}
	}
	return pk, nil
}

func genActionSkeleton(repo string) (string, error) {
	hf, _, err := parseFile(repo, "pkg/release/v1/hook.go")
	if err != nil {
		return "", err
	}
	events := map[string]string{}
	en, ev := constStrings(hf, "HookEvent")
	for i := range en {
		events[en[i]] = ev[i]
	}
	if len(events) == 0 {
		return "", fmt.Errorf("no HookEvent constants found")
	}
	g := &skGen{events: events, tracked: map[string]bool{}, pkgs: map[string]*skPkg{}, inst: map[string][]skNode{}, done: map[string]bool{}, callInst: map[*ast.CallExpr]string{}, summ: map[string]skSummary{}}
	for _, t := range skelTracked {
		for _, n := range t.Funcs {
			g.tracked[n] = true
		}
		dir := filepath.Dir(t.File)
		if g.pkgs[dir] == nil {
			pk, err := skLoadPkg(repo, dir)
			if err != nil {
				return "", err
			}
			g.pkgs[dir] = pk
		}
	}
	var b strings.Builder
	b.WriteString("From Helm Require Import Engine.Skeleton.\n\n")
	b.WriteString("(* effect skeletons of pkg/action/{install,upgrade,rollback,uninstall,history,hooks,action}.go\n   and pkg/storage/storage.go; see harness/cmd/hx/gentables_skel.go *)\n")
	b.WriteString("Definition skeleton : table :=\n  [ ")
	first := true
	emit := func(name string, body []skNode) {
		if !first {
			b.WriteString(";\n    ")
		}
		first = false
		b.WriteString("(" + hx.CoqStr(name) + ",\n      ")
		skPrintBlock(&b, body, "      ")
		b.WriteString(")")
	}
	for _, t := range skelTracked {
		pk := g.pkgs[filepath.Dir(t.File)]
		for _, name := range t.Funcs {
			var body []skNode
			// a tracked function is looked for in the whole package: moving it to another file is harmless
			fd := pk.decls[name]
			if fd == nil {
				body = []skNode{skUnknown("function %s not found in %s", name, filepath.Dir(t.File))}
			} else {
				f := g.newFunc(pk, name, fd, "")
				body = skDropBranches(skSimplify(f.block(fd.Body.List)))
			}
			emit(name, body)
		}
	}
	// the followed callees, by name
	sort.Strings(g.order)
	for _, inst := range g.order {
		if skHasCall(g.inst[inst]) {
			emit(inst, g.inst[inst])
		}
	}
	b.WriteString(" ].\n")
	return b.String(), nil
}

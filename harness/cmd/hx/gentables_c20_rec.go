package main

// Translator table Gen/C20Rec.v, regenerated from /repo on every run:
//
//   * pkg/engine/engine.go includeFun / tplFun: HOW the keys of the recursion counters are formed
//     from the function's argument — every key that is compared with recursionMaxNums, every key
//     that is incremented, every key that is decremented, each as a Gallina function of the
//     argument (template name / template text).  Props/C20.v demands that the tpl key does not
//     depend on the text and that include has a key that does not depend on the name.
//   * pkg/chart/v2/loader/directory.go LoadDir: the conditions of the walk callback that return
//     before os.ReadFile, as one boolean function of the os.FileMode type bits and of opaque
//     atoms (everything that is not a test of the mode).  Props/C20.v demands, over all 128
//     combinations of type bits and all values of the atoms, that os.ReadFile is reached only
//     for a mode without type bits (what FileMode.IsRegular says), and that the function equals
//     the model's decision (Misc/PanicsGate.v walk_fn).

import (
	"bytes"
	"fmt"
	"go/ast"
	"go/printer"
	"go/token"
	"strconv"
	"strings"
)

func init() { registerTable("C20Rec", genC20Rec) }

// c20CoqStrExpr prints any byte string as a Gallina string expression (reduces to a literal).
func c20CoqStrExpr(s string) string {
	if s == "" {
		return `""`
	}
	printable := func(b byte) bool { return b >= 0x20 && b <= 0x7e }
	if !printable(s[0]) {
		return fmt.Sprintf("(String (Ascii.ascii_of_nat %d) %s)", s[0], c20CoqStrExpr(s[1:]))
	}
	i := 0
	for i < len(s) && printable(s[i]) {
		i++
	}
	lit := `"` + strings.ReplaceAll(s[:i], `"`, `""`) + `"`
	if i == len(s) {
		return lit
	}
	return "(" + lit + " ++ " + c20CoqStrExpr(s[i:]) + ")"
}

func c20Src(fset *token.FileSet, n ast.Node) string {
	var b bytes.Buffer
	printer.Fprint(&b, fset, n)
	return strings.Join(strings.Fields(b.String()), " ")
}

// ---------- engine.go: counter keys ----------

type c20KeyCtx struct {
	consts map[string]string   // package-level string constants
	arg    string              // name of the closure's first parameter
	locals map[string]ast.Expr // x := expr inside the closure
	depth  int
}

func (c *c20KeyCtx) expr(e ast.Expr) (string, error) {
	if c.depth > 20 {
		return "", fmt.Errorf("key expression too deep")
	}
	switch v := e.(type) {
	case *ast.ParenExpr:
		return c.expr(v.X)
	case *ast.BasicLit:
		if s, ok := strLit(v); ok {
			return c20CoqStrExpr(s), nil
		}
	case *ast.Ident:
		if v.Name == c.arg {
			return "arg", nil
		}
		if l, ok := c.locals[v.Name]; ok {
			c.depth++
			defer func() { c.depth-- }()
			return c.expr(l)
		}
		if s, ok := c.consts[v.Name]; ok {
			return c20CoqStrExpr(s), nil
		}
	case *ast.BinaryExpr:
		if v.Op == token.ADD {
			a, err := c.expr(v.X)
			if err != nil {
				return "", err
			}
			b, err := c.expr(v.Y)
			if err != nil {
				return "", err
			}
			return "(" + a + " ++ " + b + ")", nil
		}
	}
	return "", fmt.Errorf("counter key of unsupported form")
}

// c20CounterKeys analyses `func <fn>(..., m map[string]int, ...) func(arg string, ...) ...`.
func c20CounterKeys(f *ast.File, fset *token.FileSet, fn string, consts map[string]string) (guard, inc, dec []string, err error) {
	var fd *ast.FuncDecl
	for _, d := range f.Decls {
		if x, ok := d.(*ast.FuncDecl); ok && x.Name.Name == fn && x.Recv == nil {
			fd = x
		}
	}
	if fd == nil {
		return nil, nil, nil, fmt.Errorf("%s not found", fn)
	}
	mapName := ""
	for _, p := range fd.Type.Params.List {
		if _, ok := p.Type.(*ast.MapType); ok && len(p.Names) == 1 {
			mapName = p.Names[0].Name
		}
	}
	if mapName == "" {
		return nil, nil, nil, fmt.Errorf("%s: no map parameter", fn)
	}
	var lit *ast.FuncLit
	for _, s := range fd.Body.List {
		if r, ok := s.(*ast.ReturnStmt); ok && len(r.Results) == 1 {
			if l, ok := r.Results[0].(*ast.FuncLit); ok {
				lit = l
			}
		}
	}
	if lit == nil || len(lit.Type.Params.List) == 0 || len(lit.Type.Params.List[0].Names) == 0 {
		return nil, nil, nil, fmt.Errorf("%s: returned closure not found", fn)
	}
	ctx := &c20KeyCtx{consts: consts, arg: lit.Type.Params.List[0].Names[0].Name, locals: map[string]ast.Expr{}}
	isMapIndex := func(e ast.Expr) (ast.Expr, bool) {
		ix, ok := e.(*ast.IndexExpr)
		if !ok {
			return nil, false
		}
		id, ok := ix.X.(*ast.Ident)
		return ix.Index, ok && id.Name == mapName
	}
	isBound := func(e ast.Expr) bool {
		id, ok := e.(*ast.Ident)
		return ok && id.Name == "recursionMaxNums"
	}
	add := func(l *[]string, k ast.Expr) {
		s, e := ctx.expr(k)
		if e != nil {
			err = fmt.Errorf("%s: %v: %s", fn, e, c20Src(fset, k))
			return
		}
		for _, x := range *l {
			if x == s {
				return
			}
		}
		*l = append(*l, s)
	}
	// locals first (x := expr with one name), and values read from the map (v, ok := m[K])
	read := map[string]ast.Expr{}
	ast.Inspect(lit.Body, func(n ast.Node) bool {
		if as, ok := n.(*ast.AssignStmt); ok && as.Tok == token.DEFINE && len(as.Rhs) == 1 {
			if k, ok := isMapIndex(as.Rhs[0]); ok && len(as.Lhs) >= 1 {
				if id, ok := as.Lhs[0].(*ast.Ident); ok {
					read[id.Name] = k
				}
			} else if len(as.Lhs) == 1 {
				if id, ok := as.Lhs[0].(*ast.Ident); ok {
					ctx.locals[id.Name] = as.Rhs[0]
				}
			}
		}
		return true
	})
	ast.Inspect(lit.Body, func(n ast.Node) bool {
		switch v := n.(type) {
		case *ast.BinaryExpr:
			if (v.Op == token.GTR || v.Op == token.GEQ) && isBound(v.Y) {
				if k, ok := isMapIndex(v.X); ok {
					add(&guard, k)
				} else if id, ok := v.X.(*ast.Ident); ok {
					if k, ok := read[id.Name]; ok {
						add(&guard, k)
					}
				}
			}
		case *ast.IncDecStmt:
			if k, ok := isMapIndex(v.X); ok {
				if v.Tok == token.INC {
					add(&inc, k)
				} else {
					add(&dec, k)
				}
			}
		case *ast.AssignStmt:
			if v.Tok == token.ASSIGN && len(v.Lhs) == 1 {
				if k, ok := isMapIndex(v.Lhs[0]); ok {
					add(&inc, k)
				}
			}
		}
		return true
	})
	return
}

// ---------- directory.go: guards before os.ReadFile ----------

type c20GateCtx struct {
	fset  *token.FileSet
	fi    string
	atoms []string // source text of the opaque atoms, index = atom number
}

var c20ModeBits = map[string]string{"ModeDir": "m_dir", "ModeSymlink": "m_symlink", "ModeNamedPipe": "m_pipe", "ModeSocket": "m_socket",
	"ModeDevice": "m_device", "ModeCharDevice": "m_chardev", "ModeIrregular": "m_irregular"}
var c20ModeOrder = []string{"ModeDir", "ModeSymlink", "ModeNamedPipe", "ModeSocket", "ModeDevice", "ModeCharDevice", "ModeIrregular"}

// mask: os.ModeX | os.ModeY | os.ModeType -> set of type bits (ok=false when it has anything else)
func c20Mask(e ast.Expr) (map[string]bool, bool) {
	switch v := e.(type) {
	case *ast.ParenExpr:
		return c20Mask(v.X)
	case *ast.SelectorExpr:
		if p, ok := v.X.(*ast.Ident); ok && (p.Name == "os" || p.Name == "fs") {
			if v.Sel.Name == "ModeType" {
				out := map[string]bool{}
				for _, b := range c20ModeOrder {
					out[b] = true
				}
				return out, true
			}
			if _, ok := c20ModeBits[v.Sel.Name]; ok {
				return map[string]bool{v.Sel.Name: true}, true
			}
		}
	case *ast.BinaryExpr:
		if v.Op == token.OR {
			a, ok1 := c20Mask(v.X)
			b, ok2 := c20Mask(v.Y)
			if ok1 && ok2 {
				for k := range b {
					a[k] = true
				}
				return a, true
			}
		}
	}
	return nil, false
}

// isModeCall: fi.Mode()
func (c *c20GateCtx) isModeCall(e ast.Expr) bool {
	call, ok := e.(*ast.CallExpr)
	if !ok || len(call.Args) != 0 {
		return false
	}
	sel, ok := call.Fun.(*ast.SelectorExpr)
	if !ok || sel.Sel.Name != "Mode" {
		return false
	}
	id, ok := sel.X.(*ast.Ident)
	return ok && id.Name == c.fi
}

// bits: fi.Mode() & MASK, fi.Mode().Type(), fi.Mode().Type() & MASK -> the type bits tested
func (c *c20GateCtx) bits(e ast.Expr) (map[string]bool, bool) {
	switch v := e.(type) {
	case *ast.ParenExpr:
		return c.bits(v.X)
	case *ast.CallExpr:
		if sel, ok := v.Fun.(*ast.SelectorExpr); ok && sel.Sel.Name == "Type" && len(v.Args) == 0 && c.isModeCall(sel.X) {
			return c20Mask(&ast.SelectorExpr{X: ast.NewIdent("os"), Sel: ast.NewIdent("ModeType")})
		}
	case *ast.BinaryExpr:
		if v.Op == token.AND {
			if c.isModeCall(v.X) {
				return c20Mask(v.Y)
			}
			if c.isModeCall(v.Y) {
				return c20Mask(v.X)
			}
			if a, ok := c.bits(v.X); ok {
				if b, ok := c20Mask(v.Y); ok {
					out := map[string]bool{}
					for k := range a {
						if b[k] {
							out[k] = true
						}
					}
					return out, true
				}
			}
		}
	}
	return nil, false
}

func c20AnyBit(bits map[string]bool) string {
	var parts []string
	for _, b := range c20ModeOrder {
		if bits[b] {
			parts = append(parts, c20ModeBits[b]+" m")
		}
	}
	if len(parts) == 0 {
		return "false"
	}
	return "(" + strings.Join(parts, " || ") + ")"
}

func isZeroLit(e ast.Expr) bool {
	bl, ok := e.(*ast.BasicLit)
	return ok && bl.Kind == token.INT && bl.Value == "0"
}

func (c *c20GateCtx) atom(e ast.Expr) string {
	src := c20Src(c.fset, e)
	for i, a := range c.atoms {
		if a == src {
			return fmt.Sprintf("(nth %d o false)", i)
		}
	}
	c.atoms = append(c.atoms, src)
	return fmt.Sprintf("(nth %d o false)", len(c.atoms)-1)
}

func (c *c20GateCtx) cond(e ast.Expr) string {
	switch v := e.(type) {
	case *ast.ParenExpr:
		return c.cond(v.X)
	case *ast.UnaryExpr:
		if v.Op == token.NOT {
			return "(negb " + c.cond(v.X) + ")"
		}
	case *ast.BinaryExpr:
		switch v.Op {
		case token.LOR:
			return "(" + c.cond(v.X) + " || " + c.cond(v.Y) + ")"
		case token.LAND:
			return "(" + c.cond(v.X) + " && " + c.cond(v.Y) + ")"
		case token.NEQ, token.EQL:
			var bits map[string]bool
			ok := false
			if isZeroLit(v.Y) {
				bits, ok = c.bits(v.X)
			} else if isZeroLit(v.X) {
				bits, ok = c.bits(v.Y)
			}
			if ok {
				if v.Op == token.NEQ {
					return c20AnyBit(bits)
				}
				return "(negb " + c20AnyBit(bits) + ")"
			}
		}
	case *ast.CallExpr:
		if sel, ok := v.Fun.(*ast.SelectorExpr); ok && len(v.Args) == 0 {
			if id, ok := sel.X.(*ast.Ident); ok && id.Name == c.fi && sel.Sel.Name == "IsDir" {
				return "(is_dir m)"
			}
			if c.isModeCall(sel.X) {
				switch sel.Sel.Name {
				case "IsRegular":
					return "(is_regular m)"
				case "IsDir":
					return "(is_dir m)"
				}
			}
		}
	}
	return c.atom(e)
}

func c20HasCall(n ast.Node, pkg, fn string) bool {
	found := false
	ast.Inspect(n, func(x ast.Node) bool {
		if call, ok := x.(*ast.CallExpr); ok {
			if sel, ok := call.Fun.(*ast.SelectorExpr); ok && sel.Sel.Name == fn {
				if id, ok := sel.X.(*ast.Ident); ok && id.Name == pkg {
					found = true
				}
			}
		}
		return !found
	})
	return found
}

func c20LoadDirGate(repo string) (string, error) {
	f, fset, err := parseFile(repo, "pkg/chart/v2/loader/directory.go")
	if err != nil {
		return "", err
	}
	var lit *ast.FuncLit
	for _, d := range f.Decls {
		fd, ok := d.(*ast.FuncDecl)
		if !ok || fd.Name.Name != "LoadDir" {
			continue
		}
		ast.Inspect(fd.Body, func(n ast.Node) bool {
			if l, ok := n.(*ast.FuncLit); ok && lit == nil && len(l.Type.Params.List) == 3 && c20HasCall(l.Body, "os", "ReadFile") {
				lit = l
			}
			return true
		})
	}
	if lit == nil {
		return "", fmt.Errorf("LoadDir: walk callback with os.ReadFile not found")
	}
	p := lit.Type.Params.List[1]
	if len(p.Names) != 1 {
		return "", fmt.Errorf("LoadDir: callback parameters of unexpected form")
	}
	ctx := &c20GateCtx{fset: fset, fi: p.Names[0].Name}
	var conds, srcs []string
	reached := false
	for _, s := range lit.Body.List {
		if c20HasCall(s, "os", "ReadFile") {
			// the statement itself must not be a conditional around the call
			if _, ok := s.(*ast.AssignStmt); !ok {
				return "", fmt.Errorf("LoadDir: os.ReadFile is not called by a plain assignment")
			}
			reached = true
			break
		}
		switch v := s.(type) {
		case *ast.IfStmt:
			if v.Else != nil || len(v.Body.List) == 0 {
				continue
			}
			if _, ok := v.Body.List[len(v.Body.List)-1].(*ast.ReturnStmt); !ok {
				continue
			}
			if v.Init != nil {
				conds = append(conds, ctx.atom(v.Cond))
			} else {
				conds = append(conds, ctx.cond(v.Cond))
			}
			srcs = append(srcs, c20Src(fset, v.Cond))
		case *ast.AssignStmt:
			for _, l := range v.Lhs {
				if id, ok := l.(*ast.Ident); ok && id.Name == ctx.fi {
					return "", fmt.Errorf("LoadDir: the FileInfo parameter is reassigned")
				}
			}
		}
	}
	if !reached {
		return "", fmt.Errorf("LoadDir: os.ReadFile not at the top level of the callback")
	}
	var b strings.Builder
	b.WriteString("(* pkg/chart/v2/loader/directory.go LoadDir, the walk callback: os.ReadFile is reached when none of\n   these conditions (each returns) holds:\n")
	for i, s := range srcs {
		fmt.Fprintf(&b, "     %d. %s\n", i+1, strings.ReplaceAll(s, "*)", "* )"))
	}
	b.WriteString("   opaque atoms (not tests of the mode), by number:\n")
	for i, a := range ctx.atoms {
		fmt.Fprintf(&b, "     o%d = %s\n", i, strings.ReplaceAll(a, "*)", "* )"))
	}
	b.WriteString("*)\nDefinition loaddir_readfile_reached (m : fmode) (o : list bool) : bool :=\n  ")
	for _, c := range conds {
		b.WriteString("negb " + c + " &&\n  ")
	}
	b.WriteString("true.\n")
	fmt.Fprintf(&b, "Definition loaddir_atoms : nat := %d.\n", len(ctx.atoms))
	return b.String(), nil
}

func genC20Rec(repo string) (string, error) {
	ef, fset, err := parseFile(repo, "pkg/engine/engine.go")
	if err != nil {
		return "", err
	}
	consts := map[string]string{}
	for _, d := range ef.Decls {
		gd, ok := d.(*ast.GenDecl)
		if !ok || gd.Tok != token.CONST {
			continue
		}
		for _, s := range gd.Specs {
			vs := s.(*ast.ValueSpec)
			for i, n := range vs.Names {
				if i < len(vs.Values) {
					if bl, ok := vs.Values[i].(*ast.BasicLit); ok && bl.Kind == token.STRING {
						if v, err := strconv.Unquote(bl.Value); err == nil {
							consts[n.Name] = v
						}
					}
				}
			}
		}
	}
	list := func(l []string) string { return "[" + strings.Join(l, "; ") + "]" }
	var b strings.Builder
	b.WriteString("From Coq Require Import Bool.\nFrom Helm Require Import Misc.PanicsGate.\n\n")
	b.WriteString("(* pkg/engine/engine.go: the keys of the recursion counters as functions of the argument of the\n   template function (arg = the template name for include, the template text for tpl) *)\n")
	for _, fn := range [][2]string{{"tplFun", "tpl"}, {"includeFun", "include"}} {
		g, i, d, err := c20CounterKeys(ef, fset, fn[0], consts)
		if err != nil {
			return "", err
		}
		fmt.Fprintf(&b, "Definition engine_%s_guard_keys (arg : string) : list string := %s.\n", fn[1], list(g))
		fmt.Fprintf(&b, "Definition engine_%s_inc_keys (arg : string) : list string := %s.\n", fn[1], list(i))
		fmt.Fprintf(&b, "Definition engine_%s_dec_keys (arg : string) : list string := %s.\n", fn[1], list(d))
	}
	b.WriteString("\n")
	gate, err := c20LoadDirGate(repo)
	if err != nil {
		return "", err
	}
	b.WriteString(gate)
	return b.String(), nil
}

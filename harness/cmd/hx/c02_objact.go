package main

// C02, rich object domain at the ACTION level (round 4): short fault-free histories of the REAL
// action.Install / Upgrade / Rollback / Uninstall over the real kube.Client and the simulated API
// server, with charts holding Deployments, Services, ConfigMaps and the custom kind Widget, out-of-band
// edits between the operations, --force, --take-ownership, and resources whose apiVersion moves to
// another version of the same API group between two revisions (apps/v1beta2 <-> apps/v1).
//
//  - The runtime oracle evaluates the property's sentences on the whole objects before and after each
//    successful operation (actOracle, written from the property text).
//  - Every kube.Client call the action makes is recorded with the ARGUMENTS THE ACTION BUILT (original and
//    target resource lists after stamping and adoption) and the object store before and after it; the Coq
//    model (Engine/Update2.v) evaluates each call on whole objects (Run/RunC02Obj.v).

import (
	"encoding/json"
	"fmt"
	"math/rand"
	"net/http"
	"sort"
	"strings"
	"time"

	"k8s.io/apimachinery/pkg/api/meta"
	metav1 "k8s.io/apimachinery/pkg/apis/meta/v1"
	"k8s.io/client-go/discovery"
	"k8s.io/client-go/rest"
	"k8s.io/client-go/tools/clientcmd"
	"sigs.k8s.io/yaml"

	"helm.sh/helm/v4/pkg/action"
	chart "helm.sh/helm/v4/pkg/chart/v2"
	chartutil "helm.sh/helm/v4/pkg/chart/v2/util"
	"helm.sh/helm/v4/pkg/kube"
	releaseutil "helm.sh/helm/v4/pkg/release/util"
	rspb "helm.sh/helm/v4/pkg/release/v1"
	"helm.sh/helm/v4/pkg/storage"
	"helm.sh/helm/v4/pkg/storage/driver"

	"verif/harness/internal/hx"
	"verif/harness/internal/nsim"
)

type actStep struct {
	Op            string   `json:"op"` // install upgrade rollback uninstall edit
	Manifest      []objRes `json:"manifest,omitempty"`
	Force         bool     `json:"force,omitempty"`
	TakeOwnership bool     `json:"take_ownership,omitempty"`
	Version       int      `json:"version,omitempty"` // rollback target, 0 = previous
	Recreate      bool     `json:"recreate,omitempty"` // upgrade / rollback --recreate-pods
	Set           *objRes  `json:"set,omitempty"`
	Del           string   `json:"del,omitempty"`
}

type actCase struct {
	Live  []objRes  `json:"live,omitempty"`
	Steps []actStep `json:"steps"`
}

type actCall struct {
	Step   objStep                           `json:"call"` // the kube.Client call with the arguments the action passed
	Before map[string]map[string]interface{} `json:"before"`
	Obs    objStepObs                        `json:"obs"`
}

type actRow struct {
	Rev      int      `json:"rev"`
	Status   string   `json:"status"`
	Manifest []objRes `json:"manifest"`
}

type actStepObs struct {
	Outcome string                            `json:"outcome"` // ok err
	ErrText string                            `json:"err_text,omitempty"`
	Calls   []actCall                         `json:"calls,omitempty"`
	Objs    map[string]map[string]interface{} `json:"objs"`
	Ledger  []actRow                          `json:"ledger"`
	Panic   string                            `json:"panic,omitempty"`
	// what happened to the store after the last recorded client call (action.recreate deletes pods through a
	// clientset of its own) and which resources that call reported as updated
	TailMuts []nsim.Mut `json:"tail_muts,omitempty"`
	Kept     string     `json:"kept,omitempty"` // uninstall: the response's Info
	// the manifest text the operation worked from (uninstall: the latest revision's; install / upgrade: the new
	// revision's), what the real SplitManifests makes of it and how many objects the real decoder (Build) sees
	ManifestText string   `json:"manifest_text,omitempty"`
	HelmDocs     []string `json:"helm_docs,omitempty"`
	DecoderDocs  int      `json:"decoder_docs"`
}

type actObs struct {
	Before map[string]map[string]interface{} `json:"before"`
	Steps  []actStepObs                      `json:"steps"`
}

// ---- recording client ----

type actClient struct {
	*kube.Client
	srv    *nsim.Server
	calls  *[]actCall
	panics *[]string
	// keys of Result.Updated of the last Update call
	lastUpdated []string
}

func (c *actClient) IsReachable() error { return nil }

func (c *actClient) GetWaiter(ws kube.WaitStrategy) (kube.Waiter, error) {
	switch ws {
	case kube.StatusWatcherStrategy, kube.LegacyStrategy, kube.HookOnlyStrategy:
		return actWaiter{}, nil
	}
	return nil, fmt.Errorf("unknown wait strategy")
}

type actWaiter struct{}

func (actWaiter) Wait(kube.ResourceList, time.Duration) error            { return nil }
func (actWaiter) WaitWithJobs(kube.ResourceList, time.Duration) error    { return nil }
func (actWaiter) WaitForDelete(kube.ResourceList, time.Duration) error   { return nil }
func (actWaiter) WatchUntilReady(kube.ResourceList, time.Duration) error { return nil }

// infoRes reads a resource back from what the action handed to the client.
func infoRes(rl kube.ResourceList) []objRes {
	var out []objRes
	for _, i := range rl {
		b, _ := json.Marshal(i.Object)
		var o map[string]interface{}
		json.Unmarshal(b, &o)
		out = append(out, resOfObject(o, i.Namespace, i.Mapping.GroupVersionKind.Kind, i.Mapping.GroupVersionKind.Version, i.Name))
	}
	return out
}

func resOfObject(o map[string]interface{}, ns, kind, ver, name string) objRes {
	if o == nil {
		o = map[string]interface{}{}
	}
	delete(o, "apiVersion")
	delete(o, "kind")
	if md, ok := o["metadata"].(map[string]interface{}); ok {
		delete(md, "name")
		delete(md, "namespace")
	}
	r := objRes{Kind: kind, Name: name, Body: o}
	if ns != "" && ns != "default" {
		r.Kind = ns + "/" + kind
	}
	if ver != r.version() {
		r.Ver = ver
	}
	return r
}

// record runs one client call; a panic inside the real client is recorded (the oracle reports it) and handed
// to the action as an error: the action may run the call in its own goroutine, where nobody could recover it.
func (c *actClient) record(st objStep, run func() (bool, string, []string)) (panicked error) {
	c.lastUpdated = nil
	call := actCall{Step: st, Before: c.srv.SnapshotRaw()}
	c.srv.TakeMuts()
	func() {
		defer func() {
			if x := recover(); x != nil {
				call.Obs.Panic = fmt.Sprint(x)
			}
		}()
		call.Obs.Ok, call.Obs.ErrText, call.Obs.Created = run()
	}()
	call.Obs.Muts = c.srv.TakeMuts()
	call.Obs.Objs = c.srv.SnapshotRaw()
	*c.calls = append(*c.calls, call)
	if call.Obs.Panic != "" {
		*c.panics = append(*c.panics, call.Obs.Panic)
		return fmt.Errorf("panic in kube.Client.%s: %s", st.Verb, call.Obs.Panic)
	}
	return nil
}

func errText(err error) string {
	if err == nil {
		return ""
	}
	return err.Error()
}

func (c *actClient) Create(rs kube.ResourceList) (res *kube.Result, err error) {
	if p := c.record(objStep{Verb: "create", Tgt: infoRes(rs)}, func() (bool, string, []string) {
		res, err = c.Client.Create(rs)
		return err == nil, errText(err), nil
	}); p != nil {
		return &kube.Result{}, p
	}
	return
}

func (c *actClient) update(o, t kube.ResourceList, force, tw bool) (res *kube.Result, err error) {
	if p := c.record(objStep{Verb: "update", Force: force, ThreeWay: tw, Orig: infoRes(o), Tgt: infoRes(t)}, func() (bool, string, []string) {
		if tw {
			res, err = c.Client.UpdateThreeWayMerge(o, t, force)
		} else {
			res, err = c.Client.Update(o, t, force)
		}
		var created []string
		if res != nil {
			created = infoKeys(res.Created)
			c.lastUpdated = infoKeys(res.Updated)
		}
		return err == nil, errText(err), created
	}); p != nil {
		return &kube.Result{}, p
	}
	if n := len(*c.calls); n > 0 {
		(*c.calls)[n-1].Obs.Updated = c.lastUpdated
	}
	return
}

func (c *actClient) Update(o, t kube.ResourceList, force bool) (*kube.Result, error) {
	return c.update(o, t, force, false)
}
func (c *actClient) UpdateThreeWayMerge(o, t kube.ResourceList, force bool) (*kube.Result, error) {
	return c.update(o, t, force, true)
}

func (c *actClient) Delete(rs kube.ResourceList) (res *kube.Result, errs []error) {
	if p := c.record(objStep{Verb: "delete", Tgt: infoRes(rs)}, func() (bool, string, []string) {
		res, errs = c.Client.Delete(rs)
		return len(errs) == 0, fmt.Sprint(errs), nil
	}); p != nil {
		return nil, []error{p}
	}
	return
}

func (c *actClient) DeleteWithPropagationPolicy(rs kube.ResourceList, pol metav1.DeletionPropagation) (res *kube.Result, errs []error) {
	if p := c.record(objStep{Verb: "delete", Tgt: infoRes(rs)}, func() (bool, string, []string) {
		res, errs = c.Client.DeleteWithPropagationPolicy(rs, pol)
		return len(errs) == 0, fmt.Sprint(errs), nil
	}); p != nil {
		return nil, []error{p}
	}
	return
}

// ---- running ----

func actChart(n int, rs []objRes) *chart.Chart {
	c := &chart.Chart{Metadata: &chart.Metadata{APIVersion: "v2", Name: "c", Version: fmt.Sprintf("0.%d.0", n)}}
	for i, r := range rs {
		y, _ := yaml.Marshal(objFull(r))
		if r.Sep != "" && len(c.Templates) > 0 {
			f := c.Templates[len(c.Templates)-1]
			if r.Sep == "flow" {
				// the document in flow (JSON) style on the separator line itself: "--- {...}"
				j, _ := json.Marshal(objFull(r))
				f.Data = append(append(f.Data, []byte("--- ")...), append(j, '\n')...)
			} else if r.Sep == "crlf" {
				f.Data = []byte(strings.ReplaceAll(strings.ReplaceAll(string(f.Data), "\r\n", "\n")+"---\n"+string(y), "\n", "\r\n"))
			} else {
				f.Data = append(append(f.Data, []byte(r.Sep+"\n")...), y...)
			}
			continue
		}
		c.Templates = append(c.Templates, &chart.File{Name: fmt.Sprintf("templates/r%02d.yaml", i), Data: y})
	}
	return c
}

// actGetter hands action.recreate (cfg.KubernetesClientSet) a REST config whose transport is the simulated
// API server.
type actGetter struct{ srv *nsim.Server }

type actRT struct{ srv *nsim.Server }

func (t actRT) RoundTrip(r *http.Request) (*http.Response, error) { return t.srv.RoundTrip(r) }

func (g actGetter) ToRESTConfig() (*rest.Config, error) {
	return &rest.Config{Host: "http://nsim.invalid", Transport: actRT{g.srv},
		ContentConfig: rest.ContentConfig{ContentType: "application/json", AcceptContentTypes: "application/json"}}, nil
}
func (g actGetter) ToDiscoveryClient() (discovery.CachedDiscoveryInterface, error) {
	return nil, fmt.Errorf("no discovery in the stand-in")
}
func (g actGetter) ToRESTMapper() (meta.RESTMapper, error) { return nil, fmt.Errorf("no REST mapper in the stand-in") }
func (g actGetter) ToRawKubeConfigLoader() clientcmd.ClientConfig { return nil }

// actSplit: the real splitter's documents in order, and the number of objects the real decoder sees
func actSplit(kc *kube.Client, text string) ([]string, int) {
	m := releaseutil.SplitManifests(text)
	keys := make([]string, 0, len(m))
	for k := range m {
		keys = append(keys, k)
	}
	sort.Slice(keys, func(i, j int) bool {
		var a, b int
		fmt.Sscanf(keys[i], "manifest-%d", &a)
		fmt.Sscanf(keys[j], "manifest-%d", &b)
		return a < b
	})
	docs := make([]string, len(keys))
	for i, k := range keys {
		docs[i] = m[k]
	}
	n := -1
	if rl, err := kc.Build(strings.NewReader(text), false); err == nil {
		n = len(rl)
	} else if strings.TrimSpace(text) == "" {
		n = 0
	}
	return docs, n
}

// actParseManifest reads a release manifest the way the property text does: a line that starts with "---" ends
// a document (whatever follows on that line), every document is one resource.  Written independently of
// releaseutil.SplitManifests.
func actParseManifest(m string) []objRes {
	var out []objRes
	var docs []string
	var cur []string
	for _, ln := range strings.Split(m, "\n") {
		if strings.HasPrefix(ln, "---") {
			docs = append(docs, strings.Join(cur, "\n"))
			cur = nil
			continue
		}
		cur = append(cur, ln)
	}
	docs = append(docs, strings.Join(cur, "\n"))
	for _, doc := range docs {
		var o map[string]interface{}
		if err := yaml.Unmarshal([]byte(doc), &o); err != nil || o == nil {
			continue
		}
		kind, _ := o["kind"].(string)
		av, _ := o["apiVersion"].(string)
		md, _ := o["metadata"].(map[string]interface{})
		name, _ := md["name"].(string)
		ns, _ := md["namespace"].(string)
		if kind == "" {
			continue
		}
		ver := av
		if i := strings.LastIndex(av, "/"); i >= 0 {
			ver = av[i+1:]
		}
		out = append(out, resOfObject(o, ns, kind, ver, name))
	}
	return out
}

// actSelector: the pod selector an object declares (Deployment: spec.selector.matchLabels, Service: spec.selector),
// nil when it declares none.
func actSelector(nskind string, obj map[string]interface{}) map[string]string {
	_, kind := nsim.SplitKind(nskind)
	spec, _ := obj["spec"].(map[string]interface{})
	var raw map[string]interface{}
	switch kind {
	case "Deployment":
		sel, _ := spec["selector"].(map[string]interface{})
		raw, _ = sel["matchLabels"].(map[string]interface{})
	case "Service":
		raw, _ = spec["selector"].(map[string]interface{})
	}
	if len(raw) == 0 {
		return nil
	}
	out := map[string]string{}
	for k, v := range raw {
		out[k] = fmt.Sprint(v)
	}
	return out
}

// actPodOfRelease: some resource of the new revision's manifest, AS IT IS IN THE CLUSTER after the operation, selects
// the pod (same namespace, the pod carries every label of the object's selector).  The object in the cluster, not
// the manifest text: a selector entry somebody added to the release's Service out of band survives the three-way
// merge (foreign fields are kept), the Service then does route to the pod, and the pod is one of "the pods of the
// release's Service" that --recreate-pods is there to restart.  (First version: the manifest's own text; that
// flagged exactly this case on the unchanged tree - a false alarm of the oracle, see notes.)
func actPodOfRelease(key string, pod map[string]interface{}, manifest []objRes, cluster map[string]map[string]interface{}) bool {
	ns, _ := nsim.SplitKind(kindOfKey(key))
	md, _ := pod["metadata"].(map[string]interface{})
	lbl, _ := md["labels"].(map[string]interface{})
	for _, r := range manifest {
		rns, _ := nsim.SplitKind(r.Kind)
		live := cluster[r.Key()]
		if live == nil || rns != ns {
			continue
		}
		sel := actSelector(r.Kind, live)
		if sel == nil {
			continue
		}
		ok := true
		for k, v := range sel {
			if lv, has := lbl[k]; !has || fmt.Sprint(lv) != v {
				ok = false
			}
		}
		if ok {
			return true
		}
	}
	return false
}

func actLedger(d driver.Driver) []actRow {
	rs, _ := d.List(func(*rspb.Release) bool { return true })
	var out []actRow
	for _, x := range rs {
		row := actRow{Rev: x.Version, Manifest: actParseManifest(x.Manifest)}
		if x.Info != nil {
			row.Status = string(x.Info.Status)
		}
		out = append(out, row)
	}
	sort.Slice(out, func(i, j int) bool { return out[i].Rev < out[j].Rev })
	return out
}

const actRel = "rel"

func actExecute(c *actCase) (o actObs) {
	srv := nsim.New()
	for _, l := range c.Live {
		srv.PutRaw(l.Kind, l.Name, objFull(l))
	}
	o.Before = srv.SnapshotRaw()
	mem := driver.NewMemory()
	for i, s := range c.Steps {
		var so actStepObs
		if s.Op == "edit" {
			if s.Set != nil {
				srv.PutRaw(s.Set.Kind, s.Set.Name, objFull(*s.Set))
			} else {
				srv.Remove(s.Del)
			}
			so.Outcome = "ok"
		} else {
			var calls []actCall
			var panics []string
			kc := &actClient{Client: srv.Client(), srv: srv, calls: &calls, panics: &panics}
			cfg := &action.Configuration{KubeClient: kc, Releases: storage.Init(mem), Capabilities: chartutil.DefaultCapabilities.Copy(),
				RESTClientGetter: actGetter{srv}}
			lastText := func() string {
				if rs, _ := mem.List(func(*rspb.Release) bool { return true }); len(rs) > 0 {
					sort.Slice(rs, func(i, j int) bool { return rs[i].Version < rs[j].Version })
					return rs[len(rs)-1].Manifest
				}
				return ""
			}
			if s.Op == "uninstall" {
				so.ManifestText = lastText()
			}
			var err error
			func() {
				defer func() {
					if x := recover(); x != nil {
						so.Panic = fmt.Sprint(x)
					}
				}()
				switch s.Op {
				case "install":
					a := action.NewInstall(cfg)
					a.ReleaseName, a.Namespace = actRel, "default"
					a.DisableHooks, a.Force, a.TakeOwnership = true, s.Force, s.TakeOwnership
					a.Timeout, a.WaitStrategy = time.Second, kube.HookOnlyStrategy
					_, err = a.Run(actChart(i+1, s.Manifest), map[string]interface{}{})
				case "upgrade":
					a := action.NewUpgrade(cfg)
					a.Namespace = "default"
					a.DisableHooks, a.Force, a.TakeOwnership, a.Recreate = true, s.Force, s.TakeOwnership, s.Recreate
					a.Timeout, a.WaitStrategy = time.Second, kube.HookOnlyStrategy
					_, err = a.Run(actRel, actChart(i+1, s.Manifest), map[string]interface{}{})
				case "rollback":
					a := action.NewRollback(cfg)
					a.Version, a.DisableHooks, a.Force, a.Recreate = s.Version, true, s.Force, s.Recreate
					a.Timeout, a.WaitStrategy = time.Second, kube.HookOnlyStrategy
					err = a.Run(actRel)
				case "uninstall":
					a := action.NewUninstall(cfg)
					a.DisableHooks = true
					a.Timeout, a.WaitStrategy = time.Second, kube.HookOnlyStrategy
					var resp *rspb.UninstallReleaseResponse
					resp, err = a.Run(actRel)
					if resp != nil {
						so.Kept = resp.Info
					}
				}
			}()
			so.TailMuts = srv.TakeMuts()
			if s.Op != "uninstall" && err == nil {
				so.ManifestText = lastText()
			}
			if so.ManifestText != "" {
				so.HelmDocs, so.DecoderDocs = actSplit(srv.Client(), so.ManifestText)
			}
			so.Outcome = "ok"
			if err != nil {
				so.Outcome, so.ErrText = "err", err.Error()
			}
			so.Calls = calls
			if len(panics) > 0 && so.Panic == "" {
				so.Panic = strings.Join(panics, "; ")
			}
		}
		so.Objs = srv.SnapshotRaw()
		so.Ledger = actLedger(mem)
		o.Steps = append(o.Steps, so)
	}
	return
}

// ---- Coq: the calls of all steps, flattened into one ocase ----

func actCoq(c *actCase, o *actObs) string {
	oc := &objCase{}
	oo := &objObs{Before: o.Before}
	for i, s := range c.Steps {
		if i >= len(o.Steps) {
			break
		}
		if s.Op == "edit" {
			oc.Steps = append(oc.Steps, objStep{Verb: "edit", Set: s.Set, Del: s.Del})
			oo.Steps = append(oo.Steps, objStepObs{Ok: true, Objs: o.Steps[i].Objs})
			continue
		}
		so := o.Steps[i]
		for _, call := range so.Calls {
			oc.Steps = append(oc.Steps, call.Step)
			oo.Steps = append(oo.Steps, call.Obs)
		}
		// action.recreate runs after the update of a successful upgrade / rollback, through its own clientset
		if s.Recreate && (s.Op == "upgrade" || s.Op == "rollback") && len(so.Calls) > 0 {
			last := so.Calls[len(so.Calls)-1]
			if last.Step.Verb == "update" && last.Obs.Ok {
				upd := map[string]bool{}
				for _, k := range last.Obs.Updated {
					upd[k] = true
				}
				var rs []objRes
				for _, t := range last.Step.Tgt {
					if upd[t.Key()] {
						rs = append(rs, t)
					}
				}
				oc.Steps = append(oc.Steps, objStep{Verb: "recreate", Tgt: rs})
				oo.Steps = append(oo.Steps, objStepObs{Ok: true, Objs: so.Objs, Muts: so.TailMuts})
			}
		}
		// the split check where it matters: before an uninstall, and whenever documents share a template file
		shared := s.Op == "uninstall"
		for _, r := range s.Manifest {
			if r.Sep != "" {
				shared = true
			}
		}
		if shared && so.ManifestText != "" && so.DecoderDocs >= 0 {
			oc.Steps = append(oc.Steps, objStep{Verb: "split", Text: so.ManifestText, Docs: so.HelmDocs, NDocs: so.DecoderDocs})
			oo.Steps = append(oo.Steps, objStepObs{Ok: true, Objs: so.Objs})
		}
	}
	return objCoq(oc, oo)
}

// ---- oracle: the property's sentences on whole objects ----

func actDeployed(l []actRow) *actRow {
	var d *actRow
	for i := range l {
		if l[i].Status == "deployed" && (d == nil || l[i].Rev > d.Rev) {
			d = &l[i]
		}
	}
	return d
}

func actLast(l []actRow) *actRow {
	var d *actRow
	for i := range l {
		if d == nil || l[i].Rev > d.Rev {
			d = &l[i]
		}
	}
	return d
}

func actOracle(c *actCase, o *actObs) []hx.Violation {
	var vs []hx.Violation
	add := func(sig, what string) { vs = append(vs, hx.Violation{Sig: sig, What: what}) }
	before := objSnap(o.Before)
	var prevLed []actRow
	for i, s := range c.Steps {
		if i >= len(o.Steps) {
			break
		}
		so := o.Steps[i]
		after := objSnap(so.Objs)
		if so.Panic != "" {
			add("C02:panic", fmt.Sprintf("step %d: %s panicked: %s", i, s.Op, so.Panic))
		}
		if s.Op != "edit" && so.Outcome == "ok" && so.Panic == "" {
			mine := map[string]bool{}
			for _, l := range [][]actRow{prevLed, so.Ledger} {
				for _, row := range l {
					for _, r := range row.Manifest {
						mine[r.Key()] = true
					}
				}
			}
			for _, r := range s.Manifest {
				mine[r.Key()] = true
			}
			switch s.Op {
			case "install", "upgrade", "rollback":
				newRow := actLast(so.Ledger)
				if newRow == nil || (actLast(prevLed) != nil && actLast(prevLed).Rev >= newRow.Rev) {
					break
				}
				pd := actDeployed(prevLed)
				prevBy := map[string]otree{}
				if pd != nil {
					for _, r := range pd.Manifest {
						prevBy[r.Key()] = objTree(r.Kind, objFull(r))
					}
				}
				for _, r := range newRow.Manifest {
					live, ok := after[r.Key()]
					if !ok {
						add("C02:obj-manifest-resource-missing", fmt.Sprintf("step %d: %s succeeded (revision %d) but %s %s/%s of its manifest is not in the cluster",
							i, s.Op, newRow.Rev, r.apiVersion(), r.Kind, r.Name))
						continue
					}
					tt := objTree(r.Kind, objFull(r))
					b, had := before[r.Key()]
					ot, hadOrig := prevBy[r.Key()]
					tt.leaves(nil, func(p []string, want otree) {
						got, found := live.at(p)
						if found && leafMatches(want, got) {
							return
						}
						sig := "C02:obj-manifest-field-not-applied"
						// K9-C02: custom kind that EXISTS, is owned by the release and is in no manifest of the deployed
						// revision (kept by its keep policy when an earlier revision dropped it, then re-added): upgrade /
						// install adopt it by appending the TARGET entry itself to the "original" list, and the two-way JSON
						// patch of (target, target) is empty: nothing of the new manifest is applied
						if objUnstructured(r.Kind) && !s.Force && had && !hadOrig && !(s.Op == "install" && s.TakeOwnership) {
							sig = "C02:unstructured-adopted-resource-not-patched"
						}
						// K8-C02: custom kind, upgrade / rollback (Client.Update, no --force): a field the previously deployed
						// manifest gives the same value is not in the two-way patch; out-of-band drift of it stays
						if objUnstructured(r.Kind) && !s.Force && s.Op != "install" && had && hadOrig {
							if ov, ofound := ot.at(p); ofound && leafMatches(want, ov) && (want.K == 's' || want.K == 'a' || treeEq(want, ov)) {
								if bv, bfound := b.at(p); !bfound || !leafMatches(want, bv) {
									sig = "C02:unstructured-two-way-patch-leaves-drifted-field"
								}
							}
						}
						add(sig, fmt.Sprintf("step %d: %s succeeded (revision %d) but %s: manifest says %s = %s, cluster has %s (present=%v)",
							i, s.Op, newRow.Rev, r.Key(), strings.Join(p, "."), want.coq(), got.coq(), found))
					})
				}
				if pd != nil {
					nk := map[string]bool{}
					for _, r := range newRow.Manifest {
						nk[r.Key()] = true
					}
					for _, r := range pd.Manifest {
						if nk[r.Key()] {
							continue
						}
						b, had := before[r.Key()]
						if _, still := after[r.Key()]; still && !objLiveKeep(b, had) {
							sig := "C02:obj-removed-resource-not-deleted"
							switch last := actLast(prevLed); {
							case s.Op == "install":
								sig = "C02:install-replace-over-deployed-leaves-resources"
							case s.Op == "rollback" && last != nil && last.Rev != pd.Rev && last.Status == "failed":
								sig = "C02:rollback-over-failed-revision-leaves-deployed-resources"
							}
							add(sig, fmt.Sprintf("step %d: %s succeeded; %s was in the previously deployed revision %d, is not in revision %d, has no live keep policy, and still exists",
								i, s.Op, r.Key(), pd.Rev, newRow.Rev))
						}
						if objLiveKeep(b, had) && !objUntouched(before, after, r.Key()) {
							add("C02:obj-kept-resource-touched", fmt.Sprintf("step %d: %s changed or deleted %s although the live object carries the keep policy", i, s.Op, r.Key()))
						}
					}
				}
			case "uninstall":
				last := actLast(prevLed)
				if last == nil || last.Status == "uninstalled" {
					break
				}
				var keepNames []string
				for _, r := range last.Manifest {
					t := objTree(r.Kind, objFull(r))
					pol, has := t.at([]string{"metadata", "annotations", "helm.sh/resource-policy"})
					keep := false
					if has && pol.K == 's' {
						var v string
						json.Unmarshal([]byte(pol.S), &v)
						keep = strings.ToLower(strings.TrimSpace(v)) == "keep"
					}
					if keep {
						if !objUntouched(before, after, r.Key()) {
							add("C02:uninstall-kept-resource-touched", fmt.Sprintf("step %d: uninstall changed or deleted %s although its manifest says keep", i, r.Key()))
						}
					} else if _, still := after[r.Key()]; still {
						add("C02:uninstall-left-resource", fmt.Sprintf("step %d: uninstall succeeded but %s still exists", i, r.Key()))
					}
					if keep {
						_, kind := nsim.SplitKind(r.Kind)
						keepNames = append(keepNames, "["+kind+"] "+r.Name)
					}
				}
				sort.Strings(keepNames)
				if listed := keptLines(so.Kept); strings.Join(keepNames, "\n") != strings.Join(listed, "\n") {
					add("C02:uninstall-kept-list", fmt.Sprintf("step %d: uninstall lists kept resources %q, the manifest keeps %q", i, listed, keepNames))
				}
			}
			for _, k := range allKeys2(before, after) {
				// --recreate-pods: the pods a resource of the NEW revision, as the cluster holds it, selects belong to the
				// release's workload and may be deleted; every other pod is a bystander
				if _, kind := nsim.SplitKind(kindOfKey(k)); kind == "Pod" && s.Recreate && !mine[k] {
					if _, gone := after[k]; !gone {
						var prevObjs map[string]map[string]interface{}
						if i == 0 {
							prevObjs = o.Before
						} else {
							prevObjs = o.Steps[i-1].Objs
						}
						if nr := actLast(so.Ledger); nr != nil && prevObjs[k] != nil && actPodOfRelease(k, prevObjs[k], nr.Manifest, so.Objs) {
							continue
						}
					}
				}
				if !mine[k] && !objUntouched(before, after, k) {
					add("C02:bystander-touched", fmt.Sprintf("step %d: %s created, changed or deleted %s, which is in none of the release's manifests", i, s.Op, k))
				}
			}
		}
		prevLed = so.Ledger
		before = after
	}
	return vs
}

// ---- generator ----

func genActCase(r *rand.Rand) *actCase {
	c := &actCase{}
	type slot struct {
		kind, name string
		spec       *gspec
		cur        map[string]interface{}
		ver        string
	}
	var slots []*slot
	for _, p := range objPool {
		if r.Intn(2) == 0 {
			slots = append(slots, &slot{kind: p.Kind, name: p.Name, spec: objSpecOf(p.Kind)})
		}
	}
	if len(slots) == 0 {
		slots = append(slots, &slot{kind: "Deployment", name: "web", spec: gDeployment})
	}
	res := func(s *slot, b map[string]interface{}) objRes {
		return objRes{Kind: s.kind, Name: s.name, Ver: s.ver, Body: objBody(jsonCopy(b))}
	}
	// a bystander
	if r.Intn(3) == 0 {
		c.Live = append(c.Live, objRes{Kind: "ConfigMap", Name: "bystander", Body: objBody(gGen(r, gConfigMap))})
	}
	// pods in the namespaces (round 5): the labels come from the pool the selectors are drawn from, so some are
	// selected by the release's Deployments / Services and some are nobody's
	withPods := r.Intn(2) == 0
	if withPods {
		for n := 1 + r.Intn(4); n > 0; n-- {
			kind := "Pod"
			if r.Intn(4) == 0 {
				kind = "other/Pod"
			}
			lbl := jm{}
			for _, k := range []string{"app", "tier"} {
				if r.Intn(3) > 0 {
					lbl[k] = gGen(r, gWord)
				}
			}
			c.Live = append(c.Live, objRes{Kind: kind, Name: fmt.Sprintf("p%d", n), Body: jm{"metadata": jm{"labels": lbl},
				"spec": jm{"containers": jl{jm{"name": "c", "image": "busybox:1"}}}}})
		}
	}
	seps := []string{"---", "--- ", "--- # the next document", "---#glued", "---\t", "crlf", "flow"}
	flipVer := func(s *slot) {
		if _, kind := nsim.SplitKind(s.kind); kind == "Deployment" && r.Intn(3) == 0 {
			if s.ver == "" {
				s.ver = "v1beta2"
			} else {
				s.ver = ""
			}
		}
	}
	manifest := func(first bool) []objRes {
		var m []objRes
		for _, s := range slots {
			switch {
			case s.cur == nil && (first && r.Intn(3) > 0 || r.Intn(4) == 0):
				s.cur = objBody(gGen(r, s.spec))
				if _, kind := nsim.SplitKind(s.kind); kind == "Deployment" && r.Intn(3) == 0 {
					s.ver = "v1beta2"
				}
			case s.cur != nil && r.Intn(6) == 0:
				s.cur = nil
			case s.cur != nil:
				s.cur = objBody(gMutate(r, s.spec, jsonCopy(s.cur)))
				flipVer(s)
			}
			if s.cur != nil {
				m = append(m, res(s, s.cur))
			}
		}
		r.Shuffle(len(m), func(i, j int) { m[i], m[j] = m[j], m[i] })
		for i := range m {
			// an apps/v1 Deployment needs a selector (the API server rejects an empty one)
			if _, kind := nsim.SplitKind(m[i].Kind); kind == "Deployment" {
				spec := objBody(m[i].Body["spec"])
				sel := objBody(spec["selector"])
				if ml, _ := sel["matchLabels"].(map[string]interface{}); len(ml) == 0 {
					sel["matchLabels"] = jm{"app": "web"}
				}
				spec["selector"] = sel
				m[i].Body["spec"] = spec
			}
			// several documents in one template file, separated in every spelling the YAML stream decoder accepts
			if i > 0 && r.Intn(3) == 0 {
				m[i].Sep = seps[r.Intn(len(seps))]
			}
		}
		return m
	}
	c.Steps = append(c.Steps, actStep{Op: "install", Manifest: manifest(true)})
	revs := 1
	for n := 1 + r.Intn(3); n > 0; n-- {
		if r.Intn(2) == 0 {
			var withCur []*slot
			for _, s := range slots {
				if s.cur != nil {
					withCur = append(withCur, s)
				}
			}
			if len(withCur) > 0 {
				s := withCur[r.Intn(len(withCur))]
				if r.Intn(5) > 0 {
					l := res(s, objLive(r, s.spec, s.cur, nil))
					// the live object keeps Helm's ownership metadata (an out-of-band editor does not strip it)
					md := objBody(l.Body["metadata"])
					lb, an := objBody(md["labels"]), objBody(md["annotations"])
					lb["app.kubernetes.io/managed-by"] = "Helm"
					an["meta.helm.sh/release-name"], an["meta.helm.sh/release-namespace"] = actRel, "default"
					md["labels"], md["annotations"] = lb, an
					l.Body["metadata"] = md
					c.Steps = append(c.Steps, actStep{Op: "edit", Set: &l})
				} else {
					c.Steps = append(c.Steps, actStep{Op: "edit", Del: res(s, nil).Key()})
				}
			}
		}
		switch x := r.Intn(10); {
		case x < 6:
			st := actStep{Op: "upgrade", Manifest: manifest(false)}
			st.Force = r.Intn(8) == 0
			st.Recreate = withPods && r.Intn(2) == 0 || r.Intn(8) == 0
			c.Steps = append(c.Steps, st)
			revs++
		case x < 9 && revs > 1:
			st := actStep{Op: "rollback", Force: r.Intn(8) == 0, Recreate: withPods && r.Intn(2) == 0}
			if r.Intn(2) == 0 {
				st.Version = 1 + r.Intn(revs)
			}
			c.Steps = append(c.Steps, st)
			revs++
			for _, s := range slots { // what the next upgrade is derived from is no longer what is deployed: fine
				_ = s
			}
		default:
			c.Steps = append(c.Steps, actStep{Op: "uninstall"})
			return c
		}
	}
	return c
}

func actClass(c *actCase, o *actObs) string {
	f := map[string]bool{}
	verChange := false
	seen := map[string]string{}
	prevKeys := map[string]bool{}
	for i, s := range c.Steps {
		if s.Op == "edit" {
			f["edit"] = true
			continue
		}
		if i < len(o.Steps) && o.Steps[i].Outcome != "ok" {
			f[s.Op+"-err"] = true
			continue
		}
		f[s.Op] = true
		if s.Force {
			f["force"] = true
		}
		if s.Recreate {
			f["recreate"] = true
		}
		for _, r := range s.Manifest {
			if r.Sep != "" {
				f["shared-file"] = true
			}
		}
		for _, r := range s.Manifest {
			if v, ok := seen[r.Key()]; ok && v != r.version() {
				verChange = true
			}
			seen[r.Key()] = r.version()
			// an existing object that the previous operation's manifest did not name: adopted
			if i > 0 && i-1 < len(o.Steps) && !prevKeys[r.Key()] {
				if _, exists := o.Steps[i-1].Objs[r.Key()]; exists {
					f["adopts-existing"] = true
				}
			}
		}
		prevKeys = map[string]bool{}
		for _, r := range s.Manifest {
			prevKeys[r.Key()] = true
		}
	}
	if verChange {
		f["apiversion-change"] = true
	}
	ks := make([]string, 0, len(f))
	for k := range f {
		ks = append(ks, k)
	}
	sort.Strings(ks)
	return "act/" + strings.Join(ks, "+")
}

func actCorpus() []any {
	one := func(live []objRes, steps ...actStep) any { return c02Case{Act: &actCase{Live: live, Steps: steps}} }
	ctr := func(image string) jl { return jl{oCtr("web", image, "env", oEnv("A", "1"))} }
	dep := func(ver, image string, kv ...interface{}) objRes {
		d := oDeploy("web", ctr(image), kv...)
		d.Ver = ver
		return d
	}
	cfg := objRes{Kind: "ConfigMap", Name: "cfg", Body: jm{"data": jm{"k": "v1"}}}
	var out []any
	// the resource moves to another version of its API group between two revisions (seeded C02-7): it is the SAME
	// object; it must be patched, not deleted as "removed"; and back again on rollback
	out = append(out, one(nil,
		actStep{Op: "install", Manifest: []objRes{dep("v1beta2", "nginx:1.25"), cfg}},
		actStep{Op: "upgrade", Manifest: []objRes{dep("", "nginx:1.26"), cfg}},
		actStep{Op: "rollback"},
		actStep{Op: "upgrade", Manifest: []objRes{dep("", "nginx:1.26", "spec.replicas", float64(2))}},
		actStep{Op: "uninstall"}))
	// out-of-band edits of a Deployment (image of a container, a foreign container) and of a Widget; upgrade
	ed := oDeploy("web", jl{oCtr("istio", "proxy:1"), oCtr("web", "evil:latest", "env", oEnv("A", "EDITED", "X", "f"))},
		"meta.labels", jm{"app.kubernetes.io/managed-by": "Helm"}, "meta.annotations", jm{"meta.helm.sh/release-name": actRel, "meta.helm.sh/release-namespace": "default"})
	w1 := oWidget("w1", jm{"size": float64(1), "color": "web"})
	w1e := oWidget("w1", jm{"size": float64(1), "color": "DRIFT"}, jm{"labels": jm{"app.kubernetes.io/managed-by": "Helm"},
		"annotations": jm{"meta.helm.sh/release-name": actRel, "meta.helm.sh/release-namespace": "default"}})
	out = append(out, one([]objRes{{Kind: "ConfigMap", Name: "bystander", Body: jm{"data": jm{"k": "v"}}}},
		actStep{Op: "install", Manifest: []objRes{dep("", "nginx:1.25"), w1}},
		actStep{Op: "edit", Set: &ed},
		actStep{Op: "edit", Set: &w1e},
		actStep{Op: "upgrade", Manifest: []objRes{dep("", "nginx:1.25"), oWidget("w1", jm{"size": float64(2), "color": "web"})}}))
	// K9-C02: a Widget with the keep policy is dropped by revision 2 (kept), revision 3 names it again with other
	// content: the upgrade succeeds and applies nothing of it (a Deployment in the same situation is corrected)
	keepAnn := jm{"annotations": jm{"helm.sh/resource-policy": "keep"}}
	wk := oWidget("w1", jm{"size": float64(1), "color": "web"}, keepAnn)
	dk := oDeploy("web", ctr("nginx:1.25"), "meta.annotations", jm{"helm.sh/resource-policy": "keep"})
	out = append(out, one(nil,
		actStep{Op: "install", Manifest: []objRes{wk, dk, cfg}},
		actStep{Op: "upgrade", Manifest: []objRes{cfg}},
		actStep{Op: "upgrade", Manifest: []objRes{oWidget("w1", jm{"size": float64(2), "color": "db"}), oDeploy("web", ctr("nginx:1.26")), cfg}}))
	// round 5, seeded C02-9: two documents in one template file, separated in each spelling the decoder accepts; the
	// keep policy on one side of the separator only.  Uninstall must delete exactly the non-keep resources and list
	// the kept ones (file 1: delete a, keep b; file 2: keep c, delete d), also after an upgrade in between.
	kcm := func(name string, keep bool) objRes {
		b := jm{"data": jm{"k": "v1"}}
		if keep {
			b["metadata"] = jm{"annotations": jm{"helm.sh/resource-policy": "keep"}}
		}
		return objRes{Kind: "ConfigMap", Name: name, Body: b}
	}
	for n, sep := range []string{"---", "--- ", "--- # keep the next one", "---#glued", "---\t", "crlf", "flow"} {
		a, b2, c3, d := kcm("a", false), objRes{Kind: "Secret", Name: "b", Body: jm{"metadata": jm{"annotations": jm{"helm.sh/resource-policy": "keep"}}, "data": jm{"p": "YQ=="}}},
			kcm("c", true), kcm("d", false)
		b2.Sep, d.Sep = sep, sep
		steps := []actStep{{Op: "install", Manifest: []objRes{a, b2, c3, d}}}
		if n%2 == 1 {
			a2 := kcm("a", false)
			a2.Body["data"] = jm{"k": "v2"}
			steps = append(steps, actStep{Op: "upgrade", Manifest: []objRes{a2, b2, c3, d}})
		}
		out = append(out, one(nil, append(steps, actStep{Op: "uninstall"})...))
	}
	// round 5, seeded C02-10: --recreate-pods with a Deployment, a Service with selector and a Service WITHOUT
	// selector (ExternalName) among the updated resources; pods of the release, a foreign pod in the namespace and a
	// pod with the release's labels in another namespace: only the pods the manifest objects select are deleted
	pod := func(kind, name string, lbl jm) objRes {
		return objRes{Kind: kind, Name: name, Body: jm{"metadata": jm{"labels": lbl}, "spec": jm{"containers": jl{jm{"name": "c", "image": "busybox:1"}}}}}
	}
	svcSel := objRes{Kind: "Service", Name: "web", Body: jm{"spec": jm{"selector": jm{"app": "web", "tier": "db"}, "ports": jl{jm{"port": float64(80)}}}}}
	svcNoSel := func(target string) objRes {
		return objRes{Kind: "Service", Name: "ext", Body: jm{"spec": jm{"type": "ExternalName", "externalName": target}}}
	}
	pods := []objRes{pod("Pod", "web-1", jm{"app": "web"}), pod("Pod", "web-db", jm{"app": "web", "tier": "db"}), pod("Pod", "stranger", jm{"app": "other"}),
		pod("Pod", "bare", jm{}), pod("other/Pod", "web-elsewhere", jm{"app": "web"})}
	out = append(out, one(pods,
		actStep{Op: "install", Manifest: []objRes{dep("", "nginx:1.25"), svcSel, svcNoSel("a.example.com")}},
		actStep{Op: "upgrade", Recreate: true, Manifest: []objRes{dep("", "nginx:1.26"), svcSel, svcNoSel("b.example.com")}}))
	out = append(out, one(pods,
		actStep{Op: "install", Manifest: []objRes{dep("", "nginx:1.25"), svcNoSel("a.example.com")}},
		actStep{Op: "upgrade", Manifest: []objRes{dep("", "nginx:1.26"), svcNoSel("b.example.com")}},
		actStep{Op: "rollback", Recreate: true}))
	// false alarm of the first round-5 oracle, kept as a witness: the release's Service declares no selector, somebody
	// adds one to the live Service out of band, the upgrade keeps it (foreign field) and --recreate-pods restarts the pod
	// that Service now routes to; the stranger stays
	svcEdited := objRes{Kind: "Service", Name: "ext", Body: jm{"metadata": jm{"labels": jm{"app.kubernetes.io/managed-by": "Helm"},
		"annotations": jm{"meta.helm.sh/release-name": actRel, "meta.helm.sh/release-namespace": "default"}},
		"spec": jm{"type": "ExternalName", "externalName": "a.example.com", "selector": jm{"app": "web"}}}}
	out = append(out, one([]objRes{pod("Pod", "web-1", jm{"app": "web"}), pod("Pod", "stranger", jm{"app": "other"})},
		actStep{Op: "install", Manifest: []objRes{svcNoSel("a.example.com"), cfg}},
		actStep{Op: "edit", Set: &svcEdited},
		actStep{Op: "upgrade", Recreate: true, Manifest: []objRes{svcNoSel("b.example.com"), cfg}}))
	return out
}

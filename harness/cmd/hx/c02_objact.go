package main

// C02, rich object domain at the ACTION level (round 4): short fault-free histories of the REAL
// action.Install / Upgrade / Rollback / Uninstall over the real kube.Client and the simulated API
// server, with charts holding Deployments, Services, ConfigMaps and the custom kind Widget, out-of-band
// edits between the operations, --force, --take-ownership, and resources whose apiVersion moves to
// another version of the same API group between two revisions (apps/v1beta2 <-> apps/v1).
//
//  - The runtime oracle evaluates the property's sentences on the whole objects before and after each
//    successful operation (actOracle, written from the property text).
//  - Every kube.Client call the action makes is recorded with the ARGUMENTS THE ACTION BUILT (original and
//    target resource lists after stamping and adoption) and the object store before and after it; the Coq
//    model (Engine/Update2.v) evaluates each call on whole objects (Run/RunC02Obj.v).

import (
	"encoding/json"
	"fmt"
	"math/rand"
	"sort"
	"strings"
	"time"

	metav1 "k8s.io/apimachinery/pkg/apis/meta/v1"
	"sigs.k8s.io/yaml"

	"helm.sh/helm/v4/pkg/action"
	chart "helm.sh/helm/v4/pkg/chart/v2"
	chartutil "helm.sh/helm/v4/pkg/chart/v2/util"
	"helm.sh/helm/v4/pkg/kube"
	rspb "helm.sh/helm/v4/pkg/release/v1"
	"helm.sh/helm/v4/pkg/storage"
	"helm.sh/helm/v4/pkg/storage/driver"

	"verif/harness/internal/hx"
	"verif/harness/internal/nsim"
)

type actStep struct {
	Op            string   `json:"op"` // install upgrade rollback uninstall edit
	Manifest      []objRes `json:"manifest,omitempty"`
	Force         bool     `json:"force,omitempty"`
	TakeOwnership bool     `json:"take_ownership,omitempty"`
	Version       int      `json:"version,omitempty"` // rollback target, 0 = previous
	Set           *objRes  `json:"set,omitempty"`
	Del           string   `json:"del,omitempty"`
}

type actCase struct {
	Live  []objRes  `json:"live,omitempty"`
	Steps []actStep `json:"steps"`
}

type actCall struct {
	Step   objStep                           `json:"call"` // the kube.Client call with the arguments the action passed
	Before map[string]map[string]interface{} `json:"before"`
	Obs    objStepObs                        `json:"obs"`
}

type actRow struct {
	Rev      int      `json:"rev"`
	Status   string   `json:"status"`
	Manifest []objRes `json:"manifest"`
}

type actStepObs struct {
	Outcome string                            `json:"outcome"` // ok err
	ErrText string                            `json:"err_text,omitempty"`
	Calls   []actCall                         `json:"calls,omitempty"`
	Objs    map[string]map[string]interface{} `json:"objs"`
	Ledger  []actRow                          `json:"ledger"`
	Panic   string                            `json:"panic,omitempty"`
}

type actObs struct {
	Before map[string]map[string]interface{} `json:"before"`
	Steps  []actStepObs                      `json:"steps"`
}

// ---- recording client ----

type actClient struct {
	*kube.Client
	srv    *nsim.Server
	calls  *[]actCall
	panics *[]string
}

func (c *actClient) IsReachable() error { return nil }

func (c *actClient) GetWaiter(ws kube.WaitStrategy) (kube.Waiter, error) {
	switch ws {
	case kube.StatusWatcherStrategy, kube.LegacyStrategy, kube.HookOnlyStrategy:
		return actWaiter{}, nil
	}
	return nil, fmt.Errorf("unknown wait strategy")
}

type actWaiter struct{}

func (actWaiter) Wait(kube.ResourceList, time.Duration) error            { return nil }
func (actWaiter) WaitWithJobs(kube.ResourceList, time.Duration) error    { return nil }
func (actWaiter) WaitForDelete(kube.ResourceList, time.Duration) error   { return nil }
func (actWaiter) WatchUntilReady(kube.ResourceList, time.Duration) error { return nil }

// infoRes reads a resource back from what the action handed to the client.
func infoRes(rl kube.ResourceList) []objRes {
	var out []objRes
	for _, i := range rl {
		b, _ := json.Marshal(i.Object)
		var o map[string]interface{}
		json.Unmarshal(b, &o)
		out = append(out, resOfObject(o, i.Namespace, i.Mapping.GroupVersionKind.Kind, i.Mapping.GroupVersionKind.Version, i.Name))
	}
	return out
}

func resOfObject(o map[string]interface{}, ns, kind, ver, name string) objRes {
	if o == nil {
		o = map[string]interface{}{}
	}
	delete(o, "apiVersion")
	delete(o, "kind")
	if md, ok := o["metadata"].(map[string]interface{}); ok {
		delete(md, "name")
		delete(md, "namespace")
	}
	r := objRes{Kind: kind, Name: name, Body: o}
	if ns != "" && ns != "default" {
		r.Kind = ns + "/" + kind
	}
	if ver != r.version() {
		r.Ver = ver
	}
	return r
}

// record runs one client call; a panic inside the real client is recorded (the oracle reports it) and handed
// to the action as an error: the action may run the call in its own goroutine, where nobody could recover it.
func (c *actClient) record(st objStep, run func() (bool, string, []string)) (panicked error) {
	call := actCall{Step: st, Before: c.srv.SnapshotRaw()}
	c.srv.TakeMuts()
	func() {
		defer func() {
			if x := recover(); x != nil {
				call.Obs.Panic = fmt.Sprint(x)
			}
		}()
		call.Obs.Ok, call.Obs.ErrText, call.Obs.Created = run()
	}()
	call.Obs.Muts = c.srv.TakeMuts()
	call.Obs.Objs = c.srv.SnapshotRaw()
	*c.calls = append(*c.calls, call)
	if call.Obs.Panic != "" {
		*c.panics = append(*c.panics, call.Obs.Panic)
		return fmt.Errorf("panic in kube.Client.%s: %s", st.Verb, call.Obs.Panic)
	}
	return nil
}

func errText(err error) string {
	if err == nil {
		return ""
	}
	return err.Error()
}

func (c *actClient) Create(rs kube.ResourceList) (res *kube.Result, err error) {
	if p := c.record(objStep{Verb: "create", Tgt: infoRes(rs)}, func() (bool, string, []string) {
		res, err = c.Client.Create(rs)
		return err == nil, errText(err), nil
	}); p != nil {
		return &kube.Result{}, p
	}
	return
}

func (c *actClient) update(o, t kube.ResourceList, force, tw bool) (res *kube.Result, err error) {
	if p := c.record(objStep{Verb: "update", Force: force, ThreeWay: tw, Orig: infoRes(o), Tgt: infoRes(t)}, func() (bool, string, []string) {
		if tw {
			res, err = c.Client.UpdateThreeWayMerge(o, t, force)
		} else {
			res, err = c.Client.Update(o, t, force)
		}
		var created []string
		if res != nil {
			created = infoKeys(res.Created)
		}
		return err == nil, errText(err), created
	}); p != nil {
		return &kube.Result{}, p
	}
	return
}

func (c *actClient) Update(o, t kube.ResourceList, force bool) (*kube.Result, error) {
	return c.update(o, t, force, false)
}
func (c *actClient) UpdateThreeWayMerge(o, t kube.ResourceList, force bool) (*kube.Result, error) {
	return c.update(o, t, force, true)
}

func (c *actClient) Delete(rs kube.ResourceList) (res *kube.Result, errs []error) {
	if p := c.record(objStep{Verb: "delete", Tgt: infoRes(rs)}, func() (bool, string, []string) {
		res, errs = c.Client.Delete(rs)
		return len(errs) == 0, fmt.Sprint(errs), nil
	}); p != nil {
		return nil, []error{p}
	}
	return
}

func (c *actClient) DeleteWithPropagationPolicy(rs kube.ResourceList, pol metav1.DeletionPropagation) (res *kube.Result, errs []error) {
	if p := c.record(objStep{Verb: "delete", Tgt: infoRes(rs)}, func() (bool, string, []string) {
		res, errs = c.Client.DeleteWithPropagationPolicy(rs, pol)
		return len(errs) == 0, fmt.Sprint(errs), nil
	}); p != nil {
		return nil, []error{p}
	}
	return
}

// ---- running ----

func actChart(n int, rs []objRes) *chart.Chart {
	c := &chart.Chart{Metadata: &chart.Metadata{APIVersion: "v2", Name: "c", Version: fmt.Sprintf("0.%d.0", n)}}
	for i, r := range rs {
		y, _ := yaml.Marshal(objFull(r))
		c.Templates = append(c.Templates, &chart.File{Name: fmt.Sprintf("templates/r%02d.yaml", i), Data: y})
	}
	return c
}

func actParseManifest(m string) []objRes {
	var out []objRes
	for _, doc := range strings.Split("\n"+m, "\n---") {
		var o map[string]interface{}
		if err := yaml.Unmarshal([]byte(doc), &o); err != nil || o == nil {
			continue
		}
		kind, _ := o["kind"].(string)
		av, _ := o["apiVersion"].(string)
		md, _ := o["metadata"].(map[string]interface{})
		name, _ := md["name"].(string)
		ns, _ := md["namespace"].(string)
		if kind == "" {
			continue
		}
		ver := av
		if i := strings.LastIndex(av, "/"); i >= 0 {
			ver = av[i+1:]
		}
		out = append(out, resOfObject(o, ns, kind, ver, name))
	}
	return out
}

func actLedger(d driver.Driver) []actRow {
	rs, _ := d.List(func(*rspb.Release) bool { return true })
	var out []actRow
	for _, x := range rs {
		row := actRow{Rev: x.Version, Manifest: actParseManifest(x.Manifest)}
		if x.Info != nil {
			row.Status = string(x.Info.Status)
		}
		out = append(out, row)
	}
	sort.Slice(out, func(i, j int) bool { return out[i].Rev < out[j].Rev })
	return out
}

const actRel = "rel"

func actExecute(c *actCase) (o actObs) {
	srv := nsim.New()
	for _, l := range c.Live {
		srv.PutRaw(l.Kind, l.Name, objFull(l))
	}
	o.Before = srv.SnapshotRaw()
	mem := driver.NewMemory()
	for i, s := range c.Steps {
		var so actStepObs
		if s.Op == "edit" {
			if s.Set != nil {
				srv.PutRaw(s.Set.Kind, s.Set.Name, objFull(*s.Set))
			} else {
				srv.Remove(s.Del)
			}
			so.Outcome = "ok"
		} else {
			var calls []actCall
			var panics []string
			kc := &actClient{Client: srv.Client(), srv: srv, calls: &calls, panics: &panics}
			cfg := &action.Configuration{KubeClient: kc, Releases: storage.Init(mem), Capabilities: chartutil.DefaultCapabilities.Copy()}
			var err error
			func() {
				defer func() {
					if x := recover(); x != nil {
						so.Panic = fmt.Sprint(x)
					}
				}()
				switch s.Op {
				case "install":
					a := action.NewInstall(cfg)
					a.ReleaseName, a.Namespace = actRel, "default"
					a.DisableHooks, a.Force, a.TakeOwnership = true, s.Force, s.TakeOwnership
					a.Timeout, a.WaitStrategy = time.Second, kube.HookOnlyStrategy
					_, err = a.Run(actChart(i+1, s.Manifest), map[string]interface{}{})
				case "upgrade":
					a := action.NewUpgrade(cfg)
					a.Namespace = "default"
					a.DisableHooks, a.Force, a.TakeOwnership = true, s.Force, s.TakeOwnership
					a.Timeout, a.WaitStrategy = time.Second, kube.HookOnlyStrategy
					_, err = a.Run(actRel, actChart(i+1, s.Manifest), map[string]interface{}{})
				case "rollback":
					a := action.NewRollback(cfg)
					a.Version, a.DisableHooks, a.Force = s.Version, true, s.Force
					a.Timeout, a.WaitStrategy = time.Second, kube.HookOnlyStrategy
					err = a.Run(actRel)
				case "uninstall":
					a := action.NewUninstall(cfg)
					a.DisableHooks = true
					a.Timeout, a.WaitStrategy = time.Second, kube.HookOnlyStrategy
					_, err = a.Run(actRel)
				}
			}()
			so.Outcome = "ok"
			if err != nil {
				so.Outcome, so.ErrText = "err", err.Error()
			}
			so.Calls = calls
			if len(panics) > 0 && so.Panic == "" {
				so.Panic = strings.Join(panics, "; ")
			}
		}
		so.Objs = srv.SnapshotRaw()
		so.Ledger = actLedger(mem)
		o.Steps = append(o.Steps, so)
	}
	return
}

// ---- Coq: the calls of all steps, flattened into one ocase ----

func actCoq(c *actCase, o *actObs) string {
	oc := &objCase{}
	oo := &objObs{Before: o.Before}
	for i, s := range c.Steps {
		if i >= len(o.Steps) {
			break
		}
		if s.Op == "edit" {
			oc.Steps = append(oc.Steps, objStep{Verb: "edit", Set: s.Set, Del: s.Del})
			oo.Steps = append(oo.Steps, objStepObs{Ok: true, Objs: o.Steps[i].Objs})
			continue
		}
		for _, call := range o.Steps[i].Calls {
			oc.Steps = append(oc.Steps, call.Step)
			oo.Steps = append(oo.Steps, call.Obs)
		}
	}
	return objCoq(oc, oo)
}

// ---- oracle: the property's sentences on whole objects ----

func actDeployed(l []actRow) *actRow {
	var d *actRow
	for i := range l {
		if l[i].Status == "deployed" && (d == nil || l[i].Rev > d.Rev) {
			d = &l[i]
		}
	}
	return d
}

func actLast(l []actRow) *actRow {
	var d *actRow
	for i := range l {
		if d == nil || l[i].Rev > d.Rev {
			d = &l[i]
		}
	}
	return d
}

func actOracle(c *actCase, o *actObs) []hx.Violation {
	var vs []hx.Violation
	add := func(sig, what string) { vs = append(vs, hx.Violation{Sig: sig, What: what}) }
	before := objSnap(o.Before)
	var prevLed []actRow
	for i, s := range c.Steps {
		if i >= len(o.Steps) {
			break
		}
		so := o.Steps[i]
		after := objSnap(so.Objs)
		if so.Panic != "" {
			add("C02:panic", fmt.Sprintf("step %d: %s panicked: %s", i, s.Op, so.Panic))
		}
		if s.Op != "edit" && so.Outcome == "ok" && so.Panic == "" {
			mine := map[string]bool{}
			for _, l := range [][]actRow{prevLed, so.Ledger} {
				for _, row := range l {
					for _, r := range row.Manifest {
						mine[r.Key()] = true
					}
				}
			}
			for _, r := range s.Manifest {
				mine[r.Key()] = true
			}
			switch s.Op {
			case "install", "upgrade", "rollback":
				newRow := actLast(so.Ledger)
				if newRow == nil || (actLast(prevLed) != nil && actLast(prevLed).Rev >= newRow.Rev) {
					break
				}
				pd := actDeployed(prevLed)
				prevBy := map[string]otree{}
				if pd != nil {
					for _, r := range pd.Manifest {
						prevBy[r.Key()] = objTree(r.Kind, objFull(r))
					}
				}
				for _, r := range newRow.Manifest {
					live, ok := after[r.Key()]
					if !ok {
						add("C02:obj-manifest-resource-missing", fmt.Sprintf("step %d: %s succeeded (revision %d) but %s %s/%s of its manifest is not in the cluster",
							i, s.Op, newRow.Rev, r.apiVersion(), r.Kind, r.Name))
						continue
					}
					tt := objTree(r.Kind, objFull(r))
					b, had := before[r.Key()]
					ot, hadOrig := prevBy[r.Key()]
					tt.leaves(nil, func(p []string, want otree) {
						got, found := live.at(p)
						if found && leafMatches(want, got) {
							return
						}
						sig := "C02:obj-manifest-field-not-applied"
						// K9-C02: custom kind that EXISTS, is owned by the release and is in no manifest of the deployed
						// revision (kept by its keep policy when an earlier revision dropped it, then re-added): upgrade /
						// install adopt it by appending the TARGET entry itself to the "original" list, and the two-way JSON
						// patch of (target, target) is empty: nothing of the new manifest is applied
						if objUnstructured(r.Kind) && !s.Force && had && !hadOrig && !(s.Op == "install" && s.TakeOwnership) {
							sig = "C02:unstructured-adopted-resource-not-patched"
						}
						// K8-C02: custom kind, upgrade / rollback (Client.Update, no --force): a field the previously deployed
						// manifest gives the same value is not in the two-way patch; out-of-band drift of it stays
						if objUnstructured(r.Kind) && !s.Force && s.Op != "install" && had && hadOrig {
							if ov, ofound := ot.at(p); ofound && leafMatches(want, ov) && (want.K == 's' || want.K == 'a' || treeEq(want, ov)) {
								if bv, bfound := b.at(p); !bfound || !leafMatches(want, bv) {
									sig = "C02:unstructured-two-way-patch-leaves-drifted-field"
								}
							}
						}
						add(sig, fmt.Sprintf("step %d: %s succeeded (revision %d) but %s: manifest says %s = %s, cluster has %s (present=%v)",
							i, s.Op, newRow.Rev, r.Key(), strings.Join(p, "."), want.coq(), got.coq(), found))
					})
				}
				if pd != nil {
					nk := map[string]bool{}
					for _, r := range newRow.Manifest {
						nk[r.Key()] = true
					}
					for _, r := range pd.Manifest {
						if nk[r.Key()] {
							continue
						}
						b, had := before[r.Key()]
						if _, still := after[r.Key()]; still && !objLiveKeep(b, had) {
							sig := "C02:obj-removed-resource-not-deleted"
							switch last := actLast(prevLed); {
							case s.Op == "install":
								sig = "C02:install-replace-over-deployed-leaves-resources"
							case s.Op == "rollback" && last != nil && last.Rev != pd.Rev && last.Status == "failed":
								sig = "C02:rollback-over-failed-revision-leaves-deployed-resources"
							}
							add(sig, fmt.Sprintf("step %d: %s succeeded; %s was in the previously deployed revision %d, is not in revision %d, has no live keep policy, and still exists",
								i, s.Op, r.Key(), pd.Rev, newRow.Rev))
						}
						if objLiveKeep(b, had) && !objUntouched(before, after, r.Key()) {
							add("C02:obj-kept-resource-touched", fmt.Sprintf("step %d: %s changed or deleted %s although the live object carries the keep policy", i, s.Op, r.Key()))
						}
					}
				}
			case "uninstall":
				last := actLast(prevLed)
				if last == nil || last.Status == "uninstalled" {
					break
				}
				for _, r := range last.Manifest {
					t := objTree(r.Kind, objFull(r))
					pol, has := t.at([]string{"metadata", "annotations", "helm.sh/resource-policy"})
					keep := false
					if has && pol.K == 's' {
						var v string
						json.Unmarshal([]byte(pol.S), &v)
						keep = strings.ToLower(strings.TrimSpace(v)) == "keep"
					}
					if keep {
						if !objUntouched(before, after, r.Key()) {
							add("C02:uninstall-kept-resource-touched", fmt.Sprintf("step %d: uninstall changed or deleted %s although its manifest says keep", i, r.Key()))
						}
					} else if _, still := after[r.Key()]; still {
						add("C02:uninstall-left-resource", fmt.Sprintf("step %d: uninstall succeeded but %s still exists", i, r.Key()))
					}
				}
			}
			for _, k := range allKeys2(before, after) {
				if !mine[k] && !objUntouched(before, after, k) {
					add("C02:bystander-touched", fmt.Sprintf("step %d: %s created, changed or deleted %s, which is in none of the release's manifests", i, s.Op, k))
				}
			}
		}
		prevLed = so.Ledger
		before = after
	}
	return vs
}

// ---- generator ----

func genActCase(r *rand.Rand) *actCase {
	c := &actCase{}
	type slot struct {
		kind, name string
		spec       *gspec
		cur        map[string]interface{}
		ver        string
	}
	var slots []*slot
	for _, p := range objPool {
		if r.Intn(2) == 0 {
			slots = append(slots, &slot{kind: p.Kind, name: p.Name, spec: objSpecOf(p.Kind)})
		}
	}
	if len(slots) == 0 {
		slots = append(slots, &slot{kind: "Deployment", name: "web", spec: gDeployment})
	}
	res := func(s *slot, b map[string]interface{}) objRes {
		return objRes{Kind: s.kind, Name: s.name, Ver: s.ver, Body: objBody(jsonCopy(b))}
	}
	// a bystander
	if r.Intn(3) == 0 {
		c.Live = append(c.Live, objRes{Kind: "ConfigMap", Name: "bystander", Body: objBody(gGen(r, gConfigMap))})
	}
	flipVer := func(s *slot) {
		if _, kind := nsim.SplitKind(s.kind); kind == "Deployment" && r.Intn(3) == 0 {
			if s.ver == "" {
				s.ver = "v1beta2"
			} else {
				s.ver = ""
			}
		}
	}
	manifest := func(first bool) []objRes {
		var m []objRes
		for _, s := range slots {
			switch {
			case s.cur == nil && (first && r.Intn(3) > 0 || r.Intn(4) == 0):
				s.cur = objBody(gGen(r, s.spec))
				if _, kind := nsim.SplitKind(s.kind); kind == "Deployment" && r.Intn(3) == 0 {
					s.ver = "v1beta2"
				}
			case s.cur != nil && r.Intn(6) == 0:
				s.cur = nil
			case s.cur != nil:
				s.cur = objBody(gMutate(r, s.spec, jsonCopy(s.cur)))
				flipVer(s)
			}
			if s.cur != nil {
				m = append(m, res(s, s.cur))
			}
		}
		r.Shuffle(len(m), func(i, j int) { m[i], m[j] = m[j], m[i] })
		return m
	}
	c.Steps = append(c.Steps, actStep{Op: "install", Manifest: manifest(true)})
	revs := 1
	for n := 1 + r.Intn(3); n > 0; n-- {
		if r.Intn(2) == 0 {
			var withCur []*slot
			for _, s := range slots {
				if s.cur != nil {
					withCur = append(withCur, s)
				}
			}
			if len(withCur) > 0 {
				s := withCur[r.Intn(len(withCur))]
				if r.Intn(5) > 0 {
					l := res(s, objLive(r, s.spec, s.cur, nil))
					// the live object keeps Helm's ownership metadata (an out-of-band editor does not strip it)
					md := objBody(l.Body["metadata"])
					lb, an := objBody(md["labels"]), objBody(md["annotations"])
					lb["app.kubernetes.io/managed-by"] = "Helm"
					an["meta.helm.sh/release-name"], an["meta.helm.sh/release-namespace"] = actRel, "default"
					md["labels"], md["annotations"] = lb, an
					l.Body["metadata"] = md
					c.Steps = append(c.Steps, actStep{Op: "edit", Set: &l})
				} else {
					c.Steps = append(c.Steps, actStep{Op: "edit", Del: res(s, nil).Key()})
				}
			}
		}
		switch x := r.Intn(10); {
		case x < 6:
			st := actStep{Op: "upgrade", Manifest: manifest(false)}
			st.Force = r.Intn(8) == 0
			c.Steps = append(c.Steps, st)
			revs++
		case x < 9 && revs > 1:
			st := actStep{Op: "rollback", Force: r.Intn(8) == 0}
			if r.Intn(2) == 0 {
				st.Version = 1 + r.Intn(revs)
			}
			c.Steps = append(c.Steps, st)
			revs++
			for _, s := range slots { // what the next upgrade is derived from is no longer what is deployed: fine
				_ = s
			}
		default:
			c.Steps = append(c.Steps, actStep{Op: "uninstall"})
			return c
		}
	}
	return c
}

func actClass(c *actCase, o *actObs) string {
	f := map[string]bool{}
	verChange := false
	seen := map[string]string{}
	prevKeys := map[string]bool{}
	for i, s := range c.Steps {
		if s.Op == "edit" {
			f["edit"] = true
			continue
		}
		if i < len(o.Steps) && o.Steps[i].Outcome != "ok" {
			f[s.Op+"-err"] = true
			continue
		}
		f[s.Op] = true
		if s.Force {
			f["force"] = true
		}
		for _, r := range s.Manifest {
			if v, ok := seen[r.Key()]; ok && v != r.version() {
				verChange = true
			}
			seen[r.Key()] = r.version()
			// an existing object that the previous operation's manifest did not name: adopted
			if i > 0 && i-1 < len(o.Steps) && !prevKeys[r.Key()] {
				if _, exists := o.Steps[i-1].Objs[r.Key()]; exists {
					f["adopts-existing"] = true
				}
			}
		}
		prevKeys = map[string]bool{}
		for _, r := range s.Manifest {
			prevKeys[r.Key()] = true
		}
	}
	if verChange {
		f["apiversion-change"] = true
	}
	ks := make([]string, 0, len(f))
	for k := range f {
		ks = append(ks, k)
	}
	sort.Strings(ks)
	return "act/" + strings.Join(ks, "+")
}

func actCorpus() []any {
	one := func(live []objRes, steps ...actStep) any { return c02Case{Act: &actCase{Live: live, Steps: steps}} }
	ctr := func(image string) jl { return jl{oCtr("web", image, "env", oEnv("A", "1"))} }
	dep := func(ver, image string, kv ...interface{}) objRes {
		d := oDeploy("web", ctr(image), kv...)
		d.Ver = ver
		return d
	}
	cfg := objRes{Kind: "ConfigMap", Name: "cfg", Body: jm{"data": jm{"k": "v1"}}}
	var out []any
	// the resource moves to another version of its API group between two revisions (seeded C02-7): it is the SAME
	// object; it must be patched, not deleted as "removed"; and back again on rollback
	out = append(out, one(nil,
		actStep{Op: "install", Manifest: []objRes{dep("v1beta2", "nginx:1.25"), cfg}},
		actStep{Op: "upgrade", Manifest: []objRes{dep("", "nginx:1.26"), cfg}},
		actStep{Op: "rollback"},
		actStep{Op: "upgrade", Manifest: []objRes{dep("", "nginx:1.26", "spec.replicas", float64(2))}},
		actStep{Op: "uninstall"}))
	// out-of-band edits of a Deployment (image of a container, a foreign container) and of a Widget; upgrade
	ed := oDeploy("web", jl{oCtr("istio", "proxy:1"), oCtr("web", "evil:latest", "env", oEnv("A", "EDITED", "X", "f"))},
		"meta.labels", jm{"app.kubernetes.io/managed-by": "Helm"}, "meta.annotations", jm{"meta.helm.sh/release-name": actRel, "meta.helm.sh/release-namespace": "default"})
	w1 := oWidget("w1", jm{"size": float64(1), "color": "web"})
	w1e := oWidget("w1", jm{"size": float64(1), "color": "DRIFT"}, jm{"labels": jm{"app.kubernetes.io/managed-by": "Helm"},
		"annotations": jm{"meta.helm.sh/release-name": actRel, "meta.helm.sh/release-namespace": "default"}})
	out = append(out, one([]objRes{{Kind: "ConfigMap", Name: "bystander", Body: jm{"data": jm{"k": "v"}}}},
		actStep{Op: "install", Manifest: []objRes{dep("", "nginx:1.25"), w1}},
		actStep{Op: "edit", Set: &ed},
		actStep{Op: "edit", Set: &w1e},
		actStep{Op: "upgrade", Manifest: []objRes{dep("", "nginx:1.25"), oWidget("w1", jm{"size": float64(2), "color": "web"})}}))
	// K9-C02: a Widget with the keep policy is dropped by revision 2 (kept), revision 3 names it again with other
	// content: the upgrade succeeds and applies nothing of it (a Deployment in the same situation is corrected)
	keepAnn := jm{"annotations": jm{"helm.sh/resource-policy": "keep"}}
	wk := oWidget("w1", jm{"size": float64(1), "color": "web"}, keepAnn)
	dk := oDeploy("web", ctr("nginx:1.25"), "meta.annotations", jm{"helm.sh/resource-policy": "keep"})
	out = append(out, one(nil,
		actStep{Op: "install", Manifest: []objRes{wk, dk, cfg}},
		actStep{Op: "upgrade", Manifest: []objRes{cfg}},
		actStep{Op: "upgrade", Manifest: []objRes{oWidget("w1", jm{"size": float64(2), "color": "db"}), oDeploy("web", ctr("nginx:1.26")), cfg}}))
	return out
}

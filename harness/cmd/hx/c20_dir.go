package main

// C20 directory stream: which files of a chart DIRECTORY are opened for reading
// (pkg/chart/v2/loader/directory.go LoadDir behind internal/sympath Walk), compared with the
// decision function of coq/Misc/PanicsGate.v, and the commands that load a chart directory
// (loader.Load, helm template, helm lint, helm package) on directories that contain what is not
// a regular file: a named pipe, a socket, a device node, symbolic links to each of them, dangling
// and looping links — at the top level, under templates/, inside a subchart.
//
// A named pipe that reaches os.ReadFile blocks in open(2) until somebody opens the other end.
// Every case therefore runs in the worker process under its own short watchdog; when it fires the
// pipes are opened for writing (which releases the reader) and the case is reported as a hang,
// with the directory recipe as the replay.

import (
	"fmt"
	"io"
	"math/rand"
	"net"
	"os"
	"path/filepath"
	"sort"
	"strings"
	"syscall"
	"time"

	"helm.sh/helm/v4/pkg/action"
	"helm.sh/helm/v4/pkg/chart/v2/loader"
	chartutil "helm.sh/helm/v4/pkg/chart/v2/util"
	helmcmd "helm.sh/helm/v4/pkg/cmd"
	kubefake "helm.sh/helm/v4/pkg/kube/fake"
	"helm.sh/helm/v4/pkg/storage"
	"helm.sh/helm/v4/pkg/storage/driver"

	"verif/harness/internal/hx"
)

// one entry added to the base chart
type c20DirExtra struct {
	Where string `json:"where"` // "", templates, charts/sub, charts/sub/templates, xdir (a new directory)
	Name  string `json:"name"`  // a name that starts with "ign" is matched by .helmignore
	Type  string `json:"type"`  // reg dir fifo sock dev link-reg link-dir link-fifo link-sock link-dev link-dangling link-loop
}

type c20DirC struct {
	Extras []c20DirExtra `json:"extras"`
	Cmd    string        `json:"cmd,omitempty"` // "" = loader.LoadDir (compared with the model); load template lint package = explored
}

var c20DirWheres = []string{"", "templates", "charts/sub", "charts/sub/templates", "xdir"}
var c20DirTypes = []string{"reg", "dir", "fifo", "sock", "dev", "link-reg", "link-dir", "link-fifo", "link-sock", "link-dev", "link-dangling", "link-loop"}

func c20DirBase() map[string]string {
	return map[string]string{
		"Chart.yaml":                  "apiVersion: v2\nname: top\nversion: 1.2.3\n",
		"values.yaml":                 "replicas: 1\n",
		".helmignore":                 "ign*\n",
		"templates/cm.yaml":           "apiVersion: v1\nkind: ConfigMap\nmetadata:\n  name: {{ .Release.Name }}\ndata:\n  r: \"{{ .Values.replicas }}\"\n",
		"charts/sub/Chart.yaml":       "apiVersion: v2\nname: sub\nversion: 0.1.0\n",
		"charts/sub/templates/s.yaml": "apiVersion: v1\nkind: ConfigMap\nmetadata:\n  name: {{ .Release.Name }}-s\n",
	}
}

func (c *c20DirC) malformed() bool {
	for _, x := range c.Extras {
		if x.Type != "reg" && x.Type != "dir" {
			return true
		}
	}
	return false
}

func c20DirCorpus() []any {
	var out []any
	// every type at every place through LoadDir (compared with the model)
	for _, w := range c20DirWheres {
		for _, t := range c20DirTypes {
			out = append(out, c20Case{Kind: "dir", Dir: &c20DirC{Extras: []c20DirExtra{{Where: w, Name: "x-" + t, Type: t}}}})
		}
	}
	// ignored by .helmignore: skipped whatever it is
	for _, t := range []string{"fifo", "sock", "dev", "link-fifo", "link-dangling", "dir", "reg"} {
		out = append(out, c20Case{Kind: "dir", Dir: &c20DirC{Extras: []c20DirExtra{{Where: "templates", Name: "ign-" + t, Type: t}}}})
	}
	// the commands that load a chart directory, on the special files
	for _, cmd := range []string{"load", "template", "lint", "package"} {
		for _, x := range [][2]string{{"", "fifo"}, {"templates", "fifo"}, {"charts/sub", "fifo"}, {"templates", "link-fifo"}, {"", "sock"}, {"charts/sub", "dev"}, {"templates", "link-loop"}} {
			out = append(out, c20Case{Kind: "dir", Dir: &c20DirC{Cmd: cmd, Extras: []c20DirExtra{{Where: x[0], Name: "x-" + x[1], Type: x[1]}}}})
		}
	}
	return out
}

func c20GenDir(r *rand.Rand) *c20DirC {
	c := &c20DirC{}
	if r.Intn(3) == 0 {
		c.Cmd = []string{"load", "template", "lint", "package"}[r.Intn(4)]
	}
	seen := map[string]bool{}
	for i := 0; i < 1+r.Intn(4); i++ {
		t := c20DirTypes[r.Intn(len(c20DirTypes))]
		if r.Intn(3) == 0 {
			t = "reg"
		}
		name := fmt.Sprintf("e%d-%s", i, t)
		if r.Intn(4) == 0 {
			name = "ign-" + name
		}
		if t == "reg" && r.Intn(2) == 0 {
			name += ".yaml"
		}
		x := c20DirExtra{Where: c20DirWheres[r.Intn(len(c20DirWheres))], Name: name, Type: t}
		if seen[x.Where+"/"+x.Name] {
			continue
		}
		seen[x.Where+"/"+x.Name] = true
		c.Extras = append(c.Extras, x)
	}
	return c
}

// ---------- building the directory ----------

// c20DevNodes: can this process create a character device node? (needs CAP_MKNOD)
var c20DevNodes = func() bool {
	d, err := os.MkdirTemp("", "c20dev")
	if err != nil {
		return false
	}
	defer os.RemoveAll(d)
	return syscall.Mknod(filepath.Join(d, "null"), syscall.S_IFCHR|0o644, 1<<8|3) == nil
}()

type c20DirBuilt struct {
	base      string
	dir       string
	fifos     []string
	listeners []net.Listener
	actual    map[string]string // extra (where/name) -> the type actually created (dev may become link-dev)
}

func (b *c20DirBuilt) cleanup() {
	for _, l := range b.listeners {
		l.Close()
	}
	os.RemoveAll(b.base)
}

// release opens every pipe for writing without blocking: a reader stuck in open(2) returns
func (b *c20DirBuilt) release() {
	for _, p := range b.fifos {
		if fd, err := syscall.Open(p, syscall.O_WRONLY|syscall.O_NONBLOCK, 0); err == nil {
			syscall.Close(fd)
		}
	}
}

func (b *c20DirBuilt) mkfifo(p string) {
	if syscall.Mkfifo(p, 0o644) == nil {
		b.fifos = append(b.fifos, p)
	}
}

func (b *c20DirBuilt) mksock(p string) {
	if syscall.Mknod(p, syscall.S_IFSOCK|0o644, 0) == nil {
		return
	}
	if l, err := net.Listen("unix", p); err == nil {
		if ul, ok := l.(*net.UnixListener); ok {
			ul.SetUnlinkOnClose(false)
		}
		b.listeners = append(b.listeners, l)
	}
}

func c20BuildDir(c *c20DirC) (*c20DirBuilt, error) {
	base, err := os.MkdirTemp("", "c20dir")
	if err != nil {
		return nil, err
	}
	b := &c20DirBuilt{base: base, dir: filepath.Join(base, "top"), actual: map[string]string{}}
	for n, s := range c20DirBase() {
		p := filepath.Join(b.dir, filepath.FromSlash(n))
		os.MkdirAll(filepath.Dir(p), 0o755)
		os.WriteFile(p, []byte(s), 0o644)
	}
	// what the links point to lives outside the chart directory
	out := filepath.Join(base, "outside")
	os.MkdirAll(filepath.Join(out, "dir"), 0o755)
	os.WriteFile(filepath.Join(out, "reg.txt"), []byte("outside\n"), 0o644)
	os.WriteFile(filepath.Join(out, "dir", "o.txt"), []byte("o\n"), 0o644)
	b.mkfifo(filepath.Join(out, "pipe"))
	b.mksock(filepath.Join(out, "sock"))
	for _, x := range c.Extras {
		if x.Name == "" || strings.ContainsAny(x.Name, "/\x00") || x.Name == "." || x.Name == ".." {
			continue
		}
		p := filepath.Join(b.dir, filepath.FromSlash(x.Where), x.Name)
		os.MkdirAll(filepath.Dir(p), 0o755)
		t := x.Type
		switch t {
		case "reg":
			os.WriteFile(p, []byte("k: v\n"), 0o644)
		case "dir":
			os.MkdirAll(p, 0o755)
			os.WriteFile(filepath.Join(p, "f.txt"), []byte("f\n"), 0o644)
		case "fifo":
			b.mkfifo(p)
		case "sock":
			b.mksock(p)
		case "dev":
			if !c20DevNodes || syscall.Mknod(p, syscall.S_IFCHR|0o644, 1<<8|3) != nil {
				t = "link-dev"
				os.Symlink("/dev/null", p)
			}
		case "link-reg":
			os.Symlink(filepath.Join(out, "reg.txt"), p)
		case "link-dir":
			os.Symlink(filepath.Join(out, "dir"), p)
		case "link-fifo":
			os.Symlink(filepath.Join(out, "pipe"), p)
		case "link-sock":
			os.Symlink(filepath.Join(out, "sock"), p)
		case "link-dev":
			os.Symlink("/dev/null", p)
		case "link-dangling":
			os.Symlink(filepath.Join(out, "nothing-here"), p)
		case "link-loop":
			os.Symlink(x.Name, p)
		default:
			continue
		}
		b.actual[x.Where+"/"+x.Name] = t
	}
	return b, nil
}

// ---------- execution (always in the worker process) ----------

const c20DirTimeout = 8 * time.Second

func c20DirCfg() *action.Configuration {
	return &action.Configuration{Releases: storage.Init(driver.NewMemory()), KubeClient: &kubefake.PrintingKubeClient{Out: io.Discard},
		Capabilities: chartutil.DefaultCapabilities.Copy()}
}

func c20ExecDirInWorker(c *c20DirC) c20Obs {
	obs := c20Obs{}
	b, err := c20BuildDir(c)
	if err != nil {
		return c20Obs{Class: "err", Where: "cannot build the directory"}
	}
	defer b.cleanup()
	actual := map[string]any{}
	for k, v := range b.actual {
		actual[k] = v
	}
	obs.Extra = map[string]any{"actual": actual}
	step := "loader.LoadDir(dir)"
	var names []string
	accepted := false
	done := make(chan [2]string, 1)
	go func() {
		class, msg := c20Guard("chart directory", c20Timeout, func() {
			switch c.Cmd {
			case "":
				ch, err := loader.LoadDir(b.dir)
				if err == nil && ch != nil {
					accepted = true
					for _, f := range ch.Raw {
						names = append(names, f.Name)
					}
				}
			case "load":
				step = "loader.Load(dir)"
				_, err := loader.Load(b.dir)
				accepted = err == nil
			case "template":
				step = "helm template rel dir"
				_, err := helmcmd.VerifRunCmd([]string{"template", "rel", b.dir}, c20DirCfg())
				accepted = err == nil
			case "lint":
				step = "helm lint dir"
				_, err := helmcmd.VerifRunCmd([]string{"lint", b.dir}, c20DirCfg())
				accepted = err == nil
			case "package":
				step = "helm package dir"
				_, err := helmcmd.VerifRunCmd([]string{"package", b.dir, "-d", filepath.Join(b.base, "pkg")}, c20DirCfg())
				accepted = err == nil
			}
		})
		done <- [2]string{class, msg}
	}()
	select {
	case r := <-done:
		switch {
		case r[0] != "":
			obs.Class, obs.Panic, obs.Where = r[0], r[1], step
		case accepted:
			obs.Class = "ok"
		default:
			obs.Class = "err"
		}
	case <-time.After(c20DirTimeout):
		obs.Class, obs.Where = "hang", step
		obs.Panic = step + ": no return within " + c20DirTimeout.String() + " (blocked on a named pipe of the chart directory)"
		// let the stuck call go, so that nothing keeps the directory busy
		for i := 0; i < 50; i++ {
			b.release()
			select {
			case <-done:
				i = 50
			case <-time.After(100 * time.Millisecond):
			}
		}
	}
	if obs.Class == "ok" && c.Cmd == "" {
		sort.Strings(names)
		ns := make([]any, len(names))
		for i, n := range names {
			ns[i] = n
		}
		obs.Extra["names"] = ns
	}
	return obs
}

func c20ExecDir(c *c20DirC) c20Obs {
	return c20ViaWorker(&c20ExploreC{Target: "dir", Dir: c})
}

// ---------- the tree for the model ----------

type c20DirNode struct {
	name string
	typ  string // etype term
	ign  bool
	kids map[string]*c20DirNode
}

func c20DirEtype(t string) string {
	switch t {
	case "reg":
		return "(TPlain FRegular)"
	case "dir":
		return "(TPlain FDir)"
	case "fifo":
		return "(TPlain FPipe)"
	case "sock":
		return "(TPlain FSocket)"
	case "dev":
		return "(TPlain FCharDevice)"
	case "link-reg":
		return "(TSymlink (Some FRegular))"
	case "link-dir":
		return "(TSymlink (Some FDir))"
	case "link-fifo":
		return "(TSymlink (Some FPipe))"
	case "link-sock":
		return "(TSymlink (Some FSocket))"
	case "link-dev":
		return "(TSymlink (Some FCharDevice))"
	}
	return "(TSymlink None)" // dangling, loop
}

func c20DirTree(c *c20DirC, actual map[string]string) *c20DirNode {
	root := &c20DirNode{kids: map[string]*c20DirNode{}}
	put := func(path, typ string) *c20DirNode {
		cur := root
		parts := strings.Split(path, "/")
		for i, p := range parts {
			n, ok := cur.kids[p]
			if !ok {
				n = &c20DirNode{name: p, typ: "(TPlain FDir)", ign: strings.HasPrefix(p, "ign"), kids: map[string]*c20DirNode{}}
				cur.kids[p] = n
			}
			if i == len(parts)-1 {
				n.typ = typ
			}
			cur = n
		}
		return cur
	}
	for n := range c20DirBase() {
		put(n, "(TPlain FRegular)")
	}
	for _, x := range c.Extras {
		t, ok := actual[x.Where+"/"+x.Name]
		if !ok {
			continue
		}
		path := x.Name
		if x.Where != "" {
			path = x.Where + "/" + x.Name
		}
		n := put(path, c20DirEtype(t))
		switch t {
		case "dir":
			n.kids["f.txt"] = &c20DirNode{name: "f.txt", typ: "(TPlain FRegular)", kids: map[string]*c20DirNode{}}
		case "link-dir":
			n.kids["o.txt"] = &c20DirNode{name: "o.txt", typ: "(TPlain FRegular)", kids: map[string]*c20DirNode{}}
		}
	}
	return root
}

func c20CoqDirNodes(n *c20DirNode) string {
	names := make([]string, 0, len(n.kids))
	for k := range n.kids {
		names = append(names, k)
	}
	sort.Strings(names)
	it := make([]string, 0, len(names))
	for _, k := range names {
		x := n.kids[k]
		it = append(it, fmt.Sprintf("Node %s %s %s %s", hx.CoqStr(x.name), x.typ, hx.CoqBool(x.ign), c20CoqDirNodes(x)))
	}
	return "[" + strings.Join(it, "; ") + "]"
}

func c20CoqDir(c *c20DirC, obs c20Obs) string {
	if c.Cmd != "" {
		return "CExplore " + c20Cls(obs.Class)
	}
	actual := map[string]string{}
	if obs.Extra != nil {
		if m, ok := obs.Extra["actual"].(map[string]any); ok {
			for k, v := range m {
				actual[k] = fmt.Sprint(v)
			}
		}
	}
	var names []string
	if obs.Extra != nil {
		if l, ok := obs.Extra["names"].([]any); ok {
			for _, x := range l {
				names = append(names, fmt.Sprint(x))
			}
		}
	}
	return fmt.Sprintf("CDir %s (%s, %s)", c20CoqDirNodes(c20DirTree(c, actual)), c20Cls(obs.Class), hx.CoqStrList(names))
}

package main

// C14, command layer: the same gate observed through the real cobra commands of pkg/cmd
// (`helm install`, `helm upgrade [--install]`, `helm template`, `helm lint`), run through the verif
// hook cmd.VerifRunCmd with the recording kube client and an in-memory store.  The flags that
// sit next to --skip-schema-validation are enumerated as a cross product: whatever they are,
// violating values without --skip-schema-validation must give an error and store nothing.

import (
	"encoding/json"
	"io"
	"log/slog"
	"os"
	"path/filepath"
	"strings"

	helmcmd "helm.sh/helm/v4/pkg/cmd"
	release "helm.sh/helm/v4/pkg/release/v1"
)

const c14SkipFlag = "--skip-schema-validation"

func hasFlag(fs []string, prefix string) bool {
	for _, f := range fs {
		if f == prefix || strings.HasPrefix(f, prefix+"=") {
			return true
		}
	}
	return false
}

// runCmd executes one command-layer case; obs.reference / chartTerm are already filled in.
func (o *c14Obs) runCmd(c c14Case) {
	dir, err := os.MkdirTemp("", "c14cmd")
	if err != nil {
		o.Stage, o.Err = "panic", err.Error()
		return
	}
	defer os.RemoveAll(dir)
	defer slog.SetDefault(slog.New(slog.NewTextHandler(io.Discard, nil))) // the root command installs its own logger
	root := filepath.Join(dir, c.Chart.Name)
	for _, f := range c.Chart.files("", c14Template) {
		p := filepath.Join(root, filepath.FromSlash(f.Name))
		os.MkdirAll(filepath.Dir(p), 0o755)
		os.WriteFile(p, f.Data, 0o644)
	}
	vb, _ := json.Marshal(c.userVals()) // exact cases: numbers as written
	if c.ViaFlag {
		vb = []byte("{}") // the values travel in --set / --set-json
	}
	vf := filepath.Join(dir, "user-values.json")
	os.WriteFile(vf, vb, 0o644)
	// keep helm's own files out of the real home directory
	for _, e := range []string{"HELM_CACHE_HOME", "HELM_CONFIG_HOME", "HELM_DATA_HOME"} {
		old, had := os.LookupEnv(e)
		os.Setenv(e, filepath.Join(dir, "helmhome"))
		defer func(e, old string, had bool) {
			if had {
				os.Setenv(e, old)
			} else {
				os.Unsetenv(e)
			}
		}(e, old, had)
	}

	cfg, k := c14Config()
	store := cfg.Releases
	present := strings.HasSuffix(c.Op, "-present")
	if present {
		// a deployed revision 1 made by the real install command with the chart's defaults
		if out, err := helmcmd.VerifRunCmd([]string{"install", "rel", root}, cfg); err != nil {
			o.Stage, o.Err = "setup-error", err.Error()+"\n"+out
			return
		}
		k.mutations = 0
	}
	var args []string
	switch c.Op {
	case "cmd-install":
		args = []string{"install", "rel", root, "-f", vf}
	case "cmd-upgrade-install-absent", "cmd-upgrade-install-present":
		args = []string{"upgrade", "--install", "rel", root, "-f", vf}
	case "cmd-upgrade-present":
		args = []string{"upgrade", "rel", root, "-f", vf}
	case "cmd-template":
		args = []string{"template", "rel", root, "-f", vf}
	case "cmd-lint":
		args = []string{"lint", root, "-f", vf}
	}
	args = append(args, c.Flags...)
	out, err := helmcmd.VerifRunCmd(args, cfg)
	text := out
	if err != nil {
		o.Errored = true
		o.Err = err.Error()
		text = err.Error() + "\n" + out
		if strings.Contains(err.Error(), "unknown flag") {
			o.Stage = "flag-error"
			return
		}
	}
	if strings.Contains(text, c14SchemaPhrase) {
		o.Schema = true
		o.Names = namedCharts(text, c.Chart)
	}
	if c.Op == "cmd-lint" {
		o.LintVals = strings.Contains(out, "[ERROR] values.yaml")
	}
	if present {
		hist, _ := store.History("rel")
		o.Stored = len(hist) != 1
		for _, h := range hist {
			if h.Version == 1 && h.Info.Status != release.StatusDeployed {
				o.Stored = true
			}
		}
	} else {
		rels, _ := store.ListReleases()
		o.Stored = len(rels) > 0
	}
	o.Sent = k.mutations > 0
}

// coqOpCmd maps a command-layer case to the model's operation.
func coqOpCmd(c c14Case) string {
	dry := hasFlag(c.Flags, "--dry-run")
	switch c.Op {
	case "cmd-install", "cmd-upgrade-install-absent":
		if dry {
			return "OpInstallDry"
		}
		if hasFlag(c.Flags, "--create-namespace") {
			return "OpInstall"
		}
		return "OpInstallPlain"
	case "cmd-upgrade-present", "cmd-upgrade-install-present":
		if dry {
			return "OpUpgradeDry"
		}
		return "OpUpgrade"
	case "cmd-template":
		return "OpTemplate"
	}
	return "OpLint"
}

// cmdCases: commands x cross product of the flags next to the schema flag x charts x values.
func c14CmdCases(tier string) []any {
	tbl := func(kv ...any) map[string]any {
		m := map[string]any{}
		for i := 0; i+1 < len(kv); i += 2 {
			m[kv[i].(string)] = kv[i+1]
		}
		return m
	}
	zero := int64(0)
	single := func() *vChart {
		return &vChart{Name: "top", Version: "1.0.0", Values: tbl("age", 1.0),
			Schema: &vSchema{Type: "object", Props: map[string]*vSchema{"age": {Type: "integer", Minimum: &zero}}}}
	}
	nested := func() *vChart {
		return &vChart{Name: "top", Version: "1.0.0", Values: tbl("k", 1.0),
			Charts: []*vChart{{Name: "suba", Version: "1.0.0", Values: tbl("port", 80.0),
				Schema: &vSchema{Type: "object", Required: []string{"port"},
					Props: map[string]*vSchema{"port": {Type: "integer", Minimum: i64(1), Maximum: i64(65535)}}}}},
			Deps: []vDep{{Name: "suba", Version: "1.0.0", Alias: "a1"}}}
	}
	type cfgT struct {
		chart func() *vChart
		vals  map[string]any
	}
	full := []cfgT{{single, tbl("age", -5.0)}, {single, tbl()}}
	few := []cfgT{{nested, tbl("a1", tbl("port", 0.0))}, {nested, tbl("a1", tbl("port", 8080.0))}}
	opt := func(f string) []string { return []string{"", f} }
	dries := []string{"", "--dry-run", "--dry-run=client", "--dry-run=server"}
	ops := []string{"cmd-install", "cmd-upgrade-install-absent", "cmd-upgrade-present", "cmd-upgrade-install-present", "cmd-template"}
	var out []any
	add := func(op string, cf cfgT, fl ...string) {
		var flags []string
		for _, f := range fl {
			if f != "" {
				flags = append(flags, f)
			}
		}
		out = append(out, c14Case{Kind: "cmd", Op: op, Flags: flags, Skip: hasFlag(flags, c14SkipFlag), Chart: cf.chart(), Vals: cf.vals})
	}
	for _, op := range ops {
		for _, skip := range opt(c14SkipFlag) {
			for _, oa := range opt("--disable-openapi-validation") {
				for _, cf := range few {
					add(op, cf, skip, oa)
				}
				for _, dry := range dries {
					for _, at := range opt("--atomic") {
						if tier != "thorough" && at != "" && dry != "" && dry != "--dry-run=server" {
							continue // quick: --atomic with no dry-run and with one dry-run spelling
						}
						for _, cf := range full {
							add(op, cf, skip, oa, dry, at)
						}
						if tier == "thorough" {
							for _, cf := range few {
								add(op, cf, skip, oa, dry, at)
							}
						}
					}
				}
			}
		}
	}
	// other switches of install / upgrade that must not touch the schema check
	for _, f := range []string{"--skip-crds", "--no-hooks", "--create-namespace", "--wait", "--render-subchart-notes", "--dependency-update", "--disable-openapi-validation --atomic --no-hooks"} {
		for _, op := range []string{"cmd-install", "cmd-upgrade-install-absent", "cmd-upgrade-present"} {
			for _, cf := range append(append([]cfgT{}, full...), few[0]) {
				add(op, cf, strings.Fields(f)...)
			}
		}
	}
	for _, f := range []string{"--force", "--reset-values", "--reuse-values", "--reset-then-reuse-values", "--cleanup-on-fail"} {
		for _, op := range []string{"cmd-upgrade-install-absent", "cmd-upgrade-present"} {
			for _, cf := range full {
				add(op, cf, f)
			}
		}
	}
	for _, skip := range opt(c14SkipFlag) {
		for _, cf := range append(append([]cfgT{}, full...), few...) {
			add("cmd-lint", cf, skip)
		}
	}
	return out
}

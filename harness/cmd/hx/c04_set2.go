package main

// C04, round 4: the --set family through the second model (Values/Strvals2.v, cases CParse2 /
// CProbe of Run/RunC04.v).  Streams: nested indexes of depth >= 3, index boundaries (MaxIndex,
// MaxIndex+1, negative, signed, leading zeros, non-numeric, beyond int64), escapes next to
// indexes, literal values over the whole metacharacter alphabet, --set-json objects / arrays /
// scalars at nested paths (non-ASCII blanks included), --set-file with multi-line contents,
// brace lists of paths and a synthetic callback returning typed values and errors, the
// entry points that start from a fresh map (Parse, ParseString, ParseLiteral, ParseFile),
// ill-formed UTF-8, an empty key in the destination, a malformed stream through all five
// parsers, and every short string over the metacharacter alphabet through the literal parser.

import (
	"encoding/hex"
	"fmt"
	"math/rand"
	"os"
	"sort"
	"strings"
	"unicode/utf8"

	"helm.sh/helm/v4/pkg/strvals"

	"verif/harness/internal/hx"
)

// c04RVal: what a synthetic RunesValueReader returns for one argument.
type c04RVal struct {
	Val interface{} `json:"val"`
	Err bool        `json:"err,omitempty"`
}

// c04RCall: one call of the reader callback the real parse made.
type c04RCall struct {
	Arg string      `json:"arg"`
	Val interface{} `json:"val"`
	Ok  bool        `json:"ok"`
}

type c04Probed struct {
	Found bool        `json:"found"`
	Val   interface{} `json:"val,omitempty"`
}

const c04MaxIndex = 65536 // strvals.MaxIndex on the pinned tree; the generator aims at its boundary

func c04SetS(p *c04Parse, s string) {
	p.S = s
	if !utf8.ValidString(s) {
		p.SHex = hex.EncodeToString([]byte(s))
	}
}

// ---------- paths with nested indexes ----------

var c04Keys2 = []string{"a", "b", "c", "srv", "k-1", "né", "x y", "Key"}
var c04EscKeys2 = []string{"x.y", "a,b", "k=v", "p[q", "p[0]", "back\\slash", "dot.", ".lead", "q]"}

// c04GenPath2: 1-4 segments, each with 0-4 indexes; shape-aware over dest most of the time.
func c04GenPath2(r *rand.Rand, dest vtree, esc bool, deep bool) []c04Seg {
	n := 1 + r.Intn(3)
	safe := r.Intn(6) > 0
	var p []c04Seg
	var cur interface{} = dest
	for i := 0; i < n; i++ {
		var k string
		m, _ := cur.(vtree)
		switch {
		case len(m) > 0 && r.Intn(3) > 0:
			ks := c04SortedKeys(m)
			k = ks[r.Intn(len(ks))]
			if k == "" || (!esc && strings.ContainsAny(k, ".=[")) {
				k = c04Keys2[r.Intn(len(c04Keys2))]
			}
		case esc && r.Intn(5) == 0:
			k = c04EscKeys2[r.Intn(len(c04EscKeys2))]
		default:
			k = c04Keys2[r.Intn(len(c04Keys2))]
		}
		s := c04Seg{Key: k}
		var nxt interface{}
		exists := false
		if m != nil {
			nxt, exists = m[k]
		}
		nIdx := 0
		l, isList := nxt.([]interface{})
		switch {
		case isList && r.Intn(4) > 0:
			nIdx = 1 + r.Intn(3)
		case (!exists || !safe) && r.Intn(3) == 0:
			nIdx = 1 + r.Intn(3)
		}
		if deep && i == 0 && nIdx < 3 && (!exists || isList || !safe) {
			nIdx = 3 + r.Intn(2)
		}
		for j := 0; j < nIdx; j++ {
			ix := r.Intn(3)
			if r.Intn(10) == 0 {
				ix = 3 + r.Intn(4)
			}
			if safe && isList && len(l) > 0 && r.Intn(2) == 0 {
				ix = r.Intn(len(l))
			}
			s.Idx = append(s.Idx, ix)
			nxt, exists = nil, false
			if isList && ix < len(l) {
				nxt, exists = l[ix], true
			}
			l, isList = nxt.([]interface{})
			if safe && exists && nxt != nil && !isList && j < nIdx-1 {
				break // an index on a scalar / table element panics inside strvals
			}
		}
		p = append(p, s)
		if _, isTable := nxt.(vtree); safe && exists && !isTable && len(s.Idx) == 0 {
			break
		}
		cur = nxt
	}
	return p
}

func c04StepsCoq(p []c04Seg) string {
	var it []string
	for _, s := range p {
		it = append(it, "SKey "+hx.CoqStr(s.Key))
		for _, i := range s.Idx {
			it = append(it, "SIdx "+hx.CoqZ(int64(i)))
		}
	}
	return hx.CoqList(it)
}

func c04OrStepsCoq(p []orStep) string {
	var it []string
	for _, s := range p {
		if s.Is {
			it = append(it, "SIdx "+hx.CoqZ(int64(s.Idx)))
		} else {
			it = append(it, "SKey "+hx.CoqStr(s.Key))
		}
	}
	return hx.CoqList(it)
}

// ---------- values ----------

var c04LitMeta = []string{",", "\\", "=", "[", "]", "{", "}", ".", " ", "\"", "'", ":", "a", "0", "é", "\n", "\t", "#"}

// c04GenLiteralValue: a value for --set-literal over the whole metacharacter alphabet.
func c04GenLiteralValue(r *rand.Rand) string {
	switch r.Intn(8) {
	case 0:
		return []string{"", "a,b", "a\\,b", "x=y", "{a,b}", "[0]", "a.b[1]=c", "true", "null", "007", " lead", "trail ", "a\\", "\\", ",", "=", "line\nbreak", "k=v,k2=v2"}[r.Intn(18)]
	default:
		n := r.Intn(9)
		var b strings.Builder
		for i := 0; i < n; i++ {
			b.WriteString(c04LitMeta[r.Intn(len(c04LitMeta))])
		}
		return b.String()
	}
}

var c04TypedLits2 = []c04Lit{
	{"true", true}, {"tRuE", true}, {"FALSE", false}, {"Null", nil}, {"0", int64(0)}, {"-0", int64(0)}, {"+0", int64(0)},
	{"-007", int64(-7)}, {"+12", int64(12)}, {"007", "007"}, {"0x10", "0x10"}, {"1_0", "1_0"}, {"1.0", "1.0"},
	{"-9223372036854775808", int64(-9223372036854775808)}, {"-9223372036854775809", "-9223372036854775809"},
	{"fal\u017fe", false}, {"nuLl", nil}, {"\u212a", "\u212a"}, {"trüe", "trüe"}, {"tru", "tru"}, {"-", "-"}, {"+", "+"},
	{"a\\,b", "a,b"}, {"a\\\\", "a\\"}, {"\\{x", "{x"}, {"x{y}", "x{y}"}, {"a=b=c", "a=b=c"}, {"[1]", "[1]"}, {"a.b", "a.b"},
}

// ---------- generator ----------

func c04GenParse2(r *rand.Rand, base vtree) c04Case {
	dest := vtMutate(r, base, 3)
	if r.Intn(4) == 0 {
		dest = vtree{}
	}
	// nested lists in dest so that nested indexes meet something
	if r.Intn(2) == 0 {
		dest[c04Keys2[r.Intn(3)]] = []interface{}{
			[]interface{}{int64(1), []interface{}{"deep", nil, vtree{"k": "v"}}, vtree{"p": int64(2)}},
			vtree{"a": []interface{}{vtree{"b": int64(1)}, nil}},
			nil, "s"}
	}
	p := &c04Parse{Dest: dest, V2: true}
	tag := ""
	switch k := r.Intn(24); {
	case k < 5: // --set / --set-string, nested indexes of depth >= 3 in every other case
		p.Fn = []string{"ParseInto", "ParseInto", "ParseIntoString"}[r.Intn(3)]
		n := 1
		if r.Intn(3) == 0 {
			n = 2
		}
		var parts []string
		for i := 0; i < n; i++ {
			path := c04GenPath2(r, dest, true, r.Intn(2) == 0)
			l := c04TypedLits2[r.Intn(len(c04TypedLits2))]
			if r.Intn(2) == 0 {
				l = c04Lits[r.Intn(len(c04Lits))]
			}
			for l.Text == "" || strings.HasPrefix(l.Text, "{") {
				l = c04TypedLits2[r.Intn(len(c04TypedLits2))]
			}
			var val interface{} = l.Typed
			if p.Fn == "ParseIntoString" {
				val = c04Unescape(l.Text)
			}
			parts = append(parts, c04ShowPath(path)+"="+l.Text)
			p.Pairs = append(p.Pairs, c04Pair{Path: path, Val: val})
		}
		c04SetS(p, strings.Join(parts, ","))
		p.NamesKnown = true
		tag = "p2-nested"
	case k < 8: // index boundaries
		p.Fn = []string{"ParseInto", "ParseIntoString", "ParseLiteralInto", "ParseJSON"}[r.Intn(4)]
		idx := []string{"-1", "-0", "+1", "007", "65537", "65538", "300", "x", "1a", "", " 1", "1 ", "0x1", "9223372036854775807", "9223372036854775808", "-9223372036854775809", "1.0", "١"}[r.Intn(18)]
		pre := []string{"a", "a[0]", "a[1][0]", "b.c", "a[0].b"}[r.Intn(5)]
		post := []string{"=v", ".k=v", "[0]=v", "[1].k=v", "="}[r.Intn(5)]
		c04SetS(p, pre+"["+idx+"]"+post)
		tag = "p2-index-bounds"
	case k < 10: // escapes next to indexes
		p.Fn = []string{"ParseInto", "ParseIntoString", "ParseJSON"}[r.Intn(3)]
		forms := []string{"a\\.b[0]=v", "a\\[0][1]=v", "a[0]\\.b=v", "a[0].b\\[1\\]=v", "a\\\\[0]=v", "a[0\\]=v", "a[\\0]=v", "a[0][1]\\=v", "a\\,b[1][0].c=v", "a[1]\\[0]=v", "p\\[q[0][0]=v", "a[0].x\\.y[1]=v"}
		s := forms[r.Intn(len(forms))]
		if p.Fn == "ParseJSON" {
			s = strings.TrimSuffix(s, "v") + "\"v\""
		}
		c04SetS(p, s)
		tag = "p2-escapes-at-index"
	case k < 14: // --set-literal: value over the metacharacter alphabet
		p.Fn = "ParseLiteralInto"
		path := c04GenPath2(r, dest, false, r.Intn(3) == 0)
		v := c04GenLiteralValue(r)
		c04SetS(p, c04ShowPathLiteral(path)+"="+v)
		p.Pairs = []c04Pair{{Path: path, Val: string([]rune(v))}}
		p.NamesKnown = true
		tag = "p2-literal"
	case k < 17: // --set-json at nested paths
		p.Fn = "ParseJSON"
		vals := []string{`1`, `"s"`, `null`, `true`, `[1,[2,{"x":null}]]`, `{"x":{"y":[1,2]}}`, `"a,b"`, `[{"k":"v"},[]]`, `-3`, `1.5e3`, `{}`, `[]`, `"é\n"`, `{"a":1,"a":2}`, `12345678901234567890`}
		seps := []string{",", " , ", ",", " ,", ", ", " ,\t", ",\u2003", "\u00a0,"}
		n := 1 + r.Intn(2)
		var parts []string
		var np [][]c04Seg
		for i := 0; i < n; i++ {
			path := c04GenPath2(r, dest, true, r.Intn(3) == 0)
			v := vals[r.Intn(len(vals))]
			lead := []string{"", "", " ", "\u00a0", "\t ", "\u3000"}[r.Intn(6)]
			parts = append(parts, c04ShowPath(path)+"="+lead+v)
			np = append(np, path)
		}
		if r.Intn(6) == 0 {
			parts = append(parts, "z="+[]string{"", " ", "tru", "{", "[1,", "\"open", "1 2"}[r.Intn(7)])
		} else {
			p.NamesKnown, p.NamePaths = true, np
		}
		sep := seps[r.Intn(len(seps))]
		// blanks after the comma are not skipped: they belong to the next pair's first key
		if ws := sep[strings.Index(sep, ",")+1:]; ws != "" {
			for i := 1; i < len(np); i++ {
				np[i] = append([]c04Seg{{Key: ws + np[i][0].Key, Idx: np[i][0].Idx}}, np[i][1:]...)
			}
		}
		c04SetS(p, strings.Join(parts, sep))
		tag = "p2-json"
	case k < 19: // --set-file: real files (multi-line), brace lists of paths
		p.Fn = "ParseIntoFile"
		contents := []string{"line1\nline2\n", "a,b\\c={x}\n\n", "", "single", "tab\tand é\nlast line without newline", "k: v\nlist:\n- 1\n- 2\n"}
		path := c04GenPath2(r, dest, true, r.Intn(3) == 0)
		c1 := contents[r.Intn(len(contents))]
		f1 := c04FilePath(c1)
		p.Files = map[string]string{f1: c1}
		switch r.Intn(5) {
		case 0:
			c2 := contents[r.Intn(len(contents))]
			f2 := c04FilePath(c2)
			p.Files[f2] = c2
			c04SetS(p, c04ShowPath(path)+"={"+f1+","+f2+"}")
			p.Pairs = []c04Pair{{Path: path, Val: []interface{}{c1, c2}}}
		case 1:
			c04SetS(p, c04ShowPath(path)+"=/nonexistent/hxc04-"+fmt.Sprint(r.Intn(3)))
		default:
			c04SetS(p, c04ShowPath(path)+"="+f1)
			p.Pairs = []c04Pair{{Path: path, Val: c1}}
		}
		p.NamesKnown = true
		tag = "p2-file"
	case k < 20: // a synthetic callback: typed values, tables, lists, nil, errors
		p.Fn = []string{"ParseIntoFile", "ParseFile"}[r.Intn(2)]
		if p.Fn == "ParseFile" {
			p.Dest = vtree{}
		}
		p.Reader = map[string]c04RVal{
			"p1": {Val: vtGenVal(r, 2)}, "p2": {Val: int64(r.Intn(9))}, "p3": {Val: nil}, "bad": {Val: "partial", Err: true},
			"p,4": {Val: []interface{}{vtree{"x": int64(1)}}}, "": {Val: "empty-arg"},
		}
		path := c04GenPath2(r, p.Dest, true, false)
		arg := []string{"p1", "p2", "p3", "bad", "p\\,4", "", "missing", "{p1,p2}", "{p1,bad}", "{p3}", "{}"}[r.Intn(11)]
		c04SetS(p, c04ShowPath(path)+"="+arg)
		if rv, ok := p.Reader[arg]; ok && !rv.Err && arg != "" {
			p.Pairs = []c04Pair{{Path: path, Val: rv.Val}}
			p.NamesKnown = true
		}
		if r.Intn(4) == 0 {
			c04SetS(p, p.S+",c.d=p2")
			p.Pairs, p.NamesKnown = nil, false
		}
		tag = "p2-callback"
	case k < 21: // the entry points that start from a fresh map
		p.Fn = []string{"Parse", "ParseString", "ParseLiteral"}[r.Intn(3)]
		p.Dest = vtree{}
		path := c04GenPath2(r, p.Dest, p.Fn != "ParseLiteral", r.Intn(2) == 0)
		if p.Fn == "ParseLiteral" {
			v := c04GenLiteralValue(r)
			c04SetS(p, c04ShowPathLiteral(path)+"="+v)
			p.Pairs = []c04Pair{{Path: path, Val: string([]rune(v))}}
		} else {
			l := c04TypedLits2[r.Intn(len(c04TypedLits2))]
			var val interface{} = l.Typed
			if p.Fn == "ParseString" {
				val = c04Unescape(l.Text)
			}
			c04SetS(p, c04ShowPath(path)+"="+l.Text)
			p.Pairs = []c04Pair{{Path: path, Val: val}}
		}
		p.NamesKnown = true
		tag = "p2-fresh-map"
	case k < 22: // ill-formed UTF-8 and an empty key in the destination
		if r.Intn(2) == 0 {
			p.Fn = []string{"ParseInto", "ParseIntoString", "ParseLiteralInto", "ParseJSON"}[r.Intn(4)]
			bad := []string{"\xff", "\xe2\x80", "\xe2\\\x80\x80", "a\xc3", "\xc0\xaf", "\xed\xa0\x80", "\xf4\x90\x80\x80", "é\xfeé", "\\\xff", "\xe2\x80\x80"}
			forms := []string{"a=%s", "%s=v", "a.%s=v", "a[0].k%s=v", "a=x%sy,b=%s", "a={%s,z}"}
			s := forms[r.Intn(len(forms))]
			for strings.Contains(s, "%s") {
				s = strings.Replace(s, "%s", bad[r.Intn(len(bad))], 1)
			}
			c04SetS(p, s)
			tag = "p2-ill-formed-utf8"
		} else {
			p.Fn = []string{"ParseInto", "ParseLiteralInto", "ParseJSON"}[r.Intn(3)]
			p.Dest = vtree{"": []interface{}{int64(1), []interface{}{int64(2)}, vtree{"q": int64(3)}}, "keep": "k"}
			if r.Intn(2) == 0 {
				p.Dest = vtree{"": vtree{"q": int64(1), "l": []interface{}{int64(5)}}, "keep": "k"}
			}
			v := "7"
			forms := []string{"[0]=%s", "[5]=%s", "[1][0]=%s", "[1][3]=%s", "[2].q=%s", "[2].n=%s", "[0].k=%s", ".q=%s", ".n.m=%s", ".l[0]=%s", ".l[3]=%s", "=%s", "[0]", "."}
			s := forms[r.Intn(len(forms))]
			if strings.Contains(s, "%s") {
				s = fmt.Sprintf(s, v)
			}
			c04SetS(p, s)
			tag = "p2-empty-key"
		}
	default: // malformed stream over the metacharacter alphabet, all five parsers
		p.Fn = []string{"ParseInto", "ParseIntoString", "ParseLiteralInto", "ParseJSON", "ParseIntoFile"}[r.Intn(5)]
		alpha := []string{"a", ".", "=", ",", "[", "]", "0", "1", "{", "}", "\\", " ", "-", "\"", "é", "\xff", "n", "u", "l"}
		n := r.Intn(11)
		var b strings.Builder
		for i := 0; i < n; i++ {
			b.WriteString(alpha[r.Intn(len(alpha))])
		}
		c04SetS(p, b.String())
		if p.Fn == "ParseIntoFile" {
			p.Reader = map[string]c04RVal{"a": {Val: "A"}, "0": {Val: int64(0)}, "": {Val: nil}, "1": {Val: "x", Err: true}}
		}
		tag = "p2-malformed"
	}
	return c04Case{Kind: "parse", Parse: p, Tag: tag}
}

// c04Corpus2: witnesses of the round-4 statements, replayed on the real code on every run.
func c04Corpus2() []any {
	var out []any
	add := func(fn, s string, dest vtree, pairs []c04Pair, known bool) {
		p := &c04Parse{Fn: fn, Dest: dest, V2: true, Pairs: pairs, NamesKnown: known}
		c04SetS(p, s)
		out = append(out, c04Case{Kind: "parse", Tag: "corpus-parse2", Parse: p})
	}
	seg := func(k string, idx ...int) c04Seg { return c04Seg{Key: k, Idx: idx} }
	// C04_literal_verbatim_bytes_refuted: the value is not byte-verbatim for ill-formed UTF-8
	add("ParseLiteralInto", "a=\xff", vtree{}, []c04Pair{{Path: []c04Seg{seg("a")}, Val: "�"}}, true)
	add("ParseInto", "a=\xe2\\\x80\x80", vtree{}, []c04Pair{{Path: []c04Seg{seg("a")}, Val: "���"}}, true)
	// literal: everything after the first '=' is the value
	add("ParseLiteralInto", "a[1][0].k-1=x,y\\z={1}, [2]=", vtree{}, []c04Pair{{Path: []c04Seg{seg("a", 1, 0), seg("k-1")}, Val: "x,y\\z={1}, [2]="}}, true)
	// typedVal's quirks: the leading-zero test looks at the first byte only; U+017F folds to s
	add("ParseInto", "a=-007,b=+0,c=007,d=fal\u017fe,e=\u212a,f=0x10", vtree{}, []c04Pair{
		{Path: []c04Seg{seg("a")}, Val: int64(-7)}, {Path: []c04Seg{seg("b")}, Val: int64(0)}, {Path: []c04Seg{seg("c")}, Val: "007"},
		{Path: []c04Seg{seg("d")}, Val: false}, {Path: []c04Seg{seg("e")}, Val: "\u212a"}, {Path: []c04Seg{seg("f")}, Val: "0x10"}}, true)
	// nested indexes: padding at two levels, an element that is not a table replaced
	d := vtree{"a": []interface{}{[]interface{}{int64(1)}, "keep"}, "z": vtree{"k": true}}
	add("ParseInto", "a[0][3][1]=x,b.c=2", d, []c04Pair{{Path: []c04Seg{seg("a", 0, 3, 1)}, Val: "x"}, {Path: []c04Seg{seg("b"), seg("c")}, Val: int64(2)}}, true)
	add("ParseIntoString", "a[1].k=1", d, []c04Pair{{Path: []c04Seg{seg("a", 1), seg("k")}, Val: "1"}}, true)
	add("ParseInto", "a[0][1][2].x\\.y=v\\,1", vtree{"a": []interface{}{[]interface{}{int64(7), []interface{}{"old"}}, "s"}, "keep": true},
		[]c04Pair{{Path: []c04Seg{seg("a", 0, 1, 2), seg("x.y")}, Val: "v,1"}}, true)
	// an empty key in the destination: set() stores nothing, a slice found there is patched in place
	for _, s := range []string{"[0]=x", "[5]=x", "[1][0]=x", ".b=x", "[2].q=x"} {
		add("ParseInto", s, vtree{"": []interface{}{int64(1), []interface{}{int64(2)}, vtree{"q": int64(3)}}, "keep": "k"}, nil, false)
		add("ParseLiteralInto", s, vtree{"": vtree{"q": int64(1)}, "keep": "k"}, nil, false)
	}
	// --set-json: non-ASCII blanks around values, nested paths
	add("ParseJSON", "a[0][1]=\u00a0{\"x\":[1,2]}\u2003,b.c= [null]", vtree{}, nil, true)
	out[len(out)-1].(c04Case).Parse.NamePaths = [][]c04Seg{{seg("a", 0, 1)}, {seg("b"), seg("c")}}
	// --set-json: an empty value (nothing, or only blanks, before the end / the comma) is null
	for _, s := range []string{"a=", "a= ", "a[0].b[-0]=", "a= ,b=\u00a0", "e=[1],\u2003z= ", "a[1]=\t,b=1"} {
		add("ParseJSON", s, vtree{"e": 7.5}, nil, false)
	}
	// ParseFile / ParseIntoFile with a callback that returns typed values, in brace lists and at nested indexes
	for _, fn := range []string{"ParseFile", "ParseIntoFile"} {
		pf := &c04Parse{Fn: fn, Dest: vtree{}, V2: true, S: "a=p1,b[0][1]={p1,p2},c.d[2]=p3", NamesKnown: true,
			Reader: map[string]c04RVal{"p1": {Val: vtree{"k": []interface{}{int64(1)}}}, "p2": {Val: int64(7)}, "p3": {Val: nil}},
			Pairs: []c04Pair{{Path: []c04Seg{seg("a")}, Val: vtree{"k": []interface{}{int64(1)}}},
				{Path: []c04Seg{seg("b", 0, 1)}, Val: []interface{}{vtree{"k": []interface{}{int64(1)}}, int64(7)}},
				{Path: []c04Seg{seg("c"), seg("d", 2)}, Val: nil}}}
		out = append(out, c04Case{Kind: "parse", Tag: "corpus-parse2", Parse: pf})
		pe := &c04Parse{Fn: fn, Dest: vtree{}, V2: true, S: "a=p1,b[0]=bad,c=p1", Reader: map[string]c04RVal{"p1": {Val: "v"}, "bad": {Val: "partial", Err: true}}}
		out = append(out, c04Case{Kind: "parse", Tag: "corpus-parse2", Parse: pe})
	}
	// literal parser: io.EOF inside a nested item leaves what was patched in place
	add("ParseLiteralInto", "a[0][0].", vtree{"a": []interface{}{[]interface{}{int64(5)}}}, nil, false)
	add("ParseInto", "a[0][0].", vtree{"a": []interface{}{[]interface{}{int64(5)}}}, nil, false)
	// index boundaries through deep paths (results too large to print): MaxIndex is accepted
	for _, fn := range []string{"ParseInto", "ParseLiteralInto", "ParseIntoString"} {
		idx := func(k string, is ...int) []orStep {
			q := []orStep{{Key: k}}
			for _, i := range is {
				q = append(q, orStep{Idx: i, Is: true})
			}
			return q
		}
		pr := &c04Parse{Fn: fn, Dest: vtree{"keep": int64(1)}, V2: true,
			Probes:    [][]orStep{idx("a", c04MaxIndex), idx("a", c04MaxIndex-1), idx("a", c04MaxIndex+1), idx("a", 0), idx("keep")},
			ProbeWant: []c04Probed{{Found: true, Val: "x"}, {Found: true}, {}, {Found: true}, {Found: true, Val: int64(1)}}}
		c04SetS(pr, fmt.Sprintf("a[%d]=x", c04MaxIndex))
		out = append(out, c04Case{Kind: "parse", Tag: "corpus-probe", Parse: pr})
		if fn != "ParseLiteralInto" {
			p2 := &c04Parse{Fn: fn, Dest: vtree{}, V2: true,
				Probes:    [][]orStep{append(idx("b", 1, c04MaxIndex), orStep{Key: "c"}), idx("b", 0), idx("b", 1, 0), idx("d")},
				ProbeWant: []c04Probed{{Found: true, Val: "y"}, {Found: true}, {Found: true}, {Found: true, Val: "z"}}}
			c04SetS(p2, fmt.Sprintf("b[1][%d].c=y,d=z", c04MaxIndex))
			out = append(out, c04Case{Kind: "parse", Tag: "corpus-probe", Parse: p2})
		}
		pe := &c04Parse{Fn: fn, Dest: vtree{}, V2: true, Probes: [][]orStep{idx("a", 0, 0)}, ProbeWant: []c04Probed{{}}, WantErr: true}
		c04SetS(pe, fmt.Sprintf("a[0][%d]=x", c04MaxIndex+1))
		out = append(out, c04Case{Kind: "parse", Tag: "corpus-probe", Parse: pe})
		pn := &c04Parse{Fn: fn, Dest: vtree{}, V2: true, Probes: [][]orStep{idx("a", 0)}, ProbeWant: []c04Probed{{}}, WantErr: true}
		c04SetS(pn, "a[-1]=x")
		out = append(out, c04Case{Kind: "parse", Tag: "corpus-probe", Parse: pn})
	}
	// a nested index into a nested list that exists: the siblings stay, for every parser
	nd := vtree{"a": []interface{}{[]interface{}{int64(1), int64(2), int64(3)}, "s", []interface{}{[]interface{}{"p", "q"}}}, "k": "keep"}
	for _, w := range []struct {
		fn, s string
		val   interface{}
	}{{"ParseInto", "a[0][2]=7", int64(7)}, {"ParseIntoString", "a[0][2]=7", "7"}, {"ParseLiteralInto", "a[0][2]=7,8", "7,8"}, {"ParseJSON", "a[0][2]=[7]", []interface{}{int64(7)}},
		{"ParseIntoFile", "a[0][2]=p", "P"}} {
		pp := &c04Parse{Fn: w.fn, Dest: nd, V2: true, NamesKnown: true, Pairs: []c04Pair{{Path: []c04Seg{seg("a", 0, 2)}, Val: w.val}}}
		if w.fn == "ParseIntoFile" {
			pp.Reader = map[string]c04RVal{"p": {Val: "P"}}
		}
		c04SetS(pp, w.s)
		out = append(out, c04Case{Kind: "parse", Tag: "corpus-parse2", Parse: pp})
		p3 := &c04Parse{Fn: w.fn, Dest: nd, V2: true, NamesKnown: true, Pairs: []c04Pair{{Path: []c04Seg{seg("a", 2, 0, 1)}, Val: w.val}}}
		p3.Reader = pp.Reader
		c04SetS(p3, strings.Replace(w.s, "a[0][2]", "a[2][0][1]", 1))
		out = append(out, c04Case{Kind: "parse", Tag: "corpus-parse2", Parse: p3})
	}
	return out
}

// c04Exhaustive2: second model.  Quick: every string of length <= 3 over 'a . = , [ ] 0 \' through
// the literal parser.  Thorough: length <= 4 through the literal parser, and every string of
// length <= 3 over the same alphabet plus '{' '}' through the other four parsers.
func c04Exhaustive2(tier string) []any {
	alpha := []string{"a", ".", "=", ",", "[", "]", "0", "\\"}
	dest := vtree{"a": vtree{"a": int64(1)}, "0": []interface{}{"x", []interface{}{nil}}}
	var out []any
	enum := func(alpha []string, maxLen int, fns []string) {
		var rec func(prefix string, n int)
		rec = func(prefix string, n int) {
			for _, fn := range fns {
				p := &c04Parse{Fn: fn, S: prefix, Dest: dest, V2: true}
				if fn == "ParseIntoFile" {
					p.Reader = map[string]c04RVal{"a": {Val: "A"}, "0": {Val: int64(0)}, "": {Val: nil}}
				}
				out = append(out, c04Case{Kind: "parse", Tag: "exhaustive-parse2", Parse: p})
			}
			if n == 0 {
				return
			}
			for _, c := range alpha {
				rec(prefix+c, n-1)
			}
		}
		rec("", maxLen)
	}
	if tier == "thorough" {
		enum(alpha, 4, []string{"ParseLiteralInto"})
		enum(append(append([]string{}, alpha...), "{", "}"), 3, []string{"ParseInto", "ParseIntoString", "ParseJSON", "ParseIntoFile"})
	} else {
		enum(alpha, 3, []string{"ParseLiteralInto"})
	}
	return out
}

// ---------- execution ----------

func c04ExecParse2(p *c04Parse, obs *c04Obs) {
	if err := c04WriteFiles(p.Files); err != nil {
		obs.Panic = "set-file fixture: " + err.Error()
		return
	}
	dest := vtCopyMap(p.Dest)
	if dest == nil {
		dest = vtree{}
	}
	reader := func(rs []rune) (interface{}, error) {
		arg := string(rs)
		var v interface{}
		var err error
		if p.Reader != nil {
			rv, ok := p.Reader[arg]
			switch {
			case !ok:
				err = fmt.Errorf("no such entry")
			case rv.Err:
				v, err = vtCopy(rv.Val), fmt.Errorf("reader failed")
			default:
				v = vtCopy(rv.Val)
			}
		} else {
			b, e := os.ReadFile(arg)
			if e != nil {
				err = e
			} else {
				v = string(b)
			}
		}
		obs.RCalls = append(obs.RCalls, c04RCall{Arg: arg, Val: vtCopy(v), Ok: err == nil})
		return v, err
	}
	var err error
	var fresh map[string]interface{}
	switch p.Fn {
	case "ParseInto":
		err = strvals.ParseInto(p.S, dest)
	case "ParseIntoString":
		err = strvals.ParseIntoString(p.S, dest)
	case "ParseJSON":
		err = strvals.ParseJSON(p.S, dest)
	case "ParseLiteralInto":
		err = strvals.ParseLiteralInto(p.S, dest)
	case "ParseIntoFile":
		err = strvals.ParseIntoFile(p.S, dest, reader)
	case "Parse":
		fresh, err = strvals.Parse(p.S)
	case "ParseString":
		fresh, err = strvals.ParseString(p.S)
	case "ParseLiteral":
		fresh, err = strvals.ParseLiteral(p.S)
	case "ParseFile":
		fresh, err = strvals.ParseFile(p.S, reader)
	default:
		obs.Panic = "unknown parse fn " + p.Fn
		return
	}
	if fresh != nil {
		dest = fresh
	}
	if err != nil {
		obs.Err = "error"
	}
	if len(p.Probes) > 0 {
		// only these deep paths are observed (the tree may be too large to print)
		for _, q := range p.Probes {
			v, ok := orDeepLookup(q, dest)
			obs.Probed = append(obs.Probed, c04Probed{Found: ok, Val: v})
		}
		return
	}
	obs.Out = dest
}

func c04CoqParse2(p *c04Parse, o c04Obs) string {
	fn := map[string]string{"ParseInto": "P2Into", "ParseIntoString": "P2IntoString", "ParseJSON": "P2Json",
		"ParseLiteralInto": "P2Literal", "ParseIntoFile": "P2File", "Parse": "P2Parse", "ParseString": "P2ParseString",
		"ParseLiteral": "P2ParseLiteral", "ParseFile": "P2ParseFile"}[p.Fn]
	if len(p.Probes) > 0 {
		var it []string
		for i, q := range p.Probes {
			v := "None"
			if i < len(o.Probed) && o.Probed[i].Found {
				v = "(Some " + hx.CoqVal(o.Probed[i].Val) + ")"
			}
			it = append(it, hx.CoqPair(c04OrStepsCoq(q), v))
		}
		return fmt.Sprintf("CProbe %s %s %s %s %s", fn, hx.CoqStr(p.S), hx.CoqValMap(p.Dest), hx.CoqList(it), hx.CoqBool(o.Err != "" || o.Panic != ""))
	}
	// the reader callback as the table of the calls the real parse made
	seen := map[string]bool{}
	var rt []string
	calls := append([]c04RCall{}, o.RCalls...)
	sort.SliceStable(calls, func(i, j int) bool { return calls[i].Arg < calls[j].Arg })
	for _, c := range calls {
		if seen[c.Arg] {
			continue
		}
		seen[c.Arg] = true
		rt = append(rt, hx.CoqPair(hx.CoqStr(c.Arg), hx.CoqPair(hx.CoqVal(c.Val), hx.CoqBool(c.Ok))))
	}
	jd := "[]"
	if p.Fn == "ParseJSON" {
		jd = c04JDec(p.S)
	}
	names := "None"
	if p.NamesKnown {
		var ns []string
		for _, pr := range p.Pairs {
			ns = append(ns, c04StepsCoq(pr.Path))
		}
		if len(p.Pairs) == 0 {
			ns = c04NamesFromS(p)
		}
		if ns != nil {
			names = "(Some " + hx.CoqList(ns) + ")"
		}
	}
	return fmt.Sprintf("CParse2 %s %s %s %s %s %s %s", fn, hx.CoqStr(p.S), hx.CoqValMap(p.Dest), hx.CoqList(rt), jd, names, c04CoqParseRes(o))
}

// c04NamesFromS: for streams that print their paths but keep no pair list (JSON), the paths
// are kept in NamePaths.
func c04NamesFromS(p *c04Parse) []string {
	if len(p.NamePaths) == 0 {
		return nil
	}
	var ns []string
	for _, q := range p.NamePaths {
		ns = append(ns, c04StepsCoq(q))
	}
	return ns
}

// ---------- oracle clauses for nested paths (independent of the model) ----------

// orPadPos: q is a position setIndex pads with nil on the way to the named path p: it
// follows p up to one of p's index steps and ends there with a smaller index.
func orPadPos(p, q []orStep) bool {
	n := len(q)
	if n == 0 || n > len(p) || !q[n-1].Is || !p[n-1].Is {
		return false
	}
	for i := 0; i < n-1; i++ {
		if p[i] != q[i] {
			return false
		}
	}
	return q[n-1].Idx < p[n-1].Idx
}

// c04DeepFrame: the property text on the deep leaves: every leaf of the destination that is
// not related to a named path is unchanged; every new leaf that is not related to a named path
// is a nil at a padding position.
func c04DeepFrame(p *c04Parse, before, after vtree, add func(sig, what string)) {
	var ns [][]orStep
	for _, pr := range p.Pairs {
		ns = append(ns, orStepsOf(pr.Path))
	}
	related := func(q []orStep) bool {
		for _, n := range ns {
			if orStepsRelated(q, n) {
				return true
			}
		}
		return false
	}
	paths, vals := orDeepLeaves(before)
	for j, q := range paths {
		if len(q) == 0 || related(q) {
			continue
		}
		got, ok := orDeepLookup(q, after)
		if !ok || !vtEqual(got, vals[j]) {
			add("set-frame-deep", fmt.Sprintf("%s(%q) names %s but changed %s from %#v to %#v (present=%v)",
				p.Fn, p.S, c04ShowPathLiteral(p.Pairs[0].Path), orShowSteps(q), vals[j], got, ok))
		}
	}
	paths2, vals2 := orDeepLeaves(after)
	for j, q := range paths2 {
		if len(q) == 0 || related(q) {
			continue
		}
		if _, ok := orDeepLookup(q, before); ok {
			continue
		}
		pad := false
		for _, n := range ns {
			if orPadPos(n, q) {
				pad = true
			}
		}
		if !(pad && vals2[j] == nil) {
			add("set-invents-path", fmt.Sprintf("%s(%q) names %s but the result has a new leaf %s = %#v that is neither below a named path nor a nil padding",
				p.Fn, p.S, c04ShowPathLiteral(p.Pairs[0].Path), orShowSteps(q), vals2[j]))
		}
	}
}

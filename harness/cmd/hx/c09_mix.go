package main

// C09, round 4: (1) options outside the model on the concurrent operations (--force, ...: the
// lock path must not depend on them), dry-run variants and --take-ownership; (2) mixes in which
// a rollback or an uninstall runs beside the install / upgrade operations; (3) concurrent
// upgrades under a history limit (the pruning window).

import (
	"fmt"
	"math/rand"

	"verif/harness/internal/conc"
	"verif/harness/internal/eng"
)

func c9isMix(c conc.Case) bool {
	for _, op := range c.Ops {
		if op.Kind == "rollback" || op.Kind == "uninstall" {
			return true
		}
	}
	return false
}

func c9deployed(o conc.Obs) int {
	n := 0
	for _, row := range o.Ledger {
		if row.Status == "deployed" {
			n++
		}
	}
	return n
}

func c9x(xs ...conc.OpExt) []conc.OpExt { return xs }

// a scenario whose operations carry options outside the model
type c9sx struct {
	name string
	pre  int
	ops  []eng.Op
	ext  []conc.OpExt // per operation; may be nil
}

func (s c9sx) mk(backend string, sched []int) conc.Case {
	return conc.Case{Backend: backend, Pre: c9preOf(s.pre), Ops: s.ops, Ext: s.ext, Sched: sched, Note: s.name}
}

var (
	c9none  = conc.OpExt{}
	c9force = conc.OpExt{Force: true}
)

// ---------- (1) flags on the lock path ----------

// An operation that carries --force (or any other option the model does not have) starts while
// another one holds the pending revision, is in the read/create window, or has just finished.
func c9flagScns() []c9sx {
	hk := c9op("upgrade", 12, eng.Flags{}, "a")
	hk.Hooks = []eng.Hook{c9hook("hk", "pre-upgrade")}
	return []c9sx{
		{"deployed:upgrade|upgrade+force", 1, []eng.Op{c9op("upgrade", 10, eng.Flags{}, "a"), c9op("upgrade", 11, eng.Flags{}, "a", "b")}, c9x(c9none, c9force)},
		{"deployed:upgrade+force|upgrade+force", 1, []eng.Op{c9op("upgrade", 10, eng.Flags{}, "a", "c"), c9op("upgrade", 11, eng.Flags{}, "b")}, c9x(c9force, c9force)},
		{"empty:install|upgrade+force", 0, []eng.Op{c9op("install", 10, eng.Flags{}, "a"), c9op("upgrade", 11, eng.Flags{}, "a")}, c9x(c9none, c9force)},
		{"empty:install+force|install+force", 0, []eng.Op{c9op("install", 10, eng.Flags{}, "a"), c9op("install", 11, eng.Flags{}, "b")}, c9x(c9force, c9force)},
		{"deployed:upgrade-hook|upgrade+force-atomic", 1, []eng.Op{hk, c9op("upgrade", 11, eng.Flags{Atomic: true, TakeOwnership: true}, "a", "b")},
			c9x(c9none, conc.OpExt{Force: true, Recreate: true, ViaUpgrade: true, Description: "forced"})},
		{"deployed:upgrade+opts|upgrade+opts", 1, []eng.Op{c9op("upgrade", 10, eng.Flags{Cleanup: true}, "a"), c9op("upgrade", 11, eng.Flags{TakeOwnership: true}, "b")},
			c9x(conc.OpExt{ReuseValues: true, SkipSchema: true, SubNotes: true, Label: "team"}, conc.OpExt{ResetThenReuse: true, NoValidate: true, EnableDNS: true, ViaUpgrade: true})},
		// charts with a crds/ directory (and --create-namespace): the CRD pre-install step and the namespace creation come
		// AFTER the name check; an install refused there has sent nothing (seeded C09-10 moved the check behind the CRD step)
		{"empty:install+crds|install+crds", 0, []eng.Op{c9op("install", 10, eng.Flags{}, "a"), c9op("install", 11, eng.Flags{}, "b")},
			c9x(conc.OpExt{CRDs: true}, conc.OpExt{CRDs: true, CreateNamespace: true})},
		{"deployed:upgrade+crds|install+crds", 1, []eng.Op{c9op("upgrade", 10, eng.Flags{}, "a"), c9op("install", 11, eng.Flags{}, "a", "b")},
			c9x(conc.OpExt{CRDs: true}, conc.OpExt{CRDs: true, CreateNamespace: true, Force: true})},
		{"deployed:upgrade|upgrade-dry+force", 1, []eng.Op{c9op("upgrade", 10, eng.Flags{}, "a"), c9op("upgrade", 11, eng.Flags{DryRun: true}, "a", "b")}, c9x(c9none, c9force)},
	}
}

// ---------- (2) a rollback or an uninstall beside the install / upgrade operations ----------

func c9mixScns() []c9sx {
	return []c9sx{
		// an explicit rollback races an upgrade (the shape of K-C09-2 without any cluster fault)
		{"deployed2:rollback|upgrade", 2, []eng.Op{{Kind: "rollback"}, c9op("upgrade", 11, eng.Flags{}, "a", "c")}, nil},
		{"deployed2:upgrade|rollback+force", 2, []eng.Op{c9op("upgrade", 10, eng.Flags{}, "a"), {Kind: "rollback", Flags: eng.Flags{Version: 1}}}, c9x(c9none, c9force)},
		// an uninstall races an upgrade / an install
		{"deployed:uninstall|upgrade", 1, []eng.Op{{Kind: "uninstall"}, c9op("upgrade", 11, eng.Flags{}, "a", "b")}, nil},
		{"deployed:upgrade|uninstall-keep", 1, []eng.Op{c9op("upgrade", 10, eng.Flags{}, "a"), {Kind: "uninstall", Flags: eng.Flags{KeepHistory: true}}}, nil},
		{"deployed:uninstall|install", 1, []eng.Op{{Kind: "uninstall"}, c9op("install", 11, eng.Flags{}, "b")}, nil},
		{"deployed+failed:uninstall-keep|upgrade", -1, []eng.Op{{Kind: "uninstall", Flags: eng.Flags{KeepHistory: true}}, c9op("upgrade", 11, eng.Flags{}, "a")}, nil},
	}
}

func c9mixThree() []c9sx {
	return []c9sx{
		// the uninstall overwrites the first upgrade's pending record with "uninstalling" (not a pending status): the lock is gone
		{"deployed:upgrade|upgrade|uninstall-keep", 1, []eng.Op{c9op("upgrade", 10, eng.Flags{}, "a"), c9op("upgrade", 11, eng.Flags{}, "b"), {Kind: "uninstall", Flags: eng.Flags{KeepHistory: true}}}, nil},
		{"deployed2:upgrade|rollback|upgrade", 2, []eng.Op{c9op("upgrade", 10, eng.Flags{}, "a"), {Kind: "rollback"}, c9op("upgrade", 12, eng.Flags{}, "c")}, nil},
	}
}

// ---------- (3) concurrent upgrades under a history limit ----------

func c9pruneScns() []c9sx {
	return []c9sx{
		{"deployed3:upgrade-mh2|upgrade-mh2", 3, []eng.Op{c9op("upgrade", 10, eng.Flags{MaxHistory: 2}, "a"), c9op("upgrade", 11, eng.Flags{MaxHistory: 2}, "a", "b")}, nil},
		{"deployed+failed:upgrade-mh1|upgrade-mh1", -1, []eng.Op{c9op("upgrade", 10, eng.Flags{MaxHistory: 1}, "a"), c9op("upgrade", 11, eng.Flags{MaxHistory: 1}, "a")}, nil},
		{"deployed3:upgrade-mh3|upgrade-mh2", 3, []eng.Op{c9op("upgrade", 10, eng.Flags{MaxHistory: 3}, "a"), c9op("upgrade", 11, eng.Flags{MaxHistory: 2}, "b")}, nil},
	}
}

func c9pruneThree() []c9sx {
	return []c9sx{
		{"deployed3:upgrade-mh2|upgrade-mh2|upgrade-mh2", 3, []eng.Op{c9op("upgrade", 10, eng.Flags{MaxHistory: 2}, "a"), c9op("upgrade", 11, eng.Flags{MaxHistory: 2}, "b"), c9op("upgrade", 12, eng.Flags{MaxHistory: 2}, "a", "c")}, nil},
	}
}

// ---------- corpus witnesses ----------

func c9mixCorpus(b string) []any {
	var out []any
	fl := c9flagScns()
	// the operation with --force reads while the other holds the pending revision (seeded C09-8), ...
	out = append(out, fl[0].mk(b, []int{0, 0, 1, 1, 1, 0, 0, 0}))
	out = append(out, fl[0].mk(b, []int{0, 0, 0, 1, 1, 1, 1, 0, 0}))
	// ... is in the window between the read and the create, ...
	out = append(out, fl[0].mk(b, []int{1, 0, 0, 1, 1, 1, 0, 0}))
	// ... both carry it; an install in flight (pending-install); hooks on the winner; a dry run
	out = append(out, fl[1].mk(b, []int{1, 1, 0, 0, 0, 1, 1, 1}))
	out = append(out, fl[2].mk(b, []int{0, 0, 1, 1, 0, 0}))
	out = append(out, fl[4].mk(b, []int{0, 0, 0, 1, 1, 1, 0, 0, 0}))
	out = append(out, fl[8].mk(b, []int{0, 0, 1, 1, 1, 0, 0}))
	// charts with crds/: sequential — an install of an EXISTING name (one operation) sends nothing, not even its CRDs; ...
	out = append(out, conc.Case{Backend: b, Pre: c9preOf(1), Note: "crds: install of a name in use sends nothing",
		Ops: []eng.Op{c9op("install", 10, eng.Flags{}, "a", "b")}, Ext: c9x(conc.OpExt{CRDs: true, CreateNamespace: true})})
	// ... concurrent — the second install's name check follows the first one's create; it starts while an upgrade is in
	// progress; and the read/create window (both pass the name check and pre-install the CRDs: observation)
	out = append(out, fl[6].mk(b, []int{0, 0, 1, 1, 1, 0, 0, 0}))
	out = append(out, fl[7].mk(b, []int{0, 0, 1, 1, 1, 0, 0, 0}))
	out = append(out, fl[6].mk(b, []int{0, 1, 0, 1, 0, 1, 0, 1}))
	// mixes (observations, outside the property text): an explicit rollback starts while the upgrade's
	// revision is pending and never looks at it: both end deployed (C09_mix_rollback_refuted) ...
	mx := c9mixScns()
	out = append(out, mx[0].mk(b, []int{1, 1, 1, 0, 0, 0, 0, 0, 0, 0, 0}))
	// ... an upgrade that starts while an uninstall is in flight is not told "in progress" ("uninstalling" is not pending)
	out = append(out, mx[2].mk(b, []int{0, 0, 1, 1, 1, 0, 0, 0}))
	// ... the uninstall overwrites the first upgrade's pending record, the second upgrade passes the pending check: two deployed
	out = append(out, c9mixThree()[0].mk(b, []int{0, 0, 2, 2, 2, 2, 1, 1, 1, 1, 1, 1}))
	// concurrent pruning: K-C09-3 (two deployed: the pruner deletes the failed LAST revision, the other upgrade re-creates its number)
	pr := c9pruneScns()
	out = append(out, pr[1].mk(b, []int{1, 1, 1, 1, 1, 0, 0, 1, 1, 0, 0, 0, 0, 0, 1, 0, 1, 0}))
	// ... and K-C09-4 (both prune the same old revisions; the second one gives up with "encountered 2 deletion errors")
	out = append(out, pr[0].mk(b, []int{1, 0, 0, 0, 1, 1, 0, 0, 1, 1, 0, 1, 1, 1, 0, 1, 0, 0}))
	// ... and the pruner deletes the revision the other upgrade has meanwhile DEPLOYED and re-creates its number; both report
	// success (observation: one deployed at the end, created twice with a delete in between; C09_pruning_deletes_deployed_refuted)
	out = append(out, pr[1].mk(b, []int{0, 0, 1, 1, 1, 1, 1, 1, 0, 0, 1, 1, 1, 0, 0, 0, 0, 0}))
	return out
}

// The flag family: ONE option at a time on the operation that must lose — every option of
// Upgrade / Install that exists beside the model's flags or that the model proves irrelevant to
// the lock path (C09_pending_check_all_flags, C09_name_check_all_flags).
//   - upgrade | upgrade+X: the second upgrade's first history read shows the first one's pending
//     revision: it must be refused ("another operation is in progress"), whatever X;
//   - install | install+X: the second install's name check runs after the first one's create: it
//     must be refused ("cannot reuse a name that is still in use"), whatever X (a dry run makes no check).
//
// A change that makes either check depend on an option meets its failing input here, deterministically.
func c9flagFamily() []any {
	type variant struct {
		tag string
		f   eng.Flags
		x   conc.OpExt
	}
	common := []variant{
		{"force", eng.Flags{}, conc.OpExt{Force: true}},
		{"skip-schema", eng.Flags{}, conc.OpExt{SkipSchema: true}},
		{"sub-notes", eng.Flags{}, conc.OpExt{SubNotes: true}},
		{"dns", eng.Flags{}, conc.OpExt{EnableDNS: true}},
		{"no-validate", eng.Flags{}, conc.OpExt{NoValidate: true}},
		{"label", eng.Flags{}, conc.OpExt{Label: "team"}},
		{"description", eng.Flags{}, conc.OpExt{Description: "d"}},
		{"atomic", eng.Flags{Atomic: true}, conc.OpExt{}},
		{"no-hooks", eng.Flags{NoHooks: true}, conc.OpExt{}},
		{"take-ownership", eng.Flags{TakeOwnership: true}, conc.OpExt{}},
		{"wait-for-jobs", eng.Flags{WaitForJobs: true}, conc.OpExt{}},
		{"dry-run", eng.Flags{DryRun: true}, conc.OpExt{}},
		{"dry-run=server", eng.Flags{DryRunOption: "server"}, conc.OpExt{}},
		{"dry-run=client", eng.Flags{DryRunOption: "client"}, conc.OpExt{}},
	}
	up := append([]variant{
		{"recreate", eng.Flags{}, conc.OpExt{Recreate: true}},
		{"via-upgrade", eng.Flags{}, conc.OpExt{ViaUpgrade: true}},
		{"reset-values", eng.Flags{}, conc.OpExt{ResetValues: true}},
		{"reuse-values", eng.Flags{}, conc.OpExt{ReuseValues: true}},
		{"reset-then-reuse", eng.Flags{}, conc.OpExt{ResetThenReuse: true}},
		{"cleanup", eng.Flags{Cleanup: true}, conc.OpExt{}},
		{"max-history", eng.Flags{MaxHistory: 5}, conc.OpExt{}},
		{"crds", eng.Flags{}, conc.OpExt{CRDs: true}},
	}, common...)
	in := append([]variant{
		{"replace", eng.Flags{Replace: true}, conc.OpExt{}},
		{"skip-crds", eng.Flags{}, conc.OpExt{SkipCRDs: true, CRDs: true}},
		{"crds", eng.Flags{}, conc.OpExt{CRDs: true}},
		{"create-namespace", eng.Flags{}, conc.OpExt{CreateNamespace: true}},
		{"crds+create-namespace+force", eng.Flags{}, conc.OpExt{CRDs: true, CreateNamespace: true, Force: true}},
	}, common...)
	var out []any
	for i, v := range up {
		out = append(out, conc.Case{Backend: c9backends[i%3], Pre: c9preOf(1), Note: "flag family: upgrade|upgrade+" + v.tag,
			Ops: []eng.Op{c9op("upgrade", 10, eng.Flags{}, "a"), c9op("upgrade", 11, v.f, "a", "b")}, Ext: c9x(c9none, v.x),
			Sched: []int{0, 0, 1, 1, 1, 1, 0, 0, 0}})
	}
	for i, v := range in {
		out = append(out, conc.Case{Backend: c9backends[(i+1)%3], Note: "flag family: install|install+" + v.tag,
			Ops: []eng.Op{c9op("install", 10, eng.Flags{}, "a"), c9op("install", 11, v.f, "b")}, Ext: c9x(c9none, v.x),
			Sched: []int{0, 0, 1, 1, 1, 1, 0, 0, 0}})
	}
	return out
}

func c9mixExhaustive(r *rand.Rand, tier string) []any {
	var out []any
	two := append(append(c9flagScns(), c9mixScns()...), c9pruneScns()...)
	three := append(c9mixThree(), c9pruneThree()...)
	if tier == "thorough" {
		// every interleaving of a two-operation scenario when there are at most 500, otherwise 500 sampled ones;
		// one backend per scenario, rotating (the base scenarios of c09.go run on all three)
		for i, s := range two {
			b := c9backends[i%len(c9backends)]
			for _, sch := range conc.Sample(r, conc.Interleavings(c9counts(s.mk(b, nil))), 500) {
				out = append(out, s.mk(b, sch))
			}
		}
		for i, s := range three {
			b := c9backends[(i+1)%len(c9backends)]
			for _, sch := range conc.Sample(r, conc.Bounded(c9counts(s.mk(b, nil)), 2), 500) {
				out = append(out, s.mk(b, sch))
			}
		}
		return out
	}
	for i, s := range two {
		b := c9backends[(i+2)%len(c9backends)]
		for _, sch := range conc.Sample(r, conc.Interleavings(c9counts(s.mk(b, nil))), 8) {
			out = append(out, s.mk(b, sch))
		}
	}
	for i, s := range three {
		b := c9backends[i%len(c9backends)]
		for _, sch := range conc.Sample(r, conc.Bounded(c9counts(s.mk(b, nil)), 2), 8) {
			out = append(out, s.mk(b, sch))
		}
	}
	return out
}

// ---------- generator ----------

// c9genMix decorates the generated concurrent operations: options outside the model, dry-run
// variants, --take-ownership; sometimes one participant becomes a rollback or an uninstall.
func c9genMix(r *rand.Rand, c *conc.Case, npre int) (notes []string) {
	c.Ext = make([]conc.OpExt, len(c.Ops))
	for i := range c.Ops {
		f := &c.Ops[i].Flags
		x := &c.Ext[i]
		if r.Intn(3) == 0 {
			x.Force = true
		}
		if r.Intn(4) == 0 {
			x.Recreate, x.ViaUpgrade = r.Intn(2) == 0, r.Intn(2) == 0
			x.SkipSchema, x.SubNotes, x.EnableDNS, x.NoValidate = r.Intn(2) == 0, r.Intn(2) == 0, r.Intn(3) == 0, r.Intn(2) == 0
			switch r.Intn(4) {
			case 0:
				x.ResetValues = true
			case 1:
				x.ReuseValues = true
			case 2:
				x.ResetThenReuse = true
			}
			x.SkipCRDs = r.Intn(2) == 0
			if r.Intn(3) == 0 {
				x.Label = "team"
			}
			if r.Intn(3) == 0 {
				x.Description = "d"
			}
		}
		if r.Intn(8) == 0 {
			f.TakeOwnership = true
		}
		if r.Intn(5) == 0 {
			x.CRDs = true
		}
		if c.Ops[i].Kind == "install" && r.Intn(8) == 0 {
			x.CreateNamespace = true
		}
		switch r.Intn(24) {
		case 0:
			f.DryRun = true
		case 1:
			f.DryRunOption = []string{"client", "server", "true"}[r.Intn(3)]
		}
	}
	// a mix: one participant (never all) is a rollback or an uninstall; needs a history
	if npre > 0 && r.Intn(7) == 0 {
		i := r.Intn(len(c.Ops))
		if r.Intn(2) == 0 && len(c.Pre) >= 2 {
			c.Ops[i] = eng.Op{Kind: "rollback", Flags: eng.Flags{NoHooks: r.Intn(4) == 0, Cleanup: r.Intn(4) == 0}}
			if r.Intn(3) == 0 {
				c.Ops[i].Flags.Version = 1
			}
		} else {
			c.Ops[i] = eng.Op{Kind: "uninstall", Flags: eng.Flags{KeepHistory: r.Intn(2) == 0, NoHooks: r.Intn(4) == 0}}
			c.Ext[i] = conc.OpExt{}
		}
		c.Ext[i].ViaUpgrade = false
		notes = append(notes, fmt.Sprintf("mix:%s@%d", c.Ops[i].Kind, i))
	}
	return notes
}

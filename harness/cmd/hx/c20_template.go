package main

// C20 exploration: the `helm template` path — a chart DIRECTORY on disk (mutated files,
// symbolic links incl. loops and special files, alias bombs and very deep YAML, templates
// that recurse through include / template / tpl) -> loader.Load -> action.Install with
// DryRun + ClientOnly, i.e. dependency processing, value computation with schema
// validation, rendering, manifest splitting/sorting and release assembly, all on the real code.

import (
	"fmt"
	"io"
	"math/rand"
	"os"
	"path/filepath"
	"runtime/debug"
	"strings"

	"helm.sh/helm/v4/pkg/action"
	"helm.sh/helm/v4/pkg/chart/v2/loader"
	chartutil "helm.sh/helm/v4/pkg/chart/v2/util"
	kubefake "helm.sh/helm/v4/pkg/kube/fake"
	"helm.sh/helm/v4/pkg/storage"
	"helm.sh/helm/v4/pkg/storage/driver"
)

// c20EngineRecursionMax mirrors engine.recursionMaxNums; the translator regenerates the
// constant into Gen/C20Tables.v and Props/C20.v pins it, so a change shows up there.
const c20EngineRecursionMax = 1000

func c20AliasBomb(levels, width int) string {
	var b strings.Builder
	b.WriteString("a0: &a0 [x,x,x,x,x,x,x,x,x]\n")
	for i := 1; i < levels; i++ {
		b.WriteString(fmt.Sprintf("a%d: &a%d [", i, i))
		for j := 0; j < width; j++ {
			if j > 0 {
				b.WriteString(",")
			}
			b.WriteString(fmt.Sprintf("*a%d", i-1))
		}
		b.WriteString("]\n")
	}
	return b.String()
}

func c20CountedRecursion(fn string, n int) string {
	switch fn {
	case "include":
		return fmt.Sprintf("{{- define \"cnt\" -}}{{ if gt (int .) 0 }}{{ include \"cnt\" (sub (int .) 1) }}{{ end }}x{{- end -}}\nv: {{ include \"cnt\" %d | len }}\n", n)
	case "tpl":
		return fmt.Sprintf("{{- define \"tcnt\" -}}{{ if gt (int .n) 0 }}{{ tpl \"{{ include \\\"tcnt\\\" (dict \\\"n\\\" (sub (int .n) 1) \\\"Template\\\" .Template) }}\" . }}{{ end }}x{{- end -}}\nv: {{ include \"tcnt\" (dict \"n\" %d \"Template\" .Template) | len }}\n", n)
	}
	return ""
}

// the extras: name -> what is added to / replaced in the chart directory
var c20TemplateExtras = []string{
	"none", "none", "tpl-self", "tpl-values-self", "include-self", "include-mutual", "template-self", "include-counted", "tpl-counted",
	"alias-bomb", "alias-bomb-small", "deep-flow", "deep-block", "many-docs", "long-scalar", "deep-json-schema",
	"symlink-loop-parent", "symlink-self", "symlink-dangling", "symlink-charts-loop", "symlink-dev-zero", "symlink-outside-dir", "symlink-file-ok",
	"big-range", "nested-range", "values-not-map", "templates-dir-file", "chart-yaml-dir", "crd-garbage", "notes-recursion", "helmignore-everything",
	// round 4 (appended: the corpus numbers its cases by position): tpl that re-enters tpl with a
	// text that differs from level to level, include / tpl feeding each other, include through many names
	"tpl-vary-counter", "tpl-vary-alternate", "tpl-vary-values", "tpl-include-mutual-vary", "include-cycle-names",
}

// c20KnownStackWitness: the extra that replays the known finding K10 (include x template); only in
// the corpus, never generated
const c20KnownStackWitness = "include-x-template"

var c20ExpensiveExtra = map[string]bool{"tpl-self": true, "tpl-values-self": true, "include-self": true, "include-mutual": true, "template-self": true,
	"include-counted": true, "tpl-counted": true, "notes-recursion": true, "deep-block": true,
	"tpl-vary-counter": true, "tpl-vary-alternate": true, "tpl-vary-values": true, "tpl-include-mutual-vary": true, "include-cycle-names": true}

// c20ApplyExtra writes the extra into the directory (files already written). seed drives the
// size choices so that the case replays.
func c20ApplyExtra(dir, extra string, seed int64) {
	r := rand.New(rand.NewSource(seed))
	w := func(name, content string) {
		p := filepath.Join(dir, filepath.FromSlash(name))
		os.MkdirAll(filepath.Dir(p), 0o755)
		os.Remove(p)
		os.WriteFile(p, []byte(content), 0o644)
	}
	around := func() int { return c20EngineRecursionMax + []int{-2, -1, 0, 1, 2, 3, 50}[r.Intn(7)] }
	switch extra {
	case "tpl-self":
		w("templates/t.yaml", "v: {{ tpl \"{{ tpl .Values.name . }}\" . }}\nw: {{ tpl .Values.selfref . }}\n")
		w("values.yaml", "replicas: 1\nname: x\nselfref: \"{{ tpl .Values.selfref . }}\"\n")
	case "tpl-values-self":
		w("templates/t.yaml", "v: {{ tpl (toYaml .Values) . }}\n")
		w("values.yaml", "replicas: 1\na: \"{{ tpl (toYaml .Values) . }}\"\n")
	case "include-self":
		w("templates/t.yaml", "{{- define \"r\" -}}{{ include \"r\" . }}{{- end -}}\nv: {{ include \"r\" . }}\n")
	case "include-mutual":
		w("templates/t.yaml", "{{- define \"a\" -}}{{ include \"b\" . }}{{- end -}}{{- define \"b\" -}}{{ tpl \"{{ include \\\"a\\\" . }}\" . }}{{- end -}}\nv: {{ include \"a\" . }}\n")
	case "template-self":
		w("templates/t.yaml", "{{- define \"r\" -}}{{ template \"r\" . }}{{- end -}}\nv: {{ template \"r\" . }}\n")
	case "include-counted":
		w("templates/t.yaml", c20CountedRecursion("include", around()))
	case "tpl-counted":
		w("templates/t.yaml", c20CountedRecursion("tpl", around()))
	case "alias-bomb":
		w("values.yaml", c20AliasBomb(9+r.Intn(4), 9))
	case "alias-bomb-small":
		w("values.yaml", "replicas: 1\n"+c20AliasBomb(3, 3))
	case "deep-flow":
		n := []int{100, 9999, 10001, 50000}[r.Intn(4)]
		w("values.yaml", "replicas: 1\nd: "+strings.Repeat("[", n)+strings.Repeat("]", n)+"\n")
	case "deep-block":
		var b strings.Builder
		b.WriteString("replicas: 1\n")
		for i := 0; i < 600+r.Intn(1500); i++ {
			b.WriteString(strings.Repeat(" ", i) + "k:\n")
		}
		w("values.yaml", b.String())
		w("templates/t.yaml", "v: {{ .Values.k | toYaml | len }}\nj: {{ .Values.k | toJson | len }}\n")
	case "many-docs":
		w("values.yaml", "replicas: 1\n"+strings.Repeat("---\na: 1\n", 500+r.Intn(1500)))
	case "long-scalar":
		w("values.yaml", "replicas: 1\nname: "+strings.Repeat("x", 200000+r.Intn(300000))+"\n")
	case "deep-json-schema":
		n := []int{50, 5000, 20000}[r.Intn(3)]
		w("values.schema.json", strings.Repeat(`{"properties":{"a":`, n)+"{}"+strings.Repeat("}}", n))
	case "symlink-loop-parent":
		os.Symlink("..", filepath.Join(dir, "templates", "loop"))
	case "symlink-self":
		os.Symlink("self", filepath.Join(dir, "self"))
	case "symlink-dangling":
		os.Symlink("/nonexistent/c20/x.yaml", filepath.Join(dir, "templates", "dangling.yaml"))
	case "symlink-charts-loop":
		os.MkdirAll(filepath.Join(dir, "charts"), 0o755)
		os.Symlink("../..", filepath.Join(dir, "charts", "loop"))
	case "symlink-dev-zero":
		os.Symlink("/dev/zero", filepath.Join(dir, "templates", "zero.yaml"))
	case "symlink-outside-dir":
		out := filepath.Join(filepath.Dir(dir), "outside")
		os.MkdirAll(out, 0o755)
		os.WriteFile(filepath.Join(out, "o.yaml"), []byte("kind: Secret\nmetadata:\n  name: {{ .Release.Name }}\n"), 0o644)
		os.Symlink(out, filepath.Join(dir, "templates", "linked"))
	case "symlink-file-ok":
		os.Symlink("cm.yaml", filepath.Join(dir, "templates", "cm2.yaml"))
	case "big-range":
		w("templates/t.yaml", "v: |\n{{- range $i := until 9000 }}\n  line {{ $i }}\n{{- end }}\n")
	case "nested-range":
		w("templates/t.yaml", "v: {{ range $i := until 300 }}{{ range $j := until 300 }}{{ end }}{{ end }}done\n")
	case "values-not-map":
		w("values.yaml", []string{"- a\n- b\n", "just a string\n", "42\n", "null\n", "~\n", "!!binary aGk=\n"}[r.Intn(6)])
	case "templates-dir-file":
		os.RemoveAll(filepath.Join(dir, "templates"))
		os.WriteFile(filepath.Join(dir, "templates"), []byte("not a directory"), 0o644)
	case "chart-yaml-dir":
		os.Remove(filepath.Join(dir, "Chart.yaml"))
		os.MkdirAll(filepath.Join(dir, "Chart.yaml"), 0o755)
	case "crd-garbage":
		w("crds/x.yaml", "\x00\x01\x02 not yaml: [\n---\n- a\n")
	case "notes-recursion":
		w("templates/NOTES.txt", "{{ tpl .Values.selfref . }}{{ include \"nope\" . }}\n")
		w("values.yaml", "replicas: 1\nselfref: \"{{ tpl .Values.selfref . }}\"\n")
	case "helmignore-everything":
		w(".helmignore", "*\n!Chart.yaml\n/\n**\n[\n")
	case "tpl-vary-counter":
		// every level hands tpl its own text behind a comment that counts: no two levels have the same text
		w("templates/t.yaml", "v: {{ tpl .Values.t (dict \"Values\" .Values \"n\" 0) }}\n")
		w("values.yaml", "replicas: 1\nt: '{{ tpl (printf \"{{/* %d */}}%s\" (int .n) .Values.t) (dict \"Values\" .Values \"n\" (add1 (int .n))) }}'\n")
	case "tpl-vary-alternate":
		w("templates/t.yaml", "v: {{ tpl .Values.ta . }}\n")
		w("values.yaml", "replicas: 1\nta: '{{ tpl .Values.tb . }}'\ntb: '{{ tpl .Values.ta . }}{{/* b */}}'\n")
	case "tpl-vary-values":
		// the text is built from .Values and grows by one blank per level
		w("templates/t.yaml", "v: {{ tpl .Values.t (dict \"Values\" .Values \"n\" 1) }}\n")
		w("values.yaml", "replicas: 1\nt: '{{ tpl (print .Values.t (repeat (int .n) \" \")) (dict \"Values\" .Values \"n\" (add1 (int .n))) }}'\n")
	case "tpl-include-mutual-vary":
		w("templates/t.yaml", "{{- define \"m\" -}}{{ tpl (printf \"{{/* %d */}}{{ include \\\"m\\\" (dict \\\"n\\\" %d) }}\" (int .n) (add1 (int .n))) . }}{{- end -}}\nv: {{ include \"m\" (dict \"n\" 0) }}\n")
	case "include-cycle-names":
		// witness of 55109f6: 200 templates that include each other in a cycle; per-name counting let
		// them nest 200 x 1001 deep, which ran out of stack
		var b strings.Builder
		n := 150 + r.Intn(100)
		for i := 0; i < n; i++ {
			b.WriteString(fmt.Sprintf("{{- define \"cy%d\" -}}{{ include \"cy%d\" . }}{{- end -}}\n", i, (i+1)%n))
		}
		b.WriteString("v: {{ include \"cy0\" . }}\n")
		w("templates/t.yaml", b.String())
	case c20KnownStackWitness:
		// known finding K10: include starts a fresh text/template state, so the library's own bound on
		// `template` nesting (100 000 per state) multiplies with the bound on include nesting
		w("templates/t.yaml", "{{- define \"a\" -}}{{ template \"b\" (dict \"n\" 1000) }}{{- end -}}\n"+
			"{{- define \"b\" -}}{{ if gt (int .n) 0 }}{{ template \"b\" (dict \"n\" (sub (int .n) 1)) }}{{ else }}{{ include \"a\" . }}{{ end }}{{- end -}}\n"+
			"v: {{ include \"a\" . }}\n")
	}
}

func c20RunTemplate(e *c20ExploreC, step *string) bool {
	base, _ := os.MkdirTemp("", "c20tpl")
	defer os.RemoveAll(base)
	dir := filepath.Join(base, "top")
	os.MkdirAll(dir, 0o755)
	c20WriteFiles(dir, e.Files)
	var seed int64
	for _, b := range e.Data {
		seed = seed<<8 | int64(b)
	}
	c20ApplyExtra(dir, e.Note, seed)
	if e.Note == c20KnownStackWitness {
		// the replay of a known crash need not fill the default 1 GB of goroutine stack (6 s and a
		// gigabyte on every run): a quarter of it shows the same unbounded growth.  The worker dies
		// with this case, the setting goes with it.
		debug.SetMaxStack(256 << 20)
	}
	*step = "loader.Load(dir)"
	chrt, err := loader.Load(dir)
	if err != nil {
		return false
	}
	cfg := &action.Configuration{Releases: storage.Init(driver.NewMemory()), KubeClient: &kubefake.PrintingKubeClient{Out: io.Discard},
		Capabilities: chartutil.DefaultCapabilities.Copy()}
	inst := action.NewInstall(cfg)
	inst.DryRun, inst.DryRunOption, inst.ClientOnly = true, "client", true
	inst.ReleaseName, inst.Namespace, inst.Replace, inst.IncludeCRDs = "rel", "default", true, true
	inst.SubNotes = seed%2 == 0
	*step = "action.Install dry-run client-only"
	_, err = inst.Run(chrt, map[string]interface{}{"replicas": 2})
	return err == nil
}

package main

// C14 round 5: numbers at the precision boundary of float64.  Helm keeps the numbers of
// values.yaml and of -f files as written (json.Number), --set gives int64, and the jsonschema
// library compares numbers as exact rationals (big.Rat from the spelling).  The catalogue below
// puts integers around 2^53, 2^63, 2^64, 10^21 and long decimals on both sides of
// maximum / minimum / exclusive bounds / const / enum / multipleOf / type:integer, with the verdict
// the drafts prescribe (plain arithmetic on the written number, no rounding), and sends them
// through the schema step alone, through the actions (value from values.yaml, from the user's map
// as json.Number / int64, from a subchart's section) and through the real commands (-f, --set).
// Closes seeded change C14-9 (values validated as a float64 copy).

import (
	"encoding/json"
	"fmt"
	"math/big"
)

func n(s string) json.Number { return json.Number(s) }

type c14NumTpl struct {
	Name   string
	Schema map[string]any
	Good   []string // number literals (JSON grammar)
	Bad    []string
}

const (
	p53   = "9007199254740992"    // 2^53
	p53p1 = "9007199254740993"    // 2^53 + 1: not a float64
	p53m1 = "9007199254740991"    // 2^53 - 1
	p53p2 = "9007199254740994"    // 2^53 + 2
	i63m  = "9223372036854775807" // 2^63 - 1 = MaxInt64
	i63   = "9223372036854775808" // 2^63
	n63   = "-9223372036854775808"
	n63m1 = "-9223372036854775809"
	u64m  = "18446744073709551615" // 2^64 - 1
	u64   = "18446744073709551616" // 2^64
	e21   = "1000000000000000000000"
	e21p1 = "1000000000000000000001"
	e21m1 = "999999999999999999999"
)

var c14NumTemplates = []c14NumTpl{
	{"maximum-2^53", o("type", "integer", "minimum", n("1"), "maximum", n(p53)), []string{p53, p53m1, "1"}, []string{p53p1, p53p2, i63m}},
	{"minimum-2^53+1", o("minimum", n(p53p1)), []string{p53p1, p53p2, i63m}, []string{p53, p53m1}},
	{"exclusiveMaximum-2^53+1", o("exclusiveMaximum", n(p53p1)), []string{p53, p53m1}, []string{p53p1, p53p2}},
	{"exclusiveMinimum-2^53", o("exclusiveMinimum", n(p53)), []string{p53p1, p53p2}, []string{p53, p53m1}},
	{"const-2^53+1", o("const", n(p53p1)), []string{p53p1}, []string{p53, p53p2}},
	{"enum-big", o("enum", l(n(p53p1), n(i63m), "x")), []string{p53p1, i63m}, []string{p53, p53p2, "9223372036854775806"}},
	{"multipleOf-3", o("multipleOf", n("3")), []string{p53p1, "9007199254740990", e21p1 + "1"}, []string{p53, p53p2, i63m + "0"}},
	{"maximum-MaxInt64", o("maximum", n(i63m)), []string{i63m, p53p1, n63}, []string{i63, u64}},
	{"minimum-MinInt64", o("minimum", n(n63)), []string{n63, "0"}, []string{n63m1, "-" + u64}},
	{"maximum-2^64-1", o("type", "integer", "maximum", n(u64m)), []string{u64m, i63}, []string{u64, e21}},
	{"maximum-1e21", o("maximum", n(e21)), []string{e21, e21m1, "1e21", "1.0e+21"}, []string{e21p1, "1.000000000000000000001e21"}},
	{"minimum-1e21-spelled-with-exponent", o("minimum", n("1e21")), []string{e21, e21p1, "10E20"}, []string{e21m1, "9.99999999999999999999e20"}},
	{"maximum-long-decimal", o("maximum", n("0.1234567890123456789")), []string{"0.1234567890123456789", "0.1234567890123456788", "0.12345678901234567890"}, []string{"0.1234567890123456790", "0.12345678901234567891"}},
	{"const-one", o("const", n("1")), []string{"1", "1.0", "1.000", "10e-1", "0.1E1"}, []string{"1.0000000000000000001", "0.9999999999999999999"}},
	{"const-1.0-in-schema", o("const", n("1.0")), []string{"1", "1.0"}, []string{"1.0000000000000000001", "2"}},
	{"type-integer-spellings", o("type", "integer"), []string{"1.0", "1e3", "12300e-2", p53p1, u64, "1.5e1"}, []string{"1.5", "1e-1", "123e-1", "0.1234567890123456789"}},
	{"multipleOf-0.01", o("multipleOf", n("0.01")), []string{"0.07", "1", "123456789012345678.91"}, []string{"0.075", "123456789012345678.915"}},
	{"minimum-exponent", o("minimum", n("1e3")), []string{"1000", "1E3", "10.0e2", "1000.0000000000000000"}, []string{"999.9999999999999999999", "99e1"}},
}

func numDoc(t *c14NumTpl, d c14Dialect) map[string]any {
	root := map[string]any{"type": "object", "properties": map[string]any{"k": t.Schema}}
	if d.URL != "" {
		root["$schema"] = d.URL
	}
	return root
}

// a plain integer literal that every path of Helm carries unchanged (values.yaml through the YAML
// reader, --set through strconv.ParseInt): at most MaxInt64 in magnitude
func fitsInt64(lit string) bool {
	z, ok := new(big.Int).SetString(lit, 10)
	return ok && z.IsInt64()
}

// c14ConvertNums gives the numbers of an exact value tree the dynamic type of their source:
// "number" = json.Number (values.yaml, -f files), "int64" = --set, "float64" = --set-json
func c14ConvertNums(v any, src string) any {
	switch x := v.(type) {
	case map[string]any:
		o := map[string]any{}
		for k, e := range x {
			o[k] = c14ConvertNums(e, src)
		}
		return o
	case []any:
		o := make([]any, len(x))
		for i, e := range x {
			o[i] = c14ConvertNums(e, src)
		}
		return o
	case json.Number:
		switch src {
		case "int64":
			if i, err := x.Int64(); err == nil {
				return i
			}
		case "float64":
			if f, err := x.Float64(); err == nil {
				return f
			}
		}
	}
	return v
}

// userVals: the user-supplied values of a case as Helm would hold them
func (c c14Case) userVals() map[string]any {
	if !c.Exact {
		return deepCopyVals(c.Vals)
	}
	m, _ := normJSONNumber(c.Vals).(map[string]any)
	if m == nil {
		m = map[string]any{}
	}
	m, _ = c14ConvertNums(m, c.NumSrc).(map[string]any)
	return m
}

func c14CopyVals(m map[string]any, exact bool) map[string]any {
	if !exact {
		return deepCopyVals(m)
	}
	o, _ := normJSONNumber(m).(map[string]any)
	if o == nil {
		o = map[string]any{}
	}
	return o
}

// c14NumCases: schema step for every template x {no $schema, draft-07} x literal x source, and the
// operations for a rotating placement; command layer for the 2^53 rows.
func c14NumCases(tier string) []any {
	var out []any
	rot := 0
	dialects := []c14Dialect{c14Dialects[0], c14Dialects[1]}
	if tier == "thorough" {
		dialects = c14Dialects
	}
	for ti := range c14NumTemplates {
		t := &c14NumTemplates[ti]
		for di, d := range dialects {
			lits := []struct {
				lit  string
				good bool
			}{}
			for _, s := range t.Good {
				lits = append(lits, struct {
					lit  string
					good bool
				}{s, true})
			}
			for _, s := range t.Bad {
				lits = append(lits, struct {
					lit  string
					good bool
				}{s, false})
			}
			for _, lv := range lits {
				why := fmt.Sprintf("num/%s/%s/%s/%s", t.Name, map[bool]string{true: "good", false: "bad"}[lv.good], lv.lit, dialectName(d))
				sch := func() *vSchema { return &vSchema{IsDoc: true, Doc: numDoc(t, d)} }
				expect := func(name string) []c14Expect { return []c14Expect{{Chart: name, Reject: !lv.good, Why: why}} }
				// the schema step alone, the number as json.Number and (when it fits) as int64
				srcs := []string{"number"}
				if fitsInt64(lv.lit) {
					srcs = append(srcs, "int64")
				}
				for _, src := range srcs {
					out = append(out, c14Case{Kind: "spec", Op: "schema-step", Exact: true, NumSrc: src, Tpl: why + "/" + src,
						Chart: &vChart{Name: "top", Version: "1.0.0", Schema: sch()}, Vals: o("k", n(lv.lit)), Expect: expect("top")})
				}
				// a float64 copy of the literal (what --set-json or an SDK caller holds): no verdict written down,
				// library and model are compared on the rounded number
				if di == 0 {
					out = append(out, c14Case{Kind: "spec", Op: "schema-step", Exact: true, NumSrc: "float64", Tpl: why + "/float64",
						Chart: &vChart{Name: "top", Version: "1.0.0", Schema: sch()}, Vals: o("k", n(lv.lit))})
				}
				if di > 0 && tier != "thorough" && lv.good {
					continue
				}
				// through an operation
				op := c14SpecOps[rot%len(c14SpecOps)]
				pl := (rot / len(c14SpecOps)) % 4
				rot++
				if !fitsInt64(lv.lit) && pl != 1 {
					pl = 1 // only the user's map (json.Number, as an SDK caller or a JSON -f file gives it) carries the literal unchanged
				}
				if op == "lint" && pl >= 2 {
					pl = pl % 2
				}
				c := c14Case{Kind: "spec", Op: op, Exact: true, NumSrc: "number", Tpl: why}
				name := "top"
				switch pl {
				case 0: // values.yaml
					c.Chart = &vChart{Name: "top", Version: "1.0.0", Values: o("k", n(lv.lit)), Schema: sch()}
					c.Vals = o()
				case 1: // the user's values, json.Number; every other time int64 (--set) when it fits
					c.Chart = &vChart{Name: "top", Version: "1.0.0", Values: o("other", 1.0), Schema: sch()}
					c.Vals = o("k", n(lv.lit))
					if fitsInt64(lv.lit) && rot%2 == 0 {
						c.NumSrc = "int64"
					}
				default: // subchart under the alias "web": its own values.yaml / the user's section
					sub := &vChart{Name: "sub", Version: "1.0.0", Values: o("other", 1.0), Schema: sch()}
					c.Chart = &vChart{Name: "top", Version: "1.0.0", Values: o("replicas", 1.0), Charts: []*vChart{sub},
						Deps: []vDep{{Name: "sub", Version: "1.0.0", Alias: "web"}}}
					c.Vals, name = o(), "web"
					if pl == 2 {
						sub.Values = o("k", n(lv.lit))
					} else {
						c.Vals = o("web", o("k", n(lv.lit)))
					}
				}
				c.Expect = expect(name)
				out = append(out, c)
			}
		}
	}
	// the commands: -f file with the number as written, --set (int64), --set-json (float64: no verdict written down)
	t := &c14NumTemplates[0]
	for _, op := range []string{"cmd-install", "cmd-upgrade-present", "cmd-template", "cmd-lint"} {
		for _, lv := range []struct {
			lit  string
			good bool
		}{{p53, true}, {p53p1, false}} {
			why := fmt.Sprintf("num/%s/%s/%s", t.Name, lv.lit, op)
			mk := func(how string) c14Case {
				c := c14Case{Kind: "spec", Op: op, Exact: true, NumSrc: "number", NoModel: true, Tpl: why + "/" + how,
					Chart: &vChart{Name: "top", Version: "1.0.0", Values: o("k", 1.0), Schema: &vSchema{IsDoc: true, Doc: numDoc(t, c14Dialects[0])}},
					Expect: []c14Expect{{Chart: "top", Reject: !lv.good, Why: why + "/" + how}}}
				c.Vals = o("k", n(lv.lit))
				switch how {
				case "--set":
					c.Flags, c.ViaFlag, c.NumSrc = []string{"--set", "k=" + lv.lit}, true, "int64"
				case "--set-json":
					// strvals decodes JSON without UseNumber: Helm itself holds the rounded float64, and renders it
					c.Flags, c.ViaFlag, c.NumSrc = []string{"--set-json", "k=" + lv.lit}, true, "float64"
					c.Expect = nil
				}
				return c
			}
			out = append(out, mk("-f"), mk("--set"), mk("--set-json"))
		}
	}
	return out
}

package main

// Translator tables for C08: the kind precedence tables, the hook event table, the hook
// annotation names, the document separator regexp and the NOTES suffix, read out of
// /repo's source with go/ast.  They become coq/Gen/KindOrder.v and coq/Gen/Events.v.

import (
	"fmt"
	"go/ast"
	"go/token"
	"strings"

	"verif/harness/internal/hx"
)

func init() {
	registerTable("KindOrder", genKindOrder)
	registerTable("Events", genEvents)
}

func genKindOrder(repo string) (string, error) {
	f, _, err := parseFile(repo, "pkg/release/util/kind_sorter.go")
	if err != nil {
		return "", err
	}
	inst, ok := varSlice(f, "InstallOrder")
	if !ok || len(inst) == 0 {
		return "", fmt.Errorf("InstallOrder not found as a literal slice")
	}
	unin, ok := varSlice(f, "UninstallOrder")
	if !ok || len(unin) == 0 {
		return "", fmt.Errorf("UninstallOrder not found as a literal slice")
	}
	return fmt.Sprintf("(* pkg/release/util/kind_sorter.go *)\nDefinition install_order : list string :=\n  %s.\n\nDefinition uninstall_order : list string :=\n  %s.\n",
		hx.CoqStrList(inst), hx.CoqStrList(unin)), nil
}

// allConstStrings: every `const X [T] = "lit"` of a file, name -> value.
func allConstStrings(f *ast.File) map[string]string {
	out := map[string]string{}
	for _, d := range f.Decls {
		gd, ok := d.(*ast.GenDecl)
		if !ok || gd.Tok != token.CONST {
			continue
		}
		for _, s := range gd.Specs {
			vs := s.(*ast.ValueSpec)
			for i, n := range vs.Names {
				if i < len(vs.Values) {
					if v, ok := strLit(vs.Values[i]); ok {
						out[n.Name] = v
					}
				}
			}
		}
	}
	return out
}

// selName: release.X -> X ; X -> X
func selName(e ast.Expr) (string, bool) {
	switch v := e.(type) {
	case *ast.SelectorExpr:
		return v.Sel.Name, true
	case *ast.Ident:
		return v.Name, true
	}
	return "", false
}

func genEvents(repo string) (string, error) {
	hf, _, err := parseFile(repo, "pkg/release/v1/hook.go")
	if err != nil {
		return "", err
	}
	consts := allConstStrings(hf)
	sf, _, err := parseFile(repo, "pkg/release/util/manifest_sorter.go")
	if err != nil {
		return "", err
	}
	// var events = map[string]release.HookEvent{ release.X.String(): release.X, "lit": release.Y }
	var keys, vals []string
	found := false
	for _, d := range sf.Decls {
		gd, ok := d.(*ast.GenDecl)
		if !ok || gd.Tok != token.VAR {
			continue
		}
		for _, s := range gd.Specs {
			vs := s.(*ast.ValueSpec)
			for i, n := range vs.Names {
				if n.Name != "events" || i >= len(vs.Values) {
					continue
				}
				cl, ok := vs.Values[i].(*ast.CompositeLit)
				if !ok {
					return "", fmt.Errorf("events is not a composite literal")
				}
				found = true
				for _, e := range cl.Elts {
					kv, ok := e.(*ast.KeyValueExpr)
					if !ok {
						return "", fmt.Errorf("events: element is not key: value")
					}
					var k string
					if s, ok := strLit(kv.Key); ok {
						k = s
					} else if call, ok := kv.Key.(*ast.CallExpr); ok {
						// release.HookX.String()
						sel, ok := call.Fun.(*ast.SelectorExpr)
						if !ok || sel.Sel.Name != "String" || len(call.Args) != 0 {
							return "", fmt.Errorf("events: unsupported key expression")
						}
						cn, ok := selName(sel.X)
						if !ok {
							return "", fmt.Errorf("events: unsupported key expression")
						}
						v, ok := consts[cn]
						if !ok {
							return "", fmt.Errorf("events: constant %s not found in hook.go", cn)
						}
						k = v
					} else {
						return "", fmt.Errorf("events: unsupported key expression")
					}
					vn, ok := selName(kv.Value)
					if !ok {
						return "", fmt.Errorf("events: unsupported value expression")
					}
					v, ok := consts[vn]
					if !ok {
						return "", fmt.Errorf("events: constant %s not found in hook.go", vn)
					}
					keys = append(keys, k)
					vals = append(vals, v)
				}
			}
		}
	}
	if !found || len(keys) == 0 {
		return "", fmt.Errorf("events table not found")
	}
	var b strings.Builder
	b.WriteString("From Helm Require Import Common.Strs.\n")
	fmt.Fprintf(&b, "(* pkg/release/util/manifest_sorter.go: events (annotation token -> hook event) *)\nDefinition hook_events : list (string * string) :=\n  %s.\n\n", coqPairs(keys, vals))
	for _, c := range [][2]string{
		{"HookAnnotation", "hook_annotation"}, {"HookWeightAnnotation", "hook_weight_annotation"},
		{"HookDeleteAnnotation", "hook_delete_annotation"}, {"HookOutputLogAnnotation", "hook_output_log_annotation"},
	} {
		v, ok := consts[c[0]]
		if !ok {
			return "", fmt.Errorf("constant %s not found in hook.go", c[0])
		}
		fmt.Fprintf(&b, "Definition %s : string := %s.\n", c[1], hx.CoqStr(v))
	}
	// the document separator: var sep = regexp.MustCompile("...") in manifest.go
	mf, _, err := parseFile(repo, "pkg/release/util/manifest.go")
	if err != nil {
		return "", err
	}
	sep := ""
	sepFound := false
	for _, d := range mf.Decls {
		gd, ok := d.(*ast.GenDecl)
		if !ok || gd.Tok != token.VAR {
			continue
		}
		for _, s := range gd.Specs {
			vs := s.(*ast.ValueSpec)
			for i, n := range vs.Names {
				if n.Name != "sep" || i >= len(vs.Values) {
					continue
				}
				if call, ok := vs.Values[i].(*ast.CallExpr); ok && len(call.Args) == 1 {
					if fn, ok := selName(call.Fun); ok && fn == "MustCompile" {
						if v, ok := strLit(call.Args[0]); ok {
							sep, sepFound = v, true
						}
					}
				}
			}
		}
	}
	if !sepFound {
		return "", fmt.Errorf("sep regexp not found in manifest.go")
	}
	fmt.Fprintf(&b, "\n(* pkg/release/util/manifest.go: sep = regexp.MustCompile(...) *)\nDefinition sep_regexp : string := %s.\n", hx.CoqStr(sep))
	// notesFileSuffix in pkg/action/install.go
	af, _, err := parseFile(repo, "pkg/action/install.go")
	if err != nil {
		return "", err
	}
	nfs, ok := allConstStrings(af)["notesFileSuffix"]
	if !ok {
		return "", fmt.Errorf("notesFileSuffix not found in install.go")
	}
	fmt.Fprintf(&b, "\n(* pkg/action/install.go *)\nDefinition notes_file_suffix : string := %s.\n", hx.CoqStr(nfs))
	// resource policy (uninstall keeps annotated resources): pkg/kube/resource_policy.go
	kf, _, err := parseFile(repo, "pkg/kube/resource_policy.go")
	if err != nil {
		return "", err
	}
	kc := allConstStrings(kf)
	for _, c := range [][2]string{{"ResourcePolicyAnno", "resource_policy_annotation"}, {"KeepPolicy", "keep_policy"}} {
		v, ok := kc[c[0]]
		if !ok {
			return "", fmt.Errorf("constant %s not found in resource_policy.go", c[0])
		}
		fmt.Fprintf(&b, "Definition %s : string := %s.\n", c[1], hx.CoqStr(v))
	}
	return b.String(), nil
}

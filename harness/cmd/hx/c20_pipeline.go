package main

// C20 exploration: what follows a successful chart load — dependency processing, value
// computation (with schema validation), rendering, splitting and sorting of the rendered
// manifests — all on the real code.

import (
	"encoding/json"

	chart "helm.sh/helm/v4/pkg/chart/v2"
	chartutil "helm.sh/helm/v4/pkg/chart/v2/util"
	"helm.sh/helm/v4/pkg/engine"
	releaseutil "helm.sh/helm/v4/pkg/release/util"
)

func c20JSONRoundTrip(v map[string]interface{}) map[string]interface{} {
	b, err := json.Marshal(v)
	if err != nil {
		return map[string]interface{}{}
	}
	out := map[string]interface{}{}
	json.Unmarshal(b, &out)
	return out
}

func c20PipelineChart(step *string, c *chart.Chart) {
	user := map[string]interface{}{"replicas": 2, "sub": map[string]interface{}{"enabled": true}, "tags": map[string]interface{}{"front": true}}
	*step = "chartutil.ProcessDependencies"
	if err := chartutil.ProcessDependencies(c, c20JSONRoundTrip(user)); err != nil {
		return
	}
	*step = "chartutil.ToRenderValues"
	vals, err := chartutil.ToRenderValues(c, c20JSONRoundTrip(user), chartutil.ReleaseOptions{Name: "rel", Namespace: "ns", IsInstall: true, Revision: 1}, nil)
	if err != nil {
		*step = "chartutil.ToRenderValuesWithSchemaValidation (skip)"
		vals, err = chartutil.ToRenderValuesWithSchemaValidation(c, c20JSONRoundTrip(user), chartutil.ReleaseOptions{Name: "rel", Namespace: "ns"}, nil, true)
		if err != nil {
			return
		}
	}
	*step = "Chart.CRDObjects"
	c.CRDObjects()
	*step = "engine.Render"
	files, err := engine.Render(c, vals)
	if err != nil {
		return
	}
	*step = "releaseutil.SortManifests (rendered)"
	releaseutil.SortManifests(files, chartutil.VersionSet{"v1"}, releaseutil.InstallOrder)
}

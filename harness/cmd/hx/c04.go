package main

// C04 — every value comes from the highest-precedence source that defines it.
// The real values.Options.MergeValues, loader.MergeMaps, chartutil.CoalesceValues /
// MergeValues / ToRenderValues / CoalesceTables / MergeTables and the strvals parsers are run
// on generated trees, chart trees, flag mixtures and --set strings; what they return goes to
// the Coq models (Values/Merge.v, Coalesce.v, Strvals.v, Options.v) through Run/RunC04.v.

import (
	"encoding/hex"
	"encoding/json"
	"fmt"
	"io"
	"log"
	"math/rand"
	"os"
	"path/filepath"
	"sort"
	"strings"

	"sigs.k8s.io/yaml"

	chart "helm.sh/helm/v4/pkg/chart/v2"
	"helm.sh/helm/v4/pkg/chart/v2/loader"
	chartutil "helm.sh/helm/v4/pkg/chart/v2/util"
	"helm.sh/helm/v4/pkg/cli/values"
	"helm.sh/helm/v4/pkg/getter"

	"verif/harness/internal/hx"
)

func init() {
	hx.Register("c04", func() hx.Property {
		log.SetOutput(io.Discard) // coalesce.go warns through log.Printf
		return &c04{}
	})
}

type c04 struct{}

type c04Chart struct {
	Name   string      `json:"name"`
	Values vtree       `json:"values"`
	Deps   []*c04Chart `json:"deps,omitempty"`
}

type c04Case struct {
	Kind string `json:"kind"` // files mergemaps coalesce tables opts parse
	// files
	Files []vtree `json:"files,omitempty"`
	// mergemaps / tables
	A     vtree `json:"a,omitempty"`
	B     vtree `json:"b,omitempty"`
	Merge bool  `json:"merge,omitempty"`
	// coalesce
	API   string    `json:"api,omitempty"` // CoalesceValues MergeValues ToRenderValues
	Chart *c04Chart `json:"chart,omitempty"`
	Vals  vtree     `json:"vals,omitempty"`
	// opts: flag mixture through values.Options.MergeValues; parse: one strvals entry point
	Opts  *c04Opts  `json:"opts,omitempty"`
	Parse *c04Parse `json:"parse,omitempty"`
	// upgrade: install + upgrade with a reuse flag (caller's map and chart afterwards)
	Upgrade *c04Upgrade `json:"upgrade,omitempty"`
	Tag     string      `json:"tag,omitempty"` // generator stream, for the distribution table
}

type c04Obs struct {
	Err     string       `json:"err,omitempty"` // "" | "error"
	Out     interface{}  `json:"out,omitempty"`
	Panic   string       `json:"panic,omitempty"`
	Mutated []string     `json:"mutated,omitempty"` // inputs that differ from their snapshot afterwards
	Steps   []c04OptStep `json:"steps,omitempty"`   // opts: the result after each flag (frame oracle)
	RCalls  []c04RCall   `json:"rcalls,omitempty"`  // parse (round 4): every call of the reader callback
	Probed  []c04Probed  `json:"probed,omitempty"`  // parse (round 4): the deep paths observed
}

func (*c04) ID() string { return "C04" }
func (*c04) CoqImport() string {
	return "From Helm Require Import Values.Tree Values.Coalesce Values.Strvals Values.Strvals2 Values.Options Run.RunC04."
}
func (*c04) Rule() string {
	return "trees of depth <= 4 over a 5-key alphabet plus odd keys (dotted, spaced, non-ASCII, 'global'), with nulls, lists, " +
		"empty tables and table<->scalar clashes between sources; kinds: files (2-4 -f files through Options.MergeValues), " +
		"mergemaps, coalesce (chart trees up to 3 levels x user values through CoalesceValues/MergeValues/ToRenderValues), " +
		"tables (CoalesceTables/MergeTables), upgrade (install + upgrade with --reuse-values/--reset-then-reuse-values through the real actions: " +
		"recorded Config, caller's map and chart afterwards), opts (mixtures of -f/--set-json/--set/--set-string/--set-file/--set-literal through " +
		"Options.MergeValues: a 'simple' stream of single path=value flags over a shared pool of paths, and a 'rich' stream of generated trees " +
		"and grammar expressions), parse (ParseInto/ParseIntoString/ParseJSON/ParseLiteralInto/ParseIntoFile on a non-empty dest: grammar stream " +
		"with escaped keys, indexes, brace lists, typed literals; hand-written edge cases; malformed stream over a 20-symbol alphabet; " +
		"round 4, through the second model Values/Strvals2.v: p2-nested (list indexes nested to depth >= 3), p2-index-bounds (MaxIndex+1, negative, signed, leading zeros, non-numeric, beyond int64; " +
		"MaxIndex itself through deep-path probes), p2-escapes-at-index, p2-literal (values over the whole metacharacter alphabet), p2-json (objects/arrays/scalars at nested paths, non-ASCII blanks), " +
		"p2-file (multi-line contents, brace lists of paths), p2-callback (a RunesValueReader returning typed values, tables, nil and errors), p2-fresh-map (Parse/ParseString/ParseLiteral/ParseFile), " +
		"p2-ill-formed-utf8, p2-empty-key, p2-malformed (all five parsers), every string of length <= 3 over 'a . = , [ ] 0 \\' through the literal parser); " +
		"non-trivial = no error and (at least two sources define a common path | flags from >= 2 families | the parse changed a non-empty dest); " +
		"distinct = hash of (case, observation)"
}

func (*c04) Corpus() []any {
	var out []any
	// null removes a default, nested tables merge, scalar replaces table and back
	ch := &c04Chart{Name: "top", Values: vtree{"a": vtree{"x": int64(1), "y": int64(2)}, "b": "keep", "c": vtree{"z": true}, "n": nil}}
	vals := vtree{"a": vtree{"x": nil, "w": "new"}, "c": "scalar", "d": nil}
	for _, api := range []string{"CoalesceValues", "MergeValues", "ToRenderValues"} {
		out = append(out, c04Case{Kind: "coalesce", API: api, Chart: ch, Vals: vals, Tag: "corpus"})
	}
	// subchart: parent section wins over subchart default; globals flow down; type mismatch on the subchart key
	sub := &c04Chart{Name: "sub", Values: vtree{"p": int64(1), "q": vtree{"r": "s"}, "global": vtree{"g": "sub", "t": vtree{"own": int64(1)}}}}
	top := &c04Chart{Name: "top", Values: vtree{"sub": vtree{"p": int64(2)}, "global": vtree{"g": "top", "t": vtree{"up": int64(2)}}}, Deps: []*c04Chart{sub}}
	out = append(out, c04Case{Kind: "coalesce", API: "CoalesceValues", Chart: top, Vals: vtree{"sub": vtree{"q": vtree{"r": nil}}}, Tag: "corpus"})
	out = append(out, c04Case{Kind: "coalesce", API: "CoalesceValues", Chart: top, Vals: vtree{"sub": "oops"}, Tag: "corpus"})
	// F8 witness (fixed in /repo): a subchart's nested global must not leak to the parent and the sibling
	out = append(out, c04Case{Kind: "coalesce", API: "CoalesceValues", Tag: "corpus",
		Chart: &c04Chart{Name: "top", Values: vtree{"global": vtree{"a": vtree{"b": vtree{"x": int64(1)}}}},
			Deps: []*c04Chart{{Name: "sub1", Values: vtree{}}, {Name: "sub2", Values: vtree{}}}},
		Vals: vtree{"sub1": vtree{"global": vtree{"a": vtree{"b": vtree{"y": int64(2)}}}}}})
	out = append(out, c04Case{Kind: "coalesce", API: "CoalesceValues", Chart: &c04Chart{Name: "top", Deps: []*c04Chart{sub}}, Vals: vtree{"sub": nil}, Tag: "corpus"})
	out = append(out, c04Case{Kind: "files", Files: []vtree{{"a": vtree{"x": int64(1), "y": int64(2)}, "l": []interface{}{int64(1), int64(2)}},
		{"a": vtree{"x": nil}, "l": []interface{}{int64(3)}}, {"a": "flat"}, {"a": vtree{"k": "v"}}}, Tag: "corpus"})
	out = append(out, c04Case{Kind: "tables", Merge: false, A: vtree{"a": nil, "b": vtree{"c": nil}, "n": nil}, B: vtree{"a": int64(1), "b": vtree{"c": int64(2), "d": int64(3)}}, Tag: "corpus"})
	// every hand-written --set edge case, on an empty and on a populated destination, through each parser
	for _, fn := range []string{"ParseInto", "ParseIntoString", "ParseLiteralInto", "ParseJSON"} {
		for _, h := range c04Hand {
			out = append(out, c04Case{Kind: "parse", Tag: "corpus-parse", Parse: &c04Parse{Fn: fn, S: h, Dest: vtree{}}})
			out = append(out, c04Case{Kind: "parse", Tag: "corpus-parse", Parse: &c04Parse{Fn: fn, S: h,
				Dest: vtree{"a": []interface{}{int64(5), []interface{}{int64(6)}, vtree{"b": int64(1)}}, "b": vtree{"c": "x"}}}})
			out = append(out, c04Case{Kind: "parse", Tag: "corpus-parse", Parse: &c04Parse{Fn: fn, S: h, Dest: vtree{"a": vtree{"b": vtree{"k": int64(1)}}, "c": nil}}})
		}
	}
	// witness of the fixed strvals defect: an empty value ending the input after a list index
	for _, w := range []struct {
		s    string
		path []c04Seg
	}{{"a[0].d=", []c04Seg{{Key: "a", Idx: []int{0}}, {Key: "d"}}}, {"a[1][0].d=", []c04Seg{{Key: "a", Idx: []int{1, 0}}, {Key: "d"}}},
		{"b.l[1].k=", []c04Seg{{Key: "b"}, {Key: "l", Idx: []int{1}}, {Key: "k"}}}} {
		for _, fn := range []string{"ParseInto", "ParseIntoString"} {
			out = append(out, c04Case{Kind: "parse", Tag: "corpus-parse", Parse: &c04Parse{Fn: fn, S: w.s, Dest: vtree{"z": int64(1)},
				Pairs: []c04Pair{{Path: w.path, Val: ""}}}})
		}
	}
	// witnesses on the upgrade path: the caller's map (fixed in /repo) and the caller's chart
	// (known finding K-C04-1) after an upgrade with a reuse flag
	for _, reuse := range []bool{true, false} {
		out = append(out, c04Case{Kind: "upgrade", Tag: "corpus-upgrade", Upgrade: &c04Upgrade{Reuse: reuse,
			Chart1: &c04Chart{Name: "c", Values: vtree{"a": int64(1), "t": vtree{"x": "d1"}}},
			Vals1:  vtree{"u": "keep", "t": vtree{"y": "user"}},
			Chart2: &c04Chart{Name: "c", Values: vtree{"a": int64(2), "m": "new"}},
			Vals2:  vtree{"t": vtree{"z": "now"}, "n": nil}}})
	}
	// all six families on one path, and each adjacent pair of families
	p1, p2 := c04FilePath("from-file"), c04FilePath("F")
	out = append(out, c04Case{Kind: "opts", Tag: "corpus-opts", Opts: &c04Opts{Files: []vtree{{"a": "file1", "k": vtree{"x": int64(1)}}, {"a": "file2"}},
		JSON: []string{`{"a":"json"}`}, Set: []string{"a=set,k.y=2"}, SetString: []string{"a=str"}, SetFile: []string{"a=" + p1}, Literal: []string{"a=lit"},
		Contents: map[string]string{p1: "from-file"}}})
	// the frame of an indexed flag over a list a lower source defined (seeded C04-4)
	for _, fam := range []string{"set", "string", "literal", "json"} {
		o := &c04Opts{Files: []vtree{{"servers": []interface{}{vtree{"port": int64(8080), "name": "a"}, vtree{"port": int64(8081)}}, "keep": "k"}}}
		path := []c04Seg{{Key: "servers", Idx: []int{1}}, {Key: "port"}}
		switch fam {
		case "set":
			o.Set = []string{"servers[1].port=9"}
		case "string":
			o.SetString = []string{"servers[1].port=9"}
		case "literal":
			o.Literal = []string{"servers[1].port=9"}
		case "json":
			o.JSON = []string{"servers[1].port=9"}
		}
		o.name(fam, 0, path)
		out = append(out, c04Case{Kind: "opts", Tag: "corpus-opts", Opts: o})
	}
	// false-alarm witness of the first flag-frame clause: b[0] is a list, "b[0].name=x" needs a table
	// there and replaces it (strvals "indices out of order"); b[1] must stay
	{
		o := &c04Opts{Files: []vtree{{"b": []interface{}{[]interface{}{nil, "x"}, vtree{"keep": int64(1)}}}}, SetString: []string{"b[0].name=x"}}
		o.name("string", 0, []c04Seg{{Key: "b", Idx: []int{0}}, {Key: "name"}})
		out = append(out, c04Case{Kind: "opts", Tag: "corpus-opts", Opts: o})
	}
	// false-alarm witness of flag-frame (round 4, thorough tier): after "x=1 , d=…" the second pair
	// names " d" (the blank after the comma is part of the key), not "d"
	{
		o := &c04Opts{Files: []vtree{{"d": ""}}, JSON: []string{"b=false , d=[null]", "x= , d=[{\"k\":\"v\"}]"}}
		o.name("json", 0, []c04Seg{{Key: "b"}}, []c04Seg{{Key: " d"}})
		o.name("json", 1, []c04Seg{{Key: "x"}}, []c04Seg{{Key: " d"}})
		out = append(out, c04Case{Kind: "opts", Tag: "corpus-opts", Opts: o})
	}
	fams := []string{"file", "json", "set", "string", "setfile", "literal"}
	for i := 0; i < len(fams); i++ {
		for j := i + 1; j < len(fams); j++ {
			o := &c04Opts{Contents: map[string]string{p2: "F"}}
			for _, f := range []string{fams[i], fams[j]} {
				switch f {
				case "file":
					o.Files = append(o.Files, vtree{"a": vtree{"b": "f"}})
				case "json":
					o.JSON = append(o.JSON, `a.b="j"`)
				case "set":
					o.Set = append(o.Set, "a.b=1")
				case "string":
					o.SetString = append(o.SetString, "a.b=2")
				case "setfile":
					o.SetFile = append(o.SetFile, "a.b="+p2)
				case "literal":
					o.Literal = append(o.Literal, "a.b=L,x")
				}
			}
			out = append(out, c04Case{Kind: "opts", Tag: "corpus-opts", Opts: o})
		}
	}
	out = append(out, c04Case{Kind: "tables", Merge: true, A: vtree{"a": nil, "b": vtree{"c": nil}}, B: vtree{"a": int64(1), "b": vtree{"c": int64(2), "d": int64(3)}}, Tag: "corpus"})
	out = append(out, c04Corpus2()...)
	return out
}

// Exhaustive: every string over a 9-symbol alphabet up to a length (2 quick, 4 thorough)
// through the --set parsers on a destination that has a table, a list and a scalar.
func (*c04) Exhaustive(tier string) []any {
	alpha := []string{"a", ".", "=", ",", "[", "]", "0", "{", "}"}
	maxLen, fns := 2, []string{"ParseInto"}
	if tier == "thorough" {
		maxLen, fns = 4, []string{"ParseInto", "ParseLiteralInto", "ParseJSON"}
	}
	dest := vtree{"a": vtree{"a": int64(1)}, "0": []interface{}{"x"}}
	var out []any
	var rec func(prefix string, n int)
	rec = func(prefix string, n int) {
		for _, fn := range fns {
			out = append(out, c04Case{Kind: "parse", Tag: "exhaustive-parse", Parse: &c04Parse{Fn: fn, S: prefix, Dest: dest}})
		}
		if n == 0 {
			return
		}
		for _, c := range alpha {
			rec(prefix+c, n-1)
		}
	}
	rec("", maxLen)
	out = append(out, c04Exhaustive2(tier)...)
	return out
}

func c04GenChart(r *rand.Rand, name string, levels int, base vtree) *c04Chart {
	c := &c04Chart{Name: name}
	switch r.Intn(8) {
	case 0:
		c.Values = nil
	case 1, 2:
		c.Values = vtGenMap(r, 2, 1+r.Intn(4))
	default:
		c.Values = vtMutate(r, base, 3)
	}
	if levels > 0 {
		n := r.Intn(3)
		if name == "top" {
			n = 1 + r.Intn(2)
		}
		names := []string{"sub", "dep", "a", "b"}
		r.Shuffle(len(names), func(i, j int) { names[i], names[j] = names[j], names[i] })
		for i := 0; i < n; i++ {
			sb := base
			if m, ok := base[names[i]].(vtree); ok {
				sb = m
			}
			c.Deps = append(c.Deps, c04GenChart(r, names[i], levels-1, sb))
		}
		// the parent's own section for a subchart, and globals
		if c.Values != nil && len(c.Deps) > 0 && r.Intn(2) == 0 {
			if r.Intn(8) == 0 {
				c.Values[c.Deps[0].Name] = vtGenVal(r, 2)
			} else {
				c.Values[c.Deps[0].Name] = vtGenMap(r, 2, 1+r.Intn(3))
			}
		}
		if c.Values != nil && r.Intn(3) == 0 {
			c.Values["global"] = vtGenVal(r, 2)
		}
	}
	return c
}

func (*c04) Generate(r *rand.Rand, _ int) any {
	base := vtGenMap(r, 3, 2+r.Intn(4))
	switch k := r.Intn(40); {
	case k < 2:
		return c04GenUpgrade(r, base)
	case k < 10:
		return c04GenOpts(r, base)
	case k < 20:
		return c04GenParse(r, base)
	case k < 28:
		return c04GenParse2(r, base)
	}
	switch k := r.Intn(20); {
	case k < 5:
		c := c04Case{Kind: "files", Tag: "files"}
		n := 2 + r.Intn(3)
		for i := 0; i < n; i++ {
			if r.Intn(6) == 0 {
				c.Files = append(c.Files, vtGenMap(r, 3, 1+r.Intn(3)))
			} else {
				c.Files = append(c.Files, vtMutate(r, base, 3))
			}
		}
		return c
	case k < 7:
		return c04Case{Kind: "mergemaps", A: base, B: vtMutate(r, base, 3), Tag: "mergemaps"}
	case k < 10:
		return c04Case{Kind: "tables", Merge: r.Intn(2) == 0, A: vtMutate(r, base, 3), B: base, Tag: "tables"}
	default:
		levels := 0
		if r.Intn(2) == 0 {
			levels = 1 + r.Intn(3)
		}
		ch := c04GenChart(r, "top", levels, base)
		vals := vtMutate(r, base, 3)
		if r.Intn(10) == 0 {
			vals = nil
		}
		// user sections for subcharts: tables (often), scalars and nulls (sometimes)
		for _, d := range ch.Deps {
			switch r.Intn(12) {
			case 0:
				vals = c04Set(vals, d.Name, vtScalar(r))
			case 1, 2, 3, 4, 5, 6:
				dv := d.Values
				if dv == nil {
					dv = vtree{}
				}
				vals = c04Set(vals, d.Name, vtMutate(r, dv, 2))
			}
		}
		if r.Intn(3) == 0 {
			vals = c04Set(vals, "global", vtGenVal(r, 2))
		}
		// nested global tables at several levels at once (parent defaults, user values, the
		// user's section for a subchart, the subchart's own defaults): the shapes where a
		// shallow copy in coalesceGlobals shows (F8)
		if len(ch.Deps) > 0 && r.Intn(3) == 0 {
			g := vtree{"a": vtree{"b": vtree{"x": int64(1)}, "s": "g"}, vtKey(r): vtGenVal(r, 2)}
			if ch.Values == nil {
				ch.Values = vtree{}
			}
			if r.Intn(2) == 0 {
				ch.Values["global"] = vtMutate(r, g, 3)
			}
			vals = c04Set(vals, "global", vtMutate(r, g, 3))
			for _, d := range ch.Deps {
				if r.Intn(2) == 0 {
					if d.Values == nil {
						d.Values = vtree{}
					}
					d.Values["global"] = vtMutate(r, g, 3)
				}
				if sec, ok := vals[d.Name].(vtree); ok && r.Intn(2) == 0 {
					sec["global"] = vtMutate(r, g, 3)
				} else if r.Intn(3) == 0 {
					vals[d.Name] = vtree{"global": vtMutate(r, g, 3)}
				}
			}
		}
		api := []string{"CoalesceValues", "CoalesceValues", "MergeValues", "ToRenderValues"}[r.Intn(4)]
		tag := "coalesce-single"
		if len(ch.Deps) > 0 {
			tag = "coalesce-subcharts"
		}
		return c04Case{Kind: "coalesce", API: api, Chart: ch, Vals: vals, Tag: tag}
	}
}

func c04Set(m vtree, k string, v interface{}) vtree {
	if m == nil {
		m = vtree{}
	}
	m[k] = v
	return m
}

func c04NormChart(c *c04Chart) {
	if c == nil {
		return
	}
	if c.Values != nil {
		c.Values = vtNorm(c.Values).(vtree)
	}
	for _, d := range c.Deps {
		c04NormChart(d)
	}
}

func c04NormMap(m vtree) vtree {
	if m == nil {
		return nil
	}
	return vtNorm(m).(vtree)
}

func (*c04) Decode(raw json.RawMessage) (any, error) {
	var c c04Case
	if err := vtDecode(raw, &c); err != nil {
		return nil, err
	}
	for i := range c.Files {
		c.Files[i] = c04NormMap(c.Files[i])
	}
	c.A, c.B, c.Vals = c04NormMap(c.A), c04NormMap(c.B), c04NormMap(c.Vals)
	c04NormChart(c.Chart)
	if c.Opts != nil {
		for i := range c.Opts.Files {
			c.Opts.Files[i] = c04NormMap(c.Opts.Files[i])
		}
		for i := range c.Opts.Assign {
			c.Opts.Assign[i].Val = vtNorm(c.Opts.Assign[i].Val)
		}
	}
	if c.Upgrade != nil {
		c.Upgrade.Vals1, c.Upgrade.Vals2 = c04NormMap(c.Upgrade.Vals1), c04NormMap(c.Upgrade.Vals2)
		c04NormChart(c.Upgrade.Chart1)
		c04NormChart(c.Upgrade.Chart2)
	}
	if c.Parse != nil {
		c.Parse.Dest = c04NormMap(c.Parse.Dest)
		for i := range c.Parse.Pairs {
			c.Parse.Pairs[i].Val = vtNorm(c.Parse.Pairs[i].Val)
		}
		if c.Parse.SHex != "" {
			if b, err := hex.DecodeString(c.Parse.SHex); err == nil {
				c.Parse.S = string(b)
			}
		}
		for i := range c.Parse.ProbeWant {
			c.Parse.ProbeWant[i].Val = vtNorm(c.Parse.ProbeWant[i].Val)
		}
		for k, rv := range c.Parse.Reader {
			rv.Val = vtNorm(rv.Val)
			c.Parse.Reader[k] = rv
		}
	}
	return c, nil
}

func (c *c04Chart) build() *chart.Chart {
	ch := &chart.Chart{Metadata: &chart.Metadata{Name: c.Name, Version: "0.1.0", APIVersion: "v2"}, Values: vtCopyMap(c.Values)}
	for _, d := range c.Deps {
		ch.AddDependency(d.build())
	}
	return ch
}

// c04ChartDiff reports which charts' stored defaults differ from the description they were built from.
func c04ChartDiff(c *c04Chart, ch *chart.Chart, path string) []string {
	var out []string
	if !vtEqual(c.Values, ch.Values) || (c.Values == nil) != (ch.Values == nil) {
		out = append(out, "chart-defaults:"+path+c.Name)
	}
	ds := ch.Dependencies()
	if len(ds) != len(c.Deps) {
		return append(out, "chart-deps:"+path+c.Name)
	}
	for i, d := range c.Deps {
		out = append(out, c04ChartDiff(d, ds[i], path+c.Name+"/")...)
	}
	return out
}

func (*c04) Execute(ci any) (res any) {
	c := ci.(c04Case)
	obs := c04Obs{}
	defer func() {
		if p := recover(); p != nil {
			obs.Panic = fmt.Sprint(p)
			res = obs
		}
	}()
	switch c.Kind {
	case "files":
		dir, err := os.MkdirTemp("", "c04-")
		if err != nil {
			obs.Panic = "tempdir: " + err.Error()
			return obs
		}
		defer os.RemoveAll(dir)
		opts := values.Options{}
		for i, f := range c.Files {
			b, err := yaml.Marshal(f)
			if err != nil {
				obs.Panic = "yaml: " + err.Error()
				return obs
			}
			p := filepath.Join(dir, fmt.Sprintf("v%d.yaml", i))
			if err := os.WriteFile(p, b, 0o644); err != nil {
				obs.Panic = "write: " + err.Error()
				return obs
			}
			opts.ValueFiles = append(opts.ValueFiles, p)
		}
		m, err := opts.MergeValues(getter.Providers{})
		if err != nil {
			obs.Err = "error"
		} else {
			obs.Out = m
		}
	case "upgrade":
		c04ExecUpgrade(c.Upgrade, &obs)
	case "opts":
		c04ExecOpts(c.Opts, &obs)
	case "parse":
		if c.Parse.V2 {
			c04ExecParse2(c.Parse, &obs)
		} else {
			c04ExecParse(c.Parse, &obs)
		}
	case "mergemaps":
		a, b := vtCopyMap(c.A), vtCopyMap(c.B)
		obs.Out = loader.MergeMaps(a, b)
		if !vtEqual(a, c.A) {
			obs.Mutated = append(obs.Mutated, "caller-map:a")
		}
		if !vtEqual(b, c.B) {
			obs.Mutated = append(obs.Mutated, "caller-map:b")
		}
	case "tables":
		dst, src := vtCopyMap(c.A), vtCopyMap(c.B)
		if c.Merge {
			obs.Out = chartutil.MergeTables(dst, src)
		} else {
			obs.Out = chartutil.CoalesceTables(dst, src)
		}
		// dst is the documented destination; src is only read
		if !vtEqual(src, c.B) {
			obs.Mutated = append(obs.Mutated, "caller-map:src")
		}
	case "coalesce":
		ch := c.Chart.build()
		vals := vtCopyMap(c.Vals)
		var out map[string]interface{}
		var err error
		switch c.API {
		case "MergeValues":
			var v chartutil.Values
			v, err = chartutil.MergeValues(ch, vals)
			out = v
		case "ToRenderValues":
			var top chartutil.Values
			top, err = chartutil.ToRenderValues(ch, vals, chartutil.ReleaseOptions{Name: "r", Namespace: "ns", Revision: 1, IsInstall: true}, nil)
			if err == nil {
				switch v := top["Values"].(type) {
				case chartutil.Values:
					out = v
				case map[string]interface{}:
					out = v
				default:
					obs.Panic = fmt.Sprintf("ToRenderValues: Values has type %T", top["Values"])
				}
			}
		default:
			var v chartutil.Values
			v, err = chartutil.CoalesceValues(ch, vals)
			out = v
		}
		if err != nil {
			obs.Err = "error"
		} else {
			obs.Out = out
		}
		// snapshots: the chart's stored defaults and the caller's map must be as before
		obs.Mutated = append(obs.Mutated, c04ChartDiff(c.Chart, ch, "")...)
		if !vtEqual(vals, c.Vals) || (vals == nil) != (c.Vals == nil) {
			obs.Mutated = append(obs.Mutated, "caller-map:vals")
		}
		// and a second call on the same chart must give the same answer (nothing leaked into it)
		if err == nil {
			var again map[string]interface{}
			var err2 error
			switch c.API {
			case "MergeValues":
				again, err2 = chartutil.MergeValues(ch, vtCopyMap(c.Vals))
			default:
				again, err2 = chartutil.CoalesceValues(ch, vtCopyMap(c.Vals))
			}
			if err2 != nil || !vtEqual(again, out) {
				obs.Mutated = append(obs.Mutated, "second-call-differs")
			}
		}
	default:
		obs.Panic = "unknown kind " + c.Kind
	}
	return obs
}

func c04CoqChart(c *c04Chart) string {
	ds := make([]string, len(c.Deps))
	for i, d := range c.Deps {
		ds[i] = c04CoqChart(d)
	}
	return fmt.Sprintf("(mkChart %s %s %s)", hx.CoqStr(c.Name), hx.CoqValMap(c.Values), hx.CoqList(ds))
}

func c04CoqRes(o c04Obs) string {
	if o.Err != "" || o.Panic != "" {
		return "RErr"
	}
	if o.Out == nil {
		return "(ROk (VMap []))"
	}
	return "(ROk " + hx.CoqVal(o.Out) + ")"
}

func (*c04) CoqCase(ci, oi any) string {
	c, obs := ci.(c04Case), oi.(c04Obs)
	switch c.Kind {
	case "files":
		fs := make([]string, len(c.Files))
		for i, f := range c.Files {
			fs[i] = hx.CoqValMap(f)
		}
		return fmt.Sprintf("CFiles %s %s", hx.CoqList(fs), c04CoqRes(obs))
	case "upgrade":
		return c04CoqUpgrade(c.Upgrade, c04CoqRes(obs))
	case "opts":
		return fmt.Sprintf("COpts %s %s", c04CoqOpts(c.Opts), c04CoqRes(obs))
	case "parse":
		if c.Parse.V2 {
			return c04CoqParse2(c.Parse, obs)
		}
		return c04CoqParse(c.Parse, c04CoqParseRes(obs))
	case "mergemaps":
		return fmt.Sprintf("CMergeMaps %s %s %s", hx.CoqValMap(c.A), hx.CoqValMap(c.B), c04CoqRes(obs))
	case "tables":
		return fmt.Sprintf("CTables %s %s %s %s", hx.CoqBool(c.Merge), hx.CoqValMap(c.A), hx.CoqValMap(c.B), c04CoqRes(obs))
	case "coalesce":
		api := map[string]string{"CoalesceValues": "ACoalesceValues", "MergeValues": "AMergeValues", "ToRenderValues": "AToRenderValues"}[c.API]
		return fmt.Sprintf("CCoalesce %s %s %s %s", api, c04CoqChart(c.Chart), hx.CoqValMap(c.Vals), c04CoqRes(obs))
	}
	return "CFiles [] RErr"
}

func (*c04) Class(ci, oi any) string {
	c, obs := ci.(c04Case), oi.(c04Obs)
	s := c.Tag
	if s == "" {
		s = c.Kind
	}
	if obs.Err != "" {
		s += "/error"
	}
	return s
}

// c04Sources lists the sources of a case low -> high precedence (for NonTrivial).
func c04Sources(c c04Case) []vtree {
	switch c.Kind {
	case "files":
		return c.Files
	case "mergemaps", "tables":
		return []vtree{c.A, c.B}
	case "coalesce":
		return []vtree{c.Chart.Values, c.Vals}
	case "upgrade":
		return []vtree{c.Upgrade.Vals1, c.Upgrade.Vals2}
	}
	return nil
}

// c04Touched: for opts/parse cases, did a flag value land on something that was already there
// (an earlier source or dest)?
func c04Touched(c c04Case, out vtree) bool {
	switch c.Kind {
	case "opts":
		n := len(c.Opts.Files) + len(c.Opts.JSON) + len(c.Opts.Set) + len(c.Opts.SetString) + len(c.Opts.SetFile) + len(c.Opts.Literal)
		fam := 0
		for _, l := range [][]string{c.Opts.JSON, c.Opts.Set, c.Opts.SetString, c.Opts.SetFile, c.Opts.Literal} {
			if len(l) > 0 {
				fam++
			}
		}
		if len(c.Opts.Files) > 0 {
			fam++
		}
		return n >= 2 && fam >= 2
	case "parse":
		return len(c.Parse.Dest) > 0 && len(c.Parse.S) > 0 && !vtEqual(c.Parse.Dest, out)
	}
	return false
}

func (*c04) NonTrivial(ci, oi any) bool {
	c, obs := ci.(c04Case), oi.(c04Obs)
	if obs.Err != "" || obs.Panic != "" {
		return false
	}
	if c.Kind == "opts" || c.Kind == "parse" {
		out, _ := orAsTree(obs.Out)
		return c04Touched(c, out)
	}
	seen := map[string]int{}
	for _, s := range c04Sources(c) {
		for _, p := range vtPaths(s) {
			seen[strings.Join(p, "\x00")]++
		}
	}
	for _, n := range seen {
		if n >= 2 {
			return true
		}
	}
	return false
}

func c04SortedKeys(m vtree) []string {
	ks := make([]string, 0, len(m))
	for k := range m {
		ks = append(ks, k)
	}
	sort.Strings(ks)
	return ks
}

package main

// C16, sandbox kinds: every call runs in a fresh temporary directory
//
//   <tmp>/outside/target      a canary file
//   <tmp>/outside/dir/keep    a canary directory
//   <tmp>/work/dest           the destination (a strict subdirectory), with files/dirs/symlinks
//                             planted by the case
//
// and the tree is snapshotted (path -> type + sha256 / link target) before and after.
// Oracle: every path that differs lies inside the destination; nothing was written through
// a planted symlink.
//
//   expand    chartutil.Expand / ExpandFile on a generated tar stream
//   extract   installer.TarGzExtractor.Extract (the plugin installer's extractor)
//   download  downloader.ChartDownloader.DownloadTo from a local httptest server
//   lock      downloader.Manager.Update on <tmp>/work/dest (a chart with a file:// dependency)
//             with something planted at Chart.lock / requirements.lock; also compared with Chart/Lock.v

import (
	"bytes"
	"crypto/sha256"
	"encoding/hex"
	"fmt"
	"io"
	"math/rand"
	"net/http"
	"net/http/httptest"
	"net/url"
	"os"
	"path/filepath"
	"sort"
	"strings"

	chartutil "helm.sh/helm/v4/pkg/chart/v2/util"
	"helm.sh/helm/v4/pkg/cli"
	"helm.sh/helm/v4/pkg/downloader"
	"helm.sh/helm/v4/pkg/getter"
	"helm.sh/helm/v4/pkg/plugin/installer"

	"verif/harness/internal/chartx"
	"verif/harness/internal/hx"
)

type c16Plant struct {
	Path   string `json:"path"`             // relative to the destination
	Kind   string `json:"kind"`             // file | dir | symlink
	Target string `json:"target,omitempty"` // symlink target; "$OUT" is replaced by <tmp>/outside
}

func c16Snapshot(root string) map[string]string {
	snap := map[string]string{}
	filepath.Walk(root, func(p string, fi os.FileInfo, err error) error {
		if err != nil {
			return nil
		}
		rel, _ := filepath.Rel(root, p)
		switch {
		case fi.Mode()&os.ModeSymlink != 0:
			t, _ := os.Readlink(p)
			snap[rel] = "symlink:" + t
		case fi.IsDir():
			snap[rel] = "dir"
		default:
			b, _ := os.ReadFile(p)
			h := sha256.Sum256(b)
			snap[rel] = "file:" + hex.EncodeToString(h[:8])
		}
		return nil
	})
	return snap
}

func c16Diff(a, b map[string]string) []string {
	var out []string
	for k, v := range a {
		if b[k] != v {
			out = append(out, k)
		}
	}
	for k := range b {
		if _, ok := a[k]; !ok {
			out = append(out, k)
		}
	}
	sort.Strings(out)
	return out
}

func c16Setup(c *c16Case) (tmp, dest string, err error) {
	tmp, err = os.MkdirTemp("", "c16-")
	if err != nil {
		return "", "", err
	}
	// resolve symlinks in the temp path itself so that lexical comparisons are meaningful
	if r, e := filepath.EvalSymlinks(tmp); e == nil {
		tmp = r
	}
	os.MkdirAll(filepath.Join(tmp, "outside", "dir"), 0o755)
	os.WriteFile(filepath.Join(tmp, "outside", "target"), []byte("digest: canary\n"), 0o644) // parses as a lock file, so a chart whose lock is a symlink to it still loads
	os.WriteFile(filepath.Join(tmp, "outside", "dir", "keep"), []byte("keep"), 0o644)
	dest = filepath.Join(tmp, "work", "dest")
	os.MkdirAll(dest, 0o755)
	for _, p := range c.Plant {
		full := filepath.Join(dest, filepath.FromSlash(p.Path))
		os.MkdirAll(filepath.Dir(full), 0o755)
		switch p.Kind {
		case "file":
			os.WriteFile(full, []byte("digest: planted\n"), 0o644)
		case "dir":
			os.MkdirAll(full, 0o755)
		case "symlink":
			os.Symlink(strings.ReplaceAll(p.Target, "$OUT", filepath.Join(tmp, "outside")), full)
		}
	}
	return tmp, dest, nil
}

func c16NodeKind(p string) string {
	fi, err := os.Lstat(p)
	switch {
	case err != nil:
		return "none"
	case fi.Mode()&os.ModeSymlink != 0:
		return "symlink"
	case fi.IsDir():
		return "dir"
	}
	return "file"
}

const c16DepChart = "apiVersion: v2\nname: dep\nversion: 0.1.0\n"

func c16ExecSandbox(c *c16Case) (obs c16Obs) {
	tmp, dest, err := c16Setup(c)
	if err != nil {
		return c16Obs{Panic: "setup: " + err.Error()}
	}
	defer os.RemoveAll(tmp)
	var srv *httptest.Server
	var gz []byte
	switch c.Kind {
	case "expand", "extract":
		gz = c16Gzip(c)
	case "download":
		srv = httptest.NewServer(http.HandlerFunc(func(w http.ResponseWriter, _ *http.Request) {
			w.Header().Set("Content-Type", "application/gzip")
			w.Write([]byte("chart-bytes"))
		}))
		defer srv.Close()
	case "lock":
		// the chart lives in the destination; the dependency next to it (inside work/, outside dest)
		dep := filepath.Join(tmp, "work", "dep")
		os.MkdirAll(dep, 0o755)
		os.WriteFile(filepath.Join(dep, "Chart.yaml"), []byte(c16DepChart), 0o644)
		deps := "dependencies:\n- name: dep\n  version: 0.1.0\n  repository: file://../dep\n"
		if c.Legacy {
			os.WriteFile(filepath.Join(dest, "Chart.yaml"), []byte("apiVersion: v1\nname: top\nversion: 0.1.0\n"), 0o644)
			os.WriteFile(filepath.Join(dest, "requirements.yaml"), []byte(deps), 0o644)
		} else {
			os.WriteFile(filepath.Join(dest, "Chart.yaml"), []byte("apiVersion: v2\nname: top\nversion: 0.1.0\n"+deps), 0o644)
		}
		os.MkdirAll(filepath.Join(tmp, "work", "helm"), 0o755)
	}
	lockName := "Chart.lock"
	if c.Legacy {
		lockName = "requirements.lock"
	}
	obs.LockPre = c16NodeKind(filepath.Join(dest, lockName))
	before := c16Snapshot(tmp)
	func() {
		defer func() {
			if r := recover(); r != nil {
				obs.Panic = fmt.Sprint(r)
			}
		}()
		var err error
		switch c.Kind {
		case "expand":
			if c.Note == "file" {
				src := filepath.Join(tmp, "work", "in.tgz")
				os.WriteFile(src, gz, 0o644)
				before = c16Snapshot(tmp)
				err = chartutil.ExpandFile(dest, src)
			} else {
				err = chartutil.Expand(dest, bytes.NewReader(gz))
			}
		case "extract":
			err = (&installer.TarGzExtractor{}).Extract(bytes.NewBuffer(gz), dest)
		case "download":
			dl := &downloader.ChartDownloader{Out: io.Discard, Verify: downloader.VerifyNever, Getters: getter.All(cli.New()),
				RepositoryConfig: filepath.Join(tmp, "work", "helm", "repositories.yaml"), RepositoryCache: filepath.Join(tmp, "work", "helm", "cache")}
			var out string
			out, _, err = dl.DownloadTo(srv.URL+c.URLPath, "", dest)
			if err == nil {
				obs.Path = filepath.Base(out)
			}
			if u, e := url.Parse(srv.URL + c.URLPath); e == nil {
				obs.URLPathDecoded = u.Path
			} else {
				obs.URLPathDecoded = "\x00unparsable"
			}
		case "lock":
			m := &downloader.Manager{Out: io.Discard, ChartPath: dest, SkipUpdate: true, Getters: getter.All(cli.New()),
				RepositoryConfig: filepath.Join(tmp, "work", "helm", "repositories.yaml"), RepositoryCache: filepath.Join(tmp, "work", "helm", "cache")}
			err = m.Update()
		}
		if err != nil {
			obs.Err = "error"
			if strings.Contains(err.Error(), "cannot derive a file name") {
				obs.Err = "noname"
			}
		}
	}()
	after := c16Snapshot(tmp)
	obs.Changed = c16Diff(before, after)
	obs.LockPost = c16NodeKind(filepath.Join(dest, lockName))
	return obs
}

func c16OracleSandbox(c *c16Case, obs *c16Obs) []hx.Violation {
	var vs []hx.Violation
	inside := "work/dest"
	for _, p := range obs.Changed {
		if p == inside || strings.HasPrefix(p, inside+"/") {
			continue
		}
		if strings.HasPrefix(p, "work/helm") { // Helm's own cache/config directory, not a destination
			continue
		}
		sig := "C16:" + c.Kind + "-writes-outside-destination"
		vs = append(vs, hx.Violation{Sig: sig, What: fmt.Sprintf("%s changed %q, which is outside the destination directory (plants %v, url path %q)", c.Kind, p, c.Plant, c.URLPath)})
		break
	}
	if c.Kind == "lock" && obs.LockPre == "symlink" && obs.Err == "" {
		vs = append(vs, hx.Violation{Sig: "C16:lock-written-through-symlink", What: "Manager.Update succeeded although a symlink is planted at the lock path"})
	}
	if c.Kind == "lock" && obs.LockPre == "symlink" && obs.LockPost != "symlink" {
		vs = append(vs, hx.Violation{Sig: "C16:lock-symlink-replaced", What: "the symlink at the lock path was replaced"})
	}
	return vs
}

func c16CoqSandbox(c *c16Case, obs *c16Obs) string {
	if c.Kind == "download" {
		// compare only when the URL parsed, the download itself worked or was refused for its
		// name, and nothing is planted at the target (a planted symlink is the oracle's business)
		if strings.HasPrefix(obs.URLPathDecoded, "\x00") || len(c.Plant) > 0 || obs.Err == "error" {
			return "COracleOnly"
		}
		o := "None"
		if obs.Err == "" {
			o = "(Some " + chartx.CoqStr(obs.Path) + ")"
		}
		return fmt.Sprintf("CDownload %s %s", chartx.CoqStr(obs.URLPathDecoded), o)
	}
	if c.Kind != "lock" {
		return "COracleOnly"
	}
	pre := "None"
	if len(c.Plant) > 1 || (len(c.Plant) == 1 && c.Plant[0].Path != "Chart.lock" && c.Plant[0].Path != "requirements.lock") {
		return "COracleOnly" // other plants can stop Update before it reaches writeLock
	}
	for _, p := range c.Plant {
		if p.Path == "Chart.lock" || p.Path == "requirements.lock" {
			switch p.Kind {
			case "file":
				pre = `(Some (NFile "planted"))`
			case "dir":
				pre = "(Some NDir)"
			case "symlink":
				pre = "(Some (NSymlink " + chartx.CoqStr(strings.ReplaceAll(p.Target, "$OUT", "/sandbox/outside")) + "))"
			}
		}
	}
	o := "LWritten"
	if obs.Err != "" {
		o = "LRefused"
	}
	outside := false
	for _, p := range obs.Changed {
		if strings.HasPrefix(p, "outside") {
			outside = true
		}
	}
	// the model speaks about the lock path only when Update got as far as writeLock: a
	// refusal is also what a failure before that point looks like
	return fmt.Sprintf("CLock %s %s %s %s", pre, hx.CoqBool(c.Legacy), o, hx.CoqBool(outside))
}

var c16PlantPool = []c16Plant{
	{Path: "mychart", Kind: "symlink", Target: "$OUT/dir"},
	{Path: "mychart", Kind: "symlink", Target: "../../outside/dir"},
	{Path: "mychart/templates", Kind: "symlink", Target: "$OUT/dir"},
	{Path: "mychart/templates/a.yaml", Kind: "symlink", Target: "$OUT/target"},
	{Path: "mychart/Chart.yaml", Kind: "symlink", Target: "$OUT/target"},
	{Path: "mychart/Chart.yaml", Kind: "symlink", Target: "../../../outside/target"},
	{Path: "mychart/new", Kind: "symlink", Target: "$OUT/created-by-write"},
	{Path: "mychart/files", Kind: "file"},
	{Path: "mychart", Kind: "file"},
	{Path: "bin", Kind: "symlink", Target: "$OUT/dir"},
	{Path: "plugin.yaml", Kind: "symlink", Target: "$OUT/target"},
	{Path: "bin/x", Kind: "symlink", Target: "$OUT/target"},
	{Path: "loop", Kind: "symlink", Target: "loop"},
	{Path: "a", Kind: "symlink", Target: "/"},
	{Path: "x.tgz", Kind: "symlink", Target: "$OUT/target"},
	{Path: "chart-1.0.0.tgz", Kind: "symlink", Target: "$OUT/target"},
}

var c16URLPaths = []string{"/charts/chart-1.0.0.tgz", "/charts/x.tgz", "/x.tgz", "/charts/..%2F..%2Fx.tgz", "/charts/%2e%2e", "/charts/..", "/", "/charts/",
	"/charts/.", "/a/b/../../../../x.tgz", "/charts/x.tgz?file=../../y", "/charts/%2Fabs.tgz", "/charts/..%5C..%5Cx.tgz", "/c%00.tgz", "//x.tgz", "/charts/x.tgz/"}

func c16GenSandbox(r *rand.Rand) c16Case {
	switch r.Intn(5) {
	case 0: // download
		c := c16Case{Kind: "download", URLPath: c16URLPaths[r.Intn(len(c16URLPaths))]}
		if r.Intn(3) == 0 {
			c.Plant = append(c.Plant, c16PlantPool[len(c16PlantPool)-1-r.Intn(2)])
		}
		return c
	case 1: // lock
		c := c16Case{Kind: "lock", Legacy: r.Intn(3) == 0}
		name := "Chart.lock"
		if c.Legacy {
			name = "requirements.lock"
		}
		switch r.Intn(7) {
		case 0:
		case 1:
			c.Plant = []c16Plant{{Path: name, Kind: "file"}}
		case 2:
			c.Plant = []c16Plant{{Path: name, Kind: "dir"}}
		case 3:
			c.Plant = []c16Plant{{Path: name, Kind: "symlink", Target: "$OUT/target"}}
		case 4:
			c.Plant = []c16Plant{{Path: name, Kind: "symlink", Target: "../../outside/target"}}
		case 5:
			c.Plant = []c16Plant{{Path: name, Kind: "symlink", Target: "$OUT/dangling"}}
		case 6:
			c.Plant = []c16Plant{{Path: name, Kind: "symlink", Target: "other.lock"}}
		}
		if r.Intn(4) == 0 { // also something at the other lock name and in charts/
			c.Plant = append(c.Plant, c16Plant{Path: "charts", Kind: "symlink", Target: "$OUT/dir"})
		}
		return c
	default: // expand / extract
		c := c16GenArch(r)
		c.MaxTotal, c.MaxFile = 0, 0
		c.Kind = []string{"expand", "extract"}[r.Intn(2)]
		if c.Kind == "extract" && r.Intn(2) == 0 {
			// a plain plugin archive (directories and regular files, relative names): the
			// interesting part is then what is planted in the destination
			c.Ents, c.Flips, c.Cut, c.NoEnd = nil, nil, 0, false
			c.Ents = append(c.Ents, c16Ent{Name: "plugin.yaml", Type: '0', Mode: 0o644, Size: -1, Data: []byte("name: p\n")})
			if r.Intn(2) == 0 {
				c.Ents = append(c.Ents, c16Ent{Name: "bin", Type: '5', Mode: 0o755})
			}
			for i := r.Intn(4); i > 0; i-- {
				n := []string{"bin/x", "README.md", "a/b/c", "mychart/new", "./dot/rel", "docs//double", "x.tgz"}[r.Intn(7)]
				if !strings.Contains(n, "/") || r.Intn(2) == 0 {
					c.Ents = append(c.Ents, c16Ent{Name: n, Type: '0', Mode: 0o755, Size: -1, Data: c16Data(r, r.Intn(30))})
				}
			}
		}
		if c.Kind == "expand" {
			name := []string{"mychart", "mychart", "mychart", "../evil", "/abs", "a/b", "..", ".", "", "my\\chart"}[r.Intn(10)]
			first := c16Ent{Name: "x/Chart.yaml", Type: '0', Mode: 0o644, Size: -1, Data: []byte(fmt.Sprintf("apiVersion: v2\nname: %q\nversion: 0.1.0\n", name))}
			c.Ents = append([]c16Ent{first}, c.Ents...)
			if r.Intn(3) == 0 {
				c.Note = "file"
			}
		}
		for i := r.Intn(3); i > 0; i-- {
			c.Plant = append(c.Plant, c16PlantPool[r.Intn(len(c16PlantPool))])
		}
		return c
	}
}

func c16CorpusSandbox() []any {
	var out []any
	reg := func(name, data string) c16Ent {
		return c16Ent{Name: name, Type: '0', Mode: 0o644, Size: -1, Data: []byte(data)}
	}
	chartYaml := reg("x/Chart.yaml", "apiVersion: v2\nname: mychart\nversion: 0.1.0\n")
	// Expand into a destination where the chart directory / a file position is a planted symlink
	for _, p := range c16PlantPool[:9] {
		out = append(out, c16Case{Kind: "expand", Plant: []c16Plant{p}, Ents: []c16Ent{chartYaml, reg("x/templates/a.yaml", "a"), reg("x/new", "n"), reg("x/files/f", "f")}})
	}
	out = append(out, c16Case{Kind: "expand", Ents: []c16Ent{reg("x/Chart.yaml", "apiVersion: v2\nname: ../../outside/evil\nversion: 0.1.0\n"), reg("x/f", "f")}})
	out = append(out, c16Case{Kind: "expand", Note: "file", Ents: []c16Ent{chartYaml, {Name: "x/link", Type: '2', Mode: 0o777, Link: "../../outside/target"}, reg("x/link", "through?")}})
	// plugin extractor
	for _, p := range c16PlantPool[9:14] {
		out = append(out, c16Case{Kind: "extract", Plant: []c16Plant{p}, Ents: []c16Ent{reg("plugin.yaml", "name: p"), {Name: "bin", Type: '5', Mode: 0o755}, reg("bin/x", "#!/bin/sh"), reg("a/etc/x", "x")}})
	}
	for _, n := range []string{"../escape", "/abs", "a/../../b", "c:evil", "a\\..\\..\\b", "./ok", "dir/"} {
		out = append(out, c16Case{Kind: "extract", Ents: []c16Ent{reg(n, "data")}})
	}
	out = append(out, c16Case{Kind: "extract", Ents: []c16Ent{{Name: "l", Type: '2', Mode: 0o777, Link: "../../outside/target"}, reg("l", "x")}})
	// DownloadTo: the file name comes from the URL
	for _, u := range c16URLPaths {
		out = append(out, c16Case{Kind: "download", URLPath: u})
	}
	out = append(out, c16Case{Kind: "download", URLPath: "/charts/x.tgz", Plant: []c16Plant{{Path: "x.tgz", Kind: "symlink", Target: "$OUT/target"}}})
	// lock file: F9 witnesses (fixed by 2970e48) and the other shapes
	for _, legacy := range []bool{false, true} {
		name := "Chart.lock"
		if legacy {
			name = "requirements.lock"
		}
		out = append(out, c16Case{Kind: "lock", Legacy: legacy})
		out = append(out, c16Case{Kind: "lock", Legacy: legacy, Plant: []c16Plant{{Path: name, Kind: "symlink", Target: "$OUT/target"}}})
		out = append(out, c16Case{Kind: "lock", Legacy: legacy, Plant: []c16Plant{{Path: name, Kind: "symlink", Target: "../../outside/target"}}})
		out = append(out, c16Case{Kind: "lock", Legacy: legacy, Plant: []c16Plant{{Path: name, Kind: "symlink", Target: "$OUT/dangling"}}})
		out = append(out, c16Case{Kind: "lock", Legacy: legacy, Plant: []c16Plant{{Path: name, Kind: "file"}}})
		out = append(out, c16Case{Kind: "lock", Legacy: legacy, Plant: []c16Plant{{Path: name, Kind: "dir"}}})
	}
	return out
}

func c16Exhaustive(tier string) []any { return c16ExhaustivePath(tier) }

package main

import (
	"math/rand"

	"verif/harness/internal/hx"
)

type c16Plant struct {
	Path   string `json:"path"`
	Kind   string `json:"kind"` // file | dir | symlink
	Target string `json:"target,omitempty"`
}

func c16ExecSandbox(c *c16Case) c16Obs                        { return c16Obs{} }
func c16OracleSandbox(c *c16Case, obs *c16Obs) []hx.Violation { return nil }
func c16CoqSandbox(c *c16Case, obs *c16Obs) string            { return "COracleOnly" }
func c16GenSandbox(r *rand.Rand) c16Case                      { return c16GenJoin(r) }
func c16CorpusSandbox() []any                                 { return nil }
func c16Exhaustive(tier string) []any                         { return nil }

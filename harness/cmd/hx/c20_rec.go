package main

// C20 recursion stream: the depth accounting of include / tpl (pkg/engine/engine.go includeFun,
// tplFun) on the real engine, compared with the state machine of coq/Misc/PanicsRec.v.
//
// A case is a small program: a forest of calls (include NAME / tpl TEXT / the `template` action),
// each nested `rep` times around its body; a tpl node may vary its text from level to level.
// One fixed chart interprets it: the program is handed over as .Values.prog and walked by
// templates, so that `include .node.n`, `tpl <text built from the node>` and `template` are
// really called in the given nesting.  Every call entered prints one "x"; observed = ok with the
// number of x, or err.  The model runs the same calls through the transcribed counters
// (recursionMaxNums, the per-name counters, the total include counter of 55109f6, the tpl counter
// of 156f591, the engine's abort on the first refused call).

import (
	"fmt"
	"math/rand"
	"strings"

	chart "helm.sh/helm/v4/pkg/chart/v2"
	chartutil "helm.sh/helm/v4/pkg/chart/v2/util"
	"helm.sh/helm/v4/pkg/engine"

	"verif/harness/internal/hx"
)

type c20RecNode struct {
	K    string        `json:"k"` // include tpl template
	N    string        `json:"n"` // include: template name (a b c defined, zz not); tpl: tag of the text
	Vary bool          `json:"vary"`
	Rep  int           `json:"rep"`
	Body []*c20RecNode `json:"body,omitempty"`
}

type c20RecC struct {
	Prog []*c20RecNode `json:"prog"`
}

var c20RecDefined = []string{"a", "b", "c", "tm"}

const c20RecTemplate = `{{- define "run" -}}
{{- range .body -}}{{ template "call" (dict "node" . "rep" (int .rep)) }}{{- end -}}
{{- end -}}
{{- define "call" -}}
{{- if le .rep 0 -}}{{ template "run" .node }}
{{- else if eq .node.k "include" -}}{{ include .node.n . }}
{{- else if eq .node.k "tpl" -}}{{ tpl (print "{{/*" .node.n (ternary (print "#" .rep) "" .node.vary) "*/}}x{{ template \"call\" (dict \"node\" .node \"rep\" (sub .rep 1)) }}") . }}
{{- else -}}{{ template "tm" . }}
{{- end -}}
{{- end -}}
{{- define "a" -}}x{{ template "call" (dict "node" .node "rep" (sub .rep 1)) }}{{- end -}}
{{- define "b" -}}x{{ template "call" (dict "node" .node "rep" (sub .rep 1)) }}{{- end -}}
{{- define "c" -}}x{{ template "call" (dict "node" .node "rep" (sub .rep 1)) }}{{- end -}}
{{- define "tm" -}}x{{ template "call" (dict "node" .node "rep" (sub .rep 1)) }}{{- end -}}
out: {{ template "run" (dict "body" .Values.prog) }}
`

func c20RecData(ns []*c20RecNode) []interface{} {
	out := make([]interface{}, 0, len(ns))
	for _, n := range ns {
		out = append(out, map[string]interface{}{"k": n.K, "n": n.N, "vary": n.Vary, "rep": n.Rep, "body": c20RecData(n.Body)})
	}
	return out
}

// depth of nesting of calls of kind k along the deepest path
func c20RecDepth(ns []*c20RecNode, k string) int {
	best := 0
	for _, n := range ns {
		d := c20RecDepth(n.Body, k)
		if n.K == k && n.Rep > 0 {
			d += n.Rep
		}
		if d > best {
			best = d
		}
	}
	return best
}

func c20RecUndefined(ns []*c20RecNode) bool {
	for _, n := range ns {
		if n.K == "include" && n.N == "zz" && n.Rep > 0 {
			return true
		}
		if c20RecUndefined(n.Body) {
			return true
		}
	}
	return false
}

func (c *c20RecC) malformed() bool {
	return c20RecDepth(c.Prog, "tpl") > 900 || c20RecDepth(c.Prog, "include") > 900 || c20RecUndefined(c.Prog)
}

func c20RecCorpus() []any {
	var out []any
	add := func(p ...*c20RecNode) { out = append(out, c20Case{Kind: "rec", Rec: &c20RecC{Prog: p}}) }
	inc := func(n string, rep int, body ...*c20RecNode) *c20RecNode {
		return &c20RecNode{K: "include", N: n, Rep: rep, Body: body}
	}
	tpl := func(n string, vary bool, rep int, body ...*c20RecNode) *c20RecNode {
		return &c20RecNode{K: "tpl", N: n, Vary: vary, Rep: rep, Body: body}
	}
	tm := func(rep int, body ...*c20RecNode) *c20RecNode {
		return &c20RecNode{K: "template", N: "tm", Rep: rep, Body: body}
	}
	add(inc("a", 1), tpl("t", false, 1), tm(1))
	add(inc("a", 2, tpl("t", true, 2, tm(2, inc("b", 1)))), inc("c", 1))
	// around the bound: max+1 = 1001 nested frames are accepted, the next is refused
	for _, n := range []int{1000, 1001, 1002} {
		add(tpl("t", false, n))
		add(tpl("t", true, n)) // the text differs at every level (seeded C20-7: counted per text)
		add(inc("a", n))
	}
	add(tpl("t", true, 1005, inc("a", 1)))
	add(tpl("t", true, 600, tpl("u", true, 402))) // two different families of texts
	add(tpl("t", true, 600, tpl("u", false, 401)))
	add(tpl("t", false, 500, inc("a", 3, tpl("u", true, 502))))
	// include over several names: 500 + 500 + 2 nested includes, none of the names above 500
	// (before 55109f6 this rendered; a cycle of 200 names ran out of stack)
	add(inc("a", 500, inc("b", 500, inc("c", 2))))
	add(inc("a", 500, inc("b", 500, inc("c", 1))))
	add(inc("a", 400, tpl("t", true, 3, inc("b", 400, tm(2, inc("c", 202))))))
	// siblings do not accumulate: the counters are given back
	var many []*c20RecNode
	for i := 0; i < 1200; i++ {
		many = append(many, inc("a", 1), tpl("t", false, 1))
	}
	add(many...)
	add(inc("a", 1000, inc("a", 1), inc("a", 1)), inc("a", 1001))
	add(inc("zz", 1))
	add(inc("a", 2, inc("zz", 1)), inc("b", 1))
	add(tm(50, inc("a", 2)))
	return out
}

func c20GenRecNodes(r *rand.Rand, depth int, deep *bool) []*c20RecNode {
	var out []*c20RecNode
	for i := 0; i < r.Intn(3)+boolInt(depth == 0); i++ {
		n := &c20RecNode{Rep: 1 + r.Intn(3)}
		switch r.Intn(7) {
		case 0, 1, 2:
			n.K, n.N = "include", []string{"a", "b", "c"}[r.Intn(3)]
			if r.Intn(40) == 0 {
				n.N = "zz"
			}
		case 3, 4, 5:
			n.K, n.N, n.Vary = "tpl", []string{"t", "u"}[r.Intn(2)], r.Intn(2) == 0
		default:
			n.K, n.N = "template", "tm"
		}
		if *deep && n.K != "template" && r.Intn(2) == 0 {
			*deep = false
			n.Rep = []int{333, 500, 700, 998, 999, 1000, 1001, 1002, 1003, 1010}[r.Intn(10)]
		}
		if depth < 3 {
			n.Body = c20GenRecNodes(r, depth+1, deep)
		}
		out = append(out, n)
	}
	return out
}

func boolInt(b bool) int {
	if b {
		return 1
	}
	return 0
}

func c20GenRec(r *rand.Rand) *c20RecC {
	every := 8
	if c20Tier == "thorough" { // a nest of 1000 tpl levels costs up to 0.7 s: rarer among 60 000 cases
		every = 24
	}
	deep := r.Intn(every) == 0
	second := deep && r.Intn(2) == 0
	c := &c20RecC{Prog: c20GenRecNodes(r, 0, &deep)}
	if second { // a second long nest somewhere else: sums along one path cross the bound
		c.Prog = append(c.Prog, c20GenRecNodes(r, 2, &second)...)
		if len(c.Prog) > 0 && r.Intn(2) == 0 {
			outer := &c20RecNode{K: []string{"include", "tpl"}[r.Intn(2)], N: "a", Rep: []int{400, 600, 1000}[r.Intn(3)], Body: c.Prog}
			if outer.K == "tpl" {
				outer.N, outer.Vary = "t", true
			}
			c.Prog = []*c20RecNode{outer}
		}
	}
	return c
}

func c20ExecRec(c *c20RecC) c20Obs {
	obs := c20Obs{}
	class, msg := c20Guard("engine.Render (include/tpl program)", c20Timeout, func() {
		ch := &chart.Chart{Metadata: &chart.Metadata{Name: "rec", Version: "1.0.0", APIVersion: "v2"},
			Templates: []*chart.File{{Name: "templates/run.yaml", Data: []byte(c20RecTemplate)}}}
		vals := chartutil.Values{"Values": map[string]interface{}{"prog": c20RecData(c.Prog)}, "Release": map[string]interface{}{"Name": "r"}}
		out, err := engine.Render(ch, vals)
		if err != nil {
			obs.Class = "err"
			return
		}
		obs.Class = "ok"
		obs.Extra = map[string]any{"calls": strings.Count(out["rec/templates/run.yaml"], "x")}
	})
	if class != "" {
		obs.Class, obs.Panic, obs.Where = class, msg, "engine.Render"
	}
	return obs
}

// the property's own sentence, without the model: nesting deeper than the bound is refused
func c20OracleRec(c *c20RecC, obs c20Obs) []hx.Violation {
	var vs []hx.Violation
	if obs.Class != "ok" {
		return nil
	}
	if d := c20RecDepth(c.Prog, "tpl"); d > c20EngineRecursionMax+1 {
		vs = append(vs, hx.Violation{Sig: "C20:tpl-nesting-unbounded", What: fmt.Sprintf("tpl nested %d levels deep (bound %d) rendered without an error: the depth of tpl recursion is not bounded by recursionMaxNums", d, c20EngineRecursionMax)})
	}
	if d := c20RecDepth(c.Prog, "include"); d > c20EngineRecursionMax+1 {
		vs = append(vs, hx.Violation{Sig: "C20:include-nesting-unbounded", What: fmt.Sprintf("include nested %d levels deep over several names (bound %d) rendered without an error", d, c20EngineRecursionMax)})
	}
	return vs
}

func c20CoqRecNodes(ns []*c20RecNode) string {
	it := make([]string, 0, len(ns))
	for _, n := range ns {
		k := map[string]string{"include": "KInclude", "tpl": "KTpl", "template": "KTemplate"}[n.K]
		rep := n.Rep
		if rep < 0 {
			rep = 0
		}
		it = append(it, fmt.Sprintf("RCall %s %s %s %d %s", k, hx.CoqStr(n.N), hx.CoqBool(n.Vary), rep, c20CoqRecNodes(n.Body)))
	}
	return "[" + strings.Join(it, "; ") + "]"
}

func c20CoqRec(c *c20RecC, obs c20Obs) string {
	calls := 0
	if obs.Extra != nil {
		switch v := obs.Extra["calls"].(type) {
		case int:
			calls = v
		case float64:
			calls = int(v)
		}
	}
	return fmt.Sprintf("CRec %s %s (%s, %d%%Z)", c20CoqRecNodes(c.Prog), hx.CoqStrList(c20RecDefined), c20Cls(obs.Class), calls)
}

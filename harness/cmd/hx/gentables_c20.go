package main

// Translator tables for C20: the keys of the `events` map of manifest_sorter.go (which hook
// annotations are known) and the two strvals limits.  Regenerated into coq/Gen/C20Tables.v
// on every run.

import (
	"fmt"
	"go/ast"
	"go/token"
	"sort"
)

func init() { registerTable("C20Tables", genC20Tables) }

func genC20Tables(repo string) (string, error) {
	hf, _, err := parseFile(repo, "pkg/release/v1/hook.go")
	if err != nil {
		return "", err
	}
	names, vals := constStrings(hf, "HookEvent")
	ev := map[string]string{}
	for i := range names {
		ev[names[i]] = vals[i]
	}
	mf, _, err := parseFile(repo, "pkg/release/util/manifest_sorter.go")
	if err != nil {
		return "", err
	}
	var pairs [][2]string
	found := false
	for _, d := range mf.Decls {
		gd, ok := d.(*ast.GenDecl)
		if !ok || gd.Tok != token.VAR {
			continue
		}
		for _, s := range gd.Specs {
			vs := s.(*ast.ValueSpec)
			for i, n := range vs.Names {
				if n.Name != "events" || i >= len(vs.Values) {
					continue
				}
				cl, ok := vs.Values[i].(*ast.CompositeLit)
				if !ok {
					return "", fmt.Errorf("events is not a composite literal")
				}
				found = true
				for _, e := range cl.Elts {
					kv, ok := e.(*ast.KeyValueExpr)
					if !ok {
						return "", fmt.Errorf("events: unexpected element")
					}
					// value: release.HookXxx
					vsel, ok := kv.Value.(*ast.SelectorExpr)
					if !ok {
						return "", fmt.Errorf("events: unexpected value form")
					}
					val, ok := ev[vsel.Sel.Name]
					if !ok {
						return "", fmt.Errorf("events: unknown constant %s", vsel.Sel.Name)
					}
					if s, ok := strLit(kv.Key); ok {
						pairs = append(pairs, [2]string{s, val})
						continue
					}
					// key: release.HookXxx.String()
					call, ok := kv.Key.(*ast.CallExpr)
					if !ok {
						return "", fmt.Errorf("events: unexpected key form")
					}
					sel, ok := call.Fun.(*ast.SelectorExpr)
					if !ok || sel.Sel.Name != "String" {
						return "", fmt.Errorf("events: unexpected key call")
					}
					inner, ok := sel.X.(*ast.SelectorExpr)
					if !ok {
						return "", fmt.Errorf("events: unexpected key receiver")
					}
					k, ok := ev[inner.Sel.Name]
					if !ok {
						return "", fmt.Errorf("events: unknown constant %s", inner.Sel.Name)
					}
					pairs = append(pairs, [2]string{k, val})
				}
			}
		}
	}
	if !found {
		return "", fmt.Errorf("events map not found")
	}
	sort.Slice(pairs, func(i, j int) bool { return pairs[i][0] < pairs[j][0] })
	var ks, vs []string
	for _, p := range pairs {
		ks = append(ks, p[0])
		vs = append(vs, p[1])
	}

	pf, _, err := parseFile(repo, "pkg/strvals/parser.go")
	if err != nil {
		return "", err
	}
	lim := map[string]string{}
	for _, d := range pf.Decls {
		gd, ok := d.(*ast.GenDecl)
		if !ok || gd.Tok != token.VAR {
			continue
		}
		for _, s := range gd.Specs {
			vs := s.(*ast.ValueSpec)
			for i, n := range vs.Names {
				if (n.Name == "MaxIndex" || n.Name == "MaxNestedNameLevel") && i < len(vs.Values) {
					if bl, ok := vs.Values[i].(*ast.BasicLit); ok && bl.Kind == token.INT {
						lim[n.Name] = bl.Value
					}
				}
			}
		}
	}
	if lim["MaxIndex"] == "" || lim["MaxNestedNameLevel"] == "" {
		return "", fmt.Errorf("strvals limits not found")
	}
	// pkg/engine/engine.go: const recursionMaxNums = 1000 (bound of include and, since 156f591, tpl nesting)
	ef, _, err := parseFile(repo, "pkg/engine/engine.go")
	if err != nil {
		return "", err
	}
	recMax := ""
	for _, d := range ef.Decls {
		gd, ok := d.(*ast.GenDecl)
		if !ok || gd.Tok != token.CONST {
			continue
		}
		for _, s := range gd.Specs {
			vs := s.(*ast.ValueSpec)
			for i, n := range vs.Names {
				if n.Name == "recursionMaxNums" && i < len(vs.Values) {
					if bl, ok := vs.Values[i].(*ast.BasicLit); ok && bl.Kind == token.INT {
						recMax = bl.Value
					}
				}
			}
		}
	}
	if recMax == "" {
		return "", fmt.Errorf("engine recursionMaxNums not found")
	}
	return fmt.Sprintf("(* pkg/release/util/manifest_sorter.go: the events map *)\nDefinition hook_events : list (string * string) :=\n  %s.\n\n"+
		"(* pkg/strvals/parser.go *)\nDefinition strvals_max_index : Z := %s%%Z.\nDefinition strvals_max_nested_name_level : Z := %s%%Z.\n\n"+
		"(* pkg/engine/engine.go *)\nDefinition engine_recursion_max_nums : Z := %s%%Z.\n",
		coqPairs(ks, vs), lim["MaxIndex"], lim["MaxNestedNameLevel"], recMax), nil
}
